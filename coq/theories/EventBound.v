(** * The sweep terminates: an explicit bound on the number of events (C03), exact instance.

    Every division point is a vertex of an operand or the common point of two non-parallel
    input edges; [cand] lists these candidates.  The potential

      [Psi st] = number of allocated event ids + 2 * (number of (sub-segment, candidate) pairs
                 with the candidate strictly inside the sub-segment)

    never increases: a division allocates two ids and removes at least one such pair (the
    division point itself, strictly inside the divided sub-segment and inside neither half).
    Hence the number of events ever created — and so the number of iterations of the sweep loop,
    which pops every event at most once ([SweepClosure.subdivide_nodup]) — is at most
    [Psi] of the queue-filling stage: [2 * #edges * (1 + #cand) + 1]. *)
From Coq Require Import Bool List PArith NArith ZArith QArith Lqa Lia Permutation.
From GB Require Import Prim Num NumQ NumLaws NumLawsQ Event Intersect Cmp Heap Outcome Divide Fields FillQueue
  Subdivide IntersectProofs FieldsProofs SortProofs SplayKeys LinkProofs PiProofs SplitCover OnEdge OnEdgeFull SweepClosure.
From GB Require Splay.
Import ListNotations.
Local Open Scope Q_scope.

Lemma fpt_inj' a b c d : LPoint (fpt a b) = LPoint (N := NQ) (fpt c d) -> a = c /\ b = d.
Proof. intros H. inversion H. auto. Qed.

(** ** counting candidates strictly inside a segment *)
Definition inside_dec (lx ly rx ry : Q) (s : Q * Q) : {strictly_inside lx ly rx ry (fst s) (snd s)} + {~ strictly_inside lx ly rx ry (fst s) (snd s)}.
Proof.
  destruct s as [x y]. cbn [fst snd].
  (* collinear and the projection parameter strictly between 0 and 1 *)
  set (vx := rx - lx). set (vy := ry - ly). set (ex := x - lx). set (ey := y - ly).
  destruct (Qeq_dec (vx * vx + vy * vy) 0) as [Hz|Hz].
  - (* degenerate segment: nothing strictly inside *)
    right. intros ((t & Ht & Hx & Hy) & Hn1 & _). apply Hn1.
    destruct (sum_sq_zero Hz) as [Z1 Z2]. unfold vx, vy in *. split; [rewrite Hx | rewrite Hy]; nra.
  - destruct (Qeq_dec (ex * vy - ey * vx) 0) as [Hc|Hc].
    + set (t := (vx * ex + vy * ey) / (vx * vx + vy * vy)).
      destruct (proj_collinear Hz Hc) as [Px Py]. fold t in Px, Py.
      destruct (Qlt_le_dec 0 t) as [H0|H0]; [destruct (Qlt_le_dec t 1) as [H1|H1]|].
      * left. split; [|split].
        -- exists t. split; [lra|]. unfold ex, ey, vx, vy in *. split; lra.
        -- intros [K1 K2]. unfold ex, ey, vx, vy in *.
           assert (E1 : t * (rx - lx) == 0) by lra. assert (E2 : t * (ry - ly) == 0) by lra.
           destruct (Qmult_integral _ _ E1) as [K|K]; [lra|]. destruct (Qmult_integral _ _ E2) as [K'|K']; [lra|].
           apply Hz. rewrite K, K'. ring.
        -- intros [K1 K2]. unfold ex, ey, vx, vy in *.
           assert (E1 : (t - 1) * (rx - lx) == 0) by lra. assert (E2 : (t - 1) * (ry - ly) == 0) by lra.
           destruct (Qmult_integral _ _ E1) as [K|K]; [lra|]. destruct (Qmult_integral _ _ E2) as [K'|K']; [lra|].
           apply Hz. rewrite K, K'. ring.
      * right. intros ((u & Hu & Hx & Hy) & _ & Hn2).
        assert (Eu : u == t).
        { unfold ex, ey, vx, vy in *. apply (param_inj lx ly rx ry).
          - intros [K1 K2]. apply Hz. rewrite <- K1, <- K2. ring.
          - rewrite <- Hx. lra.
          - rewrite <- Hy. lra. }
        assert (U1 : u == 1) by lra. apply Hn2. split; [rewrite Hx, U1 | rewrite Hy, U1]; ring.
      * right. intros ((u & Hu & Hx & Hy) & Hn1 & _).
        assert (Eu : u == t).
        { unfold ex, ey, vx, vy in *. apply (param_inj lx ly rx ry).
          - intros [K1 K2]. apply Hz. rewrite <- K1, <- K2. ring.
          - rewrite <- Hx. lra.
          - rewrite <- Hy. lra. }
        assert (U0 : u == 0) by lra. apply Hn1. split; [rewrite Hx, U0 | rewrite Hy, U0]; ring.
    + right. intros ((u & Hu & Hx & Hy) & _). apply Hc. unfold ex, ey, vx, vy. rewrite Hx, Hy. ring.
Defined.

Definition cnt (cand : list (Q * Q)) (lx ly rx ry : Q) : nat :=
  length (filter (fun s => if inside_dec lx ly rx ry s then true else false) cand).

Lemma cnt_le cand lx ly rx ry : (cnt cand lx ly rx ry <= length cand)%nat.
Proof.
  unfold cnt. induction cand as [|a l IH]; cbn [filter length]; [lia|].
  destruct (inside_dec lx ly rx ry a); cbn [length]; lia.
Qed.

(** splitting a segment at a candidate strictly inside loses at least that candidate *)
Lemma cnt_split cand lx ly rx ry ix iy :
  strictly_inside lx ly rx ry ix iy ->
  (exists s, In s cand /\ qeqp ix iy (fst s) (snd s)) ->
  (cnt cand lx ly ix iy + cnt cand ix iy rx ry + 1 <= cnt cand lx ly rx ry)%nat.
Proof.
  intros Hin (s0 & Hs0 & Es0).
  pose proof Hin as (Hon & Hn1 & Hn2).
  assert (Dlr : ~ (rx == lx /\ ry == ly)).
  { intros [K1 K2]. destruct Hon as (t & Ht & Hx & Hy). apply Hn1. split; [rewrite Hx, K1 | rewrite Hy, K2]; ring. }
  (* each candidate contributes at most as much on the right-hand side, s0 strictly more *)
  unfold cnt.
  assert (Pt : forall s,
    ((if inside_dec lx ly ix iy s then 1 else 0) + (if inside_dec ix iy rx ry s then 1 else 0)
     + (if Qeq_dec (fst s) ix then if Qeq_dec (snd s) iy then 1 else 0 else 0)
     <= (if inside_dec lx ly rx ry s then 1 else 0))%nat).
  { intros s.
    assert (Sub1 : strictly_inside lx ly ix iy (fst s) (snd s) -> strictly_inside lx ly rx ry (fst s) (snd s) /\ ~ qeqp (fst s) (snd s) ix iy).
    { intros (O1 & A1 & A2). split; [split; [|split]|].
      - apply (proj2 (split_cover lx ly rx ry ix iy Hon (fst s) (snd s))). now left.
      - exact A1.
      - intros K. destruct (split_meet lx ly rx ry ix iy (fst s) (snd s) Dlr Hon O1) as [M1 M2].
        + eapply on_seg_eqv; [| | | | | | apply (on_seg_r ix iy rx ry)]; try reflexivity; destruct K; symmetry; assumption.
        + apply A2. split; assumption.
      - exact A2. }
    assert (Sub2 : strictly_inside ix iy rx ry (fst s) (snd s) -> strictly_inside lx ly rx ry (fst s) (snd s) /\ ~ qeqp (fst s) (snd s) ix iy).
    { intros (O1 & A1 & A2). split; [split; [|split]|].
      - apply (proj2 (split_cover lx ly rx ry ix iy Hon (fst s) (snd s))). now right.
      - intros K. destruct (split_meet lx ly rx ry ix iy (fst s) (snd s) Dlr Hon) as [M1 M2]; [|exact O1|].
        + eapply on_seg_eqv; [| | | | | | apply (on_seg_l lx ly ix iy)]; try reflexivity; destruct K; symmetry; assumption.
        + apply A1. split; assumption.
      - exact A2.
      - exact A1. }
    assert (Excl : strictly_inside lx ly ix iy (fst s) (snd s) -> strictly_inside ix iy rx ry (fst s) (snd s) -> False).
    { intros (O1 & _ & A2) (O2 & _ & _). apply A2. exact (split_meet lx ly rx ry ix iy (fst s) (snd s) Dlr Hon O1 O2). }
    destruct (inside_dec lx ly ix iy s) as [I1|I1]; destruct (inside_dec ix iy rx ry s) as [I2|I2];
      destruct (inside_dec lx ly rx ry s) as [I3|I3];
      destruct (Qeq_dec (fst s) ix) as [E1|E1]; try destruct (Qeq_dec (snd s) iy) as [E2|E2]; try lia;
      try (exfalso; now apply Excl);
      try (exfalso; apply I3; first [apply Sub1; assumption | apply Sub2; assumption]);
      try (exfalso; destruct (Sub1 I1) as [_ K]; apply K; split; assumption);
      try (exfalso; destruct (Sub2 I2) as [_ K]; apply K; split; assumption).
    (* the division point itself *)
    exfalso. apply I3. eapply strictly_inside_eqv; [| | | | | | exact Hin]; try reflexivity; symmetry; assumption. }
  assert (Sum : forall l,
    (length (filter (fun s => if inside_dec lx ly ix iy s then true else false) l)
     + length (filter (fun s => if inside_dec ix iy rx ry s then true else false) l)
     + length (filter (fun s => if Qeq_dec (fst s) ix then if Qeq_dec (snd s) iy then true else false else false) l)
     <= length (filter (fun s => if inside_dec lx ly rx ry s then true else false) l))%nat).
  { induction l as [|a l IH]; cbn [filter length]; [lia|]. specialize (Pt a).
    destruct (inside_dec lx ly ix iy a), (inside_dec ix iy rx ry a), (inside_dec lx ly rx ry a),
      (Qeq_dec (fst a) ix); try destruct (Qeq_dec (snd a) iy); cbn [length] in *; lia. }
  assert (One : (1 <= length (filter (fun s => if Qeq_dec (fst s) ix then if Qeq_dec (snd s) iy then true else false else false) cand))%nat).
  { assert (Hf : In s0 (filter (fun s => if Qeq_dec (fst s) ix then if Qeq_dec (snd s) iy then true else false else false) cand)).
    { apply filter_In. split; [exact Hs0|]. destruct Es0 as [K1 K2].
      destruct (Qeq_dec (fst s0) ix) as [_|K]; [|exfalso; apply K; symmetry; exact K1].
      destruct (Qeq_dec (snd s0) iy) as [_|K]; [reflexivity | exfalso; apply K; symmetry; exact K2]. }
    destruct (filter _ cand); [destruct Hf | cbn; lia]. }
  specialize (Sum cand). lia.
Qed.

(** ** sums over the ids of a store *)
Definition sumto (n : nat) (f : positive -> nat) : nat :=
  fold_right (fun k acc => (f (Pos.of_nat k) + acc)%nat) 0%nat (seq 1 n).

Lemma sumto_S n f : sumto (S n) f = (sumto n f + f (Pos.of_nat (S n)))%nat.
Proof.
  unfold sumto. rewrite seq_S. cbn [Nat.add]. rewrite fold_right_app. cbn [fold_right].
  generalize (seq 1 n). induction l as [|a l IH]; cbn [fold_right]; [lia|]. rewrite IH. lia.
Qed.

Lemma sumto_ext n f g : (forall i, (Pos.to_nat i <= n)%nat -> f i = g i) -> sumto n f = sumto n g.
Proof.
  induction n as [|n IH]; intros H; [reflexivity|]. rewrite !sumto_S. rewrite IH.
  - rewrite H; [reflexivity|]. rewrite Nat2Pos.id by lia. lia.
  - intros i Hi. apply H. lia.
Qed.

(** [f] and [g] agree except at [i0] *)
Lemma sumto_diff n f g i0 : (Pos.to_nat i0 <= n)%nat ->
  (forall i, (Pos.to_nat i <= n)%nat -> i <> i0 -> f i = g i) ->
  (sumto n g + f i0 = sumto n f + g i0)%nat.
Proof.
  induction n as [|n IH]; intros Hi H; [pose proof (Pos2Nat.is_pos i0); lia|].
  rewrite !sumto_S. destruct (Pos.eq_dec (Pos.of_nat (S n)) i0) as [E|E].
  - rewrite E. assert (X : sumto n f = sumto n g).
    { apply sumto_ext. intros i Hi'. apply H; [lia|]. intros ->. rewrite <- E in Hi'. rewrite Nat2Pos.id in Hi' by lia. lia. }
    lia.
  - rewrite <- (H (Pos.of_nat (S n))); [|rewrite Nat2Pos.id by lia; lia | exact E].
    assert (Hi2 : (Pos.to_nat i0 <= n)%nat).
    { destruct (Nat.eq_dec (Pos.to_nat i0) (S n)) as [K|K]; [|lia]. exfalso. apply E. rewrite <- K. apply Pos2Nat.id. }
    specialize (IH Hi2 (fun i Hi' Hn => H i ltac:(lia) Hn)). lia.
Qed.

Section Potential.
Variable cand : list (Q * Q).
Notation store := (store NQ).

Definition coords (p : pt NQ) : option (Q * Q) :=
  match px p, py p with QF x, QF y => Some (x, y) | _, _ => None end.
Lemma coords_fpt x y : coords (fpt x y) = Some (x, y). Proof. reflexivity. Qed.

Definition term (st : store) (i : eid) : nat :=
  if e_left (getE st i) then
    match e_other (getE st i) with
    | Some o =>
        match coords (e_point (getE st i)), coords (e_point (getE st o)) with
        | Some (lx, ly), Some (rx, ry) => cnt cand lx ly rx ry
        | _, _ => 0%nat
        end
    | None => 0%nat
    end
  else 0%nat.

Definition nids (st : store) : nat := (Pos.to_nat (st_next st) - 1)%nat.
Definition Phi (st : store) : nat := sumto (nids st) (term st).
Definition Psi (st : store) : nat := (nids st + 2 * Phi st)%nat.

Lemma term_upd (st : store) j f i : keeps_e2 f -> term (upd st j f) i = term st i.
Proof.
  intros K. unfold term.
  destruct (getE_upd_keeps_e2 st j f i K) as (A1 & A2 & _ & A4). rewrite A1, A2, A4.
  destruct (e_left (getE st i)); [|reflexivity]. destruct (e_other (getE st i)) as [o|]; [|reflexivity].
  destruct (getE_upd_keeps_e2 st j f o K) as (B1 & _). now rewrite B1.
Qed.

Lemma Psi_upd (st : store) j f : keeps_e2 f -> Psi (upd st j f) = Psi st.
Proof.
  intros K. unfold Psi, Phi, nids. rewrite next_upd. f_equal. f_equal.
  apply sumto_ext. intros i _. now apply term_upd.
Qed.

Lemma term_unmapped (st : store) i : ~ mapped NQ st i -> term st i = 0%nat.
Proof.
  intros H. unfold term. assert (E : getE st i = dummy_event NQ).
  { unfold getE. unfold mapped in H. destruct (pfind i (st_map st)); [exfalso; apply H; discriminate | reflexivity]. }
  rewrite E. reflexivity.
Qed.

(** a division strictly inside, at a candidate: two more ids, at least one candidate less *)
Lemma divide_Psi cfg (s s' : sq NQ) (se_l se_r : eid) (lx ly rx ry ix iy : Q) :
  sqinv NQ s -> mapped NQ (sq_st s) se_l -> e_other (getE (sq_st s) se_l) = Some se_r ->
  e_left (getE (sq_st s) se_l) = true -> e_left (getE (sq_st s) se_r) = false ->
  e_point (getE (sq_st s) se_l) = fpt lx ly -> e_point (getE (sq_st s) se_r) = fpt rx ry ->
  lexlt lx ly rx ry -> strictly_inside lx ly rx ry ix iy ->
  (exists c, In c cand /\ qeqp ix iy (fst c) (snd c)) ->
  divide_segment cfg s se_l (fpt ix iy) = Ok s' ->
  (Psi (sq_st s') <= Psi (sq_st s))%nat.
Proof.
  intros Sq Ml Or Ll Lr Pl Pr Hlr Hin HinS Hd.
  pose proof Sq as [[W L] Q].
  destruct (L se_l Ml) as (o & Ho & Hne & Mr & Hback & _). assert (o = se_r) by congruence. subst o.
  destruct (divide_segment_shape NQ cfg s s' se_l se_r (fpt ix iy) W Ml Mr Hne Or Hd)
    as (r & l & i' & Nr & Nl & Hrl & A1 & A2 & A3 & A4 & B1 & B2 & Ei & Keep & KeepO).
  rewrite bump_dead_exact in Ei. rewrite Ei in B1, B2. clear Ei i'.
  destruct (strictly_inside_lex _ _ _ _ _ _ Hlr Hin) as [Lli Lir].
  destruct (divide_segment_flags cfg s s' se_l se_r rx ry ix iy W Ml Mr Hne Or Pr Lir Hd r l A1 A4) as (Fr & Fl & Fold).
  assert (Hmo : forall o0, e_other (getE (sq_st s) se_l) = Some o0 -> mapped NQ (sq_st s) o0).
  { intros o0 K. assert (o0 = se_r) by congruence. subst. exact Mr. }
  pose proof (divide_segment_new_ids cfg s s' se_l (fpt ix iy) Hmo Hd) as NI.
  assert (Mr_ : mapped NQ (sq_st s') r).
  { destruct (mapped_dec NQ (sq_st s') r) as [K|K]; [exact K|]. rewrite (getE_unmapped_other _ _ K) in A2. discriminate. }
  assert (Ml_ : mapped NQ (sq_st s') l).
  { destruct (mapped_dec NQ (sq_st s') l) as [K|K]; [exact K|]. rewrite (getE_unmapped_other _ _ K) in A3. discriminate. }
  (* r and l are the two fresh ids *)
  set (n0 := st_next (sq_st s)) in *.
  assert (Hrl2 : (r = n0 /\ l = Pos.succ n0) \/ (r = Pos.succ n0 /\ l = n0)).
  { destruct (NI r Mr_) as [K|[K|K]]; [contradiction| |]; destruct (NI l Ml_) as [K'|[K'|K']]; try contradiction; try congruence; auto. }
  (* the next counter *)
  assert (Hnext : st_next (sq_st s') = Pos.succ (Pos.succ n0)).
  { revert Hd. unfold divide_segment.
    destruct (c_debug cfg && negb (e_left (getE (sq_st s) se_l))); [discriminate|]. rewrite Or.
    destruct (alloc (sq_st s) _) as [st1 r0] eqn:E1. destruct (alloc st1 _) as [st2 l0] eqn:E2.
    destruct (c_debug cfg && negb (is_before st2 se_l r0)); [discriminate|].
    intros K; inversion K; subst s'. cbn [sq_st]. rewrite !next_upd.
    assert (X : st_next st2 = Pos.succ (st_next st1)) by (replace st2 with (fst (alloc st1 (new_event (e_contour_id (getE (sq_st s) se_l)) (if eqX NQ (px (fpt ix iy)) (px (e_point (getE (sq_st s) se_l))) && ltY NQ (py (fpt ix iy)) (py (e_point (getE (sq_st s) se_l))) then mkPt NQ (next_upX NQ (px (fpt ix iy))) (py (fpt ix iy)) else fpt ix iy) true (Some se_r) (e_is_subject (getE (sq_st s) se_l)) true))) by (rewrite E2; reflexivity); apply next_alloc).
    assert (Y : st_next st1 = Pos.succ n0) by (replace st1 with (fst (alloc (sq_st s) (new_event (e_contour_id (getE (sq_st s) se_l)) (if eqX NQ (px (fpt ix iy)) (px (e_point (getE (sq_st s) se_l))) && ltY NQ (py (fpt ix iy)) (py (e_point (getE (sq_st s) se_l))) then mkPt NQ (next_upX NQ (px (fpt ix iy))) (py (fpt ix iy)) else fpt ix iy) false (Some se_l) (e_is_subject (getE (sq_st s) se_l)) true))) by (rewrite E1; reflexivity); apply next_alloc).
    destruct (negb (is_before st2 l0 se_r)); rewrite ?next_upd, X, Y; reflexivity. }
  (* terms *)
  assert (Told : forall k, (Pos.to_nat k <= nids (sq_st s))%nat -> k <> se_l -> term (sq_st s') k = term (sq_st s) k).
  { intros k Hk Hkl.
    assert (Klt : (k < n0)%positive) by (unfold nids in Hk; fold n0 in Hk; lia).
    destruct (mapped_dec NQ (sq_st s) k) as [Mk|Nk].
    - destruct (Pos.eq_dec k se_r) as [->|Kr].
      + unfold term. rewrite (Fold se_r Mr), Lr. reflexivity.
      + unfold term. rewrite (Fold k Mk), (KeepO k Mk Hkl Kr), (Keep k Mk).
        destruct (e_left (getE (sq_st s) k)); [|reflexivity].
        destruct (e_other (getE (sq_st s) k)) as [o|] eqn:Ok; [|reflexivity].
        destruct (L k Mk) as (o' & Ok' & _ & Mo' & _). assert (o' = o) by congruence. subst o'.
        now rewrite (Keep o Mo').
    - rewrite (term_unmapped (sq_st s) k Nk). apply term_unmapped. intros Mk'.
      destruct (NI k Mk') as [K|[K|K]]; [contradiction| |]; fold n0 in K; lia. }
  assert (Tl : term (sq_st s) se_l = cnt cand lx ly rx ry).
  { unfold term. rewrite Ll, Or, Pl, Pr, !coords_fpt. reflexivity. }
  assert (Tl' : term (sq_st s') se_l = cnt cand lx ly ix iy).
  { unfold term. rewrite (Fold se_l Ml), Ll, A1, (Keep se_l Ml), Pl, B1, !coords_fpt. reflexivity. }
  assert (Tr' : term (sq_st s') r = 0%nat) by (unfold term; rewrite Fr; reflexivity).
  assert (Tll' : term (sq_st s') l = cnt cand ix iy rx ry).
  { unfold term. rewrite Fl, A3, B2, (Keep se_r Mr), Pr, !coords_fpt. reflexivity. }
  assert (Hsl : (Pos.to_nat se_l <= nids (sq_st s))%nat).
  { pose proof (W _ Ml) as K. unfold nids. fold n0. lia. }
  pose proof (sumto_diff (nids (sq_st s)) (term (sq_st s)) (term (sq_st s')) se_l Hsl
                (fun i Hi Hn => eq_sym (Told i Hi Hn))) as SD.
  pose proof (cnt_split cand lx ly rx ry ix iy Hin HinS) as CS.
  assert (Hn0 : (1 <= Pos.to_nat n0)%nat) by (pose proof (Pos2Nat.is_pos n0); lia).
  assert (Hn' : nids (sq_st s') = S (S (nids (sq_st s)))) by (unfold nids; rewrite Hnext; fold n0; lia).
  unfold Psi, Phi. rewrite Hn'. rewrite !sumto_S.
  assert (E1 : Pos.of_nat (S (nids (sq_st s))) = n0) by (unfold nids; fold n0; replace (S (Pos.to_nat n0 - 1)) with (Pos.to_nat n0) by lia; apply Pos2Nat.id).
  assert (E2 : Pos.of_nat (S (S (nids (sq_st s)))) = Pos.succ n0).
  { unfold nids; fold n0. replace (S (S (Pos.to_nat n0 - 1))) with (S (Pos.to_nat n0)) by lia. rewrite <- Pos2Nat.inj_succ. apply Pos2Nat.id. }
  rewrite E1, E2.
  assert (Tnew : (term (sq_st s') n0 + term (sq_st s') (Pos.succ n0) = cnt cand ix iy rx ry)%nat).
  { destruct Hrl2 as [[-> ->]|[-> ->]]; rewrite Tr', Tll'; lia. }
  rewrite Tl, Tl' in SD. lia.
Qed.

End Potential.

(** ** the candidates: every division point is one *)
Section Bound.
Variable edges : list edge.
Variable cand : list (Q * Q).
Notation store := (store NQ).

Definition inS (x y : Q) : Prop := exists c, In c cand /\ qeqp x y (fst c) (snd c).

Lemma inS_eqv x y x' y' : x == x' -> y == y' -> inS x y -> inS x' y'.
Proof. intros E1 E2 (c & Hc & K1 & K2). exists c. split; [exact Hc|]. split; lra. Qed.

(** the end points of every edge, and the common point of any two non-parallel edges *)
Hypothesis HV : forall ax ay bx by_ sj, In (ax, ay, (bx, by_), sj) edges -> inS ax ay /\ inS bx by_.
Hypothesis HX : forall ax ay bx by_ sj cx cy dx dy sj' x y,
  In (ax, ay, (bx, by_), sj) edges -> In (cx, cy, (dx, dy), sj') edges ->
  ~ det ax ay bx by_ cx cy dx dy == 0 ->
  on_seg ax ay bx by_ x y -> on_seg cx cy dx dy x y -> inS x y.

Definition sinS (st : store) : Prop :=
  forall i, mapped NQ st i -> exists x y, e_point (getE st i) = fpt x y /\ inS x y.

Lemma sinS_upd (st : store) j f : keeps_e2 f -> mapped NQ st j -> sinS st -> sinS (upd st j f).
Proof.
  intros K Mj H i Mi. apply (mapped_upd_in NQ st j f i Mj) in Mi.
  destruct (getE_upd_keeps_e2 st j f i K) as (A1 & _). rewrite A1. now apply H.
Qed.

(** sub-segments of parallel edges are parallel *)
Lemma det_sub ax ay bx by_ cx cy dx dy p1x p1y o1x o1y p2x p2y o2x o2y :
  on_seg ax ay bx by_ p1x p1y -> on_seg ax ay bx by_ o1x o1y ->
  on_seg cx cy dx dy p2x p2y -> on_seg cx cy dx dy o2x o2y ->
  det ax ay bx by_ cx cy dx dy == 0 -> det p1x p1y o1x o1y p2x p2y o2x o2y == 0.
Proof.
  intros (u1 & _ & X1 & Y1) (u2 & _ & X2 & Y2) (v1 & _ & X3 & Y3) (v2 & _ & X4 & Y4) H. unfold det in *.
  assert (E : (o1x - p1x) * (o2y - p2y) - (o1y - p1y) * (o2x - p2x)
              == (u2 - u1) * (v2 - v1) * ((bx - ax) * (dy - cy) - (by_ - ay) * (dx - cx))).
  { rewrite X1, Y1, X2, Y2, X3, Y3, X4, Y4. ring. }
  rewrite E, H. ring.
Qed.

(** two oriented parallel segments that meet in one point meet end to end *)
Lemma parallel_point_is_endpoint p1x p1y o1x o1y p2x p2y o2x o2y x y :
  lexlt p1x p1y o1x o1y -> lexlt p2x p2y o2x o2y ->
  det p1x p1y o1x o1y p2x p2y o2x o2y == 0 ->
  intersection (fpt p1x p1y) (fpt o1x o1y) (fpt p2x p2y) (fpt o2x o2y) = LPoint (fpt x y) ->
  (qeqp p1x p1y x y \/ qeqp o1x o1y x y) /\ (qeqp p2x p2y x y \/ qeqp o2x o2y x y).
Proof.
  intros L1 L2 Hdet Hi.
  assert (D1 : ~ qeqp p1x p1y o1x o1y) by (intros K; exact (lexlt_irrefl _ _ _ _ K L1)).
  assert (Hne : ~ (o1x == p1x /\ o1y == p1y)) by (intros [K1 K2]; apply D1; split; symmetry; assumption).
  destruct (Qeq_dec (numT p1x p1y o1x o1y p2x p2y) 0) as [HT|HT].
  2: { destruct (impl_parallel_distinct Hdet HT) as [H _]. apply intersection_none_of_impl in H. rewrite H in Hi. discriminate. }
  destruct (intersection_collinear Hdet HT Hne) as (lo & hi & Hch & [[_ H]|[(Hlh & x' & y' & H & Hat)|(_ & _ & a & b & c & d & H & _)]]);
    rewrite H in Hi; try discriminate.
  apply fpt_inj' in Hi. destruct Hi as [<- <-].
  (* parameters of p2, o2 on the first segment *)
  set (vx := o1x - p1x). set (vy := o1y - p1y).
  assert (Hl : ~ vx * vx + vy * vy == 0).
  { intros K. destruct (sum_sq_zero K) as [K1 K2]. apply D1. unfold vx, vy in *. split; lra. }
  assert (C1 : (p2x - p1x) * vy - (p2y - p1y) * vx == 0).
  { unfold numT in HT. unfold vx, vy. rewrite <- HT. ring. }
  assert (C2 : (o2x - p1x) * vy - (o2y - p1y) * vx == 0).
  { unfold numT in HT. unfold det in Hdet. unfold vx, vy.
    assert (E : (o2x - p1x) * (o1y - p1y) - (o2y - p1y) * (o1x - p1x)
                == ((p2x - p1x) * (o1y - p1y) - (p2y - p1y) * (o1x - p1x))
                   - ((o1x - p1x) * (o2y - p2y) - (o1y - p1y) * (o2x - p2x))) by ring.
    rewrite E, HT, Hdet. ring. }
  destruct (proj_collinear Hl C1) as [A1 A2]. destruct (proj_collinear Hl C2) as [B1 B2].
  set (al := (vx * (p2x - p1x) + vy * (p2y - p1y)) / (vx * vx + vy * vy)) in *.
  set (be := (vx * (o2x - p1x) + vy * (o2y - p1y)) / (vx * vx + vy * vy)) in *.
  assert (Pp2 : has_param p1x p1y o1x o1y al p2x p2y) by (split; [fold vx | fold vy]; lra).
  assert (Po2 : has_param p1x p1y o1x o1y be o2x o2y) by (split; [fold vx | fold vy]; lra).
  assert (Pp1 : has_param p1x p1y o1x o1y 0 p1x p1y) by (split; ring).
  assert (Po1 : has_param p1x p1y o1x o1y 1 o1x o1y) by (split; ring).
  assert (Hab : al < be) by (apply (lexlt_params p1x p1y o1x o1y L1 al be p2x p2y o2x o2y Pp2 Po2); exact L2).
  (* the common point has parameter lo on the first segment, and lo lies in [0,1] and in [al,be] *)
  assert (Cxy : on_both p1x p1y o1x o1y p2x p2y o2x o2y x' y') by (apply Hch; exists lo; split; [lra | exact Hat]).
  destruct Cxy as (s & t & Hs & Ht & X1 & Y1 & X2 & Y2).
  assert (Es : s == al + t * (be - al)).
  { destruct Pp2 as [P2x P2y], Po2 as [O2x O2y]. apply (param_inj p1x p1y o1x o1y); [exact D1| |].
    - rewrite <- X1, X2, P2x, O2x. ring.
    - rewrite <- Y1, Y2, P2y, O2y. ring. }
  (* any parameter m in [0,1] and [al,be] gives a common point, hence m == s *)
  assert (Uniq : forall m, 0 <= m <= 1 -> al <= m <= be -> m == s).
  { intros m M1 M2.
    assert (Cm : on_both p1x p1y o1x o1y p2x p2y o2x o2y (p1x + m * (o1x - p1x)) (p1y + m * (o1y - p1y))).
    { exists m, ((m - al) / (be - al)). split; [exact M1|]. split.
      - split; [apply Qle_shift_div_l; lra | apply Qle_shift_div_r; lra].
      - destruct Pp2 as [P2x P2y], Po2 as [O2x O2y]. repeat split; try reflexivity; rewrite P2x, O2x || rewrite P2y, O2y; field; lra. }
    apply Hch in Cm. destruct Cm as (m' & Hm' & Ex & Ey). unfold seg_a_at in Ex, Ey.
    assert (Em : m == m') by (apply (param_inj p1x p1y o1x o1y); [exact D1 | exact Ex | exact Ey]).
    assert (El : s == lo).
    { assert (Cs : on_both p1x p1y o1x o1y p2x p2y o2x o2y x' y') by (exists s, t; auto 10).
      apply Hch in Cs. destruct Cs as (s' & Hs' & Ex' & Ey'). unfold seg_a_at in Ex', Ey'.
      assert (s == s') by (apply (param_inj p1x p1y o1x o1y); [exact D1 | rewrite <- X1; exact Ex' | rewrite <- Y1; exact Ey']). lra. }
    lra. }
  assert (R1 : al <= s <= be) by nra.
  (* the interval [max(0,al), min(1,be)] is the single point s *)
  assert (Cases : (s == 0 /\ be == 0) \/ (s == 1 /\ al == 1)).
  { destruct (Qlt_le_dec al 0) as [Ka|Ka].
    - (* 0 is in both ranges unless be < 0 *)
      assert (E0 : 0 == s) by (apply Uniq; lra).
      destruct (Qlt_le_dec be 1) as [Kb|Kb].
      + assert (Eb : be == s) by (apply Uniq; lra). left. split; lra.
      + assert (E1 : 1 == s) by (apply Uniq; lra). lra.
    - assert (Ea : al == s) by (apply Uniq; lra).
      destruct (Qlt_le_dec be 1) as [Kb|Kb].
      + assert (Eb : be == s) by (apply Uniq; lra). lra.
      + assert (E1 : 1 == s) by (apply Uniq; lra). right. split; lra. }
  destruct Cases as [[S0 B0]|[S1 A1']].
  - split; [left | right].
    + split; [rewrite X1, S0 | rewrite Y1, S0]; ring.
    + destruct Po2 as [O2x O2y]. split; [rewrite O2x, X1, B0, S0 | rewrite O2y, Y1, B0, S0]; ring.
  - split; [right | left].
    + split; [rewrite X1, S1 | rewrite Y1, S1]; ring.
    + destruct Pp2 as [P2x P2y]. split; [rewrite P2x, X1, A1', S1 | rewrite P2y, Y1, A1', S1]; ring.
Qed.


(** ** one division with the potential *)
Lemma div3 cfg (s s' : sq NQ) (se_l se_r : eid) (lx ly rx ry ix iy : Q) :
  sqinv NQ s -> einv2 edges (sq_st s) -> sinS (sq_st s) -> mapped NQ (sq_st s) se_l ->
  e_other (getE (sq_st s) se_l) = Some se_r ->
  e_left (getE (sq_st s) se_l) = true ->
  e_point (getE (sq_st s) se_l) = fpt lx ly -> e_point (getE (sq_st s) se_r) = fpt rx ry ->
  strictly_inside lx ly rx ry ix iy -> inS ix iy ->
  divide_segment cfg s se_l (fpt ix iy) = Ok s' ->
  einv2 edges (sq_st s') /\
  (forall k, mapped NQ (sq_st s) k -> e_left (getE (sq_st s') k) = e_left (getE (sq_st s) k)) /\
  (forall l, e_other (getE (sq_st s') se_r) = Some l ->
     e_left (getE (sq_st s') l) = true /\ e_point (getE (sq_st s') l) = fpt ix iy /\
     e_other (getE (sq_st s') l) = Some se_r /\ ~ mapped NQ (sq_st s) l) /\
  sinS (sq_st s') /\ (Psi cand (sq_st s') <= Psi cand (sq_st s))%nat.
Proof.
  intros Sq E Sn Ml Or Ll Pl Pr Hin HS Hd.
  destruct (divide_segment_einv2 edges cfg s s' se_l se_r lx ly rx ry ix iy Sq E Ml Or Ll Pl Pr Hin Hd) as (E' & F' & Hl).
  split; [exact E'|]. split; [exact F'|]. split; [exact Hl|].
  pose proof Sq as [[W L] Q].
  destruct (L se_l Ml) as (o & Ho & Hne & Mr & _). assert (o = se_r) by congruence. subst o.
  destruct (E se_l se_r Ml Or) as (px & py & qx & qy & ax & ay & bx & by_ & H1 & H2 & _ & _ & _ & _ & H7 & H8).
  rewrite Pl in H1. rewrite Pr in H2. apply fpt_inj in H1, H2. destruct H1 as [<- <-]. destruct H2 as [<- <-].
  rewrite Ll in H7. cbn [negb] in H7. specialize (H8 Ll).
  split.
  - (* points of the events of the new store *)
    destruct (divide_segment_shape NQ cfg s s' se_l se_r (fpt ix iy) W Ml Mr Hne Or Hd)
      as (r & l & i' & Nr & Nl & Hrl & A1 & A2 & A3 & A4 & B1 & B2 & Ei & Keep & KeepO).
    rewrite bump_dead_exact in Ei. rewrite Ei in B1, B2.
    assert (Hmo : forall o0, e_other (getE (sq_st s) se_l) = Some o0 -> mapped NQ (sq_st s) o0).
    { intros o0 K. assert (o0 = se_r) by congruence. subst. exact Mr. }
    pose proof (divide_segment_new_ids cfg s s' se_l (fpt ix iy) Hmo Hd) as NI.
    assert (Mr_ : mapped NQ (sq_st s') r).
    { destruct (mapped_dec NQ (sq_st s') r) as [K|K]; [exact K|]. rewrite (getE_unmapped_other _ _ K) in A2. discriminate. }
    assert (Ml_ : mapped NQ (sq_st s') l).
    { destruct (mapped_dec NQ (sq_st s') l) as [K|K]; [exact K|]. rewrite (getE_unmapped_other _ _ K) in A3. discriminate. }
    intros k Mk. destruct (mapped_dec NQ (sq_st s) k) as [Mk0|Nk0].
    + rewrite (Keep k Mk0). now apply Sn.
    + assert (Kc : k = r \/ k = l).
      { destruct (NI k Mk) as [K|K]; [contradiction|].
        destruct (NI r Mr_) as [K1|K1]; [contradiction|]. destruct (NI l Ml_) as [K2|K2]; [contradiction|].
        destruct K as [K|K], K1 as [K1|K1], K2 as [K2|K2]; try (left; congruence); try (right; congruence); congruence. }
      destruct Kc as [->| ->]; exists ix, iy; auto.
  - exact (divide_Psi cand cfg s s' se_l se_r lx ly rx ry ix iy Sq Ml Or Ll H7 Pl Pr H8 Hin HS Hd).
Qed.

Definition pe3 (st0 : store) (r : outcome (sq NQ * nat)) : Prop :=
  match r with
  | Ok (s', _) => einv2 edges (sq_st s') /\ FP st0 (sq_st s') /\ sinS (sq_st s') /\ (Psi cand (sq_st s') <= Psi cand st0)%nat
  | _ => True
  end.

Lemma pe3_step cfg (st0 : store) (s s' : sq NQ) (T Tr : eid) (lx ly rx ry ix iy : Q) :
  sqinv NQ s -> einv2 edges (sq_st s) ->
  (forall k, mapped NQ st0 k -> mapped NQ (sq_st s) k /\ e_left (getE (sq_st s) k) = e_left (getE st0 k)) ->
  sinS (sq_st s) -> (Psi cand (sq_st s) <= Psi cand st0)%nat ->
  mapped NQ (sq_st s) T -> e_other (getE (sq_st s) T) = Some Tr -> e_left (getE (sq_st s) T) = true ->
  e_point (getE (sq_st s) T) = fpt lx ly -> e_point (getE (sq_st s) Tr) = fpt rx ry ->
  strictly_inside lx ly rx ry ix iy -> inS ix iy ->
  divide_segment cfg s T (fpt ix iy) = Ok s' ->
  einv2 edges (sq_st s') /\ FP st0 (sq_st s') /\ sinS (sq_st s') /\ (Psi cand (sq_st s') <= Psi cand st0)%nat.
Proof.
  intros Sq E H0 Sn Ps MT OT LT PT PTr Hin HS Hd.
  destruct (div3 cfg s s' T Tr lx ly rx ry ix iy Sq E Sn MT OT LT PT PTr Hin HS Hd) as (E' & F' & _ & Sn' & Ps').
  split; [exact E'|]. split; [|split; [exact Sn' | lia]].
  intros k Mk. destruct (H0 k Mk) as [Mk' Fk]. rewrite (F' k Mk'). exact Fk.
Qed.


(** ** [possible_intersection] with the potential (the case analysis of [OnEdgeFull]) *)
Theorem possible_intersection_pe3 cfg (s : sq NQ) (se1 se2 : eid) :
  sqinv NQ s -> einv2 edges (sq_st s) -> sinS (sq_st s) -> mapped NQ (sq_st s) se1 -> mapped NQ (sq_st s) se2 ->
  e_left (getE (sq_st s) se1) = true -> e_left (getE (sq_st s) se2) = true ->
  pe3 (sq_st s) (possible_intersection cfg s se1 se2).
Proof.
  intros S E Sn M1 M2 Lf1 Lf2. pose proof S as [[W L] Q].
  assert (Ps0 : (Psi cand (sq_st s) <= Psi cand (sq_st s))%nat) by lia.
  assert (Same : forall k, mapped NQ (sq_st s) k -> mapped NQ (sq_st s) k /\ e_left (getE (sq_st s) k) = e_left (getE (sq_st s) k))
    by (intros k Mk; split; [exact Mk | reflexivity]).
  assert (Good0 : pe3 (sq_st s) (Ok (s, 0%nat))) by (cbn; split; [exact E | split; [apply FP_refl | split; [exact Sn | lia]]]).
  unfold possible_intersection.
  destruct (L se1 M1) as (other1 & O1 & Hne1 & Mo1 & Back1 & _).
  destruct (L se2 M2) as (other2 & O2 & Hne2 & Mo2 & Back2 & _).
  rewrite O1, O2.
  destruct (E se1 other1 M1 O1) as (p1x & p1y & o1x & o1y & a1x & a1y & b1x & b1y & P1 & Q1 & D1 & I1 & S1a & S1b & F1 & Lx1).
  destruct (E se2 other2 M2 O2) as (p2x & p2y & o2x & o2y & a2x & a2y & b2x & b2y & P2 & Q2 & D2 & I2 & S2a & S2b & F2 & Lx2).
  rewrite Lf1 in F1. rewrite Lf2 in F2. cbn [negb] in F1, F2. specialize (Lx1 Lf1). specialize (Lx2 Lf2).
  assert (N2o : se2 <> other1) by (intros K; rewrite K in Lf2; congruence).
  assert (N1o : se1 <> other2) by (intros K; rewrite K in Lf1; congruence).
  assert (HSp1 : inS p1x p1y) by (destruct (Sn se1 M1) as (u & v & K & HK); rewrite P1 in K; apply fpt_inj in K; destruct K as [<- <-]; exact HK).
  assert (HSo1 : inS o1x o1y) by (destruct (Sn other1 Mo1) as (u & v & K & HK); rewrite Q1 in K; apply fpt_inj in K; destruct K as [<- <-]; exact HK).
  assert (HSp2 : inS p2x p2y) by (destruct (Sn se2 M2) as (u & v & K & HK); rewrite P2 in K; apply fpt_inj in K; destruct K as [<- <-]; exact HK).
  assert (HSo2 : inS o2x o2y) by (destruct (Sn other2 Mo2) as (u & v & K & HK); rewrite Q2 in K; apply fpt_inj in K; destruct K as [<- <-]; exact HK).
  unfold point_of. rewrite P1, Q1, P2, Q2.
  assert (Hne : ~ (o1x == p1x /\ o1y == p1y)) by (intros [K1 K2]; apply D1; split; symmetry; assumption).
  pose proof (@intersection_exact_all p1x p1y o1x o1y p2x p2y o2x o2y Hne) as EX.
  destruct (intersection (fpt p1x p1y) (fpt o1x o1y) (fpt p2x p2y) (fpt o2x o2y)) as [|inter|ia ib] eqn:EI.
  - exact Good0.
  - (* one common point *)
    cbn [exact_result] in EX. destruct EX as (x & y & -> & Hon).
    destruct (on_both_seg1 _ _ _ _ _ _ _ _ _ _ Hon) as [On1 On2].
    destruct (pt_eq (fpt p1x p1y) (fpt p2x p2y) || pt_eq (fpt o1x o1y) (fpt o2x o2y)) eqn:Eends; [exact Good0|].
    apply orb_false_iff in Eends. destruct Eends as [Ep Eo].
    assert (N21 : se2 <> se1).
    { intros K. rewrite K in P2. rewrite P1 in P2. apply fpt_inj in P2. destruct P2 as [<- <-].
      apply pt_eq_fpt_false in Ep. apply Ep. split; reflexivity. }
    set (c1 := negb (pt_eq (fpt p1x p1y) (fpt x y)) && negb (pt_eq (fpt o1x o1y) (fpt x y))).
    set (c2 := negb (pt_eq (fpt p2x p2y) (fpt x y)) && negb (pt_eq (fpt o2x o2y) (fpt x y))).
    assert (In1 : c1 = true -> strictly_inside p1x p1y o1x o1y x y).
    { unfold c1. intros K. apply andb_prop in K. destruct K as [K1 K2].
      apply negb_true_iff in K1, K2. apply pt_eq_fpt_false in K1, K2.
      split; [exact On1|]. split; intros K; [apply K1 | apply K2]; now apply qeqp_sym. }
    assert (In2 : c2 = true -> strictly_inside p2x p2y o2x o2y x y).
    { unfold c2. intros K. apply andb_prop in K. destruct K as [K1 K2].
      apply negb_true_iff in K1, K2. apply pt_eq_fpt_false in K1, K2.
      split; [exact On2|]. split; intros K; [apply K1 | apply K2]; now apply qeqp_sym. }
    assert (HSxy : c1 = true \/ c2 = true -> inS x y).
    { intros Hc.
      destruct (Qeq_dec (det a1x a1y b1x b1y a2x a2y b2x b2y) 0) as [Hd0|Hd0].
      - (* parallel input edges: the sub-segments meet end to end, nothing is divided *)
        exfalso.
        pose proof (det_sub _ _ _ _ _ _ _ _ _ _ _ _ _ _ _ _ S1a S1b S2a S2b Hd0) as Hds.
        destruct (parallel_point_is_endpoint _ _ _ _ _ _ _ _ _ _ Lx1 Lx2 Hds EI) as [[K1|K1] [K2|K2]];
          destruct Hc as [Hc|Hc];
          first [ (destruct (In1 Hc) as (_ & N1 & N2); first [apply N1; now apply qeqp_sym | apply N2; now apply qeqp_sym])
                | (destruct (In2 Hc) as (_ & N1 & N2); first [apply N1; now apply qeqp_sym | apply N2; now apply qeqp_sym]) ].
      - apply (HX _ _ _ _ _ _ _ _ _ _ x y I1 I2 Hd0).
        + eapply on_seg_convex; [exact S1a | exact S1b | exact On1].
        + eapply on_seg_convex; [exact S2a | exact S2b | exact On2]. }
    destruct c1 eqn:C1.
    + pose proof (divide_segment_inv NQ cfg s se1 (fpt x y) S M1) as DI.
      destruct (divide_segment cfg s se1 (fpt x y)) as [s1|site|] eqn:Dv1; cbn [obind]; [|exact I|exact I].
      destruct DI as [S1 G1].
      destruct (div3 cfg s s1 se1 other1 p1x p1y o1x o1y x y S E Sn M1 O1 Lf1 P1 Q1 (In1 eq_refl) (HSxy (or_introl eq_refl)) Dv1) as (E1 & Fl1 & _ & Sn1 & Ps1).
      destruct c2 eqn:C2.
      * destruct (divide_segment_shape NQ cfg s s1 se1 other1 (fpt x y) W M1 Mo1 Hne1 O1 Dv1)
          as (r & l & i' & _ & _ & _ & _ & _ & _ & _ & _ & _ & _ & Keep & KeepO).
        assert (O2' : e_other (getE (sq_st s1) se2) = Some other2) by (rewrite (KeepO se2 M2 N21 N2o); exact O2).
        assert (P2' : e_point (getE (sq_st s1) se2) = fpt p2x p2y) by (rewrite (Keep se2 M2); exact P2).
        assert (Q2' : e_point (getE (sq_st s1) other2) = fpt o2x o2y) by (rewrite (Keep other2 Mo2); exact Q2).
        destruct (divide_segment cfg s1 se2 (fpt x y)) as [s2|site|] eqn:Dv2; cbn [obind]; [|exact I|exact I].
        cbn [pe3].
        assert (H01 : forall k, mapped NQ (sq_st s) k -> mapped NQ (sq_st s1) k /\ e_left (getE (sq_st s1) k) = e_left (getE (sq_st s) k))
          by (intros k Mk; split; [apply G1, Mk | apply Fl1, Mk]).
        assert (L2' : e_left (getE (sq_st s1) se2) = true) by (rewrite (Fl1 se2 M2); exact Lf2).
        exact (pe3_step cfg (sq_st s) s1 s2 se2 other2 p2x p2y o2x o2y x y S1 E1 H01 Sn1 Ps1 (G1 _ M2) O2' L2' P2' Q2' (In2 eq_refl) (HSxy (or_intror eq_refl)) Dv2).
      * cbn [obind pe3]. split; [exact E1 | split; [exact Fl1 | split; [exact Sn1 | exact Ps1]]].
    + cbn [obind]. destruct c2 eqn:C2.
      * destruct (divide_segment cfg s se2 (fpt x y)) as [s2|site|] eqn:Dv2; cbn [obind]; [|exact I|exact I].
        cbn [pe3]. exact (pe3_step cfg (sq_st s) s s2 se2 other2 p2x p2y o2x o2y x y S E Same Sn Ps0 M2 O2 Lf2 P2 Q2 (In2 eq_refl) (HSxy (or_intror eq_refl)) Dv2).
      * cbn [obind]. exact Good0.
  - (* an overlap *)
    destruct (eqb (e_is_subject (getE (sq_st s) se1)) (e_is_subject (getE (sq_st s) se2))); [exact Good0|].
    destruct (overlap_params _ _ _ _ _ _ _ _ _ _ Lx1 Lx2 EI) as (al & be & Hab & Ha1 & Hb0 & X2 & Y2 & X3 & Y3).
    (* the four points by their parameters on the first segment *)
    assert (Pp1 : has_param p1x p1y o1x o1y 0 p1x p1y) by (split; ring).
    assert (Po1 : has_param p1x p1y o1x o1y 1 o1x o1y) by (split; ring).
    assert (Pp2 : has_param p1x p1y o1x o1y al p2x p2y) by (split; assumption).
    assert (Po2 : has_param p1x p1y o1x o1y be o2x o2y) by (split; assumption).
    assert (N21 : pt_eq (fpt p1x p1y) (fpt p2x p2y) = false -> se2 <> se1).
    { intros Ep K. rewrite K in P2. rewrite P1 in P2. apply fpt_inj in P2. destruct P2 as [<- <-].
      apply pt_eq_fpt_false in Ep. apply Ep. split; reflexivity. }
    destruct (pt_eq (fpt p1x p1y) (fpt p2x p2y)) eqn:LC; destruct (pt_eq (fpt o1x o1y) (fpt o2x o2y)) eqn:RC.
    + (* both ends coincide: only edge types change *)
      cbn [negb app obind].
      set (ty := if eqb (e_in_out (getE (sq_st s) se1)) (e_in_out (getE (sq_st s) se2)) then SameTransition else DifferentTransition).
      set (st1 := upd (sq_st s) se2 (fun e => set_edge_type e NonContributing)).
      set (st2 := upd st1 se1 (fun e => set_edge_type e ty)).
      cbn [pe3 sq_st].
      assert (M1' : mapped NQ st1 se1) by (apply mapped_upd; now right).
      split; [|split; [|split]].
      * apply (einv2_upd edges); [apply k2_set_edge_type | exact M1' |].
        apply (einv2_upd edges); [apply k2_set_edge_type | exact M2 | exact E].
      * intros k Mk.
        destruct (getE_upd_keeps_e2 st1 se1 (fun e => set_edge_type e ty) k (k2_set_edge_type ty)) as (_ & _ & _ & A).
        destruct (getE_upd_keeps_e2 (sq_st s) se2 (fun e => set_edge_type e NonContributing) k (k2_set_edge_type NonContributing)) as (_ & _ & _ & B).
        fold st1 in B. fold st2 in A. congruence.
      * apply sinS_upd; [apply k2_set_edge_type | exact M1' |]. apply sinS_upd; [apply k2_set_edge_type | exact M2 | exact Sn].
      * unfold st2, st1. rewrite !Psi_upd by apply k2_set_edge_type. lia.
    + (* left ends coincide: the longer segment is divided at the right end of the shorter one *)
      apply pt_eq_fpt in LC. apply pt_eq_fpt_false in RC.
      assert (Al0 : al == 0) by (symmetry; apply (qeqp_params p1x p1y o1x o1y Lx1 0 al p1x p1y p2x p2y Pp1 Pp2); exact LC).
      assert (Be1 : ~ be == 1) by (intros K; apply RC; apply (qeqp_params p1x p1y o1x o1y Lx1 1 be o1x o1y o2x o2y Po1 Po2); symmetry; exact K).
      cbn [negb app].
      set (ty := if eqb (e_in_out (getE (sq_st s) se1)) (e_in_out (getE (sq_st s) se2)) then SameTransition else DifferentTransition).
      set (st1 := upd (sq_st s) se2 (fun e => set_edge_type e NonContributing)).
      set (st2 := upd st1 se1 (fun e => set_edge_type e ty)).
      assert (K2 : forall k, e_point (getE st2 k) = e_point (getE (sq_st s) k) /\ e_other (getE st2 k) = e_other (getE (sq_st s) k)
                             /\ e_left (getE st2 k) = e_left (getE (sq_st s) k)).
      { intros k.
        destruct (getE_upd_keeps_e2 st1 se1 (fun e => set_edge_type e ty) k (k2_set_edge_type ty)) as (A1 & A2 & _ & A4).
        destruct (getE_upd_keeps_e2 (sq_st s) se2 (fun e => set_edge_type e NonContributing) k (k2_set_edge_type NonContributing)) as (B1 & B2 & _ & B4).
        fold st1 in B1, B2, B4. fold st2 in A1, A2, A4. repeat split; congruence. }
      assert (M1' : mapped NQ st1 se1) by (apply mapped_upd; now right).
      assert (E2' : einv2 edges st2).
      { apply (einv2_upd edges); [apply k2_set_edge_type | exact M1' |].
        apply (einv2_upd edges); [apply k2_set_edge_type | exact M2 | exact E]. }
      assert (Sn2 : sinS (sq_st (mkSQ st2 (sq_q s)))).
      { cbn [sq_st]. apply sinS_upd; [apply k2_set_edge_type | exact M1' |]. apply sinS_upd; [apply k2_set_edge_type | exact M2 | exact Sn]. }
      assert (Ps2 : (Psi cand (sq_st (mkSQ st2 (sq_q s))) <= Psi cand (sq_st s))%nat).
      { cbn [sq_st]. unfold st2, st1. rewrite !Psi_upd by apply k2_set_edge_type. lia. }
      destruct (sqinv_set_edge_type NQ s se2 NonContributing S M2) as [Sa Ga].
      destruct (sqinv_set_edge_type NQ (mkSQ st1 (sq_q s)) se1 ty Sa M1') as [Sb Gb]. cbn [sq_st sq_q] in Sb, Gb. fold st2 in Sb, Gb.
      assert (H0 : forall k, mapped NQ (sq_st s) k -> mapped NQ (sq_st (mkSQ st2 (sq_q s))) k /\ e_left (getE (sq_st (mkSQ st2 (sq_q s))) k) = e_left (getE (sq_st s) k)).
      { intros k Mk. cbn [sq_st]. split; [apply Gb, Ga, Mk | apply K2]. }
      destruct (ev_lt (sq_st s) other1 other2) eqn:C2; cbn [nth_ev nth fst snd].
      * (* o2 before o1: be < 1; se1 is divided at o2 *)
        apply (ev_lt_lex (sq_st s) other1 other2 o1x o1y o2x o2y Q1 Q2 RC) in C2.
        apply (lexlt_params p1x p1y o1x o1y Lx1 be 1 o2x o2y o1x o1y Po2 Po1) in C2.
        unfold point_of. rewrite (proj1 (K2 other2)), Q2.
        destruct (divide_segment cfg (mkSQ st2 (sq_q s)) se1 (fpt o2x o2y)) as [s3|site|] eqn:Dv; cbn [obind]; [|exact I|exact I].
        cbn [pe3].
        assert (Hin : strictly_inside p1x p1y o1x o1y o2x o2y) by (apply (inside_by_params p1x p1y o1x o1y Lx1 0 1 be); auto; lra).
        assert (MT : mapped NQ (sq_st (mkSQ st2 (sq_q s))) se1) by (cbn [sq_st]; apply Gb, Ga, M1).
        assert (OT : e_other (getE (sq_st (mkSQ st2 (sq_q s))) se1) = Some other1) by (cbn [sq_st]; rewrite (proj1 (proj2 (K2 se1))); exact O1).
        assert (LT : e_left (getE (sq_st (mkSQ st2 (sq_q s))) se1) = true) by (cbn [sq_st]; rewrite (proj2 (proj2 (K2 se1))); exact Lf1).
        assert (PT : e_point (getE (sq_st (mkSQ st2 (sq_q s))) se1) = fpt p1x p1y) by (cbn [sq_st]; rewrite (proj1 (K2 se1)); exact P1).
        assert (PTr : e_point (getE (sq_st (mkSQ st2 (sq_q s))) other1) = fpt o1x o1y) by (cbn [sq_st]; rewrite (proj1 (K2 other1)); exact Q1).
        exact (pe3_step cfg (sq_st s) (mkSQ st2 (sq_q s)) s3 se1 other1 p1x p1y o1x o1y o2x o2y Sb E2' H0 Sn2 Ps2 MT OT LT PT PTr Hin HSo2 Dv).
      * (* o1 before o2: 1 < be; se2 is divided at o1 *)
        apply (ev_lt_lex_false (sq_st s) other1 other2 o1x o1y o2x o2y Q1 Q2 RC) in C2.
        apply (lexlt_params p1x p1y o1x o1y Lx1 1 be o1x o1y o2x o2y Po1 Po2) in C2.
        unfold point_of. rewrite (proj1 (K2 other1)), Q1.
        destruct (divide_segment cfg (mkSQ st2 (sq_q s)) se2 (fpt o1x o1y)) as [s3|site|] eqn:Dv; cbn [obind]; [|exact I|exact I].
        cbn [pe3].
        assert (Hin : strictly_inside p2x p2y o2x o2y o1x o1y) by (apply (inside_by_params p1x p1y o1x o1y Lx1 al be 1); auto; lra).
        assert (MT : mapped NQ (sq_st (mkSQ st2 (sq_q s))) se2) by (cbn [sq_st]; apply Gb, Ga, M2).
        assert (OT : e_other (getE (sq_st (mkSQ st2 (sq_q s))) se2) = Some other2) by (cbn [sq_st]; rewrite (proj1 (proj2 (K2 se2))); exact O2).
        assert (LT : e_left (getE (sq_st (mkSQ st2 (sq_q s))) se2) = true) by (cbn [sq_st]; rewrite (proj2 (proj2 (K2 se2))); exact Lf2).
        assert (PT : e_point (getE (sq_st (mkSQ st2 (sq_q s))) se2) = fpt p2x p2y) by (cbn [sq_st]; rewrite (proj1 (K2 se2)); exact P2).
        assert (PTr : e_point (getE (sq_st (mkSQ st2 (sq_q s))) other2) = fpt o2x o2y) by (cbn [sq_st]; rewrite (proj1 (K2 other2)); exact Q2).
        exact (pe3_step cfg (sq_st s) (mkSQ st2 (sq_q s)) s3 se2 other2 p2x p2y o2x o2y o1x o1y Sb E2' H0 Sn2 Ps2 MT OT LT PT PTr Hin HSo1 Dv).
    + (* right ends coincide: the earlier segment is divided at the left end of the later one *)
      apply pt_eq_fpt_false in LC. apply pt_eq_fpt in RC.
      assert (Be1 : be == 1) by (symmetry; apply (qeqp_params p1x p1y o1x o1y Lx1 1 be o1x o1y o2x o2y Po1 Po2); exact RC).
      assert (Al0 : ~ al == 0) by (intros K; apply LC; apply (qeqp_params p1x p1y o1x o1y Lx1 0 al p1x p1y p2x p2y Pp1 Pp2); symmetry; exact K).
      cbn [negb app]. rewrite app_nil_r.
      destruct (ev_lt (sq_st s) se1 se2) eqn:C1; cbn [nth_ev nth fst snd].
      * (* p2 before p1: al < 0; se2 is divided at p1 *)
        apply (ev_lt_lex (sq_st s) se1 se2 p1x p1y p2x p2y P1 P2 LC) in C1.
        apply (lexlt_params p1x p1y o1x o1y Lx1 al 0 p2x p2y p1x p1y Pp2 Pp1) in C1.
        unfold point_of. rewrite P1.
        destruct (divide_segment cfg s se2 (fpt p1x p1y)) as [s1|site|] eqn:Dv; cbn [obind]; [|exact I|exact I].
        cbn [pe3].
        assert (Hin : strictly_inside p2x p2y o2x o2y p1x p1y) by (apply (inside_by_params p1x p1y o1x o1y Lx1 al be 0); auto; lra).
        exact (pe3_step cfg (sq_st s) s s1 se2 other2 p2x p2y o2x o2y p1x p1y S E Same Sn Ps0 M2 O2 Lf2 P2 Q2 Hin HSp1 Dv).
      * apply (ev_lt_lex_false (sq_st s) se1 se2 p1x p1y p2x p2y P1 P2 LC) in C1.
        apply (lexlt_params p1x p1y o1x o1y Lx1 0 al p1x p1y p2x p2y Pp1 Pp2) in C1.
        unfold point_of. rewrite P2.
        destruct (divide_segment cfg s se1 (fpt p2x p2y)) as [s1|site|] eqn:Dv; cbn [obind]; [|exact I|exact I].
        cbn [pe3].
        assert (Hin : strictly_inside p1x p1y o1x o1y p2x p2y) by (apply (inside_by_params p1x p1y o1x o1y Lx1 0 1 al); auto; lra).
        exact (pe3_step cfg (sq_st s) s s1 se1 other1 p1x p1y o1x o1y p2x p2y S E Same Sn Ps0 M1 O1 Lf1 P1 Q1 Hin HSp2 Dv).
    + (* four distinct ends *)
      apply pt_eq_fpt_false in LC. apply pt_eq_fpt_false in RC.
      assert (Be1 : ~ be == 1) by (intros K; apply RC; apply (qeqp_params p1x p1y o1x o1y Lx1 1 be o1x o1y o2x o2y Po1 Po2); symmetry; exact K).
      assert (Al0 : ~ al == 0) by (intros K; apply LC; apply (qeqp_params p1x p1y o1x o1y Lx1 0 al p1x p1y p2x p2y Pp1 Pp2); symmetry; exact K).
      assert (N21' : se2 <> se1).
      { intros K. rewrite K in P2. rewrite P1 in P2. apply fpt_inj in P2. destruct P2 as [<- <-]. apply LC. split; reflexivity. }
      cbn [negb].
      destruct (ev_lt (sq_st s) se1 se2) eqn:C1; destruct (ev_lt (sq_st s) other1 other2) eqn:C2;
        cbn [app nth_ev nth fst snd].
      * (* al < 0, be < 1: partial overlap, se2 first *)
        apply (ev_lt_lex (sq_st s) se1 se2 p1x p1y p2x p2y P1 P2 LC) in C1.
        apply (lexlt_params p1x p1y o1x o1y Lx1 al 0 p2x p2y p1x p1y Pp2 Pp1) in C1.
        apply (ev_lt_lex (sq_st s) other1 other2 o1x o1y o2x o2y Q1 Q2 RC) in C2.
        apply (lexlt_params p1x p1y o1x o1y Lx1 be 1 o2x o2y o1x o1y Po2 Po1) in C2.
        rewrite (proj2 (Pos.eqb_neq se2 se1) N21'). cbn [negb].
        rewrite P1.
        pose proof (divide_segment_inv NQ cfg s se2 (fpt p1x p1y) S M2) as DI.
        destruct (divide_segment cfg s se2 (fpt p1x p1y)) as [s1|site|] eqn:Dv1; cbn [obind]; [|exact I|exact I].
        destruct DI as [S1 G1].
        assert (In1 : strictly_inside p2x p2y o2x o2y p1x p1y) by (apply (inside_by_params p1x p1y o1x o1y Lx1 al be 0); auto; lra).
        destruct (div3 cfg s s1 se2 other2 p2x p2y o2x o2y p1x p1y S E Sn M2 O2 Lf2 P2 Q2 In1 HSp1 Dv1) as (E1 & Fl1 & _ & Sn1 & Ps1).
        destruct (divide_segment_shape NQ cfg s s1 se2 other2 (fpt p1x p1y) W M2 Mo2 Hne2 O2 Dv1)
          as (r & l & i' & _ & _ & _ & _ & _ & _ & _ & _ & _ & _ & Keep & KeepO).
        unfold point_of. rewrite (Keep other2 Mo2), Q2.
        destruct (divide_segment cfg s1 se1 (fpt o2x o2y)) as [s2|site|] eqn:Dv2; cbn [obind]; [|exact I|exact I].
        cbn [pe3].
        assert (H01 : forall k, mapped NQ (sq_st s) k -> mapped NQ (sq_st s1) k /\ e_left (getE (sq_st s1) k) = e_left (getE (sq_st s) k))
          by (intros k Mk; split; [apply G1, Mk | apply Fl1, Mk]).
        assert (OT : e_other (getE (sq_st s1) se1) = Some other1) by (rewrite (KeepO se1 M1 (not_eq_sym N21') N1o); exact O1).
        assert (LT : e_left (getE (sq_st s1) se1) = true) by (rewrite (Fl1 se1 M1); exact Lf1).
        assert (PT : e_point (getE (sq_st s1) se1) = fpt p1x p1y) by (rewrite (Keep se1 M1); exact P1).
        assert (PTr : e_point (getE (sq_st s1) other1) = fpt o1x o1y) by (rewrite (Keep other1 Mo1); exact Q1).
        assert (Hin : strictly_inside p1x p1y o1x o1y o2x o2y) by (apply (inside_by_params p1x p1y o1x o1y Lx1 0 1 be); auto; lra).
        exact (pe3_step cfg (sq_st s) s1 s2 se1 other1 p1x p1y o1x o1y o2x o2y S1 E1 H01 Sn1 Ps1 (G1 _ M1) OT LT PT PTr Hin HSo2 Dv2).
      * (* al < 0, 1 < be: the second segment contains the first *)
        apply (ev_lt_lex (sq_st s) se1 se2 p1x p1y p2x p2y P1 P2 LC) in C1.
        apply (lexlt_params p1x p1y o1x o1y Lx1 al 0 p2x p2y p1x p1y Pp2 Pp1) in C1.
        apply (ev_lt_lex_false (sq_st s) other1 other2 o1x o1y o2x o2y Q1 Q2 RC) in C2.
        apply (lexlt_params p1x p1y o1x o1y Lx1 1 be o1x o1y o2x o2y Po1 Po2) in C2.
        rewrite Pos.eqb_refl. cbn [negb].
        rewrite P1.
        pose proof (divide_segment_inv NQ cfg s se2 (fpt p1x p1y) S M2) as DI.
        destruct (divide_segment cfg s se2 (fpt p1x p1y)) as [s1|site|] eqn:Dv1; cbn [obind]; [|exact I|exact I].
        destruct DI as [S1 G1].
        assert (In1 : strictly_inside p2x p2y o2x o2y p1x p1y) by (apply (inside_by_params p1x p1y o1x o1y Lx1 al be 0); auto; lra).
        destruct (div3 cfg s s1 se2 other2 p2x p2y o2x o2y p1x p1y S E Sn M2 O2 Lf2 P2 Q2 In1 HSp1 Dv1) as (E1 & Fl1 & Hl & Sn1 & Ps1).
        destruct (divide_segment_shape NQ cfg s s1 se2 other2 (fpt p1x p1y) W M2 Mo2 Hne2 O2 Dv1)
          as (r & l & i' & _ & _ & _ & _ & _ & _ & A4 & _ & _ & _ & Keep & KeepO).
        unfold other_of. rewrite A4.
        destruct (Hl l A4) as (Ll & Pl & Ol & _).
        unfold point_of. rewrite (Keep other1 Mo1), Q1.
        assert (Ml1 : mapped NQ (sq_st s1) l).
        { destruct (mapped_dec NQ (sq_st s1) l) as [K|K]; [exact K|]. rewrite (getE_unmapped_other _ _ K) in Ol. discriminate. }
        destruct (divide_segment cfg s1 l (fpt o1x o1y)) as [s2|site|] eqn:Dv2; cbn [obind]; [|exact I|exact I].
        cbn [pe3].
        assert (H01 : forall k, mapped NQ (sq_st s) k -> mapped NQ (sq_st s1) k /\ e_left (getE (sq_st s1) k) = e_left (getE (sq_st s) k))
          by (intros k Mk; split; [apply G1, Mk | apply Fl1, Mk]).
        assert (PTr : e_point (getE (sq_st s1) other2) = fpt o2x o2y) by (rewrite (Keep other2 Mo2); exact Q2).
        assert (Hin : strictly_inside p1x p1y o2x o2y o1x o1y) by (apply (inside_by_params p1x p1y o1x o1y Lx1 0 be 1); auto; lra).
        exact (pe3_step cfg (sq_st s) s1 s2 l other2 p1x p1y o2x o2y o1x o1y S1 E1 H01 Sn1 Ps1 Ml1 Ol Ll Pl PTr Hin HSo1 Dv2).
      * (* 0 < al, be < 1: the first segment contains the second *)
        apply (ev_lt_lex_false (sq_st s) se1 se2 p1x p1y p2x p2y P1 P2 LC) in C1.
        apply (lexlt_params p1x p1y o1x o1y Lx1 0 al p1x p1y p2x p2y Pp1 Pp2) in C1.
        apply (ev_lt_lex (sq_st s) other1 other2 o1x o1y o2x o2y Q1 Q2 RC) in C2.
        apply (lexlt_params p1x p1y o1x o1y Lx1 be 1 o2x o2y o1x o1y Po2 Po1) in C2.
        rewrite Pos.eqb_refl. cbn [negb].
        rewrite P2.
        pose proof (divide_segment_inv NQ cfg s se1 (fpt p2x p2y) S M1) as DI.
        destruct (divide_segment cfg s se1 (fpt p2x p2y)) as [s1|site|] eqn:Dv1; cbn [obind]; [|exact I|exact I].
        destruct DI as [S1 G1].
        assert (In1 : strictly_inside p1x p1y o1x o1y p2x p2y) by (apply (inside_by_params p1x p1y o1x o1y Lx1 0 1 al); auto; lra).
        destruct (div3 cfg s s1 se1 other1 p1x p1y o1x o1y p2x p2y S E Sn M1 O1 Lf1 P1 Q1 In1 HSp2 Dv1) as (E1 & Fl1 & Hl & Sn1 & Ps1).
        destruct (divide_segment_shape NQ cfg s s1 se1 other1 (fpt p2x p2y) W M1 Mo1 Hne1 O1 Dv1)
          as (r & l & i' & _ & _ & _ & _ & _ & _ & A4 & _ & _ & _ & Keep & KeepO).
        unfold other_of. rewrite A4.
        destruct (Hl l A4) as (Ll & Pl & Ol & _).
        unfold point_of. rewrite (Keep other2 Mo2), Q2.
        assert (Ml1 : mapped NQ (sq_st s1) l).
        { destruct (mapped_dec NQ (sq_st s1) l) as [K|K]; [exact K|]. rewrite (getE_unmapped_other _ _ K) in Ol. discriminate. }
        destruct (divide_segment cfg s1 l (fpt o2x o2y)) as [s2|site|] eqn:Dv2; cbn [obind]; [|exact I|exact I].
        cbn [pe3].
        assert (H01 : forall k, mapped NQ (sq_st s) k -> mapped NQ (sq_st s1) k /\ e_left (getE (sq_st s1) k) = e_left (getE (sq_st s) k))
          by (intros k Mk; split; [apply G1, Mk | apply Fl1, Mk]).
        assert (PTr : e_point (getE (sq_st s1) other1) = fpt o1x o1y) by (rewrite (Keep other1 Mo1); exact Q1).
        assert (Hin : strictly_inside p2x p2y o1x o1y o2x o2y) by (apply (inside_by_params p1x p1y o1x o1y Lx1 al 1 be); auto; lra).
        exact (pe3_step cfg (sq_st s) s1 s2 l other1 p2x p2y o1x o1y o2x o2y S1 E1 H01 Sn1 Ps1 Ml1 Ol Ll Pl PTr Hin HSo2 Dv2).
      * (* 0 < al, 1 < be: partial overlap, se1 first *)
        apply (ev_lt_lex_false (sq_st s) se1 se2 p1x p1y p2x p2y P1 P2 LC) in C1.
        apply (lexlt_params p1x p1y o1x o1y Lx1 0 al p1x p1y p2x p2y Pp1 Pp2) in C1.
        apply (ev_lt_lex_false (sq_st s) other1 other2 o1x o1y o2x o2y Q1 Q2 RC) in C2.
        apply (lexlt_params p1x p1y o1x o1y Lx1 1 be o1x o1y o2x o2y Po1 Po2) in C2.
        rewrite (proj2 (Pos.eqb_neq se1 se2) (not_eq_sym N21')). cbn [negb].
        rewrite P2.
        pose proof (divide_segment_inv NQ cfg s se1 (fpt p2x p2y) S M1) as DI.
        destruct (divide_segment cfg s se1 (fpt p2x p2y)) as [s1|site|] eqn:Dv1; cbn [obind]; [|exact I|exact I].
        destruct DI as [S1 G1].
        assert (In1 : strictly_inside p1x p1y o1x o1y p2x p2y) by (apply (inside_by_params p1x p1y o1x o1y Lx1 0 1 al); auto; lra).
        destruct (div3 cfg s s1 se1 other1 p1x p1y o1x o1y p2x p2y S E Sn M1 O1 Lf1 P1 Q1 In1 HSp2 Dv1) as (E1 & Fl1 & _ & Sn1 & Ps1).
        destruct (divide_segment_shape NQ cfg s s1 se1 other1 (fpt p2x p2y) W M1 Mo1 Hne1 O1 Dv1)
          as (r & l & i' & _ & _ & _ & _ & _ & _ & _ & _ & _ & _ & Keep & KeepO).
        unfold point_of. rewrite (Keep other1 Mo1), Q1.
        destruct (divide_segment cfg s1 se2 (fpt o1x o1y)) as [s2|site|] eqn:Dv2; cbn [obind]; [|exact I|exact I].
        cbn [pe3].
        assert (H01 : forall k, mapped NQ (sq_st s) k -> mapped NQ (sq_st s1) k /\ e_left (getE (sq_st s1) k) = e_left (getE (sq_st s) k))
          by (intros k Mk; split; [apply G1, Mk | apply Fl1, Mk]).
        assert (OT : e_other (getE (sq_st s1) se2) = Some other2) by (rewrite (KeepO se2 M2 N21' N2o); exact O2).
        assert (LT : e_left (getE (sq_st s1) se2) = true) by (rewrite (Fl1 se2 M2); exact Lf2).
        assert (PT : e_point (getE (sq_st s1) se2) = fpt p2x p2y) by (rewrite (Keep se2 M2); exact P2).
        assert (PTr : e_point (getE (sq_st s1) other2) = fpt o2x o2y) by (rewrite (Keep other2 Mo2); exact Q2).
        assert (Hin : strictly_inside p2x p2y o2x o2y o1x o1y) by (apply (inside_by_params p1x p1y o1x o1y Lx1 al be 1); auto; lra).
        exact (pe3_step cfg (sq_st s) s1 s2 se2 other2 p2x p2y o2x o2y o1x o1y S1 E1 H01 Sn1 Ps1 (G1 _ M2) OT LT PT PTr Hin HSo1 Dv2).
Qed.




(** ** the sweep with the potential *)
Notation slkeys := (@keys eid unit).

Definition sq3 (st0 : store) (x : sq NQ) : Prop :=
  sq2 edges st0 x /\ sinS (sq_st x) /\ (Psi cand (sq_st x) <= Psi cand st0)%nat.

Lemma compute_fields_sinS cfg (st : store) ev mp op : mapped NQ st ev -> sinS st -> sinS (compute_fields cfg st ev mp op).
Proof.
  intros M P. unfold compute_fields.
  apply sinS_upd; [apply k2_set_rt | |].
  - destruct mp as [prev|];
      repeat match goal with
             | |- context [if ?c then _ else _] => destruct c
             | |- context [match ?c with Some _ => _ | None => _ end] => destruct c
             end; rewrite ?mapped_upd; auto.
  - destruct mp as [prev|].
    + repeat match goal with
             | |- context [if ?c then _ else _] => destruct c
             | |- context [match ?c with Some _ => _ | None => _ end] => destruct c
             end;
        (apply sinS_upd; [apply k2_set_prev | rewrite ?mapped_upd; auto |]);
        (apply sinS_upd; [apply k2_set_in_out | exact M | exact P]).
    + apply sinS_upd; [apply k2_set_prev | rewrite ?mapped_upd; auto |].
      apply sinS_upd; [apply k2_set_in_out | exact M | exact P].
Qed.

Lemma compute_fields_Psi cfg (st : store) ev mp op : Psi cand (compute_fields cfg st ev mp op) = Psi cand st.
Proof.
  unfold compute_fields. rewrite Psi_upd by apply k2_set_rt.
  destruct mp as [prev|];
    repeat match goal with
           | |- context [if ?c then _ else _] => destruct c
           | |- context [match ?c with Some _ => _ | None => _ end] => destruct c
           end; rewrite !Psi_upd by (first [apply k2_set_prev | apply k2_set_in_out]); reflexivity.
Qed.

Lemma compute_fields_sq3 cfg st0 (x : sq NQ) ev mp op :
  sq3 st0 x -> mapped NQ (sq_st x) ev -> sq3 st0 (mkSQ (compute_fields cfg (sq_st x) ev mp op) (sq_q x)).
Proof.
  intros (S2 & Sn & Ps) M. split; [now apply (compute_fields_sq2 edges)|]. cbn [sq_st]. split.
  - now apply compute_fields_sinS.
  - now rewrite compute_fields_Psi.
Qed.

Lemma pi_sq3 cfg st0 (x : sq NQ) (a b : eid) :
  sq3 st0 x -> mapped NQ (sq_st x) a -> mapped NQ (sq_st x) b ->
  e_left (getE (sq_st x) a) = true -> e_left (getE (sq_st x) b) = true ->
  match possible_intersection cfg x a b with
  | Ok (x', _) => sq3 st0 x'
  | _ => True
  end.
Proof.
  intros ((S & E & G & F) & Sn & Ps) Ma Mb La Lb.
  pose proof (possible_intersection_inv NQ cfg x a b S Ma Mb) as PG.
  pose proof (possible_intersection_pe3 cfg x a b S E Sn Ma Mb La Lb) as PE.
  destruct (possible_intersection cfg x a b) as [[x' code]|site|]; [|exact I|exact I].
  destruct PG as [S' G']. destruct PE as (E' & F' & Sn' & Ps').
  split; [|split; [exact Sn' | lia]].
  split; [exact S'|]. split; [exact E'|]. split; [eapply grows_trans; eauto|].
  eapply FP_trans; eauto.
Qed.

Definition oke3 (st0 : store) (keys0 : list eid) (r : outcome (sweep NQ)) : Prop :=
  match r with
  | Ok s' => einv2 edges (sw_st s') /\ FP st0 (sw_st s') /\ (forall k, In k (slkeys (sw_sl s')) -> In k keys0)
             /\ sinS (sw_st s') /\ (Psi cand (sw_st s') <= Psi cand st0)%nat
  | _ => True
  end.

Definition keys_left (st : store) (ks : list eid) : Prop := forall k, In k ks -> e_left (getE st k) = true.

Theorem handle_left_e3 cfg (s : sweep NQ) (ev : eid) (op : operation) :
  swinv NQ s -> einv2 edges (sw_st s) -> sinS (sw_st s) -> keys_left (sw_st s) (slkeys (sw_sl s)) ->
  mapped NQ (sw_st s) ev -> e_left (getE (sw_st s) ev) = true ->
  oke3 (sw_st s) (ev :: slkeys (sw_sl s)) (handle_left cfg s ev op).
Proof.
  intros (S & Q & A & B) P Sn0 KL Mev Lev. unfold handle_left.
  set (st := sw_st s) in *.
  set (sl1 := sl_insert st (sw_sl s) ev).
  assert (K1 : forall k, In k (slkeys sl1) -> In k (ev :: slkeys (sw_sl s))).
  { intros k Hk. apply sl_insert_keys in Hk. destruct Hk as [->|Hk]; [now left | now right]. }
  assert (A1 : all_mapped NQ st (slkeys sl1)).
  { intros k Hk. destruct (K1 k Hk) as [<-|Hk']; auto. }
  assert (KL1 : keys_left st (slkeys sl1)).
  { intros k Hk. destruct (K1 k Hk) as [<-|Hk']; auto. }
  destruct (sl_prev_spec NQ st sl1 ev) as [Kp Ip].
  destruct (sl_prev st sl1 ev) as [sl2 maybe_prev]. cbn [fst snd] in Kp, Ip.
  destruct (sl_next_spec NQ st sl2 ev) as [Kn In_].
  destruct (sl_next st sl2 ev) as [sl3 maybe_next]. cbn [fst snd] in Kn, In_.
  assert (Kprev : forall p, maybe_prev = Some p -> In p (slkeys sl1)) by (intros p Hp; apply Ip, Hp).
  assert (Knext : forall p, maybe_next = Some p -> In p (slkeys sl1)) by (intros p Hp; rewrite <- Kp; apply In_, Hp).
  assert (K3 : forall k, In k (slkeys sl3) -> In k (ev :: slkeys (sw_sl s))) by (intros k Hk; apply K1; rewrite <- Kp, <- Kn; exact Hk).
  assert (X0 : sq3 st (mkSQ st (sw_q s))).
  { split; [|split; [exact Sn0 | cbn [sq_st]; lia]]. split; [split; assumption|]. split; [exact P|]. split; [apply grows_refl | apply FP_refl]. }
  pose proof (compute_fields_sq3 cfg st (mkSQ st (sw_q s)) ev maybe_prev op X0 Mev) as X1.
  cbn [sq_st sq_q] in X1.
  set (x1 := mkSQ (compute_fields cfg st ev maybe_prev op) (sw_q s)) in *.
  (* facts about events of the original store in any good later state *)
  assert (Use : forall x k, sq3 st x -> mapped NQ st k -> e_left (getE st k) = true ->
                 mapped NQ (sq_st x) k /\ e_left (getE (sq_st x) k) = true).
  { intros x k ((_ & _ & G & F) & _) Mk Lk. split; [apply G, Mk | rewrite (F k Mk); exact Lk]. }
  assert (Step1 : match
            (match maybe_next with
             | Some next =>
                 obind (possible_intersection cfg x1 ev next) (fun r =>
                 let '(x, code) := r in
                 if Nat.eqb code 2 then
                   let st_a := compute_fields cfg (sq_st x) ev maybe_prev op in
                   let st_b := compute_fields cfg st_a next (Some ev) op in
                   Ok (mkSQ st_b (sq_q x))
                 else Ok x)
             | None => Ok x1
             end) with
          | Ok x2 => sq3 st x2
          | _ => True
          end).
  { destruct maybe_next as [next|]; [|exact X1].
    assert (Mn : mapped NQ st next) by (apply A1, Knext; reflexivity).
    assert (Ln : e_left (getE st next) = true) by (apply KL1, Knext; reflexivity).
    destruct (Use x1 ev X1 Mev Lev) as [Me1 Le1]. destruct (Use x1 next X1 Mn Ln) as [Mn1 Ln1].
    pose proof (pi_sq3 cfg st x1 ev next X1 Me1 Mn1 Le1 Ln1) as PP.
    destruct (possible_intersection cfg x1 ev next) as [[x code]| site |]; cbn [obind]; [|exact I|exact I].
    destruct (Nat.eqb code 2); [|exact PP].
    destruct (Use x ev PP Mev Lev) as [Me _].
    pose proof (compute_fields_sq3 cfg st x ev maybe_prev op PP Me) as Sa.
    destruct (Use _ next Sa Mn Ln) as [Mna _].
    exact (compute_fields_sq3 cfg st _ next (Some ev) op Sa Mna). }
  destruct (match maybe_next with Some next => _ | None => Ok x1 end) as [x2| site |]; cbn [obind]; try exact I.
  destruct maybe_prev as [prev|].
  - assert (Mp : mapped NQ st prev) by (apply A1, Kprev; reflexivity).
    assert (Lp : e_left (getE st prev) = true) by (apply KL1, Kprev; reflexivity).
    destruct (Use x2 ev Step1 Mev Lev) as [Me2 Le2]. destruct (Use x2 prev Step1 Mp Lp) as [Mp2 Lp2].
    pose proof (pi_sq3 cfg st x2 prev ev Step1 Mp2 Me2 Lp2 Le2) as PP.
    destruct (possible_intersection cfg x2 prev ev) as [[x code]| site |]; cbn [obind]; try exact I.
    destruct (Nat.eqb code 2).
    + destruct (sl_prev_spec NQ (sq_st x) sl3 prev) as [Kp4 _].
      destruct (sl_prev (sq_st x) sl3 prev) as [sl4 mpp]. cbn [fst] in Kp4.
      destruct (Use x prev PP Mp Lp) as [Mpx _].
      pose proof (compute_fields_sq3 cfg st x prev mpp op PP Mpx) as Sa.
      destruct (Use _ ev Sa Mev Lev) as [Mea _].
      pose proof (compute_fields_sq3 cfg st _ ev (Some prev) op Sa Mea) as ((_ & Eb & _ & Fb) & Snb & Psb).
      cbn [oke3 with_sq sw_st sw_sl sq_st]. split; [exact Eb|]. split; [exact Fb|]. split; [|split; [exact Snb | exact Psb]].
      intros k Hk. apply K3. rewrite <- Kp4. exact Hk.
    + destruct PP as ((_ & Ex & _ & Fx) & Snx & Psx). cbn [oke3 with_sq sw_st sw_sl]. split; [exact Ex|]. split; [exact Fx|]. split; [exact K3 | split; [exact Snx | exact Psx]].
  - destruct Step1 as ((_ & Ex & _ & Fx) & Snx & Psx). cbn [oke3 with_sq sw_st sw_sl]. split; [exact Ex|]. split; [exact Fx|]. split; [exact K3 | split; [exact Snx | exact Psx]].
Qed.

Theorem handle_right_e3 cfg (s : sweep NQ) (other : eid) :
  swinv NQ s -> einv2 edges (sw_st s) -> sinS (sw_st s) -> keys_left (sw_st s) (slkeys (sw_sl s)) ->
  oke3 (sw_st s) (slkeys (sw_sl s)) (handle_right cfg s other).
Proof.
  intros (S & Q & A & B) P Sn0 KL. unfold handle_right.
  set (st := sw_st s) in *.
  pose proof (sl_contains_keys NQ st (sw_sl s) other) as Kc.
  destruct (sl_contains st (sw_sl s) other) as [sl1 present]. cbn [fst] in Kc.
  destruct (c_debug cfg && negb present); [exact I|].
  assert (Good : forall sl', (forall k, In k (slkeys sl') -> In k (slkeys (sw_sl s))) ->
            oke3 st (slkeys (sw_sl s)) (Ok (mkSweep st (sw_q s) sl' (sw_sorted s)))).
  { intros sl' Hk. cbn. split; [exact P|]. split; [apply FP_refl|]. split; [exact Hk | split; [exact Sn0 | lia]]. }
  destruct present; [|apply Good; intros k Hk; rewrite <- Kc; exact Hk].
  destruct (sl_prev_spec NQ st sl1 other) as [Kp Ip].
  destruct (sl_prev st sl1 other) as [sl2 maybe_prev]. cbn [fst snd] in Kp, Ip.
  destruct (sl_next_spec NQ st sl2 other) as [Kn In_].
  destruct (sl_next st sl2 other) as [sl3 maybe_next]. cbn [fst snd] in Kn, In_.
  assert (K3 : forall k, In k (slkeys sl3) -> In k (slkeys (sw_sl s))) by (intros k Hk; rewrite <- Kc, <- Kp, <- Kn; exact Hk).
  assert (X0 : sq3 st (mkSQ st (sw_q s))).
  { split; [|split; [exact Sn0 | cbn [sq_st]; lia]]. split; [split; assumption|]. split; [exact P|]. split; [apply grows_refl | apply FP_refl]. }
  assert (Fin : forall x, sq3 st x -> oke3 st (slkeys (sw_sl s)) (Ok (with_sq s x (sl_remove (sq_st x) sl3 other)))).
  { intros x ((_ & Ex & _ & Fx) & Snx & Psx). cbn [oke3 with_sq sw_st sw_sl]. split; [exact Ex|]. split; [exact Fx|].
    split; [|split; [exact Snx | exact Psx]].
    intros k Hk. apply sl_remove_keys in Hk. now apply K3. }
  destruct maybe_prev as [prev|]; [|cbn [obind]; now apply Fin].
  destruct maybe_next as [next|]; [|cbn [obind]; now apply Fin].
  assert (Hp : In prev (slkeys (sw_sl s))) by (rewrite <- Kc; apply Ip; reflexivity).
  assert (Hn : In next (slkeys (sw_sl s))) by (rewrite <- Kc, <- Kp; apply In_; reflexivity).
  pose proof (pi_sq3 cfg st (mkSQ st (sw_q s)) prev next X0 (A _ Hp) (A _ Hn) (KL _ Hp) (KL _ Hn)) as PP.
  destruct (possible_intersection cfg (mkSQ st (sw_q s)) prev next) as [[x code]| site |]; cbn [obind fst]; try exact I.
  now apply Fin.
Qed.

Theorem sweep_loop_e3 cfg : forall (fuel : nat) (s : sweep NQ) sbbox cbbox rightbound op,
  swinv NQ s -> einv2 edges (sw_st s) -> sinS (sw_st s) -> keys_left (sw_st s) (slkeys (sw_sl s)) ->
  match sweep_loop cfg fuel s sbbox cbbox rightbound op with
  | Ok s' => (Psi cand (sw_st s') <= Psi cand (sw_st s))%nat
  | _ => True
  end.
Proof.
  induction fuel as [|f IH]; intros s sbbox cbbox rightbound op Hs P Sn0 KL; cbn [sweep_loop].
  - destruct (qpop (sw_st s) (sw_q s)); [exact I | lia].
  - destruct (qpop (sw_st s) (sw_q s)) as [[ev q']|] eqn:Hp; [|lia].
    pose proof Hs as (S & Q & A & B).
    destruct (qpop_mapped NQ (sw_st s) (sw_st s) (sw_q s) ev q' Q Hp) as [Mev Q'].
    set (s1 := mkSweep (sw_st s) q' (sw_sl s) (ev :: sw_sorted s)).
    assert (S1 : swinv NQ s1).
    { unfold swinv, s1; cbn [sw_st sw_q sw_sl sw_sorted]. repeat split; try tauto.
      - apply S. - apply S. - intros i [<-|Hi]; auto. }
    destruct (negb (c_noshort cfg) && _); [cbn [sw_st s1]; lia|].
    destruct (e_left (getE (sw_st s) ev)) eqn:Lev.
    + pose proof (handle_left_inv NQ cfg s1 ev op S1 Mev) as G.
      pose proof (handle_left_e3 cfg s1 ev op S1 P Sn0 KL Mev Lev) as G2.
      destruct (handle_left cfg s1 ev op) as [s2| site |]; cbn [obind]; try exact I.
      destruct G as [S2 _]. destruct G2 as (E2 & F2 & K2 & Sn2 & Ps2).
      assert (KL2 : keys_left (sw_st s2) (slkeys (sw_sl s2))).
      { intros k Hk. cbn [sw_st s1] in F2. destruct (K2 k Hk) as [<-|Hk'].
        - rewrite (F2 ev Mev). exact Lev.
        - rewrite (F2 k (A k Hk')). exact (KL k Hk'). }
      pose proof (IH s2 sbbox cbbox rightbound op S2 E2 Sn2 KL2) as R.
      destruct (sweep_loop cfg f s2 sbbox cbbox rightbound op); try exact I. cbn [sw_st s1] in Ps2. lia.
    + destruct (e_other (getE (sw_st s) ev)) as [other|].
      * pose proof (handle_right_inv NQ cfg s1 other S1) as G.
        pose proof (handle_right_e3 cfg s1 other S1 P Sn0 KL) as G2.
        destruct (handle_right cfg s1 other) as [s2| site |]; cbn [obind]; try exact I.
        destruct G as [S2 _]. destruct G2 as (E2 & F2 & K2 & Sn2 & Ps2).
        assert (KL2 : keys_left (sw_st s2) (slkeys (sw_sl s2))).
        { intros k Hk. specialize (K2 k Hk). cbn [sw_sl s1] in K2. cbn [sw_st s1] in F2.
          rewrite (F2 k (A k K2)). exact (KL k K2). }
        pose proof (IH s2 sbbox cbbox rightbound op S2 E2 Sn2 KL2) as R.
        destruct (sweep_loop cfg f s2 sbbox cbbox rightbound op); try exact I. cbn [sw_st s1] in Ps2. lia.
      * cbn [obind]. apply (IH s1 sbbox cbbox rightbound op S1 P Sn0 KL).
Qed.




(** ** counting events *)
Lemma nodup_bound (l : list positive) (n : positive) :
  NoDup l -> (forall i, In i l -> (i < n)%positive) -> (length l <= Pos.to_nat n - 1)%nat.
Proof.
  intros ND Hb.
  assert (ND' : NoDup (List.map Pos.to_nat l)).
  { apply FinFun.Injective_map_NoDup; [|exact ND]. intros a b. apply Pos2Nat.inj. }
  assert (Inc : incl (List.map Pos.to_nat l) (seq 1 (Pos.to_nat n - 1))).
  { intros k Hk. apply in_map_iff in Hk. destruct Hk as (i & <- & Hi). apply in_seq.
    specialize (Hb i Hi). pose proof (Pos2Nat.is_pos i). lia. }
  pose proof (NoDup_incl_length ND' Inc) as K. rewrite map_length, seq_length in K. exact K.
Qed.

Lemma nids_le_Psi (st : store) : (nids st <= Psi cand st)%nat.
Proof. unfold Psi. lia. Qed.

(** [handle_left] / [handle_right] never stop with the budget site *)
Lemma pi_no_budget cfg (x : sq NQ) a b : sqinv NQ x -> mapped NQ (sq_st x) a -> mapped NQ (sq_st x) b ->
  possible_intersection cfg x a b <> Panic PEventBudget.
Proof.
  intros S Ma Mb. pose proof (possible_intersection_inv NQ cfg x a b S Ma Mb) as P.
  destruct (possible_intersection cfg x a b) as [[x' c]|site|]; try discriminate.
  intros K. inversion K; subst site. destruct P as [_ D]. exact D.
Qed.

Lemma handle_left_no_budget cfg (s : sweep NQ) ev op :
  swinv NQ s -> mapped NQ (sw_st s) ev -> handle_left cfg s ev op <> Panic PEventBudget.
Proof.
  intros Hs Mev. pose proof (handle_left_inv NQ cfg s ev op Hs Mev) as G.
  destruct (handle_left cfg s ev op) as [s'|site|] eqn:E; try discriminate.
  intros K. inversion K; subst site. clear K G.
  (* walk the definition: every panic comes out of possible_intersection *)
  revert E. destruct Hs as (S & Q & A & B). unfold handle_left.
  set (st := sw_st s) in *.
  set (sl1 := sl_insert st (sw_sl s) ev).
  assert (A1 : all_mapped NQ st (slkeys sl1)).
  { intros k Hk. apply sl_insert_keys in Hk. destruct Hk as [->|Hk]; auto. }
  destruct (sl_prev_spec NQ st sl1 ev) as [Kp Ip].
  destruct (sl_prev st sl1 ev) as [sl2 maybe_prev]. cbn [fst snd] in Kp, Ip.
  destruct (sl_next_spec NQ st sl2 ev) as [Kn In_].
  destruct (sl_next st sl2 ev) as [sl3 maybe_next]. cbn [fst snd] in Kn, In_.
  assert (Mprev : forall p, maybe_prev = Some p -> mapped NQ st p) by (intros p Hp; apply A1, Ip, Hp).
  assert (Mnext : forall p, maybe_next = Some p -> mapped NQ st p).
  { intros p Hp. apply A1. rewrite <- Kp. apply In_, Hp. }
  destruct (compute_fields_sq NQ cfg (mkSQ st (sw_q s)) ev maybe_prev op) as [X1 G1]; [split; assumption | exact Mev|].
  cbn [sq_st sq_q] in X1, G1.
  set (x1 := mkSQ (compute_fields cfg st ev maybe_prev op) (sw_q s)) in *.
  assert (Step1 : match
            (match maybe_next with
             | Some next =>
                 obind (possible_intersection cfg x1 ev next) (fun r =>
                 let '(x, code) := r in
                 if Nat.eqb code 2 then
                   let st_a := compute_fields cfg (sq_st x) ev maybe_prev op in
                   let st_b := compute_fields cfg st_a next (Some ev) op in
                   Ok (mkSQ st_b (sq_q x))
                 else Ok x)
             | None => Ok x1
             end) with
          | Ok x2 => sqinv NQ x2 /\ grows NQ st (sq_st x2)
          | Panic p => p <> PEventBudget
          | OutOfFuel => True
          end).
  { destruct maybe_next as [next|]; [|split; assumption].
    pose proof (possible_intersection_inv NQ cfg x1 ev next X1 (G1 _ Mev) (G1 _ (Mnext _ eq_refl))) as P.
    pose proof (pi_no_budget cfg x1 ev next X1 (G1 _ Mev) (G1 _ (Mnext _ eq_refl))) as NB.
    destruct (possible_intersection cfg x1 ev next) as [[x code]| site |]; cbn [obind]; [|intros K; apply NB; now rewrite K|exact I].
    destruct P as [Sx Gx]. cbn [sq_st] in Gx.
    destruct (Nat.eqb code 2).
    - destruct (compute_fields_sq NQ cfg x ev maybe_prev op Sx (Gx _ (G1 _ Mev))) as [Sa Ga].
      cbn [sq_st sq_q] in Sa, Ga.
      destruct (compute_fields_sq NQ cfg (mkSQ (compute_fields cfg (sq_st x) ev maybe_prev op) (sq_q x))
                  next (Some ev) op Sa (Ga _ (Gx _ (G1 _ (Mnext _ eq_refl))))) as [Sb Gb].
      cbn [sq_st sq_q] in Sb, Gb. split; [exact Sb|].
      cbn [sq_st]. intros i Hi. apply Gb, Ga, Gx, G1, Hi.
    - split; [exact Sx | intros i Hi; apply Gx, G1, Hi]. }
  destruct (match maybe_next with Some next => _ | None => Ok x1 end) as [x2| site |]; cbn [obind];
    [|intros K; inversion K; congruence|discriminate].
  destruct Step1 as [S2 G2].
  destruct maybe_prev as [prev|]; [|discriminate].
  pose proof (pi_no_budget cfg x2 prev ev S2 (G2 _ (Mprev _ eq_refl)) (G2 _ Mev)) as NB.
  destruct (possible_intersection cfg x2 prev ev) as [[x code]| site |]; cbn [obind]; [|intros K; inversion K; subst site; now apply NB|discriminate].
  destruct (Nat.eqb code 2); [destruct (sl_prev (sq_st x) sl3 prev)|]; discriminate.
Qed.

Lemma handle_right_no_budget cfg (s : sweep NQ) other :
  swinv NQ s -> handle_right cfg s other <> Panic PEventBudget.
Proof.
  intros (S & Q & A & B). unfold handle_right.
  set (st := sw_st s) in *.
  pose proof (sl_contains_keys NQ st (sw_sl s) other) as Kc.
  destruct (sl_contains st (sw_sl s) other) as [sl1 present]. cbn [fst] in Kc.
  destruct (c_debug cfg && negb present); [discriminate|].
  assert (A1 : all_mapped NQ st (slkeys sl1)) by (rewrite Kc; exact A).
  destruct present; [|discriminate].
  destruct (sl_prev_spec NQ st sl1 other) as [Kp Ip].
  destruct (sl_prev st sl1 other) as [sl2 maybe_prev]. cbn [fst snd] in Kp, Ip.
  destruct (sl_next_spec NQ st sl2 other) as [Kn In_].
  destruct (sl_next st sl2 other) as [sl3 maybe_next]. cbn [fst snd] in Kn, In_.
  destruct maybe_prev as [prev|]; [|discriminate].
  destruct maybe_next as [next|]; [|discriminate].
  assert (Mp : mapped NQ st prev) by (apply A1, Ip; reflexivity).
  assert (Mn : mapped NQ st next) by (apply A1; rewrite <- Kp; apply In_; reflexivity).
  pose proof (pi_no_budget cfg (mkSQ st (sw_q s)) prev next (conj S Q) Mp Mn) as NB.
  destruct (possible_intersection cfg (mkSQ st (sw_q s)) prev next) as [[x code]| site |]; cbn [obind]; try discriminate.
  intros K. inversion K; subst site. now apply NB.
Qed.

(** ** C03: the sweep stays within its event budget *)
Theorem sweep_loop_within_budget cfg (Bnd : nat) : forall (fuel : nat) (s : sweep NQ) sbbox cbbox rightbound op,
  swinv NQ s -> einv2 edges (sw_st s) -> sinS (sw_st s) -> keys_left (sw_st s) (slkeys (sw_sl s)) ->
  ndq NQ s -> (Psi cand (sw_st s) <= Bnd)%nat -> (Bnd <= length (sw_sorted s) + fuel)%nat ->
  sweep_loop cfg fuel s sbbox cbbox rightbound op <> Panic PEventBudget.
Proof.
  induction fuel as [|f IH]; intros s sbbox cbbox rightbound op Hs P Sn0 KL ND HB HF; cbn [sweep_loop].
  - destruct (qpop (sw_st s) (sw_q s)) as [[ev q']|] eqn:Hp; [|discriminate].
    exfalso. destruct Hs as ((W & L) & Q & A & B).
    assert (Hall : forall i, In i (sw_q s ++ sw_sorted s) -> (i < st_next (sw_st s))%positive).
    { intros i Hi. apply W. apply in_app_or in Hi. destruct Hi; auto. }
    pose proof (nodup_bound _ _ ND Hall) as K. rewrite app_length in K.
    assert (Hq : (1 <= length (sw_q s))%nat).
    { pose proof (Permutation_length (qpop_perm NQ _ _ _ _ Hp)) as PL. cbn [length] in PL. lia. }
    pose proof (nids_le_Psi (sw_st s)). unfold nids in *. lia.
  - destruct (qpop (sw_st s) (sw_q s)) as [[ev q']|] eqn:Hp; [|discriminate].
    pose proof Hs as (S & Q & A & B).
    destruct (qpop_mapped NQ (sw_st s) (sw_st s) (sw_q s) ev q' Q Hp) as [Mev Q'].
    set (s1 := mkSweep (sw_st s) q' (sw_sl s) (ev :: sw_sorted s)).
    assert (S1 : swinv NQ s1).
    { unfold swinv, s1; cbn [sw_st sw_q sw_sl sw_sorted]. repeat split; try tauto.
      - apply S. - apply S. - intros i [<-|Hi]; auto. }
    assert (ND1 : ndq NQ s1).
    { unfold ndq, s1 in *. cbn [sw_q sw_sorted].
      eapply Permutation_NoDup; [|exact ND].
      eapply Permutation_trans; [apply Permutation_app_tail; apply (qpop_perm NQ _ _ _ _ Hp)|].
      cbn [app]. apply Permutation_middle. }
    destruct (negb (c_noshort cfg) && _); [discriminate|].
    destruct (e_left (getE (sw_st s) ev)) eqn:Lev.
    + pose proof (handle_left_inv NQ cfg s1 ev op S1 Mev) as G.
      pose proof (handle_left_e3 cfg s1 ev op S1 P Sn0 KL Mev Lev) as G2.
      pose proof (handle_left_closure NQ cfg (qext NQ) (qext_refl NQ) (qext_trans NQ) (qext_upd NQ) (qext_div NQ cfg) s1 ev op S1 Mev) as C.
      pose proof (handle_left_no_budget cfg s1 ev op S1 Mev) as NB.
      destruct (handle_left cfg s1 ev op) as [s2| site |] eqn:Eh; cbn [obind]; [|intros K; apply NB; now rewrite K|discriminate].
      destruct G as [S2 _]. destruct G2 as (E2 & F2 & K2 & Sn2 & Ps2). cbn [hr] in C.
      assert (KL2 : keys_left (sw_st s2) (slkeys (sw_sl s2))).
      { intros k Hk. cbn [sw_st s1] in F2. destruct (K2 k Hk) as [<-|Hk'].
        - rewrite (F2 ev Mev). exact Lev.
        - rewrite (F2 k (A k Hk')). exact (KL k Hk'). }
      pose proof (handle_left_sorted NQ cfg s1 s2 ev op Eh) as Es.
      apply (IH s2 sbbox cbbox rightbound op S2 E2 Sn2 KL2 (ndq_step NQ s1 s2 S1 ND1 C Es)).
      * cbn [sw_st s1] in Ps2. lia.
      * rewrite Es. cbn [sw_sorted s1 length]. lia.
    + destruct (e_other (getE (sw_st s) ev)) as [other|].
      * pose proof (handle_right_inv NQ cfg s1 other S1) as G.
        pose proof (handle_right_e3 cfg s1 other S1 P Sn0 KL) as G2.
        pose proof (handle_right_closure NQ cfg (qext NQ) (qext_refl NQ) (qext_trans NQ) (qext_upd NQ) (qext_div NQ cfg) s1 other S1) as C.
        pose proof (handle_right_no_budget cfg s1 other S1) as NB.
        destruct (handle_right cfg s1 other) as [s2| site |] eqn:Eh; cbn [obind]; [|intros K; apply NB; now rewrite K|discriminate].
        destruct G as [S2 _]. destruct G2 as (E2 & F2 & K2 & Sn2 & Ps2). cbn [hr] in C.
        assert (KL2 : keys_left (sw_st s2) (slkeys (sw_sl s2))).
        { intros k Hk. specialize (K2 k Hk). cbn [sw_sl s1] in K2. cbn [sw_st s1] in F2.
          rewrite (F2 k (A k K2)). exact (KL k K2). }
        pose proof (handle_right_sorted NQ cfg s1 s2 other Eh) as Es.
        apply (IH s2 sbbox cbbox rightbound op S2 E2 Sn2 KL2 (ndq_step NQ s1 s2 S1 ND1 C Es)).
        -- cbn [sw_st s1] in Ps2. lia.
        -- rewrite Es. cbn [sw_sorted s1 length]. lia.
      * cbn [obind]. apply (IH s1 sbbox cbbox rightbound op S1 P Sn0 KL ND1).
        -- exact HB.
        -- cbn [sw_sorted s1 length]. lia.
Qed.


(** ** queue filling: candidates and the initial potential *)
Lemma sinS_alloc (st : store) e : wf NQ st -> sinS st -> (exists x y, e_point e = fpt x y /\ inS x y) -> sinS (fst (alloc st e)).
Proof.
  intros W P A i Mi. apply mapped_alloc in Mi. destruct Mi as [->|Mi].
  - now rewrite getE_alloc_new.
  - rewrite getE_alloc_old; [now apply P|]. intros ->. exact (fresh_unmapped NQ st W Mi).
Qed.

Definition fqs (s : fq NQ) : Prop := fqinv NQ s /\ sinS (fq_st s).

Lemma process_edge_sinS (s : fq NQ) subj cid ext (a b : pt NQ) :
  edge_in edges subj a b -> fqs s -> fqs (process_edge s subj cid ext a b).
Proof.
  intros (ax & ay & bx & by_ & -> & -> & Hin) [F Sn]. split; [now apply process_edge_inv|].
  destruct (HV _ _ _ _ _ Hin) as [Sa Sb].
  destruct F as [[W L] Q]. unfold process_edge.
  destruct (pt_eq (fpt ax ay) (fpt bx by_)); [exact Sn|].
  destruct (alloc (fq_st s) (new_event cid (fpt ax ay) false None subj ext)) as [st1 e1] eqn:E1.
  destruct (alloc st1 (new_event cid (fpt bx by_) false (Some e1) subj ext)) as [st2 e2] eqn:E2.
  assert (H1 : st1 = fst (alloc (fq_st s) (new_event cid (fpt ax ay) false None subj ext))) by (rewrite E1; reflexivity).
  assert (H2 : st2 = fst (alloc st1 (new_event cid (fpt bx by_) false (Some e1) subj ext))) by (rewrite E2; reflexivity).
  assert (I1 : e1 = st_next (fq_st s)) by (unfold alloc in E1; now inversion E1).
  assert (I2 : e2 = st_next st1) by (unfold alloc in E2; now inversion E2).
  assert (I2' : e2 = Pos.succ e1) by (rewrite I2, H1, next_alloc, I1; reflexivity).
  assert (N12 : e1 <> e2) by (rewrite I2'; lia).
  assert (W1 : wf NQ st1) by (rewrite H1; now apply wf_alloc).
  assert (Sn1 : sinS st1) by (rewrite H1; apply sinS_alloc; [exact W | exact Sn | exists ax, ay; auto]).
  assert (Sn2 : sinS st2) by (rewrite H2; apply sinS_alloc; [exact W1 | exact Sn1 | exists bx, by_; auto]).
  assert (M1 : mapped NQ st2 e1) by (rewrite H2; apply mapped_alloc; right; rewrite H1, I1; apply mapped_alloc; now left).
  assert (M2 : mapped NQ st2 e2) by (rewrite H2, I2; apply mapped_alloc; now left).
  assert (KO : forall o, forall e : event NQ, e_point (set_other e o) = e_point e) by reflexivity.
  assert (Sn3 : sinS (upd st2 e1 (fun e => set_other e (Some e2)))).
  { intros i Mi. apply (mapped_upd_in NQ st2 e1 _ i M1) in Mi.
    destruct (Pos.eq_dec e1 i) as [->|Hn]; [rewrite getE_upd_same, KO | rewrite getE_upd_other by exact Hn]; now apply Sn2. }
  cbn [fq_st].
  assert (KL : forall b0, forall e : event NQ, e_point (set_left e b0) = e_point e) by reflexivity.
  destruct (ev_lt _ e1 e2); intros i Mi.
  - apply mapped_upd_in in Mi; [|apply mapped_upd; now right].
    destruct (Pos.eq_dec e2 i) as [->|Hn]; [rewrite getE_upd_same, KL | rewrite getE_upd_other by exact Hn]; now apply Sn3.
  - apply mapped_upd_in in Mi; [|apply mapped_upd; now left].
    destruct (Pos.eq_dec e1 i) as [->|Hn]; [rewrite getE_upd_same, KL | rewrite getE_upd_other by exact Hn]; now apply Sn3.
Qed.

Lemma process_ring_from_sinS : forall (rest : ring NQ) (s : fq NQ) subj cid ext (prev : pt NQ),
  ring_from_ok edges subj prev rest -> fqs s -> fqs (process_ring_from s subj cid ext prev rest).
Proof.
  induction rest as [|p rest IH]; intros s subj cid ext prev Hr H; cbn [process_ring_from]; [exact H|].
  destruct Hr as [He Hr]. apply IH; [exact Hr|]. now apply process_edge_sinS.
Qed.
Lemma process_ring_sinS (s : fq NQ) (r : ring NQ) subj cid ext :
  ring_ok edges subj r -> fqs s -> fqs (process_ring s r subj cid ext).
Proof. intros Hr H. destruct r as [|p rest]; [exact H|]. now apply process_ring_from_sinS. Qed.
Lemma process_interiors_sinS : forall (ints : list (ring NQ)) (s : fq NQ) subj cid,
  (forall r, In r ints -> ring_ok edges subj r) -> fqs s -> fqs (process_interiors s ints subj cid).
Proof.
  unfold process_interiors. induction ints as [|r ints IH]; intros s subj cid Hi H; cbn [fold_left]; [exact H|].
  apply IH; [intros r' Hr'; apply Hi; now right|]. apply process_ring_sinS; [apply Hi; now left | exact H].
Qed.
Lemma fill_subject_sinS : forall (ps : list (polygon NQ)) (s : fq NQ) cid,
  (forall P, In P ps -> poly_ok edges true P) -> fqs s -> fqs (fst (fill_subject s cid ps)).
Proof.
  induction ps as [|P ps IH]; intros s cid Hin H; cbn [fill_subject]; [exact H|].
  destruct (Hin P (or_introl eq_refl)) as [He Hi].
  apply IH; [intros P' HP'; apply Hin; now right|].
  apply process_interiors_sinS; [exact Hi|]. apply process_ring_sinS; [exact He | exact H].
Qed.
Lemma fill_clipping_sinS : forall (ps : list (polygon NQ)) (s : fq NQ) cid op,
  (forall P, In P ps -> poly_ok edges false P) -> fqs s -> fqs (fst (fill_clipping s cid op ps)).
Proof.
  induction ps as [|P ps IH]; intros s cid op Hin H; cbn [fill_clipping]; [exact H|].
  destruct (Hin P (or_introl eq_refl)) as [He Hi].
  apply IH; [intros P' HP'; apply Hin; now right|].
  apply process_interiors_sinS; [exact Hi|]. apply process_ring_sinS; [exact He | exact H].
Qed.
Theorem fill_queue_sinS (subject clipping : list (polygon NQ)) (op : operation) :
  (forall P, In P subject -> poly_ok edges true P) -> (forall P, In P clipping -> poly_ok edges false P) ->
  sinS (f_st (fill_queue subject clipping op)).
Proof.
  intros HS HC. unfold fill_queue.
  pose proof (fill_subject_sinS subject (mkFQ (empty_store NQ) [] (empty_bb NQ)) 0%N HS) as H1.
  destruct (fill_subject (mkFQ (empty_store NQ) [] (empty_bb NQ)) 0 subject) as [s1 cid]. cbn [fst] in H1.
  assert (F1 : fqs s1).
  { apply H1. split; [split; [apply empty_store_sinv | intros i []]|]. intros i M. exfalso. apply M. reflexivity. }
  pose proof (fill_clipping_sinS clipping (mkFQ (fq_st s1) (fq_q s1) (empty_bb NQ)) cid op HC) as H2.
  destruct (fill_clipping (mkFQ (fq_st s1) (fq_q s1) (empty_bb NQ)) cid op clipping) as [s2 c2]. cbn [fst] in H2.
  cbn [f_st]. apply H2. exact F1.
Qed.

Lemma sumto_le n f c : (forall i, (f i <= c)%nat) -> (sumto n f <= n * c)%nat.
Proof. intros H. induction n as [|n IH]; [cbn; lia|]. rewrite sumto_S. specialize (H (Pos.of_nat (S n))). lia. Qed.

Lemma term_le (st : store) i : (term cand st i <= length cand)%nat.
Proof.
  unfold term. destruct (e_left (getE st i)); [|lia]. destruct (e_other (getE st i)); [|lia].
  destruct (coords _) as [[a b]|]; [|lia]. destruct (coords _) as [[c d]|]; [|lia]. apply cnt_le.
Qed.

Lemma Psi_le (st : store) : (Psi cand st <= nids st * (1 + 2 * length cand))%nat.
Proof.
  unfold Psi, Phi. pose proof (sumto_le (nids st) (term cand st) (length cand) (term_le st)). nia.
Qed.

(** C03: with a budget of [#events after queue filling * (1 + 2 * #candidates)] the sweep never
    stops for lack of budget — it terminates by itself *)
Theorem subdivide_within_budget cfg fuel (A B : list (polygon NQ)) op :
  (forall P, In P A -> poly_ok edges true P) -> (forall P, In P B -> poly_ok edges false P) ->
  (nids (f_st (fill_queue A B op)) * (1 + 2 * length cand) <= fuel)%nat ->
  subdivide cfg fuel (fill_queue A B op) op <> Panic PEventBudget.
Proof.
  intros HA HB HF. unfold subdivide. destruct (fill_queue_inv NQ A B op) as [S0 Q0].
  pose proof (fill_queue_einv2 edges A B op HA HB) as P0.
  pose proof (fill_queue_sinS A B op HA HB) as Sn0.
  set (s0 := mkSweep _ _ _ _).
  assert (I0 : swinv NQ s0).
  { unfold swinv, s0; cbn [sw_st sw_q sw_sl sw_sorted]. repeat split; try apply S0; try exact Q0; intros i []. }
  assert (KL0 : keys_left (sw_st s0) (slkeys (sw_sl s0))) by (intros k []).
  assert (ND0 : ndq NQ s0).
  { unfold ndq, s0. cbn [sw_q sw_sorted]. rewrite app_nil_r. apply fill_queue_nodup. }
  pose proof (sweep_loop_within_budget cfg (Psi cand (sw_st s0)) fuel s0 (f_sbbox (fill_queue A B op)) (f_cbbox (fill_queue A B op))
                (minX NQ (bb_maxx (f_sbbox (fill_queue A B op))) (bb_maxx (f_cbbox (fill_queue A B op)))) op
                I0 P0 Sn0 KL0 ND0 (le_n _)) as NB.
  assert (HB2 : (Psi cand (sw_st s0) <= length (sw_sorted s0) + fuel)%nat).
  { assert (E0 : sw_st s0 = f_st (fill_queue A B op)) by reflexivity.
    assert (L0 : sw_sorted s0 = []) by reflexivity.
    rewrite L0, E0. cbn [length]. pose proof (Psi_le (f_st (fill_queue A B op))). lia. }
  specialize (NB HB2).
  destruct (sweep_loop _ _ _ _ _ _ _) as [s|site|]; cbn [obind]; try discriminate.
  intros K. apply NB. inversion K. reflexivity.
Qed.

End Bound.

(** ** the candidates of a list of edges: its end points and the common points of its
    non-parallel pairs *)
Definition ends_of (e : edge) : list (Q * Q) :=
  let '(ax, ay, (bx, by_), _) := e in [(ax, ay); (bx, by_)].
Definition cross_pt (e f : edge) : list (Q * Q) :=
  let '(ax, ay, (bx, by_), _) := e in
  let '(cx, cy, (dx, dy), _) := f in
  if Qeq_bool (det ax ay bx by_ cx cy dx dy) 0 then []
  else let s := numS ax ay cx cy dx dy / det ax ay bx by_ cx cy dx dy in
       [(ax + s * (bx - ax), ay + s * (by_ - ay))].
Definition cand_of (edges : list edge) : list (Q * Q) :=
  flat_map ends_of edges ++ flat_map (fun e => flat_map (cross_pt e) edges) edges.

Lemma cand_of_HV edges ax ay bx by_ sj :
  In (ax, ay, (bx, by_), sj) edges -> inS (cand_of edges) ax ay /\ inS (cand_of edges) bx by_.
Proof.
  intros H. split.
  - exists (ax, ay). split; [|split; reflexivity]. unfold cand_of. apply in_or_app. left.
    apply in_flat_map. exists (ax, ay, (bx, by_), sj). split; [exact H | now left].
  - exists (bx, by_). split; [|split; reflexivity]. unfold cand_of. apply in_or_app. left.
    apply in_flat_map. exists (ax, ay, (bx, by_), sj). split; [exact H | right; now left].
Qed.

Lemma cand_of_HX edges ax ay bx by_ sj cx cy dx dy sj' x y :
  In (ax, ay, (bx, by_), sj) edges -> In (cx, cy, (dx, dy), sj') edges ->
  ~ det ax ay bx by_ cx cy dx dy == 0 ->
  on_seg ax ay bx by_ x y -> on_seg cx cy dx dy x y -> inS (cand_of edges) x y.
Proof.
  intros H1 H2 Hdet U1 U2.
  destruct (on_seg_common _ _ _ _ _ _ _ _ _ _ U1 U2) as (s & t & C & Ex & Ey).
  destruct (common_params Hdet C) as [Es _].
  set (s0 := numS ax ay cx cy dx dy / det ax ay bx by_ cx cy dx dy).
  assert (Es0 : s == s0) by (rewrite Es; unfold s0; apply rs_eq).
  exists (ax + s0 * (bx - ax), ay + s0 * (by_ - ay)). split.
  - unfold cand_of. apply in_or_app. right. apply in_flat_map. exists (ax, ay, (bx, by_), sj). split; [exact H1|].
    apply in_flat_map. exists (cx, cy, (dx, dy), sj'). split; [exact H2|]. unfold cross_pt.
    destruct (Qeq_bool (det ax ay bx by_ cx cy dx dy) 0) eqn:Eb; [apply Qeq_bool_iff in Eb; contradiction|]. now left.
  - cbn [fst snd]. split; [rewrite Ex, Es0 | rewrite Ey, Es0]; reflexivity.
Qed.

(** C03, exact instance, every input with finite coordinates: the sweep loop ends by itself
    within [n0 * (1 + 2 * #candidates)] iterations, [n0] the number of events after queue
    filling (two per non-degenerate edge) *)
Theorem sweep_terminates edges cfg fuel (A B : list (polygon NQ)) op :
  (forall P, In P A -> poly_ok edges true P) -> (forall P, In P B -> poly_ok edges false P) ->
  (nids (f_st (fill_queue A B op)) * (1 + 2 * length (cand_of edges)) <= fuel)%nat ->
  subdivide cfg fuel (fill_queue A B op) op <> Panic PEventBudget.
Proof.
  intros HA HB HF.
  exact (subdivide_within_budget edges (cand_of edges) (cand_of_HV edges) (cand_of_HX edges) cfg fuel A B op HA HB HF).
Qed.

(** non-vacuity: the bound for the example of [OnEdge] (a square and a triangle) *)
Example sweep_terminates_example :
  (nids (f_st (fill_queue ex_A [ex_T] Intersection)) * (1 + 2 * length (cand_of ex_edges)) <= 4000)%nat /\
  exists st sorted n, subdivide release 4000 (fill_queue ex_A [ex_T] Intersection) Intersection = Ok (st, sorted, n).
Proof.
  split; [vm_compute; lia|].
  destruct (subdivide release 4000 (fill_queue ex_A [ex_T] Intersection) Intersection) as [[[st sorted] n]| |] eqn:E.
  - exists st, sorted, n. reflexivity.
  - vm_compute in E. discriminate.
  - vm_compute in E. discriminate.
Qed.

(** ... so in release builds the sweep stage RETURNS, for every such input *)
Corollary sweep_returns edges cfg fuel (A B : list (polygon NQ)) op :
  c_debug cfg = false ->
  (forall P, In P A -> poly_ok edges true P) -> (forall P, In P B -> poly_ok edges false P) ->
  (nids (f_st (fill_queue A B op)) * (1 + 2 * length (cand_of edges)) <= fuel)%nat ->
  exists st sorted n, subdivide cfg fuel (fill_queue A B op) op = Ok (st, sorted, n).
Proof.
  intros Hd HA HB HF.
  pose proof (sweep_terminates edges cfg fuel A B op HA HB HF) as NB.
  pose proof (subdivide_release_panic_free NQ cfg fuel A B op) as RP.
  destruct (subdivide cfg fuel (fill_queue A B op) op) as [[[st sorted] n]|site|] eqn:E.
  - exists st, sorted, n. reflexivity.
  - exfalso. apply NB. rewrite (RP site Hd eq_refl). reflexivity.
  - exfalso. revert E. unfold subdivide. destruct (fill_queue_inv NQ A B op) as [S0 Q0].
    set (s0 := mkSweep _ _ _ _).
    assert (I0 : swinv NQ s0).
    { unfold swinv, s0; cbn [sw_st sw_q sw_sl sw_sorted]. repeat split; try apply S0; try exact Q0; intros i []. }
    pose proof (sweep_loop_inv NQ cfg fuel s0 (f_sbbox (fill_queue A B op)) (f_cbbox (fill_queue A B op))
                  (minX NQ (bb_maxx (f_sbbox (fill_queue A B op))) (bb_maxx (f_cbbox (fill_queue A B op)))) op I0) as G.
    destruct (sweep_loop _ _ _ _ _ _ _) as [s|site|]; cbn [obind]; try discriminate. destruct G.
Qed.
