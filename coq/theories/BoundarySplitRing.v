(** Ring level of [BoundarySplit]: an extra vertex strictly inside an edge of a ring (in either
    direction of travel) does not change the even-odd region of a set of rings. *)
From Coq Require Import QArith List Bool Arith Lia.
From GB Require Import Slab BoundaryRegion BoundarySplit.
Import ListNotations.

Definition between_x (a m b : qpt) : Prop :=
  (qx a < qx m /\ qx m < qx b) \/ (qx b < qx m /\ qx m < qx a).
Definition on_line (a m b : qpt) : Prop :=
  (qy m - qy a) * (qx b - qx a) == (qy b - qy a) * (qx m - qx a).

Lemma on_line_sym a m b : on_line a m b -> on_line b m a.
Proof.
  unfold on_line. intros H.
  assert (E : (qy m - qy b) * (qx a - qx b) - (qy a - qy b) * (qx m - qx b)
              == - ((qy m - qy a) * (qx b - qx a) - (qy b - qy a) * (qx m - qx a))) by ring.
  rewrite H in E.
  assert (Z : (qy m - qy b) * (qx a - qx b) - (qy a - qy b) * (qx m - qx b) == 0) by (rewrite E; ring).
  apply Qplus_inj_r with (z := - ((qy a - qy b) * (qx m - qx b))).
  rewrite Qplus_opp_r. exact Z.
Qed.

Lemma cut_two_crossings a m b p : between_x a m b -> on_line a m b ->
  crossings [mk_edge a m; mk_edge m b] p = crossings [mk_edge a b] p.
Proof.
  intros [[H1 H2]|[H1 H2]] L.
  - symmetry. now apply split_edge_crossings.
  - (* travelled right to left: the same three segments with their names exchanged *)
    change [mk_edge a m; mk_edge m b] with ([mk_edge a m] ++ [mk_edge m b]).
    rewrite crossings_app, (crossings_one_sym a m p), (crossings_one_sym m b p), (crossings_one_sym a b p).
    rewrite Nat.add_comm, <- crossings_app. cbn [app].
    symmetry. apply split_edge_crossings; [exact H1 | exact H2 | now apply on_line_sym].
Qed.

Theorem extra_vertex_same_region (e0 : qpt) (pre : list qpt) (a m b : qpt) (post : list qpt) (rs : list ring) :
  between_x a m b -> on_line a m b ->
  forall p, inside_eo ((e0 :: pre ++ a :: m :: b :: post) :: rs) p
          = inside_eo ((e0 :: pre ++ a :: b :: post) :: rs) p.
Proof.
  intros B L p. unfold inside_eo. cbn [flat_map]. rewrite !crossings_app. f_equal. f_equal.
  unfold ring_edges. rewrite !ring_edges_from_path, !crossings_app.
  change (pre ++ a :: m :: b :: post) with (pre ++ a :: [m] ++ b :: post).
  assert (E1 : last (pre ++ a :: [m] ++ b :: post) e0 = last post b).
  { rewrite last_app_cons. cbn [app]. rewrite last_cons. apply last_cons. }
  assert (E2 : last (pre ++ a :: b :: post) e0 = last post b).
  { rewrite last_app_cons. apply last_cons. }
  rewrite E1, E2. f_equal.
  rewrite !path_edges_app. cbn [path_edges app]. rewrite !crossings_app. f_equal.
  change (mk_edge (last pre e0) a :: mk_edge a m :: mk_edge m b :: path_edges b post)
    with ([mk_edge (last pre e0) a] ++ [mk_edge a m; mk_edge m b] ++ path_edges b post).
  change (mk_edge (last pre e0) a :: mk_edge a b :: path_edges b post)
    with ([mk_edge (last pre e0) a] ++ [mk_edge a b] ++ path_edges b post).
  rewrite !crossings_app. now rewrite (cut_two_crossings a m b p B L).
Qed.

Example extra_vertex_example :
  between_x (mkQpt 2 2) (mkQpt 1 1) (mkQpt 0 0) /\ on_line (mkQpt 2 2) (mkQpt 1 1) (mkQpt 0 0).
Proof. split; [right; split; reflexivity | reflexivity]. Qed.
