(** * [boolean/mod.rs]: [boolean_operation], [trivial_result], the four [BooleanOp] impls *)
From Coq Require Import Bool List ZArith NArith PArith.
From GB Require Import Num Event Intersect Cmp Heap Outcome Divide Fields FillQueue Subdivide Connect.
Import ListNotations.
Set Implicit Arguments.

Section BoolOp.
Variable N : Num.
Variable cfg : config.
Notation pt := (pt N).
Notation polygon := (polygon N).

Definition multipolygon := list polygon.

Definition trivial_result (subject clipping : list polygon) (op : operation) : multipolygon :=
  match op with
  | Intersection => []
  | Difference => subject
  | Union | Xor => subject ++ clipping
  end.

Definition boxes_disjoint (s c : bounding_box N) : bool :=
  gtX N (bb_minx s) (bb_maxx c) || gtX N (bb_minx c) (bb_maxx s)
  || gtY N (bb_miny s) (bb_maxy c) || gtY N (bb_miny c) (bb_maxy s).

Fixpoint collect_holes (contours : list (contour N)) (ids : list Z) : outcome (list (ring N)) :=
  match ids with
  | [] => Ok []
  | h :: rest =>
      if negb (in_range h (length contours)) then Panic PIndexHoleIds
      else
        match nth_error contours (Z.to_nat h) with
        | None => Panic PIndexHoleIds
        | Some c => obind (collect_holes contours rest) (fun l => Ok (c_points c :: l))
        end
  end.

Fixpoint contours_to_polygons (all cs : list (contour N)) : outcome multipolygon :=
  match cs with
  | [] => Ok []
  | c :: rest =>
      match c_hole_of c with
      | Some _ => contours_to_polygons all rest
      | None =>
          obind (collect_holes all (c_hole_ids c)) (fun holes =>
          obind (contours_to_polygons all rest) (fun ps =>
          Ok (polygon_new (c_points c) holes :: ps)))
      end
  end.

(** [fuel]: event budget of the sweep (also used as pass budget of the bubble sort) *)
Definition boolean_operation (fuel : nat) (subject clipping : list polygon) (op : operation)
  : outcome multipolygon :=
  let f := fill_queue subject clipping op in
  if negb (c_noshort cfg) && boxes_disjoint (f_sbbox f) (f_cbbox f)
  then Ok (trivial_result subject clipping op)
  else
    obind (subdivide cfg fuel f op) (fun r =>
    let '(st, sorted, _) := r in
    obind (connect_edges cfg (S (length sorted)) st sorted) (fun r2 =>
    let '(_, _, contours) := r2 in
    contours_to_polygons contours contours)).

(** the four trait impls: [Polygon]/[MultiPolygon] on either side *)
Inductive operand := OpPolygon (p : polygon) | OpMulti (m : multipolygon).
Definition as_slice (o : operand) : list polygon :=
  match o with OpPolygon p => [p] | OpMulti m => m end.
Definition boolean (fuel : nat) (lhs rhs : operand) (op : operation) : outcome multipolygon :=
  boolean_operation fuel (as_slice lhs) (as_slice rhs) op.

End BoolOp.
