(** C18 — splay tree work uses bounded stack regardless of element count and shape
    (cost model: nesting depth of non-tail calls).  Only statements closed by [exact]. *)
From Coq Require Import List Arith.
From GB Require Import Splay SplayProofs Teardown.

(** shapes of unbounded height are reachable: n increasing insertions give height n ... *)
Theorem C18_chain_height : forall n, height (root (chain n)) = n.
Proof. exact height_chain. Qed.

(** ... so the pinned teardown (drop glue, recursion depth = height) is unbounded: defect S1 *)
Theorem C18_pinned_teardown_depth_unbounded :
  forall n, teardown_depth GlueRecursive (root (chain n)) = n.
Proof. exact height_chain. Qed.

(** the repaired teardown: a loop of at most 2*size constant-stack iterations that drops
    every node exactly once, for every tree shape *)
Theorem C18_iterative_teardown_total :
  forall (K V : Type) (t : tree K V), Teardown.run (2 * tsize t) t 0 = Some (tsize t).
Proof. exact teardown_terminates. Qed.

Theorem C18_iterative_teardown_depth :
  forall (K V : Type) (t : tree K V), teardown_depth Iterative t = 1.
Proof. exact (fun K V t => eq_refl). Qed.
