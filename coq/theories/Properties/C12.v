(** C12 — operations are pure and deterministic.  In the model an operation IS a function of
    its arguments; the statement below is the (definitional) content of that modelling
    decision, the check ties it to the code by histories and schedules. *)
From GB Require Import Num Event Outcome FillQueue BoolOp.

Theorem C12_model_is_a_function :
  forall (N : Num) cfg fuel (A A' B B' : operand N) op op',
  A = A' -> B = B' -> op = op' -> boolean cfg fuel A B op = boolean cfg fuel A' B' op'.
Proof. exact (fun N cfg fuel A A' B B' op op' HA HB Ho => f_equal3 (boolean cfg fuel) HA HB Ho). Qed.
