(** C13.  Only statements closed by [exact]. *)
From Coq Require Import List Bool.
From GB Require Import Num Event Cmp Outcome Fields FillQueue Subdivide FieldsProofs TrivialProofs LinkProofs.
Import ListNotations.

(** queue filling computes exact bounding boxes: min/max over the start points of the
    non-collapsed edges, for every instance *)
Theorem C13_subject_box_exact :
  forall (N : Num) (subject clipping : list (FillQueue.polygon N)) (op : operation),
  f_sbbox (fill_queue subject clipping op) = fold_left (bb_add (N:=N)) (starts_of subject) (empty_bb N).
Proof. exact fill_queue_sbbox. Qed.
Theorem C13_clipping_box_exact :
  forall (N : Num) (subject clipping : list (FillQueue.polygon N)) (op : operation),
  f_cbbox (fill_queue subject clipping op) = fold_left (bb_add (N:=N)) (starts_of clipping) (empty_bb N).
Proof. exact fill_queue_cbbox. Qed.

(** every event in the queue after [fill_queue] — and every event returned by [subdivide],
    whatever the numeric instance, the input and the configuration — is one end of a mutually
    linked pair: it has a partner, the partner's partner is the event itself, the two are
    distinct and belong to the same operand and contour.  (An invariant of the whole sweep
    loop, proved through [divide_segment], [possible_intersection], [compute_fields], the
    std heap and the splay tree without any assumption on the comparators.) *)
Theorem C13_queue_events_linked :
  forall (N : Num) (A B : list (FillQueue.polygon N)) (op : operation) (i : eid),
  In i (f_q (fill_queue A B op)) -> exists o, partner_ok N (f_st (fill_queue A B op)) i o.
Proof. exact fill_queue_events_linked. Qed.

Theorem C13_subdivided_events_linked :
  forall (N : Num) cfg fuel (A B : list (FillQueue.polygon N)) (op : operation)
         (st : store N) (sorted : list eid) (n : nat),
  subdivide cfg fuel (fill_queue A B op) op = Ok (st, sorted, n) ->
  forall i, In i sorted -> exists o, partner_ok N st i o.
Proof. exact subdivide_events_linked. Qed.

(** what [partner_ok] says *)
Theorem C13_partner_ok_unfold :
  forall (N : Num) (st : store N) (i o : eid), partner_ok N st i o <->
  (e_other (getE st i) = Some o /\ o <> i /\ mapped N st o /\ e_other (getE st o) = Some i
   /\ e_is_subject (getE st o) = e_is_subject (getE st i)
   /\ e_contour_id (getE st o) = e_contour_id (getE st i)).
Proof. exact (fun N st i o => conj (fun H => H) (fun H => H)). Qed.

(** non-vacuity: the F2 witness goes through the sweep and returns 20 events *)
From GB Require Import NumQ Cert.
Example C13_example :
  exists st sorted n, subdivide release 1000 (fill_queue F2_A F2_B Union) Union = Ok (st, sorted, n)
                      /\ length sorted = 20%nat.
Proof. vm_compute. do 3 eexists. split; reflexivity. Qed.

(** the endpoints of every sub-segment returned by subdivide are input vertices or computed
    intersection points (every instance, every input) *)
From GB Require Import Provenance.
Theorem C13_subsegment_endpoints_allowed :
  forall (N : Num) (inp : list (pt N)) cfg fuel (A B : list (FillQueue.polygon N)) (op : operation)
         (st : store N) (sorted : list eid) (n : nat),
  polys_in N inp A -> polys_in N inp B ->
  subdivide cfg fuel (fill_queue A B op) op = Ok (st, sorted, n) ->
  forall i, In i sorted -> allowed N inp (point_of st i).
Proof. exact subdivide_points_allowed. Qed.
