(** C13.  Only statements closed by [exact]. *)
From Coq Require Import List Bool.
From GB Require Import Num Event Cmp Outcome Fields FillQueue FieldsProofs TrivialProofs.

(** queue filling computes exact bounding boxes: min/max over the start points of the
    non-collapsed edges, for every instance *)
Theorem C13_subject_box_exact :
  forall (N : Num) (subject clipping : list (FillQueue.polygon N)) (op : operation),
  f_sbbox (fill_queue subject clipping op) = fold_left (bb_add (N:=N)) (starts_of subject) (empty_bb N).
Proof. exact fill_queue_sbbox. Qed.
Theorem C13_clipping_box_exact :
  forall (N : Num) (subject clipping : list (FillQueue.polygon N)) (op : operation),
  f_cbbox (fill_queue subject clipping op) = fold_left (bb_add (N:=N)) (starts_of clipping) (empty_bb N).
Proof. exact fill_queue_cbbox. Qed.
