(** C13.  Only statements closed by [exact]. *)
From Coq Require Import List Bool.
From GB Require Import Num Event Cmp Outcome Fields FillQueue Subdivide FieldsProofs TrivialProofs LinkProofs.
Import ListNotations.

(** queue filling computes exact bounding boxes: min/max over the start points of the
    non-collapsed edges, for every instance *)
Theorem C13_subject_box_exact :
  forall (N : Num) (subject clipping : list (FillQueue.polygon N)) (op : operation),
  f_sbbox (fill_queue subject clipping op) = fold_left (bb_add (N:=N)) (starts_of subject) (empty_bb N).
Proof. exact fill_queue_sbbox. Qed.
Theorem C13_clipping_box_exact :
  forall (N : Num) (subject clipping : list (FillQueue.polygon N)) (op : operation),
  f_cbbox (fill_queue subject clipping op) = fold_left (bb_add (N:=N)) (starts_of clipping) (empty_bb N).
Proof. exact fill_queue_cbbox. Qed.

(** every event in the queue after [fill_queue] — and every event returned by [subdivide],
    whatever the numeric instance, the input and the configuration — is one end of a mutually
    linked pair: it has a partner, the partner's partner is the event itself, the two are
    distinct and belong to the same operand and contour.  (An invariant of the whole sweep
    loop, proved through [divide_segment], [possible_intersection], [compute_fields], the
    std heap and the splay tree without any assumption on the comparators.) *)
Theorem C13_queue_events_linked :
  forall (N : Num) (A B : list (FillQueue.polygon N)) (op : operation) (i : eid),
  In i (f_q (fill_queue A B op)) -> exists o, partner_ok N (f_st (fill_queue A B op)) i o.
Proof. exact fill_queue_events_linked. Qed.

Theorem C13_subdivided_events_linked :
  forall (N : Num) cfg fuel (A B : list (FillQueue.polygon N)) (op : operation)
         (st : store N) (sorted : list eid) (n : nat),
  subdivide cfg fuel (fill_queue A B op) op = Ok (st, sorted, n) ->
  forall i, In i sorted -> exists o, partner_ok N st i o.
Proof. exact subdivide_events_linked. Qed.

(** what [partner_ok] says *)
Theorem C13_partner_ok_unfold :
  forall (N : Num) (st : store N) (i o : eid), partner_ok N st i o <->
  (e_other (getE st i) = Some o /\ o <> i /\ mapped N st o /\ e_other (getE st o) = Some i
   /\ e_is_subject (getE st o) = e_is_subject (getE st i)
   /\ e_contour_id (getE st o) = e_contour_id (getE st i)).
Proof. exact (fun N st i o => conj (fun H => H) (fun H => H)). Qed.

(** non-vacuity: the F2 witness goes through the sweep and returns 20 events *)
From GB Require Import NumQ Cert.
Definition C13_example_check : bool :=
  match subdivide release 1000 (fill_queue F2_A F2_B Union) Union with
  | Ok (_, sorted, _) => Nat.eqb (length sorted) 20
  | _ => false
  end.
Example C13_example : C13_example_check = true.
Proof. vm_compute. reflexivity. Qed.

(** the endpoints of every sub-segment returned by subdivide are input vertices or computed
    intersection points (every instance, every input) *)
From GB Require Import Provenance.
Theorem C13_subsegment_endpoints_allowed :
  forall (N : Num) (inp : list (pt N)) cfg fuel (A B : list (FillQueue.polygon N)) (op : operation)
         (st : store N) (sorted : list eid) (n : nat),
  polys_in N inp A -> polys_in N inp B ->
  subdivide cfg fuel (fill_queue A B op) op = Ok (st, sorted, n) ->
  forall i, In i sorted -> allowed N inp (point_of st i).
Proof. exact subdivide_points_allowed. Qed.

(** queue filling creates exactly one event pair per non-degenerate input edge: [starts_of]
    lists one start point per non-collapsed edge (every instance, every input) *)
From GB Require Import QueueCount.
Theorem C13_one_pair_per_nondegenerate_edge :
  forall (N : Num) (subject clipping : list (FillQueue.polygon N)) (op : operation),
  length (f_q (fill_queue subject clipping op))
  = (2 * (length (starts_of subject) + length (starts_of clipping)))%nat.
Proof. exact fill_queue_event_count. Qed.

(** coverage clause, one step: [divide_segment] (every instance) re-links exactly the divided
    pair — the left event gets a new right partner, the old right partner a new left partner,
    both new events at the (possibly bumped) division point, nothing else changes; and at the
    exact instance, dividing a sub-segment at one of its points yields two linked pairs whose
    segments cover exactly the old one and meet only in the division point. *)
From Coq Require Import QArith.
From GB Require Import NumQ Divide LinkProofs IntersectProofs SplitCover.
Theorem C13_division_relinks_one_pair :
  forall (N : Num) (cfg : config) (s s' : sq N) (se_l se_r : eid) (i : pt N),
  wf N (sq_st s) -> mapped N (sq_st s) se_l -> mapped N (sq_st s) se_r -> se_r <> se_l ->
  e_other (getE (sq_st s) se_l) = Some se_r ->
  divide_segment cfg s se_l i = Ok s' ->
  exists r l i',
    ~ mapped N (sq_st s) r /\ ~ mapped N (sq_st s) l /\ r <> l /\
    e_other (getE (sq_st s') se_l) = Some r /\ e_other (getE (sq_st s') r) = Some se_l /\
    e_other (getE (sq_st s') l) = Some se_r /\ e_other (getE (sq_st s') se_r) = Some l /\
    e_point (getE (sq_st s') r) = i' /\ e_point (getE (sq_st s') l) = i' /\
    i' = (if eqX N (px i) (px (e_point (getE (sq_st s) se_l))) && ltY N (py i) (py (e_point (getE (sq_st s) se_l)))
          then mkPt N (next_upX N (px i)) (py i) else i) /\
    (forall k, mapped N (sq_st s) k -> e_point (getE (sq_st s') k) = e_point (getE (sq_st s) k)) /\
    (forall k, mapped N (sq_st s) k -> k <> se_l -> k <> se_r ->
               e_other (getE (sq_st s') k) = e_other (getE (sq_st s) k)).
Proof. exact divide_segment_shape. Qed.

Theorem C13_division_covers_exactly :
  forall cfg (s s' : sq NQ) (se_l se_r : eid) (lx ly rx ry ix iy : Q),
  wf NQ (sq_st s) -> mapped NQ (sq_st s) se_l -> mapped NQ (sq_st s) se_r -> se_r <> se_l ->
  e_other (getE (sq_st s) se_l) = Some se_r ->
  e_point (getE (sq_st s) se_l) = fpt lx ly -> e_point (getE (sq_st s) se_r) = fpt rx ry ->
  on_seg lx ly rx ry ix iy ->
  divide_segment cfg s se_l (fpt ix iy) = Ok s' ->
  exists r l,
    ~ mapped NQ (sq_st s) r /\ ~ mapped NQ (sq_st s) l /\
    e_other (getE (sq_st s') se_l) = Some r /\ e_other (getE (sq_st s') l) = Some se_r /\
    e_point (getE (sq_st s') se_l) = fpt lx ly /\ e_point (getE (sq_st s') r) = fpt ix iy /\
    e_point (getE (sq_st s') l) = fpt ix iy /\ e_point (getE (sq_st s') se_r) = fpt rx ry /\
    (forall x y, on_seg lx ly rx ry x y <-> on_seg lx ly ix iy x y \/ on_seg ix iy rx ry x y) /\
    (~ (rx == lx /\ ry == ly)%Q ->
     forall x y, on_seg lx ly ix iy x y -> on_seg ix iy rx ry x y -> (x == ix /\ y == iy)%Q).
Proof. exact divide_segment_cover. Qed.

(** ** exact instance, EVERY pair of operands with finite coordinates (they may share boundary
    pieces); the edges are those [fill_queue] walks ([ops_edges]).
    Clauses "left event first", "non-zero length", "every sub-segment lies on ONE edge of its
    own operand" ([pair_ok2], an invariant of the whole sweep including the overlap arm of
    [possible_intersection]) and the coverage clause: every point of every non-degenerate input
    edge lies on a linked pair of that operand that lies on this edge. *)
From GB Require Import OnEdge OnEdgeFull Coverage ExactSweep.
Theorem C13_subsegments_lie_on_their_edges :
  forall (A B : list (FillQueue.polygon NQ)),
  (forall P, In P A -> finite_poly P) -> (forall P, In P B -> finite_poly P) ->
  forall (cfg : config) (fuel : nat) (op : operation) (st : store NQ) (sorted : list eid) (n : nat),
  subdivide cfg fuel (fill_queue A B op) op = Ok (st, sorted, n) ->
  forall i, In i sorted -> exists o, e_other (getE st i) = Some o /\ pair_ok2 (ops_edges A B) st i o.
Proof. exact exact_subsegments. Qed.

Theorem C13_pair_ok2_unfold :
  forall (edges : list edge) (st : store NQ) (i o : eid), pair_ok2 edges st i o <->
  exists px py qx qy ax ay bx by_,
    e_point (getE st i) = fpt px py /\ e_point (getE st o) = fpt qx qy /\
    ~ qeqp px py qx qy /\
    In (ax, ay, (bx, by_), e_is_subject (getE st i)) edges /\
    on_seg ax ay bx by_ px py /\ on_seg ax ay bx by_ qx qy /\
    e_left (getE st o) = negb (e_left (getE st i)) /\
    (e_left (getE st i) = true -> lexlt px py qx qy).
Proof. exact (fun edges st i o => conj (fun H => H) (fun H => H)). Qed.

Theorem C13_subsegments_cover_their_edges :
  forall (A B : list (FillQueue.polygon NQ)),
  (forall P, In P A -> finite_poly P) -> (forall P, In P B -> finite_poly P) ->
  forall (cfg : config) (fuel : nat) (op : operation) (st : store NQ) (sorted : list eid) (n : nat),
  subdivide cfg fuel (fill_queue A B op) op = Ok (st, sorted, n) ->
  forall ax ay bx by_ sj, In (ax, ay, (bx, by_), sj) (ops_edges A B) -> ~ qeqp ax ay bx by_ ->
  forall x y, on_seg ax ay bx by_ x y ->
  exists i o lx ly rx ry, mapped NQ st i /\ e_other (getE st i) = Some o /\ e_is_subject (getE st i) = sj /\
    e_point (getE st i) = fpt lx ly /\ e_point (getE st o) = fpt rx ry /\
    on_seg ax ay bx by_ lx ly /\ on_seg ax ay bx by_ rx ry /\ on_seg lx ly rx ry x y.
Proof.
  exact (fun A B HA HB cfg fuel op st sorted n H ax ay bx by_ sj Hin Hnd x y Hon =>
           exact_coverage A B HA HB cfg fuel op st sorted n H ax ay bx by_ sj (conj Hin Hnd) x y Hon).
Qed.

Theorem C13_exact_example :
  exact_example_check = true /\
  (forall P, In P Cert.F2_A -> finite_poly P) /\ (forall P, In P Cert.F2_B -> finite_poly P).
Proof. exact (conj exact_example exact_example_finite). Qed.

(** every instance, every input: no event is returned twice; and a sweep that runs to
    completion returns every event that exists *)
From GB Require Import SweepClosure.
Theorem C13_no_event_returned_twice :
  forall (N : Num) (cfg : config) (fuel : nat) (A B : list (FillQueue.polygon N)) (op : operation)
         (st : store N) (sorted : list eid) (n : nat),
  subdivide cfg fuel (fill_queue A B op) op = Ok (st, sorted, n) -> NoDup sorted.
Proof. exact subdivide_nodup. Qed.
Theorem C13_complete_sweep_returns_every_event :
  forall (N : Num) (cfg : config) (fuel : nat) (A B : list (FillQueue.polygon N)) (op : operation)
         (st : store N) (sorted : list eid) (n : nat),
  complete_sweep cfg op ->
  subdivide cfg fuel (fill_queue A B op) op = Ok (st, sorted, n) ->
  forall i, mapped N st i -> In i sorted.
Proof. exact subdivide_complete. Qed.

(** planarity clause, restricted to pairs of ONE operand (exact instance, operands with finite
    coordinates none of whose edges overlaps another edge of the same operand: [simple_edges]):
    after the sweep two distinct linked pairs of one operand share at most one point.
    (Pairs of DIFFERENT operands are brought to "cross nowhere or coincide" by the sweep; that
    needs the completeness of the intersection search and is not proved.) *)
From GB Require Import SameOperand.
Theorem C13_same_operand_subsegments_do_not_overlap :
  forall (cfg : config) (fuel : nat) (A B : list (FillQueue.polygon NQ)) (op : operation)
         (st : store NQ) (sorted : list eid) (n : nat),
  (forall P, In P A -> finite_poly P) -> (forall P, In P B -> finite_poly P) ->
  simple_edges (ops_edges A B) ->
  subdivide cfg fuel (fill_queue A B op) op = Ok (st, sorted, n) ->
  forall i o i' o' ax ay bx by_ cx cy dx dy,
    mapped NQ st i -> mapped NQ st i' ->
    e_other (getE st i) = Some o -> e_other (getE st i') = Some o' ->
    i' <> i -> i' <> o ->
    e_is_subject (getE st i) = e_is_subject (getE st i') ->
    e_point (getE st i) = fpt ax ay -> e_point (getE st o) = fpt bx by_ ->
    e_point (getE st i') = fpt cx cy -> e_point (getE st o') = fpt dx dy ->
    forall x y x' y', on_seg ax ay bx by_ x y -> on_seg cx cy dx dy x y ->
                      on_seg ax ay bx by_ x' y' -> on_seg cx cy dx dy x' y' -> qeqp x y x' y'.
Proof. exact subdivide_same_operand_disjoint. Qed.

(** ** the planarity clause as a VERIFIED per-run certificate.  [planar_check] decides with
    the exact kernel that the segments of a list pairwise meet in end points of both only, or
    coincide completely and belong to different operands ([seg_rel], the clause of C13);
    [segments_of] reads the sub-segments (left events with their partners, floating-point
    coordinates converted exactly) off the store and event vector the sweep returns.  The check
    evaluates [planar_64] / [planar_32] on the model's run of every exact-family case, whose
    output the correspondence compares with the implementation's event for event.  That every
    run of a valid input passes is NOT proved (global planarity). *)
From GB Require Import Cert13.
Theorem C13_planar_certificate_sound :
  forall L : list edge, planar_check L = true -> ForallOrdPairs seg_rel L.
Proof. exact planar_check_sound. Qed.

Theorem C13_planar_certificate_pairs :
  forall L : list edge, planar_check L = true ->
  forall i j d, (i < j < length L)%nat -> seg_rel (nth i L d) (nth j L d).
Proof. exact planar_check_pairs. Qed.

Theorem C13_seg_rel_unfold :
  forall (ax ay bx by_ cx cy dx dy : Q) (sa sb : bool),
  seg_rel (ax, ay, (bx, by_), sa) (cx, cy, (dx, dy), sb) <->
  ((forall x y, SplitCover.on_seg ax ay bx by_ x y -> SplitCover.on_seg cx cy dx dy x y ->
     (qeqp x y ax ay \/ qeqp x y bx by_) /\ (qeqp x y cx cy \/ qeqp x y dx dy))
   \/ (sa <> sb /\ ((qeqp ax ay cx cy /\ qeqp bx by_ dx dy) \/ (qeqp ax ay dx dy /\ qeqp bx by_ cx cy)))).
Proof. exact (fun _ _ _ _ _ _ _ _ _ _ => conj (fun H => H) (fun H => H)). Qed.

Theorem C13_planar_run_sound :
  forall (N : Num) (cv : pt N -> option (Q * Q)) (st : store N) (evs : list eid),
  planar_run N cv st evs = true ->
  exists l, segments_of N cv st evs = Some l /\ ForallOrdPairs seg_rel l.
Proof. exact planar_run_sound. Qed.

Theorem C13_planar_certificate_example :
  planar_check (cons (0, 0, (1, 1), true) (cons (1, 1, (2, 2), true) (cons (0, 2, (1, 1), false) (cons (1, 1, (2, 0), false) nil)))) = true /\
  planar_check (cons (0, 0, (2, 2), true) (cons (0, 2, (2, 0), false) nil)) = false /\
  planar_check (cons (0, 0, (2, 0), true) (cons (0, 0, (2, 0), false) nil)) = true /\
  planar_check (cons (0, 0, (2, 0), true) (cons (1, 0, (3, 0), false) nil)) = false.
Proof. exact planar_example. Qed.

(** what an ACCEPTED certificate says about the store: any two distinct left events of the
    returned vector (no event is returned twice: C13_no_event_returned_twice) with their
    partners are sub-segments that meet in end points of both only, or coincide completely and
    belong to different operands *)
From GB Require Import Cert13Store.
Theorem C13_accepted_certificate_means_planar :
  forall (N : Num) (cv : pt N -> option (Q * Q)) (st : store N) (evs : list eid),
  planar_run N cv st evs = true -> NoDup evs ->
  forall i j si sj, In i evs -> In j evs -> i <> j ->
  seg_at N cv st i si -> seg_at N cv st j sj -> seg_rel si sj.
Proof. exact planar_run_store. Qed.

Theorem C13_seg_at_unfold :
  forall (N : Num) (cv : pt N -> option (Q * Q)) (st : store N) (i : eid) (ax ay bx by_ : Q) (sb : bool),
  seg_at N cv st i (ax, ay, (bx, by_), sb) <->
  e_left (getE st i) = true /\ exists o, e_other (getE st i) = Some o /\
    cv (e_point (getE st i)) = Some (ax, ay) /\ cv (e_point (getE st o)) = Some (bx, by_) /\ sb = e_is_subject (getE st i).
Proof. exact seg_at_spec. Qed.

(** ** the coverage clause as a verified per-run certificate (for the runs of the
    floating-point instances; at the exact instance the clause is a theorem for every input:
    C13_subsegments_cover_their_edges).  [cover_check E S] walks, for every non-degenerate edge
    of [E], the segments of [S] that carry its operand flag and have both end points on it, end
    to end from its start to its end, using every one of them. *)
From GB Require Import Cert13Cover.
Theorem C13_cover_certificate_sound :
  forall (E S : list edge), cover_check E S = true ->
  forall ax ay bx by_ se, In (ax, ay, (bx, by_), se) E -> ~ qeqp ax ay bx by_ ->
  forall x y, SplitCover.on_seg ax ay bx by_ x y ->
  exists px py qx qy, In (px, py, (qx, qy), se) S /\
    SplitCover.on_seg ax ay bx by_ px py /\ SplitCover.on_seg ax ay bx by_ qx qy /\ SplitCover.on_seg px py qx qy x y.
Proof. exact cover_check_sound. Qed.

Theorem C13_cover_run_sound :
  forall (N : Num) (cv : pt N -> option (Q * Q)) (A B : list (FillQueue.polygon N)) (st : store N) (evs : list eid),
  cover_run N cv A B st evs = true ->
  exists E Sg, input_edges_cv N cv A B = Some E /\ segments_of N cv st evs = Some Sg /\
    forall ax ay bx by_ se, In (ax, ay, (bx, by_), se) E -> ~ qeqp ax ay bx by_ ->
    forall x y, SplitCover.on_seg ax ay bx by_ x y ->
    exists px py qx qy, In (px, py, (qx, qy), se) Sg /\
      SplitCover.on_seg ax ay bx by_ px py /\ SplitCover.on_seg ax ay bx by_ qx qy /\ SplitCover.on_seg px py qx qy x y.
Proof. exact cover_run_sound. Qed.

Theorem C13_cover_certificate_example :
  cover_check (cons (0, 0, (4, 4), true) nil)
    (cons (2, 2, (4, 4), true) (cons (0, 0, (2, 2), true) (cons (0, 0, (4, 4), false) nil))) = true /\
  cover_check (cons (0, 0, (4, 4), true) nil) (cons (0, 0, (2, 2), true) (cons (3, 3, (4, 4), true) nil)) = false /\
  cover_check (cons (0, 0, (4, 4), true) nil) (cons (0, 0, (3, 3), true) (cons (2, 2, (4, 4), true) nil)) = false.
Proof. exact cover_example. Qed.

(** queue filling ALLOCATES exactly two events per non-collapsed edge, nothing else (exact
    instance; [starts_of]: one start point per non-collapsed edge; the queue holds exactly these:
    C13_one_pair_per_nondegenerate_edge) *)
From GB Require Import EventBound QuadBound TrivialProofs.
Theorem C13_queue_filling_allocates_two_events_per_edge :
  forall (A B : list (FillQueue.polygon NQ)) (op : operation),
  nids (FillQueue.f_st (FillQueue.fill_queue A B op)) = (2 * (length (@starts_of NQ A) + length (@starts_of NQ B)))%nat.
Proof. exact fill_queue_nids. Qed.
