(** C08 — results commute with exact similarity transforms of the plane.
    Only statements closed by [exact], pins and [Print Assumptions]. *)
From Coq Require Import QArith List Bool.
From GB Require Import Slab Scene SlabProofs.

(** mirror / transpose / quarter-turn clauses are region statements: they are decided, for
    every point of the plane, by the verified scene checker on the transformed run *)
Theorem C08_law_checker_sound :
  forall (sc : scene) (l : law), check_scene sc l = true ->
  forall p, scene_clear sc p -> eval_law l (member sc p) = true.
Proof. exact check_scene_sound. Qed.

From GB Require Import Num NumQ Event Outcome FillQueue BoolOp Similarity Cert.
Import ListNotations.

(** translation and scaling clauses, over exact arithmetic, for ALL inputs: the run on the
    operands transformed by [x -> k*x + tx], [y -> k*y + ty] ([k > 0]; [k = 1] is a
    translation, [tx = ty = 0] a scaling) ends the same way as the run on the original
    operands — same panic site, or both out of budget, or two results of identical structure
    (same polygons, holes, ring starts and vertex order) whose coordinates correspond under
    the transform.  Obtained from the abstraction theorem of the whole model
    (Paramcoq, binary parametricity). *)
Theorem C08_similarity_covariant :
  forall k tx ty : Q, 0 < k ->
  forall (cfg : config) (fuel : nat) (A B : list (FillQueue.polygon NQ)) (op : operation),
  outcome_sim k tx ty (boolean_operation cfg fuel A B op)
              (boolean_operation cfg fuel (sim_mpoly k tx ty A) (sim_mpoly k tx ty B) op).
Proof. exact similarity_covariant. Qed.

Theorem C08_similarity_covariant_all_pairings :
  forall k tx ty : Q, 0 < k ->
  forall (cfg : config) (fuel : nat) (A B : operand NQ) (op : operation),
  outcome_sim k tx ty (boolean cfg fuel A B op)
              (boolean cfg fuel (sim_operand k tx ty A) (sim_operand k tx ty B) op).
Proof. exact similarity_covariant_boolean. Qed.

(** what the conclusion says for a normal return *)
Theorem C08_outcome_sim_ok :
  forall k tx ty R o', outcome_sim k tx ty (Ok R) o' ->
  exists R', o' = Ok R' /\ Forall2 (polygon_sim k tx ty) R R'.
Proof.
  exact (fun k tx ty R o' =>
    match o' return outcome_sim k tx ty (Ok R) o' -> exists R', o' = Ok R' /\ Forall2 (polygon_sim k tx ty) R R' with
    | Ok R' => fun H => ex_intro _ R' (conj eq_refl H)
    | Panic _ => fun H => match H with end
    | OutOfFuel => fun H => match H with end
    end).
Qed.

(** non-vacuity: a run that goes through the sweep (overlapping operands, a T-junction on a
    vertical edge), transformed by k = 3, (tx, ty) = (5, -2) *)
Definition C08_example_check : bool :=
  match boolean_operation release 1000 F2_A F2_B Union,
        boolean_operation release 1000 (sim_mpoly 3 5 (-2) F2_A) (sim_mpoly 3 5 (-2) F2_B) Union with
  | Ok R, Ok R' => Nat.eqb (length R) 2 && Nat.eqb (length R') 2
  | _, _ => false
  end.
Example C08_example_run : C08_example_check = true.
Proof. vm_compute. reflexivity. Qed.
