(** C17 — the splay tree behaves as a sorted map/set for every operation history.
    This file contains only statements closed by [exact], pins and [Print Assumptions]. *)
From Coq Require Import List Sorted.
From GB Require Import Splay SplayOps SplayProofs SplayTop.
Import ListNotations.

Theorem C17_full : C17_statement.
Proof. exact C17_holds. Qed.

Theorem C17_history_refines :
  forall (K V : Type) (cmp : K -> K -> comparison), strict_total_order cmp ->
  forall ops : list (op K V), run cmp empty ops = sp_run cmp [] ops.
Proof. exact (fun K V cmp H => proj1 (C17_holds K V cmp H)). Qed.

Theorem C17_step_refines :
  forall (K V : Type) (cmp : K -> K -> comparison),
  (forall a b, cmp a b = Eq <-> a = b) -> (forall a b, cmp b a = CompOpp (cmp a b)) ->
  (forall a b c, cmp a b = Lt -> cmp b c = Lt -> cmp a c = Lt) ->
  forall (s : Splay.t K V) (o : op K V), Inv K V cmp s ->
  abs (fst (step cmp s o)) = fst (sp_step cmp (abs s) o) /\
  snd (step cmp s o) = snd (sp_step cmp (abs s) o).
Proof. exact step_refines. Qed.

Theorem C17_invariant_preserved :
  forall (K V : Type) (cmp : K -> K -> comparison),
  (forall a b, cmp a b = Eq <-> a = b) -> (forall a b, cmp b a = CompOpp (cmp a b)) ->
  (forall a b c, cmp a b = Lt -> cmp b c = Lt -> cmp a c = Lt) ->
  forall (s : Splay.t K V) (o : op K V), Inv K V cmp s -> Inv K V cmp (fst (step cmp s o)).
Proof. exact step_Inv. Qed.

(** no hypothesis on the comparator at all: a splay never loses, duplicates or alters a node *)
Theorem C17_splay_keeps_inorder :
  forall (K V : Type) (cmp : K -> K -> comparison) (key : K) (l : tree K V) (x : elt K V) (r : tree K V),
  inorder (splay cmp key (Node l x r)) = inorder (Node l x r).
Proof. exact splay_inorder. Qed.

Theorem C17_references_stable :
  forall (K V : Type) (cmp : K -> K -> comparison) (ops : list (op K V)) (s : Splay.t K V),
  forallb (is_lookup K V) ops = true ->
  inorder (root (fold_left (fun acc o => fst (step cmp acc o)) ops s)) = inorder (root s).
Proof. exact lookups_keep_elements_many. Qed.

Theorem C17_insert_keeps_others :
  forall (K V : Type) (cmp : K -> K -> comparison),
  (forall a b, cmp a b = Eq <-> a = b) -> (forall a b, cmp b a = CompOpp (cmp a b)) ->
  (forall a b c, cmp a b = Lt -> cmp b c = Lt -> cmp a c = Lt) ->
  forall (s : Splay.t K V) k v e, Inv K V cmp s -> In e (inorder (root s)) -> ekey e <> k ->
  In e (inorder (root (fst (step cmp s (OInsert k v))))).
Proof. exact insert_keeps_others. Qed.

Theorem C17_remove_keeps_others :
  forall (K V : Type) (cmp : K -> K -> comparison),
  (forall a b, cmp a b = Eq <-> a = b) -> (forall a b, cmp b a = CompOpp (cmp a b)) ->
  (forall a b c, cmp a b = Lt -> cmp b c = Lt -> cmp a c = Lt) ->
  forall (s : Splay.t K V) k e, Inv K V cmp s -> In e (inorder (root s)) -> ekey e <> k ->
  In e (inorder (root (fst (step cmp s (ORemove V k))))).
Proof. exact remove_keeps_others. Qed.

Theorem C17_nonvacuous : strict_total_order Nat.compare.
Proof. exact nat_compare_sto. Qed.
