(** C14.  Only statements closed by [exact]. *)
From Coq Require Import List Bool.
From GB Require Import Num Event Cmp Outcome Fields FillQueue FieldsProofs TrivialProofs.

(** the selection tables are correct for every flag assignment, edge type, operand role and
    operation (repaired code) *)
Theorem C14_tables_correct :
  forall (N : Num) (cfg : config) (e : event N) (o : operation),
  c_f1 cfg = true -> table cfg e o = expected e o.
Proof. exact tables_correct. Qed.

(** flag propagation from the predecessor, including vertical predecessors of either operand *)
Theorem C14_propagation_correct :
  forall (N : Num) (cfg : config) (st : store N) (ev prev : eid) (o : operation),
  c_f2 cfg = true -> ev <> prev ->
  flags_after cfg st ev (Some prev) o =
  expected_in_out (Bool.eqb (e_is_subject (getE st ev)) (e_is_subject (getE st prev)))
                  (is_vertical st prev) (getE st prev).
Proof. exact propagation_correct. Qed.

Theorem C14_propagation_first :
  forall (N : Num) (cfg : config) (st : store N) (ev : eid) (o : operation),
  flags_after cfg st ev None o = (false, true).
Proof. exact propagation_first. Qed.

(** exactly one of two coincident sub-segments is selected *)
Theorem C14_twin_not_selected :
  forall (N : Num) (cfg : config) (e : event N) (o : operation),
  e_edge_type e = NonContributing -> table cfg e o = RTNone.
Proof. exact twin_not_selected. Qed.

(** both rules fail on the pinned code (defects F1, F2) *)
Theorem C14_pinned_tables_refuted :
  forall N : Num, exists (e : event N) (o : operation), table pinned e o <> expected e o.
Proof. exact tables_pinned_wrong. Qed.
Theorem C14_pinned_propagation_refuted :
  forall N : Num, eqX N (pinfX N) (pinfX N) = true ->
  exists (st : store N) (ev prev : eid) (o : operation), ev <> prev /\
    flags_after pinned st ev (Some prev) o <>
    expected_in_out (Bool.eqb (e_is_subject (getE st ev)) (e_is_subject (getE st prev)))
                    (is_vertical st prev) (getE st prev).
Proof. exact propagation_pinned_wrong. Qed.

(** the propagation rule IS the crossing-number rule: for every status (edges bottom to top,
    each of the subject or the clipping operand, vertical or not) the flags computed
    bottom-up by the rule [compute_fields] implements are the parities of the non-vertical
    edges of the own / other operand below the edge *)
From GB Require Import StatusTheorem.
Theorem C14_status_flags_are_parities :
  forall (l : list sentry) (k : nat) (e : sentry) (f : bool * bool),
  nth_error (run None l) k = Some (e, f) ->
  fst f = par_op (s_subj e) (firstn k l) /\ snd f = negb (par_op (negb (s_subj e)) (firstn k l)).
Proof. exact status_flags_are_parities. Qed.

Theorem C14_rule_is_the_rule_of_compute_fields :
  forall (N : Num) (p : event N) (pe : sentry) (subj : bool),
  s_subj pe = e_is_subject p ->
  rule (Some (pe, (e_in_out p, e_other_in_out p))) subj
  = expected_in_out (Bool.eqb subj (e_is_subject p)) (s_vert pe) p.
Proof. exact rule_is_expected_in_out. Qed.

(** ** C14 for one run as a certificate in Coq: every non-vertical sub-segment of the returned
    vector (whose partner was returned too) against the crossing-number membership [Slab.inside_eo]
    of the operands at its midpoint — the membership the verified region checker of C01 uses.
    Evaluated by the check on the model's run of every case, whose output the correspondence compares
    with the implementation's event for event.  That every run of a valid
    input passes is NOT proved (it needs the status line to be sorted by the true vertical order). *)
From GB Require Import Slab Cert14.
Theorem C14_certificate_sound :
  forall op (RA RB : list ring) (subs : list sub),
  cert14 op RA RB subs = true -> forall s, In s subs -> sub_ok op RA RB subs s = true.
Proof. exact cert14_sound. Qed.

Theorem C14_certificate_flags :
  forall op (RA RB : list ring) (subs : list sub) (s : sub),
  sub_ok op RA RB subs s = true -> vertical_s s = false ->
  s_io s = inside_eo (if s_subj s then RA else RB) (mid s) /\
  (s_ty s = Normal -> s_oio s = negb (inside_eo (if s_subj s then RB else RA) (mid s))) /\
  (s_ty s = NonContributing -> s_oio s = inside_eo (if s_subj s then RB else RA) (mid s)) /\
  s_rt s = want_rt op s (inside_eo (if s_subj s then RA else RB) (mid s))
             (match s_ty s with NonContributing => negb (inside_eo (if s_subj s then RB else RA) (mid s))
                              | _ => inside_eo (if s_subj s then RB else RA) (mid s) end).
Proof. exact sub_ok_flags. Qed.

Theorem C14_certificate_run_sound :
  forall (N : Num) (cv : pt N -> option (QArith_base.Q * QArith_base.Q)) op (A B : list (FillQueue.polygon N)) (st : store N) (evs : list eid),
  cert14_run N cv op A B st evs = true ->
  exists RA RB subs, operand_rings N cv A = Some RA /\ operand_rings N cv B = Some RB /\ subs_of N cv st evs evs = Some subs /\
    forall s, In s subs -> sub_ok op RA RB subs s = true.
Proof. exact cert14_run_sound. Qed.
