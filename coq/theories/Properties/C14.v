(** C14.  Only statements closed by [exact]. *)
From Coq Require Import List Bool.
From GB Require Import Num Event Cmp Outcome Fields FillQueue FieldsProofs TrivialProofs.

(** the selection tables are correct for every flag assignment, edge type, operand role and
    operation (repaired code) *)
Theorem C14_tables_correct :
  forall (N : Num) (cfg : config) (e : event N) (o : operation),
  c_f1 cfg = true -> table cfg e o = expected e o.
Proof. exact tables_correct. Qed.

(** flag propagation from the predecessor, including vertical predecessors of either operand *)
Theorem C14_propagation_correct :
  forall (N : Num) (cfg : config) (st : store N) (ev prev : eid) (o : operation),
  c_f2 cfg = true -> ev <> prev ->
  flags_after cfg st ev (Some prev) o =
  expected_in_out (Bool.eqb (e_is_subject (getE st ev)) (e_is_subject (getE st prev)))
                  (is_vertical st prev) (getE st prev).
Proof. exact propagation_correct. Qed.

Theorem C14_propagation_first :
  forall (N : Num) (cfg : config) (st : store N) (ev : eid) (o : operation),
  flags_after cfg st ev None o = (false, true).
Proof. exact propagation_first. Qed.

(** exactly one of two coincident sub-segments is selected *)
Theorem C14_twin_not_selected :
  forall (N : Num) (cfg : config) (e : event N) (o : operation),
  e_edge_type e = NonContributing -> table cfg e o = RTNone.
Proof. exact twin_not_selected. Qed.

(** both rules fail on the pinned code (defects F1, F2) *)
Theorem C14_pinned_tables_refuted :
  forall N : Num, exists (e : event N) (o : operation), table pinned e o <> expected e o.
Proof. exact tables_pinned_wrong. Qed.
Theorem C14_pinned_propagation_refuted :
  forall N : Num, eqX N (pinfX N) (pinfX N) = true ->
  exists (st : store N) (ev prev : eid) (o : operation), ev <> prev /\
    flags_after pinned st ev (Some prev) o <>
    expected_in_out (Bool.eqb (e_is_subject (getE st ev)) (e_is_subject (getE st prev)))
                    (is_vertical st prev) (getE st prev).
Proof. exact propagation_pinned_wrong. Qed.

(** the propagation rule IS the crossing-number rule: for every status (edges bottom to top,
    each of the subject or the clipping operand, vertical or not) the flags computed
    bottom-up by the rule [compute_fields] implements are the parities of the non-vertical
    edges of the own / other operand below the edge *)
From GB Require Import StatusTheorem.
Theorem C14_status_flags_are_parities :
  forall (l : list sentry) (k : nat) (e : sentry) (f : bool * bool),
  nth_error (run None l) k = Some (e, f) ->
  fst f = par_op (s_subj e) (firstn k l) /\ snd f = negb (par_op (negb (s_subj e)) (firstn k l)).
Proof. exact status_flags_are_parities. Qed.

Theorem C14_rule_is_the_rule_of_compute_fields :
  forall (N : Num) (p : event N) (pe : sentry) (subj : bool),
  s_subj pe = e_is_subject p ->
  rule (Some (pe, (e_in_out p, e_other_in_out p))) subj
  = expected_in_out (Bool.eqb subj (e_is_subject p)) (s_vert pe) p.
Proof. exact rule_is_expected_in_out. Qed.
