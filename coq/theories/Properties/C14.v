(** C14.  Only statements closed by [exact]. *)
From Coq Require Import List Bool.
From GB Require Import Num Event Cmp Outcome Fields FillQueue FieldsProofs TrivialProofs.

(** the selection tables are correct for every flag assignment, edge type, operand role and
    operation (repaired code) *)
Theorem C14_tables_correct :
  forall (N : Num) (cfg : config) (e : event N) (o : operation),
  c_f1 cfg = true -> table cfg e o = expected e o.
Proof. exact tables_correct. Qed.

(** flag propagation from the predecessor, including vertical predecessors of either operand *)
Theorem C14_propagation_correct :
  forall (N : Num) (cfg : config) (st : store N) (ev prev : eid) (o : operation),
  c_f2 cfg = true -> ev <> prev ->
  flags_after cfg st ev (Some prev) o =
  expected_in_out (Bool.eqb (e_is_subject (getE st ev)) (e_is_subject (getE st prev)))
                  (is_vertical st prev) (getE st prev).
Proof. exact propagation_correct. Qed.

Theorem C14_propagation_first :
  forall (N : Num) (cfg : config) (st : store N) (ev : eid) (o : operation),
  flags_after cfg st ev None o = (false, true).
Proof. exact propagation_first. Qed.

(** exactly one of two coincident sub-segments is selected *)
Theorem C14_twin_not_selected :
  forall (N : Num) (cfg : config) (e : event N) (o : operation),
  e_edge_type e = NonContributing -> table cfg e o = RTNone.
Proof. exact twin_not_selected. Qed.

(** both rules fail on the pinned code (defects F1, F2) *)
Theorem C14_pinned_tables_refuted :
  forall N : Num, exists (e : event N) (o : operation), table pinned e o <> expected e o.
Proof. exact tables_pinned_wrong. Qed.
Theorem C14_pinned_propagation_refuted :
  forall N : Num, eqX N (pinfX N) (pinfX N) = true ->
  exists (st : store N) (ev prev : eid) (o : operation), ev <> prev /\
    flags_after pinned st ev (Some prev) o <>
    expected_in_out (Bool.eqb (e_is_subject (getE st ev)) (e_is_subject (getE st prev)))
                    (is_vertical st prev) (getE st prev).
Proof. exact propagation_pinned_wrong. Qed.
