(** C07 — region laws between the results of related calls are decided, for every point of
    the plane, by the verified scene checker.  Only statements closed by [exact]. *)
From Coq Require Import QArith List Bool.
From GB Require Import Slab Scene SlabProofs.

Theorem C07_law_checker_sound :
  forall (sc : scene) (l : law), check_scene sc l = true ->
  forall p, scene_clear sc p -> eval_law l (member sc p) = true.
Proof. exact check_scene_sound. Qed.

From GB Require Import Num Event Outcome FillQueue BoolOp TrivialProofs.

(** the four trait impls forward (subject, clipping) in the right order *)
Theorem C07_wrapper_PP :
  forall (N : Num) cfg fuel (p q : FillQueue.polygon N) op,
  boolean cfg fuel (OpPolygon p) (OpPolygon q) op = boolean_operation cfg fuel (p :: nil) (q :: nil) op.
Proof. exact boolean_PP. Qed.
Theorem C07_wrapper_PM :
  forall (N : Num) cfg fuel (p : FillQueue.polygon N) (m : multipolygon N) op,
  boolean cfg fuel (OpPolygon p) (OpMulti m) op = boolean_operation cfg fuel (p :: nil) m op.
Proof. exact boolean_PM. Qed.
Theorem C07_wrapper_MP :
  forall (N : Num) cfg fuel (m : multipolygon N) (q : FillQueue.polygon N) op,
  boolean cfg fuel (OpMulti m) (OpPolygon q) op = boolean_operation cfg fuel m (q :: nil) op.
Proof. exact boolean_MP. Qed.
Theorem C07_wrapper_MM :
  forall (N : Num) cfg fuel (m n : multipolygon N) op,
  boolean cfg fuel (OpMulti m) (OpMulti n) op = boolean_operation cfg fuel m n op.
Proof. exact boolean_MM. Qed.

(** the clause on repeated consecutive vertices, in full, every instance: a ring in which a
    (non-NaN) vertex is written twice in a row is processed exactly like the ring without the
    repetition; operands that differ only by such repetitions, ring by ring ([poly_same], closed
    under composition), give the same queue, store and boxes, hence the same run — identical
    results, except that the bounding-box shortcut hands back each operand as written *)
From GB Require Import Num FillQueue BoolOp Outcome Repeats.
Theorem C07_repeated_vertex_same_processing :
  forall (N : Num) (r r' : ring N), repeat1 N r r' -> ring_same N r r'.
Proof. exact process_ring_repeat. Qed.

Theorem C07_repeat1_unfold :
  forall (N : Num) (l1 : list (pt N)) (p : pt N) (l2 : list (pt N)),
  pt_eq p p = true -> repeat1 N (l1 ++ p :: l2) (l1 ++ p :: p :: l2).
Proof. exact (fun N l1 p l2 H => rep_at N l1 p l2 H). Qed.

Theorem C07_repeated_vertices_same_result :
  forall (N : Num) (cfg : config) (fuel : nat) (A A' B B' : list (polygon N)) (op : Event.operation),
  Forall2 (poly_same N) A A' -> Forall2 (poly_same N) B B' ->
  (boolean_operation cfg fuel A' B' op = boolean_operation cfg fuel A B op)
  \/ (boolean_operation cfg fuel A B op = Ok (trivial_result A B op) /\
      boolean_operation cfg fuel A' B' op = Ok (trivial_result A' B' op)).
Proof. exact boolean_operation_same. Qed.

(** the rewritings that keep the edges of an operand — another start vertex of a ring, another
    order of the rings / polygons — keep the region the operand denotes (even-odd reading): the
    region depends only on the multiset of edges *)
From Coq Require Import Permutation.
From GB Require Import Slab BoundaryRegion.
Theorem C07_other_start_vertex_same_region :
  forall (a : qpt) (l1 : list qpt) (b : qpt) (l2 : list qpt) (rs : list ring) p,
  inside_eo ((a :: l1 ++ b :: l2) :: rs) p = inside_eo ((b :: l2 ++ a :: l1) :: rs) p.
Proof. exact rotated_ring_same_region. Qed.

Theorem C07_other_ring_order_same_region :
  forall rs1 rs2 : list ring, Permutation rs1 rs2 -> forall p, inside_eo rs1 p = inside_eo rs2 p.
Proof. exact reordered_rings_same_region. Qed.

Theorem C07_other_direction_same_region :
  forall (r : ring) (rs : list ring) p, inside_eo (rev r :: rs) p = inside_eo (r :: rs) p.
Proof. exact reversed_ring_same_region. Qed.

(** the closing point: a ring given closed (first point repeated at the end) denotes the same
    region as the ring given open *)
From GB Require Import BoundaryClose.
Theorem C07_closing_point_same_region :
  forall (a : qpt) (l : list qpt) (rs : list ring) p,
  inside_eo ((a :: l ++ (a :: nil)) :: rs) p = inside_eo ((a :: l) :: rs) p.
Proof. exact closed_ring_same_region. Qed.
