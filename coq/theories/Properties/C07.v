(** C07 — region laws between the results of related calls are decided, for every point of
    the plane, by the verified scene checker.  Only statements closed by [exact]. *)
From Coq Require Import QArith List Bool.
From GB Require Import Slab Scene SlabProofs.

Theorem C07_law_checker_sound :
  forall (sc : scene) (l : law), check_scene sc l = true ->
  forall p, scene_clear sc p -> eval_law l (member sc p) = true.
Proof. exact check_scene_sound. Qed.

From GB Require Import Num Event Outcome FillQueue BoolOp TrivialProofs.

(** the four trait impls forward (subject, clipping) in the right order *)
Theorem C07_wrapper_PP :
  forall (N : Num) cfg fuel (p q : FillQueue.polygon N) op,
  boolean cfg fuel (OpPolygon p) (OpPolygon q) op = boolean_operation cfg fuel (p :: nil) (q :: nil) op.
Proof. exact boolean_PP. Qed.
Theorem C07_wrapper_PM :
  forall (N : Num) cfg fuel (p : FillQueue.polygon N) (m : multipolygon N) op,
  boolean cfg fuel (OpPolygon p) (OpMulti m) op = boolean_operation cfg fuel (p :: nil) m op.
Proof. exact boolean_PM. Qed.
Theorem C07_wrapper_MP :
  forall (N : Num) cfg fuel (m : multipolygon N) (q : FillQueue.polygon N) op,
  boolean cfg fuel (OpMulti m) (OpPolygon q) op = boolean_operation cfg fuel m (q :: nil) op.
Proof. exact boolean_MP. Qed.
Theorem C07_wrapper_MM :
  forall (N : Num) cfg fuel (m n : multipolygon N) op,
  boolean cfg fuel (OpMulti m) (OpMulti n) op = boolean_operation cfg fuel m n op.
Proof. exact boolean_MM. Qed.
