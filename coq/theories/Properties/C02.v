(** C02 — result rings are grouped into a valid polygon set.
    Only statements closed by [exact], pins and [Print Assumptions]. *)
From Coq Require Import QArith List Bool.
From GB Require Import Slab Scene SlabProofs.

(** the "consequently" clause, for every result the exact checker accepts: reading the result
    polygon by polygon and reading all its rings together by the even-odd rule agree at
    EVERY point that lies on no edge *)
Theorem C02_reading_checker_sound :
  forall R : list qpolygon, cert02_reading R = true ->
  forall p, scene_clear (scene02 R) p -> inside_mpoly R p = inside_eo (rings_of R) p.
Proof. exact cert02_reading_sound. Qed.

(** any nesting / disjointness law over the rings of a result, once accepted by the
    checker, holds at every point (the check evaluates: hole inside its exterior, holes of
    one polygon disjoint, polygons interior-disjoint) *)
Theorem C02_structure_checker_sound :
  forall (sc : scene) (l : law), check_scene sc l = true ->
  forall p, scene_clear sc p -> eval_law l (member sc p) = true.
Proof. exact check_scene_sound. Qed.
