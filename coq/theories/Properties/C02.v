(** C02 — result rings are grouped into a valid polygon set.
    Only statements closed by [exact], pins and [Print Assumptions]. *)
From Coq Require Import QArith List Bool.
From GB Require Import Slab Scene SlabProofs.

(** the "consequently" clause, for every result the exact checker accepts: reading the result
    polygon by polygon and reading all its rings together by the even-odd rule agree at
    EVERY point that lies on no edge *)
Theorem C02_reading_checker_sound :
  forall R : list qpolygon, cert02_reading R = true ->
  forall p, scene_clear (scene02 R) p -> inside_mpoly R p = inside_eo (rings_of R) p.
Proof. exact cert02_reading_sound. Qed.

(** any nesting / disjointness law over the rings of a result, once accepted by the
    checker, holds at every point (the check evaluates: hole inside its exterior, holes of
    one polygon disjoint, polygons interior-disjoint) *)
Theorem C02_structure_checker_sound :
  forall (sc : scene) (l : law), check_scene sc l = true ->
  forall p, scene_clear sc p -> eval_law l (member sc p) = true.
Proof. exact check_scene_sound. Qed.

From GB Require Import Num Event Outcome FillQueue BoolOp Cert FieldsProofs.

Theorem C02_partial_certified_run :
  forall (N : Num) (conv : pt N -> option qpt) cfg fuel (A B : list (FillQueue.polygon N)) o,
  cert02_run N conv cfg fuel A B o = true -> C02_reading_at N conv cfg fuel A B o.
Proof. exact C02_partial. Qed.

(** the twin of a coincident pair is never selected: a shared boundary piece enters the
    result at most once *)
Theorem C02_twin_not_selected :
  forall (N : Num) (cfg : config) (e : event N) (o : operation),
  e_edge_type e = NonContributing -> table cfg e o = RTNone.
Proof. exact twin_not_selected. Qed.

(** defect F1 (pinned code): the witness is mis-nested; the repaired code is certified *)
Theorem C02_F1_witness_refuted :
  cert02_run NumQ.NQ conv_Q pinned 1000 F1_A F1_B Union = false
  /\ cert01_run NumQ.NQ conv_Q pinned 1000 F1_A F1_B Union = false
  /\ (exists R, boolean_operation pinned 1000 F1_A F1_B Union = Ok R /\ length R = 1%nat).
Proof. exact F1_refuted. Qed.

Theorem C02_F1_witness_repaired :
  cert02_run NumQ.NQ conv_Q release 1000 F1_A F1_B Union = true
  /\ cert01_run NumQ.NQ conv_Q release 1000 F1_A F1_B Union = true.
Proof. exact F1_repaired. Qed.
