(** C02 — result rings are grouped into a valid polygon set.
    Only statements closed by [exact], pins and [Print Assumptions]. *)
From Coq Require Import QArith List Bool.
From GB Require Import Slab Scene SlabProofs.

(** the "consequently" clause, for every result the exact checker accepts: reading the result
    polygon by polygon and reading all its rings together by the even-odd rule agree at
    EVERY point that lies on no edge *)
Theorem C02_reading_checker_sound :
  forall R : list qpolygon, cert02_reading R = true ->
  forall p, scene_clear (scene02 R) p -> inside_mpoly R p = inside_eo (rings_of R) p.
Proof. exact cert02_reading_sound. Qed.

(** any nesting / disjointness law over the rings of a result, once accepted by the
    checker, holds at every point (the check evaluates: hole inside its exterior, holes of
    one polygon disjoint, polygons interior-disjoint) *)
Theorem C02_structure_checker_sound :
  forall (sc : scene) (l : law), check_scene sc l = true ->
  forall p, scene_clear sc p -> eval_law l (member sc p) = true.
Proof. exact check_scene_sound. Qed.

From GB Require Import Num Event Outcome FillQueue BoolOp Cert FieldsProofs.

Theorem C02_partial_certified_run :
  forall (N : Num) (conv : pt N -> option qpt) cfg fuel (A B : list (FillQueue.polygon N)) o,
  cert02_run N conv cfg fuel A B o = true -> C02_reading_at N conv cfg fuel A B o.
Proof. exact C02_partial. Qed.

(** the twin of a coincident pair is never selected: a shared boundary piece enters the
    result at most once *)
Theorem C02_twin_not_selected :
  forall (N : Num) (cfg : config) (e : event N) (o : operation),
  e_edge_type e = NonContributing -> table cfg e o = RTNone.
Proof. exact twin_not_selected. Qed.

(** defect F1 (pinned code): the witness is mis-nested; the repaired code is certified *)
Theorem C02_F1_witness_refuted :
  cert02_run NumQ.NQ conv_Q pinned 1000 F1_A F1_B Union = false
  /\ cert01_run NumQ.NQ conv_Q pinned 1000 F1_A F1_B Union = false
  /\ (exists R, boolean_operation pinned 1000 F1_A F1_B Union = Ok R /\ length R = 1%nat).
Proof. exact F1_refuted. Qed.

Theorem C02_F1_witness_repaired :
  cert02_run NumQ.NQ conv_Q release 1000 F1_A F1_B Union = true
  /\ cert01_run NumQ.NQ conv_Q release 1000 F1_A F1_B Union = true.
Proof. exact F1_repaired. Qed.

(** the grouping bookkeeping of [connect_edges.rs] / [mod.rs], every instance, every input,
    whatever the geometry: a contour's parent is an earlier contour without a parent (holes are
    never nested in holes), the parent lists it, every listed id is the id of a contour whose
    parent is the lister, no id is listed twice; hence the returned polygons contain every
    contour exactly once — as the exterior of its own polygon or as an interior ring of exactly
    one polygon. *)
From Coq Require Import ZArith.
From GB Require Import Connect GroupingProofs.
Theorem C02_grouping_is_a_partition :
  forall (N : Num) (all : list (contour N)),
  ginv N all ->
  contours_to_polygons all all = Ok (map (poly_of N all) (filter (is_ext N) all))
  /\ (forall i c, nth_error all i = Some c -> is_ext N c = false ->
        exists p pc, nth_error all p = Some pc /\ is_ext N pc = true /\ In (Z.of_nat i) (c_hole_ids pc)
                     /\ forall q qc, nth_error all q = Some qc -> In (Z.of_nat i) (c_hole_ids qc) -> q = p)
  /\ (forall p pc h, nth_error all p = Some pc -> In h (c_hole_ids pc) ->
        is_ext N pc = true /\ (0 <= h < Z.of_nat (length all))%Z /\
        exists hc, nth_error all (Z.to_nat h) = Some hc /\ is_ext N hc = false /\ cpts N all h = c_points hc)
  /\ (forall p pc, nth_error all p = Some pc -> NoDup (c_hole_ids pc)).
Proof. exact grouping_partition. Qed.

Theorem C02_every_result_is_such_a_grouping :
  forall (N : Num) (cfg : config) (fuel : nat) (A B : list (FillQueue.polygon N)) (op : operation)
         (R : list (FillQueue.polygon N)),
  boolean_operation cfg fuel A B op = Ok R ->
  R = trivial_result A B op \/
  exists cs, ginv N cs /\ R = map (poly_of N cs) (filter (is_ext N) cs).
Proof. exact boolean_operation_grouping. Qed.

(** ** "no boundary segment is shared by two rings or traversed twice", combinatorial half,
    every instance: the contours of the result use every selected sub-segment EXACTLY ONCE.
    [trs] are ghost traces — for each contour the positions (in the vector of result events)
    marked while it was walked, newest first, two per edge: the position of an event and of
    its partner; [chainP] says that consecutive contour points are the two ends of exactly
    that pair.  All traces together are a permutation of all positions.  (That two DIFFERENT
    selected sub-segments do not coincide geometrically is the twin rule: C02_twin_not_selected.) *)
From Coq Require Import ZArith Permutation.
From GB Require Import Connect ContourEdges ContourOnce.
Theorem C02_contours_use_every_subsegment_once :
  forall (N : Num) (cfg : Outcome.config) fuel (st : store N) evs st' res cs,
  NoDup evs -> paired N st (filter (in_result_filter st) evs) ->
  connect_edges cfg fuel st evs = Outcome.Ok (st', res, cs) ->
  exists (st1 : store N) (trs : list (list Z)),
    (forall k, e_point (getE st1 k) = e_point (getE st k)) /\
    Forall2 (fun c tr => chainP N st1 res (rev (c_points c)) tr) cs trs /\
    Permutation (concat (rev trs)) (List.map Z.of_nat (seq 0 (length res))).
Proof. exact contours_use_every_subsegment_once. Qed.

Theorem C02_chainP_unfold :
  forall (N : Num) (st0 : store N) (res : list eid) (q p : pt N) (tl : list (pt N)) (zko zk : Z) (tr : list Z),
  chainP N st0 res (q :: p :: tl) (zko :: zk :: tr) <->
  (exists k ko i o x, zk = Z.of_nat k /\ zko = Z.of_nat ko /\ at_pos res k i /\ at_pos res ko o /\
     e_other (getE st0 i) = Some o /\ pt_eq x p = true /\ pt_eq x (e_point (getE st0 i)) = true /\
     q = e_point (getE st0 o)) /\ chainP N st0 res (p :: tl) tr.
Proof. exact (fun _ _ _ _ _ _ _ _ _ => conj (fun H => H) (fun H => H)). Qed.

(** the hypotheses hold for every complete sweep of finite operands at the exact instance *)
From GB Require Import NumQ FillQueue Subdivide SweepClosure Coverage ResultEdges.
Theorem C02_exact_contours_once :
  forall (A B : list (polygon NQ)) cfg fuel fuel' op st sorted n st' res cs,
  (forall P, In P A -> finite_poly P) -> (forall P, In P B -> finite_poly P) ->
  complete_sweep cfg op ->
  subdivide cfg fuel (fill_queue A B op) op = Outcome.Ok (st, sorted, n) ->
  connect_edges cfg fuel' st sorted = Outcome.Ok (st', res, cs) ->
  exists (st1 : store NQ) (trs : list (list Z)),
    (forall k, e_point (getE st1 k) = e_point (getE st k)) /\
    Forall2 (fun c tr => chainP NQ st1 res (rev (c_points c)) tr) cs trs /\
    Permutation (concat (rev trs)) (List.map Z.of_nat (seq 0 (length res))).
Proof. exact exact_contours_once. Qed.

(** ** "no boundary segment is shared by two rings or traversed twice", geometric half, as a
    VERIFIED per-run certificate on the implementation's own result: no two edges of the result
    rings have more than one point in common (decided with the exact kernel) *)
From GB Require Import Cert04 Cert02Edges.
Theorem C02_no_shared_boundary_certificate_sound :
  forall R : list (list (list qp)),
  no_shared_boundary R = true -> ForallOrdPairs share_le1_q (result_segs R).
Proof. exact no_shared_boundary_sound. Qed.

Theorem C02_share_le1_unfold :
  forall (ax ay bx by_ cx cy dx dy : QArith_base.Q),
  share_le1_q ((ax, ay), (bx, by_)) ((cx, cy), (dx, dy)) <->
  (forall x y x' y', SplitCover.on_seg ax ay bx by_ x y -> SplitCover.on_seg cx cy dx dy x y ->
                     SplitCover.on_seg ax ay bx by_ x' y' -> SplitCover.on_seg cx cy dx dy x' y' -> OnEdge.qeqp x y x' y').
Proof. exact (fun _ _ _ _ _ _ _ _ => conj (fun H => H) (fun H => H)). Qed.
