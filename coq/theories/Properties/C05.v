(** C05 — region laws between the results of related calls are decided, for every point of
    the plane, by the verified scene checker.  Only statements closed by [exact]. *)
From Coq Require Import QArith List Bool.
From GB Require Import Slab Scene SlabProofs.

Theorem C05_law_checker_sound :
  forall (sc : scene) (l : law), check_scene sc l = true ->
  forall p, scene_clear sc p -> eval_law l (member sc p) = true.
Proof. exact check_scene_sound. Qed.

From Coq Require Import ZArith.
From GB Require Import Num Event Outcome Fields FieldsProofs TableLaws.
Local Open Scope Z_scope.

(** pointwise: the three pieces are mutually exclusive, their disjunction is the union, and
    xor is the two differences *)
Theorem C05_ops_pointwise :
  forall a b : bool,
  (sem Intersection a b && sem Difference a b = false)%bool
  /\ (sem Intersection a b && sem Difference b a = false)%bool
  /\ (sem Difference a b && sem Difference b a = false)%bool
  /\ (sem Union a b = sem Intersection a b || sem Difference a b || sem Difference b a)%bool
  /\ (sem Xor a b = sem Difference a b || sem Difference b a)%bool.
Proof. exact ops_pointwise. Qed.

(** the same laws at the level of the selection tables of compute_fields.rs, for EVERY flag
    assignment, edge type and operand role: the signed change of the result across a
    sub-segment (OutIn = +1, InOut = -1, not selected = 0) is additive over the partition.
    [swapped e e']: [e'] is the image of the sub-segment in the call computing B-A. *)
Theorem C05_tables_partition :
  forall (N : Num) (cfg : config) (e e' : event N),
  c_f1 cfg = true -> swapped e e' ->
  delta (table cfg e Union)
  = delta (table cfg e Intersection) + delta (table cfg e Difference) + delta (table cfg e' Difference)
  /\ delta (table cfg e Xor) = delta (table cfg e Difference) + delta (table cfg e' Difference).
Proof. exact tables_partition. Qed.

Theorem C05_tables_pieces_exclusive :
  forall (N : Num) (cfg : config) (e e' : event N),
  c_f1 cfg = true -> swapped e e' ->
  -1 <= delta (table cfg e Intersection) + delta (table cfg e Difference) + delta (table cfg e' Difference) <= 1.
Proof. exact tables_pieces_exclusive. Qed.

(** the pinned tables (defect F1) violate the partition law *)
Theorem C05_pinned_tables_refuted :
  forall N : Num, exists e e' : event N, swapped e e' /\
  delta (table pinned e Union)
  <> delta (table pinned e Intersection) + delta (table pinned e Difference) + delta (table pinned e' Difference).
Proof. exact tables_partition_pinned_refuted. Qed.
