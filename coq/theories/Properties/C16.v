(** C16 — the pairwise intersection step.  Only statements closed by [exact]. *)
From Coq Require Import QArith Bool.
From GB Require Import Num NumQ NumLaws NumLawsQ Intersect IntersectProofs.

(** at the exact instance, for finite non-degenerate first segments: [intersection] answers
    [LNone] exactly for disjoint closed segments, and every point it returns lies on both *)
Theorem C16_intersection_exact :
  forall a1x a1y a2x a2y b1x b1y b2x b2y : Q,
  ~ (a2x == a1x /\ a2y == a1y) ->
  exact_result a1x a1y a2x a2y b1x b1y b2x b2y
    (intersection (fpt a1x a1y) (fpt a2x a2y) (fpt b1x b1y) (fpt b2x b2y)).
Proof. exact intersection_exact_all. Qed.

(** for every instance that satisfies the order laws (floats on non-NaN values included,
    once the laws are established for them): the returned point lies in the bounding boxes
    of both segments — the clamp *)
Theorem C16_point_in_both_boxes :
  forall (N : Num) (L : NumLaws N) (a1 a2 b1 b2 q : pt N),
  okpt L a1 -> okpt L a2 -> okpt L b1 -> okpt L b2 ->
  (forall p, intersection_impl a1 a2 b1 b2 = LPoint p -> okX L (px p) /\ okY L (py p)) ->
  intersection a1 a2 b1 b2 = LPoint q ->
  okpt L q /\ in_seg_box a1 a2 q /\ in_seg_box b1 b2 q.
Proof. exact intersection_point_in_both_boxes. Qed.

(** ** the step itself, exact instance *)
From Coq Require Import List PArith.
From GB Require Import Event Outcome Divide LinkProofs PiProofs.

(** disjoint closed segments are reported as such and left untouched *)
Theorem C16_disjoint_untouched :
  forall cfg (s : sq NQ) (se1 se2 other1 other2 : eid) (p1x p1y o1x o1y p2x p2y o2x o2y : Q),
  e_other (getE (sq_st s) se1) = Some other1 -> e_other (getE (sq_st s) se2) = Some other2 ->
  e_point (getE (sq_st s) se1) = fpt p1x p1y -> e_point (getE (sq_st s) other1) = fpt o1x o1y ->
  e_point (getE (sq_st s) se2) = fpt p2x p2y -> e_point (getE (sq_st s) other2) = fpt o2x o2y ->
  ~ (o1x == p1x /\ o1y == p1y) ->
  disjoint_segments p1x p1y o1x o1y p2x p2y o2x o2y ->
  possible_intersection cfg s se1 se2 = Ok (s, 0%nat).
Proof. exact pi_disjoint. Qed.

(** a single meeting point with a shared left or right endpoint: untouched, code 0 *)
Theorem C16_common_endpoint_untouched :
  forall cfg (s : sq NQ) (se1 se2 other1 other2 : eid) (p1x p1y o1x o1y p2x p2y o2x o2y : Q),
  e_other (getE (sq_st s) se1) = Some other1 -> e_other (getE (sq_st s) se2) = Some other2 ->
  e_point (getE (sq_st s) se1) = fpt p1x p1y -> e_point (getE (sq_st s) other1) = fpt o1x o1y ->
  e_point (getE (sq_st s) se2) = fpt p2x p2y -> e_point (getE (sq_st s) other2) = fpt o2x o2y ->
  forall i, intersection (fpt p1x p1y) (fpt o1x o1y) (fpt p2x p2y) (fpt o2x o2y) = LPoint i ->
  (pt_eq (fpt p1x p1y) (fpt p2x p2y) || pt_eq (fpt o1x o1y) (fpt o2x o2y))%bool = true ->
  possible_intersection cfg s se1 se2 = Ok (s, 0%nat).
Proof. exact pi_common_endpoint. Qed.

(** a meeting point that is an endpoint of each segment: neither is divided *)
Theorem C16_endpoint_of_both_untouched :
  forall cfg (s : sq NQ) (se1 se2 other1 other2 : eid) (p1x p1y o1x o1y p2x p2y o2x o2y : Q),
  e_other (getE (sq_st s) se1) = Some other1 -> e_other (getE (sq_st s) se2) = Some other2 ->
  e_point (getE (sq_st s) se1) = fpt p1x p1y -> e_point (getE (sq_st s) other1) = fpt o1x o1y ->
  e_point (getE (sq_st s) se2) = fpt p2x p2y -> e_point (getE (sq_st s) other2) = fpt o2x o2y ->
  forall i, intersection (fpt p1x p1y) (fpt o1x o1y) (fpt p2x p2y) (fpt o2x o2y) = LPoint i ->
  (pt_eq (fpt p1x p1y) i || pt_eq (fpt o1x o1y) i)%bool = true ->
  (pt_eq (fpt p2x p2y) i || pt_eq (fpt o2x o2y) i)%bool = true ->
  exists code, possible_intersection cfg s se1 se2 = Ok (s, code).
Proof. exact pi_endpoint_of_both. Qed.

(** one common point: every event the step creates lies at THE SAME point — the point
    [intersection] returned, which (C16_intersection_exact) is a common point of both
    segments.  The one-ulp bump of divide_segment is the identity over exact arithmetic:
    finding N2 is a floating-point phenomenon only. *)
Theorem C16_new_events_at_one_point :
  forall cfg (s s' : sq NQ) (se1 se2 : eid) (code : nat) (i : pt NQ),
  sqinv NQ s -> mapped NQ (sq_st s) se1 -> mapped NQ (sq_st s) se2 ->
  (forall other1 other2, e_other (getE (sq_st s) se1) = Some other1 -> e_other (getE (sq_st s) se2) = Some other2 ->
     intersection (e_point (getE (sq_st s) se1)) (point_of (sq_st s) other1)
                  (e_point (getE (sq_st s) se2)) (point_of (sq_st s) other2) = LPoint i) ->
  possible_intersection cfg s se1 se2 = Ok (s', code) ->
  forall k, mapped NQ (sq_st s') k -> ~ mapped NQ (sq_st s) k -> e_point (getE (sq_st s') k) = i.
Proof. exact pi_new_events_at_common_point. Qed.

Theorem C16_bump_is_identity_over_exact_arithmetic :
  forall (p : pt NQ) (c : bool), (if c then mkPt NQ (next_upX NQ (px p)) (py p) else p) = p.
Proof. exact bump_dead_exact. Qed.

(** last clause, exact instance, non-parallel segments: the kernel's answer does not depend on
    the order of the two segments ([LNone] for both orders or for neither; equal points) *)
From GB Require Import IntersectSym.
Theorem C16_order_independent_none :
  forall a1x a1y a2x a2y b1x b1y b2x b2y : Q,
  ~ det a1x a1y a2x a2y b1x b1y b2x b2y == 0 ->
  (intersection (fpt a1x a1y) (fpt a2x a2y) (fpt b1x b1y) (fpt b2x b2y) = LNone <->
   intersection (fpt b1x b1y) (fpt b2x b2y) (fpt a1x a1y) (fpt a2x a2y) = LNone).
Proof. exact intersection_none_sym. Qed.
Theorem C16_order_independent_point :
  forall a1x a1y a2x a2y b1x b1y b2x b2y : Q,
  ~ det a1x a1y a2x a2y b1x b1y b2x b2y == 0 ->
  forall x y,
  intersection (fpt a1x a1y) (fpt a2x a2y) (fpt b1x b1y) (fpt b2x b2y) = LPoint (fpt x y) ->
  exists x' y', intersection (fpt b1x b1y) (fpt b2x b2y) (fpt a1x a1y) (fpt a2x a2y) = LPoint (fpt x' y')
                /\ x' == x /\ y' == y.
Proof. exact intersection_point_sym. Qed.

(** all arms of the step, exact instance: every event that [possible_intersection] creates (on
    two left events of a store satisfying the on-edge invariant [einv2], which every store of
    the sweep does: C13) lies at a point that is on BOTH segments — the exact common point in
    the crossing case; in the overlap case an end point of one segment lying inside the other,
    i.e. an end of the common part.  (The typing of the coincident pieces is checked
    exhaustively on the lattice, not proved.) *)
From GB Require Import Event Divide LinkProofs OnEdge OnEdgeFull OverlapArm.
Theorem C16_new_events_lie_on_both_segments :
  forall (edges : list edge) (cfg : Outcome.config) (s s' : sq NQ) (se1 se2 other1 other2 : eid) (code : nat)
         (p1x p1y o1x o1y p2x p2y o2x o2y : Q),
  sqinv NQ s -> einv2 edges (sq_st s) -> mapped NQ (sq_st s) se1 -> mapped NQ (sq_st s) se2 ->
  e_left (getE (sq_st s) se1) = true -> e_left (getE (sq_st s) se2) = true ->
  e_other (getE (sq_st s) se1) = Some other1 -> e_other (getE (sq_st s) se2) = Some other2 ->
  e_point (getE (sq_st s) se1) = fpt p1x p1y -> e_point (getE (sq_st s) other1) = fpt o1x o1y ->
  e_point (getE (sq_st s) se2) = fpt p2x p2y -> e_point (getE (sq_st s) other2) = fpt o2x o2y ->
  possible_intersection cfg s se1 se2 = Outcome.Ok (s', code) ->
  forall k, mapped NQ (sq_st s') k -> ~ mapped NQ (sq_st s) k ->
  exists x y, e_point (getE (sq_st s') k) = fpt x y /\ on_both p1x p1y o1x o1y p2x p2y o2x o2y x y.
Proof. exact pi_new_events_on_both. Qed.

(** the step RESOLVES the pair, exact instance.  One common point: afterwards the two
    sub-segments that still start at [se1] and [se2] (the ones that stay in the status line)
    have no common point other than end points of both — a meeting point in the interior of
    either segment has been cut out, at one and the same point, and the new partners lie on the
    old segments.  Overlap of different operands: they meet in end points only or coincide
    completely. *)
From GB Require Import PairResolve.
Theorem C16_crossing_is_resolved :
  forall (edges : list edge) (cfg : Outcome.config) (s s' : sq NQ) (se1 se2 other1 other2 : eid) (code : nat) (inter : pt NQ)
         (p1x p1y o1x o1y p2x p2y o2x o2y : Q),
  sqinv NQ s -> einv2 edges (sq_st s) -> mapped NQ (sq_st s) se1 -> mapped NQ (sq_st s) se2 ->
  e_left (getE (sq_st s) se1) = true -> e_left (getE (sq_st s) se2) = true ->
  e_other (getE (sq_st s) se1) = Some other1 -> e_other (getE (sq_st s) se2) = Some other2 ->
  e_point (getE (sq_st s) se1) = fpt p1x p1y -> e_point (getE (sq_st s) other1) = fpt o1x o1y ->
  e_point (getE (sq_st s) se2) = fpt p2x p2y -> e_point (getE (sq_st s) other2) = fpt o2x o2y ->
  intersection (fpt p1x p1y) (fpt o1x o1y) (fpt p2x p2y) (fpt o2x o2y) = LPoint inter ->
  possible_intersection cfg s se1 se2 = Outcome.Ok (s', code) ->
  exists n1 n2 n1x n1y n2x n2y,
    e_other (getE (sq_st s') se1) = Some n1 /\ e_other (getE (sq_st s') se2) = Some n2 /\
    e_point (getE (sq_st s') se1) = fpt p1x p1y /\ e_point (getE (sq_st s') se2) = fpt p2x p2y /\
    e_point (getE (sq_st s') n1) = fpt n1x n1y /\ e_point (getE (sq_st s') n2) = fpt n2x n2y /\
    SplitCover.on_seg p1x p1y o1x o1y n1x n1y /\ SplitCover.on_seg p2x p2y o2x o2y n2x n2y /\
    meet_at_ends p1x p1y n1x n1y p2x p2y n2x n2y.
Proof. exact pi_crossing_resolved. Qed.

Theorem C16_meet_at_ends_unfold :
  forall p1x p1y n1x n1y p2x p2y n2x n2y : Q,
  meet_at_ends p1x p1y n1x n1y p2x p2y n2x n2y <->
  (forall x y, SplitCover.on_seg p1x p1y n1x n1y x y -> SplitCover.on_seg p2x p2y n2x n2y x y ->
    (qeqp x y p1x p1y \/ qeqp x y n1x n1y) /\ (qeqp x y p2x p2y \/ qeqp x y n2x n2y)).
Proof. exact (fun _ _ _ _ _ _ _ _ => conj (fun H => H) (fun H => H)). Qed.

Theorem C16_overlap_is_resolved :
  forall (edges : list edge) (cfg : Outcome.config) (s s' : sq NQ) (se1 se2 other1 other2 : eid) (code : nat) (ia ib : pt NQ)
         (p1x p1y o1x o1y p2x p2y o2x o2y : Q),
  sqinv NQ s -> einv2 edges (sq_st s) -> mapped NQ (sq_st s) se1 -> mapped NQ (sq_st s) se2 ->
  e_left (getE (sq_st s) se1) = true -> e_left (getE (sq_st s) se2) = true ->
  e_other (getE (sq_st s) se1) = Some other1 -> e_other (getE (sq_st s) se2) = Some other2 ->
  e_point (getE (sq_st s) se1) = fpt p1x p1y -> e_point (getE (sq_st s) other1) = fpt o1x o1y ->
  e_point (getE (sq_st s) se2) = fpt p2x p2y -> e_point (getE (sq_st s) other2) = fpt o2x o2y ->
  e_is_subject (getE (sq_st s) se1) <> e_is_subject (getE (sq_st s) se2) ->
  intersection (fpt p1x p1y) (fpt o1x o1y) (fpt p2x p2y) (fpt o2x o2y) = LOverlap ia ib ->
  possible_intersection cfg s se1 se2 = Outcome.Ok (s', code) ->
  exists n1 n2 n1x n1y n2x n2y,
    e_other (getE (sq_st s') se1) = Some n1 /\ e_other (getE (sq_st s') se2) = Some n2 /\
    e_point (getE (sq_st s') se1) = fpt p1x p1y /\ e_point (getE (sq_st s') se2) = fpt p2x p2y /\
    e_point (getE (sq_st s') n1) = fpt n1x n1y /\ e_point (getE (sq_st s') n2) = fpt n2x n2y /\
    SplitCover.on_seg p1x p1y o1x o1y n1x n1y /\ SplitCover.on_seg p2x p2y o2x o2y n2x n2y /\
    (meet_at_ends p1x p1y n1x n1y p2x p2y n2x n2y \/ (qeqp p1x p1y p2x p2y /\ qeqp n1x n1y n2x n2y)).
Proof. exact pi_overlap_resolved. Qed.

(** the point the kernel reports is THE common point of the two closed segments *)
Theorem C16_reported_point_is_the_only_common_point :
  forall a1x a1y a2x a2y b1x b1y b2x b2y ix iy : Q,
  ~ (a2x == a1x /\ a2y == a1y) ->
  intersection (fpt a1x a1y) (fpt a2x a2y) (fpt b1x b1y) (fpt b2x b2y) = LPoint (fpt ix iy) ->
  forall x y, on_both a1x a1y a2x a2y b1x b1y b2x b2y x y -> x == ix /\ y == iy.
Proof. exact intersection_point_unique. Qed.

(** last clause, the TYPING of coincident pieces, exact instance: overlapping segments of
    different operands whose left end points coincide (every coincident piece meets its twin
    this way once the overlap has been cut at its ends): answer 2, the second is typed
    [NonContributing], the first [SameTransition] if the in/out flags agree and
    [DifferentTransition] otherwise, also when the longer one is cut in the same call. *)
From GB Require Import PairTypes.
Theorem C16_coincident_pieces_are_typed :
  forall (cfg : Outcome.config) (s s' : sq NQ) (se1 se2 other1 other2 : eid) (code : nat) (ia ib : pt NQ)
         (p1x p1y o1x o1y p2x p2y o2x o2y : Q),
  sqinv NQ s -> mapped NQ (sq_st s) se1 -> mapped NQ (sq_st s) se2 ->
  e_other (getE (sq_st s) se1) = Some other1 -> e_other (getE (sq_st s) se2) = Some other2 ->
  e_point (getE (sq_st s) se1) = fpt p1x p1y -> e_point (getE (sq_st s) other1) = fpt o1x o1y ->
  e_point (getE (sq_st s) se2) = fpt p2x p2y -> e_point (getE (sq_st s) other2) = fpt o2x o2y ->
  e_is_subject (getE (sq_st s) se1) <> e_is_subject (getE (sq_st s) se2) ->
  intersection (fpt p1x p1y) (fpt o1x o1y) (fpt p2x p2y) (fpt o2x o2y) = LOverlap ia ib ->
  qeqp p1x p1y p2x p2y ->
  possible_intersection cfg s se1 se2 = Outcome.Ok (s', code) ->
  code = 2%nat /\
  e_edge_type (getE (sq_st s') se2) = NonContributing /\
  e_edge_type (getE (sq_st s') se1) =
    (if Bool.eqb (e_in_out (getE (sq_st s) se1)) (e_in_out (getE (sq_st s) se2)) then SameTransition else DifferentTransition).
Proof. exact pi_overlap_types. Qed.

(** the footprint of the step, EVERY instance: no point moves, and the partner link of no
    event other than the two given ones, their partners and the events the step creates
    changes *)
From GB Require Import PiFrame.
Theorem C16_step_footprint :
  forall (N : Num) (cfg : Outcome.config) (s : sq N) (se1 se2 other1 other2 : eid) (s' : sq N) (code : nat),
  sqinv N s -> mapped N (sq_st s) se1 -> mapped N (sq_st s) se2 ->
  e_other (getE (sq_st s) se1) = Some other1 -> e_other (getE (sq_st s) se2) = Some other2 ->
  se1 <> se2 -> se1 <> other2 -> se2 <> other1 ->
  possible_intersection cfg s se1 se2 = Outcome.Ok (s', code) ->
  (forall k, mapped N (sq_st s) k -> mapped N (sq_st s') k) /\
  (forall k, mapped N (sq_st s) k -> e_point (getE (sq_st s') k) = e_point (getE (sq_st s) k)) /\
  (forall k, mapped N (sq_st s) k -> k <> se1 -> k <> se2 -> k <> other1 -> k <> other2 ->
             e_other (getE (sq_st s') k) = e_other (getE (sq_st s) k)).
Proof. exact pi_frame_ok. Qed.

(** all answers of the step in one statement, exact instance: in a store of the sweep of a
    valid input ([einv2], and [disj]: no overlapping sub-segments of one operand) the two
    sub-segments that start at the given left events are afterwards RESOLVED: they meet in end
    points of both only, or they belong to different operands and coincide completely *)
From GB Require Import SameOperand PairResolveAll.
Theorem C16_every_tested_pair_is_resolved :
  forall (edges : list edge) (cfg : Outcome.config) (s s' : sq NQ) (se1 se2 : eid) (code : nat),
  sqinv NQ s -> einv2 edges (sq_st s) -> disj (sq_st s) ->
  mapped NQ (sq_st s) se1 -> mapped NQ (sq_st s) se2 -> se1 <> se2 ->
  e_left (getE (sq_st s) se1) = true -> e_left (getE (sq_st s) se2) = true ->
  possible_intersection cfg s se1 se2 = Outcome.Ok (s', code) ->
  exists na nb pax pay nax nay pbx pby nbx nby,
    e_other (getE (sq_st s') se1) = Some na /\ e_other (getE (sq_st s') se2) = Some nb /\
    e_point (getE (sq_st s') se1) = fpt pax pay /\ e_point (getE (sq_st s') na) = fpt nax nay /\
    e_point (getE (sq_st s') se2) = fpt pbx pby /\ e_point (getE (sq_st s') nb) = fpt nbx nby /\
    (meet_at_ends pax pay nax nay pbx pby nbx nby \/
     (negb (Bool.eqb (e_is_subject (getE (sq_st s) se1)) (e_is_subject (getE (sq_st s) se2))) = true /\
      qeqp pax pay pbx pby /\ qeqp nax nay nbx nby)).
Proof. exact pi_resolves. Qed.

(** last sentence of C16 for the kernel, in full (exact instance): for EVERY pair of
    non-degenerate segments the answer does not depend on the order in which the two are given —
    [LNone] both ways or neither, equal points, and for a common part the same two end points
    (possibly listed in the other order) *)
From GB Require Import IntersectSymCol.
Theorem C16_kernel_order_independent :
  forall (a1x a1y a2x a2y b1x b1y b2x b2y : Q),
  ~ (a2x == a1x /\ a2y == a1y) -> ~ (b2x == b1x /\ b2y == b1y) ->
  let A1 := fpt a1x a1y in let A2 := fpt a2x a2y in let B1 := fpt b1x b1y in let B2 := fpt b2x b2y in
  (intersection A1 A2 B1 B2 = LNone <-> intersection B1 B2 A1 A2 = LNone) /\
  (forall x y, intersection A1 A2 B1 B2 = LPoint (fpt x y) ->
     exists x' y', intersection B1 B2 A1 A2 = LPoint (fpt x' y') /\ x' == x /\ y' == y) /\
  (forall px py qx qy, intersection A1 A2 B1 B2 = LOverlap (fpt px py) (fpt qx qy) ->
     exists px' py' qx' qy', intersection B1 B2 A1 A2 = LOverlap (fpt px' py') (fpt qx' qy') /\
       ((px' == px /\ py' == py /\ qx' == qx /\ qy' == qy) \/ (px' == qx /\ py' == qy /\ qx' == px /\ qy' == py))).
Proof. exact intersection_order_independent. Qed.
