(** C16 — the pairwise intersection step.  Only statements closed by [exact]. *)
From Coq Require Import QArith Bool.
From GB Require Import Num NumQ NumLaws NumLawsQ Intersect IntersectProofs.

(** at the exact instance, for finite non-degenerate first segments: [intersection] answers
    [LNone] exactly for disjoint closed segments, and every point it returns lies on both *)
Theorem C16_intersection_exact :
  forall a1x a1y a2x a2y b1x b1y b2x b2y : Q,
  ~ (a2x == a1x /\ a2y == a1y) ->
  exact_result a1x a1y a2x a2y b1x b1y b2x b2y
    (intersection (fpt a1x a1y) (fpt a2x a2y) (fpt b1x b1y) (fpt b2x b2y)).
Proof. exact intersection_exact_all. Qed.

(** for every instance that satisfies the order laws (floats on non-NaN values included,
    once the laws are established for them): the returned point lies in the bounding boxes
    of both segments — the clamp *)
Theorem C16_point_in_both_boxes :
  forall (N : Num) (L : NumLaws N) (a1 a2 b1 b2 q : pt N),
  okpt L a1 -> okpt L a2 -> okpt L b1 -> okpt L b2 ->
  (forall p, intersection_impl a1 a2 b1 b2 = LPoint p -> okX L (px p) /\ okY L (py p)) ->
  intersection a1 a2 b1 b2 = LPoint q ->
  okpt L q /\ in_seg_box a1 a2 q /\ in_seg_box b1 b2 q.
Proof. exact intersection_point_in_both_boxes. Qed.
