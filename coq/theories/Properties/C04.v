(** C04 — output geometry comes from the inputs.  Only statements closed by [exact]. *)
From Coq Require Import QArith Bool List.
From GB Require Import Num NumQ NumLaws NumLawsQ Intersect IntersectProofs FillQueue.

(** the clamp: on every instance satisfying the order laws, the point returned by
    [intersection] lies in the bounding boxes of both segments *)
Theorem C04_clamp_in_both_boxes :
  forall (N : Num) (L : NumLaws N) (a1 a2 b1 b2 q : pt N),
  okpt L a1 -> okpt L a2 -> okpt L b1 -> okpt L b2 ->
  (forall p, intersection_impl a1 a2 b1 b2 = LPoint p -> okX L (px p) /\ okY L (py p)) ->
  intersection a1 a2 b1 b2 = LPoint q ->
  okpt L q /\ in_seg_box a1 a2 q /\ in_seg_box b1 b2 q.
Proof. exact intersection_point_in_both_boxes. Qed.

(** on exact arithmetic the computed coordinates are exact: every point [intersection]
    returns lies on both segments, and [LNone] means the closed segments are disjoint *)
Theorem C04_exact_arithmetic_exact_points :
  forall a1x a1y a2x a2y b1x b1y b2x b2y : Q,
  ~ (a2x == a1x /\ a2y == a1y) ->
  exact_result a1x a1y a2x a2y b1x b1y b2x b2y
    (intersection (fpt a1x a1y) (fpt a2x a2y) (fpt b1x b1y) (fpt b2x b2y)).
Proof. exact intersection_exact_all. Qed.

(** the glue: [Polygon::new] adds a point exactly when a contour's last point differs from
    its first — an unterminated contour therefore shows up as an invented closing edge *)
Theorem C04_closing_glue :
  forall (N : Num) (h : pt N) (t : list (pt N)),
  close_ring (h :: t) = if pt_eq h (last t h) then h :: t else (h :: t) ++ (h :: nil).
Proof. exact (fun N h t => eq_refl). Qed.

(** the clamp for the bit-exact binary64 / binary32 models (order laws: NumLawsB) *)
From Coq Require Import ZArith.
From GB Require Import NumB NumLawsB.
Theorem C04_clamp_in_both_boxes_f64 :
  forall (a1 a2 b1 b2 q : pt NB64),
  okpt (NB_laws 53 1024) a1 -> okpt (NB_laws 53 1024) a2 -> okpt (NB_laws 53 1024) b1 -> okpt (NB_laws 53 1024) b2 ->
  (forall p, intersection_impl a1 a2 b1 b2 = LPoint p -> okX (NB_laws 53 1024) (px p) /\ okY (NB_laws 53 1024) (py p)) ->
  intersection a1 a2 b1 b2 = LPoint q ->
  okpt (NB_laws 53 1024) q /\ in_seg_box a1 a2 q /\ in_seg_box b1 b2 q.
Proof. exact (@intersection_point_in_both_boxes NB64 (NB_laws 53 1024)). Qed.
Theorem C04_clamp_in_both_boxes_f32 :
  forall (a1 a2 b1 b2 q : pt NB32),
  okpt (NB_laws 24 128) a1 -> okpt (NB_laws 24 128) a2 -> okpt (NB_laws 24 128) b1 -> okpt (NB_laws 24 128) b2 ->
  (forall p, intersection_impl a1 a2 b1 b2 = LPoint p -> okX (NB_laws 24 128) (px p) /\ okY (NB_laws 24 128) (py p)) ->
  intersection a1 a2 b1 b2 = LPoint q ->
  okpt (NB_laws 24 128) q /\ in_seg_box a1 a2 q /\ in_seg_box b1 b2 q.
Proof. exact (@intersection_point_in_both_boxes NB32 (NB_laws 24 128)). Qed.
