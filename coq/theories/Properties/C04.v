(** C04 — output geometry comes from the inputs.  Only statements closed by [exact]. *)
From Coq Require Import QArith Bool List.
From GB Require Import Num NumQ NumLaws NumLawsQ Intersect IntersectProofs FillQueue.

(** the clamp: on every instance satisfying the order laws, the point returned by
    [intersection] lies in the bounding boxes of both segments *)
Theorem C04_clamp_in_both_boxes :
  forall (N : Num) (L : NumLaws N) (a1 a2 b1 b2 q : pt N),
  okpt L a1 -> okpt L a2 -> okpt L b1 -> okpt L b2 ->
  (forall p, intersection_impl a1 a2 b1 b2 = LPoint p -> okX L (px p) /\ okY L (py p)) ->
  intersection a1 a2 b1 b2 = LPoint q ->
  okpt L q /\ in_seg_box a1 a2 q /\ in_seg_box b1 b2 q.
Proof. exact intersection_point_in_both_boxes. Qed.

(** on exact arithmetic the computed coordinates are exact: every point [intersection]
    returns lies on both segments, and [LNone] means the closed segments are disjoint *)
Theorem C04_exact_arithmetic_exact_points :
  forall a1x a1y a2x a2y b1x b1y b2x b2y : Q,
  ~ (a2x == a1x /\ a2y == a1y) ->
  exact_result a1x a1y a2x a2y b1x b1y b2x b2y
    (intersection (fpt a1x a1y) (fpt a2x a2y) (fpt b1x b1y) (fpt b2x b2y)).
Proof. exact intersection_exact_all. Qed.

(** the glue: [Polygon::new] adds a point exactly when a contour's last point differs from
    its first — an unterminated contour therefore shows up as an invented closing edge *)
Theorem C04_closing_glue :
  forall (N : Num) (h : pt N) (t : list (pt N)),
  close_ring (h :: t) = if pt_eq h (last t h) then h :: t else (h :: t) ++ (h :: nil).
Proof. exact (fun N h t => eq_refl). Qed.

(** the clamp for the bit-exact binary64 / binary32 models (order laws: NumLawsB) *)
From Coq Require Import ZArith.
From GB Require Import NumB NumLawsB.
Theorem C04_clamp_in_both_boxes_f64 :
  forall (a1 a2 b1 b2 q : pt NB64),
  okpt (NB_laws 53 1024) a1 -> okpt (NB_laws 53 1024) a2 -> okpt (NB_laws 53 1024) b1 -> okpt (NB_laws 53 1024) b2 ->
  (forall p, intersection_impl a1 a2 b1 b2 = LPoint p -> okX (NB_laws 53 1024) (px p) /\ okY (NB_laws 53 1024) (py p)) ->
  intersection a1 a2 b1 b2 = LPoint q ->
  okpt (NB_laws 53 1024) q /\ in_seg_box a1 a2 q /\ in_seg_box b1 b2 q.
Proof. exact (@intersection_point_in_both_boxes NB64 (NB_laws 53 1024)). Qed.
Theorem C04_clamp_in_both_boxes_f32 :
  forall (a1 a2 b1 b2 q : pt NB32),
  okpt (NB_laws 24 128) a1 -> okpt (NB_laws 24 128) a2 -> okpt (NB_laws 24 128) b1 -> okpt (NB_laws 24 128) b2 ->
  (forall p, intersection_impl a1 a2 b1 b2 = LPoint p -> okX (NB_laws 24 128) (px p) /\ okY (NB_laws 24 128) (py p)) ->
  intersection a1 a2 b1 b2 = LPoint q ->
  okpt (NB_laws 24 128) q /\ in_seg_box a1 a2 q /\ in_seg_box b1 b2 q.
Proof. exact (@intersection_point_in_both_boxes NB32 (NB_laws 24 128)). Qed.

(** ** no invented vertices, every instance (floats included), every input, every configuration:
    every coordinate pair of every ring of the result is an input vertex, or a point returned by
    [intersection] (the clamped computed point) for two segments whose endpoints are such
    points, or such a point after the one-ulp bump of divide_segment.  Proved as an invariant of
    fill_queue, the whole sweep loop and the contour assembly ([Provenance.v]); over exact
    arithmetic the returned points are the exact intersection points and the bump is the
    identity (C04_exact_arithmetic_exact_points, PiProofs). *)
From Coq Require Import List.
From GB Require Import Event Outcome BoolOp Provenance.

Theorem C04_output_points_allowed :
  forall (N : Num) (inp : list (pt N)) cfg fuel (A B : list (FillQueue.polygon N)) (op : operation)
         (R : list (FillQueue.polygon N)),
  polys_in N inp A -> polys_in N inp B ->
  boolean_operation cfg fuel A B op = Ok R ->
  forall P p, In P R -> In p (poly_pts N P) -> allowed N inp p.
Proof. exact output_points_allowed. Qed.

(** the inductive definition of "allowed", spelled out *)
Theorem C04_allowed_cases :
  forall (N : Num) (inp : list (pt N)) (p : pt N), allowed N inp p ->
  In p inp
  \/ (exists a1 a2 b1 b2, allowed N inp a1 /\ allowed N inp a2 /\ allowed N inp b1 /\ allowed N inp b2
                         /\ intersection a1 a2 b1 b2 = LPoint p)
  \/ (exists q, allowed N inp q /\ p = mkPt N (next_upX N (px q)) (py q)).
Proof.
  exact (fun N inp p H =>
    match H with
    | al_in _ _ p0 Hin => or_introl Hin
    | al_inter _ _ a1 a2 b1 b2 p0 H1 H2 H3 H4 E =>
        or_intror (or_introl (ex_intro _ a1 (ex_intro _ a2 (ex_intro _ b1 (ex_intro _ b2
          (conj H1 (conj H2 (conj H3 (conj H4 E)))))))))
    | al_bump _ _ q Hq => or_intror (or_intror (ex_intro _ q (conj Hq eq_refl)))
    end).
Qed.

(** every ring handed to [Polygon::new] comes back closed *)
From GB Require Import QueueCount.
Theorem C04_rings_closed :
  forall (N : Num) (r : FillQueue.ring N) (h : pt N) (t : list (pt N)),
  close_ring r = h :: t -> t <> nil -> pt_eq h (last t h) = true \/ last t h = h.
Proof. exact close_ring_closed. Qed.

(** FIRST CLAUSE, exact instance, every pair of operands with finite coordinates, every
    operation whose sweep runs to completion (Union, Xor, or any operation with the early exit
    disabled): every ring of the result is the closed form ([close()]) of a contour all of whose
    consecutive point pairs lie on ONE edge of one of the operands ([ops_edges]: the edges
    [fill_queue] walks).  Not covered: the last-to-first edge that [close()] appends when the
    walk did not close the contour itself, and runs cut short by the early exit. *)
From Coq Require Import QArith.
From GB Require Import NumQ OnEdge SweepClosure ResultEdges Coverage ExactSweep.
Theorem C04_result_edges_lie_on_input_edges :
  forall (A B : list (FillQueue.polygon NQ)),
  (forall P, In P A -> finite_poly P) -> (forall P, In P B -> finite_poly P) ->
  forall (cfg : config) (fuel : nat) (op : operation) (R : multipolygon NQ),
  complete_sweep cfg op ->
  boolean_operation cfg fuel A B op = Ok R ->
  R = trivial_result A B op \/
  forall P ring, In P R -> In ring (FillQueue.exterior P :: FillQueue.interiors P) ->
    exists pts, ring = FillQueue.close_ring pts /\
      forall l1 p q l2, pts = l1 ++ p :: q :: l2 -> on_input_edge (ops_edges A B) p q.
Proof. exact exact_result_edges. Qed.

Theorem C04_on_input_edge_unfold :
  forall (edges : list edge) (p q : pt NQ), on_input_edge edges p q <->
  exists ax ay bx by_ subj px py qx qy,
    In (ax, ay, (bx, by_), subj) edges /\ p = IntersectProofs.fpt px py /\ q = IntersectProofs.fpt qx qy /\
    SplitCover.on_seg ax ay bx by_ px py /\ SplitCover.on_seg ax ay bx by_ qx qy.
Proof. exact (fun edges p q => conj (fun H => H) (fun H => H)). Qed.

(** the contour stage alone, every instance: consecutive contour points are the two ends of a
    selected event pair (the first up to [pt_eq]) *)
From GB Require Import Connect ContourEdges.
Theorem C04_contour_edges_are_subsegments :
  forall (N : Num) (cfg : config) (fuel : nat) (st : store N) (evs : list eid) (st' : store N)
         (res : list eid) (cs : list (contour N)),
  NoDup evs -> paired N st (filter (in_result_filter st) evs) ->
  connect_edges cfg fuel st evs = Ok (st', res, cs) ->
  forall c l1 p q l2, In c cs -> c_points c = l1 ++ p :: q :: l2 ->
  exists i o x, In i evs /\ in_result_filter st i = true /\ e_other (getE st i) = Some o /\
    pt_eq x p = true /\ pt_eq x (e_point (getE st i)) = true /\ q = e_point (getE st o).
Proof. exact contour_edges_are_subsegments. Qed.

(** ** the clauses of C04 as a VERIFIED per-run certificate on exact runs, evaluated on the
    implementation's own result: every ring closed, with at least three distinct vertices, no
    repeated consecutive vertex, non-zero area and (rings assembled by the operation) positive
    orientation; every edge on ONE input edge; every vertex an end point of an input edge or a
    common point of two input edges that the exact kernel reports *)
From GB Require Import Cert04.
Theorem C04_certificate_sound :
  forall (assembled : bool) (E : list edge) (R : list (list (list qp))),
  cert04 assembled E R = true ->
  forall poly r, In poly R -> In r poly ->
  exists p rest, open_ring r = Some (p :: rest) /\
    (3 <= count_distinct nil (p :: rest))%nat /\ ~ ring_area2 (p :: rest) == 0 /\
    (assembled = true -> 0 < ring_area2 (p :: rest)) /\
    (forall a b, In (a, b) (cyc_pairs p p rest) -> peqb a b = false /\ lies_on_input E a b) /\
    (forall v, In v (p :: rest) -> from_inputs E v).
Proof. exact cert04_sound. Qed.

Theorem C04_certificate_unfold :
  forall (E : list edge) (a b v : qp),
  (lies_on_input E a b <->
     exists ax ay bx by_ se, In (ax, ay, (bx, by_), se) E /\
       SplitCover.on_seg ax ay bx by_ (fst a) (snd a) /\ SplitCover.on_seg ax ay bx by_ (fst b) (snd b)) /\
  (from_inputs E v <->
     (exists ax ay bx by_ se, In (ax, ay, (bx, by_), se) E /\ (qeqp (fst v) (snd v) ax ay \/ qeqp (fst v) (snd v) bx by_)) \/
     (exists ax ay bx by_ se cx cy dx dy sf, In (ax, ay, (bx, by_), se) E /\ In (cx, cy, (dx, dy), sf) E /\
        on_both ax ay bx by_ cx cy dx dy (fst v) (snd v))).
Proof. exact (fun _ _ _ _ => conj (conj (fun H => H) (fun H => H)) (conj (fun H => H) (fun H => H))). Qed.
