(** C06 — region laws between the results of related calls are decided, for every point of
    the plane, by the verified scene checker.  Only statements closed by [exact]. *)
From Coq Require Import QArith List Bool.
From GB Require Import Slab Scene SlabProofs.

Theorem C06_law_checker_sound :
  forall (sc : scene) (l : law), check_scene sc l = true ->
  forall p, scene_clear sc p -> eval_law l (member sc p) = true.
Proof. exact check_scene_sound. Qed.

From GB Require Import Num NumQ NumLaws Event Outcome FillQueue BoolOp TrivialProofs.

(** empty operand, every instance satisfying the order laws, every operation: the call
    returns the trivial combination (as a list of polygons), for every fuel *)
Theorem C06_empty_clipping :
  forall (N : Num) (L : NumLaws N) (cfg : config) (fuel : nat), c_noshort cfg = false ->
  forall (A : list (FillQueue.polygon N)) (op : operation), xfin_polys (finL L) A ->
  boolean_operation cfg fuel A nil op = Ok (trivial_result A nil op).
Proof. exact empty_r_trivial_L. Qed.

Theorem C06_empty_subject :
  forall (N : Num) (L : NumLaws N) (cfg : config) (fuel : nat), c_noshort cfg = false ->
  forall (A : list (FillQueue.polygon N)) (op : operation), xfin_polys (finL L) A ->
  boolean_operation cfg fuel nil A op = Ok (trivial_result nil A op).
Proof. exact empty_l_trivial_L. Qed.

(** the eight laws at the exact instance, hypothesis-free apart from finite coordinates *)
Theorem C06_union_empty_r_Q :
  forall cfg fuel, c_noshort cfg = false -> forall A : list (FillQueue.polygon NQ), coords_Q A ->
  boolean_operation cfg fuel A nil Union = Ok A.
Proof. exact union_empty_r_Q. Qed.
Theorem C06_difference_empty_r_Q :
  forall cfg fuel, c_noshort cfg = false -> forall A : list (FillQueue.polygon NQ), coords_Q A ->
  boolean_operation cfg fuel A nil Difference = Ok A.
Proof. exact difference_empty_r_Q. Qed.
Theorem C06_intersection_empty_r_Q :
  forall cfg fuel, c_noshort cfg = false -> forall A : list (FillQueue.polygon NQ), coords_Q A ->
  boolean_operation cfg fuel A nil Intersection = Ok nil.
Proof. exact intersection_empty_r_Q. Qed.
Theorem C06_difference_empty_l_Q :
  forall cfg fuel, c_noshort cfg = false -> forall A : list (FillQueue.polygon NQ), coords_Q A ->
  boolean_operation cfg fuel nil A Difference = Ok nil.
Proof. exact difference_empty_l_Q. Qed.
Theorem C06_union_empty_l_Q :
  forall cfg fuel, c_noshort cfg = false -> forall A : list (FillQueue.polygon NQ), coords_Q A ->
  boolean_operation cfg fuel nil A Union = Ok A.
Proof. exact union_empty_l_Q. Qed.

(** disjoint bounding boxes: the obvious combinations, every instance *)
Theorem C06_disjoint_boxes :
  forall (N : Num) (cfg : config) (fuel : nat), c_noshort cfg = false ->
  forall (A B : list (FillQueue.polygon N)) (op : operation),
  boxes_disjoint (f_sbbox (fill_queue A B op)) (f_cbbox (fill_queue A B op)) = true ->
  boolean_operation cfg fuel A B op = Ok (trivial_result A B op).
Proof. exact disjoint_boxes_trivial. Qed.

From GB Require Import Fields FieldsProofs TableLaws.

(** commutativity at the level of the selection tables: for intersection, union and xor the
    entry of a sub-segment is the same in the call with the operands exchanged, for every flag
    assignment, edge type and operand role *)
Theorem C06_tables_symmetric :
  forall (N : Num) (cfg : config) (e e' : event N) (o : operation),
  o <> Difference -> swapped e e' -> table cfg e' o = table cfg e o.
Proof. exact tables_symmetric. Qed.

Theorem C06_ops_commute :
  forall (o : operation) (a b : bool), o <> Difference -> sem o a b = sem o b a.
Proof. exact ops_commute. Qed.

(** the empty-operand laws hold for the bit-exact binary64 and binary32 models of the code
    (the order laws are proved for SpecFloat comparisons on all non-NaN values, NumLawsB):
    every coordinate non-NaN and below +infinity *)
From Coq Require Import ZArith.
From GB Require Import NumB NumLawsB.
Theorem C06_empty_clipping_f64 :
  forall (cfg : config) (fuel : nat), c_noshort cfg = false ->
  forall (A : list (FillQueue.polygon NB64)) (op : operation), xfin_polys (finL (NB_laws 53 1024)) A ->
  boolean_operation cfg fuel A nil op = Ok (trivial_result A nil op).
Proof. exact (@empty_r_trivial_L NB64 (NB_laws 53 1024)). Qed.
Theorem C06_empty_subject_f64 :
  forall (cfg : config) (fuel : nat), c_noshort cfg = false ->
  forall (A : list (FillQueue.polygon NB64)) (op : operation), xfin_polys (finL (NB_laws 53 1024)) A ->
  boolean_operation cfg fuel nil A op = Ok (trivial_result nil A op).
Proof. exact (@empty_l_trivial_L NB64 (NB_laws 53 1024)). Qed.
Theorem C06_empty_clipping_f32 :
  forall (cfg : config) (fuel : nat), c_noshort cfg = false ->
  forall (A : list (FillQueue.polygon NB32)) (op : operation), xfin_polys (finL (NB_laws 24 128)) A ->
  boolean_operation cfg fuel A nil op = Ok (trivial_result A nil op).
Proof. exact (@empty_r_trivial_L NB32 (NB_laws 24 128)). Qed.
