(** C11 — region laws between the results of related calls are decided, for every point of
    the plane, by the verified scene checker.  Only statements closed by [exact]. *)
From Coq Require Import QArith List Bool.
From GB Require Import Slab Scene SlabProofs.

Theorem C11_law_checker_sound :
  forall (sc : scene) (l : law), check_scene sc l = true ->
  forall p, scene_clear sc p -> eval_law l (member sc p) = true.
Proof. exact check_scene_sound. Qed.

From GB Require Import Num NumQ Event Outcome FillQueue BoolOp Cert ChainProofs.

(** the composition step: C01 of the first call, C02's reading clause of its result (the next
    call reads it by the even-odd rule) and C01 of the second call give the pointwise law
    [op' (op a b) c] for the chained result, at every point clear of the edges involved *)
Theorem C11_chain_law :
  forall (N : Num) (conv : pt N -> option qpt) cfg fuel (A B C : list (FillQueue.polygon N)) (op op' : operation),
  C01_at N conv cfg fuel A B op ->
  (forall R, boolean_operation cfg fuel A B op = Ok R ->
     C02_reading_at N conv cfg fuel A B op /\ C01_at N conv cfg fuel R C op') ->
  exists R R2 a b c r r2,
    boolean_operation cfg fuel A B op = Ok R /\ boolean_operation cfg fuel R C op' = Ok R2 /\
    operand_rings_q N conv A = Some a /\ operand_rings_q N conv B = Some b /\
    operand_rings_q N conv C = Some c /\ mpoly_q N conv R = Some r /\ mpoly_q N conv R2 = Some r2 /\
    forall p, clear01 a b r p -> scene_clear (scene02 r) p -> clear01 (rings_of r) c r2 p ->
      inside_mpoly r2 p
      = sem_op (bop_of op') (sem_op (bop_of op) (inside_eo a p) (inside_eo b p)) (inside_eo c p).
Proof. exact chain_law. Qed.

(** the hypotheses are met by a concrete chained run with a re-used operand: (A ∪ B) \ B *)
Example C11_chain_example : chain_example_check = true.
Proof. exact chain_example. Qed.

(** "a returned multipolygon is an acceptable operand": the contour stage may hand back a ring
    that passes through a vertex twice (a hole touching its exterior is threaded into the exterior
    ring).  The next call reads its operand by the even-odd rule, under which that ring denotes
    exactly the region of the two rings it is threaded from. *)
From GB Require Import BoundaryRegion.
Theorem C11_pinched_result_ring_reads_as_its_parts :
  forall (e0 : Slab.qpt) (pre : list Slab.qpt) (v : Slab.qpt) (h post : list Slab.qpt) (rs : list Slab.ring) p,
  Slab.inside_eo ((e0 :: pre ++ v :: h ++ v :: post) :: rs) p
  = Slab.inside_eo ((e0 :: pre ++ v :: post) :: (v :: h) :: rs) p.
Proof. exact threaded_ring_same_region. Qed.
