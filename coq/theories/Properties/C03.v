(** C03 — every call on valid input returns.  Only statements closed by [exact]. *)
From Coq Require Import List.
From GB Require Import Num Event Outcome FillQueue BoolOp Cert.

(** a certified run is in particular a run that returned normally within its event budget *)
Theorem C03_certified_run_returns :
  forall (N : Num) (conv : pt N -> option Slab.qpt) cfg fuel (A B : list (FillQueue.polygon N)) o,
  cert01_run N conv cfg fuel A B o = true -> exists R, boolean_operation cfg fuel A B o = Ok R.
Proof.
  exact (fun N conv cfg fuel A B o H =>
           match C01_partial N conv cfg fuel A B o H with
           | ex_intro _ R (ex_intro _ _ (ex_intro _ _ (ex_intro _ _ (conj HR _)))) => ex_intro _ R HR
           end).
Qed.

From Coq Require Import Permutation.
From GB Require Import Cmp Connect Heap SortProofs.

(** the bubble sort of [order_events] returns — within the fuel the model gives it — whenever
    the event order is asymmetric on the events being sorted (no pair is "less" in both
    directions), and whatever it returns is a sorted permutation *)
Theorem C03_bubble_sort_terminates :
  forall (N : Num) (st : store N) (fuel : nat) (l : list eid),
  (forall a b, In a l -> In b l -> ev_lt st a b = true -> ev_lt st b a = false) ->
  inv (ev_lt st) l <= fuel ->
  exists l', bubble_sort fuel st l = Ok l' /\ Permutation l l' /\ desc (ev_lt st) l'.
Proof. exact bubble_sort_terminates_asym. Qed.

Theorem C03_bubble_sort_result_sorted :
  forall (N : Num) (st : store N) (fuel : nat) (l l' : list eid),
  bubble_sort fuel st l = Ok l' -> Permutation l l' /\ desc (ev_lt st) l'.
Proof. exact bubble_sort_ok_sorted. Qed.

(** ... and it runs for ever on an order with a pair that is "less" both ways: consistency of
    the event order (C15) is what termination rests on *)
Theorem C03_bubble_sort_may_diverge : forall fuel, gsort lt2 fuel (0 :: 1 :: nil) = OutOfFuel.
Proof. exact gsort_lt2_diverges. Qed.

(** the event queue (std BinaryHeap algorithms) neither loses nor duplicates events, whatever
    the comparison answers *)
Theorem C03_heap_push_keeps_elements :
  forall (T : Type) (le : T -> T -> bool) (dflt : T) (data : list T) (x : T),
  Permutation (push le dflt data x) (x :: data).
Proof. exact push_perm. Qed.

Theorem C03_heap_pop_keeps_elements :
  forall (T : Type) (le : T -> T -> bool) (dflt : T) (data : list T) (top : T) (rest : list T),
  pop le dflt data = Some (top, rest) -> Permutation data (top :: rest).
Proof. exact pop_perm. Qed.

From GB Require Import Subdivide LinkProofs.

(** the sweep stage has no reachable panic site in release builds, for every numeric instance
    (floats included) and every input, apart from the verification hook's event budget: in
    particular the [unwrap] in possible_intersection.rs cannot fail, because every event
    keeps a partner throughout the sweep (the link invariant of C13) *)
Theorem C03_sweep_release_panic_free :
  forall (N : Num) cfg fuel (A B : list (FillQueue.polygon N)) (op : operation) (site : panic_site),
  c_debug cfg = false ->
  subdivide cfg fuel (fill_queue A B op) op = Panic site -> site = PEventBudget.
Proof. exact subdivide_release_panic_free. Qed.

(** ... and in debug builds only the debug assertions can fire *)
Theorem C03_possible_intersection_unwrap_safe :
  forall (N : Num) cfg (s : Divide.sq N) (se1 se2 : eid),
  sqinv N s -> mapped N (Divide.sq_st s) se1 -> mapped N (Divide.sq_st s) se2 ->
  Divide.possible_intersection cfg s se1 se2 <> Panic PUnwrapPossibleIntersection.
Proof. exact possible_intersection_unwrap_safe. Qed.

(** the std BinaryHeap algorithms keep the heap shape and return a maximum under a
    preorder (and keep the heap shape: push_heap_ok, pop_heap_ok in SortProofs) *)
Theorem C03_heap_pop_returns_max :
  forall (T : Type) (le : T -> T -> bool) (dflt : T),
  (forall a, le a a = true) ->
  (forall a b c, le a b = true -> le b c = true -> le a c = true) ->
  forall (data : list T) (top : T) (rest : list T),
  heap_ok le dflt data -> pop le dflt data = Some (top, rest) ->
  forall x, In x data -> le x top = true.
Proof. exact pop_max. Qed.

(** the contour stage ([connect_edges.rs]), every numeric instance, every store and event
    vector whose result events are closed under the partner link ([closed]; [closed_of_links]
    derives it from the link structure C13 states for the output of the sweep):
    no access outside [result_events] / [iteration_map], and no loop of the stage can run for
    ever once the bubble sort has returned and no result point is NaN. *)
From Coq Require Import ZArith.
From GB Require Import Connect ConnectProofs.
Theorem C03_contour_stage_index_safe :
  forall (N : Num) (cfg : config) (fuel : nat) (st : store N) (sorted_events : list eid),
  closed N st (filter (in_result_filter st) sorted_events) ->
  connect_edges cfg fuel st sorted_events <> Panic PIndexResultEvents.
Proof. exact connect_edges_index_safe. Qed.

Theorem C03_contour_stage_terminates :
  forall (N : Num) (cfg : config) (fuel : nat) (st : store N) (sorted_events : list eid)
         (st1 : store N) (res : list eid),
  closed N st (filter (in_result_filter st) sorted_events) ->
  order_events fuel st sorted_events = Ok (st1, res) ->
  (forall e, In e res -> ident st1 e e = true) ->
  connect_edges cfg fuel st sorted_events <> OutOfFuel.
Proof. exact connect_edges_terminates. Qed.

Theorem C03_next_pos_search_terminates :
  forall (N : Num) (cfg : config) (st : store N) (data : list eid) (map : list nat) (pos : Z) (p : processed),
  precompute_iteration_order cfg st data = Ok map ->
  in_range pos (length map) = true ->
  get_next_pos pos p map <> OutOfFuel.
Proof. exact get_next_pos_terminates. Qed.

Theorem C03_closed_from_links :
  forall (N : Num) (st : store N) (l : list eid),
  (forall i o, In i l -> e_left (getE st i) = true -> is_in_result (getE st i) = true ->
               e_other (getE st i) = Some o ->
               In o l /\ e_left (getE st o) = false /\ e_other (getE st o) = Some i) ->
  closed N st (filter (in_result_filter st) l).
Proof. exact closed_of_links. Qed.

(** non-vacuity: on the output of the sweep for [F1_A], [F1_B] (exact instance) the result
    events are closed under the partner link, the bubble sort returns and no point is NaN *)
Theorem C03_contour_stage_example : connect_example_check = true.
Proof. exact connect_example. Qed.

(** [contours[*hole_id as usize]] (mod.rs) is never out of range: the panic site
    [PIndexHoleIds] is unreachable for every instance, configuration, budget and input *)
From GB Require Import GroupingProofs.
Theorem C03_hole_index_safe :
  forall (N : Num) (cfg : config) (fuel : nat) (A B : list (FillQueue.polygon N)) (op : operation),
  boolean_operation cfg fuel A B op <> Panic PIndexHoleIds.
Proof. exact boolean_operation_hole_index_safe. Qed.

(** the sweep loop terminates (exact instance, every pair of operands with finite coordinates):
    every division point is an end point of an input edge or the common point of two
    non-parallel input edges ([cand_of]); the number of allocated events plus twice the number
    of (sub-segment, candidate strictly inside it) pairs never increases and a division adds two
    events; every event is popped at most once.  So with a budget of [n0 * (1 + 2 * #candidates)],
    [n0] the number of events after queue filling, the loop never stops for lack of budget — in
    release builds the sweep stage returns. *)
From Coq Require Import QArith.
From GB Require Import NumQ Subdivide OnEdge EventBound Coverage SweepClosure ExactSweep.
Theorem C03_sweep_terminates :
  forall (A B : list (FillQueue.polygon NQ)),
  (forall P, In P A -> finite_poly P) -> (forall P, In P B -> finite_poly P) ->
  forall (cfg : config) (fuel : nat) (op : operation),
  (nids (f_st (fill_queue A B op)) * (1 + 2 * length (cand_of (ops_edges A B))) <= fuel)%nat ->
  subdivide cfg fuel (fill_queue A B op) op <> Panic PEventBudget.
Proof. exact exact_sweep_terminates. Qed.

Theorem C03_sweep_returns :
  forall (A B : list (FillQueue.polygon NQ)),
  (forall P, In P A -> finite_poly P) -> (forall P, In P B -> finite_poly P) ->
  forall (cfg : config) (fuel : nat) (op : operation),
  c_debug cfg = false ->
  (nids (f_st (fill_queue A B op)) * (1 + 2 * length (cand_of (ops_edges A B))) <= fuel)%nat ->
  exists st sorted n, subdivide cfg fuel (fill_queue A B op) op = Ok (st, sorted, n).
Proof. exact exact_sweep_returns. Qed.

(** on runs of the exact instance whose sweep runs to completion the closure hypothesis of the
    contour-stage theorems is itself a theorem *)
Theorem C03_exact_complete_run_index_safe :
  forall (A B : list (FillQueue.polygon NQ)),
  (forall P, In P A -> finite_poly P) -> (forall P, In P B -> finite_poly P) ->
  forall (cfg : config) (fuel : nat) (op : operation),
  complete_sweep cfg op -> boolean_operation cfg fuel A B op <> Panic PIndexResultEvents.
Proof. exact exact_index_safe. Qed.

Theorem C03_exact_example : exact_example_check = true.
Proof. exact exact_example. Qed.

(** ** the QUADRATIC event bound, exact instance: operands with finite coordinates and [n] edges
    in all ([ops_edges]: consecutive ring points as [fill_queue] walks them); with a budget of
    [2 n (1 + 6 n) = 12 n^2 + 2 n] events the sweep never stops for lack of budget.  Candidates up
    to [==]; at most [3 n] of them strictly inside a sub-segment of one edge (for every edge: its
    two end points and the common point of the two lines); two events per non-collapsed edge. *)
From GB Require Import QuadBound.
Theorem C03_event_bound_quadratic :
  forall cfg fuel (A B : list (polygon NQ)) op,
  (forall P, In P A -> finite_poly P) -> (forall P, In P B -> finite_poly P) ->
  (2 * length (ops_edges A B) * (1 + 6 * length (ops_edges A B)) <= fuel)%nat ->
  subdivide cfg fuel (fill_queue A B op) op <> Panic PEventBudget.
Proof. exact exact_sweep_terminates_quadratic. Qed.

Theorem C03_events_after_queue_filling :
  forall (A B : list (polygon NQ)) op,
  (forall P, In P A -> finite_poly P) -> (forall P, In P B -> finite_poly P) ->
  (EventBound.nids (f_st (fill_queue A B op)) <= 2 * length (ops_edges A B))%nat.
Proof. exact nids_le_edges. Qed.

Theorem C03_event_bound_quadratic_example : quad_example_check = true.
Proof. exact quad_example. Qed.

(** "with and without debug assertions", the two assertions of [divide_segment] (exact instance):
    dividing a LEFT event at a point that comes lexicographically after it always returns — in
    every build profile.  Every division of the sweep is of this kind (C13: the division point
    lies strictly inside a left-first sub-segment). *)
From GB Require Import IntersectProofs LinkProofs OnEdge OnEdgeFull DebugSafe.
Theorem C03_divide_segment_assertions_cannot_fire :
  forall (cfg : Outcome.config) (s : Divide.sq NQ) (se_l se_r : eid) (lx ly ix iy : Q),
  wf NQ (Divide.sq_st s) -> mapped NQ (Divide.sq_st s) se_l ->
  e_other (getE (Divide.sq_st s) se_l) = Some se_r ->
  e_left (getE (Divide.sq_st s) se_l) = true ->
  e_point (getE (Divide.sq_st s) se_l) = fpt lx ly -> OnEdgeFull.lexlt lx ly ix iy ->
  exists s', Divide.divide_segment cfg s se_l (fpt ix iy) = Ok s'.
Proof. exact divide_segment_returns. Qed.
