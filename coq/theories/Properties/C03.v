(** C03 — every call on valid input returns.  Only statements closed by [exact]. *)
From Coq Require Import List.
From GB Require Import Num Event Outcome FillQueue BoolOp Cert.

(** a certified run is in particular a run that returned normally within its event budget *)
Theorem C03_certified_run_returns :
  forall (N : Num) (conv : pt N -> option Slab.qpt) cfg fuel (A B : list (FillQueue.polygon N)) o,
  cert01_run N conv cfg fuel A B o = true -> exists R, boolean_operation cfg fuel A B o = Ok R.
Proof.
  exact (fun N conv cfg fuel A B o H =>
           match C01_partial N conv cfg fuel A B o H with
           | ex_intro _ R (ex_intro _ _ (ex_intro _ _ (ex_intro _ _ (conj HR _)))) => ex_intro _ R HR
           end).
Qed.
