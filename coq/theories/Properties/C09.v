(** C09 — region laws between the results of related calls are decided, for every point of
    the plane, by the verified scene checker.  Only statements closed by [exact]. *)
From Coq Require Import QArith List Bool.
From GB Require Import Slab Scene SlabProofs.

Theorem C09_law_checker_sound :
  forall (sc : scene) (l : law), check_scene sc l = true ->
  forall p, scene_clear sc p -> eval_law l (member sc p) = true.
Proof. exact check_scene_sound. Qed.

From GB Require Import Num Event Outcome FillQueue BoolOp TrivialProofs.

(** the boxes the shortcut looks at are exactly min/max over the start points of the
    non-collapsed edges — independent of the operation, the queue and the contour ids *)
Theorem C09_subject_box :
  forall (N : Num) (subject clipping : list (FillQueue.polygon N)) (op : operation),
  f_sbbox (fill_queue subject clipping op) = fold_left (bb_add (N:=N)) (starts_of subject) (empty_bb N).
Proof. exact fill_queue_sbbox. Qed.
Theorem C09_clipping_box :
  forall (N : Num) (subject clipping : list (FillQueue.polygon N)) (op : operation),
  f_cbbox (fill_queue subject clipping op) = fold_left (bb_add (N:=N)) (starts_of clipping) (empty_bb N).
Proof. exact fill_queue_cbbox. Qed.

(** when the shortcut is taken the result is the trivial combination *)
Theorem C09_shortcut_result :
  forall (N : Num) (cfg : config) (fuel : nat), c_noshort cfg = false ->
  forall (A B : list (FillQueue.polygon N)) (op : operation),
  boxes_disjoint (f_sbbox (fill_queue A B op)) (f_cbbox (fill_queue A B op)) = true ->
  boolean_operation cfg fuel A B op = Ok (trivial_result A B op).
Proof. exact disjoint_boxes_trivial. Qed.
