(** C09 — region laws between the results of related calls are decided, for every point of
    the plane, by the verified scene checker.  Only statements closed by [exact]. *)
From Coq Require Import QArith List Bool.
From GB Require Import Slab Scene SlabProofs.

Theorem C09_law_checker_sound :
  forall (sc : scene) (l : law), check_scene sc l = true ->
  forall p, scene_clear sc p -> eval_law l (member sc p) = true.
Proof. exact check_scene_sound. Qed.

From GB Require Import Num Event Outcome FillQueue BoolOp TrivialProofs.

(** the boxes the shortcut looks at are exactly min/max over the start points of the
    non-collapsed edges — independent of the operation, the queue and the contour ids *)
Theorem C09_subject_box :
  forall (N : Num) (subject clipping : list (FillQueue.polygon N)) (op : operation),
  f_sbbox (fill_queue subject clipping op) = fold_left (bb_add (N:=N)) (starts_of subject) (empty_bb N).
Proof. exact fill_queue_sbbox. Qed.
Theorem C09_clipping_box :
  forall (N : Num) (subject clipping : list (FillQueue.polygon N)) (op : operation),
  f_cbbox (fill_queue subject clipping op) = fold_left (bb_add (N:=N)) (starts_of clipping) (empty_bb N).
Proof. exact fill_queue_cbbox. Qed.

(** when the shortcut is taken the result is the trivial combination *)
Theorem C09_shortcut_result :
  forall (N : Num) (cfg : config) (fuel : nat), c_noshort cfg = false ->
  forall (A B : list (FillQueue.polygon N)) (op : operation),
  boxes_disjoint (f_sbbox (fill_queue A B op)) (f_cbbox (fill_queue A B op)) = true ->
  boolean_operation cfg fuel A B op = Ok (trivial_result A B op).
Proof. exact disjoint_boxes_trivial. Qed.

(** the shortcut does not change the answer: when it is taken, the result is the named region
    at every point of the plane (exact instance; see C01 for the hypotheses) — the same region
    the sweep is certified to return per run *)
From Coq Require Import QArith.
From GB Require Import NumQ Cert Slab Scene BoxRegion BoxShortcut.
Theorem C09_shortcut_returns_named_region :
  forall cfg fuel (A B : list (FillQueue.polygon NQ)) (op : operation) (ra rb : list qpolygon),
  c_noshort cfg = false ->
  mpoly_q NQ conv_Q A = Some ra -> mpoly_q NQ conv_Q B = Some rb ->
  vertices_are_starts A -> vertices_are_starts B ->
  boxes_disjoint (f_sbbox (fill_queue A B op)) (f_cbbox (fill_queue A B op)) = true ->
  exists R r,
    boolean_operation cfg fuel A B op = Ok R /\ mpoly_q NQ conv_Q R = Some r /\
    forall p,
      inside_mpoly ra p = inside_eo (rings_of ra) p -> inside_mpoly rb p = inside_eo (rings_of rb) p ->
      inside_mpoly r p = sem_op (bop_of op) (inside_eo (rings_of ra) p) (inside_eo (rings_of rb) p).
Proof. exact shortcut_returns_named_region. Qed.

(** regions of operands inside disjoint boxes are disjoint: no point is in both *)
Theorem C09_disjoint_boxes_disjoint_regions :
  forall (a b : list Slab.ring) (a0 b0 a1 b1 c0 d0 c1 d1 : Q),
  (forall r v, In r a -> In v r -> in_box a0 b0 a1 b1 v) ->
  (forall r v, In r b -> In v r -> in_box c0 d0 c1 d1 v) ->
  (c1 < a0 \/ a1 < c0 \/ d1 < b0 \/ b1 < d0)%Q ->
  forall p, (inside_eo a p && inside_eo b p)%bool = false.
Proof. exact disjoint_boxes_disjoint_regions. Qed.

(** the early termination: right of min(max x) no point belongs to the intersection, right of
    the subject's box no point belongs to the difference (whatever the sweep has not looked at
    there cannot matter) *)
Theorem C09_nothing_right_of_bound_intersection :
  forall (a b : list Slab.ring) (a0 b0 a1 b1 c0 d0 c1 d1 : Q) (p : Slab.qpt),
  (forall r v, In r a -> In v r -> in_box a0 b0 a1 b1 v) ->
  (forall r v, In r b -> In v r -> in_box c0 d0 c1 d1 v) ->
  (a1 < Slab.qx p \/ c1 < Slab.qx p)%Q ->
  (inside_eo a p && inside_eo b p)%bool = false.
Proof. exact nothing_right_of_bound_intersection. Qed.

Theorem C09_nothing_right_of_bound_difference :
  forall (a b : list Slab.ring) (a0 b0 a1 b1 : Q) (p : Slab.qpt),
  (forall r v, In r a -> In v r -> in_box a0 b0 a1 b1 v) ->
  (a1 < Slab.qx p)%Q -> (inside_eo a p && negb (inside_eo b p))%bool = false.
Proof. exact nothing_right_of_bound_difference. Qed.

(** "results agree whether or not the bounding-box shortcut is taken" is a statement about the
    region: the even-odd region of a set of rings depends only on the multiset of its edges, so a
    hole that touches its exterior in a vertex denotes the same region as a ring of its own (the
    shortcut returns the operand as given) and threaded into the exterior ring through that vertex
    (the sweep's contour stage).  The run-time comparison of the two results is therefore made on
    boundaries, not on rings (DESIGN 14.2 (ix)). *)
From Coq Require Import Permutation.
From GB Require Import BoundaryRegion.
Theorem C09_region_depends_on_edges_only :
  forall rs1 rs2 : list Slab.ring,
  Permutation (flat_map Slab.ring_edges rs1) (flat_map Slab.ring_edges rs2) ->
  forall p, Slab.inside_eo rs1 p = Slab.inside_eo rs2 p.
Proof. exact eo_depends_on_edges_only. Qed.

Theorem C09_thread_unfold :
  forall e0 pre v h post, thread e0 pre v h post = e0 :: pre ++ v :: h ++ v :: post.
Proof. exact (fun e0 pre v h post => eq_refl). Qed.

Theorem C09_threaded_hole_same_region :
  forall (e0 : Slab.qpt) (pre : list Slab.qpt) (v : Slab.qpt) (h post : list Slab.qpt) (rs : list Slab.ring) p,
  Slab.inside_eo (thread e0 pre v h post :: rs) p
  = Slab.inside_eo ((e0 :: pre ++ v :: post) :: (v :: h) :: rs) p.
Proof. exact threaded_ring_same_region. Qed.

(** cutting an edge at a point strictly inside it (the sweep does that to an edge another ring's
    vertex touches) changes no crossing count, hence not the region: the canonical boundaries
    compared at run time have collinear runs merged *)
From GB Require Import BoundarySplit.
Import ListNotations.
Theorem C09_cut_edge_same_crossings :
  forall a m b : Slab.qpt,
  Slab.qx a < Slab.qx m -> Slab.qx m < Slab.qx b ->
  (Slab.qy m - Slab.qy a) * (Slab.qx b - Slab.qx a) == (Slab.qy b - Slab.qy a) * (Slab.qx m - Slab.qx a) ->
  forall p, Slab.crossings [Slab.mk_edge a b] p = Slab.crossings [Slab.mk_edge a m; Slab.mk_edge m b] p.
Proof. exact split_edge_crossings. Qed.

From GB Require Import BoundarySplitRing.
Theorem C09_between_unfold :
  forall a m b : Slab.qpt,
  (between_x a m b <-> (Slab.qx a < Slab.qx m /\ Slab.qx m < Slab.qx b) \/ (Slab.qx b < Slab.qx m /\ Slab.qx m < Slab.qx a))
  /\ (on_line a m b <-> (Slab.qy m - Slab.qy a) * (Slab.qx b - Slab.qx a) == (Slab.qy b - Slab.qy a) * (Slab.qx m - Slab.qx a)).
Proof. exact (fun a m b => conj (conj (fun H => H) (fun H => H)) (conj (fun H => H) (fun H => H))). Qed.

(** ring level: an extra vertex strictly inside an edge of a result ring, in either direction of
    travel, leaves the region as it is *)
Theorem C09_extra_vertex_on_an_edge_same_region :
  forall (e0 : Slab.qpt) (pre : list Slab.qpt) (a m b : Slab.qpt) (post : list Slab.qpt) (rs : list Slab.ring),
  between_x a m b -> on_line a m b ->
  forall p, Slab.inside_eo ((e0 :: pre ++ a :: m :: b :: post) :: rs) p
          = Slab.inside_eo ((e0 :: pre ++ a :: b :: post) :: rs) p.
Proof. exact extra_vertex_same_region. Qed.
