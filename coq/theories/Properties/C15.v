(** C15 — the event order and the segment order are consistent orderings.
    Only statements closed by [exact]. *)
From Coq Require Import List Permutation.
From GB Require Import Num Event Cmp Outcome Connect SortProofs.

(** the event order never answers Equal, for any two events of any store, on any instance *)
Theorem C15_event_order_never_equal :
  forall (N : Num) (st : store N) (a b : eid), cmp_events st a b <> Eq.
Proof.
  exact (fun N st a b =>
    ltac:(unfold cmp_events, less_if;
          repeat match goal with
                 | |- context [if ?c then _ else _] => destruct c
                 | |- context [match ?c with Some _ => _ | None => _ end] => destruct c
                 end; discriminate)).
Qed.

(** the segment order answers Equal for the identical segment *)
Theorem C15_segment_order_refl :
  forall (N : Num) (st : store N) (a : eid), compare_segments st a a = Eq.
Proof. exact (fun N st a => ltac:(unfold compare_segments; rewrite BinPos.Pos.eqb_refl; reflexivity)). Qed.

(** consumers: asymmetry of the event order on the events being sorted is what makes the
    bubble sort of order_events terminate with a sorted permutation *)
Theorem C15_consistent_order_sorts :
  forall (N : Num) (st : store N) (fuel : nat) (l : list eid),
  (forall a b, In a l -> In b l -> ev_lt st a b = true -> ev_lt st b a = false) ->
  inv (ev_lt st) l <= fuel ->
  exists l', bubble_sort fuel st l = Ok l' /\ Permutation l l' /\ desc (ev_lt st) l'.
Proof. exact bubble_sort_terminates_asym. Qed.

From GB Require Import NumLaws EventOrder.

(** "by x, then y, then right-before-left": for every instance whose coordinate comparisons
    satisfy the order laws ([Gt] = processed earlier) *)
Theorem C15_by_x :
  forall (N : Num) (L : NumLaws N) (st : store N) (a b : eid),
  okev N L st a -> okev N L st b ->
  ltX N (px (e_point (getE st a))) (px (e_point (getE st b))) = true ->
  cmp_events st a b = Gt /\ cmp_events st b a = Lt.
Proof. exact cmp_events_by_x. Qed.

Theorem C15_by_y :
  forall (N : Num) (L : NumLaws N) (st : store N) (a b : eid),
  okev N L st a -> okev N L st b ->
  ltX N (px (e_point (getE st a))) (px (e_point (getE st b))) = false ->
  ltX N (px (e_point (getE st b))) (px (e_point (getE st a))) = false ->
  ltY N (py (e_point (getE st a))) (py (e_point (getE st b))) = true ->
  cmp_events st a b = Gt /\ cmp_events st b a = Lt.
Proof. exact cmp_events_by_y. Qed.

Theorem C15_right_before_left :
  forall (N : Num) (st : store N) (a b : eid),
  ltX N (px (e_point (getE st a))) (px (e_point (getE st b))) = false ->
  ltX N (px (e_point (getE st b))) (px (e_point (getE st a))) = false ->
  ltY N (py (e_point (getE st a))) (py (e_point (getE st b))) = false ->
  ltY N (py (e_point (getE st b))) (py (e_point (getE st a))) = false ->
  e_left (getE st a) = false -> e_left (getE st b) = true ->
  cmp_events st a b = Gt /\ cmp_events st b a = Lt.
Proof. exact cmp_events_right_before_left. Qed.

(** "then angular", exact instance: two events at one point with equal left flags whose
    partners are not collinear with the point are ordered antisymmetrically by orientation;
    collinear partners of different operands by the operand; collinear partners of ONE
    operand are the only gap (not a valid input) *)
From Coq Require Import QArith.
From GB Require Import NumQ EventOrderQ.

Theorem C15_angular_antisym :
  forall (st : store NQ) (a b oa ob : eid) (xa ya xb yb oax oay obx oby : Q),
  e_point (getE st a) = mkPt NQ (QF xa) (QF ya) -> e_point (getE st b) = mkPt NQ (QF xb) (QF yb) ->
  xa == xb -> ya == yb ->
  e_other (getE st a) = Some oa -> e_other (getE st b) = Some ob ->
  e_point (getE st oa) = mkPt NQ (QF oax) (QF oay) -> e_point (getE st ob) = mkPt NQ (QF obx) (QF oby) ->
  e_left (getE st a) = e_left (getE st b) ->
  qx_orient (QF xa) (QF ya) (QF oax) (QF oay) (QF obx) (QF oby) <> Eq ->
  cmp_events st b a = CompOpp (cmp_events st a b).
Proof. exact cmp_events_angular_antisym. Qed.

Theorem C15_collinear_antisym :
  forall (st : store NQ) (a b oa ob : eid) (xa ya xb yb oax oay obx oby : Q),
  e_point (getE st a) = mkPt NQ (QF xa) (QF ya) -> e_point (getE st b) = mkPt NQ (QF xb) (QF yb) ->
  xa == xb -> ya == yb ->
  e_other (getE st a) = Some oa -> e_other (getE st b) = Some ob ->
  e_point (getE st oa) = mkPt NQ (QF oax) (QF oay) -> e_point (getE st ob) = mkPt NQ (QF obx) (QF oby) ->
  e_left (getE st a) = e_left (getE st b) ->
  qx_orient (QF xa) (QF ya) (QF oax) (QF oay) (QF obx) (QF oby) = Eq ->
  e_is_subject (getE st a) <> e_is_subject (getE st b) ->
  cmp_events st b a = CompOpp (cmp_events st a b).
Proof. exact cmp_events_collinear_antisym. Qed.

Theorem C15_only_gap :
  forall (st : store NQ) (a b oa ob : eid) (xa ya xb yb oax oay obx oby : Q),
  e_point (getE st a) = mkPt NQ (QF xa) (QF ya) -> e_point (getE st b) = mkPt NQ (QF xb) (QF yb) ->
  xa == xb -> ya == yb ->
  e_other (getE st a) = Some oa -> e_other (getE st b) = Some ob ->
  e_point (getE st oa) = mkPt NQ (QF oax) (QF oay) -> e_point (getE st ob) = mkPt NQ (QF obx) (QF oby) ->
  e_left (getE st a) = e_left (getE st b) ->
  qx_orient (QF xa) (QF ya) (QF oax) (QF oay) (QF obx) (QF oby) = Eq ->
  e_is_subject (getE st a) = e_is_subject (getE st b) ->
  cmp_events st a b = Gt /\ cmp_events st b a = Gt.
Proof. exact cmp_events_gap. Qed.

(** the segment order, every instance: Equal exactly for the identical segment; antisymmetric
    as soon as the event order decides which of the two left events comes first *)
From GB Require Import SegOrder.
Theorem C15_segment_order_equal_iff_same :
  forall (N : Num) (st : store N) (a b : eid), compare_segments st a b = Eq <-> a = b.
Proof. exact compare_segments_eq_iff. Qed.

Theorem C15_segment_order_antisym :
  forall (N : Num) (st : store N) (a b : eid),
  a <> b -> is_before st b a = negb (is_before st a b) ->
  compare_segments st b a = CompOpp (compare_segments st a b).
Proof. exact compare_segments_antisym. Qed.

(** the lexicographic structure for the bit-exact binary64 model (order laws: NumLawsB) *)
From Coq Require Import ZArith.
From GB Require Import NumB NumLawsB.
Theorem C15_by_x_f64 :
  forall (st : store NB64) (a b : eid),
  okev NB64 (NB_laws 53 1024) st a -> okev NB64 (NB_laws 53 1024) st b ->
  ltX NB64 (px (e_point (getE st a))) (px (e_point (getE st b))) = true ->
  cmp_events st a b = Gt /\ cmp_events st b a = Lt.
Proof. exact (@cmp_events_by_x NB64 (NB_laws 53 1024)). Qed.
Theorem C15_by_y_f64 :
  forall (st : store NB64) (a b : eid),
  okev NB64 (NB_laws 53 1024) st a -> okev NB64 (NB_laws 53 1024) st b ->
  ltX NB64 (px (e_point (getE st a))) (px (e_point (getE st b))) = false ->
  ltX NB64 (px (e_point (getE st b))) (px (e_point (getE st a))) = false ->
  ltY NB64 (py (e_point (getE st a))) (py (e_point (getE st b))) = true ->
  cmp_events st a b = Gt /\ cmp_events st b a = Lt.
Proof. exact (@cmp_events_by_y NB64 (NB_laws 53 1024)). Qed.

(** transitivity of the event order, exact instance ([Lt] = processed later): (i) whenever one
    of the two steps is decided by the key (x, y, right-before-left); (ii) for three left
    events at one point whose partners are later points (C13: left event first), pairwise not
    collinear with the point.  Not covered: chains through collinear partners (the fallback by
    operand) and right events in the angular case (symmetric, not written out). *)
From GB Require Import EventOrderTrans.
Theorem C15_transitive_through_key :
  forall (st : store NQ) (a b c : eid) (xa ya xb yb xc yc : Q),
  has_pt st a xa ya -> has_pt st b xb yb -> has_pt st c xc yc ->
  cmp_events st a b = Lt -> cmp_events st b c = Lt ->
  (kcmp xa ya (e_left (getE st a)) xb yb (e_left (getE st b)) <> Eq
   \/ kcmp xb yb (e_left (getE st b)) xc yc (e_left (getE st c)) <> Eq) ->
  cmp_events st a c = Lt.
Proof. exact cmp_events_trans_key. Qed.

Theorem C15_transitive_angular :
  forall (st : store NQ) (a b c oa ob oc : eid) (xa ya xb yb xc yc oax oay obx oby ocx ocy : Q),
  e_point (getE st a) = mkPt NQ (QF xa) (QF ya) -> e_point (getE st b) = mkPt NQ (QF xb) (QF yb) ->
  e_point (getE st c) = mkPt NQ (QF xc) (QF yc) ->
  xa == xb -> ya == yb -> xb == xc -> yb == yc ->
  e_other (getE st a) = Some oa -> e_other (getE st b) = Some ob -> e_other (getE st c) = Some oc ->
  e_point (getE st oa) = mkPt NQ (QF oax) (QF oay) -> e_point (getE st ob) = mkPt NQ (QF obx) (QF oby) ->
  e_point (getE st oc) = mkPt NQ (QF ocx) (QF ocy) ->
  e_left (getE st a) = true -> e_left (getE st b) = true -> e_left (getE st c) = true ->
  later xa ya oax oay -> later xb yb obx oby -> later xc yc ocx ocy ->
  ~ det xa ya oax oay obx oby == 0 -> ~ det xb yb obx oby ocx ocy == 0 ->
  cmp_events st a b = Lt -> cmp_events st b c = Lt -> cmp_events st a c = Lt.
Proof. exact cmp_events_trans_angular. Qed.

(** third clause: for two non-crossing, non-collinear segments with overlapping x-extent the
    segment order is the vertical order (exact instance; [old] = the segment whose left event
    comes first, not vertical; [NC]: no point in the relative interior of both is common; [HV]:
    when [new] is vertical the right end of [old] is not in its relative interior).  [P] is the
    point of [old] with parameter [s], [Q] the point of [new] with parameter [t], same abscissa:
    [Lt] ("old below new") implies P.y <= Q.y, [Gt] implies Q.y <= P.y. *)
From GB Require Import IntersectProofs SegOrderQ.
Theorem C15_segment_order_is_vertical_order :
  forall (st : store NQ) (old new oldr newr : eid) (olx oly orx ory nlx nly nrx nry : Q),
  e_other (getE st old) = Some oldr -> e_other (getE st new) = Some newr ->
  e_left (getE st old) = true ->
  e_point (getE st old) = fpt olx oly -> e_point (getE st oldr) = fpt orx ory ->
  e_point (getE st new) = fpt nlx nly -> e_point (getE st newr) = fpt nrx nry ->
  olx < orx -> nlx < nrx \/ nlx == nrx /\ nly < nry ->
  forall s t : Q,
  old <> new -> is_before st old new = true ->
  ~ (sa olx oly orx ory nlx nly == 0 /\ sb olx oly orx ory nrx nry == 0) ->
  NC olx oly orx ory nlx nly nrx nry -> HV orx ory nlx nly nrx nry ->
  0 <= s <= 1 -> 0 <= t <= 1 -> olx + s * (orx - olx) == nx nlx nrx t ->
  match compare_segments st old new with
  | Eq => False
  | Lt => oly + s * (ory - oly) <= ny nly nry t
  | Gt => ny nly nry t <= oly + s * (ory - oly)
  end.
Proof. exact compare_segments_vertical_order. Qed.

Theorem C15_segment_order_is_vertical_order_swapped :
  forall (st : store NQ) (old new oldr newr : eid) (olx oly orx ory nlx nly nrx nry : Q),
  e_other (getE st old) = Some oldr -> e_other (getE st new) = Some newr ->
  e_left (getE st old) = true ->
  e_point (getE st old) = fpt olx oly -> e_point (getE st oldr) = fpt orx ory ->
  e_point (getE st new) = fpt nlx nly -> e_point (getE st newr) = fpt nrx nry ->
  olx < orx -> nlx < nrx \/ nlx == nrx /\ nly < nry ->
  forall s t : Q,
  old <> new -> is_before st new old = false -> is_before st old new = true ->
  ~ (sa olx oly orx ory nlx nly == 0 /\ sb olx oly orx ory nrx nry == 0) ->
  NC olx oly orx ory nlx nly nrx nry -> HV orx ory nlx nly nrx nry ->
  0 <= s <= 1 -> 0 <= t <= 1 -> olx + s * (orx - olx) == nx nlx nrx t ->
  match compare_segments st new old with
  | Eq => False
  | Lt => ny nly nry t <= oly + s * (ory - oly)
  | Gt => oly + s * (ory - oly) <= ny nly nry t
  end.
Proof. exact compare_segments_vertical_order_swapped. Qed.

Theorem C15_vertical_order_example :
  compare_segments ex_store 1%positive 3%positive = Lt /\
  is_before ex_store 1%positive 3%positive = true /\
  ~ (sa 0 0 4 0 1 1 == 0 /\ sb 0 0 4 0 3 2 == 0) /\
  NC 0 0 4 0 1 1 3 2 /\ HV 4 0 1 1 3 2.
Proof. exact vertical_order_example. Qed.

(** on the sweep line the segment order is the order of heights (exact instance): for two
    non-vertical, non-collinear, non-crossing segments one of whose left events precedes the
    other in the event order, and an abscissa inside the x-extent of both at which their heights
    differ, [compare_segments] answers [Lt] exactly when the first is lower there ([Gt]: higher).
    So on a status line in general position the order is the strict total order of the heights
    at the sweep position — in particular transitive — whichever pairs are compared. *)
From GB Require Import StatusOrder.
Theorem C15_segment_order_is_height_order :
  forall (st : store NQ) (a b ar br : eid) (alx aly arx ary blx bly brx bry : Q),
  e_other (getE st a) = Some ar -> e_other (getE st b) = Some br ->
  e_left (getE st a) = true -> e_left (getE st b) = true ->
  e_point (getE st a) = fpt alx aly -> e_point (getE st ar) = fpt arx ary ->
  e_point (getE st b) = fpt blx bly -> e_point (getE st br) = fpt brx bry ->
  alx < arx -> blx < brx -> a <> b ->
  ~ (sa alx aly arx ary blx bly == 0 /\ sb alx aly arx ary brx bry == 0) ->
  ~ (sa blx bly brx bry alx aly == 0 /\ sb blx bly brx bry arx ary == 0) ->
  NC alx aly arx ary blx bly brx bry -> NC blx bly brx bry alx aly arx ary ->
  is_before st a b = true \/ is_before st b a = true ->
  forall s t : Q, 0 <= s <= 1 -> 0 <= t <= 1 ->
  alx + s * (arx - alx) == blx + t * (brx - blx) ->
  ~ aly + s * (ary - aly) == bly + t * (bry - bly) ->
  (compare_segments st a b = Lt <-> aly + s * (ary - aly) < bly + t * (bry - bly)) /\
  (compare_segments st a b = Gt <-> bly + t * (bry - bly) < aly + s * (ary - aly)).
Proof.
  exact (fun st a b ar br alx aly arx ary blx bly brx bry Oa Ob La Lb Pal Par Pbl Pbr Ha Hb Hab N1 N2 C1 C2 Ho s t Hs Ht Hx Hd =>
    conj (compare_segments_by_height st a b ar br alx aly arx ary blx bly brx bry Oa Ob La Lb Pal Par Pbl Pbr Ha Hb Hab N1 N2 C1 C2 Ho s t Hs Ht Hx Hd)
         (compare_segments_by_height_gt st a b ar br alx aly arx ary blx bly brx bry Oa Ob La Lb Pal Par Pbl Pbr Ha Hb Hab N1 N2 C1 C2 Ho s t Hs Ht Hx Hd)).
Qed.

(** ** first clause in full, exact instance: on the events of a valid input — operands with
    finite coordinates none of whose edges overlaps another edge of the same operand
    ([simple_edges]) — in the store the sweep returns, "is processed later than"
    ([cmp_events = Lt]) is a STRICT TOTAL ORDER: irreflexive, total and antisymmetric (never
    [Eq] for distinct events; the gap of [C15_only_gap] cannot occur because the two
    sub-segments would overlap), and transitive, also through collinear partners and for right
    events.  Store-level statements first, operand-level corollaries after. *)
From GB Require Import LinkProofs OnEdge OnEdgeFull SameOperand EventOrderValid EventOrderTransValid.
Theorem C15_event_order_antisymmetric_on_valid_store :
  forall (edges : list edge) (st : store NQ),
  einv2 edges st -> disj st -> linked NQ st ->
  forall a b, mapped NQ st a -> mapped NQ st b -> a <> b ->
  cmp_events st b a = CompOpp (cmp_events st a b).
Proof. exact cmp_events_antisym_valid. Qed.

Theorem C15_event_order_transitive_on_valid_store :
  forall (edges : list edge) (st : store NQ),
  einv2 edges st -> linked NQ st ->
  forall a b c, mapped NQ st a -> mapped NQ st b -> mapped NQ st c ->
  cmp_events st a b = Lt -> cmp_events st b c = Lt -> cmp_events st a c = Lt.
Proof. exact cmp_events_trans_valid. Qed.

From Coq Require Import List.
From GB Require Import Outcome FillQueue Subdivide Coverage ExactOrder.
Theorem C15_event_order_strict_total_on_valid_input :
  forall cfg fuel (A B : list (polygon NQ)) op (st : store NQ) (sorted : list eid) (n : nat),
  (forall P, In P A -> finite_poly P) -> (forall P, In P B -> finite_poly P) ->
  simple_edges (ops_edges A B) ->
  subdivide cfg fuel (fill_queue A B op) op = Ok (st, sorted, n) ->
  let lt a b := cmp_events st a b = Lt in
  ((forall a, mapped NQ st a -> ~ lt a a) /\
   (forall a b, mapped NQ st a -> mapped NQ st b -> a <> b -> (lt a b /\ ~ lt b a) \/ (lt b a /\ ~ lt a b)) /\
   (forall a b c, mapped NQ st a -> mapped NQ st b -> mapped NQ st c -> lt a b -> lt b c -> lt a c))%type.
Proof. exact event_order_strict_total_on_valid_input. Qed.

(** second clause, antisymmetry of the segment order, on a valid input *)
Theorem C15_segment_order_antisymmetric_on_valid_input :
  forall cfg fuel (A B : list (polygon NQ)) op (st : store NQ) (sorted : list eid) (n : nat),
  (forall P, In P A -> finite_poly P) -> (forall P, In P B -> finite_poly P) ->
  simple_edges (ops_edges A B) ->
  subdivide cfg fuel (fill_queue A B op) op = Ok (st, sorted, n) ->
  forall a b, mapped NQ st a -> mapped NQ st b -> a <> b ->
  compare_segments st b a = CompOpp (compare_segments st a b) /\ compare_segments st a b <> Eq.
Proof. exact segment_order_antisymmetric_on_valid_input. Qed.

(** the hypotheses are met by the F2 witness (T-junction of two parts of one operand) *)
From GB Require Import Cert ExactSweep.
Theorem C15_valid_input_example :
  (forall P, In P F2_A -> finite_poly P) /\ (forall P, In P F2_B -> finite_poly P) /\
  simple_edges (ops_edges F2_A F2_B) /\
  (match subdivide release 3000 (fill_queue F2_A F2_B Union) Union with Ok (_, sorted, _) => Nat.ltb 0 (length sorted) | _ => false end) = true.
Proof. exact valid_input_example. Qed.

(** the event order is STABLE under subdivision, exact instance: dividing a sub-segment at a
    point strictly inside it (in a store with the on-edge invariant) changes the answer of no
    comparison between events that exist — the partner points of the two ends move along their
    rays, and the order looks at partner points only through orientations taken at the event's
    own point.  So the priority queue and the bubble sort of the contour stage see ONE order from
    the beginning to the end of the sweep. *)
From GB Require Import OrderStable.
Theorem C15_event_order_stable_under_subdivision :
  forall (edges : list edge) (cfg : Outcome.config) (s s' : Divide.sq NQ) (T Tr : eid) (lx ly rx ry ix iy : Q),
  sqinv NQ s -> einv2 edges (Divide.sq_st s) -> mapped NQ (Divide.sq_st s) T ->
  e_other (getE (Divide.sq_st s) T) = Some Tr -> e_left (getE (Divide.sq_st s) T) = true ->
  e_point (getE (Divide.sq_st s) T) = fpt lx ly -> e_point (getE (Divide.sq_st s) Tr) = fpt rx ry ->
  strictly_inside lx ly rx ry ix iy ->
  Divide.divide_segment cfg s T (fpt ix iy) = Outcome.Ok s' ->
  forall a b, mapped NQ (Divide.sq_st s) a -> mapped NQ (Divide.sq_st s) b ->
  cmp_events (Divide.sq_st s') a b = cmp_events (Divide.sq_st s) a b.
Proof. exact divide_keeps_event_order. Qed.

(** ... the intersection step (all arms: edge-type updates and divisions strictly inside) and the
    flag computation keep it too, and so does the whole sweep: the order among the events that
    [fill_queue] created is the same in the store the sweep returns *)
From GB Require Import StepOrderStable FillQueue Subdivide Coverage.
Theorem C15_step_keeps_event_order :
  forall (edges : list edge) (cfg : Outcome.config) (s : Divide.sq NQ) (se1 se2 : eid),
  sqinv NQ s -> einv2 edges (Divide.sq_st s) -> mapped NQ (Divide.sq_st s) se1 -> mapped NQ (Divide.sq_st s) se2 ->
  e_left (getE (Divide.sq_st s) se1) = true -> e_left (getE (Divide.sq_st s) se2) = true ->
  match Divide.possible_intersection cfg s se1 se2 with
  | Outcome.Ok (s', _) =>
      einv2 edges (Divide.sq_st s') /\
      (forall k, mapped NQ (Divide.sq_st s) k -> e_left (getE (Divide.sq_st s') k) = e_left (getE (Divide.sq_st s) k)) /\
      (forall a b, mapped NQ (Divide.sq_st s) a -> mapped NQ (Divide.sq_st s) b ->
         cmp_events (Divide.sq_st s') a b = cmp_events (Divide.sq_st s) a b)
  | _ => True
  end.
Proof. exact possible_intersection_pe5. Qed.

Theorem C15_flag_computation_keeps_event_order :
  forall (cfg : Outcome.config) (st : store NQ) ev mp op a b,
  cmp_events (Fields.compute_fields cfg st ev mp op) a b = cmp_events st a b.
Proof. exact compute_fields_cmp. Qed.

Theorem C15_sweep_keeps_event_order :
  forall cfg fuel (A B : list (polygon NQ)) op (st : store NQ) (sorted : list eid) (n : nat),
  (forall P, In P A -> finite_poly P) -> (forall P, In P B -> finite_poly P) ->
  subdivide cfg fuel (fill_queue A B op) op = Outcome.Ok (st, sorted, n) ->
  forall a b, mapped NQ (f_st (fill_queue A B op)) a -> mapped NQ (f_st (fill_queue A B op)) b ->
  cmp_events st a b = cmp_events (f_st (fill_queue A B op)) a b.
Proof. exact subdivide_keeps_event_order. Qed.
