(** C15 — the event order and the segment order are consistent orderings.
    Only statements closed by [exact]. *)
From Coq Require Import List Permutation.
From GB Require Import Num Event Cmp Outcome Connect SortProofs.

(** the event order never answers Equal, for any two events of any store, on any instance *)
Theorem C15_event_order_never_equal :
  forall (N : Num) (st : store N) (a b : eid), cmp_events st a b <> Eq.
Proof.
  exact (fun N st a b =>
    ltac:(unfold cmp_events, less_if;
          repeat match goal with
                 | |- context [if ?c then _ else _] => destruct c
                 | |- context [match ?c with Some _ => _ | None => _ end] => destruct c
                 end; discriminate)).
Qed.

(** the segment order answers Equal for the identical segment *)
Theorem C15_segment_order_refl :
  forall (N : Num) (st : store N) (a : eid), compare_segments st a a = Eq.
Proof. exact (fun N st a => ltac:(unfold compare_segments; rewrite BinPos.Pos.eqb_refl; reflexivity)). Qed.

(** consumers: asymmetry of the event order on the events being sorted is what makes the
    bubble sort of order_events terminate with a sorted permutation *)
Theorem C15_consistent_order_sorts :
  forall (N : Num) (st : store N) (fuel : nat) (l : list eid),
  (forall a b, In a l -> In b l -> ev_lt st a b = true -> ev_lt st b a = false) ->
  inv (ev_lt st) l <= fuel ->
  exists l', bubble_sort fuel st l = Ok l' /\ Permutation l l' /\ desc (ev_lt st) l'.
Proof. exact bubble_sort_terminates_asym. Qed.
