(** C10 — region laws between the results of related calls are decided, for every point of
    the plane, by the verified scene checker.  Only statements closed by [exact]. *)
From Coq Require Import QArith List Bool.
From GB Require Import Slab Scene SlabProofs.

Theorem C10_law_checker_sound :
  forall (sc : scene) (l : law), check_scene sc l = true ->
  forall p, scene_clear sc p -> eval_law l (member sc p) = true.
Proof. exact check_scene_sound. Qed.

From Coq Require Import ZArith.
From GB Require Import Num NumQ NumB Event Outcome FillQueue BoolOp Cert ExactLink.

(** the second clause: instantiations that are both in the exact class on an input (their
    result, converted exactly, coincides with the exact instance's result) agree with each
    other coordinate for coordinate *)
Theorem C10_exact_agree :
  forall cfg fuel op
    (A32 B32 : list (FillQueue.polygon NB32)) (A64 B64 : list (FillQueue.polygon NB64))
    (AQ BQ : list (FillQueue.polygon NQ)),
  exact_run NB32 (conv_B 24 128) cfg fuel A32 B32 AQ BQ op ->
  exact_run NB64 (conv_B 53 1024) cfg fuel A64 B64 AQ BQ op ->
  res_eqv (qres NB32 (conv_B 24 128) cfg fuel A32 B32 op) (qres NB64 (conv_B 53 1024) cfg fuel A64 B64 op).
Proof. exact exact_agree. Qed.

(** non-vacuity: a run through the sweep (T-junction on a vertical edge) is in the exact
    class of both instantiations — evaluated on the bit-exact binary32 / binary64 models *)
Example C10_exact_class_inhabited :
  match qres NB64 (conv_B 53 1024) release 1000 (F2_Af 53 1024) (F2_Bf 53 1024) Union,
        qres NB32 (conv_B 24 128) release 1000 (F2_Af 24 128) (F2_Bf 24 128) Union,
        qres NQ conv_Q release 1000 F2_A F2_B Union with
  | Some r64, Some r32, Some rq => (mp_eqvb r64 rq && mp_eqvb r32 rq && Nat.eqb (length rq) 2)%bool
  | _, _, _ => false
  end = true.
Proof. exact F2_union_exact_class_computed. Qed.
