(** C10 — region laws between the results of related calls are decided, for every point of
    the plane, by the verified scene checker.  Only statements closed by [exact]. *)
From Coq Require Import QArith List Bool.
From GB Require Import Slab Scene SlabProofs.

Theorem C10_law_checker_sound :
  forall (sc : scene) (l : law), check_scene sc l = true ->
  forall p, scene_clear sc p -> eval_law l (member sc p) = true.
Proof. exact check_scene_sound. Qed.
