(** C01 — each operation returns exactly the set-theoretic region it names.
    Only statements closed by [exact], pins and [Print Assumptions]. *)
From Coq Require Import QArith List Bool.
From GB Require Import Slab Scene SlabProofs.

(** the exact checker is sound for every operand pair, operation and result: if it answers
    [true], the polygon reading of the result equals the operation applied to the even-odd
    readings of the operands at EVERY point that lies on no edge *)
Theorem C01_checker_sound :
  forall (A B : list ring) (o : bop) (R : list qpolygon),
  cert01 A B o R = true ->
  forall p, clear01 A B R p -> inside_mpoly R p = sem_op o (inside_eo A p) (inside_eo B p).
Proof. exact cert01_sound. Qed.

Theorem C01_scene_checker_sound :
  forall (sc : scene) (l : law), check_scene sc l = true ->
  forall p, scene_clear sc p -> eval_law l (member sc p) = true.
Proof. exact check_scene_sound. Qed.

(** what "clear" means: on no edge of A, B or R (half-open rule) *)
Theorem C01_clear_is_off_all_edges :
  forall A B R p, clear01 A B R p <->
  (forall e, In e (flat_map ring_edges A ++ flat_map ring_edges B ++ flat_map ring_edges (rings_of R)) ->
             on_edge e p = false).
Proof. exact clear01_iff. Qed.
