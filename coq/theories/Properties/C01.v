(** C01 — each operation returns exactly the set-theoretic region it names.
    Only statements closed by [exact], pins and [Print Assumptions]. *)
From Coq Require Import QArith List Bool.
From GB Require Import Slab Scene SlabProofs.

(** the exact checker is sound for every operand pair, operation and result: if it answers
    [true], the polygon reading of the result equals the operation applied to the even-odd
    readings of the operands at EVERY point that lies on no edge *)
Theorem C01_checker_sound :
  forall (A B : list ring) (o : bop) (R : list qpolygon),
  cert01 A B o R = true ->
  forall p, clear01 A B R p -> inside_mpoly R p = sem_op o (inside_eo A p) (inside_eo B p).
Proof. exact cert01_sound. Qed.

Theorem C01_scene_checker_sound :
  forall (sc : scene) (l : law), check_scene sc l = true ->
  forall p, scene_clear sc p -> eval_law l (member sc p) = true.
Proof. exact check_scene_sound. Qed.

(** what "clear" means: on no edge of A, B or R (half-open rule) *)
Theorem C01_clear_is_off_all_edges :
  forall A B R p, clear01 A B R p <->
  (forall e, In e (flat_map ring_edges A ++ flat_map ring_edges B ++ flat_map ring_edges (rings_of R)) ->
             on_edge e p = false).
Proof. exact clear01_iff. Qed.

(** ** per-run certificate: a run whose (decidable) certificate holds returned exactly the
    named region, for every point — instance-generic (used at the exact instance and at
    the two floating-point instances) *)
From GB Require Import Num Event Outcome FillQueue BoolOp Cert FieldsProofs.

Theorem C01_partial_certified_run :
  forall (N : Num) (conv : pt N -> option qpt) cfg fuel (A B : list (FillQueue.polygon N)) o,
  cert01_run N conv cfg fuel A B o = true -> C01_at N conv cfg fuel A B o.
Proof. exact C01_partial. Qed.

(** ** the local rules the sweep rests on, for every numeric instance *)
Theorem C01_tables_correct :
  forall (N : Num) (cfg : config) (e : event N) (o : operation),
  c_f1 cfg = true -> table cfg e o = expected e o.
Proof. exact tables_correct. Qed.

Theorem C01_propagation_correct :
  forall (N : Num) (cfg : config) (st : store N) (ev prev : eid) (o : operation),
  c_f2 cfg = true -> ev <> prev ->
  flags_after cfg st ev (Some prev) o =
  expected_in_out (Bool.eqb (e_is_subject (getE st ev)) (e_is_subject (getE st prev)))
                  (Cmp.is_vertical st prev) (getE st prev).
Proof. exact propagation_correct. Qed.

Theorem C01_propagation_first :
  forall (N : Num) (cfg : config) (st : store N) (ev : eid) (o : operation),
  flags_after cfg st ev None o = (false, true).
Proof. exact propagation_first. Qed.

(** the pinned code violates both rules (defects F1 and F2, repaired in /repo) *)
Theorem C01_pinned_tables_refuted :
  forall N : Num, exists (e : event N) (o : operation), table pinned e o <> expected e o.
Proof. exact tables_pinned_wrong. Qed.

Theorem C01_F2_witness_refuted :
  cert01_run NumQ.NQ conv_Q pinned 1000 F2_A F2_B Intersection = false
  /\ (exists R, boolean_operation pinned 1000 F2_A F2_B Intersection = Ok R /\ length R = 1%nat).
Proof. exact F2_refuted. Qed.

Theorem C01_F2_witness_repaired :
  cert01_run NumQ.NQ conv_Q release 1000 F2_A F2_B Intersection = true
  /\ boolean_operation release 1000 F2_A F2_B Intersection = Ok nil.
Proof. exact F2_repaired. Qed.

(** ** the full statement on the domain of the bounding-box shortcut (exact instance): for
    operands with rational coordinates, closed rings without repeated consecutive vertices
    ([closed_rings_vertices_are_starts]) and whose polygon reading is their even-odd reading
    at [p], disjoint boxes give — for every configuration with the shortcut enabled and every
    event budget — a result that is exactly the named region at EVERY point [p] of the plane *)
From GB Require Import NumQ TrivialProofs BoxRegion BoxShortcut.

Theorem C01_shortcut_returns_named_region :
  forall cfg fuel (A B : list (FillQueue.polygon NQ)) (op : operation) (ra rb : list qpolygon),
  c_noshort cfg = false ->
  mpoly_q NQ conv_Q A = Some ra -> mpoly_q NQ conv_Q B = Some rb ->
  vertices_are_starts A -> vertices_are_starts B ->
  boxes_disjoint (f_sbbox (fill_queue A B op)) (f_cbbox (fill_queue A B op)) = true ->
  exists R r,
    boolean_operation cfg fuel A B op = Ok R /\ mpoly_q NQ conv_Q R = Some r /\
    forall p,
      inside_mpoly ra p = inside_eo (rings_of ra) p -> inside_mpoly rb p = inside_eo (rings_of rb) p ->
      inside_mpoly r p = sem_op (bop_of op) (inside_eo (rings_of ra) p) (inside_eo (rings_of rb) p).
Proof. exact shortcut_returns_named_region. Qed.

Theorem C01_closed_rings_vertices_are_starts :
  forall A : list (FillQueue.polygon NQ), Forall polygon_ok A -> vertices_are_starts A.
Proof. exact closed_rings_vertices_are_starts. Qed.

(** the geometric core: a point outside the bounding box of the vertices of a set of rings is
    outside their even-odd region (closed rings have an even number of edges over any abscissa) *)
Theorem C01_outside_box_outside_region :
  forall (rs : list Slab.ring) (x0 y0 x1 y1 : Q) (p : Slab.qpt),
  (forall r v, In r rs -> In v r -> in_box x0 y0 x1 y1 v) ->
  ~ in_box x0 y0 x1 y1 p -> inside_eo rs p = false.
Proof. exact outside_box_outside_region. Qed.

Example C01_shortcut_example :
  Forall polygon_ok (sqA :: nil) /\ Forall polygon_ok (sqB :: nil) /\
  boxes_disjoint (f_sbbox (fill_queue (sqA :: nil) (sqB :: nil) Union)) (f_cbbox (fill_queue (sqA :: nil) (sqB :: nil) Union)) = true /\
  exists ra rb, mpoly_q NQ conv_Q (sqA :: nil) = Some ra /\ mpoly_q NQ conv_Q (sqB :: nil) = Some rb.
Proof. exact shortcut_example. Qed.
