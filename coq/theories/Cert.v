(** * Per-run certificates: the verified region checker applied to the model's own run.
    [C01_partial]: whenever the (decidable) certificate of a run holds, the run returned
    exactly the named region at every point of the plane; likewise C02's reading clause. *)
From Coq Require Import Bool List ZArith QArith Floats.SpecFloat.
From GB Require Import Num NumQ NumB Event Outcome FillQueue BoolOp Slab Scene SlabProofs Convert.
Import ListNotations.

Definition bop_of (o : operation) : bop :=
  match o with Intersection => BInter | Union => BUnion | Difference => BDiff | Xor => BXor end.

(** sequence an option over a list *)
Fixpoint omap {A B : Type} (f : A -> option B) (l : list A) : option (list B) :=
  match l with
  | [] => Some []
  | x :: tl =>
      match f x, omap f tl with
      | Some y, Some ys => Some (y :: ys)
      | _, _ => None
      end
  end.

Section Conv.
Variable N : Num.
Variable conv : pt N -> option qpt.

Definition ring_q (r : FillQueue.ring N) : option Slab.ring := omap conv r.
Definition polygon_rings_q (p : FillQueue.polygon N) : option (list Slab.ring) :=
  omap ring_q (exterior p :: interiors p).
Definition operand_rings_q (ps : list (FillQueue.polygon N)) : option (list Slab.ring) :=
  match omap polygon_rings_q ps with Some l => Some (concat l) | None => None end.
Definition polygon_q (p : FillQueue.polygon N) : option qpolygon :=
  match ring_q (exterior p), omap ring_q (interiors p) with
  | Some e, Some hs => Some (mkQPoly e hs)
  | _, _ => None
  end.
Definition mpoly_q (ps : list (FillQueue.polygon N)) : option (list qpolygon) := omap polygon_q ps.

(** the certificate of one run of the model: [cert01] on its own output *)
Definition cert01_run (cfg : config) (fuel : nat) (A B : list (FillQueue.polygon N)) (o : operation) : bool :=
  match boolean_operation cfg fuel A B o, operand_rings_q A, operand_rings_q B with
  | Ok R, Some a, Some b =>
      match mpoly_q R with
      | Some r => cert01 a b (bop_of o) r
      | None => false
      end
  | _, _, _ => false
  end.

(** the run returned the named region: at every point on no edge of the operands or of the
    result, polygon-wise membership in the result = the operation on even-odd memberships *)
Definition C01_at (cfg : config) (fuel : nat) (A B : list (FillQueue.polygon N)) (o : operation) : Prop :=
  exists R a b r,
    boolean_operation cfg fuel A B o = Ok R /\
    operand_rings_q A = Some a /\ operand_rings_q B = Some b /\ mpoly_q R = Some r /\
    forall p, clear01 a b r p -> inside_mpoly r p = sem_op (bop_of o) (inside_eo a p) (inside_eo b p).

Theorem C01_partial cfg fuel A B o : cert01_run cfg fuel A B o = true -> C01_at cfg fuel A B o.
Proof.
  unfold cert01_run, C01_at. intros H.
  destruct (boolean_operation cfg fuel A B o) as [R| |]; try discriminate.
  destruct (operand_rings_q A) as [a|]; try discriminate.
  destruct (operand_rings_q B) as [b|]; try discriminate.
  destruct (mpoly_q R) as [r|] eqn:Hr; try discriminate.
  exists R, a, b, r. split; [reflexivity|]. split; [reflexivity|]. split; [reflexivity|]. split; [exact Hr|].
  intros p Hp. now apply cert01_sound.
Qed.

Definition cert02_run (cfg : config) (fuel : nat) (A B : list (FillQueue.polygon N)) (o : operation) : bool :=
  match boolean_operation cfg fuel A B o with
  | Ok R => match mpoly_q R with Some r => cert02_reading r | None => false end
  | _ => false
  end.

Definition C02_reading_at (cfg : config) (fuel : nat) (A B : list (FillQueue.polygon N)) (o : operation) : Prop :=
  exists R r, boolean_operation cfg fuel A B o = Ok R /\ mpoly_q R = Some r /\
    forall p, scene_clear (scene02 r) p -> inside_mpoly r p = inside_eo (rings_of r) p.

Theorem C02_partial cfg fuel A B o : cert02_run cfg fuel A B o = true -> C02_reading_at cfg fuel A B o.
Proof.
  unfold cert02_run, C02_reading_at. intros H.
  destruct (boolean_operation cfg fuel A B o) as [R| |]; try discriminate.
  destruct (mpoly_q R) as [r|] eqn:Hr; try discriminate.
  exists R, r. split; [reflexivity|]. split; [exact Hr|]. intros p Hp. now apply cert02_reading_sound.
Qed.
End Conv.

(** conversions of the two kinds of instance *)
Definition conv_Q (p : pt NQ) : option qpt :=
  match px p, py p with
  | QF x, QF y => Some (mkQpt x y)
  | _, _ => None
  end.
Definition conv_B (prec emax : Z) (p : pt (NB prec emax)) : option qpt := sfpt (px p) (py p).

(** ** witnesses (exact instance, evaluated by [vm_compute]) *)
Definition qp (x y : Z) : pt NQ := mkPt NQ (QF (inject_Z x)) (QF (inject_Z y)).
Definition qsquare (x y : Z) : FillQueue.polygon NQ :=
  polygon_new (N:=NQ) [qp x y; qp (x + 1) y; qp (x + 1) (y + 1); qp x (y + 1)] [].

(** defect F1 (repaired by 80554de): union of {square at (0,0), square at (0,2)} with the
    square at (0,0).  The pinned tables return the upper square as a hole of the lower one;
    the repaired ones return two polygons, certified correct for every point. *)
Definition F1_A := [qsquare 0 0; qsquare 0 2].
Definition F1_B := [qsquare 0 0].

Lemma F1_refuted :
  cert02_run NQ conv_Q pinned 1000 F1_A F1_B Union = false
  /\ cert01_run NQ conv_Q pinned 1000 F1_A F1_B Union = false
  /\ (exists R, boolean_operation pinned 1000 F1_A F1_B Union = Ok R /\ length R = 1%nat).
Proof. split; [|split]; [vm_compute; reflexivity ..|]. eexists; split; [vm_compute; reflexivity|reflexivity]. Qed.

Lemma F1_repaired :
  cert02_run NQ conv_Q release 1000 F1_A F1_B Union = true
  /\ cert01_run NQ conv_Q release 1000 F1_A F1_B Union = true.
Proof. split; vm_compute; reflexivity. Qed.

(** defect F2 (repaired by 1976566): a part touching a vertical edge of another part of the
    same operand: A = {triangle (0,2),(2,0),(2,4); triangle (2,2),(3,1),(4,2)},
    B = triangle (2,2),(3,3),(2,4); the intersection is empty, the pinned code returns B. *)
Definition F2_A : list (FillQueue.polygon NQ) :=
  [polygon_new (N:=NQ) [qp 0 2; qp 2 0; qp 2 4] []; polygon_new (N:=NQ) [qp 2 2; qp 3 1; qp 4 2] []].
Definition F2_B : list (FillQueue.polygon NQ) := [polygon_new (N:=NQ) [qp 2 2; qp 3 3; qp 2 4] []].

Lemma F2_refuted :
  cert01_run NQ conv_Q pinned 1000 F2_A F2_B Intersection = false
  /\ (exists R, boolean_operation pinned 1000 F2_A F2_B Intersection = Ok R /\ length R = 1%nat).
Proof. split; [vm_compute; reflexivity|]. eexists; split; [vm_compute; reflexivity|reflexivity]. Qed.

Lemma F2_repaired :
  cert01_run NQ conv_Q release 1000 F2_A F2_B Intersection = true
  /\ boolean_operation release 1000 F2_A F2_B Intersection = Ok [].
Proof. split; vm_compute; reflexivity. Qed.
