(** * A division replaces a sub-segment by two that cover exactly it (C13, coverage clause, at
    the level of one step; exact instance).

    [split_cover], [split_meet]: for a point [p] of the closed segment [a b], a point lies on
    [a b] iff it lies on [a p] or on [p b], and (for [a <> b]) only [p] lies on both pieces.
    [divide_segment_shape]: what [divide_segment] does to the link structure, on every
    instance: the left event [se_l] gets a new right partner, the old right partner [se_r] a new
    left partner, both new events carry the (possibly bumped) division point, no other link
    and no point changes.  [divide_segment_cover]: at the exact instance, dividing the segment of
    [se_l] at one of its points yields two linked pairs whose segments cover exactly the old one
    and meet only in the division point. *)
From Coq Require Import Bool List PArith QArith Lqa Lia.
From GB Require Import Prim Num NumQ Event Intersect Cmp Heap Outcome Divide IntersectProofs FieldsProofs LinkProofs PiProofs.
Local Open Scope Q_scope.

Definition on_seg (ax ay bx by_ x y : Q) : Prop :=
  exists s, 0 <= s <= 1 /\ x == ax + s * (bx - ax) /\ y == ay + s * (by_ - ay).

Lemma div_le_1 s u : 0 <= s -> s <= u -> 0 < u -> 0 <= s / u <= 1.
Proof.
  intros Hs Hsu Hu. split.
  - apply Qle_shift_div_l; [exact Hu | lra].
  - apply Qle_shift_div_r; [exact Hu | lra].
Qed.

Theorem split_cover ax ay bx by_ px py :
  on_seg ax ay bx by_ px py ->
  forall x y, on_seg ax ay bx by_ x y <-> on_seg ax ay px py x y \/ on_seg px py bx by_ x y.
Proof.
  intros (u & Hu & Px & Py) x y. split.
  - intros (s & Hs & Hx & Hy).
    destruct (Qlt_le_dec u s) as [Hgt|Hle].
    + right. assert (H1 : 0 < 1 - u) by lra.
      exists ((s - u) / (1 - u)). split; [apply div_le_1; lra|].
      rewrite Hx, Hy, Px, Py. split; field; lra.
    + destruct (Qeq_dec u 0) as [E0|E0].
      * left. exists 0. split; [lra|]. assert (Es : s == 0) by lra.
        rewrite Hx, Hy, Es. split; ring.
      * left. assert (H1 : 0 < u) by lra.
        exists (s / u). split; [apply div_le_1; lra|].
        rewrite Hx, Hy, Px, Py. split; field; lra.
  - intros [(t & Ht & Hx & Hy)|(t & Ht & Hx & Hy)].
    + exists (t * u). split; [nra|]. rewrite Hx, Hy, Px, Py. split; ring.
    + exists (u + t * (1 - u)). split; [nra|]. rewrite Hx, Hy, Px, Py. split; ring.
Qed.

Theorem split_meet ax ay bx by_ px py x y :
  ~ (bx == ax /\ by_ == ay) ->
  on_seg ax ay bx by_ px py -> on_seg ax ay px py x y -> on_seg px py bx by_ x y -> x == px /\ y == py.
Proof.
  intros Hne (u & Hu & Px & Py) (t & Ht & Hx & Hy) (t' & Ht' & Hx' & Hy').
  (* parameters along a b: t u and u + t' (1 - u) give the same point *)
  assert (Ex : (t * u - (u + t' * (1 - u))) * (bx - ax) == 0).
  { rewrite Px in Hx, Hx'. assert (K : ax + t * (ax + u * (bx - ax) - ax) == ax + u * (bx - ax) + t' * (bx - (ax + u * (bx - ax)))) by (rewrite <- Hx, <- Hx'; reflexivity).
    assert (K1 : (t * u - (u + t' * (1 - u))) * (bx - ax) == ax + t * (ax + u * (bx - ax) - ax) - (ax + u * (bx - ax) + t' * (bx - (ax + u * (bx - ax))))) by ring.
    rewrite K1, K. ring. }
  assert (Ey : (t * u - (u + t' * (1 - u))) * (by_ - ay) == 0).
  { rewrite Py in Hy, Hy'. assert (K : ay + t * (ay + u * (by_ - ay) - ay) == ay + u * (by_ - ay) + t' * (by_ - (ay + u * (by_ - ay)))) by (rewrite <- Hy, <- Hy'; reflexivity).
    assert (K1 : (t * u - (u + t' * (1 - u))) * (by_ - ay) == ay + t * (ay + u * (by_ - ay) - ay) - (ay + u * (by_ - ay) + t' * (by_ - (ay + u * (by_ - ay))))) by ring.
    rewrite K1, K. ring. }
  assert (Ed : t * u - (u + t' * (1 - u)) == 0).
  { destruct (Qmult_integral _ _ Ex) as [E|E]; [exact E|].
    destruct (Qmult_integral _ _ Ey) as [E'|E']; [exact E'|].
    exfalso. apply Hne. split; lra. }
  (* t u <= u <= u + t' (1 - u), equal: both are u *)
  assert (E1 : t * u == u) by nra.
  rewrite Hx, Hy, Px, Py.
  assert (Kx : ax + t * (ax + u * (bx - ax) - ax) == ax + (t * u) * (bx - ax)) by ring.
  assert (Ky : ay + t * (ay + u * (by_ - ay) - ay) == ay + (t * u) * (by_ - ay)) by ring.
  rewrite Kx, Ky, E1. split; reflexivity.
Qed.

(** ** what [divide_segment] does to links and points, every instance *)
Section Shape.
Variable N : Num.
Variable cfg : config.

Theorem divide_segment_shape (s s' : sq N) (se_l se_r : eid) (i : pt N) :
  wf N (sq_st s) -> mapped N (sq_st s) se_l -> mapped N (sq_st s) se_r -> se_r <> se_l ->
  e_other (getE (sq_st s) se_l) = Some se_r ->
  divide_segment cfg s se_l i = Ok s' ->
  exists r l i',
    ~ mapped N (sq_st s) r /\ ~ mapped N (sq_st s) l /\ r <> l /\
    e_other (getE (sq_st s') se_l) = Some r /\ e_other (getE (sq_st s') r) = Some se_l /\
    e_other (getE (sq_st s') l) = Some se_r /\ e_other (getE (sq_st s') se_r) = Some l /\
    e_point (getE (sq_st s') r) = i' /\ e_point (getE (sq_st s') l) = i' /\
    i' = (if eqX N (px i) (px (e_point (getE (sq_st s) se_l))) && ltY N (py i) (py (e_point (getE (sq_st s) se_l)))
          then mkPt N (next_upX N (px i)) (py i) else i) /\
    (forall k, mapped N (sq_st s) k -> e_point (getE (sq_st s') k) = e_point (getE (sq_st s) k)) /\
    (forall k, mapped N (sq_st s) k -> k <> se_l -> k <> se_r ->
               e_other (getE (sq_st s') k) = e_other (getE (sq_st s) k)).
Proof.
  intros W Ml Mr Hne Or. unfold divide_segment.
  destruct (c_debug cfg && negb (e_left (getE (sq_st s) se_l))); [discriminate|].
  rewrite Or.
  set (el := getE (sq_st s) se_l).
  set (i' := if eqX N (px i) (px (e_point el)) && ltY N (py i) (py (e_point el))
             then mkPt N (next_upX N (px i)) (py i) else i).
  destruct (alloc (sq_st s) (new_event (e_contour_id el) i' false (Some se_l) (e_is_subject el) true)) as [st1 r] eqn:E1.
  destruct (alloc st1 (new_event (e_contour_id el) i' true (Some se_r) (e_is_subject el) true)) as [st2 l] eqn:E2.
  assert (Hst1 : st1 = fst (alloc (sq_st s) (new_event (e_contour_id el) i' false (Some se_l) (e_is_subject el) true))) by (rewrite E1; reflexivity).
  assert (Hr : r = st_next (sq_st s)) by (unfold alloc in E1; now inversion E1).
  assert (Hst2 : st2 = fst (alloc st1 (new_event (e_contour_id el) i' true (Some se_r) (e_is_subject el) true))) by (rewrite E2; reflexivity).
  assert (Hl : l = st_next st1) by (unfold alloc in E2; now inversion E2).
  destruct (c_debug cfg && negb (is_before st2 se_l r)); [discriminate|].
  intros H; inversion H; subst s'; clear H. cbn [sq_st].
  assert (Hl' : l = Pos.succ r) by (rewrite Hl, Hst1, next_alloc, Hr; reflexivity).
  assert (Nr : ~ mapped N (sq_st s) r) by (rewrite Hr; apply fresh_unmapped; exact W).
  assert (Nl : ~ mapped N (sq_st s) l).
  { intros M. pose proof (W _ M). rewrite Hl', Hr in H. lia. }
  assert (Hrl : r <> l) by (rewrite Hl'; lia).
  assert (Dl_r : se_l <> r) by (intros E; apply Nr; rewrite <- E; exact Ml).
  assert (Dl_l : se_l <> l) by (intros E; apply Nl; rewrite <- E; exact Ml).
  assert (Dr_r : se_r <> r) by (intros E; apply Nr; rewrite <- E; exact Mr).
  assert (Dr_l : se_r <> l) by (intros E; apply Nl; rewrite <- E; exact Mr).
  (* reading st2 *)
  assert (G2r : getE st2 r = new_event (e_contour_id el) i' false (Some se_l) (e_is_subject el) true).
  { rewrite Hst2, getE_alloc_old by (rewrite <- Hl; exact Hrl). rewrite Hst1, Hr. apply getE_alloc_new. }
  assert (G2l : getE st2 l = new_event (e_contour_id el) i' true (Some se_r) (e_is_subject el) true).
  { rewrite Hst2, Hl. apply getE_alloc_new. }
  assert (G2old : forall k, mapped N (sq_st s) k -> getE st2 k = getE (sq_st s) k).
  { intros k Mk. assert (K1 : k <> r) by (intros ->; contradiction). assert (K2 : k <> l) by (intros ->; contradiction).
    rewrite Hst2, getE_alloc_old by (rewrite <- Hl; exact K2). rewrite Hst1, getE_alloc_old by (rewrite <- Hr; exact K1). reflexivity. }
  set (st3 := if negb (is_before st2 l se_r)
              then upd (upd st2 se_r (fun e => set_left e true)) l (fun e => set_left e false) else st2).
  (* st3 differs from st2 in left flags only *)
  assert (G3 : forall k, e_other (getE st3 k) = e_other (getE st2 k) /\ e_point (getE st3 k) = e_point (getE st2 k)).
  { intros k. unfold st3. destruct (negb (is_before st2 l se_r)); [|split; reflexivity].
    destruct (Pos.eq_dec l k) as [->|K1].
    - rewrite getE_upd_same. cbn. destruct (Pos.eq_dec se_r k) as [->|K2].
      + rewrite getE_upd_same. split; reflexivity.
      + rewrite getE_upd_other by exact K2. split; reflexivity.
    - rewrite getE_upd_other by exact K1. destruct (Pos.eq_dec se_r k) as [->|K2].
      + rewrite getE_upd_same. split; reflexivity.
      + rewrite getE_upd_other by exact K2. split; reflexivity. }
  set (st4 := upd st3 se_l (fun e => set_other e (Some r))).
  set (st5 := upd st4 se_r (fun e => set_other e (Some l))).
  assert (R5 : forall k, k <> se_l -> k <> se_r -> getE st5 k = getE st3 k).
  { intros k K1 K2. unfold st5, st4. rewrite !getE_upd_other by congruence. reflexivity. }
  exists r, l, i'. repeat split; try assumption.
  - unfold st5, st4. rewrite getE_upd_other by exact Hne. rewrite getE_upd_same. reflexivity.
  - rewrite R5 by congruence. rewrite (proj1 (G3 r)), G2r. reflexivity.
  - rewrite R5 by congruence. rewrite (proj1 (G3 l)), G2l. reflexivity.
  - unfold st5. rewrite getE_upd_same. reflexivity.
  - rewrite R5 by congruence. rewrite (proj2 (G3 r)), G2r. reflexivity.
  - rewrite R5 by congruence. rewrite (proj2 (G3 l)), G2l. reflexivity.
  - intros k Mk.
    assert (P5 : e_point (getE st5 k) = e_point (getE st3 k)).
    { unfold st5, st4. destruct (Pos.eq_dec se_r k) as [->|K2].
      - rewrite getE_upd_same. cbn. destruct (Pos.eq_dec se_l k) as [->|K1].
        + rewrite getE_upd_same. reflexivity.
        + rewrite getE_upd_other by exact K1. reflexivity.
      - rewrite getE_upd_other by exact K2. destruct (Pos.eq_dec se_l k) as [->|K1].
        + rewrite getE_upd_same. reflexivity.
        + rewrite getE_upd_other by exact K1. reflexivity. }
    rewrite P5, (proj2 (G3 k)), (G2old k Mk). reflexivity.
  - intros k Mk K1 K2. rewrite R5 by assumption. rewrite (proj1 (G3 k)), (G2old k Mk). reflexivity.
Qed.

End Shape.

(** ** exact instance: the two pieces cover exactly the divided segment *)
Theorem divide_segment_cover cfg (s s' : sq NQ) (se_l se_r : eid) (lx ly rx ry ix iy : Q) :
  wf NQ (sq_st s) -> mapped NQ (sq_st s) se_l -> mapped NQ (sq_st s) se_r -> se_r <> se_l ->
  e_other (getE (sq_st s) se_l) = Some se_r ->
  e_point (getE (sq_st s) se_l) = fpt lx ly -> e_point (getE (sq_st s) se_r) = fpt rx ry ->
  on_seg lx ly rx ry ix iy ->
  divide_segment cfg s se_l (fpt ix iy) = Ok s' ->
  exists r l,
    ~ mapped NQ (sq_st s) r /\ ~ mapped NQ (sq_st s) l /\
    e_other (getE (sq_st s') se_l) = Some r /\ e_other (getE (sq_st s') l) = Some se_r /\
    e_point (getE (sq_st s') se_l) = fpt lx ly /\ e_point (getE (sq_st s') r) = fpt ix iy /\
    e_point (getE (sq_st s') l) = fpt ix iy /\ e_point (getE (sq_st s') se_r) = fpt rx ry /\
    (forall x y, on_seg lx ly rx ry x y <-> on_seg lx ly ix iy x y \/ on_seg ix iy rx ry x y) /\
    (~ (rx == lx /\ ry == ly) ->
     forall x y, on_seg lx ly ix iy x y -> on_seg ix iy rx ry x y -> x == ix /\ y == iy).
Proof.
  intros W Ml Mr Hne Or Pl Pr Hon Hd.
  destruct (divide_segment_shape NQ cfg s s' se_l se_r (fpt ix iy) W Ml Mr Hne Or Hd)
    as (r & l & i' & Nr & Nl & _ & A1 & _ & A3 & _ & B1 & B2 & Ei & Keep & _).
  rewrite bump_dead_exact in Ei. rewrite Ei in B1, B2.
  exists r, l.
  split; [exact Nr|]. split; [exact Nl|]. split; [exact A1|]. split; [exact A3|].
  split; [now rewrite (Keep se_l Ml)|]. split; [exact B1|]. split; [exact B2|].
  split; [now rewrite (Keep se_r Mr)|].
  split; [now apply split_cover|].
  intros Hd2 x y H1 H2. eapply split_meet; eauto.
Qed.
