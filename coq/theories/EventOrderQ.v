(** * The angular part of the event order at the exact instance (C15): two events at one
    point with equal left flags are ordered by the orientation of their partners —
    antisymmetrically whenever the partners are not collinear with the point, and by the
    operand (subject first) when they are collinear and belong to different operands.  The
    remaining case — collinear partners of ONE operand on the same side — is the gap the
    property excludes (overlapping edges of one operand are not a valid input). *)
From Coq Require Import Bool List PArith QArith Lqa.
From GB Require Import Num NumQ NumLaws NumLawsQ Event Cmp EventOrder.
Local Open Scope Q_scope.

Definition det (ax ay bx by_ cx cy : Q) : Q := (ax - cx) * (by_ - cy) - (ay - cy) * (bx - cx).

Lemma Qcompare_sub a b : (a ?= b) = (a - b ?= 0).
Proof.
  destruct (Qcompare_spec a b) as [H|H|H], (Qcompare_spec (a - b) 0) as [K|K|K]; try reflexivity; exfalso; lra.
Qed.
Lemma Qcompare_opp d : (- d ?= 0) = CompOpp (d ?= 0).
Proof.
  destruct (Qcompare_spec d 0) as [H|H|H], (Qcompare_spec (- d) 0) as [K|K|K]; try reflexivity; exfalso; lra.
Qed.
Lemma Qcompare_eqv d e : d == e -> (d ?= 0) = (e ?= 0).
Proof. intros H. now rewrite H. Qed.

Lemma orient_det ax ay bx by_ cx cy :
  qx_orient (QF ax) (QF ay) (QF bx) (QF by_) (QF cx) (QF cy) = (det ax ay bx by_ cx cy ?= 0).
Proof. unfold qx_orient, det. apply Qcompare_sub. Qed.

(** exchanging the last two points reverses the orientation; the first point may be replaced
    by an equal one *)
Lemma orient_swap ax ay ax' ay' bx by_ cx cy : ax == ax' -> ay == ay' ->
  qx_orient (QF ax') (QF ay') (QF cx) (QF cy) (QF bx) (QF by_)
  = CompOpp (qx_orient (QF ax) (QF ay) (QF bx) (QF by_) (QF cx) (QF cy)).
Proof.
  intros Hx Hy. rewrite !orient_det, <- Qcompare_opp. apply Qcompare_eqv. unfold det. rewrite Hx, Hy. ring.
Qed.
(** ... and so does moving the first point to the middle *)
Lemma orient_mid ax ay ax' ay' bx by_ cx cy : ax == ax' -> ay == ay' ->
  qx_orient (QF bx) (QF by_) (QF ax') (QF ay') (QF cx) (QF cy)
  = CompOpp (qx_orient (QF ax) (QF ay) (QF bx) (QF by_) (QF cx) (QF cy)).
Proof.
  intros Hx Hy. rewrite !orient_det, <- Qcompare_opp. apply Qcompare_eqv. unfold det. rewrite Hx, Hy. ring.
Qed.
Lemma orient_cycle ax ay ax' ay' bx by_ cx cy : ax == ax' -> ay == ay' ->
  qx_orient (QF cx) (QF cy) (QF ax') (QF ay') (QF bx) (QF by_)
  = qx_orient (QF ax) (QF ay) (QF bx) (QF by_) (QF cx) (QF cy).
Proof.
  intros Hx Hy. rewrite !orient_det. apply Qcompare_eqv. unfold det. rewrite Hx, Hy. ring.
Qed.

Section Angular.
Variable st : store NQ.
Variables a b oa ob : eid.
Variables xa ya xb yb oax oay obx oby : Q.
Hypothesis Pa : e_point (getE st a) = mkPt NQ (QF xa) (QF ya).
Hypothesis Pb : e_point (getE st b) = mkPt NQ (QF xb) (QF yb).
Hypothesis Hx : xa == xb.
Hypothesis Hy : ya == yb.
Hypothesis Oa : e_other (getE st a) = Some oa.
Hypothesis Ob : e_other (getE st b) = Some ob.
Hypothesis Poa : e_point (getE st oa) = mkPt NQ (QF oax) (QF oay).
Hypothesis Pob : e_point (getE st ob) = mkPt NQ (QF obx) (QF oby).
Hypothesis Hleft : e_left (getE st a) = e_left (getE st b).

Lemma same_point_tests :
  qx_lt (QF xa) (QF xb) = false /\ qx_lt (QF xb) (QF xa) = false /\
  qx_lt (QF ya) (QF yb) = false /\ qx_lt (QF yb) (QF ya) = false.
Proof. repeat split; apply qx_lt_FF_false; rewrite ?Hx, ?Hy; apply Qle_refl. Qed.

(** the two answers of the order on (a, b) and (b, a), unfolded *)
Lemma cmp_ab :
  cmp_events st a b =
  if negb (sa_zero (qx_orient (QF xa) (QF ya) (QF oax) (QF oay) (QF obx) (QF oby)))
  then less_if (negb (is_below st a (mkPt NQ (QF obx) (QF oby))))
  else less_if (negb (e_is_subject (getE st a)) && e_is_subject (getE st b)).
Proof.
  destruct same_point_tests as (T1 & T2 & T3 & T4).
  unfold cmp_events, gtX, gtY, point_of, sarea. rewrite Pa, Pb, Oa, Ob, Poa, Pob. cbn [px py ltX ltY NQ orient].
  rewrite T1, T2, T3, T4, Hleft, eqb_reflx. reflexivity.
Qed.
Lemma cmp_ba :
  cmp_events st b a =
  if negb (sa_zero (qx_orient (QF xb) (QF yb) (QF obx) (QF oby) (QF oax) (QF oay)))
  then less_if (negb (is_below st b (mkPt NQ (QF oax) (QF oay))))
  else less_if (negb (e_is_subject (getE st b)) && e_is_subject (getE st a)).
Proof.
  destruct same_point_tests as (T1 & T2 & T3 & T4).
  unfold cmp_events, gtX, gtY, point_of, sarea. rewrite Pa, Pb, Oa, Ob, Poa, Pob. cbn [px py ltX ltY NQ orient].
  rewrite T1, T2, T3, T4, Hleft, eqb_reflx. reflexivity.
Qed.

Let o := qx_orient (QF xa) (QF ya) (QF oax) (QF oay) (QF obx) (QF oby).

Lemma o_ba : qx_orient (QF xb) (QF yb) (QF obx) (QF oby) (QF oax) (QF oay) = CompOpp o.
Proof. unfold o. now apply orient_swap. Qed.

(** C15: partners not collinear with the common point: the order is antisymmetric *)
Theorem cmp_events_angular_antisym : o <> Eq -> cmp_events st b a = CompOpp (cmp_events st a b).
Proof.
  intros Ho. rewrite cmp_ab, cmp_ba, o_ba. fold o.
  unfold is_below, point_of, sarea. rewrite Oa, Ob, Pa, Pb, Poa, Pob. cbn [px py orient NQ].
  rewrite <- Hleft. destruct (e_left (getE st a)).
  - (* left events: orientation of (P, oa, ob) against (P, ob, oa) *)
    rewrite o_ba. fold o. destruct o; [now elim Ho | reflexivity | reflexivity].
  - (* right events: (oa, P, ob) against (ob, P, oa) *)
    assert (E1 : qx_orient (QF oax) (QF oay) (QF xa) (QF ya) (QF obx) (QF oby) = CompOpp o)
      by (unfold o; apply orient_mid; reflexivity).
    assert (E2 : qx_orient (QF obx) (QF oby) (QF xb) (QF yb) (QF oax) (QF oay) = o).
    { unfold o. now apply orient_cycle. }
    rewrite E1, E2. destruct o; [now elim Ho | reflexivity | reflexivity].
Qed.

(** collinear partners of different operands: subject first, antisymmetric *)
Theorem cmp_events_collinear_antisym :
  o = Eq -> e_is_subject (getE st a) <> e_is_subject (getE st b) ->
  cmp_events st b a = CompOpp (cmp_events st a b).
Proof.
  intros Ho Hs. rewrite cmp_ab, cmp_ba, o_ba. fold o. rewrite Ho. cbn.
  destruct (e_is_subject (getE st a)), (e_is_subject (getE st b)); try reflexivity; now elim Hs.
Qed.

(** ... and the gap: collinear partners of one operand are "less" in neither direction twice *)
Theorem cmp_events_gap :
  o = Eq -> e_is_subject (getE st a) = e_is_subject (getE st b) ->
  cmp_events st a b = Gt /\ cmp_events st b a = Gt.
Proof.
  intros Ho Hs. rewrite cmp_ab, cmp_ba, o_ba. fold o. rewrite Ho, Hs. cbn.
  destruct (e_is_subject (getE st b)); split; reflexivity.
Qed.

End Angular.
