(** * Exact conversion of floating-point values to rationals *)
From Coq Require Import ZArith QArith Floats.SpecFloat List.
From GB Require Import Slab.
Import ListNotations.

(** the rational denoted by a finite float; [None] for infinities and NaN *)
Definition sf2q (x : spec_float) : option Q :=
  match x with
  | S754_zero _ => Some 0%Q
  | S754_finite s m e =>
      let mz := if s then Z.neg m else Z.pos m in
      Some (match e with
            | Z0 => inject_Z mz
            | Zpos p => inject_Z (mz * 2 ^ (Zpos p))
            | Zneg p => Qred (Qmake mz (2 ^ p)%positive)
            end)
  | _ => None
  end.

Definition sfpt (x y : spec_float) : option qpt :=
  match sf2q x, sf2q y with
  | Some qx, Some qy => Some (mkQpt qx qy)
  | _, _ => None
  end.
