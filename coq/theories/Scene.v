(** * Scenes: several regions checked against a Boolean law at every point of the plane.
    Definitions only; soundness is proved in [SlabProofs.v].

    A scene is a list of regions, each read either by the even-odd rule over a set of rings
    ([REo], the way an operand is read) or polygon by polygon ([RPoly], the way a result is
    read: inside some exterior and outside all holes of that polygon).  A law is a Boolean
    expression over the memberships; [check_scene] decides, exactly, whether the law holds
    at every point that lies on no edge. *)
From Coq Require Import QArith Bool List Arith.
From GB Require Import Slab.
Import ListNotations.
Set Implicit Arguments.

Inductive region :=
| REo (rs : list ring)
| RPoly (R : list qpolygon).

Definition scene := list region.

Inductive law :=
| LIn (k : nat)          (* membership in the k-th region of the scene *)
| LTrue | LFalse
| LNot (a : law)
| LAnd (a b : law) | LOr (a b : law) | LXor (a b : law) | LEq (a b : law).

Fixpoint eval_law (l : law) (m : nat -> bool) : bool :=
  match l with
  | LIn k => m k
  | LTrue => true
  | LFalse => false
  | LNot a => negb (eval_law a m)
  | LAnd a b => eval_law a m && eval_law b m
  | LOr a b => eval_law a m || eval_law b m
  | LXor a b => xorb (eval_law a m) (eval_law b m)
  | LEq a b => Bool.eqb (eval_law a m) (eval_law b m)
  end.

Definition inside_region (r : region) (p : qpt) : bool :=
  match r with
  | REo rs => inside_eo rs p
  | RPoly R => inside_mpoly R p
  end.

(** membership in the [k]-th region (false if there is none) *)
Definition member (sc : scene) (p : qpt) (k : nat) : bool :=
  match nth_error sc k with Some r => inside_region r p | None => false end.

(** ** layout: tagged edges of a scene and, per region, its membership as a function of tag parities *)
Fixpoint hole_tags (base : nat) (hs : list ring) : list (nat * ring) :=
  match hs with
  | [] => []
  | h :: tl => (base, h) :: hole_tags (S base) tl
  end.

(** one polygon: exterior gets tag [base], holes [base+1 ...]; returns edges, membership, next free tag *)
Definition layout_polygon (base : nat) (P : qpolygon)
  : list tedge * ((nat -> bool) -> bool) * nat :=
  let hts := hole_tags (S base) (q_holes P) in
  (tag_edges base (ring_edges (q_ext P))
   ++ flat_map (fun th => tag_edges (fst th) (ring_edges (snd th))) hts,
   fun f => f base && forallb (fun th => negb (f (fst th))) hts,
   (S base + length (q_holes P))%nat).

Fixpoint layout_mpoly (base : nat) (R : list qpolygon)
  : list tedge * ((nat -> bool) -> bool) * nat :=
  match R with
  | [] => ([], fun _ => false, base)
  | P :: tl =>
      let '(es1, m1, b1) := layout_polygon base P in
      let '(es2, m2, b2) := layout_mpoly b1 tl in
      (es1 ++ es2, fun f => m1 f || m2 f, b2)
  end.

Definition layout_region (base : nat) (r : region)
  : list tedge * ((nat -> bool) -> bool) * nat :=
  match r with
  | REo rs => (tag_edges base (flat_map ring_edges rs), fun f => f base, S base)
  | RPoly R => layout_mpoly base R
  end.

Fixpoint layout (base : nat) (sc : scene)
  : list tedge * list ((nat -> bool) -> bool) :=
  match sc with
  | [] => ([], [])
  | r :: tl =>
      let '(es1, m1, b1) := layout_region base r in
      let '(es2, ms) := layout b1 tl in
      (es1 ++ es2, m1 :: ms)
  end.

Definition scene_edges (sc : scene) : list tedge := fst (layout 0 sc).

Definition scene_pred (sc : scene) (l : law) (f : nat -> bool) : bool :=
  let ms := snd (layout 0 sc) in
  eval_law l (fun k => match nth_error ms k with Some m => m f | None => false end).

Definition check_scene (sc : scene) (l : law) : bool :=
  let es := scene_edges sc in
  slab_check es (abscissae es) (scene_pred sc l).

(** [p] lies on no edge of the scene *)
Definition scene_clear (sc : scene) (p : qpt) : Prop := clear (scene_edges sc) p.

(** ** the laws used by the properties *)
Inductive bop := BInter | BUnion | BDiff | BXor.
Definition law_of_op (o : bop) (a b : law) : law :=
  match o with
  | BInter => LAnd a b
  | BUnion => LOr a b
  | BDiff => LAnd a (LNot b)
  | BXor => LXor a b
  end.
Definition sem_op (o : bop) (a b : bool) : bool :=
  match o with
  | BInter => a && b
  | BUnion => a || b
  | BDiff => a && negb b
  | BXor => xorb a b
  end.

(** C01: scene [A; B; R], the result read polygon-wise equals the operation on the operands *)
Definition scene01 (A B : list ring) (R : list qpolygon) : scene := [REo A; REo B; RPoly R].
Definition law01 (o : bop) : law := LEq (LIn 2) (law_of_op o (LIn 0) (LIn 1)).
Definition cert01 (A B : list ring) (o : bop) (R : list qpolygon) : bool :=
  check_scene (scene01 A B R) (law01 o).

(** C02 (consequence clause): polygon reading = even-odd reading of all rings *)
Definition scene02 (R : list qpolygon) : scene := [RPoly R; REo (rings_of R)].
Definition law02 : law := LEq (LIn 0) (LIn 1).
Definition cert02_reading (R : list qpolygon) : bool := check_scene (scene02 R) law02.
