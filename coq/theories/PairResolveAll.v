(** * Every pair the intersection step is given leaves it resolved (C16 / C13), exact instance.

    In a store with the on-edge invariant [einv2] and without overlapping sub-segments of one
    operand ([disj], what [simple_edges] operands give throughout the sweep), for two distinct
    left events [se1], [se2]: whatever [possible_intersection] answers, afterwards the two
    sub-segments that start at [se1] and [se2] meet in end points of both only, or coincide
    completely (and then belong to different operands); their left points are unchanged, their
    new right ends lie on the old segments; and no other event's link or point has changed
    ([PiFrame.pi_frame_ok]). *)
From Coq Require Import Bool List PArith NArith QArith Lqa Lia.
From GB Require Import Prim Num NumQ NumLaws NumLawsQ Event Intersect Cmp Heap Outcome Divide
  IntersectProofs LinkProofs PiProofs SplitCover OnEdge OnEdgeFull SameOperand PairResolve PiFrame.
Local Open Scope Q_scope.

Section All.
Variable edges : list edge.
Variable cfg : config.

(** the two sub-segments starting at [a] and [b] in [st] are resolved; [sd]: they belong to different operands *)
Definition res_in (st : store NQ) (a b : eid) (sd : bool) : Prop :=
  exists na nb pax pay nax nay pbx pby nbx nby,
    e_other (getE st a) = Some na /\ e_other (getE st b) = Some nb /\
    e_point (getE st a) = fpt pax pay /\ e_point (getE st na) = fpt nax nay /\
    e_point (getE st b) = fpt pbx pby /\ e_point (getE st nb) = fpt nbx nby /\
    (meet_at_ends pax pay nax nay pbx pby nbx nby \/ (sd = true /\ qeqp pax pay pbx pby /\ qeqp nax nay nbx nby)).

Theorem pi_resolves (s s' : sq NQ) (se1 se2 : eid) (code : nat) :
  sqinv NQ s -> einv2 edges (sq_st s) -> disj (sq_st s) ->
  mapped NQ (sq_st s) se1 -> mapped NQ (sq_st s) se2 -> se1 <> se2 ->
  e_left (getE (sq_st s) se1) = true -> e_left (getE (sq_st s) se2) = true ->
  possible_intersection cfg s se1 se2 = Ok (s', code) ->
  res_in (sq_st s') se1 se2 (negb (eqb (e_is_subject (getE (sq_st s) se1)) (e_is_subject (getE (sq_st s) se2)))).
Proof.
  intros S E D M1 M2 N12 Lf1 Lf2 H. pose proof S as [[W L] Q].
  destruct (L se1 M1) as (other1 & O1 & Hne1 & Mo1 & Back1 & _).
  destruct (L se2 M2) as (other2 & O2 & Hne2 & Mo2 & Back2 & _).
  destruct (E se1 other1 M1 O1) as (p1x & p1y & o1x & o1y & a1x & a1y & b1x & b1y & P1 & Q1 & D1 & _ & _ & _ & F1 & _).
  destruct (E se2 other2 M2 O2) as (p2x & p2y & o2x & o2y & a2x & a2y & b2x & b2y & P2 & Q2 & D2 & _ & _ & _ & F2 & _).
  rewrite Lf1 in F1. rewrite Lf2 in F2. cbn [negb] in F1, F2.
  assert (N2o : se2 <> other1) by (intros K; rewrite K in Lf2; congruence).
  assert (Hne : ~ (o1x == p1x /\ o1y == p1y)) by (intros [K1 K2]; apply D1; split; symmetry; assumption).
  destruct (intersection (fpt p1x p1y) (fpt o1x o1y) (fpt p2x p2y) (fpt o2x o2y)) as [|inter|ia ib] eqn:EI.
  - (* disjoint: nothing happens, nothing in common *)
    assert (Es : s' = s).
    { unfold possible_intersection in H. rewrite O1, O2 in H. unfold point_of in H. rewrite P1, Q1, P2, Q2, EI in H. now inversion H. }
    subst s'. exists other1, other2, p1x, p1y, o1x, o1y, p2x, p2y, o2x, o2y.
    pose proof (@intersection_exact_all p1x p1y o1x o1y p2x p2y o2x o2y Hne) as EX. rewrite EI in EX. cbn [exact_result] in EX.
    apply (proj1 (@disjoint_iff_no_common_point p1x p1y o1x o1y p2x p2y o2x o2y)) in EX.
    assert (MA : meet_at_ends p1x p1y o1x o1y p2x p2y o2x o2y).
    { intros x y H1 H2. exfalso. apply EX. exists x, y. now apply seg_both. }
    repeat split; auto.
  - destruct (pi_crossing_resolved edges cfg s s' se1 se2 other1 other2 code inter p1x p1y o1x o1y p2x p2y o2x o2y
                S E M1 M2 Lf1 Lf2 O1 O2 P1 Q1 P2 Q2 EI H)
      as (n1 & n2 & n1x & n1y & n2x & n2y & A1 & A2 & A3 & A4 & A5 & A6 & _ & _ & MA).
    exists n1, n2, p1x, p1y, n1x, n1y, p2x, p2y, n2x, n2y. repeat split; auto.
  - destruct (Bool.bool_dec (e_is_subject (getE (sq_st s) se1)) (e_is_subject (getE (sq_st s) se2))) as [Es|Es].
    + (* one operand: excluded by [disj] *)
      exfalso. destruct (overlap_two_points _ _ _ _ _ _ _ _ _ _ D1 D2 EI) as (x & y & x' & y' & C1 & C2 & Nq).
      destruct (on_both_seg1 _ _ _ _ _ _ _ _ _ _ C1) as [U1 U2]. destruct (on_both_seg1 _ _ _ _ _ _ _ _ _ _ C2) as [V1 V2].
      exact (Nq (D se1 other1 se2 other2 p1x p1y o1x o1y p2x p2y o2x o2y M1 M2 O1 O2 (not_eq_sym N12) N2o Es P1 Q1 P2 Q2 x y x' y' U1 U2 V1 V2)).
    + destruct (pi_overlap_resolved edges cfg s s' se1 se2 other1 other2 code ia ib p1x p1y o1x o1y p2x p2y o2x o2y
                  S E M1 M2 Lf1 Lf2 O1 O2 P1 Q1 P2 Q2 Es EI H)
        as (n1 & n2 & n1x & n1y & n2x & n2y & A1 & A2 & A3 & A4 & A5 & A6 & _ & _ & R).
      exists n1, n2, p1x, p1y, n1x, n1y, p2x, p2y, n2x, n2y. repeat split; auto.
      destruct R as [R|[R1 R2]]; [now left | right]. split; [|split; assumption].
      apply negb_true_iff. destruct (eqb _ _) eqn:K; [apply eqb_prop in K; contradiction | reflexivity].
Qed.

End All.
