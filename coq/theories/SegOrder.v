(** * The segment order (C15), every numeric instance: [Equal] exactly for the identical
    segment, and antisymmetric whenever the event order decides which of the two left events
    comes first (exactly one of them "is before" the other): both calls then assign the same
    old / new roles and every branch answers through [less_if] resp. its inverse. *)
From Coq Require Import Bool PArith NArith.
From GB Require Import Num Event Intersect Cmp.

Section SegOrder.
Variable N : Num.
Notation store := (store N).

Lemma less_if_opp c : less_if_inversed c = CompOpp (less_if c).
Proof. destruct c; reflexivity. Qed.
Lemma less_if_ne c : less_if c <> Eq. Proof. destruct c; discriminate. Qed.
Lemma less_if_inversed_ne c : less_if_inversed c <> Eq. Proof. destruct c; discriminate. Qed.

(** the body of [compare_segments] once the roles are fixed: [lessif] is the only way out *)
Definition seg_body (st : store) (old new : eid) (lessif : bool -> comparison) : comparison :=
  let eo := getE st old in
  let en := getE st new in
  match e_other eo, e_other en with
  | Some oldr, Some newr =>
      let ol := e_point eo in
      let or_ := point_of st oldr in
      let nl := e_point en in
      let nr := point_of st newr in
      let sa_l := sarea ol or_ nl in
      let sa_r := sarea ol or_ nr in
      let collinear :=
        if eqb (e_is_subject eo) (e_is_subject en) then
          if pt_eq ol nl then lessif (BinNat.N.ltb (e_contour_id eo) (e_contour_id en))
          else lessif true
        else lessif (e_is_subject eo) in
      if negb (sa_zero sa_l) || negb (sa_zero sa_r) then
        if pt_eq ol nl then lessif (is_below st old nr)
        else if eqX N (px ol) (px nl) then lessif (ltY N (py ol) (py nl))
        else if eqb (sa_pos sa_l) (sa_pos sa_r) then lessif (sa_pos sa_l)
        else if sa_zero sa_l then lessif (sa_pos sa_r)
        else
          match intersection ol or_ nl nr with
          | LNone => lessif (sa_pos sa_l)
          | LPoint p => if pt_eq p nl then lessif (sa_pos sa_r) else lessif (sa_pos sa_l)
          | LOverlap _ _ => collinear
          end
      else collinear
  | _, _ => lessif true
  end.

Lemma compare_segments_body (st : store) (a b : eid) : a <> b ->
  compare_segments st a b =
  if is_before st a b then seg_body st a b less_if else seg_body st b a less_if_inversed.
Proof.
  intros Hab. unfold compare_segments. rewrite (proj2 (Pos.eqb_neq a b) Hab).
  destruct (is_before st a b); reflexivity.
Qed.

Lemma seg_body_leaf (st : store) (old new : eid) (f : bool -> comparison) :
  exists c, seg_body st old new f = f c.
Proof.
  unfold seg_body.
  repeat match goal with
         | |- context [match ?x with Some _ => _ | None => _ end] => destruct x
         | |- context [if ?c then _ else _] => destruct c
         | |- context [match ?x with LNone => _ | LPoint _ => _ | LOverlap _ _ => _ end] => destruct x
         end; eexists; reflexivity.
Qed.

Lemma seg_body_opp (st : store) (old new : eid) :
  seg_body st old new less_if_inversed = CompOpp (seg_body st old new less_if).
Proof.
  unfold seg_body.
  repeat match goal with
         | |- context [match ?x with Some _ => _ | None => _ end] => destruct x
         | |- context [if ?c then _ else _] => destruct c
         | |- context [match ?x with LNone => _ | LPoint _ => _ | LOverlap _ _ => _ end] => destruct x
         end; apply less_if_opp.
Qed.

(** C15: Equal only for the identical segment *)
Theorem compare_segments_eq_iff (st : store) (a b : eid) : compare_segments st a b = Eq <-> a = b.
Proof.
  split.
  - intros H. destruct (Pos.eq_dec a b) as [E|Hab]; [exact E|]. exfalso.
    rewrite (compare_segments_body st a b Hab) in H. destruct (is_before st a b).
    + destruct (seg_body_leaf st a b less_if) as [c Hc]. rewrite Hc in H. now apply (less_if_ne c).
    + destruct (seg_body_leaf st b a less_if_inversed) as [c Hc]. rewrite Hc in H. now apply (less_if_inversed_ne c).
  - intros ->. unfold compare_segments. now rewrite Pos.eqb_refl.
Qed.

(** C15: antisymmetric as soon as the event order says which left event comes first *)
Theorem compare_segments_antisym (st : store) (a b : eid) :
  a <> b -> is_before st b a = negb (is_before st a b) ->
  compare_segments st b a = CompOpp (compare_segments st a b).
Proof.
  intros Hab Hord. rewrite (compare_segments_body st a b Hab), (compare_segments_body st b a (not_eq_sym Hab)), Hord.
  destruct (is_before st a b); cbn [negb].
  - apply seg_body_opp.
  - rewrite seg_body_opp. now destruct (seg_body st b a less_if).
Qed.

End SegOrder.
