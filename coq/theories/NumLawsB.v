(** * The order laws hold for the bit-exact floating-point instances on every non-NaN value.

    [SFcompare] orders non-NaN [spec_float]s lexicographically by (class and sign, exponent,
    mantissa); that is a total preorder whether or not the operands are canonical floats, so
    every theorem stated "for every instance satisfying the order laws" — the clamp of
    [intersection] (C04, C16), the empty-operand and disjoint-box laws (C06, C09), the
    lexicographic structure of the event order (C15) — applies to the binary64 and binary32
    models of the code. *)
From Coq Require Import Bool ZArith PArith Lia Floats.SpecFloat.
From GB Require Import Num NumLaws NumB.
Local Open Scope Z_scope.

Definition fok (x : spec_float) : Prop := x <> S754_nan.

(** the key: class, then exponent, then mantissa (negated for negative numbers) *)
Definition key (x : spec_float) : Z * Z * Z :=
  match x with
  | S754_nan => (0, 0, 0)
  | S754_infinity true => (-2, 0, 0)
  | S754_infinity false => (2, 0, 0)
  | S754_zero _ => (0, 0, 0)
  | S754_finite true m e => (-1, - e, - Z.pos m)
  | S754_finite false m e => (1, e, Z.pos m)
  end.

Definition lex3 (a b : Z * Z * Z) : comparison :=
  let '(a1, a2, a3) := a in
  let '(b1, b2, b3) := b in
  match a1 ?= b1 with
  | Eq => match a2 ?= b2 with Eq => a3 ?= b3 | c => c end
  | c => c
  end.

Lemma Pcompare_Eq m1 m2 : Pcompare m1 m2 Eq = (Z.pos m1 ?= Z.pos m2).
Proof. reflexivity. Qed.

Lemma SFcompare_key x y : fok x -> fok y -> SFcompare x y = Some (lex3 (key x) (key y)).
Proof.
  intros Hx Hy. destruct x as [sx|sx| |sx mx ex]; try (now elim Hx);
    destruct y as [sy|sy| |sy my ey]; try (now elim Hy);
    try destruct sx; try destruct sy; cbn [SFcompare key lex3]; try reflexivity.
  f_equal. change (-1 ?= -1) with Eq. cbv iota. rewrite (Z.compare_opp ex ey), (Z.compare_antisym ex ey).
  destruct (ex ?= ey); cbn [CompOpp]; reflexivity.
Qed.

(** the laws of the lexicographic order on triples of integers *)
Definition lt3 a b := match lex3 a b with Lt => true | _ => false end.
Definition le3 a b := match lex3 a b with Gt => false | _ => true end.
Definition eq3 a b := match lex3 a b with Eq => true | _ => false end.

Ltac lex_solve :=
  unfold lt3, le3, eq3, lex3;
  repeat match goal with p : (Z * Z * Z)%type |- _ => destruct p as [[? ?] ?] end;
  repeat match goal with
         | |- context [?a ?= ?b] => destruct (Z.compare_spec a b)
         | H : context [?a ?= ?b] |- _ => destruct (Z.compare_spec a b)
         end; subst; try reflexivity; try discriminate; try lia; auto.

Lemma le3_total a b : le3 a b = negb (lt3 b a). Proof. lex_solve. Qed.
Lemma lt3_le3 a b : lt3 a b = true -> le3 a b = true. Proof. lex_solve. Qed.
Lemma lt3_irrefl a : lt3 a a = false. Proof. lex_solve. Qed.
Lemma le3_trans a b c : le3 a b = true -> le3 b c = true -> le3 a c = true. Proof. lex_solve. Qed.
Lemma eq3_le3 a b : eq3 a b = (le3 a b && le3 b a). Proof. lex_solve. Qed.

Lemma SFltb_key x y : fok x -> fok y -> SFltb x y = lt3 (key x) (key y).
Proof. intros Hx Hy. unfold SFltb, lt3. now rewrite (SFcompare_key x y Hx Hy). Qed.
Lemma SFleb_key x y : fok x -> fok y -> SFleb x y = le3 (key x) (key y).
Proof. intros Hx Hy. unfold SFleb, le3. rewrite (SFcompare_key x y Hx Hy). now destruct (lex3 _ _). Qed.
Lemma SFeqb_key x y : fok x -> fok y -> SFeqb x y = eq3 (key x) (key y).
Proof. intros Hx Hy. unfold SFeqb, eq3. now rewrite (SFcompare_key x y Hx Hy). Qed.

Lemma SFltb_nan_l y : SFltb S754_nan y = false. Proof. reflexivity. Qed.
Lemma SFltb_le x y : SFltb x y = true -> SFleb x y = true.
Proof. unfold SFltb, SFleb. destruct (SFcompare x y) as [[| |]|]; try discriminate; reflexivity. Qed.

Lemma lex3_antisym a b : lex3 b a = CompOpp (lex3 a b).
Proof.
  destruct a as [[a1 a2] a3], b as [[b1 b2] b3]. unfold lex3.
  rewrite (Z.compare_antisym a1 b1), (Z.compare_antisym a2 b2), (Z.compare_antisym a3 b3).
  destruct (a1 ?= b1), (a2 ?= b2), (a3 ?= b3); reflexivity.
Qed.

Lemma fmin_cases x y : fok x -> fok y ->
  (fmin x y = x /\ le3 (key x) (key y) = true) \/ (fmin x y = y /\ lt3 (key y) (key x) = true).
Proof.
  intros Hx Hy. unfold fmin, le3, lt3. rewrite (SFcompare_key x y Hx Hy).
  pose proof (lex3_antisym (key x) (key y)) as A.
  rewrite A. destruct (lex3 (key x) (key y)); cbn; auto.
Qed.
Lemma fmax_cases x y : fok x -> fok y ->
  (fmax x y = x /\ le3 (key y) (key x) = true) \/ (fmax x y = y /\ lt3 (key x) (key y) = true).
Proof.
  intros Hx Hy. unfold fmax, le3, lt3. rewrite (SFcompare_key x y Hx Hy).
  pose proof (lex3_antisym (key x) (key y)) as A.
  rewrite A. destruct (lex3 (key x) (key y)); cbn; auto.
Qed.

Lemma NB_order : OrderLaws fok SFltb SFleb SFeqb fmin fmax.
Proof.
  constructor.
  - intros a b Ha Hb. rewrite SFleb_key, SFltb_key by assumption. apply le3_total.
  - intros a b. apply SFltb_le.
  - intros a. destruct a as [s|s| |s m e]; try reflexivity.
    + destruct s; reflexivity.
    + rewrite SFltb_key by discriminate. apply lt3_irrefl.
  - intros a b c Ha Hb Hc. rewrite !SFleb_key by assumption. apply le3_trans.
  - intros a b Ha Hb. rewrite SFeqb_key, !SFleb_key by assumption. apply eq3_le3.
  - intros a b Ha Hb. destruct (fmin_cases a b Ha Hb) as [[-> _]|[-> _]]; assumption.
  - intros a b Ha Hb. destruct (fmax_cases a b Ha Hb) as [[-> _]|[-> _]]; assumption.
  - intros a b Ha Hb. destruct (fmin_cases a b Ha Hb) as [[-> H]|[-> H]]; rewrite SFleb_key by assumption.
    + unfold le3. generalize (key a). intros k. rewrite <- (negb_involutive (match lex3 k k with Gt => false | _ => true end)).
      change (negb (negb (le3 k k)) = true). rewrite le3_total, lt3_irrefl. reflexivity.
    + now apply lt3_le3.
  - intros a b Ha Hb. destruct (fmin_cases a b Ha Hb) as [[-> H]|[-> H]]; rewrite SFleb_key by assumption.
    + exact H.
    + rewrite le3_total, lt3_irrefl. reflexivity.
  - intros a b c Ha Hb Hc H1 H2. destruct (fmin_cases a b Ha Hb) as [[-> _]|[-> _]]; assumption.
  - intros a b Ha Hb. destruct (fmax_cases a b Ha Hb) as [[-> H]|[-> H]]; rewrite SFleb_key by assumption.
    + rewrite le3_total, lt3_irrefl. reflexivity.
    + now apply lt3_le3.
  - intros a b Ha Hb. destruct (fmax_cases a b Ha Hb) as [[-> H]|[-> H]]; rewrite SFleb_key by assumption.
    + exact H.
    + rewrite le3_total, lt3_irrefl. reflexivity.
  - intros a b c Ha Hb Hc H1 H2. destruct (fmax_cases a b Ha Hb) as [[-> _]|[-> _]]; assumption.
Qed.

Lemma fok_pinf : fok (S754_infinity false). Proof. discriminate. Qed.
Lemma fok_ninf : fok (S754_infinity true). Proof. discriminate. Qed.
Lemma SFleb_pinf a : fok a -> SFleb a (S754_infinity false) = true.
Proof. intros Ha. destruct a as [s|s| |s m e]; try (now elim Ha); try destruct s; reflexivity. Qed.
Lemma SFleb_ninf a : fok a -> SFleb (S754_infinity true) a = true.
Proof. intros Ha. destruct a as [s|s| |s m e]; try (now elim Ha); try destruct s; reflexivity. Qed.

Definition NB_laws (prec emax : Z) : NumLaws (NB prec emax) :=
  @Build_NumLaws (NB prec emax) fok fok NB_order NB_order
    fok_pinf fok_ninf fok_pinf fok_ninf
    SFleb_pinf SFleb_ninf SFleb_pinf SFleb_ninf
    (eq_refl : ltX (NB prec emax) (ninfX (NB prec emax)) (pinfX (NB prec emax)) = true)
    (eq_refl : ltY (NB prec emax) (ninfY (NB prec emax)) (pinfY (NB prec emax)) = true).
