(** * [fill_queue.rs] and the [geo_types] glue it relies on
    ([Polygon::new] closes rings, [LineString::lines] = windows of two). *)
From Coq Require Import Bool List NArith PArith.
From GB Require Import Num Event Intersect Cmp Heap Outcome Divide.
Import ListNotations.
Set Implicit Arguments.

Section FillQueue.
Variable N : Num.
Notation store := (store N).
Notation pt := (pt N).

Definition ring := list pt.
Record polygon := mkPoly { exterior : ring; interiors : list ring }.

(** [LineString::close] *)
Definition close_ring (r : ring) : ring :=
  match r with
  | [] => []
  | h :: t => if pt_eq h (last t h) then h :: t else (h :: t) ++ [h]
  end.
(** [Polygon::new] *)
Definition polygon_new (ext : ring) (ints : list ring) : polygon :=
  mkPoly (close_ring ext) (map close_ring ints).

(** bounding box as in [helper.rs] *)
Record bounding_box := mkBB { bb_minx : X N; bb_miny : Y N; bb_maxx : X N; bb_maxy : Y N }.
Definition empty_bb : bounding_box := mkBB (pinfX N) (pinfY N) (ninfX N) (ninfY N).

Record fq := mkFQ { fq_st : store; fq_q : queue; fq_bb : bounding_box }.

Definition process_edge (s : fq) (is_subject : bool) (contour_id : N.t) (is_exterior : bool)
           (start end_ : pt) : fq :=
  if pt_eq start end_ then s
  else
    let '(st1, e1) := alloc (fq_st s) (new_event contour_id start false None is_subject is_exterior) in
    let '(st2, e2) := alloc st1 (new_event contour_id end_ false (Some e1) is_subject is_exterior) in
    let st3 := upd st2 e1 (fun e => set_other e (Some e2)) in
    let st4 := if ev_lt st3 e1 e2 then upd st3 e2 (fun e => set_left e true)
               else upd st3 e1 (fun e => set_left e true) in
    let bb := fq_bb s in
    let bb' := mkBB (minX N (bb_minx bb) (px start)) (minY N (bb_miny bb) (py start))
                    (maxX N (bb_maxx bb) (px start)) (maxY N (bb_maxy bb) (py start)) in
    let q1 := qpush st4 (fq_q s) e1 in
    let q2 := qpush st4 q1 e2 in
    mkFQ st4 q2 bb'.

Fixpoint process_ring_from (s : fq) (is_subject : bool) (contour_id : N.t) (is_exterior : bool)
         (prev : pt) (rest : ring) : fq :=
  match rest with
  | [] => s
  | p :: rest' =>
      process_ring_from (process_edge s is_subject contour_id is_exterior prev p)
                        is_subject contour_id is_exterior p rest'
  end.

(** [process_polygon] (one ring) *)
Definition process_ring (s : fq) (r : ring) (is_subject : bool) (contour_id : N.t) (is_exterior : bool) : fq :=
  match r with
  | [] => s
  | p :: rest => process_ring_from s is_subject contour_id is_exterior p rest
  end.

Definition process_interiors (s : fq) (ints : list ring) (is_subject : bool) (contour_id : N.t) : fq :=
  fold_left (fun acc r => process_ring acc r is_subject contour_id false) ints s.

Fixpoint fill_subject (s : fq) (cid : N.t) (ps : list polygon) : fq * N.t :=
  match ps with
  | [] => (s, cid)
  | p :: rest =>
      let cid' := N.succ cid in
      let s1 := process_ring s (exterior p) true cid' true in
      let s2 := process_interiors s1 (interiors p) true cid' in
      fill_subject s2 cid' rest
  end.

Fixpoint fill_clipping (s : fq) (cid : N.t) (op : operation) (ps : list polygon) : fq * N.t :=
  match ps with
  | [] => (s, cid)
  | p :: rest =>
      let ext := negb (operation_eqb op Difference) in
      let cid' := if ext then N.succ cid else cid in
      let s1 := process_ring s (exterior p) false cid' ext in
      let s2 := process_interiors s1 (interiors p) false cid' in
      fill_clipping s2 cid' op rest
  end.

Record filled := mkFilled { f_st : store; f_q : queue; f_sbbox : bounding_box; f_cbbox : bounding_box }.

Definition fill_queue (subject clipping : list polygon) (op : operation) : filled :=
  let '(s1, cid) := fill_subject (mkFQ (empty_store N) [] empty_bb) 0%N subject in
  let '(s2, _) := fill_clipping (mkFQ (fq_st s1) (fq_q s1) empty_bb) cid op clipping in
  mkFilled (fq_st s2) (fq_q s2) (fq_bb s1) (fq_bb s2).

End FillQueue.
