(** Cutting an edge at a point strictly inside it (what the sweep does to an exterior edge that a
    hole vertex or a vertex of another ring touches) does not change any crossing count, hence
    not the even-odd region: the half-open spans [lx, rx) of the two pieces partition the span of
    the edge and both pieces lie on its line.  With [BoundaryRegion] this is why the run-time
    comparison of results is made on boundaries with collinear runs merged. *)
From Coq Require Import QArith List Bool Arith Lia Lqa.
From GB Require Import Slab BoundaryRegion.
Import ListNotations.

Lemma Qle_bool_false a b : Qle_bool a b = false -> b < a.
Proof.
  intros H. destruct (Qlt_le_dec b a) as [L|L]; [exact L|]. apply Qle_bool_iff in L. congruence.
Qed.
Lemma Qle_bool_lt_false a b : b < a -> Qle_bool a b = false.
Proof.
  intros H. destruct (Qle_bool a b) eqn:E; [|reflexivity]. apply Qle_bool_iff in E.
  exfalso. exact (Qlt_not_le _ _ H E).
Qed.
Lemma Qle_bool_true a b : a <= b -> Qle_bool a b = true.
Proof. apply Qle_bool_iff. Qed.

Lemma Qltb_compat a b c : a == b -> Qltb a c = Qltb b c.
Proof.
  intros E. unfold Qltb. f_equal.
  destruct (Qle_bool c a) eqn:A, (Qle_bool c b) eqn:B; try reflexivity.
  - apply Qle_bool_iff in A. rewrite E in A. apply Qle_bool_iff in A. congruence.
  - apply Qle_bool_iff in B. rewrite <- E in B. apply Qle_bool_iff in B. congruence.
Qed.

Lemma spans_in e x : lx e <= x -> x < rx e -> spans e x = true.
Proof. intros A B. unfold spans, Qltb. now rewrite (Qle_bool_true _ _ A), (Qle_bool_lt_false _ _ B). Qed.
Lemma spans_left e x : x < lx e -> spans e x = false.
Proof. intros A. unfold spans. now rewrite (Qle_bool_lt_false _ _ A). Qed.
Lemma spans_right e x : rx e <= x -> spans e x = false.
Proof. intros A. unfold spans, Qltb. rewrite (Qle_bool_true _ _ A). now rewrite andb_false_r. Qed.

Lemma mk_edge_lt a b : qx a < qx b -> mk_edge a b = mkEdge a b.
Proof. intros H. unfold mk_edge. now rewrite (Qle_bool_true _ _ (Qlt_le_weak _ _ H)). Qed.

Section Split.
Variables a m b : qpt.
Hypothesis Ham : qx a < qx m.
Hypothesis Hmb : qx m < qx b.
(** [m] lies on the line through [a] and [b] *)
Hypothesis Hon : (qy m - qy a) * (qx b - qx a) == (qy b - qy a) * (qx m - qx a).

Lemma y_at_left x : y_at (mkEdge a m) x == y_at (mkEdge a b) x.
Proof.
  unfold y_at, slope, lx, rx; cbn [el er].
  assert (D1 : ~ qx m - qx a == 0) by (intros E; apply (Qlt_not_eq _ _ Ham); lra).
  assert (D2 : ~ qx b - qx a == 0) by (intros E; assert (qx a < qx b) by (eapply Qlt_trans; eassumption); lra).
  assert (S : (qy m - qy a) / (qx m - qx a) == (qy b - qy a) / (qx b - qx a)).
  { apply (Qmult_inj_r _ _ ((qx m - qx a) * (qx b - qx a))).
    - intros E. apply Qmult_integral in E. tauto.
    - transitivity ((qy m - qy a) * (qx b - qx a)); [field; exact D1|].
      rewrite Hon. field; exact D2. }
  rewrite S. reflexivity.
Qed.

Lemma y_at_right x : y_at (mkEdge m b) x == y_at (mkEdge a b) x.
Proof.
  unfold y_at, slope, lx, rx; cbn [el er].
  assert (D1 : ~ qx m - qx a == 0) by (intros E; apply (Qlt_not_eq _ _ Ham); lra).
  assert (D2 : ~ qx b - qx a == 0) by (intros E; assert (qx a < qx b) by (eapply Qlt_trans; eassumption); lra).
  assert (D3 : ~ qx b - qx m == 0) by (intros E; apply (Qlt_not_eq _ _ Hmb); lra).
  (* qy m = qy a + (qx m - qx a) * s  and  (qy b - qy m) / (qx b - qx m) = s *)
  set (s := (qy b - qy a) / (qx b - qx a)).
  assert (M : qy m == qy a + (qx m - qx a) * s).
  { unfold s. apply (Qmult_inj_r _ _ (qx b - qx a)); [exact D2|].
    transitivity (qy a * (qx b - qx a) + (qy m - qy a) * (qx b - qx a)); [ring|].
    rewrite Hon. field; exact D2. }
  assert (S : (qy b - qy m) / (qx b - qx m) == s).
  { rewrite M. unfold s. field. split; [exact D2 | exact D3]. }
  rewrite S, M. ring.
Qed.

Lemma split_edge_below p :
  length (filter (fun e => below e p) [mk_edge a b])
  = length (filter (fun e => below e p) [mk_edge a m; mk_edge m b]).
Proof.
  assert (Hab : qx a < qx b) by (eapply Qlt_trans; eassumption).
  rewrite (mk_edge_lt _ _ Hab), (mk_edge_lt _ _ Ham), (mk_edge_lt _ _ Hmb).
  cbn [filter]. unfold below.
  destruct (Qlt_le_dec (qx p) (qx a)) as [L1|L1].
  - rewrite (spans_left (mkEdge a b)), (spans_left (mkEdge a m)), (spans_left (mkEdge m b)); unfold lx; cbn [el];
      [reflexivity | eapply Qlt_trans; eassumption | exact L1 | exact L1].
  - destruct (Qlt_le_dec (qx p) (qx m)) as [L2|L2].
    + rewrite (spans_in (mkEdge a b)), (spans_in (mkEdge a m)), (spans_left (mkEdge m b)); unfold lx, rx; cbn [el er];
        [| exact L2 | exact L1 | exact L2 | exact L1 | eapply Qlt_trans; eassumption].
      cbn [andb]. rewrite (Qltb_compat _ _ (qy p) (y_at_left (qx p))).
      destruct (Qltb (y_at (mkEdge a b) (qx p)) (qy p)); reflexivity.
    + destruct (Qlt_le_dec (qx p) (qx b)) as [L3|L3].
      * rewrite (spans_in (mkEdge a b)), (spans_right (mkEdge a m)), (spans_in (mkEdge m b)); unfold lx, rx; cbn [el er];
          [| exact L2 | exact L3 | exact L2 | exact L1 | exact L3].
        cbn [andb]. rewrite (Qltb_compat _ _ (qy p) (y_at_right (qx p))).
        destruct (Qltb (y_at (mkEdge a b) (qx p)) (qy p)); reflexivity.
      * rewrite (spans_right (mkEdge a b)), (spans_right (mkEdge a m)), (spans_right (mkEdge m b)); unfold rx; cbn [er];
          [reflexivity | exact L3 | eapply Qle_trans; [apply Qlt_le_weak; exact Hmb | exact L3] | exact L3].
Qed.

Theorem split_edge_crossings p : crossings [mk_edge a b] p = crossings [mk_edge a m; mk_edge m b] p.
Proof. exact (split_edge_below p). Qed.
End Split.

(** the hypotheses are satisfiable: (1,1) on the edge from (0,0) to (2,2) *)
Example split_example :
  let a := mkQpt 0 0 in let m := mkQpt 1 1 in let b := mkQpt 2 2 in
  qx a < qx m /\ qx m < qx b /\ (qy m - qy a) * (qx b - qx a) == (qy b - qy a) * (qx m - qx a).
Proof. cbn. repeat split; reflexivity. Qed.
