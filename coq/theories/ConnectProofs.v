(** * The contour stage cannot index out of the result-event vector (C03).

    [connect_edges.rs] indexes [result_events] and [iteration_map] with positions it computes
    itself: the successor table of [precompute_iteration_order], and the [other_pos] fields
    that [order_events] writes and exchanges.  Here, for every numeric instance, every store
    and every event vector whose result events are closed under the partner link
    ([closed]: the partner of a left result event is itself selected — what the link
    invariant of the sweep, C13, provides):

      [precompute_range]          the successor table has the length of the vector and all its
                                  entries are valid positions;
      [order_events_positions]    after [order_events] every selected event carries a valid
                                  position in [other_pos];
      [connect_edges_index_safe]  [connect_edges] never stops at the panic site
                                  [PIndexResultEvents] (result_events[pos] / iteration_map[pos]). *)
From Coq Require Import Bool List ZArith NArith PArith Arith Lia Permutation.
From GB Require Import Prim Num Event Cmp Heap Outcome Connect FieldsProofs SortProofs.
Import ListNotations.

Section ConnectProofs.
Variable N : Num.
Variable cfg : config.
Notation store := (store N).

(** ** the successor table *)

Lemma hset_Forall (P : nat -> Prop) : forall (l : list nat) i v, Forall P l -> P v -> Forall P (hset l i v).
Proof.
  induction l as [|a l IH]; intros [|i] v Hl Hv; cbn [hset]; auto;
    inversion Hl; subst; constructor; auto.
Qed.
Lemma hset_len : forall (l : list nat) i v, length (hset l i v) = length l.
Proof. induction l as [|a l IH]; intros [|i] v; cbn [hset length]; auto. Qed.

Lemma group_entries_range r nr nl k v :
  In (k, v) (group_entries r nr nl) -> r <= k < r + nr + nl /\ r <= v < r + nr + nl.
Proof.
  unfold group_entries. rewrite !psub_eq. intros H.
  apply in_app_or in H. destruct H as [H|H].
  - destruct (Nat.ltb_spec 0 nr) as [Hr|Hr]; [|destruct H].
    apply in_app_or in H. destruct H as [H|H].
    + apply in_map_iff in H. destruct H as (j & E & Hj). inversion E; subst.
      apply in_seq in Hj. lia.
    + destruct H as [E|[]]. inversion E; subst.
      destruct (Nat.ltb_spec 0 nl); lia.
  - destruct (Nat.ltb_spec 0 nl) as [Hl|Hl]; [|destruct H].
    apply in_app_or in H. destruct H as [H|H].
    + apply in_map_iff in H. destruct H as (j & E & Hj). inversion E; subst.
      rewrite psub_eq. apply in_seq in Hj. lia.
    + destruct H as [E|[]]. inversion E; subst.
      destruct (Nat.ltb_spec 0 nr); lia.
Qed.

Lemma span_len_le (A : Type) (f : A -> bool) : forall l, span_len f l <= length l.
Proof. induction l as [|x l IH]; cbn [span_len length]; [lia|]. destruct (f x); lia. Qed.

Lemma iteration_groups_range : forall fuel (st : store) data i entries,
  iteration_groups cfg fuel st data i = Ok entries ->
  forall k v, In (k, v) entries -> k < i + length data /\ v < i + length data.
Proof.
  induction fuel as [|f IH]; intros st data i entries H k v Hin.
  - destruct data; cbn in H; [inversion H; subst; destruct Hin | discriminate].
  - destruct data as [|x tl]; [cbn in H; inversion H; subst; destruct Hin|].
    cbn [iteration_groups] in H.
    set (data0 := x :: tl) in *.
    set (nr := span_len (fun e => ident st x e && negb (e_left (getE st e))) data0) in *.
    set (data1 := skipn nr data0) in *.
    set (nl := span_len (fun e => ident st x e) data1) in *.
    assert (Hnr : nr <= length data0) by apply span_len_le.
    assert (Hnl : nl <= length data1) by apply span_len_le.
    assert (Hl1 : length data1 = length data0 - nr) by (unfold data1; apply skipn_length).
    destruct (c_debug cfg && negb (forallb (fun e => e_left (getE st e)) (firstn nl data1))); [discriminate|].
    destruct (Nat.eqb (nr + nl) 0); [discriminate|].
    destruct (iteration_groups cfg f st (skipn nl data1) (i + nr + nl)) as [rest| |] eqn:E; cbn [obind] in H; try discriminate.
    inversion H; subst entries. apply in_app_or in Hin. destruct Hin as [Hin|Hin].
    + apply group_entries_range in Hin. lia.
    + destruct (IH _ _ _ _ E k v Hin) as [A B]. rewrite skipn_length in A, B. lia.
Qed.

Lemma fold_hset_inv (n : nat) : forall (entries : list (nat * nat)) (m : list nat),
  length m = n -> Forall (fun v => v < n) m ->
  (forall k v, In (k, v) entries -> v < n) ->
  let m' := fold_left (fun m e => hset m (fst e) (snd e)) entries m in
  length m' = n /\ Forall (fun v => v < n) m'.
Proof.
  induction entries as [|[k v] rest IH]; intros m Hl Hf He; cbn [fold_left]; [now split|].
  apply IH.
  - now rewrite hset_len.
  - apply hset_Forall; [exact Hf|]. apply (He k v). now left.
  - intros k' v' H. apply (He k' v'). now right.
Qed.

Theorem precompute_range (st : store) data map :
  precompute_iteration_order cfg st data = Ok map ->
  length map = length data /\ Forall (fun v => v < length map) map.
Proof.
  unfold precompute_iteration_order.
  destruct (iteration_groups cfg (S (length data)) st data 0) as [entries| |] eqn:E; cbn [obind]; try discriminate.
  intros H. inversion H; subst map. clear H.
  destruct data as [|x tl].
  - cbn in E. inversion E; subst. cbn. split; [reflexivity|constructor].
  - set (n := length (x :: tl)) in *.
    assert (Hn : 0 < n) by (unfold n; cbn; lia).
    destruct (fold_hset_inv n entries (repeat 0 n)) as [A B].
    + apply repeat_length.
    + apply Forall_forall. intros v Hv. apply repeat_spec in Hv. lia.
    + intros k v Hin. apply (iteration_groups_range _ _ _ _ _ E k v Hin).
    + split; [exact A|]. rewrite A. exact B.
Qed.

(** ** following the table stays inside it *)
Lemma in_range_iff i n : in_range i n = true <-> (0 <= i < Z.of_nat n)%Z.
Proof. unfold in_range. rewrite andb_true_iff, Z.leb_le, Z.ltb_lt. tauto. Qed.

Lemma get_next_pos_loop_safe (map : list nat) (p : processed) (start : Z) :
  Forall (fun v => v < length map) map ->
  forall fuel pos, in_range pos (length map) = true ->
  match get_next_pos_loop fuel pos start p map with
  | Ok (Some q) => in_range q (length map) = true
  | Ok None => True
  | Panic _ => False
  | OutOfFuel => True
  end.
Proof.
  intros Hf. induction fuel as [|f IH]; intros pos Hp; cbn [get_next_pos_loop]; [exact I|].
  rewrite Hp. cbn [negb].
  assert (Hq : in_range (Z.of_nat (nth (Z.to_nat pos) map 0)) (length map) = true).
  { apply in_range_iff. apply in_range_iff in Hp.
    assert (K : nth (Z.to_nat pos) map 0 < length map).
    { rewrite Forall_forall in Hf. apply Hf. apply nth_In. lia. }
    lia. }
  destruct (Z.eqb _ start); [exact I|].
  destruct (negb (is_processed p _)); [exact Hq|].
  apply IH. exact Hq.
Qed.

(** ** positions written by [order_events] *)
Definition opos (st : store) (i : eid) : Z := e_other_pos (getE st i).

(** updates of [other_pos] / [output_contour_id] leave the flags the selection looks at alone *)
Definition same_flags (st st' : store) : Prop :=
  forall j, e_left (getE st' j) = e_left (getE st j) /\ e_other (getE st' j) = e_other (getE st j).

Lemma same_flags_refl st : same_flags st st. Proof. intros j; split; reflexivity. Qed.
Lemma same_flags_trans a b c : same_flags a b -> same_flags b c -> same_flags a c.
Proof. intros H1 H2 j. destruct (H1 j) as [A B], (H2 j) as [C D]. split; congruence. Qed.
Lemma same_flags_upd_pos st i z : same_flags st (upd st i (fun e => set_other_pos e z)).
Proof.
  intros j. destruct (Pos.eq_dec i j) as [->|Hne].
  - rewrite getE_upd_same. split; reflexivity.
  - rewrite getE_upd_other by exact Hne. split; reflexivity.
Qed.
Lemma same_flags_upd_occ st i z : same_flags st (upd st i (fun e => set_output_contour_id e z)).
Proof.
  intros j. destruct (Pos.eq_dec i j) as [->|Hne].
  - rewrite getE_upd_same. split; reflexivity.
  - rewrite getE_upd_other by exact Hne. split; reflexivity.
Qed.

Lemma set_positions_frame : forall l (st : store) p j, ~ In j l -> getE (set_positions st l p) j = getE st j.
Proof.
  induction l as [|i rest IH]; intros st p j Hj; cbn [set_positions]; [reflexivity|].
  rewrite IH by (intros H; apply Hj; now right).
  apply getE_upd_other. intros ->. apply Hj. now left.
Qed.
Lemma set_positions_flags : forall l (st : store) p, same_flags st (set_positions st l p).
Proof.
  induction l as [|i rest IH]; intros st p; cbn [set_positions]; [apply same_flags_refl|].
  eapply same_flags_trans; [apply same_flags_upd_pos | apply IH].
Qed.

Lemma set_positions_range : forall l (st : store) p j,
  In j l -> (p <= opos (set_positions st l p) j < p + Z.of_nat (length l))%Z.
Proof.
  induction l as [|i rest IH]; intros st p j Hj; [destruct Hj|].
  cbn [set_positions length].
  destruct (in_dec Pos.eq_dec j rest) as [Hr|Hr].
  - specialize (IH (upd st i (fun e => set_other_pos e p)) (p + 1)%Z j Hr). lia.
  - destruct Hj as [->|Hj]; [|contradiction].
    unfold opos. rewrite set_positions_frame by exact Hr. rewrite getE_upd_same. cbn. lia.
Qed.

(** all members of [l] carry a position below [n] *)
Definition ranged (n : nat) (st : store) (l : list eid) : Prop :=
  forall i, In i l -> in_range (opos st i) n = true.

(** the partner of a left member is a member *)
Definition closed (st : store) (l : list eid) : Prop :=
  forall i o, In i l -> e_left (getE st i) = true -> e_other (getE st i) = Some o -> In o l.

Lemma closed_flags st st' l : same_flags st st' -> closed st l -> closed st' l.
Proof.
  intros F C i o Hi Hl Ho. destruct (F i) as [A B]. rewrite A in Hl. rewrite B in Ho. exact (C i o Hi Hl Ho).
Qed.

Lemma swap_positions_flags : forall rest (st : store), same_flags st (swap_positions st rest).
Proof.
  induction rest as [|i rest IH]; intros st; cbn [swap_positions]; [apply same_flags_refl|].
  eapply same_flags_trans; [|apply IH].
  destruct (e_left (getE st i)); [|apply same_flags_refl].
  destruct (e_other (getE st i)) as [o|]; [|apply same_flags_refl].
  eapply same_flags_trans; apply same_flags_upd_pos.
Qed.

Lemma swap_positions_ranged n l : forall rest (st : store),
  incl rest l -> closed st l -> ranged n st l -> ranged n (swap_positions st rest) l.
Proof.
  induction rest as [|i rest IH]; intros st Hin C R; cbn [swap_positions]; [exact R|].
  assert (Hi : In i l) by (apply Hin; now left).
  assert (Hrest : incl rest l) by (intros x Hx; apply Hin; now right).
  destruct (e_left (getE st i)) eqn:El; [|now apply IH].
  destruct (e_other (getE st i)) as [o|] eqn:Eo; [|now apply IH].
  assert (Ho : In o l) by exact (C i o Hi El Eo).
  apply IH; [exact Hrest| |].
  - eapply closed_flags; [|exact C]. eapply same_flags_trans; apply same_flags_upd_pos.
  - intros j Hj. unfold opos.
    destruct (Pos.eq_dec o j) as [->|Hoj].
    + rewrite getE_upd_same. cbn. apply (R i Hi).
    + rewrite getE_upd_other by exact Hoj.
      destruct (Pos.eq_dec i j) as [->|Hij].
      * rewrite getE_upd_same. cbn. apply (R o Ho).
      * rewrite getE_upd_other by exact Hij. apply (R j Hj).
Qed.

Lemma bubble_sort_perm : forall fuel (st : store) l l', bubble_sort fuel st l = Ok l' -> Permutation l l'.
Proof.
  induction fuel as [|f IH]; intros st l l' H; destruct l as [|x rest]; cbn [bubble_sort] in H;
    try (inversion H; subst; constructor).
  - pose proof (bubble_pass_perm N st rest x) as P. destruct (bubble_pass st x rest) as [l1 sw]. cbn [fst] in P.
    destruct sw; [discriminate|]. inversion H; subst. exact P.
  - pose proof (bubble_pass_perm N st rest x) as P. destruct (bubble_pass st x rest) as [l1 sw]. cbn [fst] in P.
    destruct sw.
    + eapply Permutation_trans; [exact P|]. now apply (IH st).
    + inversion H; subst. exact P.
Qed.

Theorem order_events_positions fuel (st : store) sorted_events st1 res :
  closed st (filter (in_result_filter st) sorted_events) ->
  order_events fuel st sorted_events = Ok (st1, res) ->
  ranged (length res) st1 res /\ same_flags st st1 /\
  Permutation (filter (in_result_filter st) sorted_events) res.
Proof.
  intros C. unfold order_events.
  destruct (bubble_sort fuel st (filter (in_result_filter st) sorted_events)) as [s| |] eqn:E; cbn [obind]; try discriminate.
  intros H. inversion H; subst st1 res. clear H.
  pose proof (bubble_sort_perm _ _ _ _ E) as P.
  assert (C' : closed st s).
  { intros i o Hi Hl Ho. apply (Permutation_in _ P). apply (C i o); try assumption.
    apply (Permutation_in _ (Permutation_sym P)). exact Hi. }
  split; [|split; [|exact P]].
  - apply swap_positions_ranged.
    + apply incl_refl.
    + eapply closed_flags; [apply set_positions_flags | exact C'].
    + intros i Hi. apply in_range_iff. pose proof (set_positions_range s st 0%Z i Hi). lia.
  - eapply same_flags_trans; [apply set_positions_flags | apply swap_positions_flags].
Qed.

(** ** the walk *)
Lemma nth_ev_in (res : list eid) pos : in_range pos (length res) = true -> In (nth_ev res pos) res.
Proof. intros H. apply in_range_iff in H. unfold nth_ev. apply nth_In. lia. Qed.

Lemma opos_mark (w : walk N) res pos cid j : opos (w_st (mark w res pos cid)) j = opos (w_st w) j.
Proof.
  unfold mark, opos. cbn [w_st]. destruct (Pos.eq_dec (nth_ev res pos) j) as [->|Hne].
  - rewrite getE_upd_same. reflexivity.
  - rewrite getE_upd_other by exact Hne. reflexivity.
Qed.

Lemma ranged_mark n (w : walk N) res pos cid l : ranged n (w_st w) l -> ranged n (w_st (mark w res pos cid)) l.
Proof. intros R i Hi. rewrite opos_mark. exact (R i Hi). Qed.

Definition no_index_panic {T : Type} (o : outcome T) : Prop := o <> Panic PIndexResultEvents.

Lemma walk_loop_safe (res : list eid) (map : list nat) (cid : Z) (initial : pt N) :
  length map = length res -> Forall (fun v => v < length map) map ->
  forall fuel (w : walk N) pos,
  ranged (length res) (w_st w) res -> in_range pos (length res) = true ->
  match walk_loop fuel w res map pos cid initial with
  | Ok w' => ranged (length res) (w_st w') res
  | Panic s => s <> PIndexResultEvents
  | OutOfFuel => True
  end.
Proof.
  intros Hlen Hf. induction fuel as [|f IH]; intros w pos R Hp; cbn [walk_loop]; [exact I|].
  set (w1 := mark w res pos cid).
  assert (R1 : ranged (length res) (w_st w1) res) by now apply ranged_mark.
  assert (Hp1 : in_range (e_other_pos (getE (w_st w1) (nth_ev res pos))) (length res) = true).
  { apply (R1 (nth_ev res pos)). now apply nth_ev_in. }
  rewrite Hp1. cbn [negb].
  set (pos1 := e_other_pos (getE (w_st w1) (nth_ev res pos))) in *.
  set (w2 := mark w1 res pos1 cid).
  assert (R2 : ranged (length res) (w_st w2) res) by now apply ranged_mark.
  cbn [w_st w_processed].
  pose proof (get_next_pos_loop_safe map (w_processed w2) pos1 Hf (S (length map)) pos1) as G.
  rewrite Hlen in G at 1. specialize (G Hp1).
  unfold get_next_pos.
  destruct (get_next_pos_loop (S (length map)) pos1 pos1 (w_processed w2) map) as [[q|]| |]; cbn [obind].
  - destruct (pt_eq _ initial); [exact R2|].
    apply IH; [exact R2|]. rewrite <- Hlen. exact G.
  - exact R2.
  - destruct G.
  - exact I.
Qed.

Lemma contours_loop_safe (res : list eid) (map : list nat) :
  length map = length res -> Forall (fun v => v < length map) map ->
  forall idxs (st : store) p contours,
  (forall i, In i idxs -> i < length res) ->
  ranged (length res) st res ->
  no_index_panic (contours_loop cfg idxs st p res map contours).
Proof.
  intros Hlen Hf. induction idxs as [|i rest IH]; intros st p contours Hi R; cbn [contours_loop]; [discriminate|].
  assert (Hrest : forall j, In j rest -> j < length res) by (intros j Hj; apply Hi; now right).
  destruct (is_processed p (Z.of_nat i)); [now apply IH|].
  destruct (initialize_from_context cfg st (nth_ev res (Z.of_nat i)) contours (Z.of_nat (length contours)))
    as [[contours1 c]|s|] eqn:E; cbn [obind].
  - assert (Hp : in_range (Z.of_nat i) (length res) = true).
    { apply in_range_iff. specialize (Hi i (or_introl eq_refl)). lia. }
    pose proof (walk_loop_safe res map (Z.of_nat (length contours)) (point_of st (nth_ev res (Z.of_nat i)))
                  Hlen Hf (S (length res)) (mkWalk st p [point_of st (nth_ev res (Z.of_nat i))]) (Z.of_nat i) R Hp) as W.
    destruct (walk_loop _ _ _ _ _ _ _) as [w| s |]; cbn [obind].
    + apply IH; [exact Hrest | exact W].
    + intros K. inversion K. contradiction.
    + discriminate.
  - (* initialize_from_context only has the contour-vector sites *)
    intros K. inversion K; subst s. clear K. revert E. unfold initialize_from_context.
    repeat match goal with
           | |- context [match ?x with Some _ => _ | None => _ end] => destruct x
           | |- context [if ?c then _ else _] => destruct c
           end; discriminate.
  - discriminate.
Qed.

(** ** C03: no out-of-range access to [result_events] / [iteration_map] *)
Theorem connect_edges_index_safe fuel (st : store) sorted_events :
  closed st (filter (in_result_filter st) sorted_events) ->
  connect_edges cfg fuel st sorted_events <> Panic PIndexResultEvents.
Proof.
  intros C. unfold connect_edges.
  destruct (order_events fuel st sorted_events) as [[st1 res]|s|] eqn:E; cbn [obind].
  - destruct (order_events_positions _ _ _ _ _ C E) as (R & _ & _).
    destruct (precompute_iteration_order cfg st1 res) as [map|s|] eqn:Em; cbn [obind].
    + destruct (precompute_range _ _ _ Em) as [Hlen Hf].
      pose proof (contours_loop_safe res map Hlen Hf (seq 0 (length res)) st1 [] []) as K.
      assert (K' : no_index_panic (contours_loop cfg (seq 0 (length res)) st1 [] res map [])).
      { apply K; [|exact R]. intros i Hi. apply in_seq in Hi. lia. }
      destruct (contours_loop cfg (seq 0 (length res)) st1 [] res map []) as [r2|s|]; cbn [obind]; try discriminate.
      intros Q. apply K'. inversion Q. reflexivity.
    + (* the table construction only has the debug assertion *)
      intros K. inversion K; subst s. clear K. revert Em. unfold precompute_iteration_order.
      destruct (iteration_groups cfg (S (length res)) st1 res 0) as [en|s|] eqn:Eg; cbn [obind]; try discriminate.
      intros K. inversion K; subst s. clear K.
      assert (G : forall fuel data i, iteration_groups cfg fuel st1 data i <> Panic PIndexResultEvents).
      { clear. induction fuel as [|f IH]; intros data i; destruct data as [|x tl]; cbn [iteration_groups]; try discriminate.
        destruct (c_debug cfg && _); [discriminate|]. destruct (Nat.eqb _ 0); [discriminate|].
        specialize (IH (skipn (span_len (fun e => ident st1 x e) (skipn (span_len (fun e => ident st1 x e && negb (e_left (getE st1 e))) (x :: tl)) (x :: tl)))
                              (skipn (span_len (fun e => ident st1 x e && negb (e_left (getE st1 e))) (x :: tl)) (x :: tl)))
                       (i + span_len (fun e => ident st1 x e && negb (e_left (getE st1 e))) (x :: tl)
                        + span_len (fun e => ident st1 x e) (skipn (span_len (fun e => ident st1 x e && negb (e_left (getE st1 e))) (x :: tl)) (x :: tl)))).
        destruct (iteration_groups cfg f st1 _ _); cbn [obind]; try discriminate. exact IH. }
      exact (G _ _ _ Eg).
    + discriminate.
  - (* order_events: the bubble sort has no panic site *)
    intros K. inversion K; subst s. clear K. revert E. unfold order_events.
    assert (G : forall fuel l, bubble_sort fuel st l <> Panic PIndexResultEvents).
    { clear. induction fuel as [|f IH]; intros l; destruct l as [|x rest]; cbn [bubble_sort]; try discriminate.
      - destruct (bubble_pass st x rest) as [l1 sw]. destruct sw; discriminate.
      - destruct (bubble_pass st x rest) as [l1 sw]. destruct sw; [apply IH | discriminate]. }
    destruct (bubble_sort fuel st _) eqn:Eb; cbn [obind]; try discriminate.
    intros K. inversion K; subst. exact (G _ _ Eb).
  - discriminate.
Qed.


(** ** The successor table is a union of cycles: [get_next_pos] terminates

    Each vertex group [r, r + nr + nl) of the table is one cycle
    r -> r+1 -> ... -> r+nr-1 -> r+nr+nl-1 -> ... -> r+nr -> r, so that the search of
    [get_next_pos] is back at its start after at most [nr + nl] steps. *)

Fixpoint assoc_last (k : nat) (es : list (nat * nat)) (d : nat) : nat :=
  match es with
  | [] => d
  | e :: rest => assoc_last k rest (if Nat.eqb k (fst e) then snd e else d)
  end.

Lemma nth_hset_eq : forall (l : list nat) i v, i < length l -> nth i (hset l i v) 0 = v.
Proof. induction l as [|a l IH]; intros [|i] v H; cbn [length] in H; cbn [hset nth]; try lia; auto. apply IH. lia. Qed.
Lemma nth_hset_neq : forall (l : list nat) i j v, i <> j -> nth j (hset l i v) 0 = nth j l 0.
Proof. induction l as [|a l IH]; intros [|i] [|j] v H; cbn [hset nth]; try reflexivity; try congruence. apply IH. congruence. Qed.

Lemma fold_hset_nth : forall (es : list (nat * nat)) (m : list nat) k, k < length m ->
  nth k (fold_left (fun m e => hset m (fst e) (snd e)) es m) 0 = assoc_last k es (nth k m 0).
Proof.
  induction es as [|e rest IH]; intros m k Hk; cbn [fold_left assoc_last]; [reflexivity|].
  rewrite IH by now rewrite hset_len.
  destruct (Nat.eqb_spec k (fst e)) as [E|E].
  - rewrite <- E. now rewrite nth_hset_eq.
  - rewrite nth_hset_neq by congruence. reflexivity.
Qed.

Lemma assoc_last_app k : forall es1 es2 d, assoc_last k (es1 ++ es2) d = assoc_last k es2 (assoc_last k es1 d).
Proof. induction es1 as [|e es1 IH]; intros es2 d; cbn [app assoc_last]; auto. Qed.
Lemma assoc_last_absent k : forall es d, (forall v, ~ In (k, v) es) -> assoc_last k es d = d.
Proof.
  induction es as [|[k' v'] es IH]; intros d H; cbn [assoc_last fst snd]; [reflexivity|].
  destruct (Nat.eqb_spec k k') as [->|E]; [exfalso; apply (H v'); now left|].
  apply IH. intros v Hv. apply (H v). now right.
Qed.
Lemma assoc_last_seq k (f : nat -> nat) : forall len a d,
  assoc_last k (map (fun j => (j, f j)) (seq a len)) d = if (a <=? k) && (k <? a + len) then f k else d.
Proof.
  induction len as [|len IH]; intros a d; cbn [seq map assoc_last fst snd].
  - destruct (Nat.leb_spec a k), (Nat.ltb_spec k (a + 0)); cbn; try reflexivity; lia.
  - rewrite IH. destruct (Nat.eqb_spec k a) as [->|E].
    + destruct (Nat.leb_spec (S a) a), (Nat.leb_spec a a), (Nat.ltb_spec a (a + S len)); cbn; try reflexivity; lia.
    + destruct (Nat.leb_spec (S a) k), (Nat.ltb_spec k (S a + len)), (Nat.leb_spec a k), (Nat.ltb_spec k (a + S len));
        cbn; try reflexivity; lia.
Qed.

(** the successor inside the group [(r, nr, nl)] *)
Definition succ_blk (r nr nl k : nat) : nat :=
  if k <? r + nr then
    (if k <? r + nr - 1 then k + 1 else if 0 <? nl then r + nr + nl - 1 else r)
  else
    (if r + nr <? k then k - 1 else if 0 <? nr then r else r + nr + nl - 1).

Lemma group_lookup r nr nl k d : r <= k < r + nr + nl -> assoc_last k (group_entries r nr nl) d = succ_blk r nr nl k.
Proof.
  intros Hk. unfold group_entries, succ_blk. rewrite !psub_eq.
  rewrite assoc_last_app.
  destruct (Nat.ltb_spec 0 nr) as [Hr|Hr]; destruct (Nat.ltb_spec 0 nl) as [Hl|Hl];
    cbn [assoc_last]; rewrite ?assoc_last_app; cbn [assoc_last fst snd];
    rewrite ?(assoc_last_seq k (fun j => j + 1)), ?(assoc_last_seq k (fun j => psub j 1)), ?psub_eq;
    repeat match goal with
           | |- context [Nat.eqb ?a ?b] => destruct (Nat.eqb_spec a b)
           | |- context [Nat.ltb ?a ?b] => destruct (Nat.ltb_spec a b)
           | |- context [Nat.leb ?a ?b] => destruct (Nat.leb_spec a b)
           end; cbn [andb]; try lia.
Qed.

(** lower bound on the keys of later groups *)
Lemma iteration_groups_lower : forall fuel (st : store) data i entries,
  iteration_groups cfg fuel st data i = Ok entries -> forall k v, In (k, v) entries -> i <= k.
Proof.
  induction fuel as [|f IH]; intros st data i entries H k v Hin.
  - destruct data; cbn in H; [inversion H; subst; destruct Hin | discriminate].
  - destruct data as [|x tl]; [cbn in H; inversion H; subst; destruct Hin|].
    cbn [iteration_groups] in H.
    destruct (c_debug cfg && _); [discriminate|]. destruct (Nat.eqb _ 0); [discriminate|].
    destruct (iteration_groups cfg f st _ _) as [rest| |] eqn:E; cbn [obind] in H; try discriminate.
    inversion H; subst entries. apply in_app_or in Hin. destruct Hin as [Hin|Hin].
    + apply group_entries_range in Hin. lia.
    + pose proof (IH _ _ _ _ E k v Hin). lia.
Qed.

(** every position lies in a group on which the table is [succ_blk] *)
Lemma iteration_groups_blocks : forall fuel (st : store) data i entries,
  iteration_groups cfg fuel st data i = Ok entries ->
  forall k, i <= k < i + length data ->
  exists r nr nl, r <= k < r + nr + nl /\ r + nr + nl <= i + length data /\
    forall k' d, r <= k' < r + nr + nl -> assoc_last k' entries d = succ_blk r nr nl k'.
Proof.
  induction fuel as [|f IH]; intros st data i entries H k Hk.
  - destruct data; cbn [length] in Hk; [lia | cbn in H; discriminate].
  - destruct data as [|x tl]; [cbn [length] in Hk; lia|].
    cbn [iteration_groups] in H.
    set (data0 := x :: tl) in *.
    set (nr := span_len (fun e => ident st x e && negb (e_left (getE st e))) data0) in *.
    set (data1 := skipn nr data0) in *.
    set (nl := span_len (fun e => ident st x e) data1) in *.
    assert (Hnr : nr <= length data0) by apply span_len_le.
    assert (Hnl : nl <= length data1) by apply span_len_le.
    assert (Hl1 : length data1 = length data0 - nr) by (unfold data1; apply skipn_length).
    destruct (c_debug cfg && _); [discriminate|].
    destruct (Nat.eqb_spec (nr + nl) 0) as [|Hm]; [discriminate|].
    destruct (iteration_groups cfg f st (skipn nl data1) (i + nr + nl)) as [rest| |] eqn:E; cbn [obind] in H; try discriminate.
    inversion H; subst entries. clear H.
    destruct (Nat.lt_ge_cases k (i + nr + nl)) as [Hin|Hout].
    + exists i, nr, nl. split; [lia|]. split; [lia|].
      intros k' d Hk'. rewrite assoc_last_app.
      rewrite (assoc_last_absent k' rest).
      * now apply group_lookup.
      * intros v Hv. pose proof (iteration_groups_lower _ _ _ _ _ E k' v Hv). lia.
    + assert (Hk2 : i + nr + nl <= k < i + nr + nl + length (skipn nl data1)) by (rewrite skipn_length; lia).
      destruct (IH _ _ _ _ E k Hk2) as (r & nr' & nl' & A & B & C).
      exists r, nr', nl'. split; [exact A|]. split; [rewrite skipn_length in B; lia|].
      intros k' d Hk'. rewrite assoc_last_app. now apply C.
Qed.

(** position in the cycle, and the number of steps from [k] back to [start] *)
Definition pot (r nr nl k : nat) : nat := if k <? r + nr then k - r else nr + (r + nr + nl - 1 - k).
Definition dist (r nr nl start k : nat) : nat :=
  if pot r nr nl k <? pot r nr nl start then pot r nr nl start - pot r nr nl k
  else pot r nr nl start + (nr + nl) - pot r nr nl k.

Ltac nat_cases :=
  repeat match goal with
         | |- context [Nat.ltb ?a ?b] => destruct (Nat.ltb_spec a b)
         | H : context [Nat.ltb ?a ?b] |- _ => destruct (Nat.ltb_spec a b)
         end.

Lemma succ_blk_in r nr nl k : r <= k < r + nr + nl -> r <= succ_blk r nr nl k < r + nr + nl.
Proof. intros H. unfold succ_blk. nat_cases; lia. Qed.

Lemma dist_pos r nr nl start k : r <= k < r + nr + nl -> r <= start < r + nr + nl -> 1 <= dist r nr nl start k <= nr + nl.
Proof. intros Hk Hs. unfold dist, pot. nat_cases; lia. Qed.

Lemma dist_step r nr nl start k :
  r <= k < r + nr + nl -> r <= start < r + nr + nl ->
  succ_blk r nr nl k = start \/ dist r nr nl start (succ_blk r nr nl k) + 1 = dist r nr nl start k.
Proof.
  intros Hk Hs. unfold dist, pot, succ_blk.
  destruct (Nat.ltb_spec k (r + nr)); destruct (Nat.ltb_spec start (r + nr));
    nat_cases; try lia.
Qed.

Lemma get_next_pos_loop_terminates (map : list nat) (p : processed) r nr nl (start : nat) :
  r + nr + nl <= length map ->
  (forall k, r <= k < r + nr + nl -> nth k map 0 = succ_blk r nr nl k) ->
  r <= start < r + nr + nl ->
  forall fuel k, r <= k < r + nr + nl -> dist r nr nl start k <= fuel ->
  get_next_pos_loop fuel (Z.of_nat k) (Z.of_nat start) p map <> OutOfFuel.
Proof.
  intros Hlen Hmap Hs. induction fuel as [|f IH]; intros k Hk Hd.
  - pose proof (dist_pos r nr nl start k Hk Hs). lia.
  - cbn [get_next_pos_loop].
    assert (Hr : in_range (Z.of_nat k) (length map) = true) by (apply in_range_iff; lia).
    rewrite Hr. cbn [negb]. rewrite Nat2Z.id, (Hmap k Hk).
    destruct (Z.eqb_spec (Z.of_nat (succ_blk r nr nl k)) (Z.of_nat start)) as [E|E]; [discriminate|].
    destruct (negb (is_processed p _)); [discriminate|].
    apply IH; [now apply succ_blk_in|].
    destruct (dist_step r nr nl start k Hk Hs) as [K|K]; [rewrite K in E; now elim E | lia].
Qed.

Theorem get_next_pos_terminates (st : store) data map pos p :
  precompute_iteration_order cfg st data = Ok map ->
  in_range pos (length map) = true ->
  get_next_pos pos p map <> OutOfFuel.
Proof.
  intros H Hp. destruct (precompute_range _ _ _ H) as [Hlen _].
  revert H. unfold precompute_iteration_order.
  destruct (iteration_groups cfg (S (length data)) st data 0) as [entries| |] eqn:E; cbn [obind]; try discriminate.
  intros H. injection H as Hm.
  apply in_range_iff in Hp. rewrite Hlen in Hp.
  set (k := Z.to_nat pos). assert (Hk : 0 <= k < 0 + length data) by (unfold k; lia).
  destruct (iteration_groups_blocks _ _ _ _ _ E k Hk) as (r & nr & nl & A & B & C).
  assert (Ek : pos = Z.of_nat k) by (unfold k; lia).
  unfold get_next_pos. rewrite Ek.
  apply (get_next_pos_loop_terminates map p r nr nl k).
  - rewrite Hlen. lia.
  - intros k' Hk'. rewrite <- Hm. rewrite fold_hset_nth by (rewrite repeat_length; lia). apply C. exact Hk'.
  - exact A.
  - exact A.
  - pose proof (dist_pos r nr nl k k A A). rewrite Hlen. lia.
Qed.


(** ** the contour walk terminates: every round marks a position that was not marked before *)
Definition unproc (n : nat) (p : processed) : list nat :=
  filter (fun i => negb (is_processed p (Z.of_nat i))) (seq 0 n).

Lemma filter_le (A : Type) (f g : A -> bool) : forall l,
  (forall x, f x = true -> g x = true) -> length (filter f l) <= length (filter g l).
Proof.
  induction l as [|x l IH]; intros H; cbn [filter length]; [lia|].
  specialize (IH H). destruct (f x) eqn:Ef; [rewrite (H x Ef); cbn [length]; lia|].
  destruct (g x); cbn [length]; lia.
Qed.
Lemma filter_lt (A : Type) (f g : A -> bool) : forall l k,
  (forall x, f x = true -> g x = true) -> In k l -> g k = true -> f k = false ->
  length (filter f l) < length (filter g l).
Proof.
  induction l as [|x l IH]; intros k H Hin Hg Hf; [destruct Hin|].
  cbn [filter]. destruct Hin as [->|Hin].
  - rewrite Hg, Hf. cbn [length]. pose proof (filter_le A f g l H). lia.
  - specialize (IH k H Hin Hg Hf). destruct (f x) eqn:Ef; [rewrite (H x Ef); cbn [length]; lia|].
    destruct (g x); cbn [length]; lia.
Qed.

Lemma is_processed_cons p x i : is_processed (x :: p) i = Z.eqb i x || is_processed p i.
Proof. reflexivity. Qed.

Lemma unproc_cons_le n p x : length (unproc n (x :: p)) <= length (unproc n p).
Proof.
  unfold unproc. apply filter_le. intros i. rewrite is_processed_cons.
  destruct (Z.eqb (Z.of_nat i) x); cbn; [discriminate | auto].
Qed.
Lemma unproc_cons_lt n p k :
  k < n -> is_processed p (Z.of_nat k) = false -> length (unproc n (Z.of_nat k :: p)) < length (unproc n p).
Proof.
  intros Hk Hp. unfold unproc. apply (filter_lt _ _ _ _ k).
  - intros i. rewrite is_processed_cons. destruct (Z.eqb (Z.of_nat i) (Z.of_nat k)); cbn; [discriminate | auto].
  - apply in_seq. lia.
  - now rewrite Hp.
  - rewrite is_processed_cons, Z.eqb_refl. reflexivity.
Qed.

Lemma get_next_pos_loop_unprocessed (map : list nat) (p : processed) (start : Z) :
  forall fuel pos q, get_next_pos_loop fuel pos start p map = Ok (Some q) -> is_processed p q = false.
Proof.
  induction fuel as [|f IH]; intros pos q H; cbn [get_next_pos_loop] in H; [discriminate|].
  destruct (negb (in_range pos (length map))); [discriminate|].
  destruct (Z.eqb _ start); [discriminate|].
  destruct (negb (is_processed p _)) eqn:E.
  - inversion H; subst. now apply negb_true_iff in E.
  - exact (IH _ _ H).
Qed.

Lemma walk_loop_terminates (st0 : store) data (res : list eid) (map : list nat) (cid : Z) (initial : pt N) :
  precompute_iteration_order cfg st0 data = Ok map -> length map = length res ->
  forall fuel (w : walk N) pos,
  ranged (length res) (w_st w) res -> in_range pos (length res) = true ->
  is_processed (w_processed w) pos = false ->
  length (unproc (length res) (w_processed w)) <= fuel ->
  walk_loop fuel w res map pos cid initial <> OutOfFuel.
Proof.
  intros Hpre Hlen. destruct (precompute_range _ _ _ Hpre) as [_ Hf].
  induction fuel as [|f IH]; intros w pos R Hp Hu Hm.
  - exfalso. apply in_range_iff in Hp.
    pose proof (unproc_cons_lt (length res) (w_processed w) (Z.to_nat pos)) as K.
    rewrite Z2Nat.id in K by lia. specialize (K ltac:(lia) Hu). lia.
  - cbn [walk_loop].
    set (w1 := mark w res pos cid).
    assert (R1 : ranged (length res) (w_st w1) res) by now apply ranged_mark.
    assert (Hp1 : in_range (e_other_pos (getE (w_st w1) (nth_ev res pos))) (length res) = true).
    { apply (R1 (nth_ev res pos)). now apply nth_ev_in. }
    rewrite Hp1. cbn [negb].
    set (pos1 := e_other_pos (getE (w_st w1) (nth_ev res pos))) in *.
    set (w2 := mark w1 res pos1 cid).
    assert (R2 : ranged (length res) (w_st w2) res) by now apply ranged_mark.
    cbn [w_st w_processed].
    assert (Hp1' : in_range pos1 (length map) = true) by now rewrite Hlen.
    pose proof (get_next_pos_loop_safe map (w_processed w2) pos1 Hf (S (length map)) pos1 Hp1') as G.
    pose proof (get_next_pos_terminates st0 data map pos1 (w_processed w2) Hpre Hp1') as T.
    pose proof (get_next_pos_loop_unprocessed map (w_processed w2) pos1 (S (length map)) pos1) as U.
    unfold get_next_pos in *.
    destruct (get_next_pos_loop (S (length map)) pos1 pos1 (w_processed w2) map) as [[q|]| |]; cbn [obind]; try discriminate.
    + destruct (pt_eq _ initial); [discriminate|].
      apply IH; [exact R2 | now rewrite <- Hlen | now apply U |].
      cbn [w_processed]. unfold w2, w1, mark. cbn [w_processed].
      apply in_range_iff in Hp.
      pose proof (unproc_cons_le (length res) (pos :: w_processed w) pos1).
      pose proof (unproc_cons_lt (length res) (w_processed w) (Z.to_nat pos)) as K.
      rewrite Z2Nat.id in K by lia. specialize (K ltac:(lia) Hu). lia.
    + now elim T.
Qed.

Lemma in_skipn (A : Type) (x : A) : forall n l, In x (skipn n l) -> In x l.
Proof.
  intros n l H. rewrite <- (firstn_skipn n l). apply in_or_app. now right.
Qed.

Lemma iteration_groups_terminates (st : store) : forall fuel data i,
  length data <= fuel -> (forall e, In e data -> ident st e e = true) ->
  iteration_groups cfg fuel st data i <> OutOfFuel.
Proof.
  induction fuel as [|f IH]; intros data i Hl Hid.
  - destruct data; [discriminate | cbn [length] in Hl; lia].
  - destruct data as [|x tl]; [discriminate|]. cbn [iteration_groups].
    set (data0 := x :: tl) in *.
    set (nr := span_len (fun e => ident st x e && negb (e_left (getE st e))) data0) in *.
    set (data1 := skipn nr data0) in *.
    set (nl := span_len (fun e => ident st x e) data1) in *.
    assert (Hxx : ident st x x = true) by (apply Hid; now left).
    assert (Hpos : 1 <= nr + nl).
    { destruct (Nat.eq_dec nr 0) as [E0|E0]; [|lia].
      assert (E1 : data1 = data0) by (unfold data1; rewrite E0; reflexivity).
      unfold nl. rewrite E1. unfold data0. cbn [span_len]. rewrite Hxx. lia. }
    destruct (c_debug cfg && _); [discriminate|].
    destruct (Nat.eqb_spec (nr + nl) 0); [lia|].
    assert (Hl1 : length data1 = length data0 - nr) by (unfold data1; apply skipn_length).
    specialize (IH (skipn nl data1) (i + nr + nl)).
    destruct (iteration_groups cfg f st (skipn nl data1) (i + nr + nl)); cbn [obind]; try discriminate.
    apply IH.
    + rewrite skipn_length, Hl1. unfold data0 in *. cbn [length] in *. lia.
    + intros e He. apply Hid. unfold data1 in He.
      apply in_skipn in He. now apply in_skipn in He.
Qed.

Lemma unproc_le n p : length (unproc n p) <= n.
Proof.
  unfold unproc. rewrite <- (seq_length n 0) at 2. generalize (seq 0 n). intros l.
  induction l as [|x l IH]; cbn [filter length]; [lia|]. destruct (negb _); cbn [length]; lia.
Qed.

Lemma contours_loop_terminates (st0 : store) data (res : list eid) (map : list nat) :
  precompute_iteration_order cfg st0 data = Ok map -> length map = length res ->
  forall idxs (st : store) p contours,
  (forall i, In i idxs -> i < length res) ->
  ranged (length res) st res ->
  contours_loop cfg idxs st p res map contours <> OutOfFuel.
Proof.
  intros Hpre Hlen. destruct (precompute_range _ _ _ Hpre) as [_ Hf].
  induction idxs as [|i rest IH]; intros st p contours Hi R; cbn [contours_loop]; [discriminate|].
  assert (Hrest : forall j, In j rest -> j < length res) by (intros j Hj; apply Hi; now right).
  destruct (is_processed p (Z.of_nat i)) eqn:Ep; [now apply IH|].
  assert (Hinit : initialize_from_context cfg st (nth_ev res (Z.of_nat i)) contours (Z.of_nat (length contours)) <> OutOfFuel).
  { unfold initialize_from_context.
    repeat match goal with
           | |- context [match ?x with Some _ => _ | None => _ end] => destruct x
           | |- context [if ?c then _ else _] => destruct c
           end; discriminate. }
  destruct (initialize_from_context cfg st (nth_ev res (Z.of_nat i)) contours (Z.of_nat (length contours)))
    as [[contours1 c]|s|]; cbn [obind]; [|discriminate|now elim Hinit].
  assert (Hp : in_range (Z.of_nat i) (length res) = true).
  { apply in_range_iff. specialize (Hi i (or_introl eq_refl)). lia. }
  pose proof (walk_loop_safe res map (Z.of_nat (length contours)) (point_of st (nth_ev res (Z.of_nat i)))
                Hlen Hf (S (length res)) (mkWalk st p [point_of st (nth_ev res (Z.of_nat i))]) (Z.of_nat i) R Hp) as W.
  pose proof (walk_loop_terminates st0 data res map (Z.of_nat (length contours)) (point_of st (nth_ev res (Z.of_nat i)))
                Hpre Hlen (S (length res)) (mkWalk st p [point_of st (nth_ev res (Z.of_nat i))]) (Z.of_nat i) R Hp Ep) as T.
  cbn [w_processed] in T. specialize (T ltac:(pose proof (unproc_le (length res) p); lia)).
  destruct (walk_loop _ _ _ _ _ _ _) as [w| s |]; cbn [obind]; [|discriminate|now elim T].
  apply IH; [exact Hrest | exact W].
Qed.

(** C03: once the bubble sort of [order_events] has returned, the contour stage returns too
    (no loop of it can run for ever), provided every result event's point equals itself
    (no NaN coordinate) and the result events are closed under the partner link *)
Theorem connect_edges_terminates fuel (st : store) sorted_events st1 res :
  closed st (filter (in_result_filter st) sorted_events) ->
  order_events fuel st sorted_events = Ok (st1, res) ->
  (forall e, In e res -> ident st1 e e = true) ->
  connect_edges cfg fuel st sorted_events <> OutOfFuel.
Proof.
  intros C E Hid. unfold connect_edges. rewrite E. cbn [obind].
  destruct (order_events_positions _ _ _ _ _ C E) as (R & _ & _).
  assert (Hg : iteration_groups cfg (S (length res)) st1 res 0 <> OutOfFuel).
  { apply iteration_groups_terminates; [lia | exact Hid]. }
  destruct (precompute_iteration_order cfg st1 res) as [map|s|] eqn:Em; cbn [obind]; [|discriminate|].
  - destruct (precompute_range _ _ _ Em) as [Hlen _].
    pose proof (contours_loop_terminates st1 res res map Em Hlen (seq 0 (length res)) st1 [] []) as K.
    destruct (contours_loop cfg (seq 0 (length res)) st1 [] res map []) as [r2|s|]; cbn [obind]; try discriminate.
    intros _. apply K; [|exact R|reflexivity]. intros i Hi. apply in_seq in Hi. lia.
  - exfalso. revert Em. unfold precompute_iteration_order.
    destruct (iteration_groups cfg (S (length res)) st1 res 0); cbn [obind]; try discriminate. now elim Hg.
Qed.

(** the hypothesis [closed] in terms of the link structure of the event vector (what C13 states
    about the output of the sweep): every left event of the vector that is in the result has
    its partner in the vector, and that partner is a right event linked back to it *)
Lemma closed_of_links (st : store) (l : list eid) :
  (forall i o, In i l -> e_left (getE st i) = true -> is_in_result (getE st i) = true ->
               e_other (getE st i) = Some o ->
               In o l /\ e_left (getE st o) = false /\ e_other (getE st o) = Some i) ->
  closed st (filter (in_result_filter st) l).
Proof.
  intros H i o Hi Hl Ho. apply filter_In in Hi. destruct Hi as [Hi Hf].
  unfold in_result_filter in Hf. rewrite Hl in Hf. cbn [andb negb orb] in Hf.
  rewrite orb_false_r in Hf.
  destruct (H i o Hi Hl Hf Ho) as (Io & Lo & Oo).
  apply filter_In. split; [exact Io|]. unfold in_result_filter. rewrite Lo, Oo. cbn [andb negb orb]. exact Hf.
Qed.

(** an executable form of [closed] *)
Definition closedb (st : store) (l : list eid) : bool :=
  forallb (fun i => if e_left (getE st i)
                    then match e_other (getE st i) with
                         | Some o => existsb (Pos.eqb o) l
                         | None => true
                         end
                    else true) l.
Lemma closedb_sound (st : store) (l : list eid) : closedb st l = true -> closed st l.
Proof.
  unfold closedb. rewrite forallb_forall. intros H i o Hi Hl Ho.
  specialize (H i Hi). rewrite Hl, Ho in H. apply existsb_exists in H.
  destruct H as (x & Hx & E). apply Pos.eqb_eq in E. now subst.
Qed.
End ConnectProofs.

(** non-vacuity: the hypotheses hold on the output of the sweep for two overlapping unit-like
    squares at the exact instance, and the contour stage returns *)
From GB Require Import NumQ FillQueue Subdivide Cert.
Definition connect_example_check : bool :=
  match subdivide release 1000 (fill_queue (N := NQ) F1_A F1_B Union) Union with
  | Ok (st, sorted, _) =>
      closedb NQ st (filter (in_result_filter st) sorted) &&
      match order_events (S (length sorted)) st sorted with
      | Ok (st1, res) => forallb (fun e => ident st1 e e) res && Nat.ltb 0 (length res)
      | _ => false
      end
  | _ => false
  end.
Example connect_example : connect_example_check = true.
Proof. vm_compute. reflexivity. Qed.
