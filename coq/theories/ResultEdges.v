(** * Every edge of every result ring lies on an edge of one of the operands (C04, first
    clause): exact instance, every input with finite coordinates, every operation whose sweep
    runs to completion (Union, Xor, or any operation with the early exit disabled).

    Assembled from: [OnEdgeFull.subdivide_on_edges_full] (every event pair lies on an input edge
    of its operand, oriented), [SweepClosure.subdivide_nodup] / [subdivide_complete] (every
    event is returned exactly once), [LinkProofs.subdivide_linked] (mutual links) and
    [ContourEdges.contour_edges_are_subsegments] (consecutive contour points are the two ends of
    a result event pair).  What geo-types' [close()] appends when a contour was not closed by
    the walk itself is not covered (it is the last-to-first edge of the ring). *)
From Coq Require Import Bool List PArith NArith ZArith QArith Lqa Lia.
From GB Require Import Prim Num NumQ NumLaws NumLawsQ Event Intersect Cmp Heap Outcome Divide Fields FillQueue
  Subdivide Connect BoolOp IntersectProofs FieldsProofs LinkProofs SplitCover OnEdge OnEdgeFull SweepClosure
  ConnectProofs ContourEdges GroupingProofs.
Import ListNotations.
Local Open Scope Q_scope.

Lemma qx_eq_QF_r x a : qx_eq x (QF a) = true -> exists a', x = QF a' /\ a' == a.
Proof.
  destruct x as [a'| | |]; cbn; try discriminate. intros H. exists a'. split; [reflexivity|]. now apply qx_eq_FF.
Qed.
Lemma qx_eq_QF_l x a : qx_eq (QF a) x = true -> exists a', x = QF a' /\ a == a'.
Proof.
  destruct x as [a'| | |]; cbn; try discriminate. intros H. exists a'. split; [reflexivity|]. now apply qx_eq_FF.
Qed.

Lemma pt_eq_fpt_r (x : pt NQ) a b : pt_eq x (fpt a b) = true -> exists a' b', x = fpt a' b' /\ a' == a /\ b' == b.
Proof.
  destruct x as [xx xy]. unfold pt_eq. cbn [px py fpt eqX eqY NQ]. intros H. apply andb_prop in H. destruct H as [H1 H2].
  destruct (qx_eq_QF_r _ _ H1) as (a' & -> & E1). destruct (qx_eq_QF_r _ _ H2) as (b' & -> & E2).
  exists a', b'. auto.
Qed.
Lemma pt_eq_fpt_l (x : pt NQ) a b : pt_eq (fpt a b) x = true -> exists a' b', x = fpt a' b' /\ a == a' /\ b == b'.
Proof.
  destruct x as [xx xy]. unfold pt_eq. cbn [px py fpt eqX eqY NQ]. intros H. apply andb_prop in H. destruct H as [H1 H2].
  destruct (qx_eq_QF_l _ _ H1) as (a' & -> & E1). destruct (qx_eq_QF_l _ _ H2) as (b' & -> & E2).
  exists a', b'. auto.
Qed.

Section ResultEdges.
Variable edges : list edge.
Variable cfg : config.

(** both ends on one listed edge *)
Definition on_input_edge (p q : pt NQ) : Prop :=
  exists ax ay bx by_ subj px py qx qy,
    In (ax, ay, (bx, by_), subj) edges /\ p = fpt px py /\ q = fpt qx qy /\
    on_seg ax ay bx by_ px py /\ on_seg ax ay bx by_ qx qy.

Theorem contour_edges_on_input_edges fuel fuel' (A B : list (polygon NQ)) op st sorted n st' res cs :
  (forall P, In P A -> poly_ok edges true P) -> (forall P, In P B -> poly_ok edges false P) ->
  complete_sweep cfg op ->
  subdivide cfg fuel (fill_queue A B op) op = Ok (st, sorted, n) ->
  connect_edges cfg fuel' st sorted = Ok (st', res, cs) ->
  forall c l1 p q l2, In c cs -> c_points c = l1 ++ p :: q :: l2 -> on_input_edge p q.
Proof.
  intros HA HB Hc Hs Hcon.
  pose proof (subdivide_on_edges_full edges cfg fuel A B op st sorted n HA HB Hs) as OE.
  pose proof (subdivide_nodup NQ cfg fuel A B op st sorted n Hs) as ND.
  pose proof (subdivide_complete NQ cfg fuel A B op st sorted n Hc Hs) as CO.
  destruct (subdivide_linked NQ cfg fuel A B op st sorted n Hs) as [L AM].
  assert (P : paired NQ st (filter (in_result_filter st) sorted)).
  { intros i Hi. apply filter_In in Hi. destruct Hi as [Ii Fi].
    destruct (OE i Ii) as (o & Oi & (px & py & qx & qy & ax & ay & bx & by_ & _ & _ & _ & _ & _ & _ & Fl & _)).
    destruct (L i (AM i Ii)) as (o' & Oi' & Hne & Mo & Back & _). assert (o' = o) by congruence. subst o'.
    exists o. split; [|auto].
    apply filter_In. split; [now apply CO|].
    unfold in_result_filter in *. rewrite Fl, Back. rewrite Oi in Fi.
    destruct (e_left (getE st i)); cbn [negb andb orb] in *.
    - rewrite orb_false_r in Fi. exact Fi.
    - rewrite orb_false_r. exact Fi. }
  intros c l1 p q l2 Ic Hpts.
  destruct (contour_edges_are_subsegments NQ cfg fuel' st sorted st' res cs ND P Hcon c l1 p q l2 Ic Hpts)
    as (i & o & x & Ii & _ & Oi & X1 & X2 & ->).
  destruct (OE i Ii) as (o' & Oi' & (px & py & qx & qy & ax & ay & bx & by_ & P1 & P2 & _ & I1 & S1 & S2 & _)).
  assert (o' = o) by congruence. subst o'.
  rewrite P1 in X2. destruct (pt_eq_fpt_r _ _ _ X2) as (x1 & y1 & -> & E1 & E2).
  destruct (pt_eq_fpt_l _ _ _ X1) as (p1 & p2 & -> & E3 & E4).
  exists ax, ay, bx, by_, (e_is_subject (getE st i)), p1, p2, qx, qy.
  repeat split; auto.
  eapply on_seg_eqv; [reflexivity | reflexivity | reflexivity | reflexivity | | | exact S1]; lra.
Qed.

(** the whole operation: every ring of the result is the closed form of a contour whose
    consecutive points lie pairwise on input edges *)
Theorem result_rings_on_input_edges fuel (A B : list (polygon NQ)) op R :
  (forall P, In P A -> poly_ok edges true P) -> (forall P, In P B -> poly_ok edges false P) ->
  complete_sweep cfg op ->
  boolean_operation cfg fuel A B op = Ok R ->
  R = trivial_result A B op \/
  forall P ring, In P R -> In ring (exterior P :: interiors P) ->
    exists pts, ring = close_ring pts /\
      forall l1 p q l2, pts = l1 ++ p :: q :: l2 -> on_input_edge p q.
Proof.
  intros HA HB Hc. unfold boolean_operation.
  destruct (negb (c_noshort cfg) && _); [intros H; inversion H; now left|].
  destruct (subdivide cfg fuel (fill_queue A B op) op) as [[[st sorted] n]|s|] eqn:Es; cbn [obind]; try discriminate.
  destruct (connect_edges cfg (S (length sorted)) st sorted) as [[[st' res] cs]|s|] eqn:Ec; cbn [obind]; try discriminate.
  pose proof (connect_edges_ginv NQ cfg _ _ _ _ _ _ Ec) as G.
  rewrite (ctp_spec NQ cs G cs) by auto. intros H. inversion H; subst R. clear H. right.
  pose proof (contour_edges_on_input_edges fuel (S (length sorted)) A B op st sorted n st' res cs HA HB Hc Es Ec) as CE.
  intros P ring HP Hr. apply in_map_iff in HP. destruct HP as (c & <- & Hc'). apply filter_In in Hc'. destruct Hc' as [Ic _].
  unfold poly_of, polygon_new in Hr. cbn [exterior interiors] in Hr. destruct Hr as [<-|Hr].
  - exists (c_points c). split; [reflexivity|]. intros l1 p q l2 E. exact (CE c l1 p q l2 Ic E).
  - apply in_map_iff in Hr. destruct Hr as (pts & <- & Hp). apply in_map_iff in Hp. destruct Hp as (h & <- & Hh).
    exists (cpts NQ cs h). split; [reflexivity|]. unfold cpts.
    destruct (nth_error cs (Z.to_nat h)) as [hc|] eqn:Eh.
    + intros l1 p q l2 E. exact (CE hc l1 p q l2 (nth_error_In _ _ Eh) E).
    + intros l1 p q l2 E. destruct l1; discriminate.
Qed.


(** C03: on such runs the contour stage cannot index out of [result_events] / [iteration_map]:
    the closure hypothesis of [ConnectProofs] is a theorem here *)
Lemma paired_closed (st : store NQ) l : paired NQ st l -> closed NQ st l.
Proof. intros P i o Hi _ Ho. destruct (P i Hi) as (o' & Io & O' & _). assert (o' = o) by congruence. now subst. Qed.

Theorem exact_complete_run_index_safe fuel (A B : list (polygon NQ)) op :
  (forall P, In P A -> poly_ok edges true P) -> (forall P, In P B -> poly_ok edges false P) ->
  complete_sweep cfg op ->
  boolean_operation cfg fuel A B op <> Panic PIndexResultEvents.
Proof.
  intros HA HB Hc. unfold boolean_operation.
  destruct (negb (c_noshort cfg) && _); [discriminate|].
  destruct (subdivide cfg fuel (fill_queue A B op) op) as [[[st sorted] n]|s|] eqn:Es; cbn [obind].
  - pose proof (subdivide_on_edges_full edges cfg fuel A B op st sorted n HA HB Es) as OE.
    pose proof (subdivide_complete NQ cfg fuel A B op st sorted n Hc Es) as CO.
    destruct (subdivide_linked NQ cfg fuel A B op st sorted n Es) as [L AM].
    assert (P : paired NQ st (filter (in_result_filter st) sorted)).
    { intros i Hi. apply filter_In in Hi. destruct Hi as [Ii Fi].
      destruct (OE i Ii) as (o & Oi & (px & py & qx & qy & ax & ay & bx & by_ & _ & _ & _ & _ & _ & _ & Fl & _)).
      destruct (L i (AM i Ii)) as (o' & Oi' & Hne & Mo & Back & _). assert (o' = o) by congruence. subst o'.
      exists o. split; [|auto].
      apply filter_In. split; [now apply CO|].
      unfold in_result_filter in *. rewrite Fl, Back. rewrite Oi in Fi.
      destruct (e_left (getE st i)); cbn [negb andb orb] in *.
      - rewrite orb_false_r in Fi. exact Fi.
      - rewrite orb_false_r. exact Fi. }
    pose proof (connect_edges_index_safe NQ cfg (S (length sorted)) st sorted (paired_closed _ _ P)) as K.
    destruct (connect_edges cfg (S (length sorted)) st sorted) as [[[st' res] cs]|s|] eqn:Ec; cbn [obind].
    + rewrite (ctp_spec NQ cs (connect_edges_ginv NQ cfg _ _ _ _ _ _ Ec) cs) by auto. discriminate.
    + intros Q. apply K. inversion Q. reflexivity.
    + discriminate.
  - intros K. inversion K; subst s. revert Es. unfold subdivide.
    destruct (fill_queue_inv NQ A B op) as [S0 Q0].
    set (s0 := mkSweep _ _ _ _).
    assert (I0 : swinv NQ s0).
    { unfold swinv, s0; cbn. repeat split; try apply S0; try exact Q0; intros i []. }
    pose proof (sweep_loop_inv NQ cfg fuel s0 (f_sbbox (fill_queue A B op)) (f_cbbox (fill_queue A B op))
                  (minX NQ (bb_maxx (f_sbbox (fill_queue A B op))) (bb_maxx (f_cbbox (fill_queue A B op)))) op I0) as SI.
    destruct (sweep_loop _ _ _ _ _ _ _) as [s|site|]; cbn [obind]; try discriminate.
    intros H. inversion H; subst site. destruct SI as [[_ Hs]|Hs]; [inversion Hs | discriminate].
  - discriminate.
Qed.

End ResultEdges.
