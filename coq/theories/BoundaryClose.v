(** A ring given closed (its first point repeated at the end) denotes the same region as the ring
    given open: the extra edge is degenerate and no crossing count sees a degenerate edge. *)
From Coq Require Import QArith List Bool Arith Lia.
From GB Require Import Slab BoundaryRegion BoundarySplit.
Import ListNotations.

Lemma below_degenerate a p : below (mk_edge a a) p = false.
Proof.
  unfold mk_edge. rewrite (Qle_bool_true _ _ (Qle_refl (qx a))). unfold below.
  destruct (Qlt_le_dec (qx p) (qx a)) as [L|L].
  - rewrite (spans_left (mkEdge a a)); [reflexivity | exact L].
  - rewrite (spans_right (mkEdge a a)); [reflexivity | exact L].
Qed.

Lemma crossings_degenerate a p : crossings [mk_edge a a] p = 0%nat.
Proof. unfold crossings. cbn [filter]. now rewrite below_degenerate. Qed.

Lemma closed_ring_crossings a l p : crossings (ring_edges (a :: l ++ [a])) p = crossings (ring_edges (a :: l)) p.
Proof.
  unfold ring_edges. rewrite !ring_edges_from_path, path_edges_app, !crossings_app. cbn [path_edges].
  rewrite last_app_cons. cbn [last].
  rewrite crossings_degenerate. lia.
Qed.

Theorem closed_ring_same_region a l (rs : list ring) :
  forall p, inside_eo ((a :: l ++ [a]) :: rs) p = inside_eo ((a :: l) :: rs) p.
Proof. intros p. unfold inside_eo. cbn [flat_map]. now rewrite !crossings_app, closed_ring_crossings. Qed.
