(** * Properties C03/C15: the bubble sort of [connect_edges.rs] and the binary heap used as
    the event queue.

    PART A (bubble sort).  Generic copies [gpass]/[gsort] of [Connect.bubble_pass] /
    [Connect.bubble_sort] and transfer lemmas; a pass is a permutation; a pass without a
    swap leaves a [desc] list; termination within [length l] repeated passes under a
    consistent order on the elements of the list (sharp bound, the one the model's fuel
    [S (length sorted_events)] relies on); non-termination for an inconsistent order.

    PART B (binary heap).  [push]/[pop] are permutations (no order hypothesis), keep the
    max-heap property [heap_ok] and [pop] returns a maximum (total preorder).

    Status: nothing is admitted and nothing of the plan is missing.  One planned
    statement is FALSE and was replaced: "a 3-cycle comparison makes the sort run
    forever".  Every swap removes exactly one inversion as soon as the comparison is
    asymmetric ([gsort_terminates_asym], no transitivity needed), so a cyclic asymmetric
    comparison always terminates ([gsort_lt3_terminates]); divergence needs a pair that is
    [Lt] in both directions ([gsort_lt2_diverges]).  Hence, precisely:
    - asymmetric                     => terminates within [inv l] (< n^2/2) repeated passes;
    - strict weak order on the list  => terminates within [length l - 1] repeated passes
                                        ([gsort_terminates_sw]; strict total orders are the
                                        special case [gsort_terminates]);
    - any [Ok] result is a [desc] permutation of the input ([gsort_ok_sorted]). *)
From Coq Require Import Bool List Arith Lia Permutation.
From GB Require Import Prim Num Event Cmp Heap Outcome Connect.
Import ListNotations.

(* ====================================================================================== *)
(** * PART A: bubble sort *)
(* ====================================================================================== *)

Section GenericBubble.
Variable T : Type.
Variable lt : T -> T -> bool.

Fixpoint gpass (x : T) (rest : list T) : list T * bool :=
  match rest with
  | [] => ([x], false)
  | y :: rest' =>
      if lt x y
      then let '(l, _) := gpass x rest' in (y :: l, true)
      else let '(l, sw) := gpass y rest' in (x :: l, sw)
  end.

Fixpoint gsort (fuel : nat) (l : list T) : outcome (list T) :=
  match l with
  | [] => Ok []
  | x :: rest =>
      let '(l', swapped) := gpass x rest in
      if swapped then
        match fuel with O => OutOfFuel | S f => gsort f l' end
      else Ok l'
  end.

(** neighbours [a, b] satisfy [lt a b = false]: descending w.r.t. [lt] *)
Fixpoint desc (l : list T) : Prop :=
  match l with
  | a :: (b :: _) as tl => lt a b = false /\ desc tl
  | _ => True
  end.

(** ** unfolding lemmas *)
Lemma gpass_nil : forall x, gpass x [] = ([x], false).
Proof. reflexivity. Qed.

Lemma gpass_cons : forall x y rest,
  gpass x (y :: rest) =
  if lt x y then (y :: fst (gpass x rest), true)
  else (x :: fst (gpass y rest), snd (gpass y rest)).
Proof.
  intros x y rest. cbn [gpass].
  destruct (lt x y); [destruct (gpass x rest) | destruct (gpass y rest)]; reflexivity.
Qed.

Lemma gsort_nil : forall fuel, gsort fuel [] = Ok [].
Proof. destruct fuel; reflexivity. Qed.

Lemma gsort_cons : forall fuel x rest,
  gsort fuel (x :: rest) =
  if snd (gpass x rest) then
    match fuel with O => OutOfFuel | S f => gsort f (fst (gpass x rest)) end
  else Ok (fst (gpass x rest)).
Proof.
  intros fuel x rest. destruct fuel; cbn [gsort]; destruct (gpass x rest); reflexivity.
Qed.

(** ** A1: a pass is a permutation *)
Theorem gpass_perm : forall rest x, Permutation (x :: rest) (fst (gpass x rest)).
Proof.
  induction rest as [|y rest IH]; intros x.
  - apply Permutation_refl.
  - rewrite gpass_cons. destruct (lt x y); cbn [fst].
    + eapply perm_trans; [apply perm_swap|]. apply perm_skip, IH.
    + apply perm_skip, IH.
Qed.

Lemma gpass_length : forall rest x, length (fst (gpass x rest)) = S (length rest).
Proof.
  intros rest x. rewrite <- (Permutation_length (gpass_perm rest x)). reflexivity.
Qed.

(** ** A2: a pass without a swap is the identity and certifies [desc] *)
Theorem gpass_noswap_sorted : forall rest x,
  snd (gpass x rest) = false ->
  fst (gpass x rest) = x :: rest /\ desc (x :: rest).
Proof.
  induction rest as [|y rest IH]; intros x Hsw.
  - split; [reflexivity | exact I].
  - rewrite gpass_cons in Hsw |- *. destruct (lt x y) eqn:Hxy; cbn [fst snd] in *.
    + discriminate.
    + destruct (IH y Hsw) as [Hfst Hdesc]. rewrite Hfst.
      split; [reflexivity|]. cbn [desc]. split; assumption.
Qed.

(** converse: on a [desc] list the pass does nothing *)
Lemma gpass_desc : forall rest x, desc (x :: rest) -> gpass x rest = (x :: rest, false).
Proof.
  induction rest as [|y rest IH]; intros x Hd.
  - reflexivity.
  - cbn [desc] in Hd. destruct Hd as [Hxy Hd].
    rewrite gpass_cons, Hxy, (IH y Hd). reflexivity.
Qed.

Lemma desc_tail : forall a l, desc (a :: l) -> desc l.
Proof. intros a [|b l] Hd; [exact I | apply Hd]. Qed.

Lemma desc_cons : forall a l,
  (forall b, In b l -> lt a b = false) -> desc l -> desc (a :: l).
Proof.
  intros a [|b l] Hab Hd; [exact I|]. split; [apply Hab; left; reflexivity | exact Hd].
Qed.

Lemma desc_app : forall l1 l2,
  desc l1 -> desc l2 ->
  (forall a b, In a l1 -> In b l2 -> lt a b = false) ->
  desc (l1 ++ l2).
Proof.
  induction l1 as [|a l1 IH]; intros l2 H1 H2 Hc.
  - exact H2.
  - destruct l1 as [|b l1].
    + cbn [app]. apply desc_cons; [|exact H2].
      intros b Hb. apply Hc; [left; reflexivity | exact Hb].
    + destruct H1 as [Hab H1]. change (lt a b = false /\ desc ((b :: l1) ++ l2)).
      split; [exact Hab|]. apply IH; [exact H1 | exact H2 |].
      intros a' b' Ha' Hb'. apply Hc; [right; exact Ha' | exact Hb'].
Qed.

(** a pass over [pre ++ suf], when [suf] is already [desc] and nothing of [pre] is below
    anything of [suf], is the pass over [pre] followed by [suf] *)
Lemma gpass_app_sorted_suffix : forall rest x suf,
  desc suf ->
  (forall a b, In a (x :: rest) -> In b suf -> lt a b = false) ->
  gpass x (rest ++ suf) = (fst (gpass x rest) ++ suf, snd (gpass x rest)).
Proof.
  induction rest as [|y rest IH]; intros x suf Hd Hc.
  - cbn [app gpass fst snd]. apply gpass_desc. apply desc_cons; [|exact Hd].
    intros b Hb. apply Hc; [left; reflexivity | exact Hb].
  - cbn [app]. rewrite !gpass_cons. destruct (lt x y); cbn [fst snd].
    + rewrite (IH x suf Hd); [reflexivity|].
      intros a b [Ha|Ha] Hb; apply Hc; try exact Hb;
        [left; exact Ha | right; right; exact Ha].
    + rewrite (IH y suf Hd); [reflexivity|].
      intros a b Ha Hb. apply Hc; [right; exact Ha | exact Hb].
Qed.

(** ** A3: termination.  The order properties are only needed on a domain [D] that
    contains the elements of the list.  What the argument really uses is a strict weak
    order (asymmetric, negatively transitive); strict total orders are a special case. *)
Section Termination.
Variable D : T -> Prop.
Hypothesis Hasym : forall a b, D a -> D b -> lt a b = true -> lt b a = false.
Hypothesis Hnegtrans : forall a b c, D a -> D b -> D c ->
  lt a b = false -> lt b c = false -> lt a c = false.

(** after a pass the last element is a minimum: nothing before it is below it *)
Lemma gpass_last_min : forall rest x,
  (forall a, In a (x :: rest) -> D a) ->
  exists init m,
    fst (gpass x rest) = init ++ [m] /\
    lt x m = false /\
    (forall a, In a init -> lt a m = false).
Proof.
  induction rest as [|y rest IH]; intros x HD.
  - exists [], x. split; [reflexivity|]. split; [|intros a []].
    assert (Dx : D x) by (apply HD; left; reflexivity).
    destruct (lt x x) eqn:Hxx; [|reflexivity].
    rewrite (Hasym x x Dx Dx Hxx) in Hxx. discriminate.
  - assert (Dx : D x) by (apply HD; left; reflexivity).
    assert (Dy : D y) by (apply HD; right; left; reflexivity).
    rewrite gpass_cons. destruct (lt x y) eqn:Hxy; cbn [fst].
    + assert (HD' : forall a, In a (x :: rest) -> D a).
      { intros a [Ha|Ha]; apply HD; [left; exact Ha | right; right; exact Ha]. }
      destruct (IH x HD') as (init & m & Hfst & Hxm & Hmin).
      assert (Dm : D m).
      { apply HD'. apply (Permutation_in m (Permutation_sym (gpass_perm rest x))).
        rewrite Hfst. apply in_or_app. right. left. reflexivity. }
      exists (y :: init), m. rewrite Hfst. split; [reflexivity|]. split; [exact Hxm|].
      intros a [Ha|Ha]; [subst a | apply Hmin, Ha].
      apply (Hnegtrans y x m Dy Dx Dm); [apply Hasym; assumption | exact Hxm].
    + destruct (IH y) as (init & m & Hfst & Hym & Hmin).
      { intros a Ha. apply HD. right. exact Ha. }
      assert (Dm : D m).
      { apply HD. right. apply (Permutation_in m (Permutation_sym (gpass_perm rest y))).
        rewrite Hfst. apply in_or_app. right. left. reflexivity. }
      assert (Hxm : lt x m = false) by (apply (Hnegtrans x y m Dx Dy Dm); assumption).
      exists (x :: init), m. rewrite Hfst. split; [reflexivity|]. split; [exact Hxm|].
      intros a [Ha|Ha]; [subst a; exact Hxm | apply Hmin, Ha].
Qed.

(** invariant of the sort: a [desc] suffix that nothing of the prefix is below; every
    repeated pass moves one more element into the suffix *)
Lemma gsort_terminates_gen : forall fuel pre suf,
  length pre <= S fuel ->
  desc suf ->
  (forall a b, In a pre -> In b suf -> lt a b = false) ->
  (forall a, In a pre -> D a) ->
  exists l', gsort fuel (pre ++ suf) = Ok l' /\ Permutation (pre ++ suf) l' /\ desc l'.
Proof.
  induction fuel as [|f IH]; intros pre suf Hlen Hd Hc HD.
  - (* at most one element in the prefix: the pass cannot swap *)
    destruct pre as [|x [|y pre]]; cbn [length] in Hlen; [| |lia].
    + cbn [app]. destruct suf as [|b suf]; [exists []; repeat split; constructor|].
      exists (b :: suf). rewrite gsort_cons, (gpass_desc suf b Hd). cbn [fst snd].
      split; [reflexivity|]. split; [apply Permutation_refl | exact Hd].
    + assert (Hd' : desc (x :: suf)).
      { apply desc_cons; [|exact Hd]. intros b Hb. apply Hc; [left; reflexivity|exact Hb]. }
      exists (x :: suf). cbn [app]. rewrite gsort_cons, (gpass_desc suf x Hd').
      cbn [fst snd]. split; [reflexivity|]. split; [apply Permutation_refl | exact Hd'].
  - destruct pre as [|x rest].
    + cbn [app]. destruct suf as [|b suf]; [exists []; repeat split; constructor|].
      exists (b :: suf). rewrite gsort_cons, (gpass_desc suf b Hd). cbn [fst snd].
      split; [reflexivity|]. split; [apply Permutation_refl | exact Hd].
    + change ((x :: rest) ++ suf) with (x :: (rest ++ suf)).
      rewrite gsort_cons, (gpass_app_sorted_suffix rest x suf Hd Hc). cbn [fst snd].
      destruct (snd (gpass x rest)) eqn:Hsw.
      * (* a swap happened: the minimum of the prefix joins the suffix *)
        destruct (gpass_last_min rest x HD) as (init & m & Hfst & _ & Hmin).
        pose proof (gpass_perm rest x) as Hperm. rewrite Hfst in Hperm.
        pose proof (gpass_length rest x) as Hl. rewrite Hfst, app_length in Hl.
        cbn [length] in Hl, Hlen.
        assert (Hin_init : forall a, In a init -> In a (x :: rest)).
        { intros a Ha. apply (Permutation_in a (Permutation_sym Hperm)).
          apply in_or_app. left. exact Ha. }
        assert (Hin_m : In m (x :: rest)).
        { apply (Permutation_in m (Permutation_sym Hperm)).
          apply in_or_app. right. left. reflexivity. }
        rewrite Hfst, <- app_assoc. cbn [app].
        destruct (IH init (m :: suf)) as (l' & Hrun & Hp & Hdl').
        { lia. }
        { apply desc_cons; [|exact Hd]. intros b Hb. apply Hc; assumption. }
        { intros a b Ha [Hb|Hb]; [subst b; apply Hmin, Ha|].
          apply Hc; [apply Hin_init, Ha | exact Hb]. }
        { intros a Ha. apply HD, Hin_init, Ha. }
        exists l'. split; [exact Hrun|]. split; [|exact Hdl'].
        eapply perm_trans; [|exact Hp].
        change (Permutation ((x :: rest) ++ suf) (init ++ [m] ++ suf)).
        rewrite app_assoc. apply Permutation_app_tail. exact Hperm.
      * (* no swap: done *)
        destruct (gpass_noswap_sorted rest x Hsw) as [Hfst Hdpre]. rewrite Hfst.
        exists ((x :: rest) ++ suf). split; [reflexivity|].
        split; [apply Permutation_refl|]. apply desc_app; assumption.
Qed.

(** sharp bound: [length l - 1] repeated passes suffice *)
Theorem gsort_terminates_sw : forall fuel l,
  (forall a, In a l -> D a) ->
  length l <= S fuel ->
  exists l', gsort fuel l = Ok l' /\ Permutation l l' /\ desc l'.
Proof.
  intros fuel l HD Hlen.
  destruct (gsort_terminates_gen fuel l [] Hlen I) as (l' & Hrun & Hp & Hd).
  - intros a b _ [].
  - exact HD.
  - rewrite app_nil_r in *. exists l'. auto.
Qed.

End Termination.

(** the statement with a strict total order on the elements of the list *)
Theorem gsort_terminates : forall fuel l,
  (forall a, In a l -> lt a a = false) ->
  (forall a b c, In a l -> In b l -> In c l ->
     lt a b = true -> lt b c = true -> lt a c = true) ->
  (forall a b, In a l -> In b l -> a <> b -> lt a b = true \/ lt b a = true) ->
  length l <= fuel ->
  exists l', gsort fuel l = Ok l' /\ Permutation l l' /\ desc l'.
Proof.
  intros fuel l Hirr Htrans Htot Hlen.
  assert (Hasym : forall a b, In a l -> In b l -> lt a b = true -> lt b a = false).
  { intros a b Ha Hb Hab. destruct (lt b a) eqn:Hba; [|reflexivity].
    rewrite <- (Hirr a Ha). symmetry. apply (Htrans a b a); assumption. }
  apply (gsort_terminates_sw (fun a => In a l)); [exact Hasym | | auto | lia].
  (* negative transitivity; the goal is a boolean equation, so the case distinctions on
     [=] (for which no decision procedure is assumed) can be made classically *)
  intros a b c Ha Hb Hc Hab Hbc.
  destruct (lt a c) eqn:Hac; [exfalso | reflexivity].
  assert (Hnn : ~ ~ (a = b \/ a <> b)) by tauto.
  apply Hnn. intros [Eab|Nab].
  - subst b. rewrite Hac in Hbc. discriminate.
  - destruct (Htot a b Ha Hb Nab) as [H|Hba]; [rewrite H in Hab; discriminate|].
    assert (Hnn' : ~ ~ (b = c \/ b <> c)) by tauto.
    apply Hnn'. intros [Ebc|Nbc].
    + subst c. rewrite Hac in Hab. discriminate.
    + destruct (Htot b c Hb Hc Nbc) as [H|Hcb]; [rewrite H in Hbc; discriminate|].
      (* c < b < a and a < c *)
      assert (Hca : lt c a = true) by (apply (Htrans c b a); assumption).
      rewrite (Hasym a c Ha Hc Hac) in Hca. discriminate.
Qed.

(** ** Termination for ANY asymmetric relation (no transitivity, no totality), with the
    quadratic bound: every swap removes exactly one inversion.  Consequence: a
    non-terminating run needs a pair with [lt a b = true] and [lt b a = true]; a cyclic
    but asymmetric comparison (e.g. a 3-cycle) cannot make the sort diverge. *)
Fixpoint cnt (x : T) (l : list T) : nat :=
  match l with
  | [] => 0
  | y :: l' => (if lt x y then 1 else 0) + cnt x l'
  end.

(** number of inversions: pairs [i < j] with [lt l_i l_j = true] *)
Fixpoint inv (l : list T) : nat :=
  match l with
  | [] => 0
  | x :: l' => cnt x l' + inv l'
  end.

Lemma cnt_perm : forall x l l', Permutation l l' -> cnt x l = cnt x l'.
Proof.
  intros x l l' Hp. induction Hp as [|a l l' Hp IH|a b l|l l' l'' Hp1 IH1 Hp2 IH2];
    cbn [cnt]; lia.
Qed.

Section Asym.
Variable D : T -> Prop.
Hypothesis Hasym : forall a b, D a -> D b -> lt a b = true -> lt b a = false.

Lemma gpass_inv : forall rest x,
  (forall a, In a (x :: rest) -> D a) ->
  inv (fst (gpass x rest)) <= inv (x :: rest) /\
  (snd (gpass x rest) = true -> inv (fst (gpass x rest)) < inv (x :: rest)).
Proof.
  induction rest as [|y rest IH]; intros x HD.
  - cbn. split; [lia | discriminate].
  - assert (Dx : D x) by (apply HD; left; reflexivity).
    assert (Dy : D y) by (apply HD; right; left; reflexivity).
    rewrite gpass_cons. destruct (lt x y) eqn:Hxy; cbn [fst snd].
    + assert (HD' : forall a, In a (x :: rest) -> D a).
      { intros a [Ha|Ha]; apply HD; [left; exact Ha | right; right; exact Ha]. }
      destruct (IH x HD') as [Hle _].
      assert (Hlt : inv (y :: fst (gpass x rest)) < inv (x :: y :: rest)).
      { cbn [inv] in *.
        rewrite <- (cnt_perm y _ _ (gpass_perm rest x)).
        cbn [cnt]. rewrite Hxy, (Hasym x y Dx Dy Hxy). lia. }
      split; [lia | intros _; exact Hlt].
    + assert (HD' : forall a, In a (y :: rest) -> D a).
      { intros a Ha. apply HD. right. exact Ha. }
      destruct (IH y HD') as [Hle Hlt].
      assert (Hc : cnt x (fst (gpass y rest)) = cnt x (y :: rest)).
      { symmetry. apply cnt_perm, gpass_perm. }
      cbn [inv] in *. rewrite Hc. split; [lia|]. intros Hsw. specialize (Hlt Hsw). lia.
Qed.

Theorem gsort_terminates_asym_D : forall fuel l,
  (forall a, In a l -> D a) ->
  inv l <= fuel ->
  exists l', gsort fuel l = Ok l' /\ Permutation l l' /\ desc l'.
Proof.
  induction fuel as [|f IH]; intros l HD Hinv.
  - destruct l as [|x rest]; [exists []; repeat split; constructor|].
    rewrite gsort_cons. destruct (snd (gpass x rest)) eqn:Hsw.
    + destruct (gpass_inv rest x HD) as [_ Hlt]. specialize (Hlt Hsw). lia.
    + destruct (gpass_noswap_sorted rest x Hsw) as [Hfst Hd]. rewrite Hfst.
      exists (x :: rest). split; [reflexivity|]. split; [apply Permutation_refl|exact Hd].
  - destruct l as [|x rest]; [exists []; repeat split; constructor|].
    rewrite gsort_cons. destruct (snd (gpass x rest)) eqn:Hsw.
    + destruct (gpass_inv rest x HD) as [_ Hlt]. specialize (Hlt Hsw).
      destruct (IH (fst (gpass x rest))) as (l' & Hrun & Hp & Hd).
      { intros a Ha. apply HD.
        apply (Permutation_in a (Permutation_sym (gpass_perm rest x))), Ha. }
      { lia. }
      exists l'. split; [exact Hrun|]. split; [|exact Hd].
      eapply perm_trans; [apply gpass_perm | exact Hp].
    + destruct (gpass_noswap_sorted rest x Hsw) as [Hfst Hd]. rewrite Hfst.
      exists (x :: rest). split; [reflexivity|]. split; [apply Permutation_refl|exact Hd].
Qed.
End Asym.

Theorem gsort_terminates_asym : forall fuel l,
  (forall a b, In a l -> In b l -> lt a b = true -> lt b a = false) ->
  inv l <= fuel ->
  exists l', gsort fuel l = Ok l' /\ Permutation l l' /\ desc l'.
Proof.
  intros fuel l Hasym Hinv.
  apply (gsort_terminates_asym_D (fun a => In a l)); auto.
Qed.

(** conversely, termination with a result means the result is a [desc] permutation
    (whatever the relation) *)
Theorem gsort_ok_sorted : forall fuel l l',
  gsort fuel l = Ok l' -> Permutation l l' /\ desc l'.
Proof.
  induction fuel as [|f IH]; intros l l' Hrun.
  - destruct l as [|x rest]; [inversion Hrun; split; [constructor | exact I]|].
    rewrite gsort_cons in Hrun. destruct (snd (gpass x rest)) eqn:Hsw; [discriminate|].
    inversion Hrun; subst l'. split; [apply gpass_perm|].
    destruct (gpass_noswap_sorted rest x Hsw) as [Hfst Hd]. rewrite Hfst. exact Hd.
  - destruct l as [|x rest]; [inversion Hrun; split; [constructor | exact I]|].
    rewrite gsort_cons in Hrun. destruct (snd (gpass x rest)) eqn:Hsw.
    + destruct (IH _ _ Hrun) as [Hp Hd]. split; [|exact Hd].
      eapply perm_trans; [apply gpass_perm | exact Hp].
    + inversion Hrun; subst l'. split; [apply gpass_perm|].
      destruct (gpass_noswap_sorted rest x Hsw) as [Hfst Hd]. rewrite Hfst. exact Hd.
Qed.

End GenericBubble.

Arguments gpass [T] lt x rest.
Arguments gsort [T] lt fuel l.
Arguments desc [T] lt l.
Arguments inv [T] lt l.
Arguments cnt [T] lt x l.

(** ** A4: why the consistency of the order matters.
    The requested witness "3-cycle on {0,1,2} never terminates" does NOT exist: a 3-cycle
    is asymmetric, so by [gsort_terminates_asym] the sort terminates from every start
    (below: all six starts, with one unit of fuel; the results are [desc] but of course
    not sorted in any meaningful sense).  Divergence needs a pair that compares [Lt] in
    both directions, which an inconsistent (rounded) comparison can produce: [lt2]. *)
Definition lt3 (a b : nat) : bool :=
  match a, b with
  | 0, 1 => true | 1, 2 => true | 2, 0 => true
  | _, _ => false
  end.

Lemma gsort_lt3_terminates :
  gsort lt3 1 [0;1;2] = Ok [1;0;2] /\ gsort lt3 1 [0;2;1] = Ok [0;2;1] /\
  gsort lt3 1 [1;0;2] = Ok [1;0;2] /\ gsort lt3 1 [1;2;0] = Ok [2;1;0] /\
  gsort lt3 1 [2;0;1] = Ok [0;2;1] /\ gsort lt3 1 [2;1;0] = Ok [2;1;0].
Proof. repeat split. Qed.

Definition lt2 (a b : nat) : bool :=
  match a, b with
  | 0, 1 => true | 1, 0 => true
  | _, _ => false
  end.

Theorem gsort_lt2_diverges : forall fuel, gsort lt2 fuel [0;1] = OutOfFuel.
Proof.
  assert (H : forall fuel,
    gsort lt2 fuel [0;1] = OutOfFuel /\ gsort lt2 fuel [1;0] = OutOfFuel).
  { induction fuel as [|f [IH1 IH2]]; [split; reflexivity|].
    split; [exact IH2 | exact IH1]. }
  intros fuel. apply H.
Qed.

(** ** A5: transfer to [Connect.bubble_pass] / [Connect.bubble_sort] *)
Section Transfer.
Variable N : Num.
Variable st : store N.

Lemma bubble_pass_is_gpass : forall rest x,
  bubble_pass st x rest = gpass (ev_lt st) x rest.
Proof.
  induction rest as [|y rest IH]; intros x; [reflexivity|].
  cbn [bubble_pass gpass]. rewrite !IH. reflexivity.
Qed.

Lemma bubble_sort_is_gsort : forall fuel l,
  bubble_sort fuel st l = gsort (ev_lt st) fuel l.
Proof.
  induction fuel as [|f IH]; intros [|x rest]; try reflexivity;
    cbn [bubble_sort gsort]; rewrite bubble_pass_is_gpass.
  - destruct (gpass (ev_lt st) x rest) as [l' [|]]; reflexivity.
  - destruct (gpass (ev_lt st) x rest) as [l' [|]]; [apply IH | reflexivity].
Qed.

Theorem bubble_pass_perm : forall rest x,
  Permutation (x :: rest) (fst (bubble_pass st x rest)).
Proof. intros. rewrite bubble_pass_is_gpass. apply gpass_perm. Qed.

Theorem bubble_pass_noswap_sorted : forall rest x,
  snd (bubble_pass st x rest) = false ->
  fst (bubble_pass st x rest) = x :: rest /\ desc (ev_lt st) (x :: rest).
Proof. intros rest x. rewrite bubble_pass_is_gpass. apply gpass_noswap_sorted. Qed.

Theorem bubble_sort_ok_sorted : forall fuel l l',
  bubble_sort fuel st l = Ok l' -> Permutation l l' /\ desc (ev_lt st) l'.
Proof. intros fuel l l'. rewrite bubble_sort_is_gsort. apply gsort_ok_sorted. Qed.

Theorem bubble_sort_terminates : forall fuel l,
  (forall a, In a l -> ev_lt st a a = false) ->
  (forall a b c, In a l -> In b l -> In c l ->
     ev_lt st a b = true -> ev_lt st b c = true -> ev_lt st a c = true) ->
  (forall a b, In a l -> In b l -> a <> b -> ev_lt st a b = true \/ ev_lt st b a = true) ->
  length l <= fuel ->
  exists l', bubble_sort fuel st l = Ok l' /\ Permutation l l' /\ desc (ev_lt st) l'.
Proof.
  intros fuel l Hirr Htrans Htot Hlen. rewrite bubble_sort_is_gsort.
  apply gsort_terminates; assumption.
Qed.

(** strict weak order version (allows distinct events that compare [Eq]) and sharp fuel *)
Theorem bubble_sort_terminates_sw : forall fuel l,
  (forall a b, In a l -> In b l -> ev_lt st a b = true -> ev_lt st b a = false) ->
  (forall a b c, In a l -> In b l -> In c l ->
     ev_lt st a b = false -> ev_lt st b c = false -> ev_lt st a c = false) ->
  length l <= S fuel ->
  exists l', bubble_sort fuel st l = Ok l' /\ Permutation l l' /\ desc (ev_lt st) l'.
Proof.
  intros fuel l Hasym Hnt Hlen. rewrite bubble_sort_is_gsort.
  apply (gsort_terminates_sw _ (ev_lt st) (fun a => In a l)); auto.
Qed.

Theorem bubble_sort_terminates_asym : forall fuel l,
  (forall a b, In a l -> In b l -> ev_lt st a b = true -> ev_lt st b a = false) ->
  inv (ev_lt st) l <= fuel ->
  exists l', bubble_sort fuel st l = Ok l' /\ Permutation l l' /\ desc (ev_lt st) l'.
Proof.
  intros fuel l Hasym Hinv. rewrite bubble_sort_is_gsort.
  apply gsort_terminates_asym; assumption.
Qed.

End Transfer.

(* ====================================================================================== *)
(** * PART B: the binary heap *)
(* ====================================================================================== *)

(** parent index arithmetic *)
Lemma par_spec : forall i, 0 < i -> 2 * ((i - 1) / 2) + 1 <= i <= 2 * ((i - 1) / 2) + 2.
Proof.
  intros i Hi.
  pose proof (Nat.div_mod (i - 1) 2 ltac:(discriminate)) as Hdm.
  pose proof (Nat.mod_upper_bound (i - 1) 2 ltac:(discriminate)) as Hub.
  lia.
Qed.

Lemma par_lt : forall i, 0 < i -> (i - 1) / 2 < i.
Proof. intros i Hi. pose proof (par_spec i Hi). lia. Qed.

Section HeapProofs.
Variable T : Type.
Variable le : T -> T -> bool.
Variable dflt : T.

Local Notation get := (hget dflt).
Local Notation par i := ((i - 1) / 2).

(** ** [hget] / [hset] *)
Lemma hset_length : forall (l : list T) i v, length (hset l i v) = length l.
Proof.
  induction l as [|a l IH]; intros [|i] v; cbn [hset length]; try reflexivity.
  rewrite IH. reflexivity.
Qed.

Lemma hget_hset_eq : forall (l : list T) i v, i < length l -> get (hset l i v) i = v.
Proof.
  unfold hget. induction l as [|a l IH]; intros [|i] v Hi; cbn [length] in Hi;
    cbn [hset nth]; try lia; [reflexivity|]. apply IH. lia.
Qed.

Lemma hget_hset_neq : forall (l : list T) i j v, i <> j -> get (hset l i v) j = get l j.
Proof.
  unfold hget. induction l as [|a l IH]; intros [|i] [|j] v Hne; cbn [hset nth];
    try reflexivity; try congruence. apply IH. congruence.
Qed.

Lemma hset_hset_same : forall (l : list T) i a b, hset (hset l i a) i b = hset l i b.
Proof.
  induction l as [|c l IH]; intros [|i] a b; cbn [hset]; try reflexivity.
  rewrite IH. reflexivity.
Qed.

Lemma hset_hget_id : forall (l : list T) i, hset l i (get l i) = l.
Proof.
  unfold hget. induction l as [|c l IH]; intros [|i]; cbn [hset nth]; try reflexivity.
  rewrite IH. reflexivity.
Qed.

Lemma hset_perm_cons : forall (l : list T) i v,
  i < length l -> Permutation (get l i :: hset l i v) (v :: l).
Proof.
  unfold hget. induction l as [|a l IH]; intros [|i] v Hi; cbn [length] in Hi;
    cbn [hset nth]; try lia.
  - apply perm_swap.
  - eapply perm_trans; [apply perm_swap|].
    eapply perm_trans; [apply perm_skip, IH; lia|]. apply perm_swap.
Qed.

(** moving the element at [j] into the hole [i] and filling [j] with [v]: same multiset
    as filling the hole [i] with [v] *)
Lemma hset_swap_perm : forall (l : list T) i j v,
  i < length l -> j < length l ->
  Permutation (hset (hset l i (get l j)) j v) (hset l i v).
Proof.
  intros l i j v Hi Hj. destruct (Nat.eq_dec i j) as [->|Hne].
  - rewrite hset_hset_same. apply Permutation_refl.
  - set (l1 := hset l i (get l j)).
    assert (P1 : Permutation (get l j :: hset l1 j v) (v :: l1)).
    { rewrite <- (hget_hset_neq l i j (get l j) Hne). fold l1.
      apply hset_perm_cons. unfold l1. rewrite hset_length. exact Hj. }
    assert (P2 : Permutation (get l i :: l1) (get l j :: l))
      by (apply hset_perm_cons; exact Hi).
    assert (P3 : Permutation (get l i :: hset l i v) (v :: l))
      by (apply hset_perm_cons; exact Hi).
    apply Permutation_cons_inv with (a := get l j).
    apply Permutation_cons_inv with (a := get l i).
    eapply perm_trans; [apply perm_skip, P1|].
    eapply perm_trans; [apply perm_swap|].
    eapply perm_trans; [apply perm_skip, P2|].
    eapply perm_trans; [apply perm_swap|].
    eapply perm_trans; [apply perm_skip, Permutation_sym, P3|].
    apply perm_swap.
Qed.

(** ** B1/B2: [push] and [pop] only permute (no hypothesis on [le]) *)
Lemma sift_up_loop_length : forall fuel (data : list T) start hole x,
  length (sift_up_loop le dflt fuel data start hole x) = length data.
Proof.
  induction fuel as [|f IH]; intros data start hole x; cbn [sift_up_loop]; rewrite ?psub_eq.
  - apply hset_length.
  - destruct (start <? hole); [|apply hset_length].
    destruct (le x (get data (par hole))); [apply hset_length|].
    rewrite IH. apply hset_length.
Qed.

Lemma sift_up_loop_perm : forall fuel (data : list T) start hole x,
  hole < length data ->
  Permutation (sift_up_loop le dflt fuel data start hole x) (hset data hole x).
Proof.
  induction fuel as [|f IH]; intros data start hole x Hh; cbn [sift_up_loop]; rewrite ?psub_eq.
  - apply Permutation_refl.
  - destruct (start <? hole) eqn:Hlt; [|apply Permutation_refl].
    apply Nat.ltb_lt in Hlt.
    destruct (le x (get data (par hole))); [apply Permutation_refl|].
    assert (Hp : par hole < length data) by (pose proof (par_lt hole); lia).
    eapply perm_trans; [apply IH; rewrite hset_length; exact Hp|].
    apply hset_swap_perm; assumption.
Qed.

Lemma sift_down_loop_perm : forall fuel (data : list T) end_ hole x data' hole',
  end_ = length data -> hole < length data ->
  sift_down_loop le dflt fuel data end_ hole = (data', hole') ->
  length data' = length data /\ hole' < length data /\
  Permutation (hset data' hole' x) (hset data hole x).
Proof.
  induction fuel as [|f IH]; intros data end_ hole x data' hole' He Hh Hrun;
    cbn [sift_down_loop] in Hrun; rewrite ?psub_eq in Hrun.
  - inversion Hrun; subst. repeat split; [exact Hh | apply Permutation_refl].
  - destruct (2 * hole + 1 <=? end_ - 2) eqn:Hc.
    + apply Nat.leb_le in Hc.
      set (c := if le (get data (2 * hole + 1)) (get data (2 * hole + 1 + 1))
                then 2 * hole + 1 + 1 else 2 * hole + 1) in Hrun.
      assert (Hcl : c < length data) by (subst c; destruct (le _ _); lia).
      destruct (IH (hset data hole (get data c)) end_ c x data' hole') as (Hl & Hh' & Hp).
      { rewrite hset_length. exact He. }
      { rewrite hset_length. exact Hcl. }
      { exact Hrun. }
      rewrite hset_length in Hl, Hh'. split; [exact Hl|]. split; [exact Hh'|].
      eapply perm_trans; [exact Hp|]. apply hset_swap_perm; assumption.
    + apply Nat.leb_gt in Hc. destruct (2 * hole + 1 =? end_ - 1) eqn:Hc1.
      * apply Nat.eqb_eq in Hc1. inversion Hrun; subst data' hole'.
        rewrite hset_length. split; [reflexivity|]. split; [lia|].
        apply hset_swap_perm; lia.
      * inversion Hrun; subst. repeat split; [exact Hh | apply Permutation_refl].
Qed.

Lemma sift_down_to_bottom_perm : forall (data : list T),
  0 < length data -> Permutation (sift_down_to_bottom le dflt data) data.
Proof.
  intros data Hlen. unfold sift_down_to_bottom. cbv zeta.
  destruct (sift_down_loop le dflt (S (length data)) data (length data) 0)
    as [data' hole'] eqn:Hrun.
  destruct (sift_down_loop_perm _ _ _ _ (get data 0) _ _ eq_refl Hlen Hrun) as (Hl & Hh & Hp).
  eapply perm_trans; [apply sift_up_loop_perm; lia|].
  eapply perm_trans; [exact Hp|]. rewrite hset_hget_id. apply Permutation_refl.
Qed.

Theorem push_perm : forall (data : list T) x, Permutation (push le dflt data x) (x :: data).
Proof.
  intros data x. unfold push, sift_up.
  eapply perm_trans; [apply sift_up_loop_perm; rewrite app_length; cbn; lia|].
  rewrite hset_hget_id. apply Permutation_sym, Permutation_cons_append.
Qed.

Lemma pop_inv : forall (data : list T) top rest,
  pop le dflt data = Some (top, rest) ->
  (data = [top] /\ rest = []) \/
  (exists rest' last, data = top :: rest' ++ [last] /\
                      rest = sift_down_to_bottom le dflt (last :: rest')).
Proof.
  intros data top rest. unfold pop.
  destruct (rev data) as [|last rinit] eqn:Hrev; [discriminate|].
  assert (Hd : data = rev rinit ++ [last]).
  { rewrite <- (rev_involutive data), Hrev. reflexivity. }
  destruct (rev rinit) as [|top' rest']; intros H; inversion H; subst.
  - left. split; reflexivity.
  - right. exists rest', last. split; reflexivity.
Qed.

Theorem pop_perm : forall (data : list T) top rest,
  pop le dflt data = Some (top, rest) -> Permutation data (top :: rest).
Proof.
  intros data top rest Hpop.
  destruct (pop_inv _ _ _ Hpop) as [[-> ->] | (rest' & last & -> & ->)].
  - apply Permutation_refl.
  - apply perm_skip.
    eapply perm_trans; [|apply Permutation_sym, sift_down_to_bottom_perm; cbn; lia].
    apply Permutation_sym, Permutation_cons_append.
Qed.

(** ** B5 *)
Theorem pop_none : forall (data : list T), pop le dflt data = None <-> data = [].
Proof.
  intros data. unfold pop. split.
  - destruct (rev data) as [|last rinit] eqn:Hrev.
    + intros _. rewrite <- (rev_involutive data), Hrev. reflexivity.
    + destruct (rev rinit); discriminate.
  - intros ->. reflexivity.
Qed.

(** ** B3/B4: the max-heap property *)
Definition heap_ok (l : list T) : Prop :=
  forall i, 0 < i < length l -> le (get l i) (get l (par i)) = true.

Hypothesis le_refl : forall a, le a a = true.
Hypothesis le_trans : forall a b c, le a b = true -> le b c = true -> le a c = true.
Hypothesis le_total : forall a b, le a b = true \/ le b a = true.

(** the result of [sift_up_loop] only depends on the array with the hole filled *)
Lemma sift_up_loop_filled : forall fuel (data : list T) start hole x,
  sift_up_loop le dflt fuel data start hole x =
  sift_up_loop le dflt fuel (hset data hole x) start hole x.
Proof.
  intros [|f] data start hole x; cbn [sift_up_loop]; rewrite ?psub_eq.
  - rewrite hset_hset_same. reflexivity.
  - destruct (start <? hole) eqn:Hlt; [|rewrite hset_hset_same; reflexivity].
    apply Nat.ltb_lt in Hlt.
    assert (Hne : hole <> par hole) by (pose proof (par_lt hole); lia).
    rewrite (hget_hset_neq data hole (par hole) x Hne).
    destruct (le x (get data (par hole))); rewrite hset_hset_same; reflexivity.
Qed.

(** [d] is a heap except possibly between [hole] and its parent *)
Definition up_inv (d : list T) (hole : nat) : Prop :=
  (forall i, 0 < i < length d -> i <> hole -> le (get d i) (get d (par i)) = true) /\
  (forall i, 0 < i < length d -> par i = hole -> 0 < hole ->
             le (get d i) (get d (par hole)) = true).

Lemma hget_swap : forall (d : list T) h p i,
  h < length d -> p < length d -> h <> p ->
  get (hset (hset d h (get d p)) p (get d h)) i =
  if Nat.eq_dec i p then get d h else if Nat.eq_dec i h then get d p else get d i.
Proof.
  intros d h p i Hh Hp Hne. destruct (Nat.eq_dec i p) as [->|Hip].
  - apply hget_hset_eq. rewrite hset_length. exact Hp.
  - rewrite hget_hset_neq by congruence. destruct (Nat.eq_dec i h) as [->|Hih].
    + apply hget_hset_eq. exact Hh.
    + apply hget_hset_neq. congruence.
Qed.

Lemma sift_up_heap_ok : forall fuel (d : list T) hole,
  hole < fuel -> hole < length d -> up_inv d hole ->
  heap_ok (sift_up_loop le dflt fuel d 0 hole (get d hole)).
Proof.
  induction fuel as [|f IH]; intros d hole Hf Hh [I1 I2]; [lia|].
  cbn [sift_up_loop]; rewrite ?psub_eq. destruct (0 <? hole) eqn:H0.
  - apply Nat.ltb_lt in H0. pose proof (par_lt hole H0) as Hpl.
    set (p := par hole) in *.
    destruct (le (get d hole) (get d p)) eqn:Hle.
    + rewrite hset_hget_id. intros i Hi.
      destruct (Nat.eq_dec i hole) as [->|Hne]; [exact Hle | apply I1; assumption].
    + assert (Hge : le (get d p) (get d hole) = true).
      { destruct (le_total (get d p) (get d hole)) as [H|H]; [exact H|congruence]. }
      rewrite sift_up_loop_filled.
      set (d2 := hset (hset d hole (get d p)) p (get d hole)).
      assert (Hpd : p < length d) by lia.
      assert (Hhp : hole <> p) by lia.
      assert (Hl2 : length d2 = length d) by (unfold d2; rewrite !hset_length; reflexivity).
      assert (Hx : get d2 p = get d hole).
      { unfold d2. apply hget_hset_eq. rewrite hset_length. exact Hpd. }
      rewrite <- Hx. apply IH; [lia | lia |].
      assert (Hsw := fun i => hget_swap d hole p i Hh Hpd Hhp).
      split.
      * intros i Hi Hip. rewrite Hl2 in Hi.
        pose proof (par_lt i ltac:(lia)) as Hpi.
        unfold d2. rewrite !Hsw.
        destruct (Nat.eq_dec i p) as [|_]; [contradiction|].
        destruct (Nat.eq_dec i hole) as [->|Hih].
        -- fold p. destruct (Nat.eq_dec p p) as [_|]; [exact Hge|contradiction].
        -- destruct (Nat.eq_dec (par i) p) as [Ep|Np].
           ++ apply le_trans with (get d p); [|exact Hge].
              rewrite <- Ep. apply I1; assumption.
           ++ destruct (Nat.eq_dec (par i) hole) as [Eh|Nh].
              ** apply I2; assumption.
              ** apply I1; assumption.
      * intros i Hi Hpar Hp0. rewrite Hl2 in Hi.
        pose proof (par_lt i ltac:(lia)) as Hpi.
        pose proof (par_lt p Hp0) as Hpp.
        unfold d2. rewrite !Hsw.
        destruct (Nat.eq_dec i p) as [|_]; [lia|].
        destruct (Nat.eq_dec (par p) p) as [|_]; [lia|].
        destruct (Nat.eq_dec (par p) hole) as [|_]; [lia|].
        assert (Hpp' : le (get d p) (get d (par p)) = true) by (apply I1; lia).
        destruct (Nat.eq_dec i hole) as [->|Hih]; [exact Hpp'|].
        apply le_trans with (get d p); [|exact Hpp'].
        rewrite <- Hpar. apply I1; assumption.
  - apply Nat.ltb_ge in H0. rewrite hset_hget_id. intros i Hi. apply I1; lia.
Qed.

Theorem push_heap_ok : forall (data : list T) x,
  heap_ok data -> heap_ok (push le dflt data x).
Proof.
  intros data x Hok. unfold push, sift_up.
  assert (Hlen : length (data ++ [x]) = S (length data))
    by (rewrite app_length; cbn; lia).
  apply sift_up_heap_ok; [lia | lia |]. unfold up_inv. rewrite Hlen. split.
  - intros i Hi Hne. pose proof (par_lt i ltac:(lia)) as Hpi.
    unfold hget. rewrite !app_nth1 by lia. apply Hok. lia.
  - intros i Hi Hpar _. pose proof (par_lt i ltac:(lia)). lia.
Qed.

(** the root of a max-heap is a maximum *)
Lemma heap_root_max : forall (l : list T) i,
  heap_ok l -> i < length l -> le (get l i) (get l 0) = true.
Proof.
  intros l i Hok. induction i as [i IH] using lt_wf_ind. intros Hi.
  destruct (Nat.eq_dec i 0) as [->|Hne]; [apply le_refl|].
  pose proof (par_lt i ltac:(lia)) as Hpi.
  apply le_trans with (get l (par i)); [apply Hok; lia | apply IH; lia].
Qed.

Theorem pop_max : forall (data : list T) top rest,
  heap_ok data -> pop le dflt data = Some (top, rest) ->
  forall y, In y data -> le y top = true.
Proof.
  intros data top rest Hok Hpop y Hy.
  destruct (@In_nth T data y dflt Hy) as (i & Hi & Hnth).
  assert (Htop : get data 0 = top).
  { destruct (pop_inv _ _ _ Hpop) as [[-> _] | (rest' & last & -> & _)]; reflexivity. }
  rewrite <- Htop, <- Hnth. apply heap_root_max; assumption.
Qed.

(** sifting down to the bottom: [data] is a heap except between [hole] and its children
    (the value at [hole] is stale) *)
Definition down_inv (d : list T) (hole : nat) : Prop :=
  (forall i, 0 < i < length d -> par i <> hole -> le (get d i) (get d (par i)) = true) /\
  (forall i, 0 < i < length d -> par i = hole -> 0 < hole ->
             le (get d i) (get d (par hole)) = true).

Lemma down_step : forall (d : list T) hole c,
  hole < length d -> c < length d -> par c = hole -> 0 < c ->
  down_inv d hole ->
  (forall i, 0 < i < length d -> par i = hole -> le (get d i) (get d c) = true) ->
  down_inv (hset d hole (get d c)) c.
Proof.
  intros d hole c Hh Hc Hpc Hc0 [I1 I2] Hbig.
  pose proof (par_lt c Hc0) as Hpcl.
  split; rewrite hset_length.
  - intros i Hi Hne. pose proof (par_lt i ltac:(lia)) as Hpi.
    destruct (Nat.eq_dec i hole) as [->|Hih].
    + rewrite hget_hset_eq by exact Hh. rewrite hget_hset_neq by lia.
      apply (I2 c); lia.
    + rewrite (hget_hset_neq d hole i (get d c)) by congruence.
      destruct (Nat.eq_dec (par i) hole) as [Eh|Nh].
      * rewrite Eh, hget_hset_eq by exact Hh. apply Hbig; assumption.
      * rewrite hget_hset_neq by congruence. apply I1; assumption.
  - intros i Hi Hpar _. pose proof (par_lt i ltac:(lia)) as Hpi.
    rewrite Hpc, hget_hset_eq by exact Hh. rewrite hget_hset_neq by lia.
    rewrite <- Hpar. apply I1; lia.
Qed.

Lemma sift_down_loop_inv : forall fuel (data : list T) end_ hole data' hole',
  end_ = length data -> hole < length data -> length data <= fuel + hole ->
  down_inv data hole ->
  sift_down_loop le dflt fuel data end_ hole = (data', hole') ->
  length data' = length data /\ hole' < length data /\
  down_inv data' hole' /\ length data <= 2 * hole' + 1.
Proof.
  induction fuel as [|f IH]; intros data end_ hole data' hole' He Hh Hf Hinv Hrun; [lia|].
  cbn [sift_down_loop] in Hrun; rewrite ?psub_eq in Hrun.
  destruct (2 * hole + 1 <=? end_ - 2) eqn:Hc.
  - apply Nat.leb_le in Hc.
    set (c := if le (get data (2 * hole + 1)) (get data (2 * hole + 1 + 1))
              then 2 * hole + 1 + 1 else 2 * hole + 1) in Hrun.
    assert (Hcs : (c = 2 * hole + 1 \/ c = 2 * hole + 2) /\
                  le (get data (2 * hole + 1)) (get data c) = true /\
                  le (get data (2 * hole + 2)) (get data c) = true).
    { subst c. replace (2 * hole + 1 + 1) with (2 * hole + 2) by lia.
      destruct (le (get data (2 * hole + 1)) (get data (2 * hole + 2))) eqn:Hle.
      - split; [right; reflexivity|]. split; [exact Hle | apply le_refl].
      - split; [left; reflexivity|]. split; [apply le_refl|].
        destruct (le_total (get data (2 * hole + 2)) (get data (2 * hole + 1)));
          [assumption|congruence]. }
    clearbody c. destruct Hcs as (Hcc & Hc1 & Hc2).
    assert (Hcl : c < length data) by lia.
    assert (Hpc : par c = hole).
    { pose proof (par_spec c ltac:(lia)). lia. }
    destruct (IH (hset data hole (get data c)) end_ c data' hole') as (Hl & Hh' & Hi' & Hb).
    { rewrite hset_length. exact He. }
    { rewrite hset_length. exact Hcl. }
    { rewrite hset_length. lia. }
    { apply down_step; try assumption; [lia|].
      intros i Hi Hpar. pose proof (par_spec i ltac:(lia)).
      assert (Hi2 : i = 2 * hole + 1 \/ i = 2 * hole + 2) by lia.
      destruct Hi2 as [->| ->]; assumption. }
    { exact Hrun. }
    rewrite hset_length in Hl, Hh', Hb. auto.
  - apply Nat.leb_gt in Hc. destruct (2 * hole + 1 =? end_ - 1) eqn:Hc1.
    + apply Nat.eqb_eq in Hc1. inversion Hrun; subst data' hole'.
      rewrite hset_length. split; [reflexivity|]. split; [lia|]. split; [|lia].
      assert (Hpc : par (2 * hole + 1) = hole).
      { pose proof (par_spec (2 * hole + 1) ltac:(lia)). lia. }
      apply down_step; try assumption; try lia.
      intros i Hi Hpar. pose proof (par_spec i ltac:(lia)).
      assert (Hi2 : i = 2 * hole + 1) by lia. rewrite Hi2. apply le_refl.
    + apply Nat.eqb_neq in Hc1. inversion Hrun; subst data' hole'.
      split; [reflexivity|]. split; [exact Hh|]. split; [exact Hinv|]. lia.
Qed.

Lemma sift_down_to_bottom_heap_ok : forall (data : list T),
  0 < length data -> down_inv data 0 -> heap_ok (sift_down_to_bottom le dflt data).
Proof.
  intros data Hlen Hinv. unfold sift_down_to_bottom. cbv zeta.
  destruct (sift_down_loop le dflt (S (length data)) data (length data) 0)
    as [data' hole'] eqn:Hrun.
  assert (Hf : length data <= S (length data) + 0) by lia.
  destruct (sift_down_loop_inv _ _ _ _ _ _ eq_refl Hlen Hf Hinv Hrun)
    as (Hl & Hh & [I1 I2] & Hb).
  rewrite sift_up_loop_filled.
  set (x := get data 0). set (d := hset data' hole' x).
  assert (Hld : length d = length data) by (unfold d; rewrite hset_length; exact Hl).
  assert (Hx : get d hole' = x) by (unfold d; apply hget_hset_eq; lia).
  rewrite <- Hx. apply sift_up_heap_ok; [lia | lia |].
  split; rewrite Hld.
  - intros i Hi Hne. pose proof (par_spec i ltac:(lia)).
    unfold d. rewrite !hget_hset_neq by lia. apply I1; lia.
  - intros i Hi Hpar _. pose proof (par_spec i ltac:(lia)). lia.
Qed.

Theorem pop_heap_ok : forall (data : list T) top rest,
  heap_ok data -> pop le dflt data = Some (top, rest) -> heap_ok rest.
Proof.
  intros data top rest Hok Hpop.
  destruct (pop_inv _ _ _ Hpop) as [[-> ->] | (rest' & last & -> & ->)].
  - intros i Hi. cbn in Hi. lia.
  - assert (Hsame : forall k, 0 < k < length (last :: rest') ->
              get (last :: rest') k = get (top :: rest' ++ [last]) k).
    { intros [|k] Hk; [lia|]. cbn [length] in Hk. unfold hget. cbn [nth].
      symmetry. apply app_nth1. lia. }
    apply sift_down_to_bottom_heap_ok; [cbn; lia|]. split.
    + intros i Hi Hne. pose proof (par_lt i ltac:(lia)) as Hpi.
      rewrite !Hsame by lia. apply Hok.
      cbn [length] in *. rewrite app_length. cbn [length]. lia.
    + intros i _ _ H. lia.
Qed.

End HeapProofs.

Arguments heap_ok [T] le dflt l.

(* ====================================================================================== *)
(** * Assumptions *)
(* ====================================================================================== *)
Print Assumptions bubble_pass_is_gpass.
Print Assumptions bubble_sort_is_gsort.
Print Assumptions gpass_perm.
Print Assumptions gpass_noswap_sorted.
Print Assumptions gsort_terminates_sw.
Print Assumptions gsort_terminates.
Print Assumptions gsort_terminates_asym.
Print Assumptions gsort_ok_sorted.
Print Assumptions gsort_lt3_terminates.
Print Assumptions gsort_lt2_diverges.
Print Assumptions bubble_pass_perm.
Print Assumptions bubble_pass_noswap_sorted.
Print Assumptions bubble_sort_ok_sorted.
Print Assumptions bubble_sort_terminates.
Print Assumptions bubble_sort_terminates_sw.
Print Assumptions bubble_sort_terminates_asym.
Print Assumptions push_perm.
Print Assumptions pop_perm.
Print Assumptions pop_none.
Print Assumptions push_heap_ok.
Print Assumptions pop_max.
Print Assumptions pop_heap_ok.
