(** * Queue filling creates exactly one event pair per non-degenerate input edge (C13), and
    result rings are closed (C04): every instance, every input. *)
From Coq Require Import Bool List PArith NArith Lia Permutation.
From GB Require Import Prim Num Event Intersect Cmp Heap Outcome Divide FillQueue TrivialProofs SortProofs.
Import ListNotations.

Section Count.
Variable N : Num.
Notation pt := (pt N).

Lemma qpush_length (st : store N) q i : length (qpush st q i) = S (length q).
Proof. unfold qpush. rewrite (Permutation_length (@push_perm _ (ev_le st) xH q i)). reflexivity. Qed.

Lemma process_edge_len (s : fq N) subj cid ext (a b : pt) :
  length (fq_q (process_edge s subj cid ext a b)) = (length (fq_q s) + (if pt_eq a b then 0 else 2))%nat.
Proof.
  unfold process_edge. destruct (pt_eq a b); [lia|].
  destruct (alloc (fq_st s) _) as [st1 e1]. destruct (alloc st1 _) as [st2 e2].
  cbn [fq_q]. rewrite !qpush_length. lia.
Qed.

Lemma process_ring_from_len : forall (rest : ring N) (s : fq N) subj cid ext (prev : pt),
  length (fq_q (process_ring_from s subj cid ext prev rest))
  = (length (fq_q s) + 2 * length (starts_from prev rest))%nat.
Proof.
  induction rest as [|p rest IH]; intros s subj cid ext prev; cbn [process_ring_from starts_from]; [cbn; lia|].
  rewrite IH, process_edge_len. destruct (pt_eq prev p); cbn [length]; lia.
Qed.
Lemma process_ring_len (s : fq N) (r : ring N) subj cid ext :
  length (fq_q (process_ring s r subj cid ext)) = (length (fq_q s) + 2 * length (starts_of_ring r))%nat.
Proof. destruct r as [|p rest]; [cbn; lia|]. apply process_ring_from_len. Qed.
Lemma process_interiors_len : forall (ints : list (ring N)) (s : fq N) subj cid,
  length (fq_q (process_interiors s ints subj cid))
  = (length (fq_q s) + 2 * length (flat_map (@starts_of_ring N) ints))%nat.
Proof.
  unfold process_interiors. induction ints as [|r ints IH]; intros s subj cid; cbn [fold_left flat_map]; [cbn; lia|].
  rewrite IH, process_ring_len, app_length. lia.
Qed.
Lemma fill_subject_len : forall (ps : list (polygon N)) (s : fq N) cid,
  length (fq_q (fst (fill_subject s cid ps))) = (length (fq_q s) + 2 * length (starts_of ps))%nat.
Proof.
  induction ps as [|p ps IH]; intros s cid; cbn [fill_subject]; [cbn; lia|].
  rewrite IH, process_interiors_len, process_ring_len, starts_of_cons. unfold starts_of_polygon.
  rewrite !app_length. lia.
Qed.
Lemma fill_clipping_len : forall (ps : list (polygon N)) (s : fq N) cid op,
  length (fq_q (fst (fill_clipping s cid op ps))) = (length (fq_q s) + 2 * length (starts_of ps))%nat.
Proof.
  induction ps as [|p ps IH]; intros s cid op; cbn [fill_clipping]; [cbn; lia|].
  rewrite IH, process_interiors_len, process_ring_len, starts_of_cons. unfold starts_of_polygon.
  rewrite !app_length. lia.
Qed.

(** C13: [starts_of] lists one start point per non-collapsed edge, so the queue holds exactly
    two events per non-degenerate input edge *)
Theorem fill_queue_event_count (subject clipping : list (polygon N)) (op : operation) :
  length (f_q (fill_queue subject clipping op)) = (2 * (length (starts_of subject) + length (starts_of clipping)))%nat.
Proof.
  unfold fill_queue.
  pose proof (fill_subject_len subject (mkFQ (empty_store N) [] (empty_bb N)) 0%N) as H1.
  destruct (fill_subject (mkFQ (empty_store N) [] (empty_bb N)) 0 subject) as [s1 cid]. cbn [fst] in H1.
  pose proof (fill_clipping_len clipping (mkFQ (fq_st s1) (fq_q s1) (empty_bb N)) cid op) as H2.
  destruct (fill_clipping (mkFQ (fq_st s1) (fq_q s1) (empty_bb N)) cid op clipping) as [s2 c2]. cbn [fst] in H2.
  cbn [f_q]. rewrite H2. cbn [fq_q]. rewrite H1. cbn [fq_q length]. lia.
Qed.

(** C04: [Polygon::new] closes every ring it is given *)
Theorem close_ring_closed (r : ring N) h t :
  close_ring r = h :: t -> t <> [] -> pt_eq h (last t h) = true \/ last t h = h.
Proof.
  destruct r as [|h0 t0]; [discriminate|]. cbn [close_ring].
  destruct (pt_eq h0 (last t0 h0)) eqn:E.
  - intros H; inversion H; subst. intros _. left. exact E.
  - intros H Hne. inversion H; subst. right. apply last_last.
Qed.

End Count.
