(** * [SweepEvent] + [MutablePart] as a record in an arena.
    [Rc::ptr_eq] = identity of ids; [Weak::upgrade] = lookup (events are modelled as
    always live: inside [boolean_operation] every event is owned by the queue or by the
    vector of processed events for the whole call). *)
From Coq Require Import Bool ZArith NArith PArith List FMapPositive.
From GB Require Import Num Prim.
Import ListNotations.
Set Implicit Arguments.

Inductive edge_type := Normal | NonContributing | SameTransition | DifferentTransition.
Inductive result_transition := RTNone | InOut | OutIn.
Inductive operation := Intersection | Difference | Union | Xor.

Definition edge_type_eqb (a b : edge_type) : bool :=
  match a, b with
  | Normal, Normal | NonContributing, NonContributing
  | SameTransition, SameTransition | DifferentTransition, DifferentTransition => true
  | _, _ => false
  end.
Definition operation_eqb (a b : operation) : bool :=
  match a, b with
  | Intersection, Intersection | Difference, Difference | Union, Union | Xor, Xor => true
  | _, _ => false
  end.
Definition rt_eqb (a b : result_transition) : bool :=
  match a, b with
  | RTNone, RTNone | InOut, InOut | OutIn, OutIn => true
  | _, _ => false
  end.

Definition eid := positive.

Section Ev.
Variable N : Num.

Record event := mkEv {
  e_point : pt N;
  e_contour_id : N.t;
  e_is_subject : bool;
  e_is_exterior_ring : bool;
  e_left : bool;
  e_other : option eid;
  e_prev_in_result : option eid;
  e_edge_type : edge_type;
  e_in_out : bool;
  e_other_in_out : bool;
  e_result_transition : result_transition;
  e_other_pos : Z;
  e_output_contour_id : Z
}.

(** [SweepEvent::new_rc] *)
Definition new_event (contour_id : N.t) (p : pt N) (left : bool) (other : option eid)
           (is_subject is_exterior_ring : bool) : event :=
  mkEv p contour_id is_subject is_exterior_ring left other None Normal false false RTNone 0%Z (-1)%Z.

Definition set_left (e : event) (b : bool) : event :=
  mkEv (e_point e) (e_contour_id e) (e_is_subject e) (e_is_exterior_ring e) b (e_other e)
       (e_prev_in_result e) (e_edge_type e) (e_in_out e) (e_other_in_out e)
       (e_result_transition e) (e_other_pos e) (e_output_contour_id e).
Definition set_other (e : event) (o : option eid) : event :=
  mkEv (e_point e) (e_contour_id e) (e_is_subject e) (e_is_exterior_ring e) (e_left e) o
       (e_prev_in_result e) (e_edge_type e) (e_in_out e) (e_other_in_out e)
       (e_result_transition e) (e_other_pos e) (e_output_contour_id e).
Definition set_prev_in_result (e : event) (o : option eid) : event :=
  mkEv (e_point e) (e_contour_id e) (e_is_subject e) (e_is_exterior_ring e) (e_left e) (e_other e)
       o (e_edge_type e) (e_in_out e) (e_other_in_out e)
       (e_result_transition e) (e_other_pos e) (e_output_contour_id e).
Definition set_edge_type (e : event) (t : edge_type) : event :=
  mkEv (e_point e) (e_contour_id e) (e_is_subject e) (e_is_exterior_ring e) (e_left e) (e_other e)
       (e_prev_in_result e) t (e_in_out e) (e_other_in_out e)
       (e_result_transition e) (e_other_pos e) (e_output_contour_id e).
Definition set_in_out (e : event) (io oio : bool) : event :=
  mkEv (e_point e) (e_contour_id e) (e_is_subject e) (e_is_exterior_ring e) (e_left e) (e_other e)
       (e_prev_in_result e) (e_edge_type e) io oio
       (e_result_transition e) (e_other_pos e) (e_output_contour_id e).
Definition set_result_transition (e : event) (r : result_transition) : event :=
  mkEv (e_point e) (e_contour_id e) (e_is_subject e) (e_is_exterior_ring e) (e_left e) (e_other e)
       (e_prev_in_result e) (e_edge_type e) (e_in_out e) (e_other_in_out e)
       r (e_other_pos e) (e_output_contour_id e).
Definition set_other_pos (e : event) (p : Z) : event :=
  mkEv (e_point e) (e_contour_id e) (e_is_subject e) (e_is_exterior_ring e) (e_left e) (e_other e)
       (e_prev_in_result e) (e_edge_type e) (e_in_out e) (e_other_in_out e)
       (e_result_transition e) p (e_output_contour_id e).
Definition set_output_contour_id (e : event) (c : Z) : event :=
  mkEv (e_point e) (e_contour_id e) (e_is_subject e) (e_is_exterior_ring e) (e_left e) (e_other e)
       (e_prev_in_result e) (e_edge_type e) (e_in_out e) (e_other_in_out e)
       (e_result_transition e) (e_other_pos e) c.

Definition is_in_result (e : event) : bool := negb (rt_eqb (e_result_transition e) RTNone).

(** ** The arena *)
Record store := mkStore { st_map : PositiveMap.t event; st_next : positive }.

Definition empty_store : store := mkStore (PositiveMap.empty event) 1%positive.

Definition dummy_event : event :=
  new_event 0%N (mkPt N (pinfX N) (pinfY N)) false None false false.

Definition getE (st : store) (i : eid) : event :=
  match pfind i (st_map st) with Some e => e | None => dummy_event end.

Definition alloc (st : store) (e : event) : store * eid :=
  (mkStore (PositiveMap.add (st_next st) e (st_map st)) (Pos.succ (st_next st)), st_next st).

Definition upd (st : store) (i : eid) (f : event -> event) : store :=
  mkStore (PositiveMap.add i (f (getE st i)) (st_map st)) (st_next st).

(** [get_other_event]: [Weak::upgrade] of the link *)
Definition other_of (st : store) (i : eid) : option eid := e_other (getE st i).
Definition point_of (st : store) (i : eid) : pt N := e_point (getE st i).

End Ev.
