(** * The QUADRATIC event bound of C03, exact instance.

    [EventBound.sweep_terminates] bounds the sweep by [n0 (1 + 2 #cand)] with the candidate list
    counted with repetitions — cubic in the number of edges.  Here the candidates are taken up to
    [==] on rationals ([dedupe]); then at most [3 n] of them lie strictly inside a sub-segment of
    one input edge [e] — for every edge [f]: its two end points and the common point of the
    lines of [e] and [f] ([on_edge_candidates]) — so the potential after queue filling is at most
    [n0 (1 + 6 n)] with [n0 <= 2 n]: a quadratic polynomial in the number [n] of input edges. *)
From Coq Require Import Bool List PArith NArith QArith Lqa Lia SetoidList.
From GB Require Import Prim Num NumQ NumLaws NumLawsQ Event Intersect Cmp Heap Outcome Divide Fields FillQueue Subdivide
  IntersectProofs LinkProofs SplayKeys SplitCover OnEdge OnEdgeFull SweepClosure EventBound Cert13.
Import ListNotations.
Local Open Scope Q_scope.

Definition qq := (Q * Q)%type.
Definition qeqp' (a b : qq) : Prop := qeqp (fst a) (snd a) (fst b) (snd b).
Definition qeqpb' (a b : qq) : bool := qeqpb (fst a) (snd a) (fst b) (snd b).
Lemma qeqpb'_spec a b : qeqpb' a b = true <-> qeqp' a b. Proof. apply qeqpb_spec. Qed.
Lemma qeqp'_refl a : qeqp' a a. Proof. split; reflexivity. Qed.
Lemma qeqp'_sym a b : qeqp' a b -> qeqp' b a. Proof. intros [H1 H2]; split; symmetry; assumption. Qed.
Lemma qeqp'_trans a b c : qeqp' a b -> qeqp' b c -> qeqp' a c.
Proof. intros [H1 H2] [K1 K2]; split; [rewrite H1 | rewrite H2]; assumption. Qed.

(** ** candidates up to [==] *)
Fixpoint dedupe (l : list qq) : list qq :=
  match l with
  | [] => []
  | a :: r => let d := dedupe r in if existsb (qeqpb' a) d then d else a :: d
  end.

Lemma dedupe_sub l : forall y, In y (dedupe l) -> In y l.
Proof.
  induction l as [|a r IH]; intros y H; cbn [dedupe] in H; [exact H|].
  destruct (existsb (qeqpb' a) (dedupe r)); [right; now apply IH|].
  destruct H as [<-|H]; [now left | right; now apply IH].
Qed.

Lemma dedupe_in l : forall x, In x l -> exists y, In y (dedupe l) /\ qeqp' x y.
Proof.
  induction l as [|a r IH]; intros x H; [destruct H|]. cbn [dedupe].
  destruct (existsb (qeqpb' a) (dedupe r)) eqn:E.
  - destruct H as [<-|H]; [|now apply IH].
    apply existsb_exists in E. destruct E as (y & Hy & K). exists y. split; [exact Hy | now apply qeqpb'_spec].
  - destruct H as [<-|H].
    + exists a. split; [now left | apply qeqp'_refl].
    + destruct (IH x H) as (y & Hy & K). exists y. split; [now right | exact K].
Qed.

(** no two entries equal up to [==] *)
Fixpoint nodupq (l : list qq) : Prop :=
  match l with [] => True | a :: r => (forall b, In b r -> ~ qeqp' a b) /\ nodupq r end.

Lemma dedupe_nodupq l : nodupq (dedupe l).
Proof.
  induction l as [|a r IH]; cbn [dedupe]; [exact I|].
  destruct (existsb (qeqpb' a) (dedupe r)) eqn:E; [exact IH|].
  split; [|exact IH]. intros b Hb K.
  assert (existsb (qeqpb' a) (dedupe r) = true) by (apply existsb_exists; exists b; split; [exact Hb | now apply qeqpb'_spec]). congruence.
Qed.

Lemma nodupq_filter (f : qq -> bool) l : nodupq l -> nodupq (filter f l).
Proof.
  induction l as [|a r IH]; intros H; cbn [filter]; [exact I|]. destruct H as [H1 H2].
  destruct (f a); [|now apply IH]. split; [|now apply IH].
  intros b Hb. apply filter_In in Hb. apply H1, Hb.
Qed.

(** pigeonhole up to [==] *)
Lemma nodupq_incl_length : forall l m, nodupq l -> (forall x, In x l -> exists y, In y m /\ qeqp' x y) ->
  (length l <= length m)%nat.
Proof.
  induction l as [|a r IH]; intros m ND H; cbn [length]; [lia|].
  destruct ND as [N1 N2]. destruct (H a (or_introl eq_refl)) as (y & Hy & Ky).
  destruct (in_split _ _ Hy) as (m1 & m2 & ->).
  assert (K : (length r <= length (m1 ++ m2))%nat).
  { apply IH; [exact N2|]. intros x Hx. destruct (H x (or_intror Hx)) as (z & Hz & Kz).
    apply in_app_or in Hz. destruct Hz as [Hz|[<-|Hz]].
    - exists z. split; [apply in_or_app; now left | exact Kz].
    - exfalso. apply (N1 x Hx). exact (qeqp'_trans _ _ _ Ky (qeqp'_sym _ _ Kz)).
    - exists z. split; [apply in_or_app; now right | exact Kz]. }
  rewrite app_length in *. cbn [length]. lia.
Qed.

(** ** the candidates that can lie inside a sub-segment of one edge *)
Definition Le (e : edge) (edges : list edge) : list qq := flat_map (fun f => ends_of f ++ cross_pt e f) edges.

Lemma Le_length e edges : (length (Le e edges) <= 3 * length edges)%nat.
Proof.
  unfold Le, qq. induction edges as [|f r IH]; [cbn; lia|].
  cbn [flat_map]. change (length (f :: r)) with (S (length r)). rewrite !app_length.
  assert (K1 : length (ends_of f) = 2%nat) by (destruct f as [[[a b] [c d]] s]; reflexivity).
  assert (K2 : (length (cross_pt e f) <= 1)%nat).
  { destruct e as [[[a b] [c d]] s], f as [[[a' b'] [c' d']] s']. unfold cross_pt. destruct (Qeq_bool _ 0); cbn; lia. }
  rewrite K1. set (n1 := length (cross_pt e f)) in *. set (n2 := length (flat_map (fun f0 : edge => ends_of f0 ++ cross_pt e f0) r)) in *. set (n3 := length r) in *. clearbody n1 n2 n3. lia.
Qed.

Lemma parallel_trans ux uy vx vy wx wy :
  ~ (ux == 0 /\ uy == 0) -> ux * vy - uy * vx == 0 -> ux * wy - uy * wx == 0 -> vx * wy - vy * wx == 0.
Proof.
  intros Hu H1 H2.
  assert (Kx : ux * (vx * wy - vy * wx) == 0).
  { assert (I1 : ux * (vx * wy - vy * wx) == vx * (ux * wy - uy * wx) - wx * (ux * vy - uy * vx)) by ring. rewrite I1, H1, H2. ring. }
  assert (Ky : uy * (vx * wy - vy * wx) == 0).
  { assert (I1 : uy * (vx * wy - vy * wx) == vy * (ux * wy - uy * wx) - wy * (ux * vy - uy * vx)) by ring. rewrite I1, H1, H2. ring. }
  destruct (Qeq_dec (vx * wy - vy * wx) 0) as [Z|Z]; [exact Z|]. exfalso. apply Hu.
  destruct (Qmult_integral _ _ Kx) as [A|A]; [|contradiction]. destruct (Qmult_integral _ _ Ky) as [B|B]; [|contradiction]. auto.
Qed.

(** the point of [cross_pt e f] is the common point of the two LINES *)
Lemma cross_pt_spec ax ay bx by_ se cx cy dx dy sf u t :
  ~ det ax ay bx by_ cx cy dx dy == 0 ->
  common ax ay bx by_ cx cy dx dy u t ->
  exists y, In y (cross_pt (ax, ay, (bx, by_), se) (cx, cy, (dx, dy), sf)) /\
            qeqp' (ax + u * (bx - ax), ay + u * (by_ - ay)) y.
Proof.
  intros Hdet C. destruct (common_params Hdet C) as [Es _].
  set (s0 := numS ax ay cx cy dx dy / det ax ay bx by_ cx cy dx dy).
  assert (Es0 : u == s0) by (rewrite Es; unfold s0; apply rs_eq).
  exists (ax + s0 * (bx - ax), ay + s0 * (by_ - ay)). split.
  - unfold cross_pt. destruct (Qeq_bool (det ax ay bx by_ cx cy dx dy) 0) eqn:Eb; [apply Qeq_bool_iff in Eb; contradiction|]. now left.
  - split; cbn [fst snd]; rewrite Es0; reflexivity.
Qed.

Theorem on_edge_candidates (edges : list edge) ax ay bx by_ se lx ly rx ry (x : qq) :
  ~ qeqp ax ay bx by_ ->
  on_seg ax ay bx by_ lx ly -> on_seg ax ay bx by_ rx ry ->
  In x (cand_of edges) -> strictly_inside lx ly rx ry (fst x) (snd x) ->
  exists y, In y (Le (ax, ay, (bx, by_), se) edges) /\ qeqp' x y.
Proof.
  intros Hd Ol Or Hx (Hon & _).
  assert (One : on_seg ax ay bx by_ (fst x) (snd x)) by (eapply on_seg_convex; [exact Ol | exact Or | exact Hon]).
  unfold cand_of in Hx. apply in_app_or in Hx. destruct Hx as [Hx|Hx].
  - apply in_flat_map in Hx. destruct Hx as (f & Hf & Hx). exists x. split; [|apply qeqp'_refl].
    unfold Le. apply in_flat_map. exists f. split; [exact Hf | apply in_or_app; now left].
  - apply in_flat_map in Hx. destruct Hx as (f & Hf & Hx). apply in_flat_map in Hx. destruct Hx as (g & Hg & Hx).
    destruct f as [[[fax fay] [fbx fby]] sf], g as [[[gax gay] [gbx gby]] sg]. unfold cross_pt in Hx.
    destruct (Qeq_bool (det fax fay fbx fby gax gay gbx gby) 0) eqn:Eb; [destruct Hx|].
    apply Qeq_bool_neq in Eb. destruct Hx as [<-|[]].
    set (s := numS fax fay gax gay gbx gby / det fax fay fbx fby gax gay gbx gby) in *. cbn [fst snd] in One.
    destruct One as (u & Hu & Ex & Ey).
    (* the point on the line of g *)
    pose proof (@cramer_common fax fay fbx fby gax gay gbx gby Eb) as [C1 C2].
    pose proof (@rs_eq fax fay fbx fby gax gay gbx gby) as Rs. fold s in Rs.
    set (t := rt fax fay fbx fby gax gay gbx gby) in *.
    destruct (Qeq_dec (det ax ay bx by_ fax fay fbx fby) 0) as [Pf|Pf].
    + (* e parallel to f: then not parallel to g *)
      assert (Pg : ~ det ax ay bx by_ gax gay gbx gby == 0).
      { intros Pg. apply Eb. unfold det in *.
        apply (parallel_trans (bx - ax) (by_ - ay) (fbx - fax) (fby - fay) (gbx - gax) (gby - gay)); [|exact Pf|exact Pg].
        intros [Z1 Z2]. apply Hd. split; lra. }
      assert (C : common ax ay bx by_ gax gay gbx gby u t).
      { split; [rewrite <- Ex, <- C1, Rs | rewrite <- Ey, <- C2, Rs]; reflexivity. }
      destruct (cross_pt_spec ax ay bx by_ se gax gay gbx gby sg u t Pg C) as (y & Hy & Ky).
      exists y. split; [unfold Le; apply in_flat_map; exists (gax, gay, (gbx, gby), sg); split; [exact Hg | apply in_or_app; now right]|].
      eapply qeqp'_trans; [|exact Ky]. split; cbn [fst snd]; [rewrite Ex | rewrite Ey]; reflexivity.
    + assert (C : common ax ay bx by_ fax fay fbx fby u s).
      { split; [rewrite <- Ex | rewrite <- Ey]; reflexivity. }
      destruct (cross_pt_spec ax ay bx by_ se fax fay fbx fby sf u s Pf C) as (y & Hy & Ky).
      exists y. split; [unfold Le; apply in_flat_map; exists (fax, fay, (fbx, fby), sf); split; [exact Hf | apply in_or_app; now right]|].
      eapply qeqp'_trans; [|exact Ky]. split; cbn [fst snd]; [rewrite Ex | rewrite Ey]; reflexivity.
Qed.

(** ** the potential with candidates up to [==] *)
Section Quad.
Variable edges : list edge.
Definition candN : list qq := dedupe (cand_of edges).

Lemma inS_candN x y : inS (cand_of edges) x y -> inS candN x y.
Proof.
  intros (c & Hc & K). destruct (dedupe_in _ c Hc) as (c' & Hc' & K'). exists c'. split; [exact Hc'|].
  destruct K as [K1 K2], K' as [K3 K4]. split; [rewrite K1 | rewrite K2]; assumption.
Qed.

Lemma candN_HV ax ay bx by_ sj : In (ax, ay, (bx, by_), sj) edges -> inS candN ax ay /\ inS candN bx by_.
Proof. intros H. destruct (cand_of_HV edges ax ay bx by_ sj H) as [A B]. split; now apply inS_candN. Qed.
Lemma candN_HX ax ay bx by_ sj cx cy dx dy sj' x y :
  In (ax, ay, (bx, by_), sj) edges -> In (cx, cy, (dx, dy), sj') edges ->
  ~ det ax ay bx by_ cx cy dx dy == 0 ->
  on_seg ax ay bx by_ x y -> on_seg cx cy dx dy x y -> inS candN x y.
Proof. intros H1 H2 Hd U1 U2. apply inS_candN. exact (cand_of_HX edges ax ay bx by_ sj cx cy dx dy sj' x y H1 H2 Hd U1 U2). Qed.

(** at most [3 n] candidates strictly inside a sub-segment of an input edge *)
Lemma cnt_on_edge ax ay bx by_ se lx ly rx ry :
  In (ax, ay, (bx, by_), se) edges -> ~ qeqp ax ay bx by_ ->
  on_seg ax ay bx by_ lx ly -> on_seg ax ay bx by_ rx ry ->
  (cnt candN lx ly rx ry <= 3 * length edges)%nat.
Proof.
  intros He Hd Ol Or. unfold cnt.
  eapply Nat.le_trans; [|apply (Le_length (ax, ay, (bx, by_), se) edges)].
  apply nodupq_incl_length; [apply nodupq_filter, dedupe_nodupq|].
  intros x Hx. apply filter_In in Hx. destruct Hx as [Hc Hi].
  destruct (inside_dec lx ly rx ry x) as [Hin|]; [|discriminate].
  exact (on_edge_candidates edges ax ay bx by_ se lx ly rx ry x Hd Ol Or (dedupe_sub _ _ Hc) Hin).
Qed.

Lemma term_on_edge (st : store NQ) i : einv2 edges st -> (term candN st i <= 3 * length edges)%nat.
Proof.
  intros E. unfold term.
  destruct (e_left (getE st i)) eqn:Li; [|lia].
  destruct (e_other (getE st i)) as [o|] eqn:Oi; [|lia].
  destruct (mapped_dec NQ st i) as [Mi|Mi]; [|rewrite (getE_unmapped_other st i Mi) in Oi; discriminate].
  destruct (E i o Mi Oi) as (px & py & qx & qy & ax & ay & bx & by_ & Pi & Po & Dq & Ie & S1 & S2 & _).
  rewrite Pi, Po, !coords_fpt.
  assert (Hd : ~ qeqp ax ay bx by_).
  { intros [K1 K2]. apply Dq. destruct S1 as (t & _ & X1 & Y1), S2 as (t' & _ & X2 & Y2).
    split; [rewrite X1, X2, K1 | rewrite Y1, Y2, K2]; ring. }
  exact (cnt_on_edge ax ay bx by_ _ px py qx qy Ie Hd S1 S2).
Qed.

Lemma Psi_quadratic (st : store NQ) : einv2 edges st -> (Psi candN st <= nids st * (1 + 6 * length edges))%nat.
Proof.
  intros E. unfold Psi, Phi.
  pose proof (sumto_le (nids st) (term candN st) (3 * length edges) (fun i => term_on_edge st i E)). nia.
Qed.

(** C03, exact instance: with the budget [n0 (1 + 6 n)] — [n0] the number of events after queue
    filling (two per non-degenerate edge, so at most [2 n]), [n] the number of input edges —
    the sweep never stops for lack of budget *)
Theorem sweep_terminates_quadratic cfg fuel (A B : list (polygon NQ)) op :
  (forall P, In P A -> poly_ok edges true P) -> (forall P, In P B -> poly_ok edges false P) ->
  (nids (f_st (fill_queue A B op)) * (1 + 6 * length edges) <= fuel)%nat ->
  subdivide cfg fuel (fill_queue A B op) op <> Panic PEventBudget.
Proof.
  intros HA HB HF. unfold subdivide. destruct (fill_queue_inv NQ A B op) as [S0 Q0].
  pose proof (fill_queue_einv2 edges A B op HA HB) as P0.
  pose proof (fill_queue_sinS edges candN (@candN_HV) A B op HA HB) as Sn0.
  set (s0 := mkSweep _ _ _ _).
  assert (I0 : swinv NQ s0).
  { unfold swinv, s0; cbn [sw_st sw_q sw_sl sw_sorted]. repeat split; try apply S0; try exact Q0; intros i []. }
  assert (KL0 : OnEdgeFull.keys_left (sw_st s0) (keys eid unit (sw_sl s0))) by (intros k []).
  assert (ND0 : ndq NQ s0).
  { unfold ndq, s0. cbn [sw_q sw_sorted]. rewrite app_nil_r. apply fill_queue_nodup. }
  pose proof (sweep_loop_within_budget edges candN (@candN_HX) cfg (Psi candN (sw_st s0)) fuel s0 (f_sbbox (fill_queue A B op)) (f_cbbox (fill_queue A B op))
                (minX NQ (bb_maxx (f_sbbox (fill_queue A B op))) (bb_maxx (f_cbbox (fill_queue A B op)))) op
                I0 P0 Sn0 KL0 ND0 (le_n _)) as NB.
  assert (HB2 : (Psi candN (sw_st s0) <= length (sw_sorted s0) + fuel)%nat).
  { assert (E0 : sw_st s0 = f_st (fill_queue A B op)) by reflexivity.
    assert (L0 : sw_sorted s0 = []) by reflexivity.
    rewrite L0, E0. cbn [length]. pose proof (Psi_quadratic (f_st (fill_queue A B op)) P0). lia. }
  specialize (NB HB2).
  destruct (sweep_loop _ _ _ _ _ _ _) as [s|site|]; cbn [obind]; try discriminate.
  intros K. apply NB. inversion K. reflexivity.
Qed.

End Quad.

(** ** the number of events after queue filling: two per non-collapsed edge — at most twice the
    number of edges *)
From GB Require Import TrivialProofs QueueCount Coverage.
Section Ids.
Notation N := NQ.
Definition nx (s : fq N) : nat := Pos.to_nat (st_next (fq_st s)).

Lemma process_edge_nx (s : fq N) subj cid ext (a b : pt N) :
  nx (process_edge s subj cid ext a b) = (nx s + (if pt_eq a b then 0 else 2))%nat.
Proof.
  unfold process_edge, nx. destruct (pt_eq a b); [lia|].
  destruct (alloc (fq_st s) _) as [st1 e1] eqn:E1. destruct (alloc st1 _) as [st2 e2] eqn:E2.
  assert (H1 : st_next st1 = Pos.succ (st_next (fq_st s))) by (unfold alloc in E1; inversion E1; reflexivity).
  assert (H2 : st_next st2 = Pos.succ (st_next st1)) by (unfold alloc in E2; inversion E2; reflexivity).
  cbn [fq_st]. destruct (ev_lt _ e1 e2); rewrite !next_upd, H2, H1; lia.
Qed.

Lemma process_ring_from_nx : forall (rest : ring N) (s : fq N) subj cid ext (prev : pt N),
  nx (process_ring_from s subj cid ext prev rest) = (nx s + 2 * length (@starts_from N prev rest))%nat.
Proof.
  induction rest as [|p rest IH]; intros s subj cid ext prev; cbn [process_ring_from starts_from]; [cbn; lia|].
  rewrite IH, process_edge_nx. destruct (pt_eq prev p); cbn [length]; lia.
Qed.
Lemma process_ring_nx (s : fq N) (r : ring N) subj cid ext :
  nx (process_ring s r subj cid ext) = (nx s + 2 * length (@starts_of_ring N r))%nat.
Proof. destruct r as [|p rest]; [cbn; lia|]. apply process_ring_from_nx. Qed.
Lemma process_interiors_nx : forall (ints : list (ring N)) (s : fq N) subj cid,
  nx (process_interiors s ints subj cid) = (nx s + 2 * length (flat_map (@starts_of_ring N) ints))%nat.
Proof.
  unfold process_interiors. induction ints as [|r ints IH]; intros s subj cid; cbn [fold_left flat_map]; [cbn; lia|].
  rewrite IH, process_ring_nx, app_length. lia.
Qed.
Lemma fill_subject_nx : forall (ps : list (polygon N)) (s : fq N) cid,
  nx (fst (fill_subject s cid ps)) = (nx s + 2 * length (@starts_of N ps))%nat.
Proof.
  induction ps as [|p ps IH]; intros s cid; cbn [fill_subject]; [cbn; lia|].
  rewrite IH, process_interiors_nx, process_ring_nx, starts_of_cons. unfold starts_of_polygon.
  rewrite !app_length. lia.
Qed.
Lemma fill_clipping_nx : forall (ps : list (polygon N)) (s : fq N) cid op,
  nx (fst (fill_clipping s cid op ps)) = (nx s + 2 * length (@starts_of N ps))%nat.
Proof.
  induction ps as [|p ps IH]; intros s cid op; cbn [fill_clipping]; [cbn; lia|].
  rewrite IH, process_interiors_nx, process_ring_nx, starts_of_cons. unfold starts_of_polygon.
  rewrite !app_length. lia.
Qed.

Theorem fill_queue_nids (A B : list (polygon N)) (op : operation) :
  nids (f_st (fill_queue A B op)) = (2 * (length (@starts_of N A) + length (@starts_of N B)))%nat.
Proof.
  unfold fill_queue, nids.
  pose proof (fill_subject_nx A (mkFQ (empty_store N) [] (empty_bb N)) 0%N) as H1.
  destruct (fill_subject (mkFQ (empty_store N) [] (empty_bb N)) 0 A) as [s1 cid]. cbn [fst] in H1.
  pose proof (fill_clipping_nx B (mkFQ (fq_st s1) (fq_q s1) (empty_bb N)) cid op) as H2.
  destruct (fill_clipping (mkFQ (fq_st s1) (fq_q s1) (empty_bb N)) cid op B) as [s2 c2]. cbn [fst] in H2.
  cbn [f_st]. unfold nx in *. cbn [fq_st] in *. rewrite H2, H1. cbn [empty_store st_next]. lia.
Qed.

(** the non-collapsed edges are among the edges *)
Lemma starts_from_le : forall (rest : ring N) (prev : pt N), (length (@starts_from N prev rest) <= length rest)%nat.
Proof.
  induction rest as [|p rest IH]; intros prev; cbn [starts_from length]; [lia|].
  specialize (IH p). destruct (pt_eq prev p); cbn [length]; lia.
Qed.
Lemma ring_edge_list_len subj : forall (rest : ring N) (prev : pt N),
  (exists x y, prev = fpt x y) -> finite_ring rest -> length (ring_edge_list subj prev rest) = length rest.
Proof.
  induction rest as [|p rest IH]; intros prev Hp Hr; cbn [ring_edge_list length]; [reflexivity|].
  destruct Hp as (x & y & ->). destruct (Hr p (or_introl eq_refl)) as (x' & y' & ->).
  rewrite !coordsq_fpt, app_length. cbn [length]. rewrite IH; [lia | eauto | intros q Hq; apply Hr; now right].
Qed.
Lemma starts_ring_le subj (r : ring N) : finite_ring r -> (length (@starts_of_ring N r) <= length (ring_edges subj r))%nat.
Proof.
  destruct r as [|p rest]; intros Hr; [cbn; lia|]. cbn [starts_of_ring ring_edges].
  rewrite ring_edge_list_len; [apply starts_from_le | apply Hr; now left | intros q Hq; apply Hr; now right].
Qed.
Lemma starts_poly_le subj (P : polygon N) : finite_poly P -> (length (@starts_of_polygon N P) <= length (poly_edges subj P))%nat.
Proof.
  intros [He Hi]. unfold starts_of_polygon, poly_edges. rewrite !app_length.
  pose proof (starts_ring_le subj (exterior P) He).
  assert (K : (length (flat_map (@starts_of_ring N) (interiors P)) <= length (flat_map (ring_edges subj) (interiors P)))%nat).
  { revert Hi. generalize (interiors P). induction l as [|r l IH]; intros Hi; [cbn; lia|]. cbn [flat_map].
    rewrite !app_length. pose proof (starts_ring_le subj r (Hi r (or_introl eq_refl))).
    specialize (IH (fun r' H' => Hi r' (or_intror H'))). lia. }
  lia.
Qed.
Lemma starts_le subj (A : list (polygon N)) : (forall P, In P A -> finite_poly P) ->
  (length (@starts_of N A) <= length (flat_map (poly_edges subj) A))%nat.
Proof.
  induction A as [|P A IH]; intros H; [cbn; lia|]. rewrite starts_of_cons. cbn [flat_map]. rewrite !app_length.
  pose proof (starts_poly_le subj P (H P (or_introl eq_refl))). specialize (IH (fun P' H' => H P' (or_intror H'))). lia.
Qed.

Theorem nids_le_edges (A B : list (polygon N)) op :
  (forall P, In P A -> finite_poly P) -> (forall P, In P B -> finite_poly P) ->
  (nids (f_st (fill_queue A B op)) <= 2 * length (ops_edges A B))%nat.
Proof.
  intros HA HB. rewrite fill_queue_nids. unfold ops_edges. rewrite app_length.
  pose proof (starts_le true A HA). pose proof (starts_le false B HB). lia.
Qed.

(** C03 in one statement: operands with finite coordinates and [n] edges in all; with a budget
    of [2 n (1 + 6 n) = 12 n^2 + 2 n] events the sweep never stops for lack of budget *)
Theorem exact_sweep_terminates_quadratic cfg fuel (A B : list (polygon N)) op :
  (forall P, In P A -> finite_poly P) -> (forall P, In P B -> finite_poly P) ->
  (2 * length (ops_edges A B) * (1 + 6 * length (ops_edges A B)) <= fuel)%nat ->
  subdivide cfg fuel (fill_queue A B op) op <> Panic PEventBudget.
Proof.
  intros HA HB HF.
  apply (sweep_terminates_quadratic (ops_edges A B) cfg fuel A B op).
  - intros P HP. apply poly_ok_of_edges; [now apply HA|]. intros e He. unfold ops_edges.
    apply in_or_app. left. apply in_flat_map. exists P. auto.
  - intros P HP. apply poly_ok_of_edges; [now apply HB|]. intros e He. unfold ops_edges.
    apply in_or_app. right. apply in_flat_map. exists P. auto.
  - pose proof (nids_le_edges A B op HA HB). nia.
Qed.
End Ids.

(** non-vacuity: the F2 witness — 9 edges... the budget is computed and the sweep returns within it *)
From GB Require Import Cert ExactSweep.
Definition quad_example_check : bool :=
  let n := length (ops_edges F2_A F2_B) in
  Nat.leb (2 * n * (1 + 6 * n)) 3000 &&
  match subdivide release (2 * n * (1 + 6 * n)) (fill_queue F2_A F2_B Union) Union with
  | Ok (_, sorted, _) => Nat.ltb 0 (length sorted)
  | _ => false
  end.
Example quad_example : quad_example_check = true.
Proof. vm_compute. reflexivity. Qed.
