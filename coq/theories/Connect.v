(** * [connect_edges.rs]: selection and ordering of result events, iteration order around
    vertices, contour walking, hole/parent determination. *)
From Coq Require Import Bool List ZArith NArith PArith Arith.
From GB Require Import Prim Num Event Cmp Heap Outcome.
Import ListNotations.
Set Implicit Arguments.

Section Connect.
Variable N : Num.
Variable cfg : config.
Notation store := (store N).
Notation pt := (pt N).

(** ** [order_events] *)
Definition in_result_filter (st : store) (i : eid) : bool :=
  let e := getE st i in
  (e_left e && is_in_result e)
  || (negb (e_left e) &&
      match e_other e with Some o => is_in_result (getE st o) | None => false end).

(** one pass of the bubble sort: [bp x rest] walks with [x] being the current [i-1] element *)
Fixpoint bubble_pass (st : store) (x : eid) (rest : list eid) : list eid * bool :=
  match rest with
  | [] => ([x], false)
  | y :: rest' =>
      if ev_lt st x y
      then let '(l, _) := bubble_pass st x rest' in (y :: l, true)
      else let '(l, sw) := bubble_pass st y rest' in (x :: l, sw)
  end.

(** (the fuel is matched first although it is consulted last: the Paramcoq translation wants
    the structural argument on top; the two orders are equivalent) *)
Fixpoint bubble_sort (fuel : nat) (st : store) (l : list eid) : outcome (list eid) :=
  match fuel with
  | O =>
      match l with
      | [] => Ok []
      | x :: rest =>
          let '(l', swapped) := bubble_pass st x rest in
          if swapped then OutOfFuel else Ok l'
      end
  | S f =>
      match l with
      | [] => Ok []
      | x :: rest =>
          let '(l', swapped) := bubble_pass st x rest in
          if swapped then bubble_sort f st l' else Ok l'
      end
  end.

Fixpoint set_positions (st : store) (l : list eid) (pos : Z) : store :=
  match l with
  | [] => st
  | i :: rest => set_positions (upd st i (fun e => set_other_pos e pos)) rest (pos + 1)%Z
  end.

Fixpoint swap_positions (st : store) (l : list eid) : store :=
  match l with
  | [] => st
  | i :: rest =>
      let e := getE st i in
      let st' :=
        if e_left e then
          match e_other e with
          | Some o =>
              let a := e_other_pos e in
              let b := e_other_pos (getE st o) in
              upd (upd st i (fun x => set_other_pos x b)) o (fun x => set_other_pos x a)
          | None => st
          end
        else st in
      swap_positions st' rest
  end.

Definition order_events (fuel : nat) (st : store) (sorted_events : list eid) : outcome (store * list eid) :=
  let result_events := filter (in_result_filter st) sorted_events in
  obind (bubble_sort fuel st result_events) (fun sorted =>
  let st1 := set_positions st sorted 0%Z in
  Ok (swap_positions st1 sorted, sorted)).

(** ** [precompute_iteration_order] on the list of (point, is_left) of the result events *)
Definition ident (st : store) (a b : eid) : bool := pt_eq (point_of st a) (point_of st b).

(** length of the longest prefix satisfying [f] *)
Fixpoint span_len (A : Type) (f : A -> bool) (l : list A) : nat :=
  match l with
  | [] => 0
  | x :: rest => if f x then S (span_len f rest) else 0
  end.

(** entries for one vertex group starting at index [i]: R events occupy [r_from, r_upto_excl),
    L events [l_from, l_upto_excl) *)
Definition group_entries (r_from nr nl : nat) : list (nat * nat) :=
  let r_upto_excl := r_from + nr in
  let l_from := r_upto_excl in
  let l_upto_excl := l_from + nl in
  let has_r := Nat.ltb 0 nr in
  let has_l := Nat.ltb 0 nl in
  (if has_r then
     let r_upto := psub r_upto_excl 1 in
     map (fun j => (j, j + 1)) (seq r_from (psub r_upto r_from))
     ++ [(r_upto, if has_l then psub l_upto_excl 1 else r_from)]
   else [])
  ++
  (if has_l then
     let l_upto := psub l_upto_excl 1 in
     map (fun j => (j, psub j 1)) (seq (l_from + 1) (psub l_upto l_from))
     ++ [(l_from, if has_r then r_from else l_upto)]
   else []).

Fixpoint iteration_groups (fuel : nat) (st : store) (data : list eid) (i : nat)
  : outcome (list (nat * nat)) :=
  match fuel with
  | O => match data with [] => Ok [] | _ :: _ => OutOfFuel end
  | S f =>
      match data with
      | [] => Ok []
      | x_ref :: data_tl =>
          let data0 := x_ref :: data_tl in
          let nr := span_len (fun e => ident st x_ref e && negb (e_left (getE st e))) data0 in
          let data1 := skipn nr data0 in
          let nl := span_len (fun e => ident st x_ref e) data1 in
          let lrun := firstn nl data1 in
          if c_debug cfg && negb (forallb (fun e => e_left (getE st e)) lrun)
          then Panic PDebugIterationOrder
          else if Nat.eqb (nr + nl) 0 then OutOfFuel (* the Rust loop would spin for ever (NaN point) *)
          else
            obind (iteration_groups f st (skipn nl data1) (i + nr + nl)) (fun rest =>
            Ok (group_entries i nr nl ++ rest))
      end
  end.

Definition precompute_iteration_order (st : store) (data : list eid) : outcome (list nat) :=
  obind (iteration_groups (S (length data)) st data 0) (fun entries =>
  Ok (fold_left (fun m e => hset m (fst e) (snd e)) entries (repeat 0 (length data)))).

(** ** contours *)
Record contour := mkContour {
  c_points : list pt;        (* in order *)
  c_hole_ids : list Z;
  c_hole_of : option Z;
  c_depth : Z
}.

Definition contour_new (hole_of : option Z) (depth : Z) : contour := mkContour [] [] hole_of depth.

Definition in_range (i : Z) (n : nat) : bool := (0 <=? i)%Z && (i <? Z.of_nat n)%Z.

Definition push_hole (cs : list contour) (parent : Z) (child : Z) : list contour :=
  let k := Z.to_nat parent in
  match nth_error cs k with
  | Some c => hset cs k (mkContour (c_points c) (c_hole_ids c ++ [child]) (c_hole_of c) (c_depth c))
  | None => cs
  end.

(** [Contour::initialize_from_context]; returns the updated contour vector and the new contour *)
Definition initialize_from_context (st : store) (ev : eid) (contours : list contour) (contour_id : Z)
  : outcome (list contour * contour) :=
  match e_prev_in_result (getE st ev) with
  | Some pir =>
      let p := getE st pir in
      let lower := e_output_contour_id p in
      if rt_eqb (e_result_transition p) OutIn then
        if negb (in_range lower (length contours)) then Panic PIndexContours
        else
          match nth_error contours (Z.to_nat lower) with
          | None => Panic PIndexContours
          | Some lc =>
              match c_hole_of lc with
              | Some parent =>
                  if negb (in_range parent (length contours)) then Panic PIndexContours
                  else Ok (push_hole contours parent contour_id, contour_new (Some parent) (c_depth lc))
              | None =>
                  Ok (push_hole contours lower contour_id, contour_new (Some lower) (c_depth lc + 1)%Z)
              end
          end
      else
        if negb (in_range lower (length contours)) then
          if c_debug cfg then Panic PDebugLowerContour
          else Ok (contours, contour_new None 0%Z)
        else
          match nth_error contours (Z.to_nat lower) with
          | None => Panic PIndexContours
          | Some lc => Ok (contours, contour_new None (c_depth lc))
          end
  | None => Ok (contours, contour_new None 0%Z)
  end.

(** [processed]: membership only *)
Definition processed := list Z.
Definition is_processed (p : processed) (i : Z) : bool := existsb (Z.eqb i) p.

Fixpoint get_next_pos_loop (fuel : nat) (pos start : Z) (p : processed) (map : list nat)
  : outcome (option Z) :=
  match fuel with
  | O => OutOfFuel
  | S f =>
      if negb (in_range pos (length map)) then Panic PIndexResultEvents
      else
        let pos' := Z.of_nat (nth (Z.to_nat pos) map 0) in
        if Z.eqb pos' start then Ok None
        else if negb (is_processed p pos') then Ok (Some pos')
        else get_next_pos_loop f pos' start p map
  end.
Definition get_next_pos (pos : Z) (p : processed) (map : list nat) : outcome (option Z) :=
  get_next_pos_loop (S (length map)) pos pos p map.

Record walk := mkWalk { w_st : store; w_processed : processed; w_points : list pt (* reversed *) }.

Definition nth_ev (l : list eid) (i : Z) : eid := nth (Z.to_nat i) l xH.

Definition mark (w : walk) (res : list eid) (pos : Z) (contour_id : Z) : walk :=
  mkWalk (upd (w_st w) (nth_ev res pos) (fun e => set_output_contour_id e contour_id))
         (pos :: w_processed w) (w_points w).

Fixpoint walk_loop (fuel : nat) (w : walk) (res : list eid) (map : list nat) (pos : Z)
         (contour_id : Z) (initial : pt) : outcome walk :=
  match fuel with
  | O => OutOfFuel
  | S f =>
      let w1 := mark w res pos contour_id in
      let pos1 := e_other_pos (getE (w_st w1) (nth_ev res pos)) in
      if negb (in_range pos1 (length res)) then Panic PIndexResultEvents
      else
        let w2 := mark w1 res pos1 contour_id in
        let w3 := mkWalk (w_st w2) (w_processed w2) (point_of (w_st w2) (nth_ev res pos1) :: w_points w2) in
        obind (get_next_pos pos1 (w_processed w3) map) (fun nx =>
        match nx with
        | None => Ok w3
        | Some npos =>
            if pt_eq (point_of (w_st w3) (nth_ev res npos)) initial then Ok w3
            else walk_loop f w3 res map npos contour_id initial
        end)
  end.

Fixpoint contours_loop (idxs : list nat) (st : store) (p : processed) (res : list eid) (map : list nat)
         (contours : list contour) : outcome (store * list contour) :=
  match idxs with
  | [] => Ok (st, contours)
  | i :: rest =>
      let zi := Z.of_nat i in
      if is_processed p zi then contours_loop rest st p res map contours
      else
        let contour_id := Z.of_nat (length contours) in
        obind (initialize_from_context st (nth_ev res zi) contours contour_id) (fun r =>
        let '(contours1, c) := r in
        let initial := point_of st (nth_ev res zi) in
        obind (walk_loop (S (length res)) (mkWalk st p [initial]) res map zi contour_id initial) (fun w =>
        let c' := mkContour (rev (w_points w)) (c_hole_ids c) (c_hole_of c) (c_depth c) in
        contours_loop rest (w_st w) (w_processed w) res map (contours1 ++ [c'])))
  end.

Definition connect_edges (fuel : nat) (st : store) (sorted_events : list eid)
  : outcome (store * list eid * list contour) :=
  obind (order_events fuel st sorted_events) (fun r =>
  let '(st1, res) := r in
  obind (precompute_iteration_order st1 res) (fun map =>
  obind (contours_loop (seq 0 (length res)) st1 [] res map []) (fun r2 =>
  Ok (fst r2, res, snd r2)))).

End Connect.
