(** * A verified per-run certificate for the coverage clause of C13: the sub-segments of each
    input edge chain together and cover exactly that edge.

    [cover_check E S] decides, for every non-degenerate input edge [e] of [E], that those
    segments of [S] that carry [e]'s operand flag and have both end points on [e] can be walked
    end to end from [e]'s start to its end, using every one of them.  [cover_check_sound]:
    then every point of [e] lies on such a sub-segment.  (Exact instance: [Coverage.v] proves
    the clause for every input; the certificate is for the runs of the floating-point
    instances, evaluated on the exactly converted coordinates.) *)
From Coq Require Import Bool List PArith NArith QArith Lqa Lia.
From GB Require Import Prim Num NumQ IntersectProofs SplitCover OnEdge Cert13.
Import ListNotations.
Local Open Scope Q_scope.

Definition par (ax ay bx by_ px py : Q) : Q :=
  ((bx - ax) * (px - ax) + (by_ - ay) * (py - ay)) / ((bx - ax) * (bx - ax) + (by_ - ay) * (by_ - ay)).
Definition on_lineb (ax ay bx by_ px py : Q) : bool :=
  Qeq_bool ((px - ax) * (by_ - ay) - (py - ay) * (bx - ax)) 0.
Definition degenerate (e : edge) : bool := let '(ax, ay, (bx, by_), _) := e in qeqpb ax ay bx by_.

(** the parameter interval of [s] on [e], if [s] is a piece of [e] *)
Definition piece_of (e s : edge) : option (Q * Q) :=
  let '(ax, ay, (bx, by_), se) := e in
  let '(px, py, (qx, qy), ss) := s in
  if eqb se ss && on_lineb ax ay bx by_ px py && on_lineb ax ay bx by_ qx qy then
    let tp := par ax ay bx by_ px py in
    let tq := par ax ay bx by_ qx qy in
    let lo := if Qle_bool tp tq then tp else tq in
    let hi := if Qle_bool tp tq then tq else tp in
    if Qle_bool 0 lo && Qle_bool hi 1 && negb (Qeq_bool lo hi) then Some (lo, hi) else None
  else None.

Definition pieces (e : edge) (S : list edge) : list (Q * Q * edge) :=
  flat_map (fun s => match piece_of e s with Some (lo, hi) => [(lo, hi, s)] | None => [] end) S.

Fixpoint take_at (cur : Q) (l : list (Q * Q * edge)) : option (Q * edge * list (Q * Q * edge)) :=
  match l with
  | [] => None
  | (lo, hi, s) :: r =>
      if Qeq_bool lo cur then Some (hi, s, r)
      else match take_at cur r with
           | Some (h, s', r') => Some (h, s', (lo, hi, s) :: r')
           | None => None
           end
  end.

Fixpoint walk (fuel : nat) (cur : Q) (l : list (Q * Q * edge)) : bool :=
  match fuel with
  | O => false
  | S f =>
      if Qeq_bool cur 1 then (match l with [] => true | _ => false end)
      else match take_at cur l with
           | Some (h, _, r) => walk f h r
           | None => false
           end
  end.

Definition cover_edge (e : edge) (S : list edge) : bool :=
  let ps := pieces e S in walk (Datatypes.S (length ps)) 0 ps.
Definition cover_check (E S : list edge) : bool :=
  forallb (fun e => degenerate e || cover_edge e S) E.

(** ** soundness *)
Definition at_par (ax ay bx by_ t : Q) : Q * Q := (ax + t * (bx - ax), ay + t * (by_ - ay)).

Lemma on_line_par ax ay bx by_ px py :
  ~ qeqp ax ay bx by_ -> on_lineb ax ay bx by_ px py = true ->
  px == fst (at_par ax ay bx by_ (par ax ay bx by_ px py)) /\ py == snd (at_par ax ay bx by_ (par ax ay bx by_ px py)).
Proof.
  intros Hd H. unfold on_lineb in H. apply Qeq_bool_iff in H. unfold at_par, par. cbn [fst snd].
  assert (Hl : ~ (bx - ax) * (bx - ax) + (by_ - ay) * (by_ - ay) == 0).
  { intros K. destruct (sum_sq_zero K) as [K1 K2]. apply Hd. split; lra. }
  destruct (proj_collinear Hl H) as [E1 E2]. split; lra.
Qed.

Lemma piece_sound e s lo hi :
  degenerate e = false -> piece_of e s = Some (lo, hi) ->
  let '(ax, ay, (bx, by_), se) := e in
  let '(px, py, (qx, qy), ss) := s in
  0 <= lo /\ lo < hi /\ hi <= 1 /\ ss = se /\
  ((qeqp px py (fst (at_par ax ay bx by_ lo)) (snd (at_par ax ay bx by_ lo)) /\ qeqp qx qy (fst (at_par ax ay bx by_ hi)) (snd (at_par ax ay bx by_ hi))) \/
   (qeqp px py (fst (at_par ax ay bx by_ hi)) (snd (at_par ax ay bx by_ hi)) /\ qeqp qx qy (fst (at_par ax ay bx by_ lo)) (snd (at_par ax ay bx by_ lo)))).
Proof.
  destruct e as [[[ax ay] [bx by_]] se], s as [[[px py] [qx qy]] ss]. unfold degenerate, piece_of. intros Hd.
  assert (Hd' : ~ qeqp ax ay bx by_) by (intros K; apply qeqpb_spec in K; congruence).
  destruct (eqb se ss && on_lineb ax ay bx by_ px py && on_lineb ax ay bx by_ qx qy) eqn:C; [|discriminate].
  apply andb_prop in C. destruct C as [C C3]. apply andb_prop in C. destruct C as [C1 C2]. apply eqb_prop in C1.
  set (tp := par ax ay bx by_ px py). set (tq := par ax ay bx by_ qx qy).
  destruct (on_line_par ax ay bx by_ px py Hd' C2) as [P1 P2]. destruct (on_line_par ax ay bx by_ qx qy Hd' C3) as [Q1 Q2].
  fold tp in P1, P2. fold tq in Q1, Q2.
  destruct (Qle_bool tp tq) eqn:Le.
  - destruct (Qle_bool 0 tp && Qle_bool tq 1 && negb (Qeq_bool tp tq)) eqn:G; [|discriminate].
    intros K; inversion K; subst lo hi. apply andb_prop in G. destruct G as [G G3]. apply andb_prop in G. destruct G as [G1 G2].
    apply Qle_bool_iff in G1, G2, Le. apply negb_true_iff in G3. apply Qeq_bool_neq in G3.
    split; [exact G1|]. split; [lra|]. split; [exact G2|]. split; [now symmetry|]. left. split; split; assumption.
  - destruct (Qle_bool 0 tq && Qle_bool tp 1 && negb (Qeq_bool tq tp)) eqn:G; [|discriminate].
    intros K; inversion K; subst lo hi. apply andb_prop in G. destruct G as [G G3]. apply andb_prop in G. destruct G as [G1 G2].
    apply Qle_bool_iff in G1, G2. apply negb_true_iff in G3. apply Qeq_bool_neq in G3.
    assert (Lt : tq < tp).
    { destruct (Qlt_le_dec tq tp) as [K'|K']; [exact K'|]. apply Qle_bool_iff in K'. congruence. }
    split; [exact G1|]. split; [exact Lt|]. split; [exact G2|]. split; [now symmetry|]. right. split; split; assumption.
Qed.

Lemma pieces_in e S lo hi s : In (lo, hi, s) (pieces e S) -> In s S /\ piece_of e s = Some (lo, hi).
Proof.
  unfold pieces. intros H. apply in_flat_map in H. destruct H as (s' & Hs & H).
  destruct (piece_of e s') as [[lo' hi']|] eqn:E; [|destruct H]. destruct H as [H|[]]. inversion H; subst. auto.
Qed.

Lemma take_at_spec cur : forall l h s r, take_at cur l = Some (h, s, r) ->
  (exists lo, lo == cur /\ In (lo, h, s) l) /\ (forall x, In x r -> In x l) /\ (length r < length l)%nat.
Proof.
  induction l as [|[[lo hi] s0] l IH]; intros h s r H; cbn [take_at] in H; [discriminate|].
  destruct (Qeq_bool lo cur) eqn:E.
  - inversion H; subst. apply Qeq_bool_iff in E. split; [exists lo; split; [exact E | now left]|]. split; [intros x Hx; now right | cbn; lia].
  - destruct (take_at cur l) as [[[h' s'] r']|] eqn:T; [|discriminate]. inversion H; subst.
    destruct (IH _ _ _ eq_refl) as ((lo' & E' & I') & Sub & Len).
    split; [exists lo'; split; [exact E' | now right]|]. split.
    + intros x [<-|Hx]; [now left | right; now apply Sub].
    + cbn. lia.
Qed.

Lemma walk_sound : forall fuel cur l,
  walk fuel cur l = true -> cur <= 1 ->
  forall t, cur <= t <= 1 -> t == 1 \/ exists lo hi s, In (lo, hi, s) l /\ lo <= t /\ t <= hi.
Proof.
  induction fuel as [|f IH]; intros cur l H Hc t Ht; cbn [walk] in H; [discriminate|].
  destruct (Qeq_bool cur 1) eqn:E.
  - apply Qeq_bool_iff in E. left. lra.
  - destruct (take_at cur l) as [[[h s] r]|] eqn:T; [|discriminate].
    destruct (take_at_spec cur l h s r T) as ((lo & El & Il) & Sub & _).
    destruct (Qlt_le_dec h t) as [K|K].
    + (* beyond this piece: the rest covers it, provided h <= 1 *)
      destruct (Qlt_le_dec 1 h) as [K1|K1]; [lra|].
      destruct (IH h r H K1 t ltac:(lra)) as [E1|(lo' & hi' & s' & I' & A & B)]; [now left|].
      right. exists lo', hi', s'. split; [now apply Sub | split; assumption].
    + right. exists lo, h, s. split; [exact Il | split; lra].
Qed.

Theorem cover_edge_sound (e : edge) (S : list edge) :
  degenerate e = false -> cover_edge e S = true ->
  let '(ax, ay, (bx, by_), se) := e in
  forall x y, on_seg ax ay bx by_ x y ->
  exists px py qx qy, In (px, py, (qx, qy), se) S /\
    on_seg ax ay bx by_ px py /\ on_seg ax ay bx by_ qx qy /\ on_seg px py qx qy x y.
Proof.
  intros Hd H. destruct e as [[[ax ay] [bx by_]] se]. intros x y (t & Ht & Hx & Hy).
  unfold cover_edge in H.
  (* every piece has hi <= 1, so the walk covers [0,1] including its right end *)
  assert (Cov : exists lo hi s, In (lo, hi, s) (pieces (ax, ay, (bx, by_), se) S) /\ lo <= t /\ t <= hi).
  { destruct (walk_sound _ 0 _ H ltac:(lra) t Ht) as [E1|K]; [|exact K].
    (* t == 1: use the cover of a point just below, i.e. of t itself through the last piece: walk again from 0 with t' = 1 *)
    (* the piece reaching 1: walk ends with cur == 1 only after taking a piece with hi == 1, unless the list is empty and cur = 0 = 1 *)
    clear Hx Hy.
    assert (G : forall fuel cur l, (forall lo hi s, In (lo, hi, s) l -> hi <= 1) ->
              walk fuel cur l = true -> cur < 1 -> exists lo hi s, In (lo, hi, s) l /\ hi == 1).
    { induction fuel as [|f IH]; intros cur l Hall W Hc; cbn [walk] in W; [discriminate|].
      destruct (Qeq_bool cur 1) eqn:E; [apply Qeq_bool_iff in E; lra|].
      destruct (take_at cur l) as [[[h s] r]|] eqn:T; [|discriminate].
      destruct (take_at_spec cur l h s r T) as ((lo & El & Il) & Sub & _).
      destruct (Qeq_dec h 1) as [K|K]; [exists lo, h, s; auto|].
      pose proof (Hall _ _ _ Il) as Hh.
      assert (K1 : h < 1) by (destruct (Qlt_le_dec h 1) as [K1|K1]; [exact K1 | exfalso; apply K; lra]).
      destruct (IH h r (fun lo' hi' s' I' => Hall lo' hi' s' (Sub _ I')) W K1) as (lo' & hi' & s' & I' & E').
      exists lo', hi', s'. split; [now apply Sub | exact E']. }
    assert (Hall : forall lo hi s, In (lo, hi, s) (pieces (ax, ay, (bx, by_), se) S) -> hi <= 1).
    { intros lo hi s I0. destruct (pieces_in _ _ _ _ _ I0) as [_ P]. pose proof (piece_sound _ _ _ _ Hd P) as Q. cbn in Q.
      destruct s as [[[a1 a2] [a3 a4]] a5]. lra. }
    destruct (G _ 0 _ Hall H ltac:(lra)) as (lo & hi & s & I1 & E2).
    destruct (pieces_in _ _ _ _ _ I1) as [_ P]. pose proof (piece_sound _ _ _ _ Hd P) as Q. cbn in Q.
    destruct s as [[[a1 a2] [a3 a4]] a5]. exists lo, hi, (a1, a2, (a3, a4), a5). split; [exact I1|]. lra. }
  destruct Cov as (lo & hi & s & I1 & A & B).
  destruct (pieces_in _ _ _ _ _ I1) as [Is P]. pose proof (piece_sound _ _ _ _ Hd P) as Q. cbn in Q.
  destruct s as [[[px py] [qx qy]] ss]. destruct Q as (Q0 & Q1 & Q2 & -> & Q3).
  exists px, py, qx, qy. split; [exact Is|].
  unfold at_par in Q3. cbn [fst snd] in Q3. unfold qeqp in Q3.
  assert (OnLo : on_seg ax ay bx by_ (ax + lo * (bx - ax)) (ay + lo * (by_ - ay))) by (exists lo; split; [lra | split; reflexivity]).
  assert (OnHi : on_seg ax ay bx by_ (ax + hi * (bx - ax)) (ay + hi * (by_ - ay))) by (exists hi; split; [lra | split; reflexivity]).
  set (u := (t - lo) / (hi - lo)).
  assert (Hu : 0 <= u <= 1) by (unfold u; split; [apply Qle_shift_div_l | apply Qle_shift_div_r]; lra).
  assert (Eu : u * (hi - lo) == t - lo) by (unfold u; field; lra).
  destruct Q3 as [[[P1 P2] [R1 R2]]|[[P1 P2] [R1 R2]]].
  - split; [eapply on_seg_eqv; [| | | | | | exact OnLo]; try reflexivity; symmetry; assumption|].
    split; [eapply on_seg_eqv; [| | | | | | exact OnHi]; try reflexivity; symmetry; assumption|].
    exists u. split; [exact Hu|]. rewrite Hx, Hy, P1, P2, R1, R2. split; nra.
  - split; [eapply on_seg_eqv; [| | | | | | exact OnHi]; try reflexivity; symmetry; assumption|].
    split; [eapply on_seg_eqv; [| | | | | | exact OnLo]; try reflexivity; symmetry; assumption|].
    exists (1 - u). split; [lra|]. rewrite Hx, Hy, P1, P2, R1, R2. split; nra.
Qed.

Theorem cover_check_sound (E S : list edge) :
  cover_check E S = true ->
  forall ax ay bx by_ se, In (ax, ay, (bx, by_), se) E -> ~ qeqp ax ay bx by_ ->
  forall x y, on_seg ax ay bx by_ x y ->
  exists px py qx qy, In (px, py, (qx, qy), se) S /\
    on_seg ax ay bx by_ px py /\ on_seg ax ay bx by_ qx qy /\ on_seg px py qx qy x y.
Proof.
  intros H ax ay bx by_ se He Hd. unfold cover_check in H. rewrite forallb_forall in H. specialize (H _ He).
  assert (Dg : degenerate (ax, ay, (bx, by_), se) = false).
  { unfold degenerate. destruct (qeqpb ax ay bx by_) eqn:K; [apply qeqpb_spec in K; contradiction | reflexivity]. }
  rewrite Dg in H. cbn [orb] in H.
  exact (cover_edge_sound (ax, ay, (bx, by_), se) S Dg H).
Qed.

Example cover_example :
  cover_check [(0, 0, (4, 4), true)] [(2, 2, (4, 4), true); (0, 0, (2, 2), true); (0, 0, (4, 4), false)] = true /\
  cover_check [(0, 0, (4, 4), true)] [(0, 0, (2, 2), true); (3, 3, (4, 4), true)] = false /\
  cover_check [(0, 0, (4, 4), true)] [(0, 0, (3, 3), true); (2, 2, (4, 4), true)] = false.
Proof. vm_compute. repeat split. Qed.

(** ** reading the input edges off the operands, every instance (as [Coverage.ops_edges] does
    at the exact instance) *)
From GB Require Import Event FillQueue.
Section Run.
Variable N : Num.
Variable cv : pt N -> option (Q * Q).

Fixpoint ring_edge_list_cv (subj : bool) (prev : pt N) (rest : list (pt N)) : option (list edge) :=
  match rest with
  | [] => Some []
  | p :: rest' =>
      match cv prev, cv p, ring_edge_list_cv subj p rest' with
      | Some (ax, ay), Some (bx, by_), Some l => Some ((ax, ay, (bx, by_), subj) :: l)
      | _, _, _ => None
      end
  end.
Definition ring_edges_cv (subj : bool) (r : ring N) : option (list edge) :=
  match r with [] => Some [] | p :: rest => ring_edge_list_cv subj p rest end.
Fixpoint concat_opt (l : list (option (list edge))) : option (list edge) :=
  match l with
  | [] => Some []
  | Some a :: r => match concat_opt r with Some b => Some (a ++ b) | None => None end
  | None :: _ => None
  end.
Definition poly_edges_cv (subj : bool) (P : polygon N) : option (list edge) :=
  concat_opt (ring_edges_cv subj (exterior P) :: List.map (ring_edges_cv subj) (interiors P)).
Definition input_edges_cv (A B : list (polygon N)) : option (list edge) :=
  concat_opt (List.map (poly_edges_cv true) A ++ List.map (poly_edges_cv false) B).

(** [None] never accepted *)
Definition cover_run (A B : list (polygon N)) (st : store N) (evs : list eid) : bool :=
  match input_edges_cv A B, segments_of N cv st evs with
  | Some E, Some Sg => cover_check E Sg
  | _, _ => false
  end.

Theorem cover_run_sound (A B : list (polygon N)) (st : store N) (evs : list eid) :
  cover_run A B st evs = true ->
  exists E Sg, input_edges_cv A B = Some E /\ segments_of N cv st evs = Some Sg /\
    forall ax ay bx by_ se, In (ax, ay, (bx, by_), se) E -> ~ qeqp ax ay bx by_ ->
    forall x y, on_seg ax ay bx by_ x y ->
    exists px py qx qy, In (px, py, (qx, qy), se) Sg /\
      on_seg ax ay bx by_ px py /\ on_seg ax ay bx by_ qx qy /\ on_seg px py qx qy x y.
Proof.
  unfold cover_run. destruct (input_edges_cv A B) as [E|]; [|discriminate].
  destruct (segments_of N cv st evs) as [Sg|]; [|discriminate].
  intros H. exists E, Sg. split; [reflexivity|]. split; [reflexivity|]. exact (cover_check_sound E Sg H).
Qed.
End Run.

Definition cover_q := cover_run NQ cvQ.
Definition cover_64 := cover_run NumB.NB64 (cvB 53 1024).
Definition cover_32 := cover_run NumB.NB32 (cvB 24 128).
