(** * Exact region checker over [Q] by slab decomposition (definitions only; the soundness
    proof is in [SlabProofs.v]).

    Membership is the crossing number with a downward vertical ray and the half-open rule:
    an edge with abscissa range [xl, xr] is counted at [p] iff [xl <= p.x < xr] and its
    ordinate at [p.x] is below [p.y].  Vertical edges are never counted.

    The checker is certifying: the list of abscissae it is given is an untrusted hint; in
    every slab between consecutive abscissae it checks that no edge has an endpoint
    strictly inside, sorts the spanning edges, re-checks the order at both ends, and
    evaluates the predicate on the tag parities of every prefix whose gap to the next edge
    is not identically empty. *)
From Coq Require Import QArith Bool List Arith.
Import ListNotations.
Set Implicit Arguments.
Local Open Scope Q_scope.

Record qpt := mkQpt { qx : Q; qy : Q }.
(** [el]/[er]: left / right endpoint ([qx el <= qx er], established by [mk_edge]) *)
Record edge := mkEdge { el : qpt; er : qpt }.

Definition Qltb (a b : Q) : bool := negb (Qle_bool b a).

Definition mk_edge (a b : qpt) : edge :=
  if Qle_bool (qx a) (qx b) then mkEdge a b else mkEdge b a.

Definition lx (e : edge) : Q := qx (el e).
Definition rx (e : edge) : Q := qx (er e).
Definition vertical (e : edge) : bool := Qeq_bool (lx e) (rx e).
Definition slope (e : edge) : Q := (qy (er e) - qy (el e)) / (rx e - lx e).
Definition y_at (e : edge) (x : Q) : Q := qy (el e) + (x - lx e) * slope e.

Definition spans (e : edge) (x : Q) : bool := Qle_bool (lx e) x && Qltb x (rx e).
Definition below (e : edge) (p : qpt) : bool := spans e (qx p) && Qltb (y_at e (qx p)) (qy p).
Definition on_edge (e : edge) (p : qpt) : bool := spans e (qx p) && Qeq_bool (y_at e (qx p)) (qy p).

(** tagged edges *)
Definition tedge := (nat * edge)%type.

Definition count_below (es : list tedge) (p : qpt) (t : nat) : nat :=
  length (filter (fun te => Nat.eqb (fst te) t && below (snd te) p) es).
(** parity of the number of edges with tag [t] strictly below [p] *)
Definition par (es : list tedge) (p : qpt) (t : nat) : bool := Nat.odd (count_below es p t).
(** [p] lies on no edge (in the half-open sense) *)
Definition clear (es : list tedge) (p : qpt) : Prop :=
  forall te, In te es -> on_edge (snd te) p = false.

(** ** the checker *)
Fixpoint insert_at (x : Q) (a : tedge) (l : list tedge) : list tedge :=
  match l with
  | [] => [a]
  | b :: tl => if Qle_bool (y_at (snd a) x) (y_at (snd b) x) then a :: b :: tl else b :: insert_at x a tl
  end.
Definition sort_at (x : Q) (l : list tedge) : list tedge := fold_right (insert_at x) [] l.

Fixpoint sorted_at (x : Q) (l : list tedge) : bool :=
  match l with
  | a :: tl =>
      match tl with
      | b :: _ => Qle_bool (y_at (snd a) x) (y_at (snd b) x) && sorted_at x tl
      | [] => true
      end
  | [] => true
  end.

Definition parity_of (pre : list nat) (t : nat) : bool := Nat.odd (count_occ Nat.eq_dec pre t).

(** [pre]: tags of the edges below the gap under inspection; [prev]: the last of them *)
Fixpoint check_gaps (u v : Q) (pred : (nat -> bool) -> bool) (pre : list nat) (prev : option edge)
         (l : list tedge) : bool :=
  match l with
  | [] => pred (parity_of pre)
  | a :: tl =>
      (match prev with
       | None => pred (parity_of pre)
       | Some b =>
           if Qltb (y_at b u) (y_at (snd a) u) || Qltb (y_at b v) (y_at (snd a) v)
           then pred (parity_of pre) else true
       end)
      && check_gaps u v pred (fst a :: pre) (Some (snd a)) tl
  end.

Definition no_endpoint_inside (es : list tedge) (u v : Q) : bool :=
  forallb (fun te => (Qle_bool (lx (snd te)) u || Qle_bool v (lx (snd te)))
                     && (Qle_bool (rx (snd te)) u || Qle_bool v (rx (snd te)))) es.

Definition spanning (es : list tedge) (u v : Q) : list tedge :=
  filter (fun te => Qle_bool (lx (snd te)) u && Qle_bool v (rx (snd te))) es.

Definition slab_ok (es : list tedge) (pred : (nat -> bool) -> bool) (u v : Q) : bool :=
  no_endpoint_inside es u v &&
  let srt := sort_at ((u + v) / 2) (spanning es u v) in
  sorted_at u srt && sorted_at v srt && check_gaps u v pred [] None srt.

Fixpoint slabs_ok (es : list tedge) (pred : (nat -> bool) -> bool) (xs : list Q) : bool :=
  match xs with
  | u :: tl =>
      match tl with
      | v :: _ => Qltb u v && slab_ok es pred u v && slabs_ok es pred tl
      | [] => true
      end
  | [] => true
  end.

Definition within (es : list tedge) (xs : list Q) : bool :=
  match xs with
  | [] => forallb (fun te => vertical (snd te)) es
  | x0 :: _ =>
      forallb (fun te => vertical (snd te)
                         || (Qle_bool x0 (lx (snd te)) && Qle_bool (rx (snd te)) (last xs x0))) es
  end.

Definition normalized (es : list tedge) : bool := forallb (fun te => Qle_bool (lx (snd te)) (rx (snd te))) es.

Definition slab_check (es : list tedge) (xs : list Q) (pred : (nat -> bool) -> bool) : bool :=
  normalized es && pred (fun _ => false) && within es xs && slabs_ok es pred xs.

(** ** abscissae: endpoints and pairwise crossings (an untrusted hint for [slab_check]) *)
Definition crossing_x (e f : edge) : option Q :=
  if vertical e || vertical f then None
  else
    let me := slope e in
    let mf := slope f in
    if Qeq_bool me mf then None
    else
      let x := Qred ((qy (el f) - qy (el e) + lx e * me - lx f * mf) / (me - mf)) in
      if Qle_bool (lx e) x && Qle_bool x (rx e) && Qle_bool (lx f) x && Qle_bool x (rx f)
      then Some x else None.

Fixpoint insert_q (x : Q) (l : list Q) : list Q :=
  match l with
  | [] => [x]
  | y :: tl =>
      match Qcompare x y with
      | Lt => x :: y :: tl
      | Eq => y :: tl
      | Gt => y :: insert_q x tl
      end
  end.

Fixpoint crossings_with (e : edge) (l : list tedge) (acc : list Q) : list Q :=
  match l with
  | [] => acc
  | f :: tl =>
      crossings_with e tl (match crossing_x e (snd f) with Some x => insert_q x acc | None => acc end)
  end.

Fixpoint all_crossings (l : list tedge) (acc : list Q) : list Q :=
  match l with
  | [] => acc
  | e :: tl => all_crossings tl (crossings_with (snd e) tl acc)
  end.

Definition abscissae (es : list tedge) : list Q :=
  let ends := fold_right (fun te acc => insert_q (Qred (lx (snd te))) (insert_q (Qred (rx (snd te))) acc)) [] es in
  all_crossings es ends.

(** ** regions *)
Definition ring := list qpt.

Fixpoint ring_edges_from (first prev : qpt) (rest : list qpt) : list edge :=
  match rest with
  | [] => [mk_edge prev first]
  | p :: tl => mk_edge prev p :: ring_edges_from first p tl
  end.
(** all edges of a ring including the closing one (degenerate if the ring is given closed) *)
Definition ring_edges (r : ring) : list edge :=
  match r with
  | [] => []
  | p :: tl => ring_edges_from p p tl
  end.

Definition crossings (es : list edge) (p : qpt) : nat := length (filter (fun e => below e p) es).
Definition inside_ring (r : ring) (p : qpt) : bool := Nat.odd (crossings (ring_edges r) p).
(** even-odd reading of a set of rings *)
Definition inside_eo (rs : list ring) (p : qpt) : bool :=
  Nat.odd (crossings (flat_map ring_edges rs) p).

Record qpolygon := mkQPoly { q_ext : ring; q_holes : list ring }.
Definition inside_polygon (P : qpolygon) (p : qpt) : bool :=
  inside_ring (q_ext P) p && forallb (fun h => negb (inside_ring h p)) (q_holes P).
(** polygon reading of a multipolygon *)
Definition inside_mpoly (R : list qpolygon) (p : qpt) : bool := existsb (fun P => inside_polygon P p) R.
Definition rings_of (R : list qpolygon) : list ring := flat_map (fun P => q_ext P :: q_holes P) R.

Definition tag_edges (t : nat) (es : list edge) : list tedge := map (fun e => (t, e)) es.
