(** * The algorithms of [std::collections::BinaryHeap] ([push], [pop], [sift_up],
    [sift_down_to_bottom]) on a list used as an array.  [le] is [PartialOrd::le].
    The actual algorithms are modelled (rather than an abstract priority queue) because
    events are mutated while they sit in the heap and because rounded runs may present an
    inconsistent order. *)
From Coq Require Import List Arith.
From GB Require Import Prim.
Import ListNotations.
Set Implicit Arguments.

Section Heap.
Variable T : Type.
Variable le : T -> T -> bool.
Variable dflt : T.

Definition hget (l : list T) (i : nat) : T := nth i l dflt.
Fixpoint hset (l : list T) (i : nat) (v : T) : list T :=
  match l, i with
  | [], _ => []
  | _ :: t, O => v :: t
  | h :: t, S j => h :: hset t j v
  end.

(** [sift_up start pos] with the element [x] taken out of the hole *)
Fixpoint sift_up_loop (fuel : nat) (data : list T) (start hole : nat) (x : T) : list T :=
  match fuel with
  | O => hset data hole x
  | S f =>
      if Nat.ltb start hole then
        let parent := Nat.div (psub hole 1) 2 in
        if le x (hget data parent) then hset data hole x
        else sift_up_loop f (hset data hole (hget data parent)) start parent x
      else hset data hole x
  end.

Definition sift_up (data : list T) (start pos : nat) : list T :=
  sift_up_loop (S (length data)) data start pos (hget data pos).

Fixpoint sift_down_loop (fuel : nat) (data : list T) (end_ hole : nat) : list T * nat :=
  match fuel with
  | O => (data, hole)
  | S f =>
      let child := 2 * hole + 1 in
      if Nat.leb child (psub end_ 2) then
        let child' := if le (hget data child) (hget data (child + 1)) then child + 1 else child in
        sift_down_loop f (hset data hole (hget data child')) end_ child'
      else if Nat.eqb child (psub end_ 1) then (hset data hole (hget data child), child)
      else (data, hole)
  end.

(** [sift_down_to_bottom 0]; requires a non-empty [data].  Note [end.saturating_sub(2)]:
    for [end_ = 1] the loop condition [1 <= 0] fails and [child = 1 <> end_ - 1 = 0]. *)
Definition sift_down_to_bottom (data : list T) : list T :=
  let end_ := length data in
  let x := hget data 0 in
  let '(data', hole) := sift_down_loop (S end_) data end_ 0 in
  sift_up_loop (S end_) data' 0 hole x.

Definition push (data : list T) (x : T) : list T :=
  sift_up (data ++ [x]) 0 (length data).

Definition pop (data : list T) : option (T * list T) :=
  match rev data with
  | [] => None
  | last :: rinit =>
      let init := rev rinit in
      match init with
      | [] => Some (last, [])
      | top :: rest => Some (top, sift_down_to_bottom (last :: rest))
      end
  end.

End Heap.
