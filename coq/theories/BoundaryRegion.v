(** The region denoted by a set of rings (even-odd reading, [Slab.inside_eo]) depends only on
    the MULTISET OF EDGES of the rings — not on how that boundary is cut into rings.  In
    particular a hole that touches its exterior ring in a vertex [v] may be handed back as a ring
    of its own (the bounding-box shortcut returns the operand as given) or threaded into the
    exterior ring through [v] (what the sweep's contour stage does): same edges, same region.
    This is what the boundary-level comparison of the relational checks C05 / C07 / C09 relies on
    ([tools/gb/relprops.py], [boundary_canon]). *)
From Coq Require Import QArith List Bool Arith Permutation.
From GB Require Import Slab.
Import ListNotations.

Lemma crossings_perm (es1 es2 : list edge) (p : qpt) :
  Permutation es1 es2 -> crossings es1 p = crossings es2 p.
Proof.
  unfold crossings. intros H. induction H as [|x l l' H IH|x y l|l l' l'' H1 IH1 H2 IH2]; cbn [filter].
  - reflexivity.
  - destruct (below x p); cbn [length]; congruence.
  - destruct (below x p), (below y p); reflexivity.
  - congruence.
Qed.

Theorem eo_depends_on_edges_only (rs1 rs2 : list ring) :
  Permutation (flat_map ring_edges rs1) (flat_map ring_edges rs2) ->
  forall p, inside_eo rs1 p = inside_eo rs2 p.
Proof. intros H p. unfold inside_eo. now rewrite (crossings_perm _ _ p H). Qed.

(** the edges of an open path *)
Fixpoint path_edges (prev : qpt) (l : list qpt) : list edge :=
  match l with
  | [] => []
  | q :: tl => mk_edge prev q :: path_edges q tl
  end.

Lemma last_cons (A : Type) : forall (l : list A) (a d : A), last (a :: l) d = last l a.
Proof.
  induction l as [|b l IH]; intros a d; [reflexivity|].
  change (last (a :: b :: l) d) with (last (b :: l) d). rewrite (IH b d), (IH b a). reflexivity.
Qed.

Lemma ring_edges_from_path first : forall l prev,
  ring_edges_from first prev l = path_edges prev l ++ [mk_edge (last l prev) first].
Proof.
  induction l as [|q tl IH]; intros prev; cbn [ring_edges_from path_edges app]; [reflexivity|].
  rewrite IH. rewrite last_cons. reflexivity.
Qed.

Lemma path_edges_app : forall l1 l2 prev,
  path_edges prev (l1 ++ l2) = path_edges prev l1 ++ path_edges (last l1 prev) l2.
Proof.
  induction l1 as [|q tl IH]; intros l2 prev; cbn [app path_edges]; [reflexivity|].
  rewrite IH. rewrite last_cons. reflexivity.
Qed.

Lemma last_app_cons (A : Type) (l1 : list A) (x : A) (l2 : list A) (d : A) :
  last (l1 ++ x :: l2) d = last l2 x.
Proof.
  revert d; induction l1 as [|a l1 IH]; intros d; cbn [app].
  - apply last_cons.
  - rewrite last_cons. apply IH.
Qed.

(** threading a ring [v :: h] into the ring [e0 :: pre ++ v :: post] at the common vertex [v] *)
Definition thread (e0 : qpt) (pre : list qpt) (v : qpt) (h post : list qpt) : ring :=
  e0 :: pre ++ v :: h ++ v :: post.

Lemma thread_edges e0 pre v h post :
  Permutation (ring_edges (thread e0 pre v h post))
              (ring_edges (e0 :: pre ++ v :: post) ++ ring_edges (v :: h)).
Proof.
  unfold thread, ring_edges. rewrite !ring_edges_from_path.
  rewrite !path_edges_app. cbn [path_edges].
  rewrite !path_edges_app. cbn [path_edges].
  rewrite !last_app_cons.
  set (A := path_edges e0 pre). set (b := mk_edge (last pre e0) v).
  set (H := path_edges v h). set (c := mk_edge (last h v) v).
  set (C := path_edges v post). set (d := mk_edge (last post v) e0).
  cbn [last].
  (* A ++ (b :: H ++ c :: C) ++ [d]   ~   (A ++ (b :: C) ++ [d]) ++ H ++ [c] *)
  rewrite <- !app_assoc. apply Permutation_app_head. cbn [app].
  apply perm_skip.
  rewrite <- !app_assoc. cbn [app].
  transitivity ((C ++ [d]) ++ (H ++ [c])).
  - rewrite (Permutation_app_comm (C ++ [d]) (H ++ [c])). rewrite <- !app_assoc. cbn [app].
    apply Permutation_app_head. apply perm_skip. reflexivity.
  - rewrite <- !app_assoc. reflexivity.
Qed.

(** same region whether the touching ring is a ring of its own or threaded into the other *)
Theorem threaded_ring_same_region (e0 : qpt) (pre : list qpt) (v : qpt) (h post : list qpt) (rs : list ring) :
  forall p, inside_eo (thread e0 pre v h post :: rs) p
          = inside_eo ((e0 :: pre ++ v :: post) :: (v :: h) :: rs) p.
Proof.
  apply eo_depends_on_edges_only. cbn [flat_map].
  rewrite app_assoc. apply Permutation_app_tail. apply thread_edges.
Qed.

(** the configuration of the false alarm of seed 7 (DESIGN 14.2 (ix)): the shortcut's two rings
    and the sweep's single ring have the same edges up to order *)
Definition P (x y : Z) : qpt := mkQpt (inject_Z x) (inject_Z y).
Example g295_threading :
  thread (P 0 4) [P 4 4; P 5 3; P 6 4; P 6 6; P 4 8; P 2 8; P 0 6] (P 2 6) [P 3 7; P 4 6] []
  = [P 0 4; P 4 4; P 5 3; P 6 4; P 6 6; P 4 8; P 2 8; P 0 6; P 2 6; P 3 7; P 4 6; P 2 6].
Proof. reflexivity. Qed.

(** the rewritings of C07 that keep the edges: another start vertex, another order of the rings *)
Lemma rotate_edges a l1 b l2 :
  Permutation (ring_edges (a :: l1 ++ b :: l2)) (ring_edges (b :: l2 ++ a :: l1)).
Proof.
  unfold ring_edges. rewrite !ring_edges_from_path, !path_edges_app. cbn [path_edges].
  rewrite !last_app_cons.
  rewrite <- !app_assoc. cbn [app].
  set (A := path_edges a l1). set (x := mk_edge (last l1 a) b).
  set (B := path_edges b l2). set (y := mk_edge (last l2 b) a).
  apply Permutation_trans with ((A ++ [x]) ++ (B ++ [y])).
  - rewrite <- app_assoc. cbn [app]. reflexivity.
  - apply Permutation_trans with ((B ++ [y]) ++ (A ++ [x])); [apply Permutation_app_comm|].
    rewrite <- app_assoc. cbn [app]. reflexivity.
Qed.

Theorem rotated_ring_same_region a l1 b l2 (rs : list ring) :
  forall p, inside_eo ((a :: l1 ++ b :: l2) :: rs) p = inside_eo ((b :: l2 ++ a :: l1) :: rs) p.
Proof.
  apply eo_depends_on_edges_only. cbn [flat_map]. apply Permutation_app_tail. apply rotate_edges.
Qed.

Theorem reordered_rings_same_region (rs1 rs2 : list ring) :
  Permutation rs1 rs2 -> forall p, inside_eo rs1 p = inside_eo rs2 p.
Proof. intros H. apply eo_depends_on_edges_only. now apply Permutation_flat_map. Qed.

(** the other direction of a ring: the edges are the same segments (a vertical segment may be
    stored with its end points exchanged, which no crossing count sees) *)
Lemma below_mk_edge_sym a b p : below (mk_edge a b) p = below (mk_edge b a) p.
Proof.
  unfold mk_edge.
  destruct (Qle_bool (qx a) (qx b)) eqn:E1, (Qle_bool (qx b) (qx a)) eqn:E2; try reflexivity.
  - (* equal abscissae: neither spans anything *)
    unfold below, spans, lx, rx, Qltb; cbn [el er].
    apply Qle_bool_iff in E1. apply Qle_bool_iff in E2.
    assert (F : forall u v : Q, u <= v -> v <= u -> Qle_bool u (qx p) && negb (Qle_bool v (qx p)) = false).
    { intros u v H1 H2. destruct (Qle_bool u (qx p)) eqn:A; [|reflexivity]. cbn [andb].
      apply Qle_bool_iff in A. assert (B : Qle_bool v (qx p) = true) by (apply Qle_bool_iff; eapply Qle_trans; eassumption).
      now rewrite B. }
    rewrite (F _ _ E1 E2), (F _ _ E2 E1). reflexivity.
  - exfalso. destruct (Qlt_le_dec (qx b) (qx a)) as [H|H].
    + apply Qlt_le_weak, Qle_bool_iff in H. congruence.
    + apply Qle_bool_iff in H. congruence.
Qed.

Lemma crossings_app es1 es2 p : crossings (es1 ++ es2) p = (crossings es1 p + crossings es2 p)%nat.
Proof. unfold crossings. now rewrite filter_app, app_length. Qed.

Lemma crossings_one_sym a b p : crossings [mk_edge a b] p = crossings [mk_edge b a] p.
Proof. unfold crossings; cbn [filter]. rewrite (below_mk_edge_sym a b p). now destruct (below (mk_edge b a) p). Qed.

Lemma rev_cons_head (a : qpt) : forall l, rev (a :: l) = last l a :: tl (rev (a :: l)).
Proof.
  intros l. induction l as [|b l' _] using rev_ind; [reflexivity|].
  rewrite last_app_cons. cbn [last]. cbn [rev]. rewrite rev_app_distr. reflexivity.
Qed.

Lemma path_rev_crossings p : forall l a,
  crossings (path_edges a l) p = crossings (path_edges (last l a) (tl (rev (a :: l)))) p.
Proof.
  intros l. induction l as [|b l' IH] using rev_ind; intros a; [reflexivity|].
  rewrite path_edges_app, crossings_app. cbn [path_edges].
  rewrite last_app_cons. cbn [last].
  assert (E : tl (rev (a :: l' ++ [b])) = rev (a :: l')).
  { cbn [rev]. rewrite rev_app_distr. reflexivity. }
  rewrite E, (rev_cons_head a l'). cbn [path_edges].
  change (mk_edge b (last l' a) :: path_edges (last l' a) (tl (rev (a :: l'))))
    with ([mk_edge b (last l' a)] ++ path_edges (last l' a) (tl (rev (a :: l')))).
  rewrite crossings_app, (IH a), (crossings_one_sym (last l' a) b p). apply Nat.add_comm.
Qed.

Lemma last_tl_rev (a : qpt) l : last (tl (rev (a :: l))) (last l a) = a.
Proof.
  destruct l as [|b l]; [reflexivity|].
  assert (E : rev (a :: b :: l) = last (b :: l) a :: tl (rev (a :: b :: l))) by apply rev_cons_head.
  assert (L : last (rev (a :: b :: l)) a = a).
  { cbn [rev]. rewrite <- app_assoc. apply last_app_cons. }
  rewrite E in L. rewrite last_cons in L. exact L.
Qed.

Lemma reversed_ring_crossings (r : ring) p : crossings (ring_edges (rev r)) p = crossings (ring_edges r) p.
Proof.
  destruct r as [|a l]; [reflexivity|].
  rewrite (rev_cons_head a l). unfold ring_edges. rewrite !ring_edges_from_path, !crossings_app.
  rewrite <- (path_rev_crossings p l a), last_tl_rev.
  now rewrite (crossings_one_sym (last l a) a p).
Qed.

Theorem reversed_ring_same_region (r : ring) (rs : list ring) :
  forall p, inside_eo (rev r :: rs) p = inside_eo (r :: rs) p.
Proof.
  intros p. unfold inside_eo. cbn [flat_map]. now rewrite !crossings_app, reversed_ring_crossings.
Qed.
