(** * The sub-segments cover their input edges (C13, coverage clause): exact instance, every
    input with finite coordinates.

    [cov]: for every listed, non-degenerate input edge [E] of an operand and every point of
    [E] there is a linked event pair of that operand, lying on [E], whose segment contains the
    point.  Queue filling establishes it ([fill_queue_cov]); a division strictly inside keeps it
    ([SplitCover.split_cover]); hence every store reached by the sweep satisfies it
    ([subdivide_covers]).  Together with [OnEdgeFull] (every pair lies on ONE edge of its
    operand): the sub-segments of an operand that lie on an input edge chain together to cover
    that edge. *)
From Coq Require Import Bool List PArith NArith QArith Lqa Lia.
From GB Require Import Prim Num NumQ NumLaws NumLawsQ Event Intersect Cmp Heap Outcome Divide Fields FillQueue
  Subdivide IntersectProofs FieldsProofs SplayKeys LinkProofs PiProofs SplitCover OnEdge OnEdgeFull.
From GB Require Splay.
Import ListNotations.
Local Open Scope Q_scope.

Section Coverage.
Variable edges : list edge.
(** the edges to be covered *)
Variable target : edge -> Prop.
Notation store := (store NQ).
Notation slkeys := (@keys eid unit).

Definition covers (st : store) (e : edge) (x y : Q) : Prop :=
  let '(ax, ay, (bx, by_), sj) := e in
  exists i o lx ly rx ry, mapped NQ st i /\ e_other (getE st i) = Some o /\ e_is_subject (getE st i) = sj /\
    e_point (getE st i) = fpt lx ly /\ e_point (getE st o) = fpt rx ry /\
    on_seg ax ay bx by_ lx ly /\ on_seg ax ay bx by_ rx ry /\ on_seg lx ly rx ry x y.

Definition cov (st : store) : Prop :=
  forall ax ay bx by_ sj, target (ax, ay, (bx, by_), sj) ->
  forall x y, on_seg ax ay bx by_ x y -> covers st (ax, ay, (bx, by_), sj) x y.

Lemma cov_upd (st : store) j f : keeps_e f -> mapped NQ st j -> cov st -> cov (upd st j f).
Proof.
  intros K Mj C ax ay bx by_ sj Ht x y Hon.
  destruct (C ax ay bx by_ sj Ht x y Hon) as (i & o & lx & ly & rx & ry & Mi & Oi & Si & Pi & Po & H1 & H2 & H3).
  exists i, o, lx, ly, rx, ry.
  destruct (getE_upd_keeps_e st j f i K) as (A1 & A2 & A3).
  destruct (getE_upd_keeps_e st j f o K) as (B1 & _).
  rewrite A1, A2, A3, B1. repeat split; auto. apply mapped_upd_in; auto.
Qed.

(** one division strictly inside *)
Lemma divc cfg (s s' : sq NQ) (se_l se_r : eid) (lx ly rx ry ix iy : Q) :
  sqinv NQ s -> einv2 edges (sq_st s) -> cov (sq_st s) -> mapped NQ (sq_st s) se_l ->
  e_other (getE (sq_st s) se_l) = Some se_r ->
  e_left (getE (sq_st s) se_l) = true ->
  e_point (getE (sq_st s) se_l) = fpt lx ly -> e_point (getE (sq_st s) se_r) = fpt rx ry ->
  strictly_inside lx ly rx ry ix iy ->
  divide_segment cfg s se_l (fpt ix iy) = Ok s' ->
  einv2 edges (sq_st s') /\
  (forall k, mapped NQ (sq_st s) k -> e_left (getE (sq_st s') k) = e_left (getE (sq_st s) k)) /\
  (forall l, e_other (getE (sq_st s') se_r) = Some l ->
     e_left (getE (sq_st s') l) = true /\ e_point (getE (sq_st s') l) = fpt ix iy /\
     e_other (getE (sq_st s') l) = Some se_r /\ ~ mapped NQ (sq_st s) l) /\
  cov (sq_st s').
Proof.
  intros Sq E Cv Ml Or Ll Pl Pr Hin Hd.
  destruct (divide_segment_einv2 edges cfg s s' se_l se_r lx ly rx ry ix iy Sq E Ml Or Ll Pl Pr Hin Hd) as (E' & F' & Hl).
  split; [exact E'|]. split; [exact F'|]. split; [exact Hl|].
  pose proof Sq as [[W L] Q].
  destruct (L se_l Ml) as (o & Ho & Hne & Mr & Back & Hsub & _). assert (o = se_r) by congruence. subst o.
  destruct (divide_segment_shape NQ cfg s s' se_l se_r (fpt ix iy) W Ml Mr Hne Or Hd)
    as (r & l & i' & Nr & Nl & Hrl & A1 & A2 & A3 & A4 & B1 & B2 & Ei & Keep & KeepO).
  rewrite bump_dead_exact in Ei. rewrite Ei in B1, B2. clear Ei i'.
  pose proof (divide_segment_keeps_subject cfg s s' se_l (fpt ix iy) W Hd) as KS.
  pose proof (divide_segment_inv NQ cfg s se_l (fpt ix iy) Sq Ml) as DI. rewrite Hd in DI. destruct DI as [[[W' L'] Q'] G'].
  destruct Hin as (Hon & _ & _).
  intros ax ay bx by_ sj Ht x y Hxy.
  destruct (Cv ax ay bx by_ sj Ht x y Hxy) as (i & o & ux & uy & vx & vy & Mi & Oi & Si & Pi & Po & H1 & H2 & H3).
  destruct (L i Mi) as (o' & Oi' & _ & Mo & Bo & So & _). assert (o' = o) by congruence. subst o'.
  destruct (Pos.eq_dec i se_l) as [->|Nil]; [|destruct (Pos.eq_dec i se_r) as [->|Nir]].
  - (* the divided pair, seen from its left event *)
    assert (o = se_r) by congruence. subst o.
    rewrite Pl in Pi. rewrite Pr in Po. apply fpt_inj in Pi, Po. destruct Pi as [<- <-]. destruct Po as [<- <-].
    assert (Hi : on_seg ax ay bx by_ ix iy) by (eapply on_seg_convex; [exact H1 | exact H2 | exact Hon]).
    destruct (proj1 (split_cover lx ly rx ry ix iy Hon x y) H3) as [K|K].
    + exists se_l, r, lx, ly, ix, iy. rewrite A1, (Keep se_l Ml), Pl, B1, (KS se_l Ml). repeat split; auto.
    + exists l, se_r, ix, iy, rx, ry.
      assert (Ml_ : mapped NQ (sq_st s') l).
      { destruct (mapped_dec NQ (sq_st s') l) as [M|M]; [exact M|]. rewrite (getE_unmapped_other _ _ M) in A3. discriminate. }
      destruct (L' l Ml_) as (o2 & O2 & _ & _ & _ & S2 & _). assert (o2 = se_r) by congruence. subst o2.
      rewrite A3, B2, (Keep se_r Mr), Pr, <- S2, (KS se_r Mr), Hsub. repeat split; auto.
  - (* the divided pair, seen from its right event *)
    assert (o = se_l) by congruence. subst o.
    rewrite Pr in Pi. rewrite Pl in Po. apply fpt_inj in Pi, Po. destruct Pi as [<- <-]. destruct Po as [<- <-].
    assert (Hi : on_seg ax ay bx by_ ix iy) by (eapply on_seg_convex; [exact H2 | exact H1 | exact Hon]).
    assert (H3' : on_seg lx ly rx ry x y).
    { destruct H3 as (t & Ht' & Hx & Hy). exists (1 - t). split; [lra|]. rewrite Hx, Hy. split; ring. }
    destruct (proj1 (split_cover lx ly rx ry ix iy Hon x y) H3') as [K|K].
    + exists se_l, r, lx, ly, ix, iy. rewrite A1, (Keep se_l Ml), Pl, B1, (KS se_l Ml), <- Hsub, Si. repeat split; auto.
    + exists l, se_r, ix, iy, rx, ry.
      assert (Ml_ : mapped NQ (sq_st s') l).
      { destruct (mapped_dec NQ (sq_st s') l) as [M|M]; [exact M|]. rewrite (getE_unmapped_other _ _ M) in A3. discriminate. }
      destruct (L' l Ml_) as (o2 & O2 & _ & _ & _ & S2 & _). assert (o2 = se_r) by congruence. subst o2.
      rewrite A3, B2, (Keep se_r Mr), Pr, <- S2, (KS se_r Mr). repeat split; auto.
  - (* another pair: untouched *)
    exists i, o, ux, uy, vx, vy.
    rewrite (KeepO i Mi Nil Nir), (Keep i Mi), (Keep o Mo), (KS i Mi). repeat split; auto.
Qed.

Definition pec (st0 : store) (r : outcome (sq NQ * nat)) : Prop :=
  match r with
  | Ok (s', _) => einv2 edges (sq_st s') /\ FP st0 (sq_st s') /\ cov (sq_st s')
  | _ => True
  end.

Lemma pec_step cfg (st0 : store) (s s' : sq NQ) (T Tr : eid) (lx ly rx ry ix iy : Q) :
  sqinv NQ s -> einv2 edges (sq_st s) ->
  (forall k, mapped NQ st0 k -> mapped NQ (sq_st s) k /\ e_left (getE (sq_st s) k) = e_left (getE st0 k)) ->
  cov (sq_st s) ->
  mapped NQ (sq_st s) T -> e_other (getE (sq_st s) T) = Some Tr -> e_left (getE (sq_st s) T) = true ->
  e_point (getE (sq_st s) T) = fpt lx ly -> e_point (getE (sq_st s) Tr) = fpt rx ry ->
  strictly_inside lx ly rx ry ix iy ->
  divide_segment cfg s T (fpt ix iy) = Ok s' ->
  einv2 edges (sq_st s') /\ FP st0 (sq_st s') /\ cov (sq_st s').
Proof.
  intros Sq E H0 Cv MT OT LT PT PTr Hin Hd.
  destruct (divc cfg s s' T Tr lx ly rx ry ix iy Sq E Cv MT OT LT PT PTr Hin Hd) as (E' & F' & _ & Cv').
  split; [exact E'|]. split; [|exact Cv'].
  intros k Mk. destruct (H0 k Mk) as [Mk' Fk]. rewrite (F' k Mk'). exact Fk.
Qed.

Theorem possible_intersection_pec cfg (s : sq NQ) (se1 se2 : eid) :
  sqinv NQ s -> einv2 edges (sq_st s) -> cov (sq_st s) -> mapped NQ (sq_st s) se1 -> mapped NQ (sq_st s) se2 ->
  e_left (getE (sq_st s) se1) = true -> e_left (getE (sq_st s) se2) = true ->
  pec (sq_st s) (possible_intersection cfg s se1 se2).
Proof.
  intros S E Cv M1 M2 Lf1 Lf2. pose proof S as [[W L] Q].
  assert (Same : forall k, mapped NQ (sq_st s) k -> mapped NQ (sq_st s) k /\ e_left (getE (sq_st s) k) = e_left (getE (sq_st s) k))
    by (intros k Mk; split; [exact Mk | reflexivity]).
  assert (Good0 : pec (sq_st s) (Ok (s, 0%nat))) by (cbn; split; [exact E | split; [apply FP_refl | exact Cv]]).
  unfold possible_intersection.
  destruct (L se1 M1) as (other1 & O1 & Hne1 & Mo1 & Back1 & _).
  destruct (L se2 M2) as (other2 & O2 & Hne2 & Mo2 & Back2 & _).
  rewrite O1, O2.
  destruct (E se1 other1 M1 O1) as (p1x & p1y & o1x & o1y & a1x & a1y & b1x & b1y & P1 & Q1 & D1 & I1 & S1a & S1b & F1 & Lx1).
  destruct (E se2 other2 M2 O2) as (p2x & p2y & o2x & o2y & a2x & a2y & b2x & b2y & P2 & Q2 & D2 & I2 & S2a & S2b & F2 & Lx2).
  rewrite Lf1 in F1. rewrite Lf2 in F2. cbn [negb] in F1, F2. specialize (Lx1 Lf1). specialize (Lx2 Lf2).
  assert (N2o : se2 <> other1) by (intros K; rewrite K in Lf2; congruence).
  assert (N1o : se1 <> other2) by (intros K; rewrite K in Lf1; congruence).
  unfold point_of. rewrite P1, Q1, P2, Q2.
  assert (Hne : ~ (o1x == p1x /\ o1y == p1y)) by (intros [K1 K2]; apply D1; split; symmetry; assumption).
  pose proof (@intersection_exact_all p1x p1y o1x o1y p2x p2y o2x o2y Hne) as EX.
  destruct (intersection (fpt p1x p1y) (fpt o1x o1y) (fpt p2x p2y) (fpt o2x o2y)) as [|inter|ia ib] eqn:EI.
  - exact Good0.
  - (* one common point *)
    cbn [exact_result] in EX. destruct EX as (x & y & -> & Hon).
    destruct (on_both_seg1 _ _ _ _ _ _ _ _ _ _ Hon) as [On1 On2].
    destruct (pt_eq (fpt p1x p1y) (fpt p2x p2y) || pt_eq (fpt o1x o1y) (fpt o2x o2y)) eqn:Eends; [exact Good0|].
    apply orb_false_iff in Eends. destruct Eends as [Ep Eo].
    assert (N21 : se2 <> se1).
    { intros K. rewrite K in P2. rewrite P1 in P2. apply fpt_inj in P2. destruct P2 as [<- <-].
      apply pt_eq_fpt_false in Ep. apply Ep. split; reflexivity. }
    set (c1 := negb (pt_eq (fpt p1x p1y) (fpt x y)) && negb (pt_eq (fpt o1x o1y) (fpt x y))).
    set (c2 := negb (pt_eq (fpt p2x p2y) (fpt x y)) && negb (pt_eq (fpt o2x o2y) (fpt x y))).
    assert (In1 : c1 = true -> strictly_inside p1x p1y o1x o1y x y).
    { unfold c1. intros K. apply andb_prop in K. destruct K as [K1 K2].
      apply negb_true_iff in K1, K2. apply pt_eq_fpt_false in K1, K2.
      split; [exact On1|]. split; intros K; [apply K1 | apply K2]; now apply qeqp_sym. }
    assert (In2 : c2 = true -> strictly_inside p2x p2y o2x o2y x y).
    { unfold c2. intros K. apply andb_prop in K. destruct K as [K1 K2].
      apply negb_true_iff in K1, K2. apply pt_eq_fpt_false in K1, K2.
      split; [exact On2|]. split; intros K; [apply K1 | apply K2]; now apply qeqp_sym. }
    destruct c1 eqn:C1.
    + pose proof (divide_segment_inv NQ cfg s se1 (fpt x y) S M1) as DI.
      destruct (divide_segment cfg s se1 (fpt x y)) as [s1|site|] eqn:Dv1; cbn [obind]; [|exact I|exact I].
      destruct DI as [S1 G1].
      destruct (divc cfg s s1 se1 other1 p1x p1y o1x o1y x y S E Cv M1 O1 Lf1 P1 Q1 (In1 eq_refl) Dv1) as (E1 & Fl1 & _ & Cv1).
      destruct c2 eqn:C2.
      * destruct (divide_segment_shape NQ cfg s s1 se1 other1 (fpt x y) W M1 Mo1 Hne1 O1 Dv1)
          as (r & l & i' & _ & _ & _ & _ & _ & _ & _ & _ & _ & _ & Keep & KeepO).
        assert (O2' : e_other (getE (sq_st s1) se2) = Some other2) by (rewrite (KeepO se2 M2 N21 N2o); exact O2).
        assert (P2' : e_point (getE (sq_st s1) se2) = fpt p2x p2y) by (rewrite (Keep se2 M2); exact P2).
        assert (Q2' : e_point (getE (sq_st s1) other2) = fpt o2x o2y) by (rewrite (Keep other2 Mo2); exact Q2).
        destruct (divide_segment cfg s1 se2 (fpt x y)) as [s2|site|] eqn:Dv2; cbn [obind]; [|exact I|exact I].
        cbn [pec].
        assert (H01 : forall k, mapped NQ (sq_st s) k -> mapped NQ (sq_st s1) k /\ e_left (getE (sq_st s1) k) = e_left (getE (sq_st s) k))
          by (intros k Mk; split; [apply G1, Mk | apply Fl1, Mk]).
        assert (L2' : e_left (getE (sq_st s1) se2) = true) by (rewrite (Fl1 se2 M2); exact Lf2).
        exact (pec_step cfg (sq_st s) s1 s2 se2 other2 p2x p2y o2x o2y x y S1 E1 H01 Cv1 (G1 _ M2) O2' L2' P2' Q2' (In2 eq_refl) Dv2).
      * cbn [obind pec]. split; [exact E1 | split; [exact Fl1 | exact Cv1]].
    + cbn [obind]. destruct c2 eqn:C2.
      * destruct (divide_segment cfg s se2 (fpt x y)) as [s2|site|] eqn:Dv2; cbn [obind]; [|exact I|exact I].
        cbn [pec]. exact (pec_step cfg (sq_st s) s s2 se2 other2 p2x p2y o2x o2y x y S E Same Cv M2 O2 Lf2 P2 Q2 (In2 eq_refl) Dv2).
      * cbn [obind]. exact Good0.
  - (* an overlap *)
    destruct (eqb (e_is_subject (getE (sq_st s) se1)) (e_is_subject (getE (sq_st s) se2))); [exact Good0|].
    destruct (overlap_params _ _ _ _ _ _ _ _ _ _ Lx1 Lx2 EI) as (al & be & Hab & Ha1 & Hb0 & X2 & Y2 & X3 & Y3).
    (* the four points by their parameters on the first segment *)
    assert (Pp1 : has_param p1x p1y o1x o1y 0 p1x p1y) by (split; ring).
    assert (Po1 : has_param p1x p1y o1x o1y 1 o1x o1y) by (split; ring).
    assert (Pp2 : has_param p1x p1y o1x o1y al p2x p2y) by (split; assumption).
    assert (Po2 : has_param p1x p1y o1x o1y be o2x o2y) by (split; assumption).
    assert (N21 : pt_eq (fpt p1x p1y) (fpt p2x p2y) = false -> se2 <> se1).
    { intros Ep K. rewrite K in P2. rewrite P1 in P2. apply fpt_inj in P2. destruct P2 as [<- <-].
      apply pt_eq_fpt_false in Ep. apply Ep. split; reflexivity. }
    destruct (pt_eq (fpt p1x p1y) (fpt p2x p2y)) eqn:LC; destruct (pt_eq (fpt o1x o1y) (fpt o2x o2y)) eqn:RC.
    + (* both ends coincide: only edge types change *)
      cbn [negb app obind].
      set (ty := if eqb (e_in_out (getE (sq_st s) se1)) (e_in_out (getE (sq_st s) se2)) then SameTransition else DifferentTransition).
      set (st1 := upd (sq_st s) se2 (fun e => set_edge_type e NonContributing)).
      set (st2 := upd st1 se1 (fun e => set_edge_type e ty)).
      cbn [pec sq_st].
      assert (M1' : mapped NQ st1 se1) by (apply mapped_upd; now right).
      split; [|split].
      * apply (einv2_upd edges); [apply k2_set_edge_type | exact M1' |].
        apply (einv2_upd edges); [apply k2_set_edge_type | exact M2 | exact E].
      * intros k Mk.
        destruct (getE_upd_keeps_e2 st1 se1 (fun e => set_edge_type e ty) k (k2_set_edge_type ty)) as (_ & _ & _ & A).
        destruct (getE_upd_keeps_e2 (sq_st s) se2 (fun e => set_edge_type e NonContributing) k (k2_set_edge_type NonContributing)) as (_ & _ & _ & B).
        fold st1 in B. fold st2 in A. congruence.
      * apply cov_upd; [apply ke_set_edge_type | exact M1' |]. apply cov_upd; [apply ke_set_edge_type | exact M2 | exact Cv].
    + (* left ends coincide: the longer segment is divided at the right end of the shorter one *)
      apply pt_eq_fpt in LC. apply pt_eq_fpt_false in RC.
      assert (Al0 : al == 0) by (symmetry; apply (qeqp_params p1x p1y o1x o1y Lx1 0 al p1x p1y p2x p2y Pp1 Pp2); exact LC).
      assert (Be1 : ~ be == 1) by (intros K; apply RC; apply (qeqp_params p1x p1y o1x o1y Lx1 1 be o1x o1y o2x o2y Po1 Po2); symmetry; exact K).
      cbn [negb app].
      set (ty := if eqb (e_in_out (getE (sq_st s) se1)) (e_in_out (getE (sq_st s) se2)) then SameTransition else DifferentTransition).
      set (st1 := upd (sq_st s) se2 (fun e => set_edge_type e NonContributing)).
      set (st2 := upd st1 se1 (fun e => set_edge_type e ty)).
      assert (K2 : forall k, e_point (getE st2 k) = e_point (getE (sq_st s) k) /\ e_other (getE st2 k) = e_other (getE (sq_st s) k)
                             /\ e_left (getE st2 k) = e_left (getE (sq_st s) k)).
      { intros k.
        destruct (getE_upd_keeps_e2 st1 se1 (fun e => set_edge_type e ty) k (k2_set_edge_type ty)) as (A1 & A2 & _ & A4).
        destruct (getE_upd_keeps_e2 (sq_st s) se2 (fun e => set_edge_type e NonContributing) k (k2_set_edge_type NonContributing)) as (B1 & B2 & _ & B4).
        fold st1 in B1, B2, B4. fold st2 in A1, A2, A4. repeat split; congruence. }
      assert (M1' : mapped NQ st1 se1) by (apply mapped_upd; now right).
      assert (E2' : einv2 edges st2).
      { apply (einv2_upd edges); [apply k2_set_edge_type | exact M1' |].
        apply (einv2_upd edges); [apply k2_set_edge_type | exact M2 | exact E]. }
      assert (Cv2 : cov (sq_st (mkSQ st2 (sq_q s)))).
      { cbn [sq_st]. apply cov_upd; [apply ke_set_edge_type | exact M1' |]. apply cov_upd; [apply ke_set_edge_type | exact M2 | exact Cv]. }
      destruct (sqinv_set_edge_type NQ s se2 NonContributing S M2) as [Sa Ga].
      destruct (sqinv_set_edge_type NQ (mkSQ st1 (sq_q s)) se1 ty Sa M1') as [Sb Gb]. cbn [sq_st sq_q] in Sb, Gb. fold st2 in Sb, Gb.
      assert (H0 : forall k, mapped NQ (sq_st s) k -> mapped NQ (sq_st (mkSQ st2 (sq_q s))) k /\ e_left (getE (sq_st (mkSQ st2 (sq_q s))) k) = e_left (getE (sq_st s) k)).
      { intros k Mk. cbn [sq_st]. split; [apply Gb, Ga, Mk | apply K2]. }
      destruct (ev_lt (sq_st s) other1 other2) eqn:C2; cbn [nth_ev nth fst snd].
      * (* o2 before o1: be < 1; se1 is divided at o2 *)
        apply (ev_lt_lex (sq_st s) other1 other2 o1x o1y o2x o2y Q1 Q2 RC) in C2.
        apply (lexlt_params p1x p1y o1x o1y Lx1 be 1 o2x o2y o1x o1y Po2 Po1) in C2.
        unfold point_of. rewrite (proj1 (K2 other2)), Q2.
        destruct (divide_segment cfg (mkSQ st2 (sq_q s)) se1 (fpt o2x o2y)) as [s3|site|] eqn:Dv; cbn [obind]; [|exact I|exact I].
        cbn [pec].
        assert (Hin : strictly_inside p1x p1y o1x o1y o2x o2y) by (apply (inside_by_params p1x p1y o1x o1y Lx1 0 1 be); auto; lra).
        assert (MT : mapped NQ (sq_st (mkSQ st2 (sq_q s))) se1) by (cbn [sq_st]; apply Gb, Ga, M1).
        assert (OT : e_other (getE (sq_st (mkSQ st2 (sq_q s))) se1) = Some other1) by (cbn [sq_st]; rewrite (proj1 (proj2 (K2 se1))); exact O1).
        assert (LT : e_left (getE (sq_st (mkSQ st2 (sq_q s))) se1) = true) by (cbn [sq_st]; rewrite (proj2 (proj2 (K2 se1))); exact Lf1).
        assert (PT : e_point (getE (sq_st (mkSQ st2 (sq_q s))) se1) = fpt p1x p1y) by (cbn [sq_st]; rewrite (proj1 (K2 se1)); exact P1).
        assert (PTr : e_point (getE (sq_st (mkSQ st2 (sq_q s))) other1) = fpt o1x o1y) by (cbn [sq_st]; rewrite (proj1 (K2 other1)); exact Q1).
        exact (pec_step cfg (sq_st s) (mkSQ st2 (sq_q s)) s3 se1 other1 p1x p1y o1x o1y o2x o2y Sb E2' H0 Cv2 MT OT LT PT PTr Hin Dv).
      * (* o1 before o2: 1 < be; se2 is divided at o1 *)
        apply (ev_lt_lex_false (sq_st s) other1 other2 o1x o1y o2x o2y Q1 Q2 RC) in C2.
        apply (lexlt_params p1x p1y o1x o1y Lx1 1 be o1x o1y o2x o2y Po1 Po2) in C2.
        unfold point_of. rewrite (proj1 (K2 other1)), Q1.
        destruct (divide_segment cfg (mkSQ st2 (sq_q s)) se2 (fpt o1x o1y)) as [s3|site|] eqn:Dv; cbn [obind]; [|exact I|exact I].
        cbn [pec].
        assert (Hin : strictly_inside p2x p2y o2x o2y o1x o1y) by (apply (inside_by_params p1x p1y o1x o1y Lx1 al be 1); auto; lra).
        assert (MT : mapped NQ (sq_st (mkSQ st2 (sq_q s))) se2) by (cbn [sq_st]; apply Gb, Ga, M2).
        assert (OT : e_other (getE (sq_st (mkSQ st2 (sq_q s))) se2) = Some other2) by (cbn [sq_st]; rewrite (proj1 (proj2 (K2 se2))); exact O2).
        assert (LT : e_left (getE (sq_st (mkSQ st2 (sq_q s))) se2) = true) by (cbn [sq_st]; rewrite (proj2 (proj2 (K2 se2))); exact Lf2).
        assert (PT : e_point (getE (sq_st (mkSQ st2 (sq_q s))) se2) = fpt p2x p2y) by (cbn [sq_st]; rewrite (proj1 (K2 se2)); exact P2).
        assert (PTr : e_point (getE (sq_st (mkSQ st2 (sq_q s))) other2) = fpt o2x o2y) by (cbn [sq_st]; rewrite (proj1 (K2 other2)); exact Q2).
        exact (pec_step cfg (sq_st s) (mkSQ st2 (sq_q s)) s3 se2 other2 p2x p2y o2x o2y o1x o1y Sb E2' H0 Cv2 MT OT LT PT PTr Hin Dv).
    + (* right ends coincide: the earlier segment is divided at the left end of the later one *)
      apply pt_eq_fpt_false in LC. apply pt_eq_fpt in RC.
      assert (Be1 : be == 1) by (symmetry; apply (qeqp_params p1x p1y o1x o1y Lx1 1 be o1x o1y o2x o2y Po1 Po2); exact RC).
      assert (Al0 : ~ al == 0) by (intros K; apply LC; apply (qeqp_params p1x p1y o1x o1y Lx1 0 al p1x p1y p2x p2y Pp1 Pp2); symmetry; exact K).
      cbn [negb app]. rewrite app_nil_r.
      destruct (ev_lt (sq_st s) se1 se2) eqn:C1; cbn [nth_ev nth fst snd].
      * (* p2 before p1: al < 0; se2 is divided at p1 *)
        apply (ev_lt_lex (sq_st s) se1 se2 p1x p1y p2x p2y P1 P2 LC) in C1.
        apply (lexlt_params p1x p1y o1x o1y Lx1 al 0 p2x p2y p1x p1y Pp2 Pp1) in C1.
        unfold point_of. rewrite P1.
        destruct (divide_segment cfg s se2 (fpt p1x p1y)) as [s1|site|] eqn:Dv; cbn [obind]; [|exact I|exact I].
        cbn [pec].
        assert (Hin : strictly_inside p2x p2y o2x o2y p1x p1y) by (apply (inside_by_params p1x p1y o1x o1y Lx1 al be 0); auto; lra).
        exact (pec_step cfg (sq_st s) s s1 se2 other2 p2x p2y o2x o2y p1x p1y S E Same Cv M2 O2 Lf2 P2 Q2 Hin Dv).
      * apply (ev_lt_lex_false (sq_st s) se1 se2 p1x p1y p2x p2y P1 P2 LC) in C1.
        apply (lexlt_params p1x p1y o1x o1y Lx1 0 al p1x p1y p2x p2y Pp1 Pp2) in C1.
        unfold point_of. rewrite P2.
        destruct (divide_segment cfg s se1 (fpt p2x p2y)) as [s1|site|] eqn:Dv; cbn [obind]; [|exact I|exact I].
        cbn [pec].
        assert (Hin : strictly_inside p1x p1y o1x o1y p2x p2y) by (apply (inside_by_params p1x p1y o1x o1y Lx1 0 1 al); auto; lra).
        exact (pec_step cfg (sq_st s) s s1 se1 other1 p1x p1y o1x o1y p2x p2y S E Same Cv M1 O1 Lf1 P1 Q1 Hin Dv).
    + (* four distinct ends *)
      apply pt_eq_fpt_false in LC. apply pt_eq_fpt_false in RC.
      assert (Be1 : ~ be == 1) by (intros K; apply RC; apply (qeqp_params p1x p1y o1x o1y Lx1 1 be o1x o1y o2x o2y Po1 Po2); symmetry; exact K).
      assert (Al0 : ~ al == 0) by (intros K; apply LC; apply (qeqp_params p1x p1y o1x o1y Lx1 0 al p1x p1y p2x p2y Pp1 Pp2); symmetry; exact K).
      assert (N21' : se2 <> se1).
      { intros K. rewrite K in P2. rewrite P1 in P2. apply fpt_inj in P2. destruct P2 as [<- <-]. apply LC. split; reflexivity. }
      cbn [negb].
      destruct (ev_lt (sq_st s) se1 se2) eqn:C1; destruct (ev_lt (sq_st s) other1 other2) eqn:C2;
        cbn [app nth_ev nth fst snd].
      * (* al < 0, be < 1: partial overlap, se2 first *)
        apply (ev_lt_lex (sq_st s) se1 se2 p1x p1y p2x p2y P1 P2 LC) in C1.
        apply (lexlt_params p1x p1y o1x o1y Lx1 al 0 p2x p2y p1x p1y Pp2 Pp1) in C1.
        apply (ev_lt_lex (sq_st s) other1 other2 o1x o1y o2x o2y Q1 Q2 RC) in C2.
        apply (lexlt_params p1x p1y o1x o1y Lx1 be 1 o2x o2y o1x o1y Po2 Po1) in C2.
        rewrite (proj2 (Pos.eqb_neq se2 se1) N21'). cbn [negb].
        rewrite P1.
        pose proof (divide_segment_inv NQ cfg s se2 (fpt p1x p1y) S M2) as DI.
        destruct (divide_segment cfg s se2 (fpt p1x p1y)) as [s1|site|] eqn:Dv1; cbn [obind]; [|exact I|exact I].
        destruct DI as [S1 G1].
        assert (In1 : strictly_inside p2x p2y o2x o2y p1x p1y) by (apply (inside_by_params p1x p1y o1x o1y Lx1 al be 0); auto; lra).
        destruct (divc cfg s s1 se2 other2 p2x p2y o2x o2y p1x p1y S E Cv M2 O2 Lf2 P2 Q2 In1 Dv1) as (E1 & Fl1 & _ & Cv1).
        destruct (divide_segment_shape NQ cfg s s1 se2 other2 (fpt p1x p1y) W M2 Mo2 Hne2 O2 Dv1)
          as (r & l & i' & _ & _ & _ & _ & _ & _ & _ & _ & _ & _ & Keep & KeepO).
        unfold point_of. rewrite (Keep other2 Mo2), Q2.
        destruct (divide_segment cfg s1 se1 (fpt o2x o2y)) as [s2|site|] eqn:Dv2; cbn [obind]; [|exact I|exact I].
        cbn [pec].
        assert (H01 : forall k, mapped NQ (sq_st s) k -> mapped NQ (sq_st s1) k /\ e_left (getE (sq_st s1) k) = e_left (getE (sq_st s) k))
          by (intros k Mk; split; [apply G1, Mk | apply Fl1, Mk]).
        assert (OT : e_other (getE (sq_st s1) se1) = Some other1) by (rewrite (KeepO se1 M1 (not_eq_sym N21') N1o); exact O1).
        assert (LT : e_left (getE (sq_st s1) se1) = true) by (rewrite (Fl1 se1 M1); exact Lf1).
        assert (PT : e_point (getE (sq_st s1) se1) = fpt p1x p1y) by (rewrite (Keep se1 M1); exact P1).
        assert (PTr : e_point (getE (sq_st s1) other1) = fpt o1x o1y) by (rewrite (Keep other1 Mo1); exact Q1).
        assert (Hin : strictly_inside p1x p1y o1x o1y o2x o2y) by (apply (inside_by_params p1x p1y o1x o1y Lx1 0 1 be); auto; lra).
        exact (pec_step cfg (sq_st s) s1 s2 se1 other1 p1x p1y o1x o1y o2x o2y S1 E1 H01 Cv1 (G1 _ M1) OT LT PT PTr Hin Dv2).
      * (* al < 0, 1 < be: the second segment contains the first *)
        apply (ev_lt_lex (sq_st s) se1 se2 p1x p1y p2x p2y P1 P2 LC) in C1.
        apply (lexlt_params p1x p1y o1x o1y Lx1 al 0 p2x p2y p1x p1y Pp2 Pp1) in C1.
        apply (ev_lt_lex_false (sq_st s) other1 other2 o1x o1y o2x o2y Q1 Q2 RC) in C2.
        apply (lexlt_params p1x p1y o1x o1y Lx1 1 be o1x o1y o2x o2y Po1 Po2) in C2.
        rewrite Pos.eqb_refl. cbn [negb].
        rewrite P1.
        pose proof (divide_segment_inv NQ cfg s se2 (fpt p1x p1y) S M2) as DI.
        destruct (divide_segment cfg s se2 (fpt p1x p1y)) as [s1|site|] eqn:Dv1; cbn [obind]; [|exact I|exact I].
        destruct DI as [S1 G1].
        assert (In1 : strictly_inside p2x p2y o2x o2y p1x p1y) by (apply (inside_by_params p1x p1y o1x o1y Lx1 al be 0); auto; lra).
        destruct (divc cfg s s1 se2 other2 p2x p2y o2x o2y p1x p1y S E Cv M2 O2 Lf2 P2 Q2 In1 Dv1) as (E1 & Fl1 & Hl & Cv1).
        destruct (divide_segment_shape NQ cfg s s1 se2 other2 (fpt p1x p1y) W M2 Mo2 Hne2 O2 Dv1)
          as (r & l & i' & _ & _ & _ & _ & _ & _ & A4 & _ & _ & _ & Keep & KeepO).
        unfold other_of. rewrite A4.
        destruct (Hl l A4) as (Ll & Pl & Ol & _).
        unfold point_of. rewrite (Keep other1 Mo1), Q1.
        assert (Ml1 : mapped NQ (sq_st s1) l).
        { destruct (mapped_dec NQ (sq_st s1) l) as [K|K]; [exact K|]. rewrite (getE_unmapped_other _ _ K) in Ol. discriminate. }
        destruct (divide_segment cfg s1 l (fpt o1x o1y)) as [s2|site|] eqn:Dv2; cbn [obind]; [|exact I|exact I].
        cbn [pec].
        assert (H01 : forall k, mapped NQ (sq_st s) k -> mapped NQ (sq_st s1) k /\ e_left (getE (sq_st s1) k) = e_left (getE (sq_st s) k))
          by (intros k Mk; split; [apply G1, Mk | apply Fl1, Mk]).
        assert (PTr : e_point (getE (sq_st s1) other2) = fpt o2x o2y) by (rewrite (Keep other2 Mo2); exact Q2).
        assert (Hin : strictly_inside p1x p1y o2x o2y o1x o1y) by (apply (inside_by_params p1x p1y o1x o1y Lx1 0 be 1); auto; lra).
        exact (pec_step cfg (sq_st s) s1 s2 l other2 p1x p1y o2x o2y o1x o1y S1 E1 H01 Cv1 Ml1 Ol Ll Pl PTr Hin Dv2).
      * (* 0 < al, be < 1: the first segment contains the second *)
        apply (ev_lt_lex_false (sq_st s) se1 se2 p1x p1y p2x p2y P1 P2 LC) in C1.
        apply (lexlt_params p1x p1y o1x o1y Lx1 0 al p1x p1y p2x p2y Pp1 Pp2) in C1.
        apply (ev_lt_lex (sq_st s) other1 other2 o1x o1y o2x o2y Q1 Q2 RC) in C2.
        apply (lexlt_params p1x p1y o1x o1y Lx1 be 1 o2x o2y o1x o1y Po2 Po1) in C2.
        rewrite Pos.eqb_refl. cbn [negb].
        rewrite P2.
        pose proof (divide_segment_inv NQ cfg s se1 (fpt p2x p2y) S M1) as DI.
        destruct (divide_segment cfg s se1 (fpt p2x p2y)) as [s1|site|] eqn:Dv1; cbn [obind]; [|exact I|exact I].
        destruct DI as [S1 G1].
        assert (In1 : strictly_inside p1x p1y o1x o1y p2x p2y) by (apply (inside_by_params p1x p1y o1x o1y Lx1 0 1 al); auto; lra).
        destruct (divc cfg s s1 se1 other1 p1x p1y o1x o1y p2x p2y S E Cv M1 O1 Lf1 P1 Q1 In1 Dv1) as (E1 & Fl1 & Hl & Cv1).
        destruct (divide_segment_shape NQ cfg s s1 se1 other1 (fpt p2x p2y) W M1 Mo1 Hne1 O1 Dv1)
          as (r & l & i' & _ & _ & _ & _ & _ & _ & A4 & _ & _ & _ & Keep & KeepO).
        unfold other_of. rewrite A4.
        destruct (Hl l A4) as (Ll & Pl & Ol & _).
        unfold point_of. rewrite (Keep other2 Mo2), Q2.
        assert (Ml1 : mapped NQ (sq_st s1) l).
        { destruct (mapped_dec NQ (sq_st s1) l) as [K|K]; [exact K|]. rewrite (getE_unmapped_other _ _ K) in Ol. discriminate. }
        destruct (divide_segment cfg s1 l (fpt o2x o2y)) as [s2|site|] eqn:Dv2; cbn [obind]; [|exact I|exact I].
        cbn [pec].
        assert (H01 : forall k, mapped NQ (sq_st s) k -> mapped NQ (sq_st s1) k /\ e_left (getE (sq_st s1) k) = e_left (getE (sq_st s) k))
          by (intros k Mk; split; [apply G1, Mk | apply Fl1, Mk]).
        assert (PTr : e_point (getE (sq_st s1) other1) = fpt o1x o1y) by (rewrite (Keep other1 Mo1); exact Q1).
        assert (Hin : strictly_inside p2x p2y o1x o1y o2x o2y) by (apply (inside_by_params p1x p1y o1x o1y Lx1 al 1 be); auto; lra).
        exact (pec_step cfg (sq_st s) s1 s2 l other1 p2x p2y o1x o1y o2x o2y S1 E1 H01 Cv1 Ml1 Ol Ll Pl PTr Hin Dv2).
      * (* 0 < al, 1 < be: partial overlap, se1 first *)
        apply (ev_lt_lex_false (sq_st s) se1 se2 p1x p1y p2x p2y P1 P2 LC) in C1.
        apply (lexlt_params p1x p1y o1x o1y Lx1 0 al p1x p1y p2x p2y Pp1 Pp2) in C1.
        apply (ev_lt_lex_false (sq_st s) other1 other2 o1x o1y o2x o2y Q1 Q2 RC) in C2.
        apply (lexlt_params p1x p1y o1x o1y Lx1 1 be o1x o1y o2x o2y Po1 Po2) in C2.
        rewrite (proj2 (Pos.eqb_neq se1 se2) (not_eq_sym N21')). cbn [negb].
        rewrite P2.
        pose proof (divide_segment_inv NQ cfg s se1 (fpt p2x p2y) S M1) as DI.
        destruct (divide_segment cfg s se1 (fpt p2x p2y)) as [s1|site|] eqn:Dv1; cbn [obind]; [|exact I|exact I].
        destruct DI as [S1 G1].
        assert (In1 : strictly_inside p1x p1y o1x o1y p2x p2y) by (apply (inside_by_params p1x p1y o1x o1y Lx1 0 1 al); auto; lra).
        destruct (divc cfg s s1 se1 other1 p1x p1y o1x o1y p2x p2y S E Cv M1 O1 Lf1 P1 Q1 In1 Dv1) as (E1 & Fl1 & _ & Cv1).
        destruct (divide_segment_shape NQ cfg s s1 se1 other1 (fpt p2x p2y) W M1 Mo1 Hne1 O1 Dv1)
          as (r & l & i' & _ & _ & _ & _ & _ & _ & _ & _ & _ & _ & Keep & KeepO).
        unfold point_of. rewrite (Keep other1 Mo1), Q1.
        destruct (divide_segment cfg s1 se2 (fpt o1x o1y)) as [s2|site|] eqn:Dv2; cbn [obind]; [|exact I|exact I].
        cbn [pec].
        assert (H01 : forall k, mapped NQ (sq_st s) k -> mapped NQ (sq_st s1) k /\ e_left (getE (sq_st s1) k) = e_left (getE (sq_st s) k))
          by (intros k Mk; split; [apply G1, Mk | apply Fl1, Mk]).
        assert (OT : e_other (getE (sq_st s1) se2) = Some other2) by (rewrite (KeepO se2 M2 N21' N2o); exact O2).
        assert (LT : e_left (getE (sq_st s1) se2) = true) by (rewrite (Fl1 se2 M2); exact Lf2).
        assert (PT : e_point (getE (sq_st s1) se2) = fpt p2x p2y) by (rewrite (Keep se2 M2); exact P2).
        assert (PTr : e_point (getE (sq_st s1) other2) = fpt o2x o2y) by (rewrite (Keep other2 Mo2); exact Q2).
        assert (Hin : strictly_inside p2x p2y o2x o2y o1x o1y) by (apply (inside_by_params p1x p1y o1x o1y Lx1 al be 1); auto; lra).
        exact (pec_step cfg (sq_st s) s1 s2 se2 other2 p2x p2y o2x o2y o1x o1y S1 E1 H01 Cv1 (G1 _ M2) OT LT PT PTr Hin Dv2).
Qed.



(** ** the sweep *)
Definition sqc (st0 : store) (x : sq NQ) : Prop := sq2 edges st0 x /\ cov (sq_st x).

Lemma compute_fields_cov cfg (st : store) ev mp op : mapped NQ st ev -> cov st -> cov (compute_fields cfg st ev mp op).
Proof.
  intros M P. unfold compute_fields.
  apply cov_upd; [apply ke_set_rt | |].
  - destruct mp as [prev|];
      repeat match goal with
             | |- context [if ?c then _ else _] => destruct c
             | |- context [match ?c with Some _ => _ | None => _ end] => destruct c
             end; rewrite ?mapped_upd; auto.
  - destruct mp as [prev|].
    + repeat match goal with
             | |- context [if ?c then _ else _] => destruct c
             | |- context [match ?c with Some _ => _ | None => _ end] => destruct c
             end;
        (apply cov_upd; [apply ke_set_prev | rewrite ?mapped_upd; auto |]);
        (apply cov_upd; [apply ke_set_in_out | exact M | exact P]).
    + apply cov_upd; [apply ke_set_prev | rewrite ?mapped_upd; auto |].
      apply cov_upd; [apply ke_set_in_out | exact M | exact P].
Qed.

Lemma compute_fields_sqc cfg st0 (x : sq NQ) ev mp op :
  sqc st0 x -> mapped NQ (sq_st x) ev -> sqc st0 (mkSQ (compute_fields cfg (sq_st x) ev mp op) (sq_q x)).
Proof.
  intros (S2 & Cv) M. split; [now apply (compute_fields_sq2 edges)|]. cbn [sq_st]. now apply compute_fields_cov.
Qed.

Lemma pi_sqc cfg st0 (x : sq NQ) (a b : eid) :
  sqc st0 x -> mapped NQ (sq_st x) a -> mapped NQ (sq_st x) b ->
  e_left (getE (sq_st x) a) = true -> e_left (getE (sq_st x) b) = true ->
  match possible_intersection cfg x a b with
  | Ok (x', _) => sqc st0 x'
  | _ => True
  end.
Proof.
  intros ((S & E & G & F) & Cv) Ma Mb La Lb.
  pose proof (possible_intersection_inv NQ cfg x a b S Ma Mb) as PG.
  pose proof (possible_intersection_pec cfg x a b S E Cv Ma Mb La Lb) as PE.
  destruct (possible_intersection cfg x a b) as [[x' code]|site|]; [|exact I|exact I].
  destruct PG as [S' G']. destruct PE as (E' & F' & Cv').
  split; [|exact Cv'].
  split; [exact S'|]. split; [exact E'|]. split; [eapply grows_trans; eauto|].
  eapply FP_trans; eauto.
Qed.

Definition okec (st0 : store) (keys0 : list eid) (r : outcome (sweep NQ)) : Prop :=
  match r with
  | Ok s' => einv2 edges (sw_st s') /\ FP st0 (sw_st s') /\ (forall k, In k (slkeys (sw_sl s')) -> In k keys0)
             /\ cov (sw_st s')
  | _ => True
  end.

Definition keys_left (st : store) (ks : list eid) : Prop := forall k, In k ks -> e_left (getE st k) = true.

Theorem handle_left_ec cfg (s : sweep NQ) (ev : eid) (op : operation) :
  swinv NQ s -> einv2 edges (sw_st s) -> cov (sw_st s) -> keys_left (sw_st s) (slkeys (sw_sl s)) ->
  mapped NQ (sw_st s) ev -> e_left (getE (sw_st s) ev) = true ->
  okec (sw_st s) (ev :: slkeys (sw_sl s)) (handle_left cfg s ev op).
Proof.
  intros (S & Q & A & B) P Cv0 KL Mev Lev. unfold handle_left.
  set (st := sw_st s) in *.
  set (sl1 := sl_insert st (sw_sl s) ev).
  assert (K1 : forall k, In k (slkeys sl1) -> In k (ev :: slkeys (sw_sl s))).
  { intros k Hk. apply sl_insert_keys in Hk. destruct Hk as [->|Hk]; [now left | now right]. }
  assert (A1 : all_mapped NQ st (slkeys sl1)).
  { intros k Hk. destruct (K1 k Hk) as [<-|Hk']; auto. }
  assert (KL1 : keys_left st (slkeys sl1)).
  { intros k Hk. destruct (K1 k Hk) as [<-|Hk']; auto. }
  destruct (sl_prev_spec NQ st sl1 ev) as [Kp Ip].
  destruct (sl_prev st sl1 ev) as [sl2 maybe_prev]. cbn [fst snd] in Kp, Ip.
  destruct (sl_next_spec NQ st sl2 ev) as [Kn In_].
  destruct (sl_next st sl2 ev) as [sl3 maybe_next]. cbn [fst snd] in Kn, In_.
  assert (Kprev : forall p, maybe_prev = Some p -> In p (slkeys sl1)) by (intros p Hp; apply Ip, Hp).
  assert (Knext : forall p, maybe_next = Some p -> In p (slkeys sl1)) by (intros p Hp; rewrite <- Kp; apply In_, Hp).
  assert (K3 : forall k, In k (slkeys sl3) -> In k (ev :: slkeys (sw_sl s))) by (intros k Hk; apply K1; rewrite <- Kp, <- Kn; exact Hk).
  assert (X0 : sqc st (mkSQ st (sw_q s))).
  { split; [|exact Cv0]. split; [split; assumption|]. split; [exact P|]. split; [apply grows_refl | apply FP_refl]. }
  pose proof (compute_fields_sqc cfg st (mkSQ st (sw_q s)) ev maybe_prev op X0 Mev) as X1.
  cbn [sq_st sq_q] in X1.
  set (x1 := mkSQ (compute_fields cfg st ev maybe_prev op) (sw_q s)) in *.
  (* facts about events of the original store in any good later state *)
  assert (Use : forall x k, sqc st x -> mapped NQ st k -> e_left (getE st k) = true ->
                 mapped NQ (sq_st x) k /\ e_left (getE (sq_st x) k) = true).
  { intros x k ((_ & _ & G & F) & _) Mk Lk. split; [apply G, Mk | rewrite (F k Mk); exact Lk]. }
  assert (Step1 : match
            (match maybe_next with
             | Some next =>
                 obind (possible_intersection cfg x1 ev next) (fun r =>
                 let '(x, code) := r in
                 if Nat.eqb code 2 then
                   let st_a := compute_fields cfg (sq_st x) ev maybe_prev op in
                   let st_b := compute_fields cfg st_a next (Some ev) op in
                   Ok (mkSQ st_b (sq_q x))
                 else Ok x)
             | None => Ok x1
             end) with
          | Ok x2 => sqc st x2
          | _ => True
          end).
  { destruct maybe_next as [next|]; [|exact X1].
    assert (Mn : mapped NQ st next) by (apply A1, Knext; reflexivity).
    assert (Ln : e_left (getE st next) = true) by (apply KL1, Knext; reflexivity).
    destruct (Use x1 ev X1 Mev Lev) as [Me1 Le1]. destruct (Use x1 next X1 Mn Ln) as [Mn1 Ln1].
    pose proof (pi_sqc cfg st x1 ev next X1 Me1 Mn1 Le1 Ln1) as PP.
    destruct (possible_intersection cfg x1 ev next) as [[x code]| site |]; cbn [obind]; [|exact I|exact I].
    destruct (Nat.eqb code 2); [|exact PP].
    destruct (Use x ev PP Mev Lev) as [Me _].
    pose proof (compute_fields_sqc cfg st x ev maybe_prev op PP Me) as Sa.
    destruct (Use _ next Sa Mn Ln) as [Mna _].
    exact (compute_fields_sqc cfg st _ next (Some ev) op Sa Mna). }
  destruct (match maybe_next with Some next => _ | None => Ok x1 end) as [x2| site |]; cbn [obind]; try exact I.
  destruct maybe_prev as [prev|].
  - assert (Mp : mapped NQ st prev) by (apply A1, Kprev; reflexivity).
    assert (Lp : e_left (getE st prev) = true) by (apply KL1, Kprev; reflexivity).
    destruct (Use x2 ev Step1 Mev Lev) as [Me2 Le2]. destruct (Use x2 prev Step1 Mp Lp) as [Mp2 Lp2].
    pose proof (pi_sqc cfg st x2 prev ev Step1 Mp2 Me2 Lp2 Le2) as PP.
    destruct (possible_intersection cfg x2 prev ev) as [[x code]| site |]; cbn [obind]; try exact I.
    destruct (Nat.eqb code 2).
    + destruct (sl_prev_spec NQ (sq_st x) sl3 prev) as [Kp4 _].
      destruct (sl_prev (sq_st x) sl3 prev) as [sl4 mpp]. cbn [fst] in Kp4.
      destruct (Use x prev PP Mp Lp) as [Mpx _].
      pose proof (compute_fields_sqc cfg st x prev mpp op PP Mpx) as Sa.
      destruct (Use _ ev Sa Mev Lev) as [Mea _].
      pose proof (compute_fields_sqc cfg st _ ev (Some prev) op Sa Mea) as ((_ & Eb & _ & Fb) & Cvb).
      cbn [okec with_sq sw_st sw_sl sq_st]. split; [exact Eb|]. split; [exact Fb|]. split; [|exact Cvb].
      intros k Hk. apply K3. rewrite <- Kp4. exact Hk.
    + destruct PP as ((_ & Ex & _ & Fx) & Cvx). cbn [okec with_sq sw_st sw_sl]. split; [exact Ex|]. split; [exact Fx|]. split; [exact K3 | exact Cvx].
  - destruct Step1 as ((_ & Ex & _ & Fx) & Cvx). cbn [okec with_sq sw_st sw_sl]. split; [exact Ex|]. split; [exact Fx|]. split; [exact K3 | exact Cvx].
Qed.

Theorem handle_right_ec cfg (s : sweep NQ) (other : eid) :
  swinv NQ s -> einv2 edges (sw_st s) -> cov (sw_st s) -> keys_left (sw_st s) (slkeys (sw_sl s)) ->
  okec (sw_st s) (slkeys (sw_sl s)) (handle_right cfg s other).
Proof.
  intros (S & Q & A & B) P Cv0 KL. unfold handle_right.
  set (st := sw_st s) in *.
  pose proof (sl_contains_keys NQ st (sw_sl s) other) as Kc.
  destruct (sl_contains st (sw_sl s) other) as [sl1 present]. cbn [fst] in Kc.
  destruct (c_debug cfg && negb present); [exact I|].
  assert (Good : forall sl', (forall k, In k (slkeys sl') -> In k (slkeys (sw_sl s))) ->
            okec st (slkeys (sw_sl s)) (Ok (mkSweep st (sw_q s) sl' (sw_sorted s)))).
  { intros sl' Hk. cbn. split; [exact P|]. split; [apply FP_refl|]. split; [exact Hk | exact Cv0]. }
  destruct present; [|apply Good; intros k Hk; rewrite <- Kc; exact Hk].
  destruct (sl_prev_spec NQ st sl1 other) as [Kp Ip].
  destruct (sl_prev st sl1 other) as [sl2 maybe_prev]. cbn [fst snd] in Kp, Ip.
  destruct (sl_next_spec NQ st sl2 other) as [Kn In_].
  destruct (sl_next st sl2 other) as [sl3 maybe_next]. cbn [fst snd] in Kn, In_.
  assert (K3 : forall k, In k (slkeys sl3) -> In k (slkeys (sw_sl s))) by (intros k Hk; rewrite <- Kc, <- Kp, <- Kn; exact Hk).
  assert (X0 : sqc st (mkSQ st (sw_q s))).
  { split; [|exact Cv0]. split; [split; assumption|]. split; [exact P|]. split; [apply grows_refl | apply FP_refl]. }
  assert (Fin : forall x, sqc st x -> okec st (slkeys (sw_sl s)) (Ok (with_sq s x (sl_remove (sq_st x) sl3 other)))).
  { intros x ((_ & Ex & _ & Fx) & Cvx). cbn [okec with_sq sw_st sw_sl]. split; [exact Ex|]. split; [exact Fx|].
    split; [|exact Cvx].
    intros k Hk. apply sl_remove_keys in Hk. now apply K3. }
  destruct maybe_prev as [prev|]; [|cbn [obind]; now apply Fin].
  destruct maybe_next as [next|]; [|cbn [obind]; now apply Fin].
  assert (Hp : In prev (slkeys (sw_sl s))) by (rewrite <- Kc; apply Ip; reflexivity).
  assert (Hn : In next (slkeys (sw_sl s))) by (rewrite <- Kc, <- Kp; apply In_; reflexivity).
  pose proof (pi_sqc cfg st (mkSQ st (sw_q s)) prev next X0 (A _ Hp) (A _ Hn) (KL _ Hp) (KL _ Hn)) as PP.
  destruct (possible_intersection cfg (mkSQ st (sw_q s)) prev next) as [[x code]| site |]; cbn [obind fst]; try exact I.
  now apply Fin.
Qed.

Theorem sweep_loop_ec cfg : forall (fuel : nat) (s : sweep NQ) sbbox cbbox rightbound op,
  swinv NQ s -> einv2 edges (sw_st s) -> cov (sw_st s) -> keys_left (sw_st s) (slkeys (sw_sl s)) ->
  match sweep_loop cfg fuel s sbbox cbbox rightbound op with
  | Ok s' => cov (sw_st s')
  | _ => True
  end.
Proof.
  induction fuel as [|f IH]; intros s sbbox cbbox rightbound op Hs P Cv0 KL; cbn [sweep_loop].
  - destruct (qpop (sw_st s) (sw_q s)); [exact I | exact Cv0].
  - destruct (qpop (sw_st s) (sw_q s)) as [[ev q']|] eqn:Hp; [|exact Cv0].
    pose proof Hs as (S & Q & A & B).
    destruct (qpop_mapped NQ (sw_st s) (sw_st s) (sw_q s) ev q' Q Hp) as [Mev Q'].
    set (s1 := mkSweep (sw_st s) q' (sw_sl s) (ev :: sw_sorted s)).
    assert (S1 : swinv NQ s1).
    { unfold swinv, s1; cbn [sw_st sw_q sw_sl sw_sorted]. repeat split; try tauto.
      - apply S. - apply S. - intros i [<-|Hi]; auto. }
    destruct (negb (c_noshort cfg) && _); [exact Cv0|].
    destruct (e_left (getE (sw_st s) ev)) eqn:Lev.
    + pose proof (handle_left_inv NQ cfg s1 ev op S1 Mev) as G.
      pose proof (handle_left_ec cfg s1 ev op S1 P Cv0 KL Mev Lev) as G2.
      destruct (handle_left cfg s1 ev op) as [s2| site |]; cbn [obind]; try exact I.
      destruct G as [S2 _]. destruct G2 as (E2 & F2 & K2 & Cv2).
      apply (IH s2 sbbox cbbox rightbound op S2 E2 Cv2).
      intros k Hk. cbn [sw_st s1] in F2. destruct (K2 k Hk) as [<-|Hk'].
      * rewrite (F2 ev Mev). exact Lev.
      * rewrite (F2 k (A k Hk')). exact (KL k Hk').
    + destruct (e_other (getE (sw_st s) ev)) as [other|].
      * pose proof (handle_right_inv NQ cfg s1 other S1) as G.
        pose proof (handle_right_ec cfg s1 other S1 P Cv0 KL) as G2.
        destruct (handle_right cfg s1 other) as [s2| site |]; cbn [obind]; try exact I.
        destruct G as [S2 _]. destruct G2 as (E2 & F2 & K2 & Cv2).
        apply (IH s2 sbbox cbbox rightbound op S2 E2 Cv2).
        intros k Hk. specialize (K2 k Hk). cbn [sw_sl s1] in K2. cbn [sw_st s1] in F2.
        rewrite (F2 k (A k K2)). exact (KL k K2).
      * cbn [obind]. apply (IH s1 sbbox cbbox rightbound op S1 P Cv0 KL).
Qed.




End Coverage.

(** ** the edges of the operands, and queue filling *)
Definition coordsq (p : pt NQ) : option (Q * Q) :=
  match px p, py p with QF x, QF y => Some (x, y) | _, _ => None end.
Lemma coordsq_fpt x y : coordsq (fpt x y) = Some (x, y). Proof. reflexivity. Qed.
Lemma coordsq_Some p x y : coordsq p = Some (x, y) -> p = fpt x y.
Proof. destruct p as [[a| | |] [b| | |]]; cbn; intros H; try discriminate. inversion H. reflexivity. Qed.

Fixpoint ring_edge_list (subj : bool) (prev : pt NQ) (rest : list (pt NQ)) : list edge :=
  match rest with
  | [] => []
  | p :: rest' =>
      (match coordsq prev, coordsq p with
       | Some (ax, ay), Some (bx, by_) => [(ax, ay, (bx, by_), subj)]
       | _, _ => []
       end) ++ ring_edge_list subj p rest'
  end.
Definition ring_edges (subj : bool) (r : ring NQ) : list edge :=
  match r with [] => [] | p :: rest => ring_edge_list subj p rest end.
Definition poly_edges (subj : bool) (P : polygon NQ) : list edge :=
  ring_edges subj (exterior P) ++ flat_map (ring_edges subj) (interiors P).
(** all edges of both operands, as [fill_queue] walks them *)
Definition ops_edges (A B : list (polygon NQ)) : list edge :=
  flat_map (poly_edges true) A ++ flat_map (poly_edges false) B.

Definition finite_ring (r : ring NQ) : Prop := forall p, In p r -> exists x y, p = fpt x y.
Definition finite_poly (P : polygon NQ) : Prop :=
  finite_ring (exterior P) /\ forall r, In r (interiors P) -> finite_ring r.

Lemma ring_from_ok_of_list edges subj : forall rest prev,
  (exists x y, prev = fpt x y) -> finite_ring rest ->
  incl (ring_edge_list subj prev rest) edges -> ring_from_ok edges subj prev rest.
Proof.
  induction rest as [|p rest IH]; intros prev Hp Hf Hi; cbn [ring_from_ok]; [exact I|].
  destruct Hp as (ax & ay & ->). destruct (Hf p (or_introl eq_refl)) as (bx & by_ & ->).
  cbn [ring_edge_list] in Hi. rewrite !coordsq_fpt in Hi. split.
  - exists ax, ay, bx, by_. repeat split; auto. apply Hi. now left.
  - apply IH; [eauto | intros q Hq; apply Hf; now right | intros e He; apply Hi; right; exact He].
Qed.

Lemma poly_ok_of_edges edges subj (P : polygon NQ) :
  finite_poly P -> incl (poly_edges subj P) edges -> poly_ok edges subj P.
Proof.
  intros [Fe Fi] Hi. unfold poly_edges in Hi. split.
  - destruct (exterior P) as [|p rest] eqn:E; [exact I|]. cbn [ring_ok].
    apply ring_from_ok_of_list; [apply Fe; now left | intros q Hq; apply Fe; now right |].
    intros e He. apply Hi. apply in_or_app. left. exact He.
  - intros r Hr. destruct r as [|p rest]; [exact I|]. cbn [ring_ok].
    apply ring_from_ok_of_list; [apply (Fi _ Hr); now left | intros q Hq; apply (Fi _ Hr); now right |].
    intros e He. apply Hi. apply in_or_app. right. apply in_flat_map. exists (p :: rest). split; [exact Hr | exact He].
Qed.

Definition nondeg (e : edge) : Prop := let '(ax, ay, (bx, by_), _) := e in ~ qeqp ax ay bx by_.

Lemma cov_weaken (T T' : edge -> Prop) (st : store NQ) : (forall e, T' e -> T e) -> cov T st -> cov T' st.
Proof. intros H C ax ay bx by_ sj Ht. apply C. now apply H. Qed.

(** one edge more *)
Lemma process_edge_cov (T : edge -> Prop) (s : fq NQ) subj cid ext ax ay bx by_ :
  fqinv NQ s -> cov T (fq_st s) ->
  cov (fun e => T e \/ (e = (ax, ay, (bx, by_), subj) /\ nondeg e))
      (fq_st (process_edge s subj cid ext (fpt ax ay) (fpt bx by_))).
Proof.
  intros [[W L] Q] C. unfold process_edge.
  destruct (pt_eq (fpt ax ay) (fpt bx by_)) eqn:Epe.
  - (* a collapsed edge is not a target *)
    apply pt_eq_fpt in Epe. intros cx cy dx dy sj [Ht|[Ee Hn]]; [now apply C|].
    inversion Ee; subst. exfalso. apply Hn. exact Epe.
  - apply pt_eq_fpt_false in Epe.
    destruct (alloc (fq_st s) (new_event cid (fpt ax ay) false None subj ext)) as [st1 e1] eqn:E1.
    destruct (alloc st1 (new_event cid (fpt bx by_) false (Some e1) subj ext)) as [st2 e2] eqn:E2.
    assert (H1 : st1 = fst (alloc (fq_st s) (new_event cid (fpt ax ay) false None subj ext))) by (rewrite E1; reflexivity).
    assert (H2 : st2 = fst (alloc st1 (new_event cid (fpt bx by_) false (Some e1) subj ext))) by (rewrite E2; reflexivity).
    assert (I1 : e1 = st_next (fq_st s)) by (unfold alloc in E1; now inversion E1).
    assert (I2 : e2 = st_next st1) by (unfold alloc in E2; now inversion E2).
    assert (I2' : e2 = Pos.succ e1) by (rewrite I2, H1, next_alloc, I1; reflexivity).
    assert (N12 : e1 <> e2) by (rewrite I2'; lia).
    assert (Fr1 : ~ mapped NQ (fq_st s) e1) by (rewrite I1; now apply fresh_unmapped).
    assert (Fr2 : ~ mapped NQ (fq_st s) e2).
    { intros M. pose proof (W _ M). rewrite I2', I1 in H. lia. }
    assert (G2e1 : getE st2 e1 = new_event cid (fpt ax ay) false None subj ext).
    { rewrite H2, getE_alloc_old by (rewrite <- I2; exact N12). rewrite H1, I1. apply getE_alloc_new. }
    assert (G2e2 : getE st2 e2 = new_event cid (fpt bx by_) false (Some e1) subj ext).
    { rewrite H2, I2. apply getE_alloc_new. }
    assert (G2old : forall k, mapped NQ (fq_st s) k -> getE st2 k = getE (fq_st s) k).
    { intros k Mk. assert (K1 : k <> e1) by (intros ->; contradiction). assert (K2 : k <> e2) by (intros ->; contradiction).
      rewrite H2, getE_alloc_old by (rewrite <- I2; exact K2). rewrite H1, getE_alloc_old by (rewrite <- I1; exact K1). reflexivity. }
    assert (M1 : mapped NQ st2 e1) by (rewrite H2; apply mapped_alloc; right; rewrite H1, I1; apply mapped_alloc; now left).
    assert (Mold : forall k, mapped NQ (fq_st s) k -> mapped NQ st2 k).
    { intros k Mk. rewrite H2. apply mapped_alloc. right. rewrite H1. apply mapped_alloc. now right. }
    set (st3 := upd st2 e1 (fun e => set_other e (Some e2))).
    assert (C3 : cov (fun e => T e \/ (e = (ax, ay, (bx, by_), subj) /\ nondeg e)) st3).
    { intros cx cy dx dy sj [Ht|[Ee _]] x y Hon.
      - destruct (C cx cy dx dy sj Ht x y Hon) as (i & o & lx & ly & rx & ry & Mi & Oi & Si & Pi & Po & K1 & K2 & K3).
        destruct (L i Mi) as (o' & Oi' & _ & Mo & _). assert (o' = o) by congruence. subst o'.
        exists i, o, lx, ly, rx, ry. unfold st3.
        assert (Ni : e1 <> i) by (intros <-; contradiction). assert (No : e1 <> o) by (intros <-; contradiction).
        rewrite !getE_upd_other by assumption. rewrite (G2old i Mi), (G2old o Mo).
        repeat split; auto. apply mapped_upd. right. now apply Mold.
      - inversion Ee; subst cx cy dx dy sj. exists e1, e2, ax, ay, bx, by_. unfold st3.
        rewrite getE_upd_same, getE_upd_other by exact N12. rewrite G2e1, G2e2. cbn.
        repeat split; auto using on_seg_l, on_seg_r. apply mapped_upd. now left. }
    cbn [fq_st]. destruct (ev_lt st3 e1 e2); apply cov_upd; auto using ke_set_left; unfold st3; rewrite !mapped_upd; auto.
    right. rewrite H2, I2. apply mapped_alloc. now left.
Qed.

Definition addl (T : edge -> Prop) (l : list edge) : edge -> Prop := fun e => T e \/ (In e l /\ nondeg e).

Lemma process_ring_from_cov : forall (rest : ring NQ) (T : edge -> Prop) (s : fq NQ) subj cid ext (prev : pt NQ),
  fqinv NQ s -> cov T (fq_st s) -> (exists x y, prev = fpt x y) -> finite_ring rest ->
  cov (addl T (ring_edge_list subj prev rest)) (fq_st (process_ring_from s subj cid ext prev rest)).
Proof.
  induction rest as [|p rest IH]; intros T s subj cid ext prev F C Hp Hf; cbn [process_ring_from ring_edge_list].
  - eapply cov_weaken; [|exact C]. intros e [K|[[] _]]. exact K.
  - destruct Hp as (ax & ay & ->). destruct (Hf p (or_introl eq_refl)) as (bx & by_ & ->).
    rewrite !coordsq_fpt.
    pose proof (process_edge_cov T s subj cid ext ax ay bx by_ F C) as C1.
    pose proof (process_edge_inv NQ s subj cid ext (fpt ax ay) (fpt bx by_) F) as F1.
    specialize (IH _ _ subj cid ext (fpt bx by_) F1 C1 (ex_intro _ bx (ex_intro _ by_ eq_refl)) (fun q Hq => Hf q (or_intror Hq))).
    eapply cov_weaken; [|exact IH].
    intros e [K|[[<-|K] Hn]].
    + left. now left.
    + left. right. split; [reflexivity | exact Hn].
    + right. split; assumption.
Qed.

Lemma process_ring_cov (T : edge -> Prop) (s : fq NQ) (r : ring NQ) subj cid ext :
  fqinv NQ s -> cov T (fq_st s) -> finite_ring r ->
  cov (addl T (ring_edges subj r)) (fq_st (process_ring s r subj cid ext)).
Proof.
  intros F C Hf. destruct r as [|p rest]; cbn [process_ring ring_edges].
  - eapply cov_weaken; [|exact C]. intros e [K|[[] _]]. exact K.
  - apply process_ring_from_cov; [exact F | exact C | apply Hf; now left | intros q Hq; apply Hf; now right].
Qed.

Lemma process_interiors_cov : forall (ints : list (ring NQ)) (T : edge -> Prop) (s : fq NQ) subj cid,
  fqinv NQ s -> cov T (fq_st s) -> (forall r, In r ints -> finite_ring r) ->
  cov (addl T (flat_map (ring_edges subj) ints)) (fq_st (process_interiors s ints subj cid)).
Proof.
  unfold process_interiors. induction ints as [|r ints IH]; intros T s subj cid F C Hf; cbn [fold_left flat_map].
  - eapply cov_weaken; [|exact C]. intros e [K|[[] _]]. exact K.
  - pose proof (process_ring_cov T s r subj cid false F C (Hf r (or_introl eq_refl))) as C1.
    pose proof (process_ring_inv NQ s r subj cid false F) as F1.
    specialize (IH _ _ subj cid F1 C1 (fun r' Hr' => Hf r' (or_intror Hr'))).
    eapply cov_weaken; [|exact IH].
    intros e [K|[K Hn]]; [left; now left|]. apply in_app_or in K. destruct K as [K|K].
    + left. right. split; assumption.
    + right. split; assumption.
Qed.

Lemma fill_subject_cov : forall (ps : list (polygon NQ)) (T : edge -> Prop) (s : fq NQ) cid,
  fqinv NQ s -> cov T (fq_st s) -> (forall P, In P ps -> finite_poly P) ->
  cov (addl T (flat_map (poly_edges true) ps)) (fq_st (fst (fill_subject s cid ps))).
Proof.
  induction ps as [|P ps IH]; intros T s cid F C Hf; cbn [fill_subject flat_map fst].
  - eapply cov_weaken; [|exact C]. intros e [K|[[] _]]. exact K.
  - destruct (Hf P (or_introl eq_refl)) as [Fe Fi].
    pose proof (process_ring_cov T s (exterior P) true (N.succ cid) true F C Fe) as C1.
    pose proof (process_ring_inv NQ s (exterior P) true (N.succ cid) true F) as F1.
    pose proof (process_interiors_cov (interiors P) _ _ true (N.succ cid) F1 C1 Fi) as C2.
    pose proof (process_interiors_inv NQ (interiors P) _ true (N.succ cid) F1) as F2.
    specialize (IH _ _ (N.succ cid) F2 C2 (fun P' HP' => Hf P' (or_intror HP'))).
    eapply cov_weaken; [|exact IH].
    intros e [K|[K Hn]]; [left; left; now left|]. apply in_app_or in K. destruct K as [K|K].
    + unfold poly_edges in K. apply in_app_or in K. destruct K as [K|K].
      * left. left. right. split; assumption.
      * left. right. split; assumption.
    + right. split; assumption.
Qed.

Lemma fill_clipping_cov : forall (ps : list (polygon NQ)) (T : edge -> Prop) (s : fq NQ) cid op,
  fqinv NQ s -> cov T (fq_st s) -> (forall P, In P ps -> finite_poly P) ->
  cov (addl T (flat_map (poly_edges false) ps)) (fq_st (fst (fill_clipping s cid op ps))).
Proof.
  induction ps as [|P ps IH]; intros T s cid op F C Hf; cbn [fill_clipping flat_map fst].
  - eapply cov_weaken; [|exact C]. intros e [K|[[] _]]. exact K.
  - destruct (Hf P (or_introl eq_refl)) as [Fe Fi].
    set (cid' := if negb (operation_eqb op Difference) then N.succ cid else cid).
    set (ext := negb (operation_eqb op Difference)).
    pose proof (process_ring_cov T s (exterior P) false cid' ext F C Fe) as C1.
    pose proof (process_ring_inv NQ s (exterior P) false cid' ext F) as F1.
    pose proof (process_interiors_cov (interiors P) _ _ false cid' F1 C1 Fi) as C2.
    pose proof (process_interiors_inv NQ (interiors P) _ false cid' F1) as F2.
    specialize (IH _ _ cid' op F2 C2 (fun P' HP' => Hf P' (or_intror HP'))).
    eapply cov_weaken; [|exact IH].
    intros e [K|[K Hn]]; [left; left; now left|]. apply in_app_or in K. destruct K as [K|K].
    + unfold poly_edges in K. apply in_app_or in K. destruct K as [K|K].
      * left. left. right. split; assumption.
      * left. right. split; assumption.
    + right. split; assumption.
Qed.

Definition op_target (A B : list (polygon NQ)) : edge -> Prop := fun e => In e (ops_edges A B) /\ nondeg e.

Theorem fill_queue_cov (A B : list (polygon NQ)) (op : operation) :
  (forall P, In P A -> finite_poly P) -> (forall P, In P B -> finite_poly P) ->
  cov (op_target A B) (f_st (fill_queue A B op)).
Proof.
  intros HA HB. unfold fill_queue.
  assert (F0 : fqinv NQ (mkFQ (empty_store NQ) [] (empty_bb NQ))) by (split; [apply empty_store_sinv | intros i []]).
  assert (C0 : cov (fun _ => False) (fq_st (mkFQ (empty_store NQ) [] (empty_bb NQ)))) by (intros ax ay bx by_ sj []).
  pose proof (fill_subject_cov A _ _ 0%N F0 C0 HA) as C1.
  pose proof (fill_subject_inv NQ A (mkFQ (empty_store NQ) [] (empty_bb NQ)) 0%N F0) as F1.
  destruct (fill_subject (mkFQ (empty_store NQ) [] (empty_bb NQ)) 0 A) as [s1 cid]. cbn [fst] in C1, F1.
  assert (F1' : fqinv NQ (mkFQ (fq_st s1) (fq_q s1) (empty_bb NQ))) by exact F1.
  pose proof (fill_clipping_cov B _ (mkFQ (fq_st s1) (fq_q s1) (empty_bb NQ)) cid op F1' C1 HB) as C2.
  destruct (fill_clipping (mkFQ (fq_st s1) (fq_q s1) (empty_bb NQ)) cid op B) as [s2 c2]. cbn [fst] in C2.
  cbn [f_st]. eapply cov_weaken; [|exact C2].
  intros e [K Hn]. unfold ops_edges in K. apply in_app_or in K. destruct K as [K|K].
  - left. right. split; assumption.
  - right. split; assumption.
Qed.

(** C13, coverage clause (exact instance, every input with finite coordinates): after the sweep,
    every point of every non-degenerate edge of an operand lies on a linked event pair of that
    operand that lies on this edge *)
Theorem subdivide_covers cfg fuel (A B : list (polygon NQ)) op (st : store NQ) (sorted : list eid) (n : nat) :
  (forall P, In P A -> finite_poly P) -> (forall P, In P B -> finite_poly P) ->
  subdivide cfg fuel (fill_queue A B op) op = Ok (st, sorted, n) ->
  cov (op_target A B) st.
Proof.
  intros HA HB. unfold subdivide. destruct (fill_queue_inv NQ A B op) as [S0 Q0].
  set (edges := ops_edges A B).
  assert (PA : forall P, In P A -> poly_ok edges true P).
  { intros P HP. apply poly_ok_of_edges; [now apply HA|]. intros e He. unfold edges, ops_edges.
    apply in_or_app. left. apply in_flat_map. exists P. auto. }
  assert (PB : forall P, In P B -> poly_ok edges false P).
  { intros P HP. apply poly_ok_of_edges; [now apply HB|]. intros e He. unfold edges, ops_edges.
    apply in_or_app. right. apply in_flat_map. exists P. auto. }
  pose proof (fill_queue_einv2 edges A B op PA PB) as P0.
  pose proof (fill_queue_cov A B op HA HB) as C0.
  set (s0 := mkSweep _ _ _ _).
  assert (I0 : swinv NQ s0).
  { unfold swinv, s0; cbn [sw_st sw_q sw_sl sw_sorted]. repeat split; try apply S0; try exact Q0; intros i []. }
  assert (KL0 : keys_left (sw_st s0) (keys eid unit (sw_sl s0))) by (intros k []).
  pose proof (sweep_loop_ec edges (op_target A B) cfg fuel s0 (f_sbbox (fill_queue A B op)) (f_cbbox (fill_queue A B op))
                (minX NQ (bb_maxx (f_sbbox (fill_queue A B op))) (bb_maxx (f_cbbox (fill_queue A B op)))) op I0 P0 C0 KL0) as PP.
  destruct (sweep_loop _ _ _ _ _ _ _) as [s| site |]; cbn [obind]; try discriminate.
  intros H; inversion H; subst. exact PP.
Qed.
