(** * The link structure of sweep events is an invariant of the whole sweep (C13, C03).

    For every numeric instance (floats included) and every input: after [fill_queue], and
    after every step of [subdivide], every event of the arena has a partner, the partner's
    partner is the event itself, the two are distinct, and they belong to the same operand
    and contour.  Consequences: the [unwrap] in [possible_intersection.rs] cannot panic, and
    in release builds the sweep stage has no panic site at all (the event budget of the
    verification hook aside). *)
From Coq Require Import Bool List PArith NArith ZArith FMapPositive Permutation Lia.
From GB Require Import Prim Num Event Intersect Cmp Heap Outcome Divide Fields FillQueue Subdivide
  FieldsProofs SortProofs SplayProofs SplayKeys.
From GB Require Splay.
Import ListNotations.


Section Link.
Variable N : Num.
Notation store := (store N).
Notation event := (event N).

(** ** the arena *)
Definition mapped (st : store) (i : eid) : Prop := pfind i (st_map st) <> None.
Definition wf (st : store) : Prop := forall i, mapped st i -> (i < st_next st)%positive.

Lemma mapped_dec (st : store) i : {mapped st i} + {~ mapped st i}.
Proof. unfold mapped. destruct (pfind i (st_map st)); [left; discriminate | right; tauto]. Qed.

Lemma fresh_unmapped (st : store) : wf st -> ~ mapped st (st_next st).
Proof. intros W M. specialize (W _ M). lia. Qed.

Lemma mapped_alloc (st : store) e i : mapped (fst (alloc st e)) i <-> i = st_next st \/ mapped st i.
Proof.
  unfold mapped, alloc; cbn [fst st_map]. rewrite !pfind_eq.
  destruct (Pos.eq_dec i (st_next st)) as [->|Hne].
  - rewrite PositiveMap.gss. split; [now left | discriminate].
  - rewrite PositiveMap.gso by exact Hne. split; [now right | intros [?|?]; [contradiction|assumption]].
Qed.
Lemma getE_alloc_new (st : store) e : getE (fst (alloc st e)) (st_next st) = e.
Proof. unfold getE, alloc; cbn [fst st_map]. now rewrite pfind_eq, PositiveMap.gss. Qed.
Lemma getE_alloc_old (st : store) e i : i <> st_next st -> getE (fst (alloc st e)) i = getE st i.
Proof. intros H. unfold getE, alloc; cbn [fst st_map]. now rewrite !pfind_eq, PositiveMap.gso by exact H. Qed.
Lemma next_alloc (st : store) e : st_next (fst (alloc st e)) = Pos.succ (st_next st).
Proof. reflexivity. Qed.
Lemma snd_alloc (st : store) e : snd (alloc st e) = st_next st.
Proof. reflexivity. Qed.
Lemma wf_alloc (st : store) e : wf st -> wf (fst (alloc st e)).
Proof.
  intros W i M. apply mapped_alloc in M. rewrite next_alloc. destruct M as [->|M]; [lia|].
  specialize (W _ M). lia.
Qed.

Lemma mapped_upd (st : store) j f i : mapped (upd st j f) i <-> i = j \/ mapped st i.
Proof.
  unfold mapped, upd; cbn [st_map]. rewrite !pfind_eq.
  destruct (Pos.eq_dec i j) as [->|Hne].
  - rewrite PositiveMap.gss. split; [now left | discriminate].
  - rewrite PositiveMap.gso by exact Hne. split; [now right | intros [?|?]; [contradiction|assumption]].
Qed.
Lemma mapped_upd_in (st : store) j f i : mapped st j -> (mapped (upd st j f) i <-> mapped st i).
Proof. intros Mj. rewrite mapped_upd. split; [intros [->|?]; assumption | now right]. Qed.
Lemma next_upd (st : store) j f : st_next (upd st j f) = st_next st.
Proof. reflexivity. Qed.
Lemma wf_upd (st : store) j f : mapped st j -> wf st -> wf (upd st j f).
Proof. intros Mj W i M. apply (mapped_upd_in _ _ f _ Mj) in M. rewrite next_upd. now apply W. Qed.

(** ** the invariant *)
Definition partner_ok (st : store) (i o : eid) : Prop :=
  e_other (getE st i) = Some o /\ o <> i /\ mapped st o /\ e_other (getE st o) = Some i
  /\ e_is_subject (getE st o) = e_is_subject (getE st i)
  /\ e_contour_id (getE st o) = e_contour_id (getE st i).
Definition linked (st : store) : Prop := forall i, mapped st i -> exists o, partner_ok st i o.

(** an update that touches neither the link nor the operand nor the contour id *)
Definition keeps (f : event -> event) : Prop :=
  forall e, e_other (f e) = e_other e /\ e_is_subject (f e) = e_is_subject e
            /\ e_contour_id (f e) = e_contour_id e.

Lemma getE_upd_keeps (st : store) j f i : keeps f ->
  e_other (getE (upd st j f) i) = e_other (getE st i)
  /\ e_is_subject (getE (upd st j f) i) = e_is_subject (getE st i)
  /\ e_contour_id (getE (upd st j f) i) = e_contour_id (getE st i).
Proof.
  intros K. destruct (Pos.eq_dec j i) as [->|Hne].
  - rewrite getE_upd_same. apply K.
  - rewrite getE_upd_other by exact Hne. auto.
Qed.

Lemma linked_upd_keeps (st : store) j f : keeps f -> mapped st j -> linked st -> linked (upd st j f).
Proof.
  intros K Mj L i Mi. apply (mapped_upd_in _ _ f _ Mj) in Mi.
  destruct (L i Mi) as (o & H1 & H2 & H3 & H4 & H5 & H6). exists o.
  destruct (getE_upd_keeps st j f i K) as (A1 & A2 & A3).
  destruct (getE_upd_keeps st j f o K) as (B1 & B2 & B3).
  unfold partner_ok. rewrite A1, A2, A3, B1, B2, B3.
  repeat split; try assumption. now apply (mapped_upd_in _ _ f _ Mj).
Qed.

Lemma keeps_set_left b : keeps (fun e : event => set_left e b). Proof. intros e; repeat split. Qed.
Lemma keeps_set_prev o : keeps (fun e : event => set_prev_in_result e o). Proof. intros e; repeat split. Qed.
Lemma keeps_set_edge_type t : keeps (fun e : event => set_edge_type e t). Proof. intros e; repeat split. Qed.
Lemma keeps_set_in_out a b : keeps (fun e : event => set_in_out e a b). Proof. intros e; repeat split. Qed.
Lemma keeps_set_rt r : keeps (fun e : event => set_result_transition e r). Proof. intros e; repeat split. Qed.
Lemma keeps_set_other_pos z : keeps (fun e : event => set_other_pos e z). Proof. intros e; repeat split. Qed.
Lemma keeps_set_occ z : keeps (fun e : event => set_output_contour_id e z). Proof. intros e; repeat split. Qed.

(** the pair of invariants that travels through the sweep *)
Definition sinv (st : store) : Prop := wf st /\ linked st.

Lemma sinv_upd_keeps (st : store) j f : keeps f -> mapped st j -> sinv st -> sinv (upd st j f).
Proof. intros K M [W L]. split; [now apply wf_upd | now apply linked_upd_keeps]. Qed.

(** ** [compute_fields] only touches flags *)
Lemma compute_fields_sinv cfg (st : store) ev mp op : mapped st ev -> sinv st -> sinv (compute_fields cfg st ev mp op).
Proof.
  intros M S. unfold compute_fields.
  apply sinv_upd_keeps; [apply keeps_set_rt | |].
  - destruct mp as [prev|].
    + repeat match goal with
             | |- context [if ?c then _ else _] => destruct c
             | |- context [match ?c with Some _ => _ | None => _ end] => destruct c
             end; repeat (apply mapped_upd; (now left) || right); try exact M;
        rewrite ?mapped_upd; auto.
    + rewrite !mapped_upd; auto.
  - destruct mp as [prev|].
    + repeat match goal with
             | |- context [if ?c then _ else _] => destruct c
             | |- context [match ?c with Some _ => _ | None => _ end] => destruct c
             end;
        (apply sinv_upd_keeps; [apply keeps_set_prev | rewrite ?mapped_upd; auto |]);
        (apply sinv_upd_keeps; [apply keeps_set_in_out | exact M | exact S]).
    + apply sinv_upd_keeps; [apply keeps_set_prev | rewrite ?mapped_upd; auto |].
      apply sinv_upd_keeps; [apply keeps_set_in_out | exact M | exact S].
Qed.
Lemma compute_fields_mapped cfg (st : store) ev mp op i : mapped st ev ->
  (mapped (compute_fields cfg st ev mp op) i <-> mapped st i).
Proof.
  intros M. unfold compute_fields.
  destruct mp as [prev|];
    repeat match goal with
           | |- context [if ?c then _ else _] => destruct c
           | |- context [match ?c with Some _ => _ | None => _ end] => destruct c
           end; rewrite !mapped_upd; intuition (subst; auto).
Qed.


(** ** adding a fresh linked pair / re-linking two partners to two fresh events *)
Lemma linked_extend (st st' : store) (a b : eid) :
  linked st -> a <> b -> ~ mapped st a -> ~ mapped st b ->
  (forall i, mapped st' i <-> i = a \/ i = b \/ mapped st i) ->
  (forall i, mapped st i -> getE st' i = getE st i) ->
  e_other (getE st' a) = Some b -> e_other (getE st' b) = Some a ->
  e_is_subject (getE st' b) = e_is_subject (getE st' a) ->
  e_contour_id (getE st' b) = e_contour_id (getE st' a) ->
  linked st'.
Proof.
  intros L Hab Na Nb HM HG Oa Ob Sab Cab i Mi. apply HM in Mi. destruct Mi as [->|[->|Mi]].
  - exists b. unfold partner_ok. repeat split; auto. apply HM; auto.
  - exists a. unfold partner_ok. repeat split; auto. apply HM; auto.
  - destruct (L i Mi) as (o & H1 & H2 & H3 & H4 & H5 & H6). exists o.
    unfold partner_ok. rewrite (HG i Mi), (HG o H3). repeat split; auto. apply HM; auto.
Qed.

Lemma linked_relink (st st' : store) (x y r l : eid) :
  linked st -> mapped st x -> e_other (getE st x) = Some y ->
  ~ mapped st r -> ~ mapped st l -> r <> l ->
  (forall i, mapped st' i <-> i = r \/ i = l \/ mapped st i) ->
  (forall i, mapped st i -> i <> x -> i <> y ->
     e_other (getE st' i) = e_other (getE st i) /\ e_is_subject (getE st' i) = e_is_subject (getE st i)
     /\ e_contour_id (getE st' i) = e_contour_id (getE st i)) ->
  e_other (getE st' x) = Some r -> e_other (getE st' r) = Some x ->
  e_other (getE st' y) = Some l -> e_other (getE st' l) = Some y ->
  e_is_subject (getE st' x) = e_is_subject (getE st x) ->
  e_is_subject (getE st' y) = e_is_subject (getE st y) ->
  e_is_subject (getE st' r) = e_is_subject (getE st x) ->
  e_is_subject (getE st' l) = e_is_subject (getE st x) ->
  e_contour_id (getE st' x) = e_contour_id (getE st x) ->
  e_contour_id (getE st' y) = e_contour_id (getE st y) ->
  e_contour_id (getE st' r) = e_contour_id (getE st x) ->
  e_contour_id (getE st' l) = e_contour_id (getE st x) ->
  linked st'.
Proof.
  intros L Mx Oxy Nr Nl Hrl HM HG Ox Or Oy Ol Sx Sy Sr Sl Cx Cy Cr Cl.
  destruct (L x Mx) as (y' & P1 & Hyx & My & Oyx & Syx & Cyx).
  rewrite Oxy in P1. inversion P1; subst y'. clear P1.
  assert (Hxr : x <> r) by (intros ->; contradiction).
  assert (Hxl : x <> l) by (intros ->; contradiction).
  assert (Hyr : y <> r) by (intros ->; contradiction).
  assert (Hyl : y <> l) by (intros ->; contradiction).
  intros i Mi. apply HM in Mi.
  destruct (Pos.eq_dec i r) as [->|Hir]; [|destruct (Pos.eq_dec i l) as [->|Hil];
    [|destruct (Pos.eq_dec i x) as [->|Hix]; [|destruct (Pos.eq_dec i y) as [->|Hiy]]]].
  - exists x. unfold partner_ok. rewrite Or, Ox, Sx, Sr, Cx, Cr. repeat split; auto. apply HM; auto.
  - exists y. unfold partner_ok. rewrite Ol, Oy, Sy, Sl, Cy, Cl. repeat split; auto. apply HM; auto.
  - exists r. unfold partner_ok. rewrite Or, Ox, Sx, Sr, Cx, Cr. repeat split; auto. apply HM; auto.
  - exists l. unfold partner_ok. rewrite Ol, Oy, Sy, Sl, Cy, Cl. repeat split; auto. apply HM; auto.
  - assert (Mi' : mapped st i) by (destruct Mi as [?|[?|?]]; [contradiction|contradiction|assumption]).
    destruct (L i Mi') as (o & H1 & H2 & H3 & H4 & H5 & H6).
    assert (Hox : o <> x) by (intros ->; rewrite Oxy in H4; inversion H4; congruence).
    assert (Hoy : o <> y) by (intros ->; rewrite Oyx in H4; inversion H4; congruence).
    destruct (HG i Mi' Hix Hiy) as (A1 & A2 & A3). destruct (HG o H3 Hox Hoy) as (B1 & B2 & B3).
    exists o. unfold partner_ok. rewrite A1, A2, A3, B1, B2, B3. repeat split; auto. apply HM; auto.
Qed.

(** ** the event queue: pushes and pops only permute *)
Definition all_mapped (st : store) (l : list eid) : Prop := forall i, In i l -> mapped st i.

Lemma qpush_mapped (st st' : store) q i :
  all_mapped st' q -> mapped st' i -> all_mapped st' (qpush st q i).
Proof.
  intros A M j Hj. unfold qpush in Hj.
  apply (Permutation_in _ (@push_perm _ (ev_le st) xH q i)) in Hj. destruct Hj as [<-|Hj]; auto.
Qed.
Lemma qpop_mapped (st st' : store) q ev q' :
  all_mapped st' q -> qpop st q = Some (ev, q') -> mapped st' ev /\ all_mapped st' q'.
Proof.
  intros A H. unfold qpop in H. pose proof (@pop_perm _ _ _ _ _ _ H) as P.
  split; [apply A, (Permutation_in _ (Permutation_sym P)); now left|].
  intros j Hj. apply A, (Permutation_in _ (Permutation_sym P)). now right.
Qed.
Lemma all_mapped_mono (st st' : store) l :
  (forall i, mapped st i -> mapped st' i) -> all_mapped st l -> all_mapped st' l.
Proof. intros H A i Hi. auto. Qed.


Ltac name_alloc st1 e1 :=
  match goal with
  | |- context [alloc ?st ?e] =>
      let E := fresh "E" in
      destruct (alloc st e) as [st1 e1] eqn:E;
      let H1 := fresh "Hst" in let H2 := fresh "Hid" in
      assert (H1 : st1 = fst (alloc st e)) by (rewrite E; reflexivity);
      assert (H2 : e1 = st_next st) by (unfold alloc in E; now inversion E);
      clear E
  end.

(** ** [fill_queue] *)
Definition fqinv (s : fq N) : Prop := sinv (fq_st s) /\ all_mapped (fq_st s) (fq_q s).

Lemma process_edge_inv (s : fq N) subj cid ext (a b : pt N) :
  fqinv s -> fqinv (process_edge s subj cid ext a b).
Proof.
  intros [[W L] Q]. unfold process_edge. destruct (pt_eq a b); [now split|].
  name_alloc st1 e1. name_alloc st2 e2.
  set (st3 := upd st2 e1 (fun e => set_other e (Some e2))).
  assert (He12 : e1 <> e2) by (subst; rewrite next_alloc; lia).
  assert (N1 : ~ mapped (fq_st s) e1) by (subst e1; now apply fresh_unmapped).
  assert (N2 : ~ mapped (fq_st s) e2).
  { subst e2 st1. rewrite next_alloc. intros M. specialize (W _ M). lia. }
  assert (M3 : forall i, mapped st3 i <-> i = e1 \/ i = e2 \/ mapped (fq_st s) i).
  { intros i. unfold st3. rewrite mapped_upd. subst st2. rewrite mapped_alloc. subst st1.
    rewrite mapped_alloc. subst e1 e2. rewrite next_alloc. tauto. }
  assert (G3 : forall i, mapped (fq_st s) i -> getE st3 i = getE (fq_st s) i).
  { intros i Mi. unfold st3. rewrite getE_upd_other by (intros ->; contradiction).
    subst st2. rewrite getE_alloc_old by (subst e2; intros ->; contradiction).
    subst st1. rewrite getE_alloc_old by (subst e1; intros ->; contradiction). reflexivity. }
  assert (Ge1 : getE st3 e1 = set_other (new_event cid a false None subj ext) (Some e2)).
  { unfold st3. rewrite getE_upd_same. subst st2. rewrite getE_alloc_old by (subst e2; exact He12).
    subst st1 e1. now rewrite getE_alloc_new. }
  assert (Ge2 : getE st3 e2 = new_event cid b false (Some e1) subj ext).
  { unfold st3. rewrite getE_upd_other by exact He12. subst st2 e2. now rewrite getE_alloc_new. }
  assert (L3 : linked st3).
  { apply (linked_extend (fq_st s) st3 e1 e2 L He12 N1 N2 M3 G3); rewrite ?Ge1, ?Ge2; reflexivity. }
  assert (W3 : wf st3).
  { unfold st3. apply wf_upd; [subst st2; apply mapped_alloc; right; subst st1; apply mapped_alloc; now left|].
    subst st2. apply wf_alloc. subst st1. now apply wf_alloc. }
  set (st4 := if ev_lt st3 e1 e2 then upd st3 e2 (fun e => set_left e true)
              else upd st3 e1 (fun e => set_left e true)).
  assert (Me1 : mapped st3 e1) by (apply M3; auto).
  assert (Me2 : mapped st3 e2) by (apply M3; auto).
  assert (S4 : sinv st4).
  { unfold st4. destruct (ev_lt st3 e1 e2); apply sinv_upd_keeps; auto using keeps_set_left; now split. }
  assert (M4 : forall i, mapped st4 i <-> mapped st3 i).
  { intros i. unfold st4. destruct (ev_lt st3 e1 e2); now apply mapped_upd_in. }
  cbn [fq_st fq_q]. split; [exact S4|].
  apply qpush_mapped; [apply qpush_mapped|]; try (apply M4; assumption).
  intros i Hi. apply M4, M3. right; right. now apply Q.
Qed.

Lemma process_ring_from_inv : forall (rest : ring N) (s : fq N) subj cid ext (prev : pt N),
  fqinv s -> fqinv (process_ring_from s subj cid ext prev rest).
Proof.
  induction rest as [|p rest IH]; intros s subj cid ext prev H; cbn [process_ring_from]; [exact H|].
  apply IH. now apply process_edge_inv.
Qed.
Lemma process_ring_inv (s : fq N) (r : ring N) subj cid ext : fqinv s -> fqinv (process_ring s r subj cid ext).
Proof. intros H. destruct r as [|p rest]; [exact H|]. now apply process_ring_from_inv. Qed.
Lemma process_interiors_inv : forall (ints : list (ring N)) (s : fq N) subj cid,
  fqinv s -> fqinv (process_interiors s ints subj cid).
Proof.
  unfold process_interiors. induction ints as [|r ints IH]; intros s subj cid H; cbn [fold_left]; [exact H|].
  apply IH. now apply process_ring_inv.
Qed.
Lemma fill_subject_inv : forall (ps : list (polygon N)) (s : fq N) cid,
  fqinv s -> fqinv (fst (fill_subject s cid ps)).
Proof.
  induction ps as [|p ps IH]; intros s cid H; cbn [fill_subject]; [exact H|].
  apply IH. apply process_interiors_inv. now apply process_ring_inv.
Qed.
Lemma fill_clipping_inv : forall (ps : list (polygon N)) (s : fq N) cid op,
  fqinv s -> fqinv (fst (fill_clipping s cid op ps)).
Proof.
  induction ps as [|p ps IH]; intros s cid op H; cbn [fill_clipping]; [exact H|].
  apply IH. apply process_interiors_inv. now apply process_ring_inv.
Qed.

Lemma empty_store_sinv : sinv (empty_store N).
Proof.
  split.
  - intros i M. exfalso. apply M. reflexivity.
  - intros i M. exfalso. apply M. reflexivity.
Qed.

Theorem fill_queue_inv (subject clipping : list (polygon N)) (op : operation) :
  sinv (f_st (fill_queue subject clipping op)) /\
  all_mapped (f_st (fill_queue subject clipping op)) (f_q (fill_queue subject clipping op)).
Proof.
  unfold fill_queue.
  pose proof (fill_subject_inv subject (mkFQ (empty_store N) [] (empty_bb N)) 0%N) as H1.
  destruct (fill_subject (mkFQ (empty_store N) [] (empty_bb N)) 0 subject) as [s1 cid].
  cbn [fst] in H1.
  assert (F1 : fqinv s1) by (apply H1; split; [apply empty_store_sinv | intros i []]).
  pose proof (fill_clipping_inv clipping (mkFQ (fq_st s1) (fq_q s1) (empty_bb N)) cid op) as H2.
  destruct (fill_clipping (mkFQ (fq_st s1) (fq_q s1) (empty_bb N)) cid op clipping) as [s2 c2].
  cbn [fst] in H2. cbn [f_st f_q]. apply H2. exact F1.
Qed.


(** ** [divide_segment] *)
Definition sqinv (s : sq N) : Prop := sinv (sq_st s) /\ all_mapped (sq_st s) (sq_q s).
Definition grows (st st' : store) : Prop := forall i, mapped st i -> mapped st' i.

Lemma grows_refl (st : store) : grows st st. Proof. intros i H; exact H. Qed.
Lemma grows_trans (a b c : store) : grows a b -> grows b c -> grows a c.
Proof. intros H1 H2 i H; auto. Qed.

(** the only panics of [divide_segment] are the two debug assertions *)
Definition debug_site (p : panic_site) : Prop :=
  match p with
  | PDebugSweepLineMisses | PDebugDivideNotLeft | PDebugDivideNotBefore
  | PDebugIterationOrder | PDebugLowerContour => True
  | _ => False
  end.

Ltac gE :=
  repeat first
    [ rewrite getE_upd_same
    | rewrite getE_upd_other by (first [assumption | congruence | (intros ?; subst; contradiction)])
    | rewrite getE_alloc_new
    | rewrite getE_alloc_old by (first [assumption | congruence | (intros ?; subst; contradiction)]) ].

Theorem divide_segment_inv cfg (s : sq N) (se_l : eid) (inter : pt N) :
  sqinv s -> mapped (sq_st s) se_l ->
  match divide_segment cfg s se_l inter with
  | Ok s' => sqinv s' /\ grows (sq_st s) (sq_st s')
  | Panic p => c_debug cfg = true /\ debug_site p
  | OutOfFuel => False
  end.
Proof.
  intros [[W L] Q] Ml. unfold divide_segment.
  destruct (c_debug cfg && negb (e_left (getE (sq_st s) se_l))) eqn:D1.
  { apply andb_prop in D1. split; [tauto | exact I]. }
  destruct (L se_l Ml) as (se_r & Olr & Hrl & Mr & Orl & Srl & Crl).
  rewrite Olr.
  set (el := getE (sq_st s) se_l) in *.
  set (inter' := if eqX N (px inter) (px (e_point el)) && ltY N (py inter) (py (e_point el))
                 then mkPt N (next_upX N (px inter)) (py inter) else inter).
  name_alloc st1 r. name_alloc st2 l.
  destruct (c_debug cfg && negb (is_before st2 se_l r)) eqn:D2.
  { apply andb_prop in D2. split; [tauto | exact I]. }
  assert (Hrl' : r <> l) by (subst; rewrite next_alloc; lia).
  assert (Nr : ~ mapped (sq_st s) r) by (subst r; now apply fresh_unmapped).
  assert (Nl : ~ mapped (sq_st s) l).
  { subst l st1. rewrite next_alloc. intros M. specialize (W _ M). lia. }
  assert (Hxr : se_l <> r) by (intros E; rewrite E in Ml; contradiction).
  assert (Hxl : se_l <> l) by (intros E; rewrite E in Ml; contradiction).
  assert (Hyr : se_r <> r) by (intros E; rewrite E in Mr; contradiction).
  assert (Hyl : se_r <> l) by (intros E; rewrite E in Mr; contradiction).
  assert (M2 : forall i, mapped st2 i <-> i = r \/ i = l \/ mapped (sq_st s) i).
  { intros i. subst st2. rewrite mapped_alloc. subst st1. rewrite mapped_alloc. subst r l.
    rewrite next_alloc. tauto. }
  assert (Gr : getE st2 r = new_event (e_contour_id el) inter' false (Some se_l) (e_is_subject el) true).
  { subst st2. rewrite getE_alloc_old by (subst l; exact Hrl'). subst st1 r. now rewrite getE_alloc_new. }
  assert (Gl : getE st2 l = new_event (e_contour_id el) inter' true (Some se_r) (e_is_subject el) true).
  { subst st2 l. now rewrite getE_alloc_new. }
  assert (G2 : forall i, mapped (sq_st s) i -> getE st2 i = getE (sq_st s) i).
  { intros i Mi. subst st2. rewrite getE_alloc_old by (subst l; intros ->; contradiction).
    subst st1. rewrite getE_alloc_old by (subst r; intros ->; contradiction). reflexivity. }
  assert (W2 : wf st2) by (subst st2; apply wf_alloc; subst st1; now apply wf_alloc).
  set (st3 := if negb (is_before st2 l se_r)
              then upd (upd st2 se_r (fun e => set_left e true)) l (fun e => set_left e false)
              else st2).
  set (st4 := upd st3 se_l (fun e => set_other e (Some r))).
  set (st5 := upd st4 se_r (fun e => set_other e (Some l))).
  assert (M3 : forall i, mapped st3 i <-> mapped st2 i).
  { intros i. unfold st3. destruct (negb (is_before st2 l se_r)); [|tauto].
    rewrite !mapped_upd, !M2. intuition (subst; auto). }
  assert (M5 : forall i, mapped st5 i <-> i = r \/ i = l \/ mapped (sq_st s) i).
  { intros i. unfold st5, st4. rewrite !mapped_upd, M3, M2. intuition (subst; auto). }
  assert (W5 : wf st5).
  { intros i Mi. unfold st5, st4. rewrite !next_upd.
    assert (E3 : st_next st3 = st_next st2) by (unfold st3; destruct (negb (is_before st2 l se_r)); reflexivity).
    rewrite E3. apply W2. apply M2. now apply M5. }
  (* the three fields of old events other than the two partners are untouched *)
  assert (G3 : forall i, i <> se_r -> i <> l -> getE st3 i = getE st2 i).
  { intros i H1 H2. unfold st3. destruct (negb (is_before st2 l se_r)); [|reflexivity]. now gE. }
  assert (K3 : forall i, e_other (getE st3 i) = e_other (getE st2 i)
                         /\ e_is_subject (getE st3 i) = e_is_subject (getE st2 i)
                         /\ e_contour_id (getE st3 i) = e_contour_id (getE st2 i)).
  { intros i. unfold st3. destruct (negb (is_before st2 l se_r)); [|auto].
    destruct (getE_upd_keeps (upd st2 se_r (fun e => set_left e true)) l (fun e => set_left e false) i
                (keeps_set_left false)) as (A1 & A2 & A3).
    destruct (getE_upd_keeps st2 se_r (fun e => set_left e true) i (keeps_set_left true)) as (B1 & B2 & B3).
    rewrite A1, A2, A3, B1, B2, B3. auto. }
  assert (L5 : linked st5).
  { apply (linked_relink (sq_st s) st5 se_l se_r r l L Ml Olr Nr Nl Hrl' M5).
    - intros i Mi Hix Hiy. unfold st5, st4. gE.
      assert (Hir : i <> r) by (intros ->; contradiction).
      assert (Hil : i <> l) by (intros ->; contradiction).
      rewrite (G3 i Hiy Hil), (G2 i Mi). auto.
    - unfold st5, st4. gE. reflexivity.
    - unfold st5, st4. gE. rewrite (G3 r (not_eq_sym Hyr) Hrl'), Gr. reflexivity.
    - unfold st5. gE. reflexivity.
    - unfold st5, st4. gE. destruct (K3 l) as (A1 & _ & _). rewrite A1, Gl. reflexivity.
    - unfold st5, st4. gE. cbn. destruct (K3 se_l) as (_ & A2 & _). rewrite A2, (G2 _ Ml). reflexivity.
    - unfold st5, st4. gE. cbn. destruct (K3 se_r) as (_ & A2 & _). rewrite A2, (G2 _ Mr). reflexivity.
    - unfold st5, st4. gE. rewrite (G3 r (not_eq_sym Hyr) Hrl'), Gr. reflexivity.
    - unfold st5, st4. gE. destruct (K3 l) as (_ & A2 & _). rewrite A2, Gl. reflexivity.
    - unfold st5, st4. gE. cbn. destruct (K3 se_l) as (_ & _ & A3). rewrite A3, (G2 _ Ml). reflexivity.
    - unfold st5, st4. gE. cbn. destruct (K3 se_r) as (_ & _ & A3). rewrite A3, (G2 _ Mr). reflexivity.
    - unfold st5, st4. gE. rewrite (G3 r (not_eq_sym Hyr) Hrl'), Gr. reflexivity.
    - unfold st5, st4. gE. destruct (K3 l) as (_ & _ & A3). rewrite A3, Gl. reflexivity. }
  cbn [sq_st sq_q]. split.
  - split; [split; assumption|].
    apply qpush_mapped; [apply qpush_mapped|]; try (apply M5; auto).
    intros i Hi. apply M5. right; right. now apply Q.
  - intros i Mi. apply M5. auto.
Qed.


(** ** [possible_intersection] *)
Definition pgood cfg (st0 : store) (r : outcome (sq N * nat)) : Prop :=
  match r with
  | Ok (s', _) => sqinv s' /\ grows st0 (sq_st s')
  | Panic p => c_debug cfg = true /\ debug_site p
  | OutOfFuel => False
  end.

Lemma obind_divide cfg (st0 : store) (s : sq N) (i : eid) (p : pt N) (k : sq N -> outcome (sq N * nat)) :
  sqinv s -> grows st0 (sq_st s) -> mapped (sq_st s) i ->
  (forall s', sqinv s' -> grows st0 (sq_st s') -> pgood cfg st0 (k s')) ->
  pgood cfg st0 (obind (divide_segment cfg s i p) k).
Proof.
  intros S G M K. pose proof (divide_segment_inv cfg s i p S M) as D.
  destruct (divide_segment cfg s i p) as [s'| site |]; cbn [obind].
  - destruct D as [S' G']. apply K; [exact S' | eapply grows_trans; eauto].
  - exact D.
  - contradiction.
Qed.

Lemma sqinv_set_edge_type (s : sq N) i t :
  sqinv s -> mapped (sq_st s) i ->
  sqinv (mkSQ (upd (sq_st s) i (fun e => set_edge_type e t)) (sq_q s))
  /\ grows (sq_st s) (upd (sq_st s) i (fun e => set_edge_type e t)).
Proof.
  intros [S Q] M. split; [split|].
  - cbn. apply sinv_upd_keeps; auto using keeps_set_edge_type.
  - cbn. intros j Hj. apply mapped_upd_in; auto.
  - intros j Hj. apply mapped_upd_in; auto.
Qed.

Theorem possible_intersection_inv cfg (s : sq N) (se1 se2 : eid) :
  sqinv s -> mapped (sq_st s) se1 -> mapped (sq_st s) se2 ->
  pgood cfg (sq_st s) (possible_intersection cfg s se1 se2).
Proof.
  intros S M1 M2. pose proof S as [[W L] Q].
  assert (Good0 : pgood cfg (sq_st s) (Ok (s, 0))) by (cbn; split; [exact S | apply grows_refl]).
  unfold possible_intersection.
  destruct (L se1 M1) as (other1 & O1 & _ & Mo1 & _).
  destruct (L se2 M2) as (other2 & O2 & _ & Mo2 & _).
  rewrite O1, O2.
  destruct (intersection _ _ _ _) as [|inter|ia ib].
  - exact Good0.
  - destruct (pt_eq _ _ || pt_eq _ _); [exact Good0|].
    destruct (negb (pt_eq (e_point (getE (sq_st s) se1)) inter)
              && negb (pt_eq (point_of (sq_st s) other1) inter)).
    + apply obind_divide; auto using grows_refl. intros s1 S1 G1.
      destruct (negb (pt_eq (e_point (getE (sq_st s) se2)) inter)
                && negb (pt_eq (point_of (sq_st s) other2) inter)).
      * apply obind_divide; auto. intros s2 S2 G2. cbn. auto.
      * cbn. auto.
    + cbn [obind].
      destruct (negb (pt_eq (e_point (getE (sq_st s) se2)) inter)
                && negb (pt_eq (point_of (sq_st s) other2) inter)).
      * apply obind_divide; auto using grows_refl. intros s2 S2 G2. cbn. auto.
      * cbn. split; [exact S | apply grows_refl].
  - destruct (eqb _ _); [exact Good0|].
    assert (T : forall ty,
      sqinv (mkSQ (upd (upd (sq_st s) se2 (fun e => set_edge_type e NonContributing)) se1
                       (fun e => set_edge_type e ty)) (sq_q s))
      /\ grows (sq_st s) (upd (upd (sq_st s) se2 (fun e => set_edge_type e NonContributing)) se1
                              (fun e => set_edge_type e ty))).
    { intros ty. destruct (sqinv_set_edge_type s se2 NonContributing S M2) as [Sa Ga].
      destruct (sqinv_set_edge_type (mkSQ (upd (sq_st s) se2 (fun e => set_edge_type e NonContributing)) (sq_q s))
                  se1 ty Sa (Ga _ M1)) as [Sb Gb].
      cbn [sq_st sq_q] in Sb, Gb. split; [exact Sb | eapply grows_trans; eauto]. }
    destruct (pt_eq (e_point (getE (sq_st s) se1)) (e_point (getE (sq_st s) se2))) eqn:LC;
    destruct (pt_eq (point_of (sq_st s) other1) (point_of (sq_st s) other2)) eqn:RC;
    destruct (ev_lt (sq_st s) se1 se2) eqn:C1; destruct (ev_lt (sq_st s) other1 other2) eqn:C2;
      cbn [app nth_ev nth fst snd negb];
      try match goal with
          | |- context [Pos.eqb ?a ?b] => destruct (Pos.eqb a b)
          end; cbn [negb obind];
      (* left endpoints coincide: edge typing, then at most one division *)
      try (match goal with
           | |- pgood _ _ (Ok (mkSQ (upd (upd _ se2 _) se1 (fun e => set_edge_type e ?ty)) _, 2)) =>
               destruct (T ty) as [Sb Gb]; cbn; split; [exact Sb | exact Gb]
           end);
      try (match goal with
           | |- pgood _ _ (obind (divide_segment _ (mkSQ (upd (upd _ se2 _) se1 (fun e => set_edge_type e ?ty)) _) _ _) _) =>
               destruct (T ty) as [Sb Gb];
               apply obind_divide; [exact Sb | exact Gb | cbn [sq_st]; apply Gb; assumption |];
               intros s3 S3 G3; cbn; auto
           end);
      (* otherwise: one or two divisions of mapped events *)
      try (apply obind_divide; auto using grows_refl; intros s1 S1 G1;
           first
             [ (cbn; auto; fail)
             | (apply obind_divide; auto; intros s2 S2 G2; cbn; auto; fail)
             | (* the unwrap: the partner exists by the invariant *)
               (match goal with
                | |- context [other_of (sq_st s1) ?i] =>
                    let Mi := fresh "Mi" in
                    assert (Mi : mapped (sq_st s1) i) by (apply G1; assumption);
                    destruct S1 as [[W1 L1] Q1];
                    destruct (L1 i Mi) as (o3 & O3 & _ & Mo3 & _);
                    unfold other_of; rewrite O3;
                    apply obind_divide; [split; [split|]; assumption | assumption | assumption |];
                    intros s2 S2 G2; cbn; auto
                end) ]).
Qed.


(** ** the sweep-line status only ever holds mapped events (any comparator) *)
Notation slkeys := (@keys eid unit).

Lemma sl_insert_keys (st : store) sl e k :
  In k (slkeys (sl_insert st sl e)) -> k = e \/ In k (slkeys sl).
Proof. unfold sl_insert. apply insert_keys. Qed.
Lemma sl_remove_keys (st : store) sl e k : In k (slkeys (sl_remove st sl e)) -> In k (slkeys sl).
Proof. unfold sl_remove. apply remove_keys. Qed.
Lemma sl_prev_spec (st : store) sl e :
  slkeys (fst (sl_prev st sl e)) = slkeys sl /\
  (forall p, snd (sl_prev st sl e) = Some p -> In p (slkeys sl)).
Proof.
  unfold sl_prev. pose proof (prev_keys _ _ (compare_segments st) sl e) as K.
  pose proof (prev_in _ _ (compare_segments st) sl e) as I.
  destruct (Splay.prev (compare_segments st) sl e) as [sl' r]. cbn [fst snd] in *. split; [exact K|].
  intros p Hp. destruct r as [x|]; [|discriminate]. inversion Hp; subst. now apply I.
Qed.
Lemma sl_next_spec (st : store) sl e :
  slkeys (fst (sl_next st sl e)) = slkeys sl /\
  (forall p, snd (sl_next st sl e) = Some p -> In p (slkeys sl)).
Proof.
  unfold sl_next. pose proof (next_keys _ _ (compare_segments st) sl e) as K.
  pose proof (next_in _ _ (compare_segments st) sl e) as I.
  destruct (Splay.next (compare_segments st) sl e) as [sl' r]. cbn [fst snd] in *. split; [exact K|].
  intros p Hp. destruct r as [x|]; [|discriminate]. inversion Hp; subst. now apply I.
Qed.
Lemma sl_contains_keys (st : store) sl e : slkeys (fst (sl_contains st sl e)) = slkeys sl.
Proof.
  unfold sl_contains. pose proof (lookup_keys _ _ (compare_segments st) sl e) as K.
  destruct (Splay.lookup (compare_segments st) sl e) as [sl' r]. exact K.
Qed.

(** ** the sweep *)
Definition swinv (s : sweep N) : Prop :=
  sinv (sw_st s) /\ all_mapped (sw_st s) (sw_q s) /\ all_mapped (sw_st s) (slkeys (sw_sl s))
  /\ all_mapped (sw_st s) (sw_sorted s).

Definition swgood cfg (st0 : store) (r : outcome (sweep N)) : Prop :=
  match r with
  | Ok s' => swinv s' /\ grows st0 (sw_st s')
  | Panic p => (c_debug cfg = true /\ debug_site p) \/ p = PEventBudget
  | OutOfFuel => False
  end.

Lemma compute_fields_sq cfg (x : sq N) ev mp op :
  sqinv x -> mapped (sq_st x) ev ->
  sqinv (mkSQ (compute_fields cfg (sq_st x) ev mp op) (sq_q x))
  /\ grows (sq_st x) (compute_fields cfg (sq_st x) ev mp op).
Proof.
  intros [S Q] M. split; [split|].
  - cbn. now apply compute_fields_sinv.
  - cbn. intros i Hi. apply compute_fields_mapped; auto.
  - intros i Hi. apply compute_fields_mapped; auto.
Qed.

Lemma with_sq_inv (s : sweep N) (x : sq N) sl :
  sqinv x -> grows (sw_st s) (sq_st x) ->
  all_mapped (sw_st s) (slkeys sl) -> all_mapped (sw_st s) (sw_sorted s) ->
  swinv (with_sq s x sl) /\ grows (sw_st s) (sw_st (with_sq s x sl)).
Proof.
  intros [S Q] G A1 A2. unfold with_sq, swinv; cbn [sw_st sw_q sw_sl sw_sorted].
  split; [split; [exact S | split; [exact Q | split]] | exact G].
  - intros i Hi. apply G. now apply A1.
  - intros i Hi. apply G. now apply A2.
Qed.

Theorem handle_left_inv cfg (s : sweep N) (ev : eid) (op : operation) :
  swinv s -> mapped (sw_st s) ev -> swgood cfg (sw_st s) (handle_left cfg s ev op).
Proof.
  intros (S & Q & A & B) Mev. unfold handle_left.
  set (st := sw_st s) in *.
  set (sl1 := sl_insert st (sw_sl s) ev).
  assert (A1 : all_mapped st (slkeys sl1)).
  { intros k Hk. apply sl_insert_keys in Hk. destruct Hk as [->|Hk]; auto. }
  destruct (sl_prev_spec st sl1 ev) as [Kp Ip].
  destruct (sl_prev st sl1 ev) as [sl2 maybe_prev]. cbn [fst snd] in Kp, Ip.
  destruct (sl_next_spec st sl2 ev) as [Kn In_].
  destruct (sl_next st sl2 ev) as [sl3 maybe_next]. cbn [fst snd] in Kn, In_.
  assert (A3 : all_mapped st (slkeys sl3)) by (rewrite Kn, Kp; exact A1).
  assert (Mprev : forall p, maybe_prev = Some p -> mapped st p) by (intros p Hp; apply A1, Ip, Hp).
  assert (Mnext : forall p, maybe_next = Some p -> mapped st p).
  { intros p Hp. apply A1. rewrite <- Kp. apply In_, Hp. }
  destruct (compute_fields_sq cfg (mkSQ st (sw_q s)) ev maybe_prev op) as [X1 G1]; [split; assumption | exact Mev|].
  cbn [sq_st sq_q] in X1, G1.
  set (x1 := mkSQ (compute_fields cfg st ev maybe_prev op) (sw_q s)) in *.
  (* first neighbour check *)
  assert (Step1 : match
            (match maybe_next with
             | Some next =>
                 obind (possible_intersection cfg x1 ev next) (fun r =>
                 let '(x, code) := r in
                 if Nat.eqb code 2 then
                   let st_a := compute_fields cfg (sq_st x) ev maybe_prev op in
                   let st_b := compute_fields cfg st_a next (Some ev) op in
                   Ok (mkSQ st_b (sq_q x))
                 else Ok x)
             | None => Ok x1
             end) with
          | Ok x2 => sqinv x2 /\ grows st (sq_st x2)
          | Panic p => c_debug cfg = true /\ debug_site p
          | OutOfFuel => False
          end).
  { destruct maybe_next as [next|]; [|split; assumption].
    pose proof (possible_intersection_inv cfg x1 ev next X1 (G1 _ Mev) (G1 _ (Mnext _ eq_refl))) as P.
    destruct (possible_intersection cfg x1 ev next) as [[x code]| site |]; cbn [obind]; [|exact P|exact P].
    destruct P as [Sx Gx]. cbn [sq_st] in Gx.
    destruct (Nat.eqb code 2).
    - destruct (compute_fields_sq cfg x ev maybe_prev op Sx (Gx _ (G1 _ Mev))) as [Sa Ga].
      cbn [sq_st sq_q] in Sa, Ga.
      destruct (compute_fields_sq cfg (mkSQ (compute_fields cfg (sq_st x) ev maybe_prev op) (sq_q x))
                  next (Some ev) op Sa (Ga _ (Gx _ (G1 _ (Mnext _ eq_refl))))) as [Sb Gb].
      cbn [sq_st sq_q] in Sb, Gb. split; [exact Sb|].
      cbn [sq_st]. intros i Hi. apply Gb, Ga, Gx, G1, Hi.
    - split; [exact Sx | intros i Hi; apply Gx, G1, Hi]. }
  destruct (match maybe_next with Some next => _ | None => Ok x1 end) as [x2| site |]; cbn [obind];
    [|left; exact Step1|contradiction].
  destruct Step1 as [S2 G2].
  destruct maybe_prev as [prev|].
  - pose proof (possible_intersection_inv cfg x2 prev ev S2 (G2 _ (Mprev _ eq_refl)) (G2 _ Mev)) as P.
    destruct (possible_intersection cfg x2 prev ev) as [[x code]| site |]; cbn [obind]; [|left; exact P|exact P].
    destruct P as [Sx Gx].
    destruct (Nat.eqb code 2).
    + destruct (sl_prev_spec (sq_st x) sl3 prev) as [Kpp Ipp].
      destruct (sl_prev (sq_st x) sl3 prev) as [sl4 mpp]. cbn [fst snd] in Kpp, Ipp.
      destruct (compute_fields_sq cfg x prev mpp op Sx (Gx _ (G2 _ (Mprev _ eq_refl)))) as [Sa Ga].
      cbn [sq_st sq_q] in Sa, Ga.
      destruct (compute_fields_sq cfg (mkSQ (compute_fields cfg (sq_st x) prev mpp op) (sq_q x))
                  ev (Some prev) op Sa (Ga _ (Gx _ (G2 _ Mev)))) as [Sb Gb].
      cbn [sq_st sq_q] in Sb, Gb.
      apply with_sq_inv; auto.
      * cbn [sq_st]. intros i Hi. apply Gb, Ga, Gx, G2, Hi.
      * rewrite Kpp. exact A3.
    + apply with_sq_inv; auto. intros i Hi. apply Gx, G2, Hi.
  - apply with_sq_inv; auto.
Qed.


Theorem handle_right_inv cfg (s : sweep N) (other : eid) :
  swinv s -> swgood cfg (sw_st s) (handle_right cfg s other).
Proof.
  intros (S & Q & A & B). unfold handle_right.
  set (st := sw_st s) in *.
  pose proof (sl_contains_keys st (sw_sl s) other) as Kc.
  destruct (sl_contains st (sw_sl s) other) as [sl1 present]. cbn [fst] in Kc.
  destruct (c_debug cfg && negb present) eqn:D.
  { left. apply andb_prop in D. split; [tauto | exact I]. }
  assert (A1 : all_mapped st (slkeys sl1)) by (rewrite Kc; exact A).
  destruct present.
  - destruct (sl_prev_spec st sl1 other) as [Kp Ip].
    destruct (sl_prev st sl1 other) as [sl2 maybe_prev]. cbn [fst snd] in Kp, Ip.
    destruct (sl_next_spec st sl2 other) as [Kn In_].
    destruct (sl_next st sl2 other) as [sl3 maybe_next]. cbn [fst snd] in Kn, In_.
    assert (A3 : all_mapped st (slkeys sl3)) by (rewrite Kn, Kp; exact A1).
    assert (X0 : sqinv (mkSQ st (sw_q s))) by (split; assumption).
    assert (Step : match
              (match maybe_prev, maybe_next with
               | Some prev, Some next =>
                   obind (possible_intersection cfg (mkSQ st (sw_q s)) prev next) (fun r => Ok (fst r))
               | _, _ => Ok (mkSQ st (sw_q s))
               end) with
            | Ok x => sqinv x /\ grows st (sq_st x)
            | Panic p => c_debug cfg = true /\ debug_site p
            | OutOfFuel => False
            end).
    { destruct maybe_prev as [prev|]; [|split; [exact X0 | apply grows_refl]].
      destruct maybe_next as [next|]; [|split; [exact X0 | apply grows_refl]].
      assert (Mp : mapped st prev) by (apply A1, Ip; reflexivity).
      assert (Mn : mapped st next) by (apply A1; rewrite <- Kp; apply In_; reflexivity).
      pose proof (possible_intersection_inv cfg (mkSQ st (sw_q s)) prev next X0 Mp Mn) as P.
      destruct (possible_intersection cfg (mkSQ st (sw_q s)) prev next) as [[x code]| site |]; cbn [obind fst];
        exact P. }
    destruct (match maybe_prev, maybe_next with Some prev, Some next => _ | _, _ => _ end) as [x| site |];
      cbn [obind]; [|left; exact Step|contradiction].
    destruct Step as [Sx Gx].
    apply with_sq_inv; auto.
    intros k Hk. apply sl_remove_keys in Hk. now apply A3.
  - cbn. split; [|apply grows_refl]. unfold swinv; cbn [sw_st sw_q sw_sl sw_sorted]. tauto.
Qed.

Theorem sweep_loop_inv cfg : forall (fuel : nat) (s : sweep N) sbbox cbbox rightbound op,
  swinv s -> swgood cfg (sw_st s) (sweep_loop cfg fuel s sbbox cbbox rightbound op).
Proof.
  induction fuel as [|f IH]; intros s sbbox cbbox rightbound op Hs; cbn [sweep_loop].
  - destruct (qpop (sw_st s) (sw_q s)); [right; reflexivity | split; [exact Hs | apply grows_refl]].
  - destruct (qpop (sw_st s) (sw_q s)) as [[ev q']|] eqn:Hp; [|split; [exact Hs | apply grows_refl]].
    destruct Hs as (S & Q & A & B).
    destruct (qpop_mapped (sw_st s) (sw_st s) (sw_q s) ev q' Q Hp) as [Mev Q'].
    set (s1 := mkSweep (sw_st s) q' (sw_sl s) (ev :: sw_sorted s)).
    assert (S1 : swinv s1).
    { unfold swinv, s1; cbn [sw_st sw_q sw_sl sw_sorted]. repeat split; try tauto.
      - apply S. - apply S. - intros i [<-|Hi]; auto. }
    destruct (negb (c_noshort cfg) && _); [split; [exact S1 | apply grows_refl]|].
    assert (Step : swgood cfg (sw_st s)
              (if e_left (getE (sw_st s) ev) then handle_left cfg s1 ev op
               else match e_other (getE (sw_st s) ev) with
                    | Some other => handle_right cfg s1 other
                    | None => Ok s1
                    end)).
    { destruct (e_left (getE (sw_st s) ev)).
      - apply (handle_left_inv cfg s1 ev op S1 Mev).
      - destruct (e_other (getE (sw_st s) ev)) as [other|].
        + apply (handle_right_inv cfg s1 other S1).
        + split; [exact S1 | apply grows_refl]. }
    destruct (if e_left (getE (sw_st s) ev) then _ else _) as [s2| site |]; cbn [obind]; [|exact Step|exact Step].
    destruct Step as [S2 G2]. specialize (IH s2 sbbox cbbox rightbound op S2).
    destruct (sweep_loop cfg f s2 sbbox cbbox rightbound op) as [s3| site |]; cbn in *; auto.
    destruct IH as [S3 G3]. split; [exact S3 | eapply grows_trans; eauto].
Qed.

(** C13 (first clause, every instance, every input): whatever [subdivide] returns, every
    returned event has a partner whose partner it is, distinct from it, of the same operand
    and contour.  C03: the sweep stage has no panic site in release builds apart from the
    verification hook's event budget — in particular the [unwrap] of
    [possible_intersection.rs] is unreachable. *)
Theorem subdivide_linked cfg fuel (A B : list (polygon N)) op (st : store) (sorted : list eid) (n : nat) :
  subdivide cfg fuel (fill_queue A B op) op = Ok (st, sorted, n) ->
  linked st /\ all_mapped st sorted.
Proof.
  unfold subdivide. destruct (fill_queue_inv A B op) as [S0 Q0].
  set (s0 := mkSweep _ _ _ _).
  assert (I0 : swinv s0).
  { unfold swinv, s0; cbn [sw_st sw_q sw_sl sw_sorted]. repeat split; try apply S0; try exact Q0; intros i []. }
  pose proof (sweep_loop_inv cfg fuel s0 (f_sbbox (fill_queue A B op)) (f_cbbox (fill_queue A B op))
                (minX N (bb_maxx (f_sbbox (fill_queue A B op))) (bb_maxx (f_cbbox (fill_queue A B op)))) op I0) as P.
  destruct (sweep_loop _ _ _ _ _ _ _) as [s| site |]; cbn [obind]; try discriminate.
  intros H. inversion H; subst. destruct P as [(S & Q & A' & B') _]. split; [apply S|].
  intros i Hi. apply B'. now apply in_rev.
Qed.

Theorem subdivide_release_panic_free cfg fuel (A B : list (polygon N)) op site :
  c_debug cfg = false ->
  subdivide cfg fuel (fill_queue A B op) op = Panic site -> site = PEventBudget.
Proof.
  intros Hd. unfold subdivide. destruct (fill_queue_inv A B op) as [S0 Q0].
  set (s0 := mkSweep _ _ _ _).
  assert (I0 : swinv s0).
  { unfold swinv, s0; cbn [sw_st sw_q sw_sl sw_sorted]. repeat split; try apply S0; try exact Q0; intros i []. }
  pose proof (sweep_loop_inv cfg fuel s0 (f_sbbox (fill_queue A B op)) (f_cbbox (fill_queue A B op))
                (minX N (bb_maxx (f_sbbox (fill_queue A B op))) (bb_maxx (f_cbbox (fill_queue A B op)))) op I0) as P.
  destruct (sweep_loop _ _ _ _ _ _ _) as [s| site' |]; cbn [obind]; try discriminate.
  intros H. inversion H; subst. destruct P as [[Hc _]|E]; [congruence | exact E].
Qed.


Corollary subdivide_events_linked cfg fuel (A B : list (polygon N)) op (st : store) (sorted : list eid) (n : nat) :
  subdivide cfg fuel (fill_queue A B op) op = Ok (st, sorted, n) ->
  forall i, In i sorted -> exists o, partner_ok st i o.
Proof. intros H i Hi. destruct (subdivide_linked cfg fuel A B op st sorted n H) as [L M]. apply L, M, Hi. Qed.

Corollary fill_queue_events_linked (A B : list (polygon N)) op :
  forall i, In i (f_q (fill_queue A B op)) -> exists o, partner_ok (f_st (fill_queue A B op)) i o.
Proof. intros i Hi. destruct (fill_queue_inv A B op) as [[W L] Q]. apply L, Q, Hi. Qed.

Corollary possible_intersection_unwrap_safe cfg (s : sq N) (se1 se2 : eid) :
  sqinv s -> mapped (sq_st s) se1 -> mapped (sq_st s) se2 ->
  possible_intersection cfg s se1 se2 <> Panic PUnwrapPossibleIntersection.
Proof.
  intros S M1 M2 H. pose proof (possible_intersection_inv cfg s se1 se2 S M1 M2) as P.
  rewrite H in P. cbn in P. tauto.
Qed.

End Link.
