(** * The intersection step (and the flag computation) never change the event order among the
    events that exist (C15 / C16), exact instance: [possible_intersection_pe5] — every arm of
    the step consists of edge-type updates and of divisions strictly inside a sub-segment, and
    each of these keeps every comparison between existing events ([OrderStable]). *)
From Coq Require Import Bool List PArith NArith QArith Lqa Lia.
From GB Require Import Prim Num NumQ NumLaws NumLawsQ Event Intersect Cmp Heap Outcome Divide Fields FillQueue Subdivide
  IntersectProofs FieldsProofs SplayKeys LinkProofs PiProofs SplitCover EventOrder EventOrderQ OnEdge OnEdgeFull OrderStable.
From GB Require Splay.
Local Open Scope Q_scope.

Section Stable.
Variable edges : list edge.
Notation store := (store NQ).
Notation einv2 := (OnEdgeFull.einv2 edges).
Notation einv2_upd := (OnEdgeFull.einv2_upd edges).
Notation divide_segment_einv2 := (OnEdgeFull.divide_segment_einv2 edges).
Notation pe2_step := (OnEdgeFull.pe2_step edges).

(** the order among the events of [st0] is the same in [st] *)
Definition OS (st0 st : store) : Prop :=
  forall a b, mapped NQ st0 a -> mapped NQ st0 b -> cmp_events st a b = cmp_events st0 a b.

(** updates that keep point, partner, operand and left flag keep every view *)
Lemma view_upd_keeps (st : store) j f k : keeps_e2 f -> view_of (upd st j f) k = view_of st k.
Proof.
  intros K. unfold view_of.
  destruct (getE_upd_keeps_e2 st j f k K) as (A1 & A2 & A3 & A4). rewrite A1, A2, A3, A4.
  destruct (e_other (getE st k)) as [o|]; [|reflexivity].
  unfold point_of. destruct (getE_upd_keeps_e2 st j f o K) as (B1 & _). rewrite B1. reflexivity.
Qed.

Lemma cmp_upd_keeps (st : store) j f a b : keeps_e2 f -> cmp_events (upd st j f) a b = cmp_events st a b.
Proof. intros K. rewrite !cmp_events_view, !view_upd_keeps by exact K. reflexivity. Qed.

Lemma OS_two_types (st : store) j1 t1 j2 t2 :
  OS st (upd (upd st j1 (fun e => set_edge_type e t1)) j2 (fun e => set_edge_type e t2)).
Proof. intros a b _ _. rewrite !cmp_upd_keeps by apply k2_set_edge_type. reflexivity. Qed.

(** the flag computation keeps every view *)
Lemma compute_fields_view cfg (st : store) ev mp op k : view_of (compute_fields cfg st ev mp op) k = view_of st k.
Proof.
  unfold compute_fields.
  rewrite view_upd_keeps by apply k2_set_rt.
  destruct mp as [prev|];
    repeat match goal with
           | |- context [if ?c then _ else _] => destruct c
           | |- context [match ?c with Some _ => _ | None => _ end] => destruct c
           end;
    rewrite ?view_upd_keeps by (first [apply k2_set_prev | apply k2_set_in_out]); reflexivity.
Qed.
Lemma compute_fields_cmp cfg (st : store) ev mp op a b :
  cmp_events (compute_fields cfg st ev mp op) a b = cmp_events st a b.
Proof. rewrite !cmp_events_view, !compute_fields_view. reflexivity. Qed.

Definition pe5 (st0 : store) (r : outcome (sq NQ * nat)) : Prop :=
  match r with
  | Ok (s', _) => einv2 (sq_st s') /\ (forall k, mapped NQ st0 k -> e_left (getE (sq_st s') k) = e_left (getE st0 k)) /\
                  OS st0 (sq_st s')
  | _ => True
  end.

Lemma pe5_step cfg (st0 : store) (s s' : sq NQ) (T Tr : eid) (lx ly rx ry ix iy : Q) :
  sqinv NQ s -> einv2 (sq_st s) ->
  (forall k, mapped NQ st0 k -> mapped NQ (sq_st s) k /\ e_left (getE (sq_st s) k) = e_left (getE st0 k)) ->
  mapped NQ (sq_st s) T -> e_other (getE (sq_st s) T) = Some Tr -> e_left (getE (sq_st s) T) = true ->
  e_point (getE (sq_st s) T) = fpt lx ly -> e_point (getE (sq_st s) Tr) = fpt rx ry ->
  strictly_inside lx ly rx ry ix iy ->
  divide_segment cfg s T (fpt ix iy) = Ok s' ->
  OS st0 (sq_st s) ->
  einv2 (sq_st s') /\ (forall k, mapped NQ st0 k -> e_left (getE (sq_st s') k) = e_left (getE st0 k)) /\ OS st0 (sq_st s').
Proof.
  intros S E H0 MT OT LT PT PTr Hin Hd O0.
  destruct (pe2_step cfg st0 s s' T Tr lx ly rx ry ix iy S E H0 MT OT LT PT PTr Hin Hd) as [E' F'].
  split; [exact E'|]. split; [exact F'|].
  intros a b Ma Mb.
  rewrite (divide_keeps_event_order edges cfg s s' T Tr lx ly rx ry ix iy S E MT OT LT PT PTr Hin Hd a b (proj1 (H0 a Ma)) (proj1 (H0 b Mb))).
  exact (O0 a b Ma Mb).
Qed.

Theorem possible_intersection_pe5 cfg (s : sq NQ) (se1 se2 : eid) :
  sqinv NQ s -> einv2 (sq_st s) -> mapped NQ (sq_st s) se1 -> mapped NQ (sq_st s) se2 ->
  e_left (getE (sq_st s) se1) = true -> e_left (getE (sq_st s) se2) = true ->
  pe5 (sq_st s) (possible_intersection cfg s se1 se2).
Proof.
  intros S E M1 M2 Lf1 Lf2. pose proof S as [[W L] Q].
  assert (Same : forall k, mapped NQ (sq_st s) k -> mapped NQ (sq_st s) k /\ e_left (getE (sq_st s) k) = e_left (getE (sq_st s) k))
    by (intros k Mk; split; [exact Mk | reflexivity]).
  assert (OSrefl : OS (sq_st s) (sq_st s)) by (intros a b _ _; reflexivity).
  assert (Good0 : pe5 (sq_st s) (Ok (s, 0%nat))) by (cbn; split; [exact E | split; [reflexivity | exact OSrefl]]).
  unfold possible_intersection.
  destruct (L se1 M1) as (other1 & O1 & Hne1 & Mo1 & Back1 & _).
  destruct (L se2 M2) as (other2 & O2 & Hne2 & Mo2 & Back2 & _).
  rewrite O1, O2.
  destruct (E se1 other1 M1 O1) as (p1x & p1y & o1x & o1y & a1x & a1y & b1x & b1y & P1 & Q1 & D1 & I1 & S1a & S1b & F1 & Lx1).
  destruct (E se2 other2 M2 O2) as (p2x & p2y & o2x & o2y & a2x & a2y & b2x & b2y & P2 & Q2 & D2 & I2 & S2a & S2b & F2 & Lx2).
  rewrite Lf1 in F1. rewrite Lf2 in F2. cbn [negb] in F1, F2. specialize (Lx1 Lf1). specialize (Lx2 Lf2).
  assert (N2o : se2 <> other1) by (intros K; rewrite K in Lf2; congruence).
  assert (N1o : se1 <> other2) by (intros K; rewrite K in Lf1; congruence).
  unfold point_of. rewrite P1, Q1, P2, Q2.
  assert (Hne : ~ (o1x == p1x /\ o1y == p1y)) by (intros [K1 K2]; apply D1; split; symmetry; assumption).
  pose proof (@intersection_exact_all p1x p1y o1x o1y p2x p2y o2x o2y Hne) as EX.
  destruct (intersection (fpt p1x p1y) (fpt o1x o1y) (fpt p2x p2y) (fpt o2x o2y)) as [|inter|ia ib] eqn:EI.
  - exact Good0.
  - (* one common point *)
    cbn [exact_result] in EX. destruct EX as (x & y & -> & Hon).
    destruct (on_both_seg1 _ _ _ _ _ _ _ _ _ _ Hon) as [On1 On2].
    destruct (pt_eq (fpt p1x p1y) (fpt p2x p2y) || pt_eq (fpt o1x o1y) (fpt o2x o2y)) eqn:Eends; [exact Good0|].
    apply orb_false_iff in Eends. destruct Eends as [Ep Eo].
    assert (N21 : se2 <> se1).
    { intros K. rewrite K in P2. rewrite P1 in P2. apply fpt_inj in P2. destruct P2 as [<- <-].
      apply pt_eq_fpt_false in Ep. apply Ep. split; reflexivity. }
    set (c1 := negb (pt_eq (fpt p1x p1y) (fpt x y)) && negb (pt_eq (fpt o1x o1y) (fpt x y))).
    set (c2 := negb (pt_eq (fpt p2x p2y) (fpt x y)) && negb (pt_eq (fpt o2x o2y) (fpt x y))).
    assert (In1 : c1 = true -> strictly_inside p1x p1y o1x o1y x y).
    { unfold c1. intros K. apply andb_prop in K. destruct K as [K1 K2].
      apply negb_true_iff in K1, K2. apply pt_eq_fpt_false in K1, K2.
      split; [exact On1|]. split; intros K; [apply K1 | apply K2]; now apply qeqp_sym. }
    assert (In2 : c2 = true -> strictly_inside p2x p2y o2x o2y x y).
    { unfold c2. intros K. apply andb_prop in K. destruct K as [K1 K2].
      apply negb_true_iff in K1, K2. apply pt_eq_fpt_false in K1, K2.
      split; [exact On2|]. split; intros K; [apply K1 | apply K2]; now apply qeqp_sym. }
    destruct c1 eqn:C1.
    + pose proof (divide_segment_inv NQ cfg s se1 (fpt x y) S M1) as DI.
      destruct (divide_segment cfg s se1 (fpt x y)) as [s1|site|] eqn:Dv1; cbn [obind]; [|exact I|exact I].
      destruct DI as [S1 G1].
      destruct (divide_segment_einv2 cfg s s1 se1 other1 p1x p1y o1x o1y x y S E M1 O1 Lf1 P1 Q1 (In1 eq_refl) Dv1) as (E1 & Fl1 & _).
        pose proof (divide_keeps_event_order edges cfg s s1 se1 other1 p1x p1y o1x o1y x y S E M1 O1 Lf1 P1 Q1 (In1 eq_refl) Dv1) as OS1.
      destruct c2 eqn:C2.
      * destruct (divide_segment_shape NQ cfg s s1 se1 other1 (fpt x y) W M1 Mo1 Hne1 O1 Dv1)
          as (r & l & i' & _ & _ & _ & _ & _ & _ & _ & _ & _ & _ & Keep & KeepO).
        assert (O2' : e_other (getE (sq_st s1) se2) = Some other2) by (rewrite (KeepO se2 M2 N21 N2o); exact O2).
        assert (P2' : e_point (getE (sq_st s1) se2) = fpt p2x p2y) by (rewrite (Keep se2 M2); exact P2).
        assert (Q2' : e_point (getE (sq_st s1) other2) = fpt o2x o2y) by (rewrite (Keep other2 Mo2); exact Q2).
        destruct (divide_segment cfg s1 se2 (fpt x y)) as [s2|site|] eqn:Dv2; cbn [obind]; [|exact I|exact I].
        cbn [pe5].
        assert (H01 : forall k, mapped NQ (sq_st s) k -> mapped NQ (sq_st s1) k /\ e_left (getE (sq_st s1) k) = e_left (getE (sq_st s) k))
          by (intros k Mk; split; [apply G1, Mk | apply Fl1, Mk]).
        assert (L2' : e_left (getE (sq_st s1) se2) = true) by (rewrite (Fl1 se2 M2); exact Lf2).
        exact (pe5_step cfg (sq_st s) s1 s2 se2 other2 p2x p2y o2x o2y x y S1 E1 H01 (G1 _ M2) O2' L2' P2' Q2' (In2 eq_refl) Dv2 OS1).
      * cbn [obind pe5]. split; [exact E1 | split; [exact Fl1 | exact OS1]].
    + cbn [obind]. destruct c2 eqn:C2.
      * destruct (divide_segment cfg s se2 (fpt x y)) as [s2|site|] eqn:Dv2; cbn [obind]; [|exact I|exact I].
        cbn [pe5]. exact (pe5_step cfg (sq_st s) s s2 se2 other2 p2x p2y o2x o2y x y S E Same M2 O2 Lf2 P2 Q2 (In2 eq_refl) Dv2 OSrefl).
      * cbn [obind]. exact Good0.
  - (* an overlap *)
    destruct (eqb (e_is_subject (getE (sq_st s) se1)) (e_is_subject (getE (sq_st s) se2))); [exact Good0|].
    destruct (overlap_params _ _ _ _ _ _ _ _ _ _ Lx1 Lx2 EI) as (al & be & Hab & Ha1 & Hb0 & X2 & Y2 & X3 & Y3).
    (* the four points by their parameters on the first segment *)
    assert (Pp1 : has_param p1x p1y o1x o1y 0 p1x p1y) by (split; ring).
    assert (Po1 : has_param p1x p1y o1x o1y 1 o1x o1y) by (split; ring).
    assert (Pp2 : has_param p1x p1y o1x o1y al p2x p2y) by (split; assumption).
    assert (Po2 : has_param p1x p1y o1x o1y be o2x o2y) by (split; assumption).
    assert (N21 : pt_eq (fpt p1x p1y) (fpt p2x p2y) = false -> se2 <> se1).
    { intros Ep K. rewrite K in P2. rewrite P1 in P2. apply fpt_inj in P2. destruct P2 as [<- <-].
      apply pt_eq_fpt_false in Ep. apply Ep. split; reflexivity. }
    destruct (pt_eq (fpt p1x p1y) (fpt p2x p2y)) eqn:LC; destruct (pt_eq (fpt o1x o1y) (fpt o2x o2y)) eqn:RC.
    + (* both ends coincide: only edge types change *)
      cbn [negb app obind].
      set (ty := if eqb (e_in_out (getE (sq_st s) se1)) (e_in_out (getE (sq_st s) se2)) then SameTransition else DifferentTransition).
      set (st1 := upd (sq_st s) se2 (fun e => set_edge_type e NonContributing)).
      set (st2 := upd st1 se1 (fun e => set_edge_type e ty)).
      assert (OSst2 : OS (sq_st s) st2) by (apply OS_two_types).
      cbn [pe5 sq_st].
      assert (M1' : mapped NQ st1 se1) by (apply mapped_upd; now right).
      split; [|split; [|exact OSst2]].
      * apply einv2_upd; [apply k2_set_edge_type | exact M1' |].
        apply einv2_upd; [apply k2_set_edge_type | exact M2 | exact E].
      * intros k Mk.
        destruct (getE_upd_keeps_e2 st1 se1 (fun e => set_edge_type e ty) k (k2_set_edge_type ty)) as (_ & _ & _ & A).
        destruct (getE_upd_keeps_e2 (sq_st s) se2 (fun e => set_edge_type e NonContributing) k (k2_set_edge_type NonContributing)) as (_ & _ & _ & B).
        fold st1 in B. fold st2 in A. congruence.
    + (* left ends coincide: the longer segment is divided at the right end of the shorter one *)
      apply pt_eq_fpt in LC. apply pt_eq_fpt_false in RC.
      assert (Al0 : al == 0) by (symmetry; apply (qeqp_params p1x p1y o1x o1y Lx1 0 al p1x p1y p2x p2y Pp1 Pp2); exact LC).
      assert (Be1 : ~ be == 1) by (intros K; apply RC; apply (qeqp_params p1x p1y o1x o1y Lx1 1 be o1x o1y o2x o2y Po1 Po2); symmetry; exact K).
      cbn [negb app].
      set (ty := if eqb (e_in_out (getE (sq_st s) se1)) (e_in_out (getE (sq_st s) se2)) then SameTransition else DifferentTransition).
      set (st1 := upd (sq_st s) se2 (fun e => set_edge_type e NonContributing)).
      set (st2 := upd st1 se1 (fun e => set_edge_type e ty)).
      assert (OSst2 : OS (sq_st s) st2) by (apply OS_two_types).
      assert (K2 : forall k, e_point (getE st2 k) = e_point (getE (sq_st s) k) /\ e_other (getE st2 k) = e_other (getE (sq_st s) k)
                             /\ e_left (getE st2 k) = e_left (getE (sq_st s) k)).
      { intros k.
        destruct (getE_upd_keeps_e2 st1 se1 (fun e => set_edge_type e ty) k (k2_set_edge_type ty)) as (A1 & A2 & _ & A4).
        destruct (getE_upd_keeps_e2 (sq_st s) se2 (fun e => set_edge_type e NonContributing) k (k2_set_edge_type NonContributing)) as (B1 & B2 & _ & B4).
        fold st1 in B1, B2, B4. fold st2 in A1, A2, A4. repeat split; congruence. }
      assert (M1' : mapped NQ st1 se1) by (apply mapped_upd; now right).
      assert (E2' : einv2 st2).
      { apply einv2_upd; [apply k2_set_edge_type | exact M1' |].
        apply einv2_upd; [apply k2_set_edge_type | exact M2 | exact E]. }
      destruct (sqinv_set_edge_type NQ s se2 NonContributing S M2) as [Sa Ga].
      destruct (sqinv_set_edge_type NQ (mkSQ st1 (sq_q s)) se1 ty Sa M1') as [Sb Gb]. cbn [sq_st sq_q] in Sb, Gb. fold st2 in Sb, Gb.
      assert (H0 : forall k, mapped NQ (sq_st s) k -> mapped NQ (sq_st (mkSQ st2 (sq_q s))) k /\ e_left (getE (sq_st (mkSQ st2 (sq_q s))) k) = e_left (getE (sq_st s) k)).
      { intros k Mk. cbn [sq_st]. split; [apply Gb, Ga, Mk | apply K2]. }
      destruct (ev_lt (sq_st s) other1 other2) eqn:C2; cbn [nth_ev nth fst snd].
      * (* o2 before o1: be < 1; se1 is divided at o2 *)
        apply (ev_lt_lex (sq_st s) other1 other2 o1x o1y o2x o2y Q1 Q2 RC) in C2.
        apply (lexlt_params p1x p1y o1x o1y Lx1 be 1 o2x o2y o1x o1y Po2 Po1) in C2.
        unfold point_of. rewrite (proj1 (K2 other2)), Q2.
        destruct (divide_segment cfg (mkSQ st2 (sq_q s)) se1 (fpt o2x o2y)) as [s3|site|] eqn:Dv; cbn [obind]; [|exact I|exact I].
        cbn [pe5].
        assert (Hin : strictly_inside p1x p1y o1x o1y o2x o2y) by (apply (inside_by_params p1x p1y o1x o1y Lx1 0 1 be); auto; lra).
        assert (MT : mapped NQ (sq_st (mkSQ st2 (sq_q s))) se1) by (cbn [sq_st]; apply Gb, Ga, M1).
        assert (OT : e_other (getE (sq_st (mkSQ st2 (sq_q s))) se1) = Some other1) by (cbn [sq_st]; rewrite (proj1 (proj2 (K2 se1))); exact O1).
        assert (LT : e_left (getE (sq_st (mkSQ st2 (sq_q s))) se1) = true) by (cbn [sq_st]; rewrite (proj2 (proj2 (K2 se1))); exact Lf1).
        assert (PT : e_point (getE (sq_st (mkSQ st2 (sq_q s))) se1) = fpt p1x p1y) by (cbn [sq_st]; rewrite (proj1 (K2 se1)); exact P1).
        assert (PTr : e_point (getE (sq_st (mkSQ st2 (sq_q s))) other1) = fpt o1x o1y) by (cbn [sq_st]; rewrite (proj1 (K2 other1)); exact Q1).
        exact (pe5_step cfg (sq_st s) (mkSQ st2 (sq_q s)) s3 se1 other1 p1x p1y o1x o1y o2x o2y Sb E2' H0 MT OT LT PT PTr Hin Dv OSst2).
      * (* o1 before o2: 1 < be; se2 is divided at o1 *)
        apply (ev_lt_lex_false (sq_st s) other1 other2 o1x o1y o2x o2y Q1 Q2 RC) in C2.
        apply (lexlt_params p1x p1y o1x o1y Lx1 1 be o1x o1y o2x o2y Po1 Po2) in C2.
        unfold point_of. rewrite (proj1 (K2 other1)), Q1.
        destruct (divide_segment cfg (mkSQ st2 (sq_q s)) se2 (fpt o1x o1y)) as [s3|site|] eqn:Dv; cbn [obind]; [|exact I|exact I].
        cbn [pe5].
        assert (Hin : strictly_inside p2x p2y o2x o2y o1x o1y) by (apply (inside_by_params p1x p1y o1x o1y Lx1 al be 1); auto; lra).
        assert (MT : mapped NQ (sq_st (mkSQ st2 (sq_q s))) se2) by (cbn [sq_st]; apply Gb, Ga, M2).
        assert (OT : e_other (getE (sq_st (mkSQ st2 (sq_q s))) se2) = Some other2) by (cbn [sq_st]; rewrite (proj1 (proj2 (K2 se2))); exact O2).
        assert (LT : e_left (getE (sq_st (mkSQ st2 (sq_q s))) se2) = true) by (cbn [sq_st]; rewrite (proj2 (proj2 (K2 se2))); exact Lf2).
        assert (PT : e_point (getE (sq_st (mkSQ st2 (sq_q s))) se2) = fpt p2x p2y) by (cbn [sq_st]; rewrite (proj1 (K2 se2)); exact P2).
        assert (PTr : e_point (getE (sq_st (mkSQ st2 (sq_q s))) other2) = fpt o2x o2y) by (cbn [sq_st]; rewrite (proj1 (K2 other2)); exact Q2).
        exact (pe5_step cfg (sq_st s) (mkSQ st2 (sq_q s)) s3 se2 other2 p2x p2y o2x o2y o1x o1y Sb E2' H0 MT OT LT PT PTr Hin Dv OSst2).
    + (* right ends coincide: the earlier segment is divided at the left end of the later one *)
      apply pt_eq_fpt_false in LC. apply pt_eq_fpt in RC.
      assert (Be1 : be == 1) by (symmetry; apply (qeqp_params p1x p1y o1x o1y Lx1 1 be o1x o1y o2x o2y Po1 Po2); exact RC).
      assert (Al0 : ~ al == 0) by (intros K; apply LC; apply (qeqp_params p1x p1y o1x o1y Lx1 0 al p1x p1y p2x p2y Pp1 Pp2); symmetry; exact K).
      cbn [negb app]. rewrite app_nil_r.
      destruct (ev_lt (sq_st s) se1 se2) eqn:C1; cbn [nth_ev nth fst snd].
      * (* p2 before p1: al < 0; se2 is divided at p1 *)
        apply (ev_lt_lex (sq_st s) se1 se2 p1x p1y p2x p2y P1 P2 LC) in C1.
        apply (lexlt_params p1x p1y o1x o1y Lx1 al 0 p2x p2y p1x p1y Pp2 Pp1) in C1.
        unfold point_of. rewrite P1.
        destruct (divide_segment cfg s se2 (fpt p1x p1y)) as [s1|site|] eqn:Dv; cbn [obind]; [|exact I|exact I].
        cbn [pe5].
        assert (Hin : strictly_inside p2x p2y o2x o2y p1x p1y) by (apply (inside_by_params p1x p1y o1x o1y Lx1 al be 0); auto; lra).
        exact (pe5_step cfg (sq_st s) s s1 se2 other2 p2x p2y o2x o2y p1x p1y S E Same M2 O2 Lf2 P2 Q2 Hin Dv OSrefl).
      * apply (ev_lt_lex_false (sq_st s) se1 se2 p1x p1y p2x p2y P1 P2 LC) in C1.
        apply (lexlt_params p1x p1y o1x o1y Lx1 0 al p1x p1y p2x p2y Pp1 Pp2) in C1.
        unfold point_of. rewrite P2.
        destruct (divide_segment cfg s se1 (fpt p2x p2y)) as [s1|site|] eqn:Dv; cbn [obind]; [|exact I|exact I].
        cbn [pe5].
        assert (Hin : strictly_inside p1x p1y o1x o1y p2x p2y) by (apply (inside_by_params p1x p1y o1x o1y Lx1 0 1 al); auto; lra).
        exact (pe5_step cfg (sq_st s) s s1 se1 other1 p1x p1y o1x o1y p2x p2y S E Same M1 O1 Lf1 P1 Q1 Hin Dv OSrefl).
    + (* four distinct ends *)
      apply pt_eq_fpt_false in LC. apply pt_eq_fpt_false in RC.
      assert (Be1 : ~ be == 1) by (intros K; apply RC; apply (qeqp_params p1x p1y o1x o1y Lx1 1 be o1x o1y o2x o2y Po1 Po2); symmetry; exact K).
      assert (Al0 : ~ al == 0) by (intros K; apply LC; apply (qeqp_params p1x p1y o1x o1y Lx1 0 al p1x p1y p2x p2y Pp1 Pp2); symmetry; exact K).
      assert (N21' : se2 <> se1).
      { intros K. rewrite K in P2. rewrite P1 in P2. apply fpt_inj in P2. destruct P2 as [<- <-]. apply LC. split; reflexivity. }
      cbn [negb].
      destruct (ev_lt (sq_st s) se1 se2) eqn:C1; destruct (ev_lt (sq_st s) other1 other2) eqn:C2;
        cbn [app nth_ev nth fst snd].
      * (* al < 0, be < 1: partial overlap, se2 first *)
        apply (ev_lt_lex (sq_st s) se1 se2 p1x p1y p2x p2y P1 P2 LC) in C1.
        apply (lexlt_params p1x p1y o1x o1y Lx1 al 0 p2x p2y p1x p1y Pp2 Pp1) in C1.
        apply (ev_lt_lex (sq_st s) other1 other2 o1x o1y o2x o2y Q1 Q2 RC) in C2.
        apply (lexlt_params p1x p1y o1x o1y Lx1 be 1 o2x o2y o1x o1y Po2 Po1) in C2.
        rewrite (proj2 (Pos.eqb_neq se2 se1) N21'). cbn [negb].
        rewrite P1.
        pose proof (divide_segment_inv NQ cfg s se2 (fpt p1x p1y) S M2) as DI.
        destruct (divide_segment cfg s se2 (fpt p1x p1y)) as [s1|site|] eqn:Dv1; cbn [obind]; [|exact I|exact I].
        destruct DI as [S1 G1].
        assert (In1 : strictly_inside p2x p2y o2x o2y p1x p1y) by (apply (inside_by_params p1x p1y o1x o1y Lx1 al be 0); auto; lra).
        destruct (divide_segment_einv2 cfg s s1 se2 other2 p2x p2y o2x o2y p1x p1y S E M2 O2 Lf2 P2 Q2 In1 Dv1) as (E1 & Fl1 & _).
        pose proof (divide_keeps_event_order edges cfg s s1 se2 other2 p2x p2y o2x o2y p1x p1y S E M2 O2 Lf2 P2 Q2 In1 Dv1) as OS1.
        destruct (divide_segment_shape NQ cfg s s1 se2 other2 (fpt p1x p1y) W M2 Mo2 Hne2 O2 Dv1)
          as (r & l & i' & _ & _ & _ & _ & _ & _ & _ & _ & _ & _ & Keep & KeepO).
        unfold point_of. rewrite (Keep other2 Mo2), Q2.
        destruct (divide_segment cfg s1 se1 (fpt o2x o2y)) as [s2|site|] eqn:Dv2; cbn [obind]; [|exact I|exact I].
        cbn [pe5].
        assert (H01 : forall k, mapped NQ (sq_st s) k -> mapped NQ (sq_st s1) k /\ e_left (getE (sq_st s1) k) = e_left (getE (sq_st s) k))
          by (intros k Mk; split; [apply G1, Mk | apply Fl1, Mk]).
        assert (OT : e_other (getE (sq_st s1) se1) = Some other1) by (rewrite (KeepO se1 M1 (not_eq_sym N21') N1o); exact O1).
        assert (LT : e_left (getE (sq_st s1) se1) = true) by (rewrite (Fl1 se1 M1); exact Lf1).
        assert (PT : e_point (getE (sq_st s1) se1) = fpt p1x p1y) by (rewrite (Keep se1 M1); exact P1).
        assert (PTr : e_point (getE (sq_st s1) other1) = fpt o1x o1y) by (rewrite (Keep other1 Mo1); exact Q1).
        assert (Hin : strictly_inside p1x p1y o1x o1y o2x o2y) by (apply (inside_by_params p1x p1y o1x o1y Lx1 0 1 be); auto; lra).
        exact (pe5_step cfg (sq_st s) s1 s2 se1 other1 p1x p1y o1x o1y o2x o2y S1 E1 H01 (G1 _ M1) OT LT PT PTr Hin Dv2 OS1).
      * (* al < 0, 1 < be: the second segment contains the first *)
        apply (ev_lt_lex (sq_st s) se1 se2 p1x p1y p2x p2y P1 P2 LC) in C1.
        apply (lexlt_params p1x p1y o1x o1y Lx1 al 0 p2x p2y p1x p1y Pp2 Pp1) in C1.
        apply (ev_lt_lex_false (sq_st s) other1 other2 o1x o1y o2x o2y Q1 Q2 RC) in C2.
        apply (lexlt_params p1x p1y o1x o1y Lx1 1 be o1x o1y o2x o2y Po1 Po2) in C2.
        rewrite Pos.eqb_refl. cbn [negb].
        rewrite P1.
        pose proof (divide_segment_inv NQ cfg s se2 (fpt p1x p1y) S M2) as DI.
        destruct (divide_segment cfg s se2 (fpt p1x p1y)) as [s1|site|] eqn:Dv1; cbn [obind]; [|exact I|exact I].
        destruct DI as [S1 G1].
        assert (In1 : strictly_inside p2x p2y o2x o2y p1x p1y) by (apply (inside_by_params p1x p1y o1x o1y Lx1 al be 0); auto; lra).
        destruct (divide_segment_einv2 cfg s s1 se2 other2 p2x p2y o2x o2y p1x p1y S E M2 O2 Lf2 P2 Q2 In1 Dv1) as (E1 & Fl1 & Hl).
        pose proof (divide_keeps_event_order edges cfg s s1 se2 other2 p2x p2y o2x o2y p1x p1y S E M2 O2 Lf2 P2 Q2 In1 Dv1) as OS1.
        destruct (divide_segment_shape NQ cfg s s1 se2 other2 (fpt p1x p1y) W M2 Mo2 Hne2 O2 Dv1)
          as (r & l & i' & _ & _ & _ & _ & _ & _ & A4 & _ & _ & _ & Keep & KeepO).
        unfold other_of. rewrite A4.
        destruct (Hl l A4) as (Ll & Pl & Ol & _).
        unfold point_of. rewrite (Keep other1 Mo1), Q1.
        assert (Ml1 : mapped NQ (sq_st s1) l).
        { destruct (mapped_dec NQ (sq_st s1) l) as [K|K]; [exact K|]. rewrite (getE_unmapped_other _ _ K) in Ol. discriminate. }
        destruct (divide_segment cfg s1 l (fpt o1x o1y)) as [s2|site|] eqn:Dv2; cbn [obind]; [|exact I|exact I].
        cbn [pe5].
        assert (H01 : forall k, mapped NQ (sq_st s) k -> mapped NQ (sq_st s1) k /\ e_left (getE (sq_st s1) k) = e_left (getE (sq_st s) k))
          by (intros k Mk; split; [apply G1, Mk | apply Fl1, Mk]).
        assert (PTr : e_point (getE (sq_st s1) other2) = fpt o2x o2y) by (rewrite (Keep other2 Mo2); exact Q2).
        assert (Hin : strictly_inside p1x p1y o2x o2y o1x o1y) by (apply (inside_by_params p1x p1y o1x o1y Lx1 0 be 1); auto; lra).
        exact (pe5_step cfg (sq_st s) s1 s2 l other2 p1x p1y o2x o2y o1x o1y S1 E1 H01 Ml1 Ol Ll Pl PTr Hin Dv2 OS1).
      * (* 0 < al, be < 1: the first segment contains the second *)
        apply (ev_lt_lex_false (sq_st s) se1 se2 p1x p1y p2x p2y P1 P2 LC) in C1.
        apply (lexlt_params p1x p1y o1x o1y Lx1 0 al p1x p1y p2x p2y Pp1 Pp2) in C1.
        apply (ev_lt_lex (sq_st s) other1 other2 o1x o1y o2x o2y Q1 Q2 RC) in C2.
        apply (lexlt_params p1x p1y o1x o1y Lx1 be 1 o2x o2y o1x o1y Po2 Po1) in C2.
        rewrite Pos.eqb_refl. cbn [negb].
        rewrite P2.
        pose proof (divide_segment_inv NQ cfg s se1 (fpt p2x p2y) S M1) as DI.
        destruct (divide_segment cfg s se1 (fpt p2x p2y)) as [s1|site|] eqn:Dv1; cbn [obind]; [|exact I|exact I].
        destruct DI as [S1 G1].
        assert (In1 : strictly_inside p1x p1y o1x o1y p2x p2y) by (apply (inside_by_params p1x p1y o1x o1y Lx1 0 1 al); auto; lra).
        destruct (divide_segment_einv2 cfg s s1 se1 other1 p1x p1y o1x o1y p2x p2y S E M1 O1 Lf1 P1 Q1 In1 Dv1) as (E1 & Fl1 & Hl).
        pose proof (divide_keeps_event_order edges cfg s s1 se1 other1 p1x p1y o1x o1y p2x p2y S E M1 O1 Lf1 P1 Q1 In1 Dv1) as OS1.
        destruct (divide_segment_shape NQ cfg s s1 se1 other1 (fpt p2x p2y) W M1 Mo1 Hne1 O1 Dv1)
          as (r & l & i' & _ & _ & _ & _ & _ & _ & A4 & _ & _ & _ & Keep & KeepO).
        unfold other_of. rewrite A4.
        destruct (Hl l A4) as (Ll & Pl & Ol & _).
        unfold point_of. rewrite (Keep other2 Mo2), Q2.
        assert (Ml1 : mapped NQ (sq_st s1) l).
        { destruct (mapped_dec NQ (sq_st s1) l) as [K|K]; [exact K|]. rewrite (getE_unmapped_other _ _ K) in Ol. discriminate. }
        destruct (divide_segment cfg s1 l (fpt o2x o2y)) as [s2|site|] eqn:Dv2; cbn [obind]; [|exact I|exact I].
        cbn [pe5].
        assert (H01 : forall k, mapped NQ (sq_st s) k -> mapped NQ (sq_st s1) k /\ e_left (getE (sq_st s1) k) = e_left (getE (sq_st s) k))
          by (intros k Mk; split; [apply G1, Mk | apply Fl1, Mk]).
        assert (PTr : e_point (getE (sq_st s1) other1) = fpt o1x o1y) by (rewrite (Keep other1 Mo1); exact Q1).
        assert (Hin : strictly_inside p2x p2y o1x o1y o2x o2y) by (apply (inside_by_params p1x p1y o1x o1y Lx1 al 1 be); auto; lra).
        exact (pe5_step cfg (sq_st s) s1 s2 l other1 p2x p2y o1x o1y o2x o2y S1 E1 H01 Ml1 Ol Ll Pl PTr Hin Dv2 OS1).
      * (* 0 < al, 1 < be: partial overlap, se1 first *)
        apply (ev_lt_lex_false (sq_st s) se1 se2 p1x p1y p2x p2y P1 P2 LC) in C1.
        apply (lexlt_params p1x p1y o1x o1y Lx1 0 al p1x p1y p2x p2y Pp1 Pp2) in C1.
        apply (ev_lt_lex_false (sq_st s) other1 other2 o1x o1y o2x o2y Q1 Q2 RC) in C2.
        apply (lexlt_params p1x p1y o1x o1y Lx1 1 be o1x o1y o2x o2y Po1 Po2) in C2.
        rewrite (proj2 (Pos.eqb_neq se1 se2) (not_eq_sym N21')). cbn [negb].
        rewrite P2.
        pose proof (divide_segment_inv NQ cfg s se1 (fpt p2x p2y) S M1) as DI.
        destruct (divide_segment cfg s se1 (fpt p2x p2y)) as [s1|site|] eqn:Dv1; cbn [obind]; [|exact I|exact I].
        destruct DI as [S1 G1].
        assert (In1 : strictly_inside p1x p1y o1x o1y p2x p2y) by (apply (inside_by_params p1x p1y o1x o1y Lx1 0 1 al); auto; lra).
        destruct (divide_segment_einv2 cfg s s1 se1 other1 p1x p1y o1x o1y p2x p2y S E M1 O1 Lf1 P1 Q1 In1 Dv1) as (E1 & Fl1 & _).
        pose proof (divide_keeps_event_order edges cfg s s1 se1 other1 p1x p1y o1x o1y p2x p2y S E M1 O1 Lf1 P1 Q1 In1 Dv1) as OS1.
        destruct (divide_segment_shape NQ cfg s s1 se1 other1 (fpt p2x p2y) W M1 Mo1 Hne1 O1 Dv1)
          as (r & l & i' & _ & _ & _ & _ & _ & _ & _ & _ & _ & _ & Keep & KeepO).
        unfold point_of. rewrite (Keep other1 Mo1), Q1.
        destruct (divide_segment cfg s1 se2 (fpt o1x o1y)) as [s2|site|] eqn:Dv2; cbn [obind]; [|exact I|exact I].
        cbn [pe5].
        assert (H01 : forall k, mapped NQ (sq_st s) k -> mapped NQ (sq_st s1) k /\ e_left (getE (sq_st s1) k) = e_left (getE (sq_st s) k))
          by (intros k Mk; split; [apply G1, Mk | apply Fl1, Mk]).
        assert (OT : e_other (getE (sq_st s1) se2) = Some other2) by (rewrite (KeepO se2 M2 N21' N2o); exact O2).
        assert (LT : e_left (getE (sq_st s1) se2) = true) by (rewrite (Fl1 se2 M2); exact Lf2).
        assert (PT : e_point (getE (sq_st s1) se2) = fpt p2x p2y) by (rewrite (Keep se2 M2); exact P2).
        assert (PTr : e_point (getE (sq_st s1) other2) = fpt o2x o2y) by (rewrite (Keep other2 Mo2); exact Q2).
        assert (Hin : strictly_inside p2x p2y o2x o2y o1x o1y) by (apply (inside_by_params p1x p1y o1x o1y Lx1 al be 1); auto; lra).
        exact (pe5_step cfg (sq_st s) s1 s2 se2 other2 p2x p2y o2x o2y o1x o1y S1 E1 H01 (G1 _ M2) OT LT PT PTr Hin Dv2 OS1).
Qed.

(** ** the same through [handle_left], [handle_right] and the sweep loop *)
Notation slkeys := (@SplayKeys.keys eid unit).
Notation sq2 := (OnEdgeFull.sq2 edges).
Notation pi_sq2 := (OnEdgeFull.pi_sq2 edges).
Notation compute_fields_sq2 := (OnEdgeFull.compute_fields_sq2 edges).

Lemma OS_refl st : OS st st. Proof. intros a b _ _. reflexivity. Qed.
Lemma OS_trans a b c : grows NQ a b -> OS a b -> OS b c -> OS a c.
Proof. intros G H1 H2 x y Mx My. rewrite (H2 x y (G x Mx) (G y My)). exact (H1 x y Mx My). Qed.

Definition FO (st0 st : store) : Prop := FP st0 st /\ OS st0 st.
Lemma FO_refl st : FO st st. Proof. split; [apply FP_refl | apply OS_refl]. Qed.

Definition sq5 (st0 : store) (x : sq NQ) : Prop :=
  sqinv NQ x /\ einv2 (sq_st x) /\ grows NQ st0 (sq_st x) /\ FO st0 (sq_st x).

Lemma sq5_sq2 st0 x : sq5 st0 x -> sq2 st0 x.
Proof. intros (A & B & C & D & _). exact (conj A (conj B (conj C D))). Qed.

Lemma compute_fields_sq5 cfg st0 (x : sq NQ) ev mp op :
  sq5 st0 x -> mapped NQ (sq_st x) ev -> sq5 st0 (mkSQ (compute_fields cfg (sq_st x) ev mp op) (sq_q x)).
Proof.
  intros H M. pose proof (compute_fields_sq2 cfg st0 x ev mp op (sq5_sq2 _ _ H) M) as (S' & E' & G' & F').
  destruct H as (_ & _ & _ & _ & O).
  split; [exact S'|]. split; [exact E'|]. split; [exact G'|]. split; [exact F'|].
  cbn [sq_st]. intros a b Ma Mb. rewrite compute_fields_cmp. exact (O a b Ma Mb).
Qed.

Lemma pi_sq5 cfg st0 (x : sq NQ) (a b : eid) :
  sq5 st0 x -> mapped NQ (sq_st x) a -> mapped NQ (sq_st x) b ->
  e_left (getE (sq_st x) a) = true -> e_left (getE (sq_st x) b) = true ->
  match possible_intersection cfg x a b with
  | Ok (x', _) => sq5 st0 x'
  | _ => True
  end.
Proof.
  intros H Ma Mb La Lb. pose proof (pi_sq2 cfg st0 x a b (sq5_sq2 _ _ H) Ma Mb La Lb) as P2.
  destruct H as (S & E & G & _ & O).
  pose proof (possible_intersection_pe5 cfg x a b S E Ma Mb La Lb) as P5.
  destruct (possible_intersection cfg x a b) as [[x' code]|site|]; [|exact I|exact I].
  destruct P2 as (S' & E' & G' & F'). destruct P5 as (_ & _ & O').
  split; [exact S'|]. split; [exact E'|]. split; [exact G'|]. split; [exact F'|].
  exact (OS_trans _ _ _ G O O').
Qed.

Definition oke5 (st0 : store) (keys0 : list eid) (r : outcome (sweep NQ)) : Prop :=
  match r with
  | Ok s' => einv2 (sw_st s') /\ FO st0 (sw_st s') /\ (forall k, In k (slkeys (sw_sl s')) -> In k keys0)
  | _ => True
  end.

Theorem handle_left_e5 cfg (s : sweep NQ) (ev : eid) (op : operation) :
  swinv NQ s -> einv2 (sw_st s) -> keys_left (sw_st s) (slkeys (sw_sl s)) ->
  mapped NQ (sw_st s) ev -> e_left (getE (sw_st s) ev) = true ->
  oke5 (sw_st s) (ev :: slkeys (sw_sl s)) (handle_left cfg s ev op).
Proof.
  intros (S & Q & A & B) P KL Mev Lev. unfold handle_left.
  set (st := sw_st s) in *.
  set (sl1 := sl_insert st (sw_sl s) ev).
  assert (K1 : forall k, In k (slkeys sl1) -> In k (ev :: slkeys (sw_sl s))).
  { intros k Hk. apply sl_insert_keys in Hk. destruct Hk as [->|Hk]; [now left | now right]. }
  assert (A1 : all_mapped NQ st (slkeys sl1)).
  { intros k Hk. destruct (K1 k Hk) as [<-|Hk']; auto. }
  assert (KL1 : keys_left st (slkeys sl1)).
  { intros k Hk. destruct (K1 k Hk) as [<-|Hk']; auto. }
  destruct (sl_prev_spec NQ st sl1 ev) as [Kp Ip].
  destruct (sl_prev st sl1 ev) as [sl2 maybe_prev]. cbn [fst snd] in Kp, Ip.
  destruct (sl_next_spec NQ st sl2 ev) as [Kn In_].
  destruct (sl_next st sl2 ev) as [sl3 maybe_next]. cbn [fst snd] in Kn, In_.
  assert (Kprev : forall p, maybe_prev = Some p -> In p (slkeys sl1)) by (intros p Hp; apply Ip, Hp).
  assert (Knext : forall p, maybe_next = Some p -> In p (slkeys sl1)) by (intros p Hp; rewrite <- Kp; apply In_, Hp).
  assert (K3 : forall k, In k (slkeys sl3) -> In k (ev :: slkeys (sw_sl s))) by (intros k Hk; apply K1; rewrite <- Kp, <- Kn; exact Hk).
  assert (X0 : sq5 st (mkSQ st (sw_q s))).
  { split; [split; assumption|]. split; [exact P|]. split; [apply grows_refl | apply FO_refl]. }
  pose proof (compute_fields_sq5 cfg st (mkSQ st (sw_q s)) ev maybe_prev op X0 Mev) as X1.
  cbn [sq_st sq_q] in X1.
  set (x1 := mkSQ (compute_fields cfg st ev maybe_prev op) (sw_q s)) in *.
  (* facts about events of the original store in any good later state *)
  assert (Use : forall x k, sq5 st x -> mapped NQ st k -> e_left (getE st k) = true ->
                 mapped NQ (sq_st x) k /\ e_left (getE (sq_st x) k) = true).
  { intros x k (_ & _ & G & F & _) Mk Lk. split; [apply G, Mk | rewrite (F k Mk); exact Lk]. }
  assert (Step1 : match
            (match maybe_next with
             | Some next =>
                 obind (possible_intersection cfg x1 ev next) (fun r =>
                 let '(x, code) := r in
                 if Nat.eqb code 2 then
                   let st_a := compute_fields cfg (sq_st x) ev maybe_prev op in
                   let st_b := compute_fields cfg st_a next (Some ev) op in
                   Ok (mkSQ st_b (sq_q x))
                 else Ok x)
             | None => Ok x1
             end) with
          | Ok x2 => sq5 st x2
          | _ => True
          end).
  { destruct maybe_next as [next|]; [|exact X1].
    assert (Mn : mapped NQ st next) by (apply A1, Knext; reflexivity).
    assert (Ln : e_left (getE st next) = true) by (apply KL1, Knext; reflexivity).
    destruct (Use x1 ev X1 Mev Lev) as [Me1 Le1]. destruct (Use x1 next X1 Mn Ln) as [Mn1 Ln1].
    pose proof (pi_sq5 cfg st x1 ev next X1 Me1 Mn1 Le1 Ln1) as PP.
    destruct (possible_intersection cfg x1 ev next) as [[x code]| site |]; cbn [obind]; [|exact I|exact I].
    destruct (Nat.eqb code 2); [|exact PP].
    destruct (Use x ev PP Mev Lev) as [Me _].
    pose proof (compute_fields_sq5 cfg st x ev maybe_prev op PP Me) as Sa.
    destruct (Use _ next Sa Mn Ln) as [Mna _].
    exact (compute_fields_sq5 cfg st _ next (Some ev) op Sa Mna). }
  destruct (match maybe_next with Some next => _ | None => Ok x1 end) as [x2| site |]; cbn [obind]; try exact I.
  destruct maybe_prev as [prev|].
  - assert (Mp : mapped NQ st prev) by (apply A1, Kprev; reflexivity).
    assert (Lp : e_left (getE st prev) = true) by (apply KL1, Kprev; reflexivity).
    destruct (Use x2 ev Step1 Mev Lev) as [Me2 Le2]. destruct (Use x2 prev Step1 Mp Lp) as [Mp2 Lp2].
    pose proof (pi_sq5 cfg st x2 prev ev Step1 Mp2 Me2 Lp2 Le2) as PP.
    destruct (possible_intersection cfg x2 prev ev) as [[x code]| site |]; cbn [obind]; try exact I.
    destruct (Nat.eqb code 2).
    + destruct (sl_prev_spec NQ (sq_st x) sl3 prev) as [Kp4 _].
      destruct (sl_prev (sq_st x) sl3 prev) as [sl4 mpp]. cbn [fst] in Kp4.
      destruct (Use x prev PP Mp Lp) as [Mpx _].
      pose proof (compute_fields_sq5 cfg st x prev mpp op PP Mpx) as Sa.
      destruct (Use _ ev Sa Mev Lev) as [Mea _].
      pose proof (compute_fields_sq5 cfg st _ ev (Some prev) op Sa Mea) as (_ & Eb & _ & Fb).
      cbn [oke5 with_sq sw_st sw_sl sq_st]. split; [exact Eb|]. split; [exact Fb|].
      intros k Hk. apply K3. rewrite <- Kp4. exact Hk.
    + destruct PP as (_ & Ex & _ & Fx). cbn [oke5 with_sq sw_st sw_sl]. split; [exact Ex|]. split; [exact Fx|]. exact K3.
  - destruct Step1 as (_ & Ex & _ & Fx). cbn [oke5 with_sq sw_st sw_sl]. split; [exact Ex|]. split; [exact Fx|]. exact K3.
Qed.

Theorem handle_right_e5 cfg (s : sweep NQ) (other : eid) :
  swinv NQ s -> einv2 (sw_st s) -> keys_left (sw_st s) (slkeys (sw_sl s)) ->
  oke5 (sw_st s) (slkeys (sw_sl s)) (handle_right cfg s other).
Proof.
  intros (S & Q & A & B) P KL. unfold handle_right.
  set (st := sw_st s) in *.
  pose proof (sl_contains_keys NQ st (sw_sl s) other) as Kc.
  destruct (sl_contains st (sw_sl s) other) as [sl1 present]. cbn [fst] in Kc.
  destruct (c_debug cfg && negb present); [exact I|].
  assert (Good : forall sl', (forall k, In k (slkeys sl') -> In k (slkeys (sw_sl s))) ->
            oke5 st (slkeys (sw_sl s)) (Ok (mkSweep st (sw_q s) sl' (sw_sorted s)))).
  { intros sl' Hk. cbn. split; [exact P|]. split; [apply FO_refl | exact Hk]. }
  destruct present; [|apply Good; intros k Hk; rewrite <- Kc; exact Hk].
  destruct (sl_prev_spec NQ st sl1 other) as [Kp Ip].
  destruct (sl_prev st sl1 other) as [sl2 maybe_prev]. cbn [fst snd] in Kp, Ip.
  destruct (sl_next_spec NQ st sl2 other) as [Kn In_].
  destruct (sl_next st sl2 other) as [sl3 maybe_next]. cbn [fst snd] in Kn, In_.
  assert (K3 : forall k, In k (slkeys sl3) -> In k (slkeys (sw_sl s))) by (intros k Hk; rewrite <- Kc, <- Kp, <- Kn; exact Hk).
  assert (X0 : sq5 st (mkSQ st (sw_q s))).
  { split; [split; assumption|]. split; [exact P|]. split; [apply grows_refl | apply FO_refl]. }
  assert (Fin : forall x, sq5 st x -> oke5 st (slkeys (sw_sl s)) (Ok (with_sq s x (sl_remove (sq_st x) sl3 other)))).
  { intros x (_ & Ex & _ & Fx). cbn [oke5 with_sq sw_st sw_sl]. split; [exact Ex|]. split; [exact Fx|].
    intros k Hk. apply sl_remove_keys in Hk. now apply K3. }
  destruct maybe_prev as [prev|]; [|cbn [obind]; now apply Fin].
  destruct maybe_next as [next|]; [|cbn [obind]; now apply Fin].
  assert (Hp : In prev (slkeys (sw_sl s))) by (rewrite <- Kc; apply Ip; reflexivity).
  assert (Hn : In next (slkeys (sw_sl s))) by (rewrite <- Kc, <- Kp; apply In_; reflexivity).
  pose proof (pi_sq5 cfg st (mkSQ st (sw_q s)) prev next X0 (A _ Hp) (A _ Hn) (KL _ Hp) (KL _ Hn)) as PP.
  destruct (possible_intersection cfg (mkSQ st (sw_q s)) prev next) as [[x code]| site |]; cbn [obind fst]; try exact I.
  now apply Fin.
Qed.

Theorem sweep_loop_e5 cfg : forall (fuel : nat) (s : sweep NQ) sbbox cbbox rightbound op (st0 : store),
  swinv NQ s -> einv2 (sw_st s) -> keys_left (sw_st s) (slkeys (sw_sl s)) ->
  grows NQ st0 (sw_st s) -> OS st0 (sw_st s) ->
  match sweep_loop cfg fuel s sbbox cbbox rightbound op with
  | Ok s' => einv2 (sw_st s') /\ OS st0 (sw_st s')
  | _ => True
  end.
Proof.
  induction fuel as [|f IH]; intros s sbbox cbbox rightbound op st0 Hs P KL G0 O0; cbn [sweep_loop].
  - destruct (qpop (sw_st s) (sw_q s)); [exact I | split; assumption].
  - destruct (qpop (sw_st s) (sw_q s)) as [[ev q']|] eqn:Hp; [|split; assumption].
    pose proof Hs as (S & Q & A & B).
    destruct (qpop_mapped NQ (sw_st s) (sw_st s) (sw_q s) ev q' Q Hp) as [Mev Q'].
    set (s1 := mkSweep (sw_st s) q' (sw_sl s) (ev :: sw_sorted s)).
    assert (S1 : swinv NQ s1).
    { unfold swinv, s1; cbn [sw_st sw_q sw_sl sw_sorted]. repeat split; try tauto.
      - apply S. - apply S. - intros i [<-|Hi]; auto. }
    destruct (negb (c_noshort cfg) && _); [split; assumption|].
    destruct (e_left (getE (sw_st s) ev)) eqn:Lev.
    + pose proof (handle_left_inv NQ cfg s1 ev op S1 Mev) as G.
      pose proof (handle_left_e5 cfg s1 ev op S1 P KL Mev Lev) as G2.
      destruct (handle_left cfg s1 ev op) as [s2| site |]; cbn [obind]; try exact I.
      destruct G as [S2 Gr]. destruct G2 as (E2 & (F2 & O2) & K2).
      apply (IH s2 sbbox cbbox rightbound op st0 S2 E2).
      * intros k Hk. cbn [sw_st s1] in F2. destruct (K2 k Hk) as [<-|Hk'].
        -- rewrite (F2 ev Mev). exact Lev.
        -- rewrite (F2 k (A k Hk')). exact (KL k Hk').
      * eapply grows_trans; [exact G0 | exact Gr].
      * exact (OS_trans _ _ _ G0 O0 O2).
    + destruct (e_other (getE (sw_st s) ev)) as [other|].
      * pose proof (handle_right_inv NQ cfg s1 other S1) as G.
        pose proof (handle_right_e5 cfg s1 other S1 P KL) as G2.
        destruct (handle_right cfg s1 other) as [s2| site |]; cbn [obind]; try exact I.
        destruct G as [S2 Gr]. destruct G2 as (E2 & (F2 & O2) & K2).
        apply (IH s2 sbbox cbbox rightbound op st0 S2 E2).
        -- intros k Hk. specialize (K2 k Hk). cbn [sw_sl s1] in K2. cbn [sw_st s1] in F2.
           rewrite (F2 k (A k K2)). exact (KL k K2).
        -- eapply grows_trans; [exact G0 | exact Gr].
        -- exact (OS_trans _ _ _ G0 O0 O2).
      * cbn [obind]. apply (IH s1 sbbox cbbox rightbound op st0 S1 P KL G0 O0).
Qed.

End Stable.

(** ** the whole sweep: the order among the events that [fill_queue] created is the same in the
    store the sweep returns (operands with finite coordinates) *)
From GB Require Import Coverage.
Theorem subdivide_keeps_event_order cfg fuel (A B : list (polygon NQ)) op (st : store NQ) (sorted : list eid) (n : nat) :
  (forall P, In P A -> finite_poly P) -> (forall P, In P B -> finite_poly P) ->
  subdivide cfg fuel (fill_queue A B op) op = Ok (st, sorted, n) ->
  forall a b, mapped NQ (f_st (fill_queue A B op)) a -> mapped NQ (f_st (fill_queue A B op)) b ->
  cmp_events st a b = cmp_events (f_st (fill_queue A B op)) a b.
Proof.
  intros HA HB. unfold subdivide. destruct (fill_queue_inv NQ A B op) as [S0 Q0].
  set (edges := ops_edges A B).
  assert (PA : forall P, In P A -> poly_ok edges true P).
  { intros P HP. apply poly_ok_of_edges; [now apply HA|]. intros e He. unfold edges, ops_edges.
    apply in_or_app. left. apply in_flat_map. exists P. auto. }
  assert (PB : forall P, In P B -> poly_ok edges false P).
  { intros P HP. apply poly_ok_of_edges; [now apply HB|]. intros e He. unfold edges, ops_edges.
    apply in_or_app. right. apply in_flat_map. exists P. auto. }
  pose proof (fill_queue_einv2 edges A B op PA PB) as P0.
  set (s0 := mkSweep _ _ _ _).
  assert (I0 : swinv NQ s0).
  { unfold swinv, s0; cbn [sw_st sw_q sw_sl sw_sorted]. repeat split; try apply S0; try exact Q0; intros i []. }
  assert (KL0 : keys_left (sw_st s0) (SplayKeys.keys eid unit (sw_sl s0))) by (intros k []).
  pose proof (sweep_loop_e5 edges cfg fuel s0 (f_sbbox (fill_queue A B op)) (f_cbbox (fill_queue A B op))
                (minX NQ (bb_maxx (f_sbbox (fill_queue A B op))) (bb_maxx (f_cbbox (fill_queue A B op)))) op
                (sw_st s0) I0 P0 KL0 (grows_refl NQ _) (OS_refl _)) as PP.
  destruct (sweep_loop _ _ _ _ _ _ _) as [s| site |]; cbn [obind]; try discriminate.
  intros H; inversion H; subst. destruct PP as [_ O]. exact O.
Qed.
