(** * A division does not change the event order among the events that exist (C15 / C13),
    exact instance.

    [cmp_events] looks at an event's point, left flag and operand, and at the point of its
    partner — and at the partner's point only through orientations taken at the event's own
    point.  [divide_segment] at a point strictly inside a sub-segment moves the partner points of
    its two ends along the same rays (the left end's partner from the right end to the division
    point, and vice versa) and touches nothing else, so every comparison between existing events
    keeps its answer: the queue and the bubble sort of the contour stage see one order from
    the beginning to the end of the sweep. *)
From Coq Require Import Bool List PArith NArith QArith Lqa Lia.
From GB Require Import Prim Num NumQ NumLaws NumLawsQ Event Intersect Cmp Heap Outcome Divide
  IntersectProofs LinkProofs SplitCover EventOrder EventOrderQ OnEdge OnEdgeFull.
Local Open Scope Q_scope.

(** ** what [cmp_events] reads *)
Record view := mkView { v_p : pt NQ; v_l : bool; v_s : bool; v_o : option (pt NQ) }.
Definition view_of (st : store NQ) (i : eid) : view :=
  let e := getE st i in
  mkView (e_point e) (e_left e) (e_is_subject e)
         (match e_other e with Some o => Some (point_of st o) | None => None end).

Definition isb (v : view) (q : pt NQ) : bool :=
  match v_o v with
  | Some o => if v_l v then sa_pos (sarea (v_p v) o q) else sa_pos (sarea o (v_p v) q)
  | None => false
  end.

Definition cmpv (a b : view) : comparison :=
  let p1 := v_p a in
  let p2 := v_p b in
  if gtX NQ (px p1) (px p2) then Lt
  else if ltX NQ (px p1) (px p2) then Gt
  else if gtY NQ (py p1) (py p2) then Lt
  else if ltY NQ (py p1) (py p2) then Gt
  else if negb (eqb (v_l a) (v_l b)) then less_if (v_l a)
  else
    let fallback := less_if (negb (v_s a) && v_s b) in
    match v_o a, v_o b with
    | Some q1, Some q2 =>
        if negb (sa_zero (sarea p1 q1 q2)) then less_if (negb (isb a q2)) else fallback
    | _, _ => fallback
    end.

Lemma cmp_events_view (st : store NQ) a b : cmp_events st a b = cmpv (view_of st a) (view_of st b).
Proof.
  unfold cmp_events, cmpv, view_of, isb, is_below. cbn [v_p v_l v_s v_o].
  destruct (e_other (getE st a)) as [o1|], (e_other (getE st b)) as [o2|]; reflexivity.
Qed.

(** ** moving a partner point along its ray *)
Definition on_ray (px py qx qy qx' qy' : Q) : Prop :=
  exists lam, 0 < lam /\ qx' == px + lam * (qx - px) /\ qy' == py + lam * (qy - py).

Lemma orient_scale a b : 0 < a -> (a * b ?= 0) = (b ?= 0).
Proof.
  intros Ha. destruct (Qcompare_spec b 0) as [E|E|E], (Qcompare_spec (a * b) 0) as [F|F|F]; try reflexivity; exfalso; nra.
Qed.

(** first point fixed, second moved along the ray from it *)
Lemma orient_ray2 px py qx qy qx' qy' x y :
  on_ray px py qx qy qx' qy' ->
  qx_orient (QF px) (QF py) (QF qx') (QF qy') (QF x) (QF y) = qx_orient (QF px) (QF py) (QF qx) (QF qy) (QF x) (QF y).
Proof.
  intros (lam & Hl & E1 & E2). rewrite !orient_det.
  assert (E : EventOrderQ.det px py qx' qy' x y == lam * EventOrderQ.det px py qx qy x y)
    by (unfold EventOrderQ.det; rewrite E1, E2; ring).
  rewrite (Qcompare_eqv _ _ E). now apply orient_scale.
Qed.
(** first point fixed, third moved along the ray from it *)
Lemma orient_ray3 px py qx qy qx' qy' x y :
  on_ray px py qx qy qx' qy' ->
  qx_orient (QF px) (QF py) (QF x) (QF y) (QF qx') (QF qy') = qx_orient (QF px) (QF py) (QF x) (QF y) (QF qx) (QF qy).
Proof.
  intros (lam & Hl & E1 & E2). rewrite !orient_det.
  assert (E : EventOrderQ.det px py x y qx' qy' == lam * EventOrderQ.det px py x y qx qy)
    by (unfold EventOrderQ.det; rewrite E1, E2; ring).
  rewrite (Qcompare_eqv _ _ E). now apply orient_scale.
Qed.
(** second point fixed, first moved along the ray from it *)
Lemma orient_ray1 px py qx qy qx' qy' x y :
  on_ray px py qx qy qx' qy' ->
  qx_orient (QF qx') (QF qy') (QF px) (QF py) (QF x) (QF y) = qx_orient (QF qx) (QF qy) (QF px) (QF py) (QF x) (QF y).
Proof.
  intros (lam & Hl & E1 & E2). rewrite !orient_det.
  assert (E : EventOrderQ.det qx' qy' px py x y == lam * EventOrderQ.det qx qy px py x y)
    by (unfold EventOrderQ.det; rewrite E1, E2; ring).
  rewrite (Qcompare_eqv _ _ E). now apply orient_scale.
Qed.

(** two views that differ at most in the partner point, moved along the ray from the own point *)
Definition vsim (v v' : view) : Prop :=
  v_p v' = v_p v /\ v_l v' = v_l v /\ v_s v' = v_s v /\
  exists x y, v_p v = fpt x y /\
    ((v_o v' = v_o v) \/
     exists qx qy qx' qy', v_o v = Some (fpt qx qy) /\ v_o v' = Some (fpt qx' qy') /\ on_ray x y qx qy qx' qy').

Lemma on_ray_refl x y qx qy : on_ray x y qx qy qx qy.
Proof. exists 1. split; [lra | split; ring]. Qed.

Lemma on_ray_eqv x y x' y' qx qy qx' qy' : x == x' -> y == y' -> on_ray x y qx qy qx' qy' -> on_ray x' y' qx qy qx' qy'.
Proof. intros E1 E2 (lam & Hl & A & B). exists lam. split; [exact Hl|]. split; [rewrite <- E1; exact A | rewrite <- E2; exact B]. Qed.

(** all partner points that occur are finite *)
Definition vfin (v : view) : Prop := match v_o v with Some q => exists a b, q = fpt a b | None => True end.

Theorem cmpv_stable a b a' b' : vsim a a' -> vsim b b' -> vfin a -> vfin b -> cmpv a' b' = cmpv a b.
Proof.
  intros (Pa & La & Sa & xa & ya & Ea & Ha) (Pb & Lb & Sb & xb & yb & Eb & Hb) Fa Fb.
  unfold cmpv. rewrite Pa, Pb, La, Lb, Sa, Sb, Ea, Eb. cbn [px py fpt].
  destruct (gtX NQ (QF xa) (QF xb)) eqn:G1; [reflexivity|].
  destruct (ltX NQ (QF xa) (QF xb)) eqn:G2; [reflexivity|].
  destruct (gtY NQ (QF ya) (QF yb)) eqn:G3; [reflexivity|].
  destruct (ltY NQ (QF ya) (QF yb)) eqn:G4; [reflexivity|].
  destruct (negb (eqb (v_l a) (v_l b))); [reflexivity|].
  (* the same point *)
  assert (Ex : xa == xb).
  { unfold gtX in G1. cbn [ltX NQ] in G1, G2. apply qx_lt_FF_false in G1, G2. lra. }
  assert (Ey : ya == yb).
  { unfold gtY in G3. cbn [ltY NQ] in G3, G4. apply qx_lt_FF_false in G3, G4. lra. }
  (* normal forms of the partner points *)
  assert (Na : v_o a' = v_o a \/ exists qx qy qx' qy', v_o a = Some (fpt qx qy) /\ v_o a' = Some (fpt qx' qy') /\ on_ray xa ya qx qy qx' qy') by exact Ha.
  assert (Nb : v_o b' = v_o b \/ exists qx qy qx' qy', v_o b = Some (fpt qx qy) /\ v_o b' = Some (fpt qx' qy') /\ on_ray xa ya qx qy qx' qy').
  { destruct Hb as [K|(qx & qy & qx' & qy' & K1 & K2 & K3)]; [now left | right].
    exists qx, qy, qx', qy'. split; [exact K1|]. split; [exact K2|]. eapply on_ray_eqv; [symmetry; exact Ex | symmetry; exact Ey | exact K3]. }
  unfold vfin in Fa, Fb.
  destruct (v_o a) as [qa|] eqn:Oa.
  2: { destruct Na as [K|(qx & qy & qx' & qy' & K1 & _)]; [rewrite K; reflexivity | discriminate]. }
  destruct (v_o b) as [qb|] eqn:Ob.
  2: { destruct Nb as [K|(qx & qy & qx' & qy' & K1 & _)]; [rewrite K | discriminate].
       destruct (v_o a'); reflexivity. }
  destruct Fa as (qax & qay & ->). destruct Fb as (qbx & qby & ->).
  (* the (possibly moved) partner points as rays *)
  assert (Ra : exists ax' ay', v_o a' = Some (fpt ax' ay') /\ on_ray xa ya qax qay ax' ay').
  { destruct Na as [K|(qx & qy & qx' & qy' & K1 & K2 & K3)].
    - exists qax, qay. split; [exact K | apply on_ray_refl].
    - inversion K1; subst. exists qx', qy'. auto. }
  assert (Rb : exists bx' by', v_o b' = Some (fpt bx' by') /\ on_ray xa ya qbx qby bx' by').
  { destruct Nb as [K|(qx & qy & qx' & qy' & K1 & K2 & K3)].
    - exists qbx, qby. split; [exact K | apply on_ray_refl].
    - inversion K1; subst. exists qx', qy'. auto. }
  destruct Ra as (ax' & ay' & Oa' & Rya). destruct Rb as (bx' & by' & Ob' & Ryb).
  rewrite Oa', Ob'. unfold isb. rewrite Oa', Oa, La, Pa, Ea. cbn [v_o v_l v_p]. unfold sarea. cbn [px py fpt orient NQ].
  rewrite (orient_ray3 xa ya qbx qby bx' by' ax' ay' Ryb), (orient_ray2 xa ya qax qay ax' ay' qbx qby Rya).
  destruct (negb (sa_zero (qx_orient (QF xa) (QF ya) (QF qax) (QF qay) (QF qbx) (QF qby)))); [|reflexivity].
  destruct (v_l a).
  - reflexivity.
  - (* right events: orient (o, p, q) *)
    rewrite (orient_ray1 xa ya qax qay ax' ay' bx' by' Rya).
    (* third point moved along the ray from the SECOND point: same sign *)
    assert (T : qx_orient (QF qax) (QF qay) (QF xa) (QF ya) (QF bx') (QF by') = qx_orient (QF qax) (QF qay) (QF xa) (QF ya) (QF qbx) (QF qby)).
    { destruct Ryb as (lam & Hl & E1 & E2). rewrite !orient_det.
      assert (E : EventOrderQ.det qax qay xa ya bx' by' == lam * EventOrderQ.det qax qay xa ya qbx qby)
        by (unfold EventOrderQ.det; rewrite E1, E2; ring).
      rewrite (Qcompare_eqv _ _ E). now apply orient_scale. }
    rewrite T. reflexivity.
Qed.

(** ** a division moves two partner points along their rays and nothing else *)
Section Division.
Variable edges : list edge.
Variable cfg : config.

Theorem divide_keeps_event_order (s s' : sq NQ) (T Tr : eid) (lx ly rx ry ix iy : Q) :
  sqinv NQ s -> einv2 edges (sq_st s) -> mapped NQ (sq_st s) T ->
  e_other (getE (sq_st s) T) = Some Tr -> e_left (getE (sq_st s) T) = true ->
  e_point (getE (sq_st s) T) = fpt lx ly -> e_point (getE (sq_st s) Tr) = fpt rx ry ->
  strictly_inside lx ly rx ry ix iy ->
  divide_segment cfg s T (fpt ix iy) = Ok s' ->
  forall a b, mapped NQ (sq_st s) a -> mapped NQ (sq_st s) b ->
  cmp_events (sq_st s') a b = cmp_events (sq_st s) a b.
Proof.
  intros S E MT OT LT PT PTr Hin Dv. pose proof S as [[W L] Q].
  destruct (L T MT) as (Tr' & OT' & Hne & MTr & Back & _). assert (Tr' = Tr) by congruence. subst Tr'.
  destruct (divide_segment_einv2 edges cfg s s' T Tr lx ly rx ry ix iy S E MT OT LT PT PTr Hin Dv) as (_ & Fl & _).
  destruct (divide_segment_shape NQ cfg s s' T Tr (fpt ix iy) W MT MTr Hne OT Dv)
    as (r & l & i' & Nr & Nl & _ & A1 & _ & _ & A4 & A5 & A6 & Ei & Keep & KeepO).
  rewrite PiProofs.bump_dead_exact in Ei. rewrite Ei in A5, A6.
  pose proof (divide_segment_keeps_subject cfg s s' T (fpt ix iy) W Dv) as Ks.
  destruct Hin as ((t & Ht & Hx & Hy) & Hn1 & Hn2).
  assert (T0 : 0 < t).
  { destruct (Qlt_le_dec 0 t) as [K|K]; [exact K|]. exfalso. apply Hn1. assert (t == 0) by lra. split; [rewrite Hx, H | rewrite Hy, H]; ring. }
  assert (T1 : t < 1).
  { destruct (Qlt_le_dec t 1) as [K|K]; [exact K|]. exfalso. apply Hn2. assert (t == 1) by lra. split; [rewrite Hx, H | rewrite Hy, H]; ring. }
  (* the views before and after *)
  assert (V : forall k, mapped NQ (sq_st s) k -> vsim (view_of (sq_st s) k) (view_of (sq_st s') k) /\ vfin (view_of (sq_st s) k)).
  { intros k Mk. destruct (L k Mk) as (o & Ok & _ & Mo & _).
    destruct (E k o Mk Ok) as (kx & ky & ox & oy & _ & _ & _ & _ & Pk & Po & _).
    unfold vsim, vfin, view_of. cbn [v_p v_l v_s v_o]. rewrite (Keep k Mk), (Fl k Mk), (Ks k Mk), Ok.
    split.
    - split; [reflexivity|]. split; [reflexivity|]. split; [reflexivity|]. exists kx, ky. split; [exact Pk|].
      destruct (Pos.eq_dec k T) as [->|NkT]; [|destruct (Pos.eq_dec k Tr) as [->|NkTr]].
      + (* the left end: partner moves from the right end to the division point *)
        right. rewrite A1. unfold point_of. rewrite A5.
        assert (o = Tr) by congruence. subst o. rewrite PTr. rewrite PT in Pk. apply fpt_inj in Pk. destruct Pk as [<- <-].
        exists rx, ry, ix, iy. split; [reflexivity|]. split; [reflexivity|]. exists t. split; [exact T0 | split; assumption].
      + (* the right end: partner moves from the left end to the division point *)
        right. rewrite A4. unfold point_of. rewrite A6.
        assert (o = T) by congruence. subst o. rewrite PT. rewrite PTr in Pk. apply fpt_inj in Pk. destruct Pk as [<- <-].
        exists lx, ly, ix, iy. split; [reflexivity|]. split; [reflexivity|]. exists (1 - t). split; [lra|]. split; [rewrite Hx | rewrite Hy]; ring.
      + left. rewrite (KeepO k Mk NkT NkTr), Ok. unfold point_of. rewrite (Keep o Mo). reflexivity.
    - unfold point_of. rewrite Po. exists ox, oy. reflexivity. }
  intros a b Ma Mb. rewrite !cmp_events_view.
  destruct (V a Ma) as [Va Fa]. destruct (V b Mb) as [Vb Fb].
  exact (cmpv_stable _ _ _ _ Va Vb Fa Fb).
Qed.

End Division.
