(** * The intersection kernel does not depend on the order of its two segments, COLLINEAR case
    (C16, last clause), exact instance: for two non-degenerate segments on one line the two orders
    agree on [LNone], report equal points, and report the same two end points of the common part
    (possibly in the other order).  With [IntersectSym] (non-parallel) and
    [impl_parallel_distinct] (parallel, distinct lines: [LNone] both ways) this covers every pair
    of non-degenerate segments. *)
From Coq Require Import QArith Lqa.
From GB Require Import Num NumQ Intersect IntersectProofs IntersectSym.
Local Open Scope Q_scope.

Section SymCol.
Variables a1x a1y a2x a2y b1x b1y b2x b2y : Q.
Local Notation A1 := (fpt a1x a1y).
Local Notation A2 := (fpt a2x a2y).
Local Notation B1 := (fpt b1x b1y).
Local Notation B2 := (fpt b2x b2y).
Hypothesis Hdet : det a1x a1y a2x a2y b1x b1y b2x b2y == 0.
Hypothesis HT : numT a1x a1y a2x a2y b1x b1y == 0.
Hypothesis Ha : ~ (a2x == a1x /\ a2y == a1y).
Hypothesis Hb : ~ (b2x == b1x /\ b2y == b1y).

Lemma det_ba : det b1x b1y b2x b2y a1x a1y a2x a2y == 0.
Proof. rewrite det_swap. rewrite Hdet. reflexivity. Qed.

(** [a1] lies on the line of [b] *)
Lemma numT_ba : numT b1x b1y b2x b2y a1x a1y == 0.
Proof.
  assert (Hl := len2_nz Ha).
  destruct (collinear_b1 HT Hl) as [B1x B1y]. destruct (collinear_b2 Hdet HT Hl) as [B2x B2y].
  set (ra := rsa a1x a1y a2x a2y b1x b1y) in *. set (rb := rsb a1x a1y a2x a2y b1x b1y b2x b2y) in *. clearbody ra rb.
  unfold numT.
  assert (I1 : (a1x - b1x) * (b2y - b1y) - (a1y - b1y) * (b2x - b1x)
               == (a1x - (a1x + ra * (a2x - a1x))) * ((a1y + rb * (a2y - a1y)) - (a1y + ra * (a2y - a1y)))
                  - (a1y - (a1y + ra * (a2y - a1y))) * ((a1x + rb * (a2x - a1x)) - (a1x + ra * (a2x - a1x)))).
  { rewrite <- B1x, <- B1y, <- B2x, <- B2y. reflexivity. }
  rewrite I1. ring.
Qed.

(** two points of the line have proportional parameter differences in the two parametrisations *)
Lemma scal_cancel k vx vy : ~ (vx == 0 /\ vy == 0) -> k * vx == 0 -> k * vy == 0 -> k == 0.
Proof.
  intros Hv H1 H2. destruct (Qeq_dec k 0) as [K|K]; [exact K|]. exfalso. apply Hv.
  destruct (Qmult_integral _ _ H1) as [Z|Z]; [contradiction|]. destruct (Qmult_integral _ _ H2) as [Z'|Z']; [contradiction|]. auto.
Qed.

Theorem intersection_collinear_sym :
  (intersection A1 A2 B1 B2 = LNone <-> intersection B1 B2 A1 A2 = LNone) /\
  (forall x y, intersection A1 A2 B1 B2 = LPoint (fpt x y) ->
     exists x' y', intersection B1 B2 A1 A2 = LPoint (fpt x' y') /\ x' == x /\ y' == y) /\
  (forall px py qx qy, intersection A1 A2 B1 B2 = LOverlap (fpt px py) (fpt qx qy) ->
     exists px' py' qx' qy', intersection B1 B2 A1 A2 = LOverlap (fpt px' py') (fpt qx' qy') /\
       ((px' == px /\ py' == py /\ qx' == qx /\ qy' == qy) \/ (px' == qx /\ py' == qy /\ qx' == px /\ qy' == py))).
Proof.
  destruct (@intersection_collinear a1x a1y a2x a2y b1x b1y b2x b2y Hdet HT Ha) as (lo & hi & Hch & Hc).
  destruct (@intersection_collinear b1x b1y b2x b2y a1x a1y a2x a2y det_ba numT_ba Hb) as (lo' & hi' & Hch' & Hc').
  (* the common point set is the same *)
  assert (Sw : forall x y, (exists s, lo <= s <= hi /\ seg_a_at a1x a1y a2x a2y s x y) <->
                           (exists t, lo' <= t <= hi' /\ seg_a_at b1x b1y b2x b2y t x y)).
  { intros x y. rewrite <- Hch, <- Hch'. split; apply on_both_swap_gen. }
  (* the two ends in both parametrisations *)
  assert (PtA : forall s, exists x y, seg_a_at a1x a1y a2x a2y s x y) by (intros s; eexists; eexists; split; reflexivity).
  assert (PtB : forall t, exists x y, seg_a_at b1x b1y b2x b2y t x y) by (intros t; eexists; eexists; split; reflexivity).
  assert (EqA : forall s s' x y, seg_a_at a1x a1y a2x a2y s x y -> seg_a_at a1x a1y a2x a2y s' x y -> s == s').
  { intros s s' x y [X1 Y1] [X2 Y2].
    assert (K1 : (s - s') * (a2x - a1x) == 0) by lra. assert (K2 : (s - s') * (a2y - a1y) == 0) by lra.
    assert (Z : s - s' == 0) by (apply (scal_cancel _ (a2x - a1x) (a2y - a1y)); [intros [U V]; apply Ha; split; lra | exact K1 | exact K2]). lra. }
  assert (EqB : forall s s' x y, seg_a_at b1x b1y b2x b2y s x y -> seg_a_at b1x b1y b2x b2y s' x y -> s == s').
  { intros s s' x y [X1 Y1] [X2 Y2].
    assert (K1 : (s - s') * (b2x - b1x) == 0) by lra. assert (K2 : (s - s') * (b2y - b1y) == 0) by lra.
    assert (Z : s - s' == 0) by (apply (scal_cancel _ (b2x - b1x) (b2y - b1y)); [intros [U V]; apply Hb; split; lra | exact K1 | exact K2]). lra. }
  split; [|split].
  - (* none: the common set is empty both ways *)
    split; intros H.
    + destruct Hc' as [[_ K]|[(E' & x & y & K & At)|(L' & _ & x & y & x' & y' & K & At & _)]]; [exact K| |]; exfalso.
      * assert (O : exists s, lo <= s <= hi /\ seg_a_at a1x a1y a2x a2y s x y) by (apply Sw; exists lo'; split; [lra | exact At]).
        destruct Hc as [[Lt _]|[(E & ? & ? & K2 & _)|(_ & _ & ? & ? & ? & ? & K2 & _)]]; [destruct O as (s & Hs & _); lra | congruence | congruence].
      * assert (O : exists s, lo <= s <= hi /\ seg_a_at a1x a1y a2x a2y s x y) by (apply Sw; exists lo'; split; [lra | exact At]).
        destruct Hc as [[Lt _]|[(E & ? & ? & K2 & _)|(_ & _ & ? & ? & ? & ? & K2 & _)]]; [destruct O as (s & Hs & _); lra | congruence | congruence].
    + destruct Hc as [[_ K]|[(E' & x & y & K & At)|(L' & _ & x & y & x' & y' & K & At & _)]]; [exact K| |]; exfalso.
      * assert (O : exists t, lo' <= t <= hi' /\ seg_a_at b1x b1y b2x b2y t x y) by (apply Sw; exists lo; split; [lra | exact At]).
        destruct Hc' as [[Lt _]|[(E & ? & ? & K2 & _)|(_ & _ & ? & ? & ? & ? & K2 & _)]]; [destruct O as (s & Hs & _); lra | congruence | congruence].
      * assert (O : exists t, lo' <= t <= hi' /\ seg_a_at b1x b1y b2x b2y t x y) by (apply Sw; exists lo; split; [lra | exact At]).
        destruct Hc' as [[Lt _]|[(E & ? & ? & K2 & _)|(_ & _ & ? & ? & ? & ? & K2 & _)]]; [destruct O as (s & Hs & _); lra | congruence | congruence].
  - (* one point *)
    intros x y H.
    destruct Hc as [[_ K]|[(E & x0 & y0 & K & At)|(_ & _ & ? & ? & ? & ? & K & _)]]; try congruence.
    rewrite K in H. inversion H; subst x0 y0. clear H.
    assert (O : exists t, lo' <= t <= hi' /\ seg_a_at b1x b1y b2x b2y t x y) by (apply Sw; exists lo; split; [lra | exact At]).
    destruct Hc' as [[Lt _]|[(E' & x' & y' & K' & At')|(L' & Hlt & x' & y' & x'' & y'' & K' & At' & At'')]].
    + destruct O as (t & Ht & _). lra.
    + exists x', y'. split; [exact K'|].
      assert (O' : exists s, lo <= s <= hi /\ seg_a_at a1x a1y a2x a2y s x' y') by (apply Sw; exists lo'; split; [lra | exact At']).
      destruct O' as (s & Hs & As). assert (s == lo) by lra.
      destruct As as [X1 Y1], At as [X2 Y2]. rewrite X1, Y1, X2, Y2, H. split; reflexivity.
    + (* two distinct common points: impossible *)
      exfalso. specialize (Hlt Ha).
      assert (O1 : exists s, lo <= s <= hi /\ seg_a_at a1x a1y a2x a2y s x' y') by (apply Sw; exists lo'; split; [lra | exact At']).
      assert (O2 : exists s, lo <= s <= hi /\ seg_a_at a1x a1y a2x a2y s x'' y'') by (apply Sw; exists hi'; split; [lra | exact At'']).
      destruct O1 as (s1 & Hs1 & As1), O2 as (s2 & Hs2 & As2). assert (E12 : s1 == s2) by lra.
      destruct As1 as [X1 Y1], As2 as [X2 Y2].
      assert (Q1 : seg_a_at b1x b1y b2x b2y hi' x' y') by (destruct At'' as [U V]; split; [rewrite X1, E12, <- X2 | rewrite Y1, E12, <- Y2]; assumption).
      pose proof (EqB _ _ _ _ At' Q1). lra.
  - (* a common part with two ends *)
    intros px py qx qy H.
    destruct Hc as [[_ K]|[(_ & ? & ? & K & _)|(Lh & Hlt & x0 & y0 & x1 & y1 & K & AtP & AtQ)]]; try congruence.
    rewrite K in H. inversion H; subst x0 y0 x1 y1. clear H. specialize (Hlt Hb).
    assert (OP : exists t, lo' <= t <= hi' /\ seg_a_at b1x b1y b2x b2y t px py) by (apply Sw; exists lo; split; [lra | exact AtP]).
    assert (OQ : exists t, lo' <= t <= hi' /\ seg_a_at b1x b1y b2x b2y t qx qy) by (apply Sw; exists hi; split; [lra | exact AtQ]).
    destruct OP as (t1 & Ht1 & BtP), OQ as (t2 & Ht2 & BtQ).
    assert (Nt : ~ t1 == t2).
    { intros E. destruct BtP as [X1 Y1], BtQ as [X2 Y2].
      assert (Q1 : seg_a_at a1x a1y a2x a2y hi px py) by (destruct AtQ as [U V]; split; [rewrite X1, E, <- X2 | rewrite Y1, E, <- Y2]; assumption).
      pose proof (EqA _ _ _ _ AtP Q1). lra. }
    destruct Hc' as [[Lt _]|[(E' & ? & ? & ? & ?)|(L' & Hlt' & x' & y' & x'' & y'' & K' & At' & At'')]]; [lra | lra |].
    specialize (Hlt' Ha).
    exists x', y', x'', y''. split; [exact K'|].
    assert (O1 : exists s, lo <= s <= hi /\ seg_a_at a1x a1y a2x a2y s x' y') by (apply Sw; exists lo'; split; [lra | exact At']).
    assert (O2 : exists s, lo <= s <= hi /\ seg_a_at a1x a1y a2x a2y s x'' y'') by (apply Sw; exists hi'; split; [lra | exact At'']).
    destruct O1 as (s1 & Hs1 & As1), O2 as (s2 & Hs2 & As2).
    (* (s2 - s1) u = (hi' - lo') v and (hi - lo) u = (t2 - t1) v *)
    set (ux := a2x - a1x). set (uy := a2y - a1y). set (vx := b2x - b1x). set (vy := b2y - b1y).
    assert (R1x : (s2 - s1) * ux == (hi' - lo') * vx) by (destruct As1 as [X1 _], As2 as [X2 _], At' as [U1 _], At'' as [U2 _]; unfold ux, vx; lra).
    assert (R1y : (s2 - s1) * uy == (hi' - lo') * vy) by (destruct As1 as [_ Y1], As2 as [_ Y2], At' as [_ V1], At'' as [_ V2]; unfold uy, vy; lra).
    assert (R2x : (hi - lo) * ux == (t2 - t1) * vx) by (destruct AtP as [X1 _], AtQ as [X2 _], BtP as [U1 _], BtQ as [U2 _]; unfold ux, vx; lra).
    assert (R2y : (hi - lo) * uy == (t2 - t1) * vy) by (destruct AtP as [_ Y1], AtQ as [_ Y2], BtP as [_ V1], BtQ as [_ V2]; unfold uy, vy; lra).
    assert (Prod : (hi' - lo') * (hi - lo) == (t2 - t1) * (s2 - s1)).
    { assert (Z : (hi' - lo') * (hi - lo) - (t2 - t1) * (s2 - s1) == 0).
      { apply (scal_cancel _ vx vy); [intros [U V]; apply Hb; unfold vx, vy in *; split; lra | |].
        - assert (I1 : ((hi' - lo') * (hi - lo) - (t2 - t1) * (s2 - s1)) * vx == (hi - lo) * ((hi' - lo') * vx) - (s2 - s1) * ((t2 - t1) * vx)) by ring.
          rewrite I1, <- R1x, <- R2x. ring.
        - assert (I1 : ((hi' - lo') * (hi - lo) - (t2 - t1) * (s2 - s1)) * vy == (hi - lo) * ((hi' - lo') * vy) - (s2 - s1) * ((t2 - t1) * vy)) by ring.
          rewrite I1, <- R1y, <- R2y. ring. }
      lra. }
    (* the parameters are at the ends *)
    assert (Cases : (s1 == lo /\ s2 == hi) \/ (s1 == hi /\ s2 == lo)).
    { destruct (Qlt_le_dec 0 (s2 - s1)) as [Pos|Neg].
      - left. assert (B1 : s2 - s1 <= hi - lo) by lra.
        assert (T : 0 < t2 - t1) by nra. assert (B2 : t2 - t1 <= hi' - lo') by lra.
        assert (s2 - s1 == hi - lo) by nra. lra.
      - right. assert (B1 : s1 - s2 <= hi - lo) by lra.
        assert (T : t2 - t1 < 0) by nra. assert (B2 : t1 - t2 <= hi' - lo') by lra.
        assert (s1 - s2 == hi - lo) by nra. lra. }
    destruct As1 as [X1 Y1], As2 as [X2 Y2], AtP as [XP YP], AtQ as [XQ YQ].
    destruct Cases as [[E1 E2]|[E1 E2]]; [left | right]; rewrite X1, Y1, X2, Y2, XP, YP, XQ, YQ, E1, E2; repeat split; reflexivity.
Qed.

End SymCol.

(** ** every pair of non-degenerate segments *)
Lemma par_trans ux uy vx vy wx wy :
  ~ (ux == 0 /\ uy == 0) -> ux * vy - uy * vx == 0 -> ux * wy - uy * wx == 0 -> vx * wy - vy * wx == 0.
Proof.
  intros Hu H1 H2.
  assert (Kx : ux * (vx * wy - vy * wx) == 0).
  { assert (I1 : ux * (vx * wy - vy * wx) == vx * (ux * wy - uy * wx) - wx * (ux * vy - uy * vx)) by ring. rewrite I1, H1, H2. ring. }
  assert (Ky : uy * (vx * wy - vy * wx) == 0).
  { assert (I1 : uy * (vx * wy - vy * wx) == vy * (ux * wy - uy * wx) - wy * (ux * vy - uy * vx)) by ring. rewrite I1, H1, H2. ring. }
  apply (scal_cancel _ ux uy Hu); [rewrite Qmult_comm; exact Kx | rewrite Qmult_comm; exact Ky].
Qed.

Theorem intersection_order_independent (a1x a1y a2x a2y b1x b1y b2x b2y : Q) :
  ~ (a2x == a1x /\ a2y == a1y) -> ~ (b2x == b1x /\ b2y == b1y) ->
  let A1 := fpt a1x a1y in let A2 := fpt a2x a2y in let B1 := fpt b1x b1y in let B2 := fpt b2x b2y in
  (intersection A1 A2 B1 B2 = LNone <-> intersection B1 B2 A1 A2 = LNone) /\
  (forall x y, intersection A1 A2 B1 B2 = LPoint (fpt x y) ->
     exists x' y', intersection B1 B2 A1 A2 = LPoint (fpt x' y') /\ x' == x /\ y' == y) /\
  (forall px py qx qy, intersection A1 A2 B1 B2 = LOverlap (fpt px py) (fpt qx qy) ->
     exists px' py' qx' qy', intersection B1 B2 A1 A2 = LOverlap (fpt px' py') (fpt qx' qy') /\
       ((px' == px /\ py' == py /\ qx' == qx /\ qy' == qy) \/ (px' == qx /\ py' == qy /\ qx' == px /\ qy' == py))).
Proof.
  intros Ha Hb A1 A2 B1 B2. unfold A1, A2, B1, B2.
  destruct (Qeq_dec (det a1x a1y a2x a2y b1x b1y b2x b2y) 0) as [Hd|Hd].
  - destruct (Qeq_dec (numT a1x a1y a2x a2y b1x b1y) 0) as [HT|HT].
    + exact (intersection_collinear_sym a1x a1y a2x a2y b1x b1y b2x b2y Hd HT Ha Hb).
    + (* parallel, distinct lines: nothing in common, either way *)
      destruct (@impl_parallel_distinct a1x a1y a2x a2y b1x b1y b2x b2y Hd HT) as [N1 _].
      pose proof (@intersection_none_of_impl a1x a1y a2x a2y b1x b1y b2x b2y N1) as E1.
      assert (Hd' : det b1x b1y b2x b2y a1x a1y a2x a2y == 0) by (rewrite det_swap, Hd; reflexivity).
      assert (HT' : ~ numT b1x b1y b2x b2y a1x a1y == 0).
      { intros K. apply HT. unfold numT, det in *.
        (* (a1 - b1) || v and u || v, v <> 0, hence (a1 - b1) || u *)
        assert (P : (a1x - b1x) * (a2y - a1y) - (a1y - b1y) * (a2x - a1x) == 0).
        { apply (par_trans (b2x - b1x) (b2y - b1y) (a1x - b1x) (a1y - b1y) (a2x - a1x) (a2y - a1y)).
          - intros [U V]. apply Hb. split; lra.
          - lra.
          - lra. }
        lra. }
      destruct (@impl_parallel_distinct b1x b1y b2x b2y a1x a1y a2x a2y Hd' HT') as [N2 _].
      pose proof (@intersection_none_of_impl b1x b1y b2x b2y a1x a1y a2x a2y N2) as E2.
      rewrite E1, E2. split; [tauto|]. split; intros; discriminate.
  - split; [exact (intersection_none_sym a1x a1y a2x a2y b1x b1y b2x b2y Hd)|]. split.
    + exact (intersection_point_sym a1x a1y a2x a2y b1x b1y b2x b2y Hd).
    + intros px py qx qy H. exfalso.
      destruct (@intersection_exact a1x a1y a2x a2y b1x b1y b2x b2y Hd) as [[K _]|(x & y & K & _)]; congruence.
Qed.
