(** * The event order is transitive on the events of a valid input (C15, first clause), exact
    instance — in full, including chains through collinear partners and right events.

    In a store satisfying the on-edge invariant with orientation ([OnEdgeFull.einv2]) and the
    link invariant, [cmp_events a b = Lt] and [cmp_events b c = Lt] give [cmp_events a c = Lt]
    ([Lt]: processed later).  Either one of the two steps is decided by the key
    ([EventOrderTrans.cmp_events_trans_key]) or the three events sit at one point with one
    flag; then the partners lie in one half-plane (later points for left events, earlier points
    for right events), where "clockwise of, or on the same ray and clipping before subject" is
    transitive. *)
From Coq Require Import Bool List PArith NArith QArith Lqa Lia.
From GB Require Import Prim Num NumQ NumLaws NumLawsQ Event Intersect Cmp IntersectProofs LinkProofs SplitCover
  EventOrder EventOrderQ EventOrderTrans OnEdge OnEdgeFull.
Local Open Scope Q_scope.

(** ** vectors in the half-plane of later directions *)
Definition inH (x y : Q) : Prop := 0 < x \/ (x == 0 /\ 0 < y).
Definition cr (ux uy vx vy : Q) : Q := ux * vy - uy * vx.

Lemma H_trans ux uy vx vy wx wy :
  inH ux uy -> inH vx vy -> inH wx wy ->
  cr ux uy vx vy <= 0 -> cr vx vy wx wy <= 0 -> (cr ux uy vx vy < 0 \/ cr vx vy wx wy < 0) ->
  cr ux uy wx wy < 0.
Proof.
  unfold inH, cr. intros Hu Hv Hw H1 H2 H3.
  (* v (u x w) = u (v x w) + w (u x v), componentwise *)
  assert (Ix : vx * (ux * wy - uy * wx) == ux * (vx * wy - vy * wx) + wx * (ux * vy - uy * vx)) by ring.
  assert (Iy : vy * (ux * wy - uy * wx) == uy * (vx * wy - vy * wx) + wy * (ux * vy - uy * vx)) by ring.
  destruct Hv as [Hv|[Hv Hv']].
  - (* vx > 0: use the x components *)
    destruct Hu as [Hu|[Hu Hu']], Hw as [Hw|[Hw Hw']].
    + assert (T1 : ux * (vx * wy - vy * wx) <= 0) by nra. assert (T2 : wx * (ux * vy - uy * vx) <= 0) by nra.
      assert (T3 : ux * (vx * wy - vy * wx) < 0 \/ wx * (ux * vy - uy * vx) < 0) by (destruct H3; [right | left]; nra).
      assert (T : vx * (ux * wy - uy * wx) < 0) by (rewrite Ix; destruct T3; lra). nra.
    + rewrite Hw in *. nra.
    + rewrite Hu in *. nra.
    + rewrite Hu, Hw in *. nra.
  - rewrite Hv in *.
    destruct Hu as [Hu|[Hu Hu']], Hw as [Hw|[Hw Hw']].
    + nra.
    + rewrite Hw in *. nra.
    + rewrite Hu in *. nra.
    + rewrite Hu, Hw in *. nra.
Qed.

Lemma det_cr px py ax ay bx by_ : EventOrderQ.det px py ax ay bx by_ == cr (ax - px) (ay - py) (bx - px) (by_ - py).
Proof. unfold EventOrderQ.det, cr. ring. Qed.
Lemma det_cr_neg px py ax ay bx by_ : EventOrderQ.det px py ax ay bx by_ == cr (px - ax) (py - ay) (px - bx) (py - by_).
Proof. unfold EventOrderQ.det, cr. ring. Qed.

(** ** the order among events of one point and one flag *)
Definition lt3 (F : bool) (d : Q) (sa sb : bool) : Prop :=
  (if F then d < 0 else 0 < d) \/ (d == 0 /\ sa = false /\ sb = true).

Section SameKey.
Variable st : store NQ.
Variables a b oa ob : eid.
Variables xa ya xb yb oax oay obx oby : Q.
Hypothesis Pa : e_point (getE st a) = mkPt NQ (QF xa) (QF ya).
Hypothesis Pb : e_point (getE st b) = mkPt NQ (QF xb) (QF yb).
Hypothesis Hx : xa == xb.
Hypothesis Hy : ya == yb.
Hypothesis Oa : e_other (getE st a) = Some oa.
Hypothesis Ob : e_other (getE st b) = Some ob.
Hypothesis Poa : e_point (getE st oa) = mkPt NQ (QF oax) (QF oay).
Hypothesis Pob : e_point (getE st ob) = mkPt NQ (QF obx) (QF oby).
Hypothesis Hleft : e_left (getE st a) = e_left (getE st b).

Lemma cmp_same_key :
  cmp_events st a b = Lt <->
  lt3 (e_left (getE st a)) (EventOrderQ.det xa ya oax oay obx oby) (e_is_subject (getE st a)) (e_is_subject (getE st b)).
Proof.
  rewrite (cmp_ab st a b oa ob xa ya xb yb oax oay obx oby Pa Pb Hx Hy Oa Ob Poa Pob Hleft).
  unfold is_below, point_of, sarea. rewrite Oa, Pa, Poa. cbn [px py orient NQ].
  assert (E1 : qx_orient (QF oax) (QF oay) (QF xa) (QF ya) (QF obx) (QF oby)
               = CompOpp (qx_orient (QF xa) (QF ya) (QF oax) (QF oay) (QF obx) (QF oby)))
    by (apply orient_mid; reflexivity).
  rewrite E1, orient_det. unfold lt3.
  destruct (Qcompare_spec (EventOrderQ.det xa ya oax oay obx oby) 0) as [K|K|K]; cbn [sa_zero negb CompOpp sa_pos].
  - destruct (e_is_subject (getE st a)), (e_is_subject (getE st b)); cbn; split; intros H; try discriminate; try reflexivity;
      try (right; auto; fail);
      destruct H as [H|(_ & H1 & H2)]; try discriminate; destruct (e_left (getE st a)); lra.
  - destruct (e_left (getE st a)); cbn; split; intros H; try discriminate; try reflexivity; try (left; exact K).
    destruct H as [H|(H & _)]; lra.
  - destruct (e_left (getE st a)); cbn; split; intros H; try discriminate; try reflexivity; try (left; exact K).
    destruct H as [H|(H & _)]; lra.
Qed.
End SameKey.

Lemma cmp_is_Eq (c : comparison) : {c = Eq} + {c <> Eq}.
Proof. destruct c; [left; reflexivity | right; discriminate | right; discriminate]. Qed.

Section Valid.
Variable edges : list edge.
Variable st : store NQ.
Hypothesis E : einv2 edges st.
Hypothesis Lk : linked NQ st.

(** the partner lies in the half-plane of the flag *)
Lemma partner_side a : mapped NQ st a ->
  exists oa xa ya oax oay,
    e_other (getE st a) = Some oa /\ e_point (getE st a) = fpt xa ya /\ e_point (getE st oa) = fpt oax oay /\
    (if e_left (getE st a) then inH (oax - xa) (oay - ya) else inH (xa - oax) (ya - oay)).
Proof.
  intros Ma. destruct (Lk a Ma) as (oa & Oa & _ & Moa & Boa & _).
  destruct (E a oa Ma Oa) as (xa & ya & oax & oay & e1 & e2 & e3 & e4 & Pa & Poa & _ & _ & _ & _ & Fa & La).
  destruct (E oa a Moa Boa) as (u1 & u2 & u3 & u4 & _ & _ & _ & _ & Poa' & Pa' & _ & _ & _ & _ & _ & Loa).
  rewrite Poa in Poa'. rewrite Pa in Pa'. apply fpt_inj in Poa', Pa'. destruct Poa' as [<- <-], Pa' as [<- <-].
  exists oa, xa, ya, oax, oay. repeat split; try assumption.
  destruct (e_left (getE st a)) eqn:Fl.
  - destruct (La eq_refl) as [K|[K1 K2]]; [left; lra | right; split; lra].
  - cbn in Fa. destruct (Loa Fa) as [K|[K1 K2]]; [left; lra | right; split; lra].
Qed.

Theorem cmp_events_trans_valid a b c :
  mapped NQ st a -> mapped NQ st b -> mapped NQ st c ->
  cmp_events st a b = Lt -> cmp_events st b c = Lt -> cmp_events st a c = Lt.
Proof.
  intros Ma Mb Mc Hab Hbc.
  destruct (partner_side a Ma) as (oa & xa & ya & oax & oay & Oa & Pa & Poa & Sa).
  destruct (partner_side b Mb) as (ob & xb & yb & obx & oby & Ob & Pb & Pob & Sb).
  destruct (partner_side c Mc) as (oc & xc & yc & ocx & ocy & Oc & Pc & Poc & Sc).
  destruct (cmp_is_Eq (kcmp xa ya (e_left (getE st a)) xb yb (e_left (getE st b)))) as [K1|K1].
  2: { apply (cmp_events_trans_key st a b c xa ya xb yb xc yc Pa Pb Pc Hab Hbc). now left. }
  destruct (cmp_is_Eq (kcmp xb yb (e_left (getE st b)) xc yc (e_left (getE st c)))) as [K2|K2].
  2: { apply (cmp_events_trans_key st a b c xa ya xb yb xc yc Pa Pb Pc Hab Hbc). now right. }
  apply kcmp_Eq in K1, K2. destruct K1 as (X1 & Y1 & F1), K2 as (X2 & Y2 & F2).
  assert (X3 : xa == xc) by lra. assert (Y3 : ya == yc) by lra. assert (F3 : e_left (getE st a) = e_left (getE st c)) by congruence.
  apply (cmp_same_key st a b oa ob xa ya xb yb oax oay obx oby Pa Pb X1 Y1 Oa Ob Poa Pob F1) in Hab.
  apply (cmp_same_key st b c ob oc xb yb xc yc obx oby ocx ocy Pb Pc X2 Y2 Ob Oc Pob Poc F2) in Hbc.
  apply (cmp_same_key st a c oa oc xa ya xc yc oax oay ocx ocy Pa Pc X3 Y3 Oa Oc Poa Poc F3).
  rewrite <- F1 in Hbc. rewrite <- F2, <- F1 in Sc. rewrite <- F1 in Sb.
  assert (D2 : EventOrderQ.det xb yb obx oby ocx ocy == EventOrderQ.det xa ya obx oby ocx ocy)
    by (unfold EventOrderQ.det; rewrite X1, Y1; ring).
  assert (Sb' : if e_left (getE st a) then inH (obx - xa) (oby - ya) else inH (xa - obx) (ya - oby)).
  { destruct (e_left (getE st a)); (destruct Sb as [K|[K K']]; [left | right; split]; lra). }
  assert (Sc' : if e_left (getE st a) then inH (ocx - xa) (ocy - ya) else inH (xa - ocx) (ya - ocy)).
  { destruct (e_left (getE st a)); (destruct Sc as [K|[K K']]; [left | right; split]; lra). }
  clear Sb Sc. unfold lt3 in *.
  destruct (e_left (getE st a)); rewrite D2 in Hbc.
  - (* left events: directions oa - p, ob - p, oc - p *)
    rewrite det_cr in *.
    destruct Hab as [H1|(H1 & s1 & s2)], Hbc as [H2|(H2 & s3 & s4)]; try congruence; left;
      apply (H_trans _ _ _ _ _ _ Sa Sb' Sc'); try lra; auto.
  - (* right events: directions p - oc, p - ob, p - oa, the order reversed *)
    rewrite det_cr_neg in *.
    assert (R : forall ux uy vx vy, cr ux uy vx vy == - cr vx vy ux uy) by (intros; unfold cr; ring).
    pose proof (R (xa - ocx) (ya - ocy) (xa - obx) (ya - oby)) as R1.
    pose proof (R (xa - obx) (ya - oby) (xa - oax) (ya - oay)) as R2.
    pose proof (R (xa - ocx) (ya - ocy) (xa - oax) (ya - oay)) as R3.
    assert (T : cr (xa - ocx) (ya - ocy) (xa - obx) (ya - oby) <= 0 -> cr (xa - obx) (ya - oby) (xa - oax) (ya - oay) <= 0 ->
                (cr (xa - ocx) (ya - ocy) (xa - obx) (ya - oby) < 0 \/ cr (xa - obx) (ya - oby) (xa - oax) (ya - oay) < 0) ->
                cr (xa - ocx) (ya - ocy) (xa - oax) (ya - oay) < 0) by (apply (H_trans _ _ _ _ _ _ Sc' Sb' Sa)).
    destruct Hab as [H1|(H1 & s1 & s2)], Hbc as [H2|(H2 & s3 & s4)]; try congruence; left;
      (assert (T' : cr (xa - ocx) (ya - ocy) (xa - oax) (ya - oay) < 0)
         by (apply T; [lra | lra | first [left; lra | right; lra]])); lra.
Qed.

End Valid.
