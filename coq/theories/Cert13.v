(** * A verified per-run certificate for the planarity clause of C13.

    [planar_check L] decides, with the exact intersection kernel (proved sound and complete at
    the exact instance: [intersection_exact_all], [intersection_point_unique]), that the
    segments of the list [L] pairwise meet in end points of both only, or coincide completely
    and belong to different operands.  [planar_check_sound] states this for every list.
    [segments_of] reads the list of sub-segments off a store and an event vector as the sweep
    returns them (left events with their partners; floating-point coordinates are converted
    exactly).  The check evaluates it on the model's run, which the correspondence compares
    with the implementation's output event for event. *)
From Coq Require Import Bool List PArith NArith ZArith QArith Lqa Lia Floats.SpecFloat.
From GB Require Import Prim Num NumQ NumB NumLaws NumLawsQ Event Intersect IntersectProofs SplitCover OnEdge
  PairResolve Convert.
Import ListNotations.
Local Open Scope Q_scope.

Definition qeqpb (a b c d : Q) : bool := Qeq_bool a c && Qeq_bool b d.
Lemma qeqpb_spec a b c d : qeqpb a b c d = true <-> qeqp a b c d.
Proof. unfold qeqpb, qeqp. rewrite andb_true_iff, !Qeq_bool_iff. tauto. Qed.

(** the clause of C13 for two sub-segments *)
Definition seg_rel (e f : edge) : Prop :=
  let '(ax, ay, (bx, by_), sa) := e in
  let '(cx, cy, (dx, dy), sb) := f in
  (forall x y, on_seg ax ay bx by_ x y -> on_seg cx cy dx dy x y ->
     (qeqp x y ax ay \/ qeqp x y bx by_) /\ (qeqp x y cx cy \/ qeqp x y dx dy))
  \/ (sa <> sb /\ ((qeqp ax ay cx cy /\ qeqp bx by_ dx dy) \/ (qeqp ax ay dx dy /\ qeqp bx by_ cx cy))).

Definition seg_ok (e f : edge) : bool :=
  let '(ax, ay, (bx, by_), sa) := e in
  let '(cx, cy, (dx, dy), sb) := f in
  negb (qeqpb ax ay bx by_) &&
  match intersection (fpt ax ay) (fpt bx by_) (fpt cx cy) (fpt dx dy) with
  | LNone => true
  | LPoint p =>
      (pt_eq p (fpt ax ay) || pt_eq p (fpt bx by_)) && (pt_eq p (fpt cx cy) || pt_eq p (fpt dx dy))
  | LOverlap _ _ =>
      negb (eqb sa sb) &&
      ((qeqpb ax ay cx cy && qeqpb bx by_ dx dy) || (qeqpb ax ay dx dy && qeqpb bx by_ cx cy))
  end.

Lemma seg_ok_sound e f : seg_ok e f = true -> seg_rel e f.
Proof.
  destruct e as [[[ax ay] [bx by_]] sa], f as [[[cx cy] [dx dy]] sb]. unfold seg_ok, seg_rel.
  intros H. apply andb_prop in H. destruct H as [Hd H].
  apply negb_true_iff in Hd.
  assert (Hne : ~ (bx == ax /\ by_ == ay)).
  { intros [K1 K2]. assert (qeqpb ax ay bx by_ = true) by (apply qeqpb_spec; split; symmetry; assumption). congruence. }
  pose proof (@intersection_exact_all ax ay bx by_ cx cy dx dy Hne) as EX.
  destruct (intersection (fpt ax ay) (fpt bx by_) (fpt cx cy) (fpt dx dy)) as [|p|p q] eqn:EI.
  - left. intros x y H1 H2. exfalso. cbn [exact_result] in EX.
    apply (proj1 (@disjoint_iff_no_common_point ax ay bx by_ cx cy dx dy)) in EX. apply EX.
    exists x, y. now apply seg_both.
  - left. cbn [exact_result] in EX. destruct EX as (ix & iy & -> & Hon).
    pose proof (intersection_point_unique ax ay bx by_ cx cy dx dy ix iy Hne EI) as U.
    apply andb_prop in H. destruct H as [H1 H2].
    intros x y S1 S2. destruct (U x y (seg_both _ _ _ _ _ _ _ _ _ _ S1 S2)) as [Ex Ey].
    apply orb_true_iff in H1, H2. unfold qeqp. split.
    + destruct H1 as [K|K]; apply pt_eq_fpt in K; destruct K as [K1 K2]; [left | right]; split; lra.
    + destruct H2 as [K|K]; apply pt_eq_fpt in K; destruct K as [K1 K2]; [left | right]; split; lra.
  - right. apply andb_prop in H. destruct H as [Hs H]. split.
    + apply negb_true_iff in Hs. intros K. rewrite K, eqb_reflx in Hs. discriminate.
    + apply orb_true_iff in H. destruct H as [H|H]; apply andb_prop in H; destruct H as [K1 K2];
        apply qeqpb_spec in K1, K2; [left | right]; split; assumption.
Qed.

Fixpoint planar_check (L : list edge) : bool :=
  match L with
  | [] => true
  | e :: L' => forallb (seg_ok e) L' && planar_check L'
  end.

Theorem planar_check_sound L : planar_check L = true -> ForallOrdPairs seg_rel L.
Proof.
  induction L as [|e L IH]; intros H; [constructor|].
  cbn [planar_check] in H. apply andb_prop in H. destruct H as [H1 H2].
  constructor; [|apply IH; exact H2].
  rewrite forallb_forall in H1. apply Forall_forall. intros f Hf. apply seg_ok_sound, H1, Hf.
Qed.

(** the reading of [ForallOrdPairs]: any two positions *)
Corollary planar_check_pairs L : planar_check L = true ->
  forall i j d, (i < j < length L)%nat -> seg_rel (nth i L d) (nth j L d).
Proof.
  intros H. pose proof (planar_check_sound L H) as F. clear H.
  induction F as [|e L He F IH]; intros i j d Hij; cbn [length] in Hij; [lia|].
  destruct i as [|i]; destruct j as [|j]; try lia; cbn [nth].
  - rewrite Forall_forall in He. apply He. apply nth_In. lia.
  - apply IH. lia.
Qed.

(** ** reading the sub-segments off a store *)
Section Segs.
Variable N : Num.
Variable cv : pt N -> option (Q * Q).

Definition seg_of (st : store N) (i : eid) : option (option edge) :=
  let e := getE st i in
  if e_left e then
    match e_other e with
    | Some o =>
        match cv (e_point e), cv (e_point (getE st o)) with
        | Some (ax, ay), Some (bx, by_) => Some (Some (ax, ay, (bx, by_), e_is_subject e))
        | _, _ => None
        end
    | None => None
    end
  else Some None.

(** [None]: a non-finite coordinate or an unlinked left event *)
Fixpoint segments_of (st : store N) (evs : list eid) : option (list edge) :=
  match evs with
  | [] => Some []
  | i :: r =>
      match seg_of st i, segments_of st r with
      | Some (Some s), Some l => Some (s :: l)
      | Some None, Some l => Some l
      | _, _ => None
      end
  end.

Definition planar_run (st : store N) (evs : list eid) : bool :=
  match segments_of st evs with
  | Some l => planar_check l
  | None => false
  end.
End Segs.

Definition cvQ (p : pt NQ) : option (Q * Q) :=
  match px p, py p with QF x, QF y => Some (x, y) | _, _ => None end.
Definition cvB (prec emax : Z) (p : pt (NB prec emax)) : option (Q * Q) :=
  match sf2q (px p), sf2q (py p) with Some x, Some y => Some (x, y) | _, _ => None end.

Definition planar_q := planar_run NQ cvQ.
Definition planar_64 := planar_run NB64 (cvB 53 1024).
Definition planar_32 := planar_run NB32 (cvB 24 128).

Theorem planar_run_sound (N : Num) cv (st : store N) evs :
  planar_run N cv st evs = true ->
  exists l, segments_of N cv st evs = Some l /\ ForallOrdPairs seg_rel l.
Proof.
  unfold planar_run. destruct (segments_of N cv st evs) as [l|]; [|discriminate].
  intros H. exists l. split; [reflexivity | now apply planar_check_sound].
Qed.

(** non-vacuity: two crossing diagonals cut at their common point pass, uncut they do not *)
Example planar_example :
  planar_check [(0, 0, (1, 1), true); (1, 1, (2, 2), true); (0, 2, (1, 1), false); (1, 1, (2, 0), false)] = true /\
  planar_check [(0, 0, (2, 2), true); (0, 2, (2, 0), false)] = false /\
  planar_check [(0, 0, (2, 0), true); (0, 0, (2, 0), false)] = true /\
  planar_check [(0, 0, (2, 0), true); (1, 0, (3, 0), false)] = false.
Proof. vm_compute. repeat split. Qed.
