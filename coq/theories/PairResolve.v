(** * The intersection step resolves a crossing (C16 / C13), exact instance.

    Two left events [se1], [se2] of a store that satisfies the on-edge invariant; the kernel
    reports ONE common point.  After [possible_intersection] the two sub-segments that still
    start at [se1] and [se2] (these are the ones that stay in the status line) have no common
    point other than end points of both: a crossing in the interior of either segment has been
    cut, at one and the same point, and nothing else has been touched.  The proof uses that
    the reported point is THE common point of the two closed segments
    ([intersection_point_unique]). *)
From Coq Require Import Bool List PArith NArith QArith Lqa Lia.
From GB Require Import Prim Num NumQ NumLaws NumLawsQ Event Intersect Cmp Heap Outcome Divide
  IntersectProofs LinkProofs PiProofs SplitCover OnEdge OnEdgeFull.
Local Open Scope Q_scope.

(** ** the reported point is the only common point *)
Lemma seg_both a1x a1y a2x a2y b1x b1y b2x b2y x y :
  on_seg a1x a1y a2x a2y x y -> on_seg b1x b1y b2x b2y x y -> on_both a1x a1y a2x a2y b1x b1y b2x b2y x y.
Proof. intros (s & Hs & H1 & H2) (t & Ht & H3 & H4). exists s, t. repeat split; tauto. Qed.

Theorem intersection_point_unique a1x a1y a2x a2y b1x b1y b2x b2y ix iy :
  ~ (a2x == a1x /\ a2y == a1y) ->
  intersection (fpt a1x a1y) (fpt a2x a2y) (fpt b1x b1y) (fpt b2x b2y) = LPoint (fpt ix iy) ->
  forall x y, on_both a1x a1y a2x a2y b1x b1y b2x b2y x y -> x == ix /\ y == iy.
Proof.
  intros Hne HI x y Hon.
  destruct (Qeq_dec (det a1x a1y a2x a2y b1x b1y b2x b2y) 0) as [Hdet|Hdet].
  - destruct (Qeq_dec (numT a1x a1y a2x a2y b1x b1y) 0) as [HT|HT].
    + destruct (@intersection_collinear a1x a1y a2x a2y b1x b1y b2x b2y Hdet HT Hne)
        as (lo & hi & Hch & [[_ H]|[(H1 & x' & y' & H & H3)|(_ & _ & x' & y' & x'' & y'' & H & _)]]);
        rewrite H in HI; try discriminate.
      inversion HI; subst x' y'.
      apply Hch in Hon. destruct Hon as (s & Hs & Hx & Hy).
      destruct H3 as [Ix Iy]. assert (Es : s == lo) by lra.
      rewrite Hx, Hy, Ix, Iy, Es. split; reflexivity.
    + destruct (@impl_parallel_distinct a1x a1y a2x a2y b1x b1y b2x b2y Hdet HT) as [H _].
      rewrite (@intersection_none_of_impl a1x a1y a2x a2y b1x b1y b2x b2y H) in HI. discriminate.
  - pose proof (@intersection_exact_all a1x a1y a2x a2y b1x b1y b2x b2y Hne) as EX. rewrite HI in EX.
    cbn [exact_result] in EX. destruct EX as (x' & y' & Ef & Hon').
    apply fpt_inj in Ef. destruct Ef as [<- <-].
    exact (@on_both_unique a1x a1y a2x a2y b1x b1y b2x b2y x y ix iy Hdet Hon Hon').
Qed.

(** ** one division, exact instance: the new partner sits at the division point *)
Lemma div_shape_q cfg (s s' : sq NQ) (T Tr : eid) (ix iy : Q) :
  wf NQ (sq_st s) -> mapped NQ (sq_st s) T -> mapped NQ (sq_st s) Tr -> Tr <> T ->
  e_other (getE (sq_st s) T) = Some Tr ->
  divide_segment cfg s T (fpt ix iy) = Ok s' ->
  exists r, ~ mapped NQ (sq_st s) r /\
    e_other (getE (sq_st s') T) = Some r /\ e_point (getE (sq_st s') r) = fpt ix iy /\
    (forall k, mapped NQ (sq_st s) k -> e_point (getE (sq_st s') k) = e_point (getE (sq_st s) k)) /\
    (forall k, mapped NQ (sq_st s) k -> k <> T -> k <> Tr -> e_other (getE (sq_st s') k) = e_other (getE (sq_st s) k)).
Proof.
  intros W MT MTr Hne OT Dv.
  destruct (divide_segment_shape NQ cfg s s' T Tr (fpt ix iy) W MT MTr Hne OT Dv)
    as (r & l & i' & Nr & _ & _ & A1 & _ & _ & _ & A5 & _ & Ei & Keep & KeepO).
  exists r. rewrite bump_dead_exact in Ei. subst i'. auto.
Qed.

(** ** the geometric core *)
Definition meet_at_ends (p1x p1y n1x n1y p2x p2y n2x n2y : Q) : Prop :=
  forall x y, on_seg p1x p1y n1x n1y x y -> on_seg p2x p2y n2x n2y x y ->
    (qeqp x y p1x p1y \/ qeqp x y n1x n1y) /\ (qeqp x y p2x p2y \/ qeqp x y n2x n2y).

Lemma crossing_core p1x p1y o1x o1y p2x p2y o2x o2y ix iy n1x n1y n2x n2y :
  (forall x y, on_both p1x p1y o1x o1y p2x p2y o2x o2y x y -> x == ix /\ y == iy) ->
  on_seg p1x p1y o1x o1y n1x n1y -> on_seg p2x p2y o2x o2y n2x n2y ->
  (qeqp ix iy p1x p1y \/ qeqp ix iy n1x n1y) -> (qeqp ix iy p2x p2y \/ qeqp ix iy n2x n2y) ->
  meet_at_ends p1x p1y n1x n1y p2x p2y n2x n2y.
Proof.
  intros U N1 N2 E1 E2 x y H1 H2.
  assert (K1 : on_seg p1x p1y o1x o1y x y) by (eapply on_seg_convex; [apply on_seg_l | exact N1 | exact H1]).
  assert (K2 : on_seg p2x p2y o2x o2y x y) by (eapply on_seg_convex; [apply on_seg_l | exact N2 | exact H2]).
  destruct (U x y (seg_both _ _ _ _ _ _ _ _ _ _ K1 K2)) as [Ex Ey].
  unfold qeqp in *. split.
  - destruct E1 as [[A B]|[A B]]; [left | right]; split; lra.
  - destruct E2 as [[A B]|[A B]]; [left | right]; split; lra.
Qed.

Ltac split9 := refine (conj _ (conj _ (conj _ (conj _ (conj _ (conj _ (conj _ (conj _ _)))))))).

Section Resolve.
Variable edges : list edge.
Variable cfg : config.

Theorem pi_crossing_resolved (s s' : sq NQ) (se1 se2 other1 other2 : eid) (code : nat) (inter : pt NQ)
        (p1x p1y o1x o1y p2x p2y o2x o2y : Q) :
  sqinv NQ s -> einv2 edges (sq_st s) -> mapped NQ (sq_st s) se1 -> mapped NQ (sq_st s) se2 ->
  e_left (getE (sq_st s) se1) = true -> e_left (getE (sq_st s) se2) = true ->
  e_other (getE (sq_st s) se1) = Some other1 -> e_other (getE (sq_st s) se2) = Some other2 ->
  e_point (getE (sq_st s) se1) = fpt p1x p1y -> e_point (getE (sq_st s) other1) = fpt o1x o1y ->
  e_point (getE (sq_st s) se2) = fpt p2x p2y -> e_point (getE (sq_st s) other2) = fpt o2x o2y ->
  intersection (fpt p1x p1y) (fpt o1x o1y) (fpt p2x p2y) (fpt o2x o2y) = LPoint inter ->
  possible_intersection cfg s se1 se2 = Ok (s', code) ->
  exists n1 n2 n1x n1y n2x n2y,
    e_other (getE (sq_st s') se1) = Some n1 /\ e_other (getE (sq_st s') se2) = Some n2 /\
    e_point (getE (sq_st s') se1) = fpt p1x p1y /\ e_point (getE (sq_st s') se2) = fpt p2x p2y /\
    e_point (getE (sq_st s') n1) = fpt n1x n1y /\ e_point (getE (sq_st s') n2) = fpt n2x n2y /\
    on_seg p1x p1y o1x o1y n1x n1y /\ on_seg p2x p2y o2x o2y n2x n2y /\
    meet_at_ends p1x p1y n1x n1y p2x p2y n2x n2y.
Proof.
  intros S E M1 M2 Lf1 Lf2 O1 O2 P1 Q1 P2 Q2 EI. pose proof S as [[W L] Q].
  destruct (L se1 M1) as (other1' & O1' & Hne1 & Mo1 & Back1 & _).
  destruct (L se2 M2) as (other2' & O2' & Hne2 & Mo2 & Back2 & _).
  assert (other1' = other1) by congruence. assert (other2' = other2) by congruence. subst other1' other2'.
  destruct (E se1 other1 M1 O1) as (u1 & u2 & u3 & u4 & a1x & a1y & b1x & b1y & P1' & Q1' & D1 & _ & _ & _ & F1 & _).
  destruct (E se2 other2 M2 O2) as (v1 & v2 & v3 & v4 & a2x & a2y & b2x & b2y & P2' & Q2' & D2 & _ & _ & _ & F2 & _).
  rewrite P1 in P1'. rewrite Q1 in Q1'. rewrite P2 in P2'. rewrite Q2 in Q2'.
  apply fpt_inj in P1', Q1', P2', Q2'. destruct P1' as [<- <-], Q1' as [<- <-], P2' as [<- <-], Q2' as [<- <-].
  rewrite Lf1 in F1. rewrite Lf2 in F2. cbn [negb] in F1, F2.
  assert (N2o : se2 <> other1) by (intros K; rewrite K in Lf2; congruence).
  assert (N1o : se1 <> other2) by (intros K; rewrite K in Lf1; congruence).
  assert (Hne : ~ (o1x == p1x /\ o1y == p1y)) by (intros [K1 K2]; apply D1; split; symmetry; assumption).
  pose proof (@intersection_exact_all p1x p1y o1x o1y p2x p2y o2x o2y Hne) as EX. rewrite EI in EX.
  cbn [exact_result] in EX. destruct EX as (ix & iy & -> & Hon).
  pose proof (intersection_point_unique p1x p1y o1x o1y p2x p2y o2x o2y ix iy Hne EI) as U.
  destruct (on_both_seg1 _ _ _ _ _ _ _ _ _ _ Hon) as [On1 On2].
  unfold possible_intersection. rewrite O1, O2. unfold point_of. rewrite P1, Q1, P2, Q2, EI.
  (* the answer when nothing is divided *)
  assert (Same : (qeqp ix iy p1x p1y \/ qeqp ix iy o1x o1y) -> (qeqp ix iy p2x p2y \/ qeqp ix iy o2x o2y) ->
          exists n1 n2 n1x n1y n2x n2y,
            e_other (getE (sq_st s) se1) = Some n1 /\ e_other (getE (sq_st s) se2) = Some n2 /\
            e_point (getE (sq_st s) se1) = fpt p1x p1y /\ e_point (getE (sq_st s) se2) = fpt p2x p2y /\
            e_point (getE (sq_st s) n1) = fpt n1x n1y /\ e_point (getE (sq_st s) n2) = fpt n2x n2y /\
            on_seg p1x p1y o1x o1y n1x n1y /\ on_seg p2x p2y o2x o2y n2x n2y /\
            meet_at_ends p1x p1y n1x n1y p2x p2y n2x n2y).
  { intros E1 E2. exists other1, other2, o1x, o1y, o2x, o2y. split9; try assumption; try apply on_seg_r.
    apply (crossing_core p1x p1y o1x o1y p2x p2y o2x o2y ix iy); auto using on_seg_r. }
  destruct (pt_eq (fpt p1x p1y) (fpt p2x p2y) || pt_eq (fpt o1x o1y) (fpt o2x o2y)) eqn:Eends.
  { intros H; inversion H; subst s' code. apply orb_true_iff in Eends. destruct Eends as [K|K]; apply pt_eq_fpt in K.
    - (* common left end: it is the common point *)
      assert (C : on_both p1x p1y o1x o1y p2x p2y o2x o2y p1x p1y).
      { apply seg_both; [apply on_seg_l|]. destruct K as [K1 K2].
        eapply on_seg_eqv; [| | | | | | apply (on_seg_l p2x p2y o2x o2y)]; try reflexivity; symmetry; assumption. }
      destruct (U _ _ C) as [Ex Ey]. destruct K as [K1 K2].
      apply Same; left; split; lra.
    - assert (C : on_both p1x p1y o1x o1y p2x p2y o2x o2y o1x o1y).
      { apply seg_both; [apply on_seg_r|]. destruct K as [K1 K2].
        eapply on_seg_eqv; [| | | | | | apply (on_seg_r p2x p2y o2x o2y)]; try reflexivity; symmetry; assumption. }
      destruct (U _ _ C) as [Ex Ey]. destruct K as [K1 K2].
      apply Same; right; split; lra. }
  apply orb_false_iff in Eends. destruct Eends as [Ep Eo].
  assert (N21 : se2 <> se1).
  { intros K. rewrite K in P2. rewrite P1 in P2. apply fpt_inj in P2. destruct P2 as [<- <-].
    apply pt_eq_fpt_false in Ep. apply Ep. split; reflexivity. }
  set (c1 := negb (pt_eq (fpt p1x p1y) (fpt ix iy)) && negb (pt_eq (fpt o1x o1y) (fpt ix iy))).
  set (c2 := negb (pt_eq (fpt p2x p2y) (fpt ix iy)) && negb (pt_eq (fpt o2x o2y) (fpt ix iy))).
  assert (End1 : c1 = false -> qeqp ix iy p1x p1y \/ qeqp ix iy o1x o1y).
  { unfold c1. intros K. apply andb_false_iff in K. destruct K as [K|K]; apply negb_false_iff, pt_eq_fpt in K;
      [left | right]; now apply qeqp_sym. }
  assert (End2 : c2 = false -> qeqp ix iy p2x p2y \/ qeqp ix iy o2x o2y).
  { unfold c2. intros K. apply andb_false_iff in K. destruct K as [K|K]; apply negb_false_iff, pt_eq_fpt in K;
      [left | right]; now apply qeqp_sym. }
  assert (Rf : qeqp ix iy ix iy) by (split; reflexivity).
  destruct c1 eqn:C1.
  - pose proof (divide_segment_inv NQ cfg s se1 (fpt ix iy) S M1) as DI.
    destruct (divide_segment cfg s se1 (fpt ix iy)) as [s1|site|] eqn:Dv1; cbn [obind]; try discriminate.
    destruct DI as [[[W1 L1] Q1s] G1].
    destruct (div_shape_q cfg s s1 se1 other1 ix iy W M1 Mo1 Hne1 O1 Dv1) as (r1 & Nr1 & A1 & B1 & Keep1 & KeepO1).
    assert (O2a : e_other (getE (sq_st s1) se2) = Some other2) by (rewrite (KeepO1 se2 M2 N21 N2o); exact O2).
    assert (P1a : e_point (getE (sq_st s1) se1) = fpt p1x p1y) by (rewrite (Keep1 se1 M1); exact P1).
    assert (P2a : e_point (getE (sq_st s1) se2) = fpt p2x p2y) by (rewrite (Keep1 se2 M2); exact P2).
    assert (Q2a : e_point (getE (sq_st s1) other2) = fpt o2x o2y) by (rewrite (Keep1 other2 Mo2); exact Q2).
    assert (Mr1 : mapped NQ (sq_st s1) r1).
    { destruct (mapped_dec NQ (sq_st s1) r1) as [K|K]; [exact K|].
      destruct (L1 se1 (G1 _ M1)) as (o & Oo & _ & Mo & _). congruence. }
    destruct c2 eqn:C2.
    + destruct (divide_segment cfg s1 se2 (fpt ix iy)) as [s2|site|] eqn:Dv2; cbn [obind]; try discriminate.
      intros H; inversion H; subst s' code.
      destruct (div_shape_q cfg s1 s2 se2 other2 ix iy W1 (G1 _ M2) (G1 _ Mo2) Hne2 O2a Dv2) as (r2 & Nr2 & A2 & B2 & Keep2 & KeepO2).
      assert (Nr12 : r1 <> other2) by (intros K; apply Nr1; rewrite K; exact Mo2).
      assert (N1r : se1 <> se2) by (intros K; apply N21; now symmetry).
      exists r1, r2, ix, iy, ix, iy. split9.
      * rewrite (KeepO2 se1 (G1 _ M1) N1r N1o). exact A1.
      * exact A2.
      * rewrite (Keep2 se1 (G1 _ M1)). exact P1a.
      * rewrite (Keep2 se2 (G1 _ M2)). exact P2a.
      * rewrite (Keep2 r1 Mr1). exact B1.
      * exact B2.
      * exact On1.
      * exact On2.
      * apply (crossing_core p1x p1y o1x o1y p2x p2y o2x o2y ix iy); auto.
    + intros H; inversion H; subst s' code.
      exists r1, other2, ix, iy, o2x, o2y. split9; try assumption; try apply on_seg_r.
      apply (crossing_core p1x p1y o1x o1y p2x p2y o2x o2y ix iy); auto using on_seg_r.
  - cbn [obind]. destruct c2 eqn:C2.
    + destruct (divide_segment cfg s se2 (fpt ix iy)) as [s2|site|] eqn:Dv2; cbn [obind]; try discriminate.
      intros H; inversion H; subst s' code.
      destruct (div_shape_q cfg s s2 se2 other2 ix iy W M2 Mo2 Hne2 O2 Dv2) as (r2 & Nr2 & A2 & B2 & Keep2 & KeepO2).
      assert (N1r : se1 <> se2) by (intros K; apply N21; now symmetry).
      exists other1, r2, o1x, o1y, ix, iy. split9.
      * rewrite (KeepO2 se1 M1 N1r N1o). exact O1.
      * exact A2.
      * rewrite (Keep2 se1 M1). exact P1.
      * rewrite (Keep2 se2 M2). exact P2.
      * rewrite (Keep2 other1 Mo1). exact Q1.
      * exact B2.
      * apply on_seg_r.
      * exact On2.
      * apply (crossing_core p1x p1y o1x o1y p2x p2y o2x o2y ix iy); auto using on_seg_r.
    + intros H; inversion H; subst s' code. apply Same; auto.
Qed.

End Resolve.

(** * ... and an overlap of segments of different operands: afterwards the two sub-segments
    that start at [se1] and [se2] either meet in end points only or coincide completely. *)

(** one division, with the second new event *)
Lemma div_shape_q2 cfg (s s' : sq NQ) (T Tr : eid) (ix iy : Q) :
  wf NQ (sq_st s) -> mapped NQ (sq_st s) T -> mapped NQ (sq_st s) Tr -> Tr <> T ->
  e_other (getE (sq_st s) T) = Some Tr ->
  divide_segment cfg s T (fpt ix iy) = Ok s' ->
  exists r l, ~ mapped NQ (sq_st s) r /\ ~ mapped NQ (sq_st s) l /\
    e_other (getE (sq_st s') T) = Some r /\ e_other (getE (sq_st s') l) = Some Tr /\
    e_other (getE (sq_st s') Tr) = Some l /\
    e_point (getE (sq_st s') r) = fpt ix iy /\ e_point (getE (sq_st s') l) = fpt ix iy /\
    (forall k, mapped NQ (sq_st s) k -> e_point (getE (sq_st s') k) = e_point (getE (sq_st s) k)) /\
    (forall k, mapped NQ (sq_st s) k -> k <> T -> k <> Tr -> e_other (getE (sq_st s') k) = e_other (getE (sq_st s) k)).
Proof.
  intros W MT MTr Hne OT Dv.
  destruct (divide_segment_shape NQ cfg s s' T Tr (fpt ix iy) W MT MTr Hne OT Dv)
    as (r & l & i' & Nr & Nl & _ & A1 & _ & A3 & A4 & A5 & A6 & Ei & Keep & KeepO).
  exists r, l. rewrite bump_dead_exact in Ei. rewrite Ei in A5, A6.
  exact (conj Nr (conj Nl (conj A1 (conj A3 (conj A4 (conj A5 (conj A6 (conj Keep KeepO)))))))).
Qed.

Section ParamGeo.
Variables ax ay bx by_ : Q.
Hypothesis Hab : lexlt ax ay bx by_.
Notation hp := (has_param ax ay bx by_).

Lemma ov_on u v w lx ly rx ry ix iy :
  hp u lx ly -> hp v rx ry -> hp w ix iy -> u < v -> u <= w <= v -> on_seg lx ly rx ry ix iy.
Proof.
  intros [L1 L2] [R1 R2] [I1 I2] Huv Hw. exists ((w - u) / (v - u)). split.
  - split; [apply Qle_shift_div_l | apply Qle_shift_div_r]; lra.
  - rewrite L1, L2, R1, R2, I1, I2. split; field; lra.
Qed.

Lemma on_param u v lx ly rx ry x y :
  hp u lx ly -> hp v rx ry -> u <= v -> on_seg lx ly rx ry x y -> exists w, u <= w <= v /\ hp w x y.
Proof.
  intros [L1 L2] [R1 R2] Huv (t & Ht & Hx & Hy). exists (u + t * (v - u)). split; [nra|].
  split; [rewrite Hx, L1, R1 | rewrite Hy, L2, R2]; ring.
Qed.

Lemma ov_meet u1 v1 u2 v2 p1x p1y n1x n1y p2x p2y n2x n2y :
  hp u1 p1x p1y -> hp v1 n1x n1y -> hp u2 p2x p2y -> hp v2 n2x n2y ->
  u1 <= v1 -> u2 <= v2 -> (v1 == u2 \/ v2 == u1) ->
  meet_at_ends p1x p1y n1x n1y p2x p2y n2x n2y.
Proof.
  intros A1 B1 A2 B2 H1 H2 Hm x y S1 S2.
  destruct (on_param u1 v1 _ _ _ _ x y A1 B1 H1 S1) as (w & Hw & Pw).
  destruct (on_param u2 v2 _ _ _ _ x y A2 B2 H2 S2) as (w' & Hw' & Pw').
  assert (Eww : w == w') by (apply (qeqp_params ax ay bx by_ Hab w w' x y x y Pw Pw'); split; reflexivity).
  destruct Hm as [K|K].
  - split; [right; apply (qeqp_params ax ay bx by_ Hab w v1 x y n1x n1y Pw B1) | left; apply (qeqp_params ax ay bx by_ Hab w u2 x y p2x p2y Pw A2)]; lra.
  - split; [left; apply (qeqp_params ax ay bx by_ Hab w u1 x y p1x p1y Pw A1) | right; apply (qeqp_params ax ay bx by_ Hab w v2 x y n2x n2y Pw B2)]; lra.
Qed.
End ParamGeo.

Section ResolveOverlap.
Variable edges : list edge.
Variable cfg : config.

Definition resolved (p1x p1y n1x n1y p2x p2y n2x n2y : Q) : Prop :=
  meet_at_ends p1x p1y n1x n1y p2x p2y n2x n2y \/ (qeqp p1x p1y p2x p2y /\ qeqp n1x n1y n2x n2y).

Theorem pi_overlap_resolved (s s' : sq NQ) (se1 se2 other1 other2 : eid) (code : nat) (ia ib : pt NQ)
        (p1x p1y o1x o1y p2x p2y o2x o2y : Q) :
  sqinv NQ s -> einv2 edges (sq_st s) -> mapped NQ (sq_st s) se1 -> mapped NQ (sq_st s) se2 ->
  e_left (getE (sq_st s) se1) = true -> e_left (getE (sq_st s) se2) = true ->
  e_other (getE (sq_st s) se1) = Some other1 -> e_other (getE (sq_st s) se2) = Some other2 ->
  e_point (getE (sq_st s) se1) = fpt p1x p1y -> e_point (getE (sq_st s) other1) = fpt o1x o1y ->
  e_point (getE (sq_st s) se2) = fpt p2x p2y -> e_point (getE (sq_st s) other2) = fpt o2x o2y ->
  e_is_subject (getE (sq_st s) se1) <> e_is_subject (getE (sq_st s) se2) ->
  intersection (fpt p1x p1y) (fpt o1x o1y) (fpt p2x p2y) (fpt o2x o2y) = LOverlap ia ib ->
  possible_intersection cfg s se1 se2 = Ok (s', code) ->
  exists n1 n2 n1x n1y n2x n2y,
    e_other (getE (sq_st s') se1) = Some n1 /\ e_other (getE (sq_st s') se2) = Some n2 /\
    e_point (getE (sq_st s') se1) = fpt p1x p1y /\ e_point (getE (sq_st s') se2) = fpt p2x p2y /\
    e_point (getE (sq_st s') n1) = fpt n1x n1y /\ e_point (getE (sq_st s') n2) = fpt n2x n2y /\
    on_seg p1x p1y o1x o1y n1x n1y /\ on_seg p2x p2y o2x o2y n2x n2y /\
    resolved p1x p1y n1x n1y p2x p2y n2x n2y.
Proof.
  intros S E M1 M2 Lf1 Lf2 O1 O2 P1 Q1 P2 Q2 Hsub EI. pose proof S as [[W L] Q].
  destruct (L se1 M1) as (other1' & O1' & Hne1 & Mo1 & Back1 & _).
  destruct (L se2 M2) as (other2' & O2' & Hne2 & Mo2 & Back2 & _).
  assert (other1' = other1) by congruence. assert (other2' = other2) by congruence. subst other1' other2'.
  destruct (E se1 other1 M1 O1) as (u1 & u2 & u3 & u4 & a1x & a1y & b1x & b1y & P1' & Q1' & D1 & _ & _ & _ & F1 & Lx1).
  destruct (E se2 other2 M2 O2) as (v1 & v2 & v3 & v4 & a2x & a2y & b2x & b2y & P2' & Q2' & D2 & _ & _ & _ & F2 & Lx2).
  rewrite P1 in P1'. rewrite Q1 in Q1'. rewrite P2 in P2'. rewrite Q2 in Q2'.
  apply fpt_inj in P1', Q1', P2', Q2'. destruct P1' as [<- <-], Q1' as [<- <-], P2' as [<- <-], Q2' as [<- <-].
  rewrite Lf1 in F1. rewrite Lf2 in F2. cbn [negb] in F1, F2. specialize (Lx1 Lf1). specialize (Lx2 Lf2).
  assert (N2o : se2 <> other1) by (intros K; rewrite K in Lf2; congruence).
  assert (N1o : se1 <> other2) by (intros K; rewrite K in Lf1; congruence).
  assert (N12 : se1 <> se2) by (intros K; apply Hsub; rewrite K; reflexivity).
  assert (N21s : se2 <> se1) by (intros K; apply N12; now symmetry).
  unfold possible_intersection. rewrite O1, O2. unfold point_of. rewrite P1, Q1, P2, Q2, EI.
  destruct (eqb (e_is_subject (getE (sq_st s) se1)) (e_is_subject (getE (sq_st s) se2))) eqn:Esub;
    [apply eqb_prop in Esub; contradiction|].
  destruct (overlap_params _ _ _ _ _ _ _ _ _ _ Lx1 Lx2 EI) as (al & be & Hab & Ha1 & Hb0 & X2 & Y2 & X3 & Y3).
  assert (Pp1 : has_param p1x p1y o1x o1y 0 p1x p1y) by (split; ring).
  assert (Po1 : has_param p1x p1y o1x o1y 1 o1x o1y) by (split; ring).
  assert (Pp2 : has_param p1x p1y o1x o1y al p2x p2y) by (split; assumption).
  assert (Po2 : has_param p1x p1y o1x o1y be o2x o2y) by (split; assumption).
  assert (N21 : pt_eq (fpt p1x p1y) (fpt p2x p2y) = false -> se2 <> se1).
  { intros Ep K. rewrite K in P2. rewrite P1 in P2. apply fpt_inj in P2. destruct P2 as [<- <-].
    apply pt_eq_fpt_false in Ep. apply Ep. split; reflexivity. }
  (* the store after the two edge-type updates *)
  set (ty := if eqb (e_in_out (getE (sq_st s) se1)) (e_in_out (getE (sq_st s) se2)) then SameTransition else DifferentTransition).
  set (st1 := upd (sq_st s) se2 (fun e => set_edge_type e NonContributing)).
  set (st2 := upd st1 se1 (fun e => set_edge_type e ty)).
  assert (K2 : forall k, e_point (getE st2 k) = e_point (getE (sq_st s) k) /\ e_other (getE st2 k) = e_other (getE (sq_st s) k)).
  { intros k.
    destruct (getE_upd_keeps_e2 st1 se1 (fun e => set_edge_type e ty) k (k2_set_edge_type ty)) as (A1 & A2 & _ & A4).
    destruct (getE_upd_keeps_e2 (sq_st s) se2 (fun e => set_edge_type e NonContributing) k (k2_set_edge_type NonContributing)) as (B1 & B2 & _ & B4).
    fold st1 in B1, B2, B4. fold st2 in A1, A2, A4. split; congruence. }
  assert (M1' : mapped NQ st1 se1) by (apply mapped_upd; now right).
  destruct (sqinv_set_edge_type NQ s se2 NonContributing S M2) as [Sa Ga].
  destruct (sqinv_set_edge_type NQ (mkSQ st1 (sq_q s)) se1 ty Sa M1') as [Sb Gb]. cbn [sq_st sq_q] in Sb, Gb. fold st2 in Sb, Gb.
  assert (G2 : forall k, mapped NQ (sq_st s) k -> mapped NQ st2 k) by (intros k Mk; apply Gb, Ga, Mk).
  destruct (pt_eq (fpt p1x p1y) (fpt p2x p2y)) eqn:LC; destruct (pt_eq (fpt o1x o1y) (fpt o2x o2y)) eqn:RC.
  - (* both ends coincide *)
    cbn [negb app obind]. fold ty. fold st1. fold st2. intros H; inversion H; subst s' code. cbn [sq_st].
    apply pt_eq_fpt in LC, RC.
    exists other1, other2, o1x, o1y, o2x, o2y. split9.
    + rewrite (proj2 (K2 se1)); exact O1.
    + rewrite (proj2 (K2 se2)); exact O2.
    + rewrite (proj1 (K2 se1)); exact P1.
    + rewrite (proj1 (K2 se2)); exact P2.
    + rewrite (proj1 (K2 other1)); exact Q1.
    + rewrite (proj1 (K2 other2)); exact Q2.
    + apply on_seg_r.
    + apply on_seg_r.
    + right. split; assumption.
  - (* left ends coincide: the longer one is cut at the right end of the shorter one; the pieces coincide *)
    apply pt_eq_fpt in LC. apply pt_eq_fpt_false in RC.
    assert (Al0 : al == 0) by (symmetry; apply (qeqp_params p1x p1y o1x o1y Lx1 0 al p1x p1y p2x p2y Pp1 Pp2); exact LC).
    assert (Be1 : ~ be == 1) by (intros K; apply RC; apply (qeqp_params p1x p1y o1x o1y Lx1 1 be o1x o1y o2x o2y Po1 Po2); symmetry; exact K).
    cbn [negb app]. fold ty. fold st1. fold st2.
    assert (W2 : wf NQ st2) by (destruct Sb as [[X _] _]; exact X).
    destruct (ev_lt (sq_st s) other1 other2) eqn:C2; cbn [nth_ev nth fst snd].
    + (* be < 1: se1 is cut at o2 *)
      apply (ev_lt_lex (sq_st s) other1 other2 o1x o1y o2x o2y Q1 Q2 RC) in C2.
      apply (lexlt_params p1x p1y o1x o1y Lx1 be 1 o2x o2y o1x o1y Po2 Po1) in C2.
      unfold point_of. rewrite (proj1 (K2 other2)), Q2.
      destruct (divide_segment cfg (mkSQ st2 (sq_q s)) se1 (fpt o2x o2y)) as [s3|site|] eqn:Dv; cbn [obind]; try discriminate.
      intros H; inversion H; subst s' code.
      assert (OT : e_other (getE (sq_st (mkSQ st2 (sq_q s))) se1) = Some other1) by (cbn [sq_st]; rewrite (proj2 (K2 se1)); exact O1).
      destruct (div_shape_q2 cfg (mkSQ st2 (sq_q s)) s3 se1 other1 o2x o2y W2 (G2 _ M1) (G2 _ Mo1) Hne1 OT Dv)
        as (r & l & Nr & Nl & A1 & A2 & A3 & B1 & B2 & Keep & KeepO). cbn [sq_st] in Nr, Nl, Keep, KeepO.
      exists r, other2, o2x, o2y, o2x, o2y. split9.
      * exact A1.
      * rewrite (KeepO se2 (G2 _ M2) N21s N2o), (proj2 (K2 se2)). exact O2.
      * rewrite (Keep se1 (G2 _ M1)), (proj1 (K2 se1)). exact P1.
      * rewrite (Keep se2 (G2 _ M2)), (proj1 (K2 se2)). exact P2.
      * exact B1.
      * rewrite (Keep other2 (G2 _ Mo2)), (proj1 (K2 other2)). exact Q2.
      * apply (ov_on p1x p1y o1x o1y 0 1 be _ _ _ _ _ _ Pp1 Po1 Po2); lra.
      * apply on_seg_r.
      * right. split; [exact LC | split; reflexivity].
    + (* 1 < be: se2 is cut at o1 *)
      apply (ev_lt_lex_false (sq_st s) other1 other2 o1x o1y o2x o2y Q1 Q2 RC) in C2.
      apply (lexlt_params p1x p1y o1x o1y Lx1 1 be o1x o1y o2x o2y Po1 Po2) in C2.
      unfold point_of. rewrite (proj1 (K2 other1)), Q1.
      destruct (divide_segment cfg (mkSQ st2 (sq_q s)) se2 (fpt o1x o1y)) as [s3|site|] eqn:Dv; cbn [obind]; try discriminate.
      intros H; inversion H; subst s' code.
      assert (OT : e_other (getE (sq_st (mkSQ st2 (sq_q s))) se2) = Some other2) by (cbn [sq_st]; rewrite (proj2 (K2 se2)); exact O2).
      destruct (div_shape_q2 cfg (mkSQ st2 (sq_q s)) s3 se2 other2 o1x o1y W2 (G2 _ M2) (G2 _ Mo2) Hne2 OT Dv)
        as (r & l & Nr & Nl & A1 & A2 & A3 & B1 & B2 & Keep & KeepO). cbn [sq_st] in Nr, Nl, Keep, KeepO.
      exists other1, r, o1x, o1y, o1x, o1y. split9.
      * rewrite (KeepO se1 (G2 _ M1) N12 N1o), (proj2 (K2 se1)). exact O1.
      * exact A1.
      * rewrite (Keep se1 (G2 _ M1)), (proj1 (K2 se1)). exact P1.
      * rewrite (Keep se2 (G2 _ M2)), (proj1 (K2 se2)). exact P2.
      * rewrite (Keep other1 (G2 _ Mo1)), (proj1 (K2 other1)). exact Q1.
      * exact B1.
      * apply on_seg_r.
      * apply (ov_on p1x p1y o1x o1y al be 1 _ _ _ _ _ _ Pp2 Po2 Po1); lra.
      * right. split; [exact LC | split; reflexivity].
  - (* right ends coincide: the earlier one is cut at the left end of the later one *)
    apply pt_eq_fpt_false in LC. apply pt_eq_fpt in RC.
    assert (Be1 : be == 1) by (symmetry; apply (qeqp_params p1x p1y o1x o1y Lx1 1 be o1x o1y o2x o2y Po1 Po2); exact RC).
    assert (Al0 : ~ al == 0) by (intros K; apply LC; apply (qeqp_params p1x p1y o1x o1y Lx1 0 al p1x p1y p2x p2y Pp1 Pp2); symmetry; exact K).
    cbn [negb app]. rewrite app_nil_r.
    destruct (ev_lt (sq_st s) se1 se2) eqn:C1; cbn [nth_ev nth fst snd].
    + (* al < 0: se2 is cut at p1 *)
      apply (ev_lt_lex (sq_st s) se1 se2 p1x p1y p2x p2y P1 P2 LC) in C1.
      apply (lexlt_params p1x p1y o1x o1y Lx1 al 0 p2x p2y p1x p1y Pp2 Pp1) in C1.
      unfold point_of. rewrite P1.
      destruct (divide_segment cfg s se2 (fpt p1x p1y)) as [s1|site|] eqn:Dv; cbn [obind]; try discriminate.
      intros H; inversion H; subst s' code.
      destruct (div_shape_q2 cfg s s1 se2 other2 p1x p1y W M2 Mo2 Hne2 O2 Dv)
        as (r & l & Nr & Nl & A1 & A2 & A3 & B1 & B2 & Keep & KeepO).
      exists other1, r, o1x, o1y, p1x, p1y. split9.
      * rewrite (KeepO se1 M1 N12 N1o). exact O1.
      * exact A1.
      * rewrite (Keep se1 M1). exact P1.
      * rewrite (Keep se2 M2). exact P2.
      * rewrite (Keep other1 Mo1). exact Q1.
      * exact B1.
      * apply on_seg_r.
      * apply (ov_on p1x p1y o1x o1y al be 0 _ _ _ _ _ _ Pp2 Po2 Pp1); lra.
      * left. apply (ov_meet p1x p1y o1x o1y Lx1 0 1 al 0 _ _ _ _ _ _ _ _ Pp1 Po1 Pp2 Pp1); try lra; try (right; reflexivity).
    + (* 0 < al: se1 is cut at p2 *)
      apply (ev_lt_lex_false (sq_st s) se1 se2 p1x p1y p2x p2y P1 P2 LC) in C1.
      apply (lexlt_params p1x p1y o1x o1y Lx1 0 al p1x p1y p2x p2y Pp1 Pp2) in C1.
      unfold point_of. rewrite P2.
      destruct (divide_segment cfg s se1 (fpt p2x p2y)) as [s1|site|] eqn:Dv; cbn [obind]; try discriminate.
      intros H; inversion H; subst s' code.
      destruct (div_shape_q2 cfg s s1 se1 other1 p2x p2y W M1 Mo1 Hne1 O1 Dv)
        as (r & l & Nr & Nl & A1 & A2 & A3 & B1 & B2 & Keep & KeepO).
      exists r, other2, p2x, p2y, o2x, o2y. split9.
      * exact A1.
      * rewrite (KeepO se2 M2 N21s N2o). exact O2.
      * rewrite (Keep se1 M1). exact P1.
      * rewrite (Keep se2 M2). exact P2.
      * exact B1.
      * rewrite (Keep other2 Mo2). exact Q2.
      * apply (ov_on p1x p1y o1x o1y 0 1 al _ _ _ _ _ _ Pp1 Po1 Pp2); lra.
      * apply on_seg_r.
      * left. apply (ov_meet p1x p1y o1x o1y Lx1 0 al al be _ _ _ _ _ _ _ _ Pp1 Pp2 Pp2 Po2); try lra; try (left; reflexivity).
  - (* four distinct ends *)
    apply pt_eq_fpt_false in LC. apply pt_eq_fpt_false in RC.
    assert (Be1 : ~ be == 1) by (intros K; apply RC; apply (qeqp_params p1x p1y o1x o1y Lx1 1 be o1x o1y o2x o2y Po1 Po2); symmetry; exact K).
    assert (Al0 : ~ al == 0) by (intros K; apply LC; apply (qeqp_params p1x p1y o1x o1y Lx1 0 al p1x p1y p2x p2y Pp1 Pp2); symmetry; exact K).
    cbn [negb].
    destruct (ev_lt (sq_st s) se1 se2) eqn:C1; destruct (ev_lt (sq_st s) other1 other2) eqn:C2;
      cbn [app nth_ev nth fst snd].
    + (* al < 0, be < 1: se2 is cut at p1, se1 at o2 *)
      apply (ev_lt_lex (sq_st s) se1 se2 p1x p1y p2x p2y P1 P2 LC) in C1.
      apply (lexlt_params p1x p1y o1x o1y Lx1 al 0 p2x p2y p1x p1y Pp2 Pp1) in C1.
      apply (ev_lt_lex (sq_st s) other1 other2 o1x o1y o2x o2y Q1 Q2 RC) in C2.
      apply (lexlt_params p1x p1y o1x o1y Lx1 be 1 o2x o2y o1x o1y Po2 Po1) in C2.
      rewrite (proj2 (Pos.eqb_neq se2 se1) N21s). cbn [negb].
      rewrite P1.
      pose proof (divide_segment_inv NQ cfg s se2 (fpt p1x p1y) S M2) as DI.
      destruct (divide_segment cfg s se2 (fpt p1x p1y)) as [s1|site|] eqn:Dv1; cbn [obind]; try discriminate.
      destruct DI as [[[W1 L1] Q1s] G1].
      destruct (div_shape_q2 cfg s s1 se2 other2 p1x p1y W M2 Mo2 Hne2 O2 Dv1)
        as (r & l & Nr & Nl & A1 & A2 & A3 & B1 & B2 & Keep & KeepO).
      unfold point_of. rewrite (Keep other2 Mo2), Q2.
      destruct (divide_segment cfg s1 se1 (fpt o2x o2y)) as [s2|site|] eqn:Dv2; cbn [obind]; try discriminate.
      intros H; inversion H; subst s' code.
      assert (OT : e_other (getE (sq_st s1) se1) = Some other1) by (rewrite (KeepO se1 M1 N12 N1o); exact O1).
      destruct (div_shape_q2 cfg s1 s2 se1 other1 o2x o2y W1 (G1 _ M1) (G1 _ Mo1) Hne1 OT Dv2)
        as (r' & l' & Nr' & Nl' & A1' & A2' & A3' & B1' & B2' & Keep' & KeepO').
      assert (Mr : mapped NQ (sq_st s1) r).
      { destruct (mapped_dec NQ (sq_st s1) r) as [K|K]; [exact K|].
        destruct (L1 se2 (G1 _ M2)) as (o & Oo & _ & Mo & _). congruence. }
      exists r', r, o2x, o2y, p1x, p1y. split9.
      * exact A1'.
      * rewrite (KeepO' se2 (G1 _ M2) N21s N2o). exact A1.
      * rewrite (Keep' se1 (G1 _ M1)), (Keep se1 M1). exact P1.
      * rewrite (Keep' se2 (G1 _ M2)), (Keep se2 M2). exact P2.
      * exact B1'.
      * rewrite (Keep' r Mr). exact B1.
      * apply (ov_on p1x p1y o1x o1y 0 1 be _ _ _ _ _ _ Pp1 Po1 Po2); lra.
      * apply (ov_on p1x p1y o1x o1y al be 0 _ _ _ _ _ _ Pp2 Po2 Pp1); lra.
      * left. apply (ov_meet p1x p1y o1x o1y Lx1 0 be al 0 _ _ _ _ _ _ _ _ Pp1 Po2 Pp2 Pp1); try lra; try (right; reflexivity).
    + (* al < 0, 1 < be: se2 contains se1; se2 is cut at p1 (and its rest at o1) *)
      apply (ev_lt_lex (sq_st s) se1 se2 p1x p1y p2x p2y P1 P2 LC) in C1.
      apply (lexlt_params p1x p1y o1x o1y Lx1 al 0 p2x p2y p1x p1y Pp2 Pp1) in C1.
      apply (ev_lt_lex_false (sq_st s) other1 other2 o1x o1y o2x o2y Q1 Q2 RC) in C2.
      apply (lexlt_params p1x p1y o1x o1y Lx1 1 be o1x o1y o2x o2y Po1 Po2) in C2.
      rewrite Pos.eqb_refl. cbn [negb].
      rewrite P1.
      pose proof (divide_segment_inv NQ cfg s se2 (fpt p1x p1y) S M2) as DI.
      destruct (divide_segment cfg s se2 (fpt p1x p1y)) as [s1|site|] eqn:Dv1; cbn [obind]; try discriminate.
      destruct DI as [[[W1 L1] Q1s] G1].
      destruct (div_shape_q2 cfg s s1 se2 other2 p1x p1y W M2 Mo2 Hne2 O2 Dv1)
        as (r & l & Nr & Nl & A1 & A2 & A3 & B1 & B2 & Keep & KeepO).
      unfold other_of. rewrite A3.
      unfold point_of. rewrite (Keep other1 Mo1), Q1.
      assert (Ml : mapped NQ (sq_st s1) l).
      { destruct (mapped_dec NQ (sq_st s1) l) as [K|K]; [exact K|]. rewrite (getE_unmapped_other _ _ K) in A2. discriminate. }
      assert (Mr : mapped NQ (sq_st s1) r).
      { destruct (mapped_dec NQ (sq_st s1) r) as [K|K]; [exact K|].
        destruct (L1 se2 (G1 _ M2)) as (o & Oo & _ & Mo & _). congruence. }
      destruct (divide_segment cfg s1 l (fpt o1x o1y)) as [s2|site|] eqn:Dv2; cbn [obind]; try discriminate.
      intros H; inversion H; subst s' code.
      assert (Hnl : other2 <> l) by (intros K; apply Nl; rewrite <- K; exact Mo2).
      destruct (div_shape_q2 cfg s1 s2 l other2 o1x o1y W1 Ml (G1 _ Mo2) Hnl A2 Dv2)
        as (r' & l' & Nr' & Nl' & A1' & A2' & A3' & B1' & B2' & Keep' & KeepO').
      assert (N1l : se1 <> l) by (intros K; apply Nl; rewrite <- K; exact M1).
      assert (N2l : se2 <> l) by (intros K; apply Nl; rewrite <- K; exact M2).
      exists other1, r, o1x, o1y, p1x, p1y. split9.
      * rewrite (KeepO' se1 (G1 _ M1) N1l N1o), (KeepO se1 M1 N12 N1o). exact O1.
      * rewrite (KeepO' se2 (G1 _ M2) N2l (not_eq_sym Hne2)). exact A1.
      * rewrite (Keep' se1 (G1 _ M1)), (Keep se1 M1). exact P1.
      * rewrite (Keep' se2 (G1 _ M2)), (Keep se2 M2). exact P2.
      * rewrite (Keep' other1 (G1 _ Mo1)), (Keep other1 Mo1). exact Q1.
      * rewrite (Keep' r Mr). exact B1.
      * apply on_seg_r.
      * apply (ov_on p1x p1y o1x o1y al be 0 _ _ _ _ _ _ Pp2 Po2 Pp1); lra.
      * left. apply (ov_meet p1x p1y o1x o1y Lx1 0 1 al 0 _ _ _ _ _ _ _ _ Pp1 Po1 Pp2 Pp1); try lra; try (right; reflexivity).
    + (* 0 < al, be < 1: se1 contains se2; se1 is cut at p2 (and its rest at o2) *)
      apply (ev_lt_lex_false (sq_st s) se1 se2 p1x p1y p2x p2y P1 P2 LC) in C1.
      apply (lexlt_params p1x p1y o1x o1y Lx1 0 al p1x p1y p2x p2y Pp1 Pp2) in C1.
      apply (ev_lt_lex (sq_st s) other1 other2 o1x o1y o2x o2y Q1 Q2 RC) in C2.
      apply (lexlt_params p1x p1y o1x o1y Lx1 be 1 o2x o2y o1x o1y Po2 Po1) in C2.
      rewrite Pos.eqb_refl. cbn [negb].
      rewrite P2.
      pose proof (divide_segment_inv NQ cfg s se1 (fpt p2x p2y) S M1) as DI.
      destruct (divide_segment cfg s se1 (fpt p2x p2y)) as [s1|site|] eqn:Dv1; cbn [obind]; try discriminate.
      destruct DI as [[[W1 L1] Q1s] G1].
      destruct (div_shape_q2 cfg s s1 se1 other1 p2x p2y W M1 Mo1 Hne1 O1 Dv1)
        as (r & l & Nr & Nl & A1 & A2 & A3 & B1 & B2 & Keep & KeepO).
      unfold other_of. rewrite A3.
      unfold point_of. rewrite (Keep other2 Mo2), Q2.
      assert (Ml : mapped NQ (sq_st s1) l).
      { destruct (mapped_dec NQ (sq_st s1) l) as [K|K]; [exact K|]. rewrite (getE_unmapped_other _ _ K) in A2. discriminate. }
      assert (Mr : mapped NQ (sq_st s1) r).
      { destruct (mapped_dec NQ (sq_st s1) r) as [K|K]; [exact K|].
        destruct (L1 se1 (G1 _ M1)) as (o & Oo & _ & Mo & _). congruence. }
      destruct (divide_segment cfg s1 l (fpt o2x o2y)) as [s2|site|] eqn:Dv2; cbn [obind]; try discriminate.
      intros H; inversion H; subst s' code.
      assert (Hnl : other1 <> l) by (intros K; apply Nl; rewrite <- K; exact Mo1).
      destruct (div_shape_q2 cfg s1 s2 l other1 o2x o2y W1 Ml (G1 _ Mo1) Hnl A2 Dv2)
        as (r' & l' & Nr' & Nl' & A1' & A2' & A3' & B1' & B2' & Keep' & KeepO').
      assert (N1l : se1 <> l) by (intros K; apply Nl; rewrite <- K; exact M1).
      assert (N2l : se2 <> l) by (intros K; apply Nl; rewrite <- K; exact M2).
      exists r, other2, p2x, p2y, o2x, o2y. split9.
      * rewrite (KeepO' se1 (G1 _ M1) N1l (not_eq_sym Hne1)). exact A1.
      * rewrite (KeepO' se2 (G1 _ M2) N2l N2o), (KeepO se2 M2 N21s N2o). exact O2.
      * rewrite (Keep' se1 (G1 _ M1)), (Keep se1 M1). exact P1.
      * rewrite (Keep' se2 (G1 _ M2)), (Keep se2 M2). exact P2.
      * rewrite (Keep' r Mr). exact B1.
      * rewrite (Keep' other2 (G1 _ Mo2)), (Keep other2 Mo2). exact Q2.
      * apply (ov_on p1x p1y o1x o1y 0 1 al _ _ _ _ _ _ Pp1 Po1 Pp2); lra.
      * apply on_seg_r.
      * left. apply (ov_meet p1x p1y o1x o1y Lx1 0 al al be _ _ _ _ _ _ _ _ Pp1 Pp2 Pp2 Po2); try lra; try (left; reflexivity).
    + (* 0 < al, 1 < be: se1 is cut at p2, se2 at o1 *)
      apply (ev_lt_lex_false (sq_st s) se1 se2 p1x p1y p2x p2y P1 P2 LC) in C1.
      apply (lexlt_params p1x p1y o1x o1y Lx1 0 al p1x p1y p2x p2y Pp1 Pp2) in C1.
      apply (ev_lt_lex_false (sq_st s) other1 other2 o1x o1y o2x o2y Q1 Q2 RC) in C2.
      apply (lexlt_params p1x p1y o1x o1y Lx1 1 be o1x o1y o2x o2y Po1 Po2) in C2.
      rewrite (proj2 (Pos.eqb_neq se1 se2) N12). cbn [negb].
      rewrite P2.
      pose proof (divide_segment_inv NQ cfg s se1 (fpt p2x p2y) S M1) as DI.
      destruct (divide_segment cfg s se1 (fpt p2x p2y)) as [s1|site|] eqn:Dv1; cbn [obind]; try discriminate.
      destruct DI as [[[W1 L1] Q1s] G1].
      destruct (div_shape_q2 cfg s s1 se1 other1 p2x p2y W M1 Mo1 Hne1 O1 Dv1)
        as (r & l & Nr & Nl & A1 & A2 & A3 & B1 & B2 & Keep & KeepO).
      unfold point_of. rewrite (Keep other1 Mo1), Q1.
      destruct (divide_segment cfg s1 se2 (fpt o1x o1y)) as [s2|site|] eqn:Dv2; cbn [obind]; try discriminate.
      intros H; inversion H; subst s' code.
      assert (OT : e_other (getE (sq_st s1) se2) = Some other2) by (rewrite (KeepO se2 M2 N21s N2o); exact O2).
      destruct (div_shape_q2 cfg s1 s2 se2 other2 o1x o1y W1 (G1 _ M2) (G1 _ Mo2) Hne2 OT Dv2)
        as (r' & l' & Nr' & Nl' & A1' & A2' & A3' & B1' & B2' & Keep' & KeepO').
      assert (Mr : mapped NQ (sq_st s1) r).
      { destruct (mapped_dec NQ (sq_st s1) r) as [K|K]; [exact K|].
        destruct (L1 se1 (G1 _ M1)) as (o & Oo & _ & Mo & _). congruence. }
      exists r, r', p2x, p2y, o1x, o1y. split9.
      * rewrite (KeepO' se1 (G1 _ M1) N12 N1o). exact A1.
      * exact A1'.
      * rewrite (Keep' se1 (G1 _ M1)), (Keep se1 M1). exact P1.
      * rewrite (Keep' se2 (G1 _ M2)), (Keep se2 M2). exact P2.
      * rewrite (Keep' r Mr). exact B1.
      * exact B1'.
      * apply (ov_on p1x p1y o1x o1y 0 1 al _ _ _ _ _ _ Pp1 Po1 Pp2); lra.
      * apply (ov_on p1x p1y o1x o1y al be 1 _ _ _ _ _ _ Pp2 Po2 Po1); lra.
      * left. apply (ov_meet p1x p1y o1x o1y Lx1 0 al al 1 _ _ _ _ _ _ _ _ Pp1 Pp2 Pp2 Po1); try lra; try (left; reflexivity).
Qed.

End ResolveOverlap.
