(** * Where the coordinates of sweep events come from (C04, C13): for every numeric instance
    and every input, the point of every event that exists during the sweep is an input vertex,
    or a point returned by [intersection] on two segments whose endpoints are such points, or
    such a point moved by the one-ulp bump of [divide_segment] — nothing else is ever
    invented.  (Over exact arithmetic the returned points are the exact intersections and the
    bump is the identity: [IntersectProofs], [PiProofs].) *)
From Coq Require Import Bool List PArith NArith ZArith Lia.
From GB Require Import Prim Num Event Intersect Cmp Heap Outcome Divide Fields FillQueue Subdivide Connect BoolOp
  FieldsProofs SortProofs SplayKeys LinkProofs.
From Coq Require Import Permutation.
From GB Require Splay.
Import ListNotations.

Section Prov.
Variable N : Num.
Notation store := (store N).
Notation pt := (pt N).
Variable inp : list pt.          (* the vertices of both operands *)

Inductive allowed : pt -> Prop :=
| al_in p : In p inp -> allowed p
| al_inter a1 a2 b1 b2 p :
    allowed a1 -> allowed a2 -> allowed b1 -> allowed b2 -> intersection a1 a2 b1 b2 = LPoint p -> allowed p
| al_bump p : allowed p -> allowed (mkPt N (next_upX N (px p)) (py p)).

Definition pinv (st : store) : Prop := forall i, mapped N st i -> allowed (e_point (getE st i)).

Definition keeps_pt (f : event N -> event N) : Prop := forall e, e_point (f e) = e_point e.

Lemma pinv_upd (st : store) j f : keeps_pt f -> mapped N st j -> pinv st -> pinv (upd st j f).
Proof.
  intros K Mj P i Mi. apply (mapped_upd_in N st j f i Mj) in Mi.
  destruct (Pos.eq_dec j i) as [->|Hn].
  - rewrite getE_upd_same, K. now apply P.
  - rewrite getE_upd_other by exact Hn. now apply P.
Qed.

Lemma pinv_alloc (st : store) e : wf N st -> allowed (e_point e) -> pinv st -> pinv (fst (alloc st e)).
Proof.
  intros W A P i Mi. apply mapped_alloc in Mi. destruct Mi as [->|Mi].
  - now rewrite getE_alloc_new.
  - rewrite getE_alloc_old; [now apply P|]. intros ->. exact (fresh_unmapped N st W Mi).
Qed.

Lemma kp_set_left b : keeps_pt (fun e => set_left e b). Proof. intros e; reflexivity. Qed.
Lemma kp_set_other o : keeps_pt (fun e => set_other e o). Proof. intros e; reflexivity. Qed.
Lemma kp_set_prev o : keeps_pt (fun e => set_prev_in_result e o). Proof. intros e; reflexivity. Qed.
Lemma kp_set_edge_type t : keeps_pt (fun e => set_edge_type e t). Proof. intros e; reflexivity. Qed.
Lemma kp_set_in_out a b : keeps_pt (fun e => set_in_out e a b). Proof. intros e; reflexivity. Qed.
Lemma kp_set_rt r : keeps_pt (fun e => set_result_transition e r). Proof. intros e; reflexivity. Qed.

(** ** [compute_fields] *)
Lemma compute_fields_pinv cfg (st : store) ev mp op : mapped N st ev -> pinv st -> pinv (compute_fields cfg st ev mp op).
Proof.
  intros M P. unfold compute_fields.
  apply pinv_upd; [apply kp_set_rt | |].
  - destruct mp as [prev|];
      repeat match goal with
             | |- context [if ?c then _ else _] => destruct c
             | |- context [match ?c with Some _ => _ | None => _ end] => destruct c
             end; rewrite ?mapped_upd; auto.
  - destruct mp as [prev|].
    + repeat match goal with
             | |- context [if ?c then _ else _] => destruct c
             | |- context [match ?c with Some _ => _ | None => _ end] => destruct c
             end;
        (apply pinv_upd; [apply kp_set_prev | rewrite ?mapped_upd; auto |]);
        (apply pinv_upd; [apply kp_set_in_out | exact M | exact P]).
    + apply pinv_upd; [apply kp_set_prev | rewrite ?mapped_upd; auto |].
      apply pinv_upd; [apply kp_set_in_out | exact M | exact P].
Qed.

(** ** [fill_queue] *)
Definition fqp (s : fq N) : Prop := fqinv N s /\ pinv (fq_st s).

Lemma process_edge_pinv (s : fq N) subj cid ext (a b : pt) :
  In a inp -> In b inp -> fqp s -> fqp (process_edge s subj cid ext a b).
Proof.
  intros Ia Ib [F P]. split; [now apply process_edge_inv|].
  destruct F as [[W L] Q]. unfold process_edge. destruct (pt_eq a b); [exact P|].
  destruct (alloc (fq_st s) (new_event cid a false None subj ext)) as [st1 e1] eqn:E1.
  destruct (alloc st1 (new_event cid b false (Some e1) subj ext)) as [st2 e2] eqn:E2.
  assert (H1 : st1 = fst (alloc (fq_st s) (new_event cid a false None subj ext))) by (rewrite E1; reflexivity).
  assert (H2 : st2 = fst (alloc st1 (new_event cid b false (Some e1) subj ext))) by (rewrite E2; reflexivity).
  assert (I1 : e1 = st_next (fq_st s)) by (unfold alloc in E1; now inversion E1).
  assert (I2 : e2 = st_next st1) by (unfold alloc in E2; now inversion E2).
  assert (W1 : wf N st1) by (rewrite H1; now apply wf_alloc).
  assert (P1 : pinv st1) by (rewrite H1; apply pinv_alloc; auto; cbn; now apply al_in).
  assert (P2 : pinv st2) by (rewrite H2; apply pinv_alloc; auto; cbn; now apply al_in).
  assert (M1 : mapped N st2 e1) by (rewrite H2; apply mapped_alloc; right; rewrite H1, I1; apply mapped_alloc; now left).
  assert (M2 : mapped N st2 e2) by (rewrite H2, I2; apply mapped_alloc; now left).
  set (st3 := upd st2 e1 (fun e => set_other e (Some e2))).
  assert (P3 : pinv st3) by (apply pinv_upd; auto using kp_set_other).
  assert (M31 : mapped N st3 e1) by (apply mapped_upd; now left).
  assert (M32 : mapped N st3 e2) by (apply mapped_upd; now right).
  cbn [fq_st]. destruct (ev_lt st3 e1 e2); apply pinv_upd; auto using kp_set_left.
Qed.

Lemma process_ring_from_pinv : forall (rest : ring N) (s : fq N) subj cid ext (prev : pt),
  In prev inp -> (forall p, In p rest -> In p inp) -> fqp s -> fqp (process_ring_from s subj cid ext prev rest).
Proof.
  induction rest as [|p rest IH]; intros s subj cid ext prev Hp Hr H; cbn [process_ring_from]; [exact H|].
  apply IH; [apply Hr; now left | intros q Hq; apply Hr; now right |].
  apply process_edge_pinv; auto. apply Hr. now left.
Qed.
Lemma process_ring_pinv (s : fq N) (r : ring N) subj cid ext :
  (forall p, In p r -> In p inp) -> fqp s -> fqp (process_ring s r subj cid ext).
Proof.
  intros Hr H. destruct r as [|p rest]; [exact H|]. apply process_ring_from_pinv; auto.
  - apply Hr. now left.
  - intros q Hq. apply Hr. now right.
Qed.
Lemma process_interiors_pinv : forall (ints : list (ring N)) (s : fq N) subj cid,
  (forall r p, In r ints -> In p r -> In p inp) -> fqp s -> fqp (process_interiors s ints subj cid).
Proof.
  unfold process_interiors. induction ints as [|r ints IH]; intros s subj cid Hi H; cbn [fold_left]; [exact H|].
  apply IH; [intros r' p Hr' Hp; eapply Hi; [right; exact Hr' | exact Hp]|].
  apply process_ring_pinv; [intros p Hp; eapply Hi; [now left | exact Hp] | exact H].
Qed.

Definition poly_pts (P : polygon N) : list pt := exterior P ++ concat (interiors P).
Definition polys_in (ps : list (polygon N)) : Prop := forall P p, In P ps -> In p (poly_pts P) -> In p inp.

Lemma polys_in_cons P ps : polys_in (P :: ps) ->
  (forall p, In p (exterior P) -> In p inp) /\ (forall r p, In r (interiors P) -> In p r -> In p inp) /\ polys_in ps.
Proof.
  intros H. repeat split.
  - intros p Hp. apply (H P p); [now left | apply in_or_app; now left].
  - intros r p Hr Hp. apply (H P p); [now left | apply in_or_app; right; apply in_concat; eauto].
  - intros Q q HQ Hq. apply (H Q q); [now right | exact Hq].
Qed.

Lemma fill_subject_pinv : forall (ps : list (polygon N)) (s : fq N) cid,
  polys_in ps -> fqp s -> fqp (fst (fill_subject s cid ps)).
Proof.
  induction ps as [|P ps IH]; intros s cid Hin H; cbn [fill_subject]; [exact H|].
  destruct (polys_in_cons P ps Hin) as (He & Hi & Hps).
  apply IH; [exact Hps|]. apply process_interiors_pinv; [exact Hi|]. apply process_ring_pinv; [exact He | exact H].
Qed.
Lemma fill_clipping_pinv : forall (ps : list (polygon N)) (s : fq N) cid op,
  polys_in ps -> fqp s -> fqp (fst (fill_clipping s cid op ps)).
Proof.
  induction ps as [|P ps IH]; intros s cid op Hin H; cbn [fill_clipping]; [exact H|].
  destruct (polys_in_cons P ps Hin) as (He & Hi & Hps).
  apply IH; [exact Hps|]. apply process_interiors_pinv; [exact Hi|]. apply process_ring_pinv; [exact He | exact H].
Qed.

Theorem fill_queue_pinv (subject clipping : list (polygon N)) (op : operation) :
  polys_in subject -> polys_in clipping -> pinv (f_st (fill_queue subject clipping op)).
Proof.
  intros HS HC. unfold fill_queue.
  pose proof (fill_subject_pinv subject (mkFQ (empty_store N) [] (empty_bb N)) 0%N HS) as H1.
  destruct (fill_subject (mkFQ (empty_store N) [] (empty_bb N)) 0 subject) as [s1 cid]. cbn [fst] in H1.
  assert (F1 : fqp s1).
  { apply H1. split; [split; [apply empty_store_sinv | intros i []]|]. intros i M. exfalso. apply M. reflexivity. }
  pose proof (fill_clipping_pinv clipping (mkFQ (fq_st s1) (fq_q s1) (empty_bb N)) cid op HC) as H2.
  destruct (fill_clipping (mkFQ (fq_st s1) (fq_q s1) (empty_bb N)) cid op clipping) as [s2 c2]. cbn [fst] in H2.
  cbn [f_st]. apply H2. exact F1.
Qed.

(** ** [divide_segment] and [possible_intersection] *)
Definition sqp (s : sq N) : Prop := sqinv N s /\ pinv (sq_st s).

Lemma allowed_bump (inter : pt) (c : bool) :
  allowed inter -> allowed (if c then mkPt N (next_upX N (px inter)) (py inter) else inter).
Proof. intros A. destruct c; [now apply al_bump | exact A]. Qed.

Theorem divide_segment_pinv cfg (s : sq N) (se_l : eid) (inter : pt) :
  sqp s -> mapped N (sq_st s) se_l -> allowed inter ->
  forall s', divide_segment cfg s se_l inter = Ok s' -> pinv (sq_st s').
Proof.
  intros [S P] Ml Ai s'. pose proof S as [[W L] Q]. unfold divide_segment.
  destruct (c_debug cfg && negb (e_left (getE (sq_st s) se_l))); [discriminate|].
  destruct (L se_l Ml) as (se_r & Olr & _ & Mr & _). rewrite Olr.
  set (el := getE (sq_st s) se_l).
  set (inter' := if eqX N (px inter) (px (e_point el)) && ltY N (py inter) (py (e_point el))
                 then mkPt N (next_upX N (px inter)) (py inter) else inter).
  assert (Ai' : allowed inter') by (apply allowed_bump; exact Ai).
  destruct (alloc (sq_st s) (new_event (e_contour_id el) inter' false (Some se_l) (e_is_subject el) true)) as [st1 r] eqn:E1.
  destruct (alloc st1 (new_event (e_contour_id el) inter' true (Some se_r) (e_is_subject el) true)) as [st2 l] eqn:E2.
  assert (H1 : st1 = fst (alloc (sq_st s) (new_event (e_contour_id el) inter' false (Some se_l) (e_is_subject el) true))) by (rewrite E1; reflexivity).
  assert (H2 : st2 = fst (alloc st1 (new_event (e_contour_id el) inter' true (Some se_r) (e_is_subject el) true))) by (rewrite E2; reflexivity).
  assert (I2 : l = st_next st1) by (unfold alloc in E2; now inversion E2).
  destruct (c_debug cfg && negb (is_before st2 se_l r)); [discriminate|].
  intros H; inversion H; subst s'; clear H. cbn [sq_st].
  assert (W1 : wf N st1) by (rewrite H1; now apply wf_alloc).
  assert (P1 : pinv st1) by (rewrite H1; apply pinv_alloc; auto).
  assert (P2 : pinv st2) by (rewrite H2; apply pinv_alloc; auto).
  assert (G2 : forall i, mapped N (sq_st s) i -> mapped N st2 i).
  { intros i Mi. rewrite H2. apply mapped_alloc. right. rewrite H1. apply mapped_alloc. now right. }
  assert (Ml2 : mapped N st2 l) by (rewrite H2, I2; apply mapped_alloc; now left).
  set (st3 := if negb (is_before st2 l se_r)
              then upd (upd st2 se_r (fun e => set_left e true)) l (fun e => set_left e false) else st2).
  assert (P3 : pinv st3 /\ forall i, mapped N st2 i -> mapped N st3 i).
  { unfold st3. destruct (negb (is_before st2 l se_r)); [|split; auto].
    split.
    - apply pinv_upd; [apply kp_set_left | apply mapped_upd; right; exact Ml2 |].
      apply pinv_upd; [apply kp_set_left | apply G2, Mr | exact P2].
    - intros i Mi. rewrite !mapped_upd. auto. }
  destruct P3 as [P3 G3].
  apply pinv_upd; [apply kp_set_other | apply mapped_upd; right; apply G3, G2, Mr |].
  apply pinv_upd; [apply kp_set_other | apply G3, G2, Ml | exact P3].
Qed.

Definition pgoodp cfg (st0 : store) (r : outcome (sq N * nat)) : Prop :=
  pgood N cfg st0 r /\ match r with Ok (s', _) => pinv (sq_st s') | _ => True end.

Lemma obind_divide_p cfg (st0 : store) (s : sq N) (i : eid) (p : pt) (k : sq N -> outcome (sq N * nat)) :
  sqp s -> grows N st0 (sq_st s) -> mapped N (sq_st s) i -> allowed p ->
  (forall s', sqp s' -> grows N st0 (sq_st s') -> pgoodp cfg st0 (k s')) ->
  pgoodp cfg st0 (obind (divide_segment cfg s i p) k).
Proof.
  intros [S P] G M A K. pose proof (divide_segment_inv N cfg s i p S M) as D.
  pose proof (divide_segment_pinv cfg s i p (conj S P) M A) as DP.
  destruct (divide_segment cfg s i p) as [s'| site |]; cbn [obind].
  - destruct D as [S' G']. apply K; [split; [exact S' | now apply DP] | eapply grows_trans; eauto].
  - split; [exact D | exact I].
  - contradiction.
Qed.

Lemma sqp_set_edge_type (s : sq N) i t :
  sqp s -> mapped N (sq_st s) i ->
  sqp (mkSQ (upd (sq_st s) i (fun e => set_edge_type e t)) (sq_q s)).
Proof.
  intros [S P] M. destruct (sqinv_set_edge_type N s i t S M) as [S' _]. split; [exact S'|].
  cbn [sq_st]. apply pinv_upd; auto using kp_set_edge_type.
Qed.

Theorem possible_intersection_pinv cfg (s : sq N) (se1 se2 : eid) :
  sqp s -> mapped N (sq_st s) se1 -> mapped N (sq_st s) se2 ->
  pgoodp cfg (sq_st s) (possible_intersection cfg s se1 se2).
Proof.
  intros SP M1 M2. pose proof SP as [S P]. pose proof S as [[W L] Q].
  assert (Good0 : pgoodp cfg (sq_st s) (Ok (s, 0))).
  { split; [cbn; split; [exact S | apply grows_refl] | exact P]. }
  unfold possible_intersection.
  destruct (L se1 M1) as (other1 & O1 & _ & Mo1 & _).
  destruct (L se2 M2) as (other2 & O2 & _ & Mo2 & _).
  rewrite O1, O2.
  assert (A1 : allowed (e_point (getE (sq_st s) se1))) by now apply P.
  assert (A2 : allowed (e_point (getE (sq_st s) se2))) by now apply P.
  assert (B1 : allowed (point_of (sq_st s) other1)) by (unfold point_of; now apply P).
  assert (B2 : allowed (point_of (sq_st s) other2)) by (unfold point_of; now apply P).
  destruct (intersection _ _ _ _) as [|inter|ia ib] eqn:EI.
  - exact Good0.
  - assert (Ai : allowed inter) by (eapply al_inter; [exact A1 | exact B1 | exact A2 | exact B2 | exact EI]).
    destruct (pt_eq _ _ || pt_eq _ _); [exact Good0|].
    destruct (negb (pt_eq (e_point (getE (sq_st s) se1)) inter)
              && negb (pt_eq (point_of (sq_st s) other1) inter)).
    + apply obind_divide_p; auto using grows_refl. intros s1 S1 G1.
      destruct (negb (pt_eq (e_point (getE (sq_st s) se2)) inter)
                && negb (pt_eq (point_of (sq_st s) other2) inter)).
      * apply obind_divide_p; auto. intros s2 [S2 P2] G2. split; [cbn; auto | exact P2].
      * destruct S1 as [S1 P1]. split; [cbn; auto | exact P1].
    + cbn [obind].
      destruct (negb (pt_eq (e_point (getE (sq_st s) se2)) inter)
                && negb (pt_eq (point_of (sq_st s) other2) inter)).
      * apply obind_divide_p; auto using grows_refl. intros s2 [S2 P2] G2. split; [cbn; auto | exact P2].
      * split; [cbn; split; [exact S | apply grows_refl] | exact P].
  - destruct (eqb _ _); [exact Good0|].
    assert (T : forall ty,
      sqp (mkSQ (upd (upd (sq_st s) se2 (fun e => set_edge_type e NonContributing)) se1
                     (fun e => set_edge_type e ty)) (sq_q s))
      /\ grows N (sq_st s) (upd (upd (sq_st s) se2 (fun e => set_edge_type e NonContributing)) se1
                              (fun e => set_edge_type e ty))).
    { intros ty. pose proof (sqp_set_edge_type s se2 NonContributing SP M2) as Sa.
      assert (Ga : grows N (sq_st s) (upd (sq_st s) se2 (fun e => set_edge_type e NonContributing))).
      { intros j Hj. apply mapped_upd_in; auto. }
      pose proof (sqp_set_edge_type (mkSQ (upd (sq_st s) se2 (fun e => set_edge_type e NonContributing)) (sq_q s))
                  se1 ty Sa (Ga _ M1)) as Sb.
      cbn [sq_st sq_q] in Sb. split; [exact Sb|].
      intros j Hj. apply mapped_upd_in; [apply Ga, M1 | apply Ga, Hj]. }
    (* every division point of the overlap arm is the point of an existing event *)
    assert (AP : forall (st' : store) k, pinv st' -> mapped N st' k -> allowed (point_of st' k)).
    { intros st' k P' Mk. unfold point_of. now apply P'. }
    destruct (pt_eq (e_point (getE (sq_st s) se1)) (e_point (getE (sq_st s) se2))) eqn:LC;
    destruct (pt_eq (point_of (sq_st s) other1) (point_of (sq_st s) other2)) eqn:RC;
    destruct (ev_lt (sq_st s) se1 se2) eqn:C1; destruct (ev_lt (sq_st s) other1 other2) eqn:C2;
      cbn [app nth_ev nth fst snd negb];
      try match goal with
          | |- context [Pos.eqb ?a ?b] => destruct (Pos.eqb a b)
          end; cbn [negb obind];
      try (match goal with
           | |- pgoodp _ _ (Ok (mkSQ (upd (upd _ se2 _) se1 (fun e => set_edge_type e ?ty)) _, 2)) =>
               destruct (T ty) as [[Sb Pb] Gb]; split; [cbn; split; [exact Sb | exact Gb] | exact Pb]
           end);
      try (match goal with
           | |- pgoodp _ _ (obind (divide_segment _ (mkSQ (upd (upd _ se2 _) se1 (fun e => set_edge_type e ?ty)) _) _ _) _) =>
               destruct (T ty) as [Sb Gb];
               apply obind_divide_p; [exact Sb | exact Gb | cbn [sq_st]; apply Gb; assumption
                                     | apply AP; [apply Sb | cbn [sq_st]; apply Gb; assumption] |];
               intros s3 [S3 P3] G3; split; [cbn; auto | exact P3]
           end);
      try (apply obind_divide_p; auto using grows_refl; intros s1 S1 G1;
           first
             [ (destruct S1 as [S1 P1]; split; [cbn; auto | exact P1]; fail)
             | (apply obind_divide_p; auto; [apply AP; [apply S1 | apply G1; assumption] |];
                intros s2 [S2 P2] G2; split; [cbn; auto | exact P2]; fail)
             | (match goal with
                | |- context [other_of (sq_st s1) ?i] =>
                    let Mi := fresh "Mi" in
                    assert (Mi : mapped N (sq_st s1) i) by (apply G1; assumption);
                    destruct S1 as [S1 P1]; pose proof S1 as [[W1 L1] Q1];
                    destruct (L1 i Mi) as (o3 & O3 & _ & Mo3 & _);
                    unfold other_of; rewrite O3;
                    apply obind_divide_p; [split; assumption | assumption | assumption
                                          | apply AP; [exact P1 | apply G1; assumption] |];
                    intros s2 [S2 P2] G2; split; [cbn; auto | exact P2]
                end) ]).
Qed.

(** ** the sweep *)
Notation slkeys := (@keys eid unit).

Lemma compute_fields_sqp cfg (x : sq N) ev mp op :
  sqp x -> mapped N (sq_st x) ev -> sqp (mkSQ (compute_fields cfg (sq_st x) ev mp op) (sq_q x)).
Proof.
  intros [S P] M. destruct (compute_fields_sq N cfg x ev mp op S M) as [S' _]. split; [exact S'|].
  cbn [sq_st]. now apply compute_fields_pinv.
Qed.

Definition okp (r : outcome (sweep N)) : Prop :=
  match r with Ok s' => pinv (sw_st s') | _ => True end.

Theorem handle_left_pinv cfg (s : sweep N) (ev : eid) (op : operation) :
  swinv N s -> pinv (sw_st s) -> mapped N (sw_st s) ev -> okp (handle_left cfg s ev op).
Proof.
  intros (S & Q & A & B) P Mev. unfold handle_left.
  set (st := sw_st s) in *.
  set (sl1 := sl_insert st (sw_sl s) ev).
  assert (A1 : all_mapped N st (slkeys sl1)).
  { intros k Hk. apply sl_insert_keys in Hk. destruct Hk as [->|Hk]; auto. }
  destruct (sl_prev_spec N st sl1 ev) as [Kp Ip].
  destruct (sl_prev st sl1 ev) as [sl2 maybe_prev]. cbn [fst snd] in Kp, Ip.
  destruct (sl_next_spec N st sl2 ev) as [Kn In_].
  destruct (sl_next st sl2 ev) as [sl3 maybe_next]. cbn [fst snd] in Kn, In_.
  assert (Mprev : forall p, maybe_prev = Some p -> mapped N st p) by (intros p Hp; apply A1, Ip, Hp).
  assert (Mnext : forall p, maybe_next = Some p -> mapped N st p).
  { intros p Hp. apply A1. rewrite <- Kp. apply In_, Hp. }
  assert (X0 : sqp (mkSQ st (sw_q s))) by (split; [split; assumption | exact P]).
  pose proof (compute_fields_sqp cfg (mkSQ st (sw_q s)) ev maybe_prev op X0 Mev) as X1.
  assert (G1 : grows N st (compute_fields cfg st ev maybe_prev op)).
  { intros i Hi. apply compute_fields_mapped; [exact Mev | exact Hi]. }
  cbn [sq_st sq_q] in X1.
  set (x1 := mkSQ (compute_fields cfg st ev maybe_prev op) (sw_q s)) in *.
  assert (Step1 : match
            (match maybe_next with
             | Some next =>
                 obind (possible_intersection cfg x1 ev next) (fun r =>
                 let '(x, code) := r in
                 if Nat.eqb code 2 then
                   let st_a := compute_fields cfg (sq_st x) ev maybe_prev op in
                   let st_b := compute_fields cfg st_a next (Some ev) op in
                   Ok (mkSQ st_b (sq_q x))
                 else Ok x)
             | None => Ok x1
             end) with
          | Ok x2 => sqp x2 /\ grows N st (sq_st x2)
          | _ => True
          end).
  { destruct maybe_next as [next|]; [|split; assumption].
    pose proof (possible_intersection_pinv cfg x1 ev next X1 (G1 _ Mev) (G1 _ (Mnext _ eq_refl))) as PP.
    destruct (possible_intersection cfg x1 ev next) as [[x code]| site |]; cbn [obind]; [|exact I|exact I].
    destruct PP as [[Sx Gx] Px]. cbn [sq_st] in Gx.
    destruct (Nat.eqb code 2).
    - pose proof (compute_fields_sqp cfg x ev maybe_prev op (conj Sx Px) (Gx _ (G1 _ Mev))) as Sa.
      assert (Ga : grows N (sq_st x) (compute_fields cfg (sq_st x) ev maybe_prev op)).
      { intros i Hi. apply compute_fields_mapped; [apply Gx, G1, Mev | exact Hi]. }
      pose proof (compute_fields_sqp cfg (mkSQ (compute_fields cfg (sq_st x) ev maybe_prev op) (sq_q x))
                  next (Some ev) op Sa (Ga _ (Gx _ (G1 _ (Mnext _ eq_refl))))) as Sb.
      cbn [sq_st sq_q] in Sb. split; [exact Sb|].
      cbn [sq_st]. intros i Hi. apply compute_fields_mapped; [apply Ga, Gx, G1, Mnext; reflexivity|]. apply Ga, Gx, G1, Hi.
    - split; [split; assumption | intros i Hi; apply Gx, G1, Hi]. }
  destruct (match maybe_next with Some next => _ | None => Ok x1 end) as [x2| site |]; cbn [obind]; try exact I.
  destruct Step1 as [S2 G2].
  destruct maybe_prev as [prev|].
  - pose proof (possible_intersection_pinv cfg x2 prev ev S2 (G2 _ (Mprev _ eq_refl)) (G2 _ Mev)) as PP.
    destruct (possible_intersection cfg x2 prev ev) as [[x code]| site |]; cbn [obind]; try exact I.
    destruct PP as [[Sx Gx] Px].
    destruct (Nat.eqb code 2).
    + destruct (sl_prev (sq_st x) sl3 prev) as [sl4 mpp].
      pose proof (compute_fields_sqp cfg x prev mpp op (conj Sx Px) (Gx _ (G2 _ (Mprev _ eq_refl)))) as Sa.
      assert (Ga : grows N (sq_st x) (compute_fields cfg (sq_st x) prev mpp op)).
      { intros i Hi. apply compute_fields_mapped; [apply Gx, G2, Mprev; reflexivity | exact Hi]. }
      pose proof (compute_fields_sqp cfg (mkSQ (compute_fields cfg (sq_st x) prev mpp op) (sq_q x))
                  ev (Some prev) op Sa (Ga _ (Gx _ (G2 _ Mev)))) as Sb.
      cbn [sq_st sq_q] in Sb. cbn. apply Sb.
    + cbn. exact Px.
  - cbn. apply S2.
Qed.

Theorem handle_right_pinv cfg (s : sweep N) (other : eid) :
  swinv N s -> pinv (sw_st s) -> okp (handle_right cfg s other).
Proof.
  intros (S & Q & A & B) P. unfold handle_right.
  set (st := sw_st s) in *.
  pose proof (sl_contains_keys N st (sw_sl s) other) as Kc.
  destruct (sl_contains st (sw_sl s) other) as [sl1 present]. cbn [fst] in Kc.
  destruct (c_debug cfg && negb present); [exact I|].
  assert (A1 : all_mapped N st (slkeys sl1)) by (rewrite Kc; exact A).
  destruct present; [|exact P].
  destruct (sl_prev_spec N st sl1 other) as [Kp Ip].
  destruct (sl_prev st sl1 other) as [sl2 maybe_prev]. cbn [fst snd] in Kp, Ip.
  destruct (sl_next_spec N st sl2 other) as [Kn In_].
  destruct (sl_next st sl2 other) as [sl3 maybe_next]. cbn [fst snd] in Kn, In_.
  assert (X0 : sqp (mkSQ st (sw_q s))) by (split; [split; assumption | exact P]).
  destruct maybe_prev as [prev|]; [|cbn; exact P].
  destruct maybe_next as [next|]; [|cbn; exact P].
  assert (Mp : mapped N st prev) by (apply A1, Ip; reflexivity).
  assert (Mn : mapped N st next) by (apply A1; rewrite <- Kp; apply In_; reflexivity).
  pose proof (possible_intersection_pinv cfg (mkSQ st (sw_q s)) prev next X0 Mp Mn) as PP.
  destruct (possible_intersection cfg (mkSQ st (sw_q s)) prev next) as [[x code]| site |]; cbn [obind fst]; try exact I.
  cbn. apply PP.
Qed.

Theorem sweep_loop_pinv cfg : forall (fuel : nat) (s : sweep N) sbbox cbbox rightbound op,
  swinv N s -> pinv (sw_st s) -> okp (sweep_loop cfg fuel s sbbox cbbox rightbound op).
Proof.
  induction fuel as [|f IH]; intros s sbbox cbbox rightbound op Hs P; cbn [sweep_loop].
  - destruct (qpop (sw_st s) (sw_q s)); [exact I | exact P].
  - destruct (qpop (sw_st s) (sw_q s)) as [[ev q']|] eqn:Hp; [|exact P].
    pose proof Hs as (S & Q & A & B).
    destruct (qpop_mapped N (sw_st s) (sw_st s) (sw_q s) ev q' Q Hp) as [Mev Q'].
    set (s1 := mkSweep (sw_st s) q' (sw_sl s) (ev :: sw_sorted s)).
    assert (S1 : swinv N s1).
    { unfold swinv, s1; cbn [sw_st sw_q sw_sl sw_sorted]. repeat split; try tauto.
      - apply S. - apply S. - intros i [<-|Hi]; auto. }
    destruct (negb (c_noshort cfg) && _); [exact P|].
    assert (Step : swgood N cfg (sw_st s)
              (if e_left (getE (sw_st s) ev) then handle_left cfg s1 ev op
               else match e_other (getE (sw_st s) ev) with
                    | Some other => handle_right cfg s1 other
                    | None => Ok s1
                    end)
            /\ okp (if e_left (getE (sw_st s) ev) then handle_left cfg s1 ev op
                    else match e_other (getE (sw_st s) ev) with
                         | Some other => handle_right cfg s1 other
                         | None => Ok s1
                         end)).
    { destruct (e_left (getE (sw_st s) ev)).
      - split; [apply (handle_left_inv N cfg s1 ev op S1 Mev) | apply (handle_left_pinv cfg s1 ev op S1 P Mev)].
      - destruct (e_other (getE (sw_st s) ev)) as [other|].
        + split; [apply (handle_right_inv N cfg s1 other S1) | apply (handle_right_pinv cfg s1 other S1 P)].
        + split; [split; [exact S1 | apply grows_refl] | exact P]. }
    destruct Step as [Sg Sp].
    destruct (if e_left (getE (sw_st s) ev) then _ else _) as [s2| site |]; cbn [obind]; try exact I.
    destruct Sg as [S2 _]. exact (IH s2 sbbox cbbox rightbound op S2 Sp).
Qed.

(** C04 / C13: the point of every event returned by [subdivide] is an allowed point *)
Theorem subdivide_points_allowed cfg fuel (A B : list (polygon N)) op (st : store) (sorted : list eid) (n : nat) :
  polys_in A -> polys_in B ->
  subdivide cfg fuel (fill_queue A B op) op = Ok (st, sorted, n) ->
  forall i, In i sorted -> allowed (point_of st i).
Proof.
  intros HA HB. unfold subdivide. destruct (fill_queue_inv N A B op) as [S0 Q0].
  pose proof (fill_queue_pinv A B op HA HB) as P0.
  set (s0 := mkSweep _ _ _ _).
  assert (I0 : swinv N s0).
  { unfold swinv, s0; cbn [sw_st sw_q sw_sl sw_sorted]. repeat split; try apply S0; try exact Q0; intros i []. }
  pose proof (sweep_loop_inv N cfg fuel s0 (f_sbbox (fill_queue A B op)) (f_cbbox (fill_queue A B op))
                (minX N (bb_maxx (f_sbbox (fill_queue A B op))) (bb_maxx (f_cbbox (fill_queue A B op)))) op I0) as G.
  pose proof (sweep_loop_pinv cfg fuel s0 (f_sbbox (fill_queue A B op)) (f_cbbox (fill_queue A B op))
                (minX N (bb_maxx (f_sbbox (fill_queue A B op))) (bb_maxx (f_cbbox (fill_queue A B op)))) op I0 P0) as PP.
  destruct (sweep_loop _ _ _ _ _ _ _) as [s| site |]; cbn [obind]; try discriminate.
  intros H; inversion H; subst. destruct G as [(S & Q & A' & B') _]. intros i Hi.
  unfold point_of. apply PP, B'. now apply in_rev.
Qed.

(** ** contour assembly: contour points are points of result events *)
Definition same_points (st st' : store) : Prop := forall i, e_point (getE st' i) = e_point (getE st i).

Lemma same_points_refl st : same_points st st. Proof. intros i; reflexivity. Qed.
Lemma same_points_trans a b c : same_points a b -> same_points b c -> same_points a c.
Proof. intros H1 H2 i. now rewrite H2, H1. Qed.
Lemma same_points_upd (st : store) j f : keeps_pt f -> same_points st (upd st j f).
Proof.
  intros K i. destruct (Pos.eq_dec j i) as [->|Hn].
  - now rewrite getE_upd_same, K.
  - now rewrite getE_upd_other.
Qed.

Lemma kp_set_other_pos z : keeps_pt (fun e => set_other_pos e z). Proof. intros e; reflexivity. Qed.
Lemma kp_set_occ z : keeps_pt (fun e => set_output_contour_id e z). Proof. intros e; reflexivity. Qed.

Lemma set_positions_points : forall l (st : store) pos, same_points st (set_positions st l pos).
Proof.
  induction l as [|i l IH]; intros st pos; cbn [set_positions]; [apply same_points_refl|].
  eapply same_points_trans; [apply same_points_upd, kp_set_other_pos | apply IH].
Qed.
Lemma swap_positions_points : forall l (st : store), same_points st (swap_positions st l).
Proof.
  induction l as [|i l IH]; intros st; cbn [swap_positions]; [apply same_points_refl|].
  eapply same_points_trans; [|apply IH].
  destruct (e_left (getE st i)); [|apply same_points_refl].
  destruct (e_other (getE st i)); [|apply same_points_refl].
  eapply same_points_trans; apply same_points_upd, kp_set_other_pos.
Qed.

Lemma order_events_spec fuel (st st' : store) (sorted_events res : list eid) :
  order_events fuel st sorted_events = Ok (st', res) ->
  same_points st st' /\ (forall i, In i res -> In i sorted_events).
Proof.
  unfold order_events. destruct (bubble_sort fuel st (filter (in_result_filter st) sorted_events)) as [srt| |] eqn:E;
    cbn [obind]; try discriminate.
  intros H; inversion H; subst. split.
  - eapply same_points_trans; [apply set_positions_points | apply swap_positions_points].
  - intros i Hi. destruct (bubble_sort_ok_sorted N st fuel _ _ E) as [Pm _].
    apply (Permutation_in _ (Permutation_sym Pm)) in Hi. apply filter_In in Hi. apply Hi.
Qed.

(** the points a walk collects *)
Definition from_res (st : store) (res : list eid) (p : pt) : Prop := exists i, In i res /\ p = point_of st i.

Lemma nth_ev_in (res : list eid) (k : Z) : in_range k (length res) = true -> In (Connect.nth_ev res k) res.
Proof.
  unfold in_range, Connect.nth_ev. intros H. apply andb_prop in H. destruct H as [H1 H2].
  apply Z.leb_le in H1. apply Z.ltb_lt in H2. apply nth_In. lia.
Qed.

Lemma mark_points (w : walk N) res pos cid : same_points (w_st w) (w_st (mark w res pos cid)) /\ w_points (mark w res pos cid) = w_points w.
Proof. unfold mark; cbn. split; [apply same_points_upd, kp_set_occ | reflexivity]. Qed.

Lemma walk_loop_points (st0 : store) (res : list eid) (map : list nat) (cid : Z) (initial : pt) :
  forall fuel (w : walk N) pos w',
  same_points st0 (w_st w) -> Forall (from_res st0 res) (w_points w) ->
  walk_loop fuel w res map pos cid initial = Ok w' ->
  same_points st0 (w_st w') /\ Forall (from_res st0 res) (w_points w').
Proof.
  induction fuel as [|f IH]; intros w pos w' SP FP H; cbn [walk_loop] in H; [discriminate|].
  destruct (mark_points w res pos cid) as [M1 E1].
  set (w1 := mark w res pos cid) in *.
  destruct (negb (in_range (e_other_pos (getE (w_st w1) (Connect.nth_ev res pos))) (length res))) eqn:R; [discriminate|].
  apply negb_false_iff in R.
  set (pos1 := e_other_pos (getE (w_st w1) (Connect.nth_ev res pos))) in *.
  destruct (mark_points w1 res pos1 cid) as [M2 E2].
  set (w2 := mark w1 res pos1 cid) in *.
  assert (SP2 : same_points st0 (w_st w2)) by (eapply same_points_trans; [eapply same_points_trans; [exact SP | exact M1] | exact M2]).
  set (w3 := mkWalk (w_st w2) (w_processed w2) (point_of (w_st w2) (Connect.nth_ev res pos1) :: w_points w2)) in *.
  assert (FP3 : Forall (from_res st0 res) (w_points w3)).
  { unfold w3; cbn [w_points]. constructor.
    - exists (Connect.nth_ev res pos1). split; [now apply nth_ev_in|]. unfold point_of. now rewrite SP2.
    - rewrite E2, E1. exact FP. }
  destruct (get_next_pos pos1 (w_processed w3) map) as [nx| |]; cbn [obind] in H; try discriminate.
  destruct nx as [npos|].
  - destruct (pt_eq (point_of (w_st w3) (Connect.nth_ev res npos)) initial).
    + inversion H; subst. split; [exact SP2 | exact FP3].
    + apply (IH w3 npos w' SP2 FP3 H).
  - inversion H; subst. split; [exact SP2 | exact FP3].
Qed.

Lemma initialize_from_context_points cfg (st : store) ev contours cid contours' c :
  initialize_from_context cfg st ev contours cid = Ok (contours', c) ->
  c_points c = (@nil pt) /\ (forall c1 : contour N, In c1 contours' -> exists c0, In c0 contours /\ c_points c1 = c_points c0).
Proof.
  unfold initialize_from_context.
  assert (PH : forall (cs : list (contour N)) parent child c1, In c1 (push_hole cs parent child) -> exists c0, In c0 cs /\ c_points c1 = c_points c0).
  { intros cs parent child c1 Hc. unfold push_hole in Hc.
    destruct (nth_error cs (Z.to_nat parent)) as [pc|] eqn:En; [|eauto].
    assert (HS : forall (l : list (contour N)) k v x, In x (hset l k v) -> x = v \/ In x l).
    { induction l as [|y l IHl]; intros k v x Hx; [destruct k; destruct Hx|].
      destruct k as [|k]; cbn [hset] in Hx.
      - destruct Hx as [<-|Hx]; [now left | right; now right].
      - destruct Hx as [<-|Hx]; [right; now left|]. destruct (IHl k v x Hx) as [->|H]; [now left | right; now right]. }
    destruct (HS _ _ _ _ Hc) as [->|H].
    - exists pc. split; [eapply nth_error_In; exact En | reflexivity].
    - exists c1. split; [exact H | reflexivity]. }
  repeat match goal with
         | |- context [match ?x with Some _ => _ | None => _ end] => destruct x eqn:?
         | |- context [if ?c then _ else _] => destruct c eqn:?
         end; intros H; inversion H; subst; split; try reflexivity; try (intros c' Hc'; eauto).
Qed.

Lemma contours_loop_points cfg (st0 : store) (res : list eid) (map : list nat) :
  forall idxs (st : store) p contours st' contours',
  (forall k, In k idxs -> (k < length res)%nat) ->
  same_points st0 st -> (forall c, In c contours -> Forall (from_res st0 res) (c_points c)) ->
  contours_loop cfg idxs st p res map contours = Ok (st', contours') ->
  forall c, In c contours' -> Forall (from_res st0 res) (c_points c).
Proof.
  induction idxs as [|i rest IH]; intros st p contours st' contours' Hidx SP FC H; cbn [contours_loop] in H.
  - inversion H; subst. exact FC.
  - assert (Hrest : forall k, In k rest -> (k < length res)%nat) by (intros k Hk; apply Hidx; now right).
    destruct (is_processed p (Z.of_nat i)); [exact (IH st p contours st' contours' Hrest SP FC H)|].
    destruct (initialize_from_context cfg st (Connect.nth_ev res (Z.of_nat i)) contours (Z.of_nat (length contours)))
      as [[contours1 c]| |] eqn:EI; cbn [obind] in H; try discriminate.
    destruct (initialize_from_context_points cfg st _ contours _ contours1 c EI) as [Ec Hc1].
    set (initial := point_of st (Connect.nth_ev res (Z.of_nat i))) in *.
    assert (Fi : from_res st0 res initial).
    { exists (Connect.nth_ev res (Z.of_nat i)). split.
      - apply nth_ev_in. unfold in_range. apply andb_true_intro. split; [apply Z.leb_le; lia|].
        apply Z.ltb_lt. pose proof (Hidx i (or_introl eq_refl)). lia.
      - unfold initial, point_of. now rewrite SP. }
    destruct (walk_loop (S (length res)) (mkWalk st p [initial]) res map (Z.of_nat i) (Z.of_nat (length contours)) initial)
      as [w| |] eqn:EW; cbn [obind] in H; try discriminate.
    destruct (walk_loop_points st0 res map _ initial _ (mkWalk st p [initial]) _ w SP (Forall_cons _ Fi (Forall_nil _)) EW) as [SPw FPw].
    refine (IH (w_st w) (w_processed w) _ st' contours' Hrest SPw _ H).
    intros c' Hc'. apply in_app_or in Hc'. destruct Hc' as [Hc'|[<-|[]]].
    + destruct (Hc1 c' Hc') as (c0 & H0 & E0). rewrite E0. now apply FC.
    + cbn [c_points]. apply Forall_rev. exact FPw.
Qed.

(** ** the whole call *)
Lemma close_ring_In (r : ring N) p : In p (close_ring r) -> In p r.
Proof.
  destruct r as [|h t]; [intros []|]. cbn [close_ring]. destruct (pt_eq h (last t h)); [auto|].
  intros H. apply in_app_or in H. destruct H as [H|[<-|[]]]; [exact H | now left].
Qed.

Lemma collect_holes_points (all : list (contour N)) : forall ids hs,
  collect_holes all ids = Ok hs -> forall h, In h hs -> exists c, In c all /\ h = c_points c.
Proof.
  induction ids as [|i ids IH]; intros hs H h Hh; cbn [collect_holes] in H.
  - inversion H; subst. destruct Hh.
  - destruct (negb (in_range i (length all))); [discriminate|].
    destruct (nth_error all (Z.to_nat i)) as [c|] eqn:En; [|discriminate].
    destruct (collect_holes all ids) as [l| |]; cbn [obind] in H; try discriminate.
    inversion H; subst. destruct Hh as [<-|Hh].
    + exists c. split; [eapply nth_error_In; exact En | reflexivity].
    + now apply (IH l eq_refl).
Qed.

Lemma contours_to_polygons_points (all : list (contour N)) : forall cs R,
  (forall c, In c cs -> In c all) ->
  contours_to_polygons all cs = Ok R ->
  forall P p, In P R -> In p (poly_pts P) -> exists c, In c all /\ In p (c_points c).
Proof.
  induction cs as [|c cs IH]; intros R Hsub H P p HP Hp; cbn [contours_to_polygons] in H.
  - inversion H; subst. destruct HP.
  - assert (Hcs : forall c', In c' cs -> In c' all) by (intros c' Hc'; apply Hsub; now right).
    destruct (c_hole_of c); [exact (IH R Hcs H P p HP Hp)|].
    destruct (collect_holes all (c_hole_ids c)) as [holes| |] eqn:EH; cbn [obind] in H; try discriminate.
    destruct (contours_to_polygons all cs) as [ps| |] eqn:EP; cbn [obind] in H; try discriminate.
    inversion H; subst. destruct HP as [<-|HP]; [|exact (IH ps Hcs eq_refl P p HP Hp)].
    unfold poly_pts, polygon_new in Hp. cbn [exterior interiors] in Hp. apply in_app_or in Hp.
    destruct Hp as [Hp|Hp].
    + exists c. split; [apply Hsub; now left | now apply close_ring_In].
    + apply in_concat in Hp. destruct Hp as (r & Hr & Hp). apply in_map_iff in Hr. destruct Hr as (h & <- & Hh).
      destruct (collect_holes_points all _ _ EH h Hh) as (c' & Hc' & ->). exists c'. split; [exact Hc' | now apply close_ring_In].
Qed.

(** C04: every coordinate pair of every ring of the result is an allowed point — an input
    vertex, a point returned by [intersection] on segments between allowed points, or such a
    point after the one-ulp bump.  Every instance, every input, every configuration. *)
Theorem output_points_allowed cfg fuel (A B : list (polygon N)) op (R : list (polygon N)) :
  polys_in A -> polys_in B ->
  boolean_operation cfg fuel A B op = Ok R ->
  forall P p, In P R -> In p (poly_pts P) -> allowed p.
Proof.
  intros HA HB. unfold boolean_operation.
  destruct (negb (c_noshort cfg) && boxes_disjoint _ _).
  - intros H; inversion H; subst. intros P p HP Hp. apply al_in.
    assert (HP' : In P A \/ In P B).
    { destruct op; cbn [trivial_result] in HP; [destruct HP | now left | apply in_app_or in HP; tauto | apply in_app_or in HP; tauto]. }
    destruct HP' as [HP'|HP']; [eapply HA | eapply HB]; eauto.
  - destruct (subdivide cfg fuel (fill_queue A B op) op) as [[[st sorted] n]| |] eqn:ES; cbn [obind]; try discriminate.
    unfold connect_edges.
    destruct (order_events (S (length sorted)) st sorted) as [[st1 res]| |] eqn:EO; cbn [obind]; try discriminate.
    destruct (order_events_spec _ _ _ _ _ EO) as [SP1 Hres].
    destruct (precompute_iteration_order cfg st1 res) as [map| |]; cbn [obind]; try discriminate.
    destruct (contours_loop cfg (seq 0 (length res)) st1 [] res map []) as [[st2 contours]| |] eqn:EC; cbn [obind fst snd]; try discriminate.
    intros H P p HP Hp.
    destruct (contours_to_polygons_points contours contours R (fun c Hc => Hc) H P p HP Hp) as (c & Hc & Hpc).
    assert (FC : Forall (from_res st1 res) (c_points c)).
    { apply (contours_loop_points cfg st1 res map (seq 0 (length res)) st1 [] [] st2 contours); auto.
      - intros k Hk. apply in_seq in Hk. lia.
      - apply same_points_refl.
      - intros c0 []. }
    rewrite Forall_forall in FC. destruct (FC p Hpc) as (i & Hi & ->).
    unfold point_of. rewrite SP1.
    exact (subdivide_points_allowed cfg fuel A B op st sorted n HA HB ES i (Hres i Hi)).
Qed.

End Prov.
