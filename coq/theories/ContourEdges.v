(** * Every edge of an assembled ring is a sub-segment produced by the sweep (C04).

    Part 1 (every instance): on a vector of result events without duplicates in which every
    event has its partner in the vector, the two linked back to each other and exactly one of
    them a left event ([paired]), [order_events] leaves in [other_pos] of every event EXACTLY the
    position of its partner ([order_events_exact]).

    Part 2 (every instance): the successor table only links positions whose events lie at one
    point ([table_stays_at_vertex]), so the contour walk alternates "jump to the partner" and
    "move within the vertex": every pair of consecutive points of a contour consists of a point
    equal ([pt_eq]) to the point of a result event, followed by the point of that event's
    partner ([contour_edges_are_subsegments]). *)
From Coq Require Import Bool List ZArith NArith PArith Arith Lia Permutation.
From GB Require Import Prim Num Event Cmp Heap Outcome Connect FieldsProofs SortProofs ConnectProofs.
Import ListNotations.

Section Positions.
Variable N : Num.
Variable cfg : config.
Notation store := (store N).

(** every member has its partner in the list; partners are mutual, distinct, one left one right *)
Definition paired (st : store) (l : list eid) : Prop :=
  forall i, In i l -> exists o, In o l /\ e_other (getE st i) = Some o /\ e_other (getE st o) = Some i /\
                              o <> i /\ e_left (getE st o) = negb (e_left (getE st i)).

(** position of an element in a duplicate-free list *)
Definition at_pos (l : list eid) (k : nat) (i : eid) : Prop := nth_error l k = Some i.

Lemma at_pos_inj l k k' i : NoDup l -> at_pos l k i -> at_pos l k' i -> k = k'.
Proof.
  intros ND H1 H2. unfold at_pos in *.
  apply (proj1 (NoDup_nth_error l) ND); [apply nth_error_Some; congruence | congruence].
Qed.

(** [set_positions] on a duplicate-free list writes each element's own position *)
Lemma set_positions_exact : forall l (st : store) p k i, NoDup l ->
  at_pos l k i -> opos N (set_positions st l p) i = (p + Z.of_nat k)%Z.
Proof.
  induction l as [|a l IH]; intros st p k i ND H; [destruct k; discriminate|].
  inversion ND; subst. cbn [set_positions]. destruct k as [|k]; cbn [at_pos nth_error] in H.
  - inversion H; subst. unfold opos. rewrite set_positions_frame by assumption. rewrite getE_upd_same. cbn. lia.
  - rewrite (IH _ (p + 1)%Z k i H3 H). lia.
Qed.

(** the swap pass: an invariant over the not yet visited suffix *)
Definition lm (st : store) (i o : eid) : eid := if e_left (getE st i) then i else o.

Lemma in_dec_cons (T : Type) (x a : eid) (rest : list eid) (u v : T) : x <> a ->
  (if in_dec Pos.eq_dec x (a :: rest) then u else v) = (if in_dec Pos.eq_dec x rest then u else v).
Proof.
  intros Hne. destruct (in_dec Pos.eq_dec x (a :: rest)) as [K|K], (in_dec Pos.eq_dec x rest) as [K'|K']; try reflexivity.
  - destruct K as [K|K]; [now elim Hne | contradiction].
  - exfalso. apply K. now right.
Qed.

Section Swap.
Variable res : list eid.
Hypothesis ND : NoDup res.

(** [i] has the partner [o]; [ki], [ko] are their positions *)
Definition swap_state (st : store) (rest : list eid) : Prop :=
  forall i o ki ko, at_pos res ki i -> at_pos res ko o ->
    e_other (getE st i) = Some o ->
    opos N st i = if in_dec Pos.eq_dec (lm st i o) rest then Z.of_nat ki else Z.of_nat ko.

Lemma at_pos_in l k i : at_pos l k i -> In i l.
Proof. intros H. eapply nth_error_In; exact H. Qed.

Lemma lm_left (st : store) i o : paired st res -> In i res -> e_other (getE st i) = Some o ->
  e_left (getE st (lm st i o)) = true.
Proof.
  intros P Hi Oi. destruct (P i Hi) as (o' & _ & O' & _ & _ & Fl). assert (o' = o) by congruence. subst o'.
  unfold lm. destruct (e_left (getE st i)) eqn:E; [exact E|]. rewrite Fl. reflexivity.
Qed.

Lemma swap_positions_exact : forall rest (st : store) pre,
  res = pre ++ rest -> paired st res -> swap_state st rest ->
  swap_state (swap_positions st rest) [] /\ same_flags N st (swap_positions st rest).
Proof.
  induction rest as [|a rest IH]; intros st pre Hres P SS; cbn [swap_positions].
  - split; [exact SS | apply same_flags_refl].
  - assert (Ha : In a res) by (rewrite Hres; apply in_or_app; right; now left).
    assert (NDr : ~ In a rest).
    { rewrite Hres in ND. apply NoDup_remove_2 in ND. intros K. apply ND. apply in_or_app. now right. }
    destruct (P a Ha) as (o & Ho & Oa & Oo & Hne & Fl).
    assert (Hres' : res = (pre ++ [a]) ++ rest) by (rewrite <- app_assoc; exact Hres).
    destruct (In_nth_error res a Ha) as [ka Kka]. destruct (In_nth_error res o Ho) as [ko Kko].
    destruct (e_left (getE st a)) eqn:La.
    + rewrite Oa. cbn [negb] in Fl.
      set (st' := upd (upd st a (fun x => set_other_pos x (e_other_pos (getE st o)))) o (fun x => set_other_pos x (e_other_pos (getE st a)))).
      assert (SF : same_flags N st st').
      { unfold st'. eapply same_flags_trans; apply same_flags_upd_pos. }
      assert (P' : paired st' res).
      { intros i Hi. destruct (P i Hi) as (o' & A1 & A2 & A3 & A4 & A5). exists o'.
        destruct (SF i) as [B1 B2]. destruct (SF o') as [C1 C2]. rewrite B1, B2, C1, C2. auto. }
      (* the values before the swap *)
      assert (Va : opos N st a = Z.of_nat ka).
      { rewrite (SS a o ka ko Kka Kko Oa). unfold lm. rewrite La.
        destruct (in_dec Pos.eq_dec a (a :: rest)) as [_|K]; [reflexivity | exfalso; apply K; now left]. }
      assert (Vo : opos N st o = Z.of_nat ko).
      { rewrite (SS o a ko ka Kko Kka Oo). unfold lm. rewrite Fl.
        destruct (in_dec Pos.eq_dec a (a :: rest)) as [_|K]; [reflexivity | exfalso; apply K; now left]. }
      destruct (IH st' (pre ++ [a]) Hres' P') as [R1 R2].
      * intros i o' ki ko' Ki Ko Oi.
        destruct (SF i) as [Li Oi']. rewrite Oi' in Oi.
        assert (Elm : lm st' i o' = lm st i o') by (unfold lm; now rewrite Li).
        rewrite Elm.
        destruct (Pos.eq_dec i a) as [->|Nia]; [|destruct (Pos.eq_dec i o) as [->|Nio]].
        -- assert (o' = o) by congruence. subst o'.
           assert (ko' = ko) by (eapply at_pos_inj; eauto). subst ko'.
           unfold lm. rewrite La.
           destruct (in_dec Pos.eq_dec a rest) as [K|_]; [contradiction|].
           unfold st', opos. rewrite getE_upd_other by exact Hne. rewrite getE_upd_same. cbn. exact Vo.
        -- assert (o' = a) by congruence. subst o'.
           assert (ko' = ka) by (eapply at_pos_inj; eauto). subst ko'.
           unfold lm. rewrite Fl.
           destruct (in_dec Pos.eq_dec a rest) as [K|_]; [contradiction|].
           unfold st', opos. rewrite getE_upd_same. cbn. exact Va.
        -- assert (Hi : In i res) by (eapply at_pos_in; eauto).
           assert (No'a : o' <> a).
           { intros ->. destruct (P i Hi) as (o2 & _ & O2 & O2' & _). assert (o2 = a) by congruence. subst o2.
             rewrite Oa in O2'. inversion O2'. congruence. }
           assert (Nlm : lm st i o' <> a) by (unfold lm; destruct (e_left (getE st i)); assumption).
           unfold st', opos. rewrite !getE_upd_other by congruence.
           rewrite <- (in_dec_cons _ (lm st i o') a rest _ _ Nlm). exact (SS i o' ki ko' Ki Ko Oi).
      * split; [exact R1|]. eapply same_flags_trans; eauto.
    + (* a right event: nothing happens, and it is not the left member of any pair *)
      apply (IH st (pre ++ [a]) Hres' P).
      intros i o' ki ko' Ki Ko Oi.
      assert (Hi : In i res) by (eapply at_pos_in; eauto).
      assert (Nlm : lm st i o' <> a).
      { intros K. pose proof (lm_left st i o' P Hi Oi) as L. rewrite K, La in L. discriminate. }
      rewrite <- (in_dec_cons _ (lm st i o') a rest _ _ Nlm). exact (SS i o' ki ko' Ki Ko Oi).
Qed.

End Swap.

(** C04: after [order_events], [other_pos] of every selected event is the position of its partner *)
Theorem order_events_exact fuel (st : store) sorted_events st1 res :
  NoDup sorted_events -> paired st (filter (in_result_filter st) sorted_events) ->
  order_events fuel st sorted_events = Ok (st1, res) ->
  NoDup res /\ paired st1 res /\ same_flags N st st1 /\
  (forall k, e_point (getE st1 k) = e_point (getE st k)) /\
  forall i o ki ko, at_pos res ki i -> at_pos res ko o -> e_other (getE st1 i) = Some o ->
    opos N st1 i = Z.of_nat ko.
Proof.
  intros ND P. unfold order_events.
  destruct (bubble_sort fuel st (filter (in_result_filter st) sorted_events)) as [s| |] eqn:E; cbn [obind]; try discriminate.
  intros H. inversion H; subst st1 res. clear H.
  pose proof (bubble_sort_perm N _ _ _ _ E) as Pm.
  assert (NDs : NoDup s) by (eapply Permutation_NoDup; [exact Pm | now apply NoDup_filter]).
  assert (Ps : paired st s).
  { intros i Hi. apply (Permutation_in _ (Permutation_sym Pm)) in Hi.
    destruct (P i Hi) as (o & A1 & A2). exists o. split; [now apply (Permutation_in _ Pm) | exact A2]. }
  set (st0 := set_positions st s 0%Z).
  assert (SF0 : same_flags N st st0) by apply set_positions_flags.
  assert (P0 : paired st0 s).
  { intros i Hi. destruct (Ps i Hi) as (o' & A1 & A2 & A3 & A4 & A5). exists o'.
    destruct (SF0 i) as [B1 B2]. destruct (SF0 o') as [C1 C2]. rewrite B1, B2, C1, C2. auto. }
  assert (SS0 : swap_state s st0 s).
  { intros i o ki ko Ki Ko Oi. destruct (in_dec Pos.eq_dec (lm st0 i o) s) as [_|K].
    - unfold st0. rewrite (set_positions_exact s st 0%Z ki i NDs Ki). lia.
    - exfalso. apply K. unfold lm. destruct (e_left (getE st0 i)); [exact (at_pos_in s ki i Ki) | exact (at_pos_in s ko o Ko)]. }
  destruct (swap_positions_exact s NDs s st0 [] eq_refl P0 SS0) as [SSf SFf].
  assert (SF : same_flags N st (swap_positions st0 s)) by (eapply same_flags_trans; eauto).
  split; [exact NDs|]. split; [|split; [exact SF|split]].
  - intros i Hi. destruct (Ps i Hi) as (o' & A1 & A2 & A3 & A4 & A5). exists o'.
    destruct (SF i) as [B1 B2]. destruct (SF o') as [C1 C2]. rewrite B1, B2, C1, C2. auto.
  - (* points: only other_pos is written *)
    intros k. clear - s. revert st0. generalize 0%Z. intros z st0.
    assert (Pset : forall l (sto : store) p q, e_point (getE (set_positions sto l p) q) = e_point (getE sto q)).
    { induction l as [|a l IHl]; intros sto p q; cbn [set_positions]; [reflexivity|]. rewrite IHl.
      destruct (Pos.eq_dec a q) as [->|Hn]; [rewrite getE_upd_same | rewrite getE_upd_other by exact Hn]; reflexivity. }
    assert (Pswap : forall l (sto : store) q, e_point (getE (swap_positions sto l) q) = e_point (getE sto q)).
    { induction l as [|a l IHl]; intros sto q; cbn [swap_positions]; [reflexivity|]. rewrite IHl.
      destruct (e_left (getE sto a)); [|reflexivity]. destruct (e_other (getE sto a)) as [o|]; [|reflexivity].
      destruct (Pos.eq_dec o q) as [->|Hn]; [rewrite getE_upd_same; cbn | rewrite getE_upd_other by exact Hn];
        (destruct (Pos.eq_dec a q) as [->|Hn2]; [rewrite getE_upd_same | rewrite getE_upd_other by exact Hn2]); reflexivity. }
    unfold st0. rewrite Pswap, Pset. reflexivity.
  - intros i o ki ko Ki Ko Oi. rewrite (SSf i o ki ko Ki Ko Oi).
    destruct (in_dec Pos.eq_dec (lm (swap_positions st0 s) i o) []) as [[]|_]. reflexivity.
Qed.

End Positions.

(** ** the successor table stays at one vertex *)
Section Table.
Variable N : Num.
Variable cfg : config.
Notation store := (store N).

Lemma span_len_nth (A : Type) (f : A -> bool) (d : A) : forall l j, j < span_len f l -> f (nth j l d) = true.
Proof.
  induction l as [|x l IH]; intros j Hj; cbn [span_len] in Hj; [lia|].
  destruct (f x) eqn:E; [|lia]. destruct j as [|j]; cbn [nth]; [exact E|]. apply IH. lia.
Qed.

Lemma nth_skipn (A : Type) (d : A) : forall n (l : list A) j, nth j (skipn n l) d = nth (n + j) l d.
Proof.
  induction n as [|n IH]; intros l j; [reflexivity|].
  destruct l as [|x l]; cbn [skipn]; [destruct j; reflexivity|]. cbn [Nat.add nth]. apply IH.
Qed.

(** every position lies in a group on which the table is [succ_blk] and whose events are all
    at the point of the group's first event *)
Lemma iteration_groups_vertex : forall fuel (st : store) data i entries,
  iteration_groups cfg fuel st data i = Ok entries ->
  forall k, i <= k < i + length data ->
  exists r nr nl, r <= k < r + nr + nl /\ r + nr + nl <= i + length data /\ i <= r /\
    (forall k' d, r <= k' < r + nr + nl -> assoc_last k' entries d = succ_blk r nr nl k') /\
    (forall k', r <= k' < r + nr + nl -> ident st (nth (r - i) data xH) (nth (k' - i) data xH) = true).
Proof.
  induction fuel as [|f IH]; intros st data i entries H k Hk.
  - destruct data; cbn [length] in Hk; [lia | cbn in H; discriminate].
  - destruct data as [|x tl]; [cbn [length] in Hk; lia|].
    cbn [iteration_groups] in H.
    set (data0 := x :: tl) in *.
    set (nr := span_len (fun e => ident st x e && negb (e_left (getE st e))) data0) in *.
    set (data1 := skipn nr data0) in *.
    set (nl := span_len (fun e => ident st x e) data1) in *.
    assert (Hnr : nr <= length data0) by apply span_len_le.
    assert (Hnl : nl <= length data1) by apply span_len_le.
    assert (Hl1 : length data1 = length data0 - nr) by (unfold data1; apply skipn_length).
    destruct (c_debug cfg && _); [discriminate|].
    destruct (Nat.eqb_spec (nr + nl) 0) as [|Hm]; [discriminate|].
    destruct (iteration_groups cfg f st (skipn nl data1) (i + nr + nl)) as [rest| |] eqn:E; cbn [obind] in H; try discriminate.
    inversion H; subst entries. clear H.
    destruct (Nat.lt_ge_cases k (i + nr + nl)) as [Hin|Hout].
    + exists i, nr, nl. split; [lia|]. split; [lia|]. split; [lia|]. split.
      * intros k' d Hk'. rewrite assoc_last_app.
        rewrite (assoc_last_absent k' rest).
        -- now apply group_lookup.
        -- intros v Hv. pose proof (iteration_groups_lower _ _ _ _ _ _ _ E k' v Hv). lia.
      * intros k' Hk'. rewrite Nat.sub_diag. change (nth 0 data0 xH) with x.
        destruct (Nat.lt_ge_cases (k' - i) nr) as [K|K].
        -- pose proof (span_len_nth _ (fun e => ident st x e && negb (e_left (getE st e))) xH data0 (k' - i) K) as Q.
           apply andb_prop in Q. apply Q.
        -- assert (K2 : k' - i - nr < nl) by lia.
           pose proof (span_len_nth _ (fun e => ident st x e) xH data1 (k' - i - nr) K2) as Q.
           unfold data1 in Q. rewrite nth_skipn in Q. replace (nr + (k' - i - nr)) with (k' - i) in Q by lia. exact Q.
    + assert (Hk2 : i + nr + nl <= k < i + nr + nl + length (skipn nl data1)) by (rewrite skipn_length; lia).
      destruct (IH _ _ _ _ E k Hk2) as (r & nr' & nl' & A & B & B' & C & D).
      exists r, nr', nl'. split; [exact A|]. split; [rewrite skipn_length in B; lia|]. split; [lia|]. split.
      * intros k' d Hk'. rewrite assoc_last_app. now apply C.
      * intros k' Hk'. specialize (D k' Hk'). unfold data1 in D. rewrite !nth_skipn in D.
        replace (nr + (nl + (r - (i + nr + nl)))) with (r - i) in D by lia.
        replace (nr + (nl + (k' - (i + nr + nl)))) with (k' - i) in D by lia. exact D.
Qed.

(** the table built by [precompute_iteration_order] *)
Theorem table_stays_at_vertex (st : store) data map :
  precompute_iteration_order cfg st data = Ok map ->
  forall k, k < length data ->
  exists r nr nl, r <= k < r + nr + nl /\ r + nr + nl <= length data /\
    (forall k', r <= k' < r + nr + nl -> nth k' map 0 = succ_blk r nr nl k') /\
    (forall k', r <= k' < r + nr + nl -> ident st (nth r data xH) (nth k' data xH) = true).
Proof.
  unfold precompute_iteration_order.
  destruct (iteration_groups cfg (S (length data)) st data 0) as [entries| |] eqn:E; cbn [obind]; try discriminate.
  intros H. injection H as Hm. intros k Hk.
  destruct (iteration_groups_vertex _ _ _ _ _ E k ltac:(lia)) as (r & nr & nl & A & B & _ & C & D).
  exists r, nr, nl. split; [exact A|]. split; [lia|]. split.
  - intros k' Hk'. rewrite <- Hm. rewrite fold_hset_nth by (rewrite repeat_length; lia). now apply C.
  - intros k' Hk'. specialize (D k' Hk'). now rewrite !Nat.sub_0_r in D.
Qed.

(** the search of [get_next_pos] stays inside the group *)
Lemma get_next_pos_loop_in_group (map : list nat) (p : processed) r nr nl (start : Z) :
  r + nr + nl <= length map ->
  (forall k, r <= k < r + nr + nl -> nth k map 0 = succ_blk r nr nl k) ->
  forall fuel k q, r <= k < r + nr + nl ->
  get_next_pos_loop fuel (Z.of_nat k) start p map = Ok (Some q) ->
  exists kq, q = Z.of_nat kq /\ r <= kq < r + nr + nl.
Proof.
  intros Hlen Hmap. induction fuel as [|f IH]; intros k q Hk H; cbn [get_next_pos_loop] in H; [discriminate|].
  destruct (negb (in_range (Z.of_nat k) (length map))); [discriminate|].
  rewrite Nat2Z.id, (Hmap k Hk) in H.
  destruct (Z.eqb _ start); [discriminate|].
  destruct (negb (is_processed p _)).
  - inversion H; subst. exists (succ_blk r nr nl k). split; [reflexivity | now apply succ_blk_in].
  - apply (IH _ _ (succ_blk_in r nr nl k Hk) H).
Qed.

End Table.

(** ** the walk *)
Section Walk.
Variable N : Num.
Variable cfg : config.
Notation store := (store N).
Notation pt := (pt N).

Variable st0 : store.
Variable res : list eid.
Variable map : list nat.
Hypothesis Hlen : length map = length res.
Hypothesis Htab : forall k, k < length res ->
  exists r nr nl, r <= k < r + nr + nl /\ r + nr + nl <= length res /\
    (forall k', r <= k' < r + nr + nl -> nth k' map 0 = succ_blk r nr nl k') /\
    (forall k', r <= k' < r + nr + nl -> ident st0 (nth r res xH) (nth k' res xH) = true).
Hypothesis Hpair : paired N st0 res.
Hypothesis Hpos : forall i o ki ko, at_pos res ki i -> at_pos res ko o -> e_other (getE st0 i) = Some o ->
  opos N st0 i = Z.of_nat ko.

(** stores that differ from [st0] in the contour ids only *)
Definition geo_eq (st : store) : Prop :=
  forall k, e_point (getE st k) = e_point (getE st0 k) /\ e_other (getE st k) = e_other (getE st0 k) /\
            e_other_pos (getE st k) = e_other_pos (getE st0 k).

Lemma geo_eq_mark (w : walk N) pos cid : geo_eq (w_st w) -> geo_eq (w_st (mark w res pos cid)).
Proof.
  intros G k. unfold mark. cbn [w_st]. destruct (Pos.eq_dec (nth_ev res pos) k) as [->|Hn].
  - rewrite getE_upd_same. cbn. apply G.
  - rewrite getE_upd_other by exact Hn. apply G.
Qed.

(** [q] follows [p] on a contour: [p] is at the point of a result event [i], [q] is the point
    of its partner *)
Definition sub_edge (p q : pt) : Prop :=
  exists i o x, In i res /\ e_other (getE st0 i) = Some o /\
    pt_eq x p = true /\ pt_eq x (e_point (getE st0 i)) = true /\ q = e_point (getE st0 o).

(** newest point first *)
Fixpoint chain (l : list pt) : Prop :=
  match l with
  | q :: tl => match tl with p :: _ => sub_edge p q /\ chain tl | [] => True end
  | [] => True
  end.

Lemma nth_ev_nat k : nth_ev res (Z.of_nat k) = nth k res xH.
Proof. unfold nth_ev. now rewrite Nat2Z.id. Qed.
Lemma at_pos_nth k : k < length res -> at_pos res k (nth k res xH).
Proof. intros H. unfold at_pos. now apply nth_error_nth'. Qed.

Lemma walk_loop_chain (cid : Z) (initial : pt) : forall fuel (w : walk N) k r nr nl p_m tl w',
  geo_eq (w_st w) -> w_points w = p_m :: tl -> chain (p_m :: tl) ->
  r <= k < r + nr + nl -> r + nr + nl <= length res ->
  (forall k', r <= k' < r + nr + nl -> nth k' map 0 = succ_blk r nr nl k') ->
  (forall k', r <= k' < r + nr + nl -> ident st0 (nth r res xH) (nth k' res xH) = true) ->
  pt_eq (e_point (getE st0 (nth r res xH))) p_m = true ->
  walk_loop fuel w res map (Z.of_nat k) cid initial = Ok w' ->
  geo_eq (w_st w') /\ chain (w_points w').
Proof.
  induction fuel as [|f IH]; intros w k r nr nl p_m tl w' G Hpts Hch Hk Hb Hm Hid Hhead H; cbn [walk_loop] in H; [discriminate|].
  set (w1 := mark w res (Z.of_nat k) cid) in *.
  assert (G1 : geo_eq (w_st w1)) by now apply geo_eq_mark.
  assert (Kl : k < length res) by lia.
  set (i := nth k res xH).
  assert (Ki : at_pos res k i) by now apply at_pos_nth.
  assert (Ii : In i res) by (eapply at_pos_in; eauto).
  destruct (Hpair i Ii) as (o & Io & Oi & Oo & Hne & Fl).
  destruct (In_nth_error res o Io) as [ko Kko].
  assert (Kol : ko < length res) by (apply nth_error_Some; unfold at_pos in Kko; congruence).
  assert (Epos1 : e_other_pos (getE (w_st w1) (nth_ev res (Z.of_nat k))) = Z.of_nat ko).
  { rewrite nth_ev_nat. fold i. rewrite (proj2 (proj2 (G1 i))). exact (Hpos i o k ko Ki Kko Oi). }
  rewrite Epos1 in H.
  assert (Hr1 : in_range (Z.of_nat ko) (length res) = true) by (apply in_range_iff; lia).
  rewrite Hr1 in H. cbn [negb] in H.
  set (w2 := mark w1 res (Z.of_nat ko) cid) in *.
  assert (G2 : geo_eq (w_st w2)) by now apply geo_eq_mark.
  cbn [w_st w_processed w_points] in H.
  assert (Eo : nth ko res xH = o) by (apply nth_error_nth; exact Kko).
  assert (Eq : point_of (w_st w2) (nth_ev res (Z.of_nat ko)) = e_point (getE st0 o)).
  { unfold point_of. rewrite nth_ev_nat, Eo. apply G2. }
  rewrite Eq in H.
  assert (Hpts2 : w_points w2 = p_m :: tl) by (unfold w2, w1, mark; cbn [w_points]; exact Hpts).
  rewrite Hpts2 in H.
  (* the new edge *)
  assert (Hedge : sub_edge p_m (e_point (getE st0 o))).
  { exists i, o, (e_point (getE st0 (nth r res xH))). repeat split; auto.
    unfold i. specialize (Hid k Hk). unfold ident, point_of in Hid. exact Hid. }
  assert (Hch' : chain (e_point (getE st0 o) :: p_m :: tl)) by (cbn [chain]; split; [exact Hedge | exact Hch]).
  (* the group of the partner *)
  destruct (Htab ko Kol) as (r' & nr' & nl' & Hk' & Hb' & Hm' & Hid').
  unfold get_next_pos in H.
  destruct (get_next_pos_loop (S (length map)) (Z.of_nat ko) (Z.of_nat ko) (w_processed w2) map) as [[q|]| |] eqn:Eg;
    cbn [obind] in H; try discriminate.
  - destruct (get_next_pos_loop_in_group map (w_processed w2) r' nr' nl' (Z.of_nat ko) ltac:(lia) Hm' _ ko q Hk' Eg) as (kq & -> & Hkq).
    destruct (pt_eq _ initial).
    + inversion H; subst w'. cbn [w_st w_points]. split; [exact G2 | exact Hch'].
    + assert (Hhead' : pt_eq (e_point (getE st0 (nth r' res xH))) (e_point (getE st0 o)) = true).
      { specialize (Hid' ko Hk'). unfold ident, point_of in Hid'. rewrite Eo in Hid'. exact Hid'. }
      exact (IH (mkWalk (w_st w2) (w_processed w2) (e_point (getE st0 o) :: p_m :: tl)) kq r' nr' nl'
                (e_point (getE st0 o)) (p_m :: tl) w' G2 eq_refl Hch' Hkq Hb' Hm' Hid' Hhead' H).
  - inversion H; subst w'. cbn [w_st w_points]. split; [exact G2 | exact Hch'].
Qed.


Lemma chain_adjacent : forall l l1 q p l2, chain l -> l = l1 ++ q :: p :: l2 -> sub_edge p q.
Proof.
  intros l l1. revert l. induction l1 as [|a l1 IH]; intros l q p l2 Hc ->; cbn [app chain] in Hc.
  - apply Hc.
  - destruct (l1 ++ q :: p :: l2) eqn:E; [destruct l1; discriminate|].
    destruct Hc as [_ Hc]. rewrite <- E in Hc. exact (IH _ q p l2 Hc eq_refl).
Qed.

Lemma push_hole_points (cs : list (contour N)) parent child c :
  In c (push_hole cs parent child) -> exists c0, In c0 cs /\ c_points c = c_points c0.
Proof.
  unfold push_hole. destruct (nth_error cs (Z.to_nat parent)) as [pc|] eqn:E; [|intros H; exists c; auto].
  intros H. destruct (In_nth_error _ _ H) as [j Hj].
  destruct (Nat.eq_dec (Z.to_nat parent) j) as [<-|Hn].
  - assert (Hl : Z.to_nat parent < length cs) by (apply nth_error_Some; congruence).
    assert (Q : forall (l : list (contour N)) i v, i < length l -> nth_error (hset l i v) i = Some v).
    { induction l as [|a l IHl]; intros [|i] v Hi; cbn [length] in Hi; cbn [hset nth_error]; try lia; auto. apply IHl. lia. }
    rewrite Q in Hj by exact Hl. inversion Hj; subst c. cbn. exists pc. split; [eapply nth_error_In; eauto | reflexivity].
  - assert (Q : forall (l : list (contour N)) i j v, i <> j -> nth_error (hset l i v) j = nth_error l j).
    { induction l as [|a l IHl]; intros [|i] [|j'] v Hd; cbn [hset nth_error]; try reflexivity; try congruence. apply IHl. congruence. }
    rewrite Q in Hj by exact Hn. exists c. split; [eapply nth_error_In; eauto | reflexivity].
Qed.

Lemma init_points (st : store) ev cs cid cs1 c :
  initialize_from_context cfg st ev cs cid = Ok (cs1, c) ->
  c_points c = [] /\ forall c1, In c1 cs1 -> exists c0, In c0 cs /\ c_points c1 = c_points c0.
Proof.
  unfold initialize_from_context.
  assert (Id : forall c1, In c1 cs -> exists c0, In c0 cs /\ c_points c1 = c_points c0) by (intros c1 H; exists c1; auto).
  repeat match goal with
         | |- context [match ?x with Some _ => _ | None => _ end] => destruct x
         | |- context [if ?b then _ else _] => destruct b
         end; intros H; try discriminate; inversion H; subst; (split; [reflexivity|]); try exact Id;
    intros c1 H1; now apply push_hole_points in H1.
Qed.

Lemma contours_loop_edges : forall idxs (st : store) p contours st' cs',
  geo_eq st -> (forall i, In i idxs -> i < length res) ->
  (forall c, In c contours -> chain (rev (c_points c))) ->
  contours_loop cfg idxs st p res map contours = Ok (st', cs') ->
  forall c, In c cs' -> chain (rev (c_points c)).
Proof.
  induction idxs as [|i rest IH]; intros st p contours st' cs' G Hi Hc H; cbn [contours_loop] in H.
  - inversion H; subst. exact Hc.
  - assert (Hrest : forall j, In j rest -> j < length res) by (intros j Hj; apply Hi; now right).
    destruct (is_processed p (Z.of_nat i)); [exact (IH _ _ _ _ _ G Hrest Hc H)|].
    destruct (initialize_from_context cfg st (nth_ev res (Z.of_nat i)) contours (Z.of_nat (length contours)))
      as [[cs1 c0]|s|] eqn:E; cbn [obind] in H; try discriminate.
    destruct (init_points _ _ _ _ _ _ E) as [Pc0 Pcs1].
    set (initial := point_of st (nth_ev res (Z.of_nat i))) in *.
    destruct (walk_loop (S (length res)) (mkWalk st p [initial]) res map (Z.of_nat i) (Z.of_nat (length contours)) initial)
      as [w|s|] eqn:Ew; cbn [obind] in H; try discriminate.
    assert (Il : i < length res) by (apply Hi; now left).
    destruct (Htab i Il) as (r & nr & nl & Hk & Hb & Hm & Hid).
    assert (Hhead : pt_eq (e_point (getE st0 (nth r res xH))) initial = true).
    { unfold initial, point_of. rewrite nth_ev_nat. rewrite (proj1 (G (nth i res xH))).
      specialize (Hid i Hk). exact Hid. }
    destruct (walk_loop_chain (Z.of_nat (length contours)) initial (S (length res)) (mkWalk st p [initial]) i r nr nl initial [] w
                G eq_refl I Hk Hb Hm Hid Hhead Ew) as [Gw Cw].
    refine (IH _ _ _ _ _ Gw Hrest _ H).
    intros c1 H1. apply in_app_or in H1. destruct H1 as [H1|[<-|[]]].
    + destruct (Pcs1 c1 H1) as (c2 & H2 & E2). rewrite E2. now apply Hc.
    + cbn [c_points]. rewrite rev_involutive. exact Cw.
Qed.

End Walk.

(** ** the theorem *)
Section ContourTheorem.
Variable N : Num.
Variable cfg : config.
Notation store := (store N).

Theorem contour_edges_are_subsegments fuel (st : store) evs st' res cs :
  NoDup evs -> paired N st (filter (in_result_filter st) evs) ->
  connect_edges cfg fuel st evs = Ok (st', res, cs) ->
  forall c l1 p q l2, In c cs -> c_points c = l1 ++ p :: q :: l2 ->
  exists i o x, In i evs /\ in_result_filter st i = true /\ e_other (getE st i) = Some o /\
    pt_eq x p = true /\ pt_eq x (e_point (getE st i)) = true /\ q = e_point (getE st o).
Proof.
  intros ND P. unfold connect_edges.
  destruct (order_events fuel st evs) as [[st1 r]|s|] eqn:Eo; cbn [obind]; try discriminate.
  destruct (order_events_exact N fuel st evs st1 r ND P Eo) as (NDr & Pr & SF & Pts & Pos).
  destruct (order_events_positions N _ _ _ _ _ (fun i o Hi Hl Ho => ltac:(destruct (P i Hi) as (o' & Io' & O' & _); assert (o' = o) by congruence; subst; exact Io')) Eo)
    as (_ & _ & Perm).
  destruct (precompute_iteration_order cfg st1 r) as [map|s|] eqn:Em; cbn [obind]; try discriminate.
  destruct (precompute_range N cfg _ _ _ Em) as [Hlen _].
  destruct (contours_loop cfg (seq 0 (length r)) st1 [] r map []) as [[st2 cs2]|s|] eqn:Ec; cbn [obind]; try discriminate.
  intros H. inversion H; subst st' res cs. clear H.
  intros c l1 p q l2 Hc Hpts.
  assert (Htab : forall k, k < length r ->
            exists r0 nr nl, r0 <= k < r0 + nr + nl /\ r0 + nr + nl <= length r /\
              (forall k', r0 <= k' < r0 + nr + nl -> nth k' map 0 = succ_blk r0 nr nl k') /\
              (forall k', r0 <= k' < r0 + nr + nl -> ident st1 (nth r0 r xH) (nth k' r xH) = true)).
  { intros k Hk. exact (table_stays_at_vertex N cfg st1 r map Em k Hk). }
  assert (G0 : geo_eq N st1 st1) by (intros k; auto).
  pose proof (contours_loop_edges N cfg st1 r map Hlen Htab Pr Pos (seq 0 (length r)) st1 [] [] st2 cs2 G0
                ltac:(intros i Hi; apply in_seq in Hi; lia) ltac:(intros c0 []) Ec c Hc) as Ch.
  assert (Hrev : rev (c_points c) = rev l2 ++ q :: p :: rev l1).
  { rewrite Hpts, rev_app_distr. cbn [rev]. rewrite <- !app_assoc. reflexivity. }
  destruct (chain_adjacent N st1 r _ _ q p _ Ch Hrev) as (i & o & x & Ii & Oi & X1 & X2 & ->).
  exists i, o, x.
  assert (Ifil : In i (filter (in_result_filter st) evs)) by (apply (Permutation_in _ (Permutation_sym Perm)); exact Ii).
  apply filter_In in Ifil. destruct Ifil as [Iev Fi].
  rewrite (proj2 (SF i)) in Oi. rewrite (Pts i) in X2. rewrite (Pts o).
  repeat split; auto.
Qed.

End ContourTheorem.
