(** * The exact instance [NQ] satisfies the order laws of [NumLaws.v].

    PROVED (no axioms, everything closed under the global context):
    - [qx_compare_spec]   : reflection of [qx_compare] on finite values into [Qlt]/[Qeq]/[Qgt];
    - [qx_lt_FF], [qx_le_FF], [qx_eq_FF] : [qx_lt (QF x) (QF y) = true <-> x < y] etc.;
    - [NQ_order : OrderLaws qok qx_lt qx_le qx_eq qx_min qx_max] with [qok a := a <> QNaN];
    - [NQ_laws : NumLaws NQ] with [okX NQ_laws = okY NQ_laws = qok] (by [reflexivity]:
      [NQ_okX], [NQ_okY]).
    MISSING: nothing. *)
From Coq Require Import Bool ZArith QArith Qreduction Lqa Lia.
From GB Require Import Num NumQ NumLaws.
Set Implicit Arguments.
Local Open Scope Q_scope.

(** the values on which the order is total *)
Definition qok (a : qx) : Prop := a <> QNaN.

Lemma qok_QF q : qok (QF q).
Proof. unfold qok; discriminate. Qed.
Lemma qok_PInf : qok QPInf.
Proof. unfold qok; discriminate. Qed.
Lemma qok_NInf : qok QNInf.
Proof. unfold qok; discriminate. Qed.
Lemma qok_NaN : ~ qok QNaN.
Proof. unfold qok; intros H; apply H; reflexivity. Qed.
#[export] Hint Resolve qok_QF qok_PInf qok_NInf : qx.

(** ** Reflection of the comparisons on finite values *)

Lemma qx_compare_FF x y : qx_compare (QF x) (QF y) = Some (x ?= y).
Proof. reflexivity. Qed.

Inductive qx_cmp_spec (x y : Q) : option comparison -> Prop :=
| QCLt : x < y -> qx_cmp_spec x y (Some Lt)
| QCEq : x == y -> qx_cmp_spec x y (Some Eq)
| QCGt : y < x -> qx_cmp_spec x y (Some Gt).

Lemma qx_compare_spec x y : qx_cmp_spec x y (qx_compare (QF x) (QF y)).
Proof.
  rewrite qx_compare_FF.
  destruct (Qcompare_spec x y) as [H|H|H]; constructor; assumption.
Qed.

Lemma qx_lt_FF x y : qx_lt (QF x) (QF y) = true <-> x < y.
Proof.
  unfold qx_lt. destruct (qx_compare_spec x y) as [H|H|H]; split; intros H0;
    try reflexivity; try discriminate; try assumption; exfalso; lra.
Qed.

Lemma qx_le_FF x y : qx_le (QF x) (QF y) = true <-> x <= y.
Proof.
  unfold qx_le. destruct (qx_compare_spec x y) as [H|H|H]; split; intros H0;
    try reflexivity; try discriminate; try lra.
Qed.

Lemma qx_eq_FF x y : qx_eq (QF x) (QF y) = true <-> x == y.
Proof.
  unfold qx_eq. destruct (qx_compare_spec x y) as [H|H|H]; split; intros H0;
    try reflexivity; try discriminate; try assumption; exfalso; lra.
Qed.

Lemma qx_lt_FF_false x y : qx_lt (QF x) (QF y) = false <-> y <= x.
Proof.
  rewrite <- not_true_iff_false, qx_lt_FF. split; intros H; lra.
Qed.

Lemma qx_le_FF_false x y : qx_le (QF x) (QF y) = false <-> y < x.
Proof.
  rewrite <- not_true_iff_false, qx_le_FF. split; intros H; lra.
Qed.

Lemma qx_eq_FF_false x y : qx_eq (QF x) (QF y) = false <-> ~ x == y.
Proof.
  rewrite <- not_true_iff_false, qx_eq_FF. reflexivity.
Qed.

(** ** The order laws *)

Ltac qx_cases a x :=
  destruct a as [x| | |];
  [ | | | try (match goal with H : qok QNaN |- _ => exfalso; exact (qok_NaN H) end) ].

Lemma qx_le_total a b : qok a -> qok b -> qx_le a b = negb (qx_lt b a).
Proof.
  intros Ha Hb. qx_cases a x; qx_cases b y; try reflexivity.
  unfold qx_le, qx_lt.
  destruct (qx_compare_spec x y) as [H|H|H]; destruct (qx_compare_spec y x) as [H'|H'|H'];
    try reflexivity; exfalso; lra.
Qed.

Lemma qx_lt_le a b : qx_lt a b = true -> qx_le a b = true.
Proof.
  unfold qx_lt, qx_le. destruct (qx_compare a b) as [[| |]|]; intros H; try reflexivity; discriminate.
Qed.

Lemma qx_lt_irrefl a : qx_lt a a = false.
Proof.
  destruct a as [x| | |]; try reflexivity.
  apply qx_lt_FF_false. lra.
Qed.

Lemma qx_le_refl a : qok a -> qx_le a a = true.
Proof.
  intros Ha. rewrite qx_le_total by assumption. rewrite qx_lt_irrefl. reflexivity.
Qed.

Lemma qx_le_trans a b c :
  qok a -> qok b -> qok c -> qx_le a b = true -> qx_le b c = true -> qx_le a c = true.
Proof.
  intros Ha Hb Hc. qx_cases a x; qx_cases b y; qx_cases c z;
    try (intros; reflexivity); try (intros; discriminate).
  rewrite !qx_le_FF. intros H1 H2. lra.
Qed.

Lemma qx_eq_le a b : qok a -> qok b -> qx_eq a b = (qx_le a b && qx_le b a).
Proof.
  intros Ha Hb. qx_cases a x; qx_cases b y; try reflexivity.
  unfold qx_le, qx_eq.
  destruct (qx_compare_spec x y) as [H|H|H]; destruct (qx_compare_spec y x) as [H'|H'|H'];
    try reflexivity; exfalso; lra.
Qed.

Lemma qx_compare_ok a b : qok a -> qok b -> exists c, qx_compare a b = Some c.
Proof.
  intros Ha Hb. qx_cases a x; qx_cases b y; eexists; reflexivity.
Qed.

Lemma qx_min_cases a b :
  qok a -> qok b ->
  (qx_min a b = a /\ qx_le a b = true) \/ (qx_min a b = b /\ qx_le b a = true).
Proof.
  intros Ha Hb.
  assert (Ht := qx_le_total Hb Ha).
  destruct (qx_compare_ok Ha Hb) as [c Hc].
  unfold qx_min, qx_le, qx_lt in *. rewrite Hc in *.
  destruct c.
  - left; split; reflexivity.
  - left; split; reflexivity.
  - right; split; [reflexivity|]. cbn in Ht. exact Ht.
Qed.

Lemma qx_max_cases a b :
  qok a -> qok b ->
  (qx_max a b = a /\ qx_le b a = true) \/ (qx_max a b = b /\ qx_le a b = true).
Proof.
  intros Ha Hb.
  assert (Ht := qx_le_total Hb Ha).
  destruct (qx_compare_ok Ha Hb) as [c Hc].
  unfold qx_max, qx_le, qx_lt in *. rewrite Hc in *.
  destruct c.
  - left; split; [reflexivity|]. cbn in Ht. exact Ht.
  - right; split; reflexivity.
  - left; split; [reflexivity|]. cbn in Ht. exact Ht.
Qed.

Lemma qx_min_ok a b : qok a -> qok b -> qok (qx_min a b).
Proof.
  intros Ha Hb. destruct (qx_min_cases Ha Hb) as [[-> _]|[-> _]]; assumption.
Qed.

Lemma qx_max_ok a b : qok a -> qok b -> qok (qx_max a b).
Proof.
  intros Ha Hb. destruct (qx_max_cases Ha Hb) as [[-> _]|[-> _]]; assumption.
Qed.

Lemma qx_min_l a b : qok a -> qok b -> qx_le (qx_min a b) a = true.
Proof.
  intros Ha Hb. destruct (qx_min_cases Ha Hb) as [[-> H]|[-> H]].
  - apply qx_le_refl; assumption.
  - assumption.
Qed.

Lemma qx_min_r a b : qok a -> qok b -> qx_le (qx_min a b) b = true.
Proof.
  intros Ha Hb. destruct (qx_min_cases Ha Hb) as [[-> H]|[-> H]].
  - assumption.
  - apply qx_le_refl; assumption.
Qed.

Lemma qx_min_glb a b c :
  qok a -> qok b -> qok c -> qx_le c a = true -> qx_le c b = true -> qx_le c (qx_min a b) = true.
Proof.
  intros Ha Hb Hc H1 H2. destruct (qx_min_cases Ha Hb) as [[-> H]|[-> H]]; assumption.
Qed.

Lemma qx_max_l a b : qok a -> qok b -> qx_le a (qx_max a b) = true.
Proof.
  intros Ha Hb. destruct (qx_max_cases Ha Hb) as [[-> H]|[-> H]].
  - apply qx_le_refl; assumption.
  - assumption.
Qed.

Lemma qx_max_r a b : qok a -> qok b -> qx_le b (qx_max a b) = true.
Proof.
  intros Ha Hb. destruct (qx_max_cases Ha Hb) as [[-> H]|[-> H]].
  - assumption.
  - apply qx_le_refl; assumption.
Qed.

Lemma qx_max_lub a b c :
  qok a -> qok b -> qok c -> qx_le a c = true -> qx_le b c = true -> qx_le (qx_max a b) c = true.
Proof.
  intros Ha Hb Hc H1 H2. destruct (qx_max_cases Ha Hb) as [[-> H]|[-> H]]; assumption.
Qed.

Lemma NQ_order : OrderLaws qok qx_lt qx_le qx_eq qx_min qx_max.
Proof.
  constructor.
  - exact qx_le_total.
  - exact qx_lt_le.
  - exact qx_lt_irrefl.
  - exact qx_le_trans.
  - exact qx_eq_le.
  - exact qx_min_ok.
  - exact qx_max_ok.
  - exact qx_min_l.
  - exact qx_min_r.
  - exact qx_min_glb.
  - exact qx_max_l.
  - exact qx_max_r.
  - exact qx_max_lub.
Qed.

Lemma qx_le_pinf a : qok a -> qx_le a QPInf = true.
Proof. intros Ha. qx_cases a x; reflexivity. Qed.

Lemma qx_ninf_le a : qok a -> qx_le QNInf a = true.
Proof. intros Ha. qx_cases a x; reflexivity. Qed.

Definition NQ_laws : NumLaws NQ :=
  @Build_NumLaws NQ qok qok NQ_order NQ_order
    qok_PInf qok_NInf qok_PInf qok_NInf
    qx_le_pinf qx_ninf_le qx_le_pinf qx_ninf_le
    (eq_refl : ltX NQ (ninfX NQ) (pinfX NQ) = true)
    (eq_refl : ltY NQ (ninfY NQ) (pinfY NQ) = true).

Lemma NQ_okX : okX NQ_laws = qok.
Proof. reflexivity. Qed.
Lemma NQ_okY : okY NQ_laws = qok.
Proof. reflexivity. Qed.

Check NQ_order.
Check NQ_laws.
Print Assumptions NQ_order.
Print Assumptions NQ_laws.
