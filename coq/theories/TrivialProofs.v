(** * The trivial paths of [boolean_operation]: trait wrappers, bounding boxes, shortcut.

    Everything below is proved (no axiom, no admit; see the [Print Assumptions] at the end).

    Generic part (Section [Trivial], for EVERY instance [N : Num]):

    (W) [boolean_PP], [boolean_PM], [boolean_MP], [boolean_MM]: the four trait impls pass
        (subject, clipping) in that order to [boolean_operation].
    (B) [starts_of_ring], [starts_of_polygon], [starts_of], [bb_add];
        [process_edge_bb], [process_ring_from_bb], [process_ring_bb], [process_interiors_bb],
        [fill_subject_bb], [fill_clipping_bb], and
          [fill_queue_sbbox : f_sbbox (fill_queue A B op) = fold_left bb_add (starts_of A) (empty_bb N)]
          [fill_queue_cbbox : f_cbbox (fill_queue A B op) = fold_left bb_add (starts_of B) (empty_bb N)]
        (no order hypothesis).
    (D) [disjoint_boxes_trivial] and its corollaries [disjoint_boxes_intersection],
        [disjoint_boxes_difference], [disjoint_boxes_union], [disjoint_boxes_xor]
        (no order hypothesis).
    (E) under the four Section hypotheses listed below:
        [fill_queue_cbbox_empty], [fill_queue_sbbox_empty],
        [boxes_disjoint_empty_r], [boxes_disjoint_empty_l],
        [fill_queue_disjoint_empty_r], [fill_queue_disjoint_empty_l],
        [empty_r_trivial], [empty_l_trivial], and the eight laws
        [union_empty_r], [xor_empty_r], [difference_empty_r], [intersection_empty_r],
        [union_empty_l], [xor_empty_l], [difference_empty_l], [intersection_empty_l].

    Section hypotheses (about [N] and a predicate [finX : X N -> Prop], "finite abscissa"):
      [Hinf        : ltX N (ninfX N) (pinfX N) = true]
      [Hfin_lt_pinf: forall a, finX a -> ltX N a (pinfX N) = true]
      [Hmax_fin    : forall a b, finX a -> finX b -> finX (maxX N a b)]
      [Hmax_ninf   : forall b, finX b -> finX (maxX N (ninfX N) b)]
    The hypothesis on an operand is [xfin_polys ps]: the abscissa of every point of every ring
    is [finX].  Only abscissae are needed, because with an empty operand the x-disjunct of
    [boxes_disjoint] already holds; nothing is assumed about ordinates, [minX], [leX], [eqX].
    ("all coordinates are finite" implies [xfin_polys]; this is how the NQ corollaries are
    stated.)

    Section [FromLaws]: the four hypotheses are derived from any [L : NumLaws N] with
      [finL L a := okX L a /\ ltX N a (pinfX N) = true]
    ([L_Hinf], [L_Hfin_lt_pinf], [L_Hmax_fin], [L_Hmax_ninf]), giving
      [empty_r_trivial_L], [empty_l_trivial_L] for every instance that has [NumLaws].

    Exact instance [NQ] (independent of [NumLawsQ.v]; hypothesis-free apart from the shape of the coordinates):
      [finQ a := exists q, a = QF q], [coords_Q ps] := every coordinate of every point of
      every ring of [ps] is of the form [QF q];
      [NQ_Hinf], [NQ_Hfin_lt_pinf], [NQ_Hmax_fin], [NQ_Hmax_ninf], [coords_Q_xfin];
      [union_empty_r_Q], [xor_empty_r_Q], [difference_empty_r_Q], [intersection_empty_r_Q],
      [union_empty_l_Q], [xor_empty_l_Q], [difference_empty_l_Q], [intersection_empty_l_Q].
    (N) non-vacuity by [vm_compute]: [ex_sqA_coords], [ex_union_empty_r], [ex_union_empty_l],
        [ex_intersection_empty_r], [ex_boxes_disjoint], [ex_disjoint_union],
        [ex_disjoint_intersection], [ex_disjoint_difference], [ex_sbbox], and
        [ex_overlap_not_shortcut] (two overlapping squares do NOT take the shortcut). *)
From Coq Require Import Bool List ZArith NArith PArith QArith.
From GB Require Import Num NumQ NumLaws Event Outcome FillQueue BoolOp.
Import ListNotations.
Set Implicit Arguments.

(* ------------------------------------------------------------------------- *)
Section Trivial.
Variable N : Num.
Notation pt := (pt N).
Notation ring := (ring N).
Notation polygon := (polygon N).
Notation bounding_box := (bounding_box N).

(** ** (W) the four trait impls *)
Section Wrappers.
Variable cfg : config.
Variable fuel : nat.

Lemma boolean_PP : forall (p q : polygon) op,
  boolean cfg fuel (OpPolygon p) (OpPolygon q) op = boolean_operation cfg fuel [p] [q] op.
Proof. reflexivity. Qed.

Lemma boolean_PM : forall (p : polygon) (m : multipolygon N) op,
  boolean cfg fuel (OpPolygon p) (OpMulti m) op = boolean_operation cfg fuel [p] m op.
Proof. reflexivity. Qed.

Lemma boolean_MP : forall (m : multipolygon N) (p : polygon) op,
  boolean cfg fuel (OpMulti m) (OpPolygon p) op = boolean_operation cfg fuel m [p] op.
Proof. reflexivity. Qed.

Lemma boolean_MM : forall (m m' : multipolygon N) op,
  boolean cfg fuel (OpMulti m) (OpMulti m') op = boolean_operation cfg fuel m m' op.
Proof. reflexivity. Qed.
End Wrappers.

(** ** (B) the bounding boxes computed by [fill_queue] *)

(** start points of the non-collapsed windows [(prev, p_1), (p_1, p_2), ...] of [prev :: rest] *)
Fixpoint starts_from (prev : pt) (rest : ring) : list pt :=
  match rest with
  | [] => []
  | p :: rest' =>
      if pt_eq prev p then starts_from p rest' else prev :: starts_from p rest'
  end.

Definition starts_of_ring (r : ring) : list pt :=
  match r with
  | [] => []
  | p :: rest => starts_from p rest
  end.

Definition starts_of_polygon (p : polygon) : list pt :=
  starts_of_ring (exterior p) ++ flat_map starts_of_ring (interiors p).

Definition starts_of (ps : list polygon) : list pt := flat_map starts_of_polygon ps.

Definition bb_add (bb : bounding_box) (p : pt) : bounding_box :=
  mkBB N (minX N (bb_minx bb) (px p)) (minY N (bb_miny bb) (py p))
         (maxX N (bb_maxx bb) (px p)) (maxY N (bb_maxy bb) (py p)).

Lemma starts_of_nil : starts_of [] = [].
Proof. reflexivity. Qed.

Lemma starts_of_cons : forall p ps, starts_of (p :: ps) = starts_of_polygon p ++ starts_of ps.
Proof. reflexivity. Qed.

Lemma process_edge_bb : forall (s : fq N) sub cid ext (a b : pt),
  fq_bb (process_edge s sub cid ext a b) =
  if pt_eq a b then fq_bb s else bb_add (fq_bb s) a.
Proof.
  intros s sub cid ext a b. unfold process_edge.
  destruct (pt_eq a b); [reflexivity|].
  unfold alloc. cbn [fst snd fq_bb]. reflexivity.
Qed.

Lemma process_ring_from_bb : forall (rest : ring) (s : fq N) sub cid ext (prev : pt),
  fq_bb (process_ring_from s sub cid ext prev rest) =
  fold_left bb_add (starts_from prev rest) (fq_bb s).
Proof.
  induction rest as [|p rest IH]; intros s sub cid ext prev.
  - reflexivity.
  - cbn [process_ring_from starts_from]. rewrite IH, process_edge_bb.
    destruct (pt_eq prev p); reflexivity.
Qed.

Lemma process_ring_bb : forall (s : fq N) (r : ring) sub cid ext,
  fq_bb (process_ring s r sub cid ext) = fold_left bb_add (starts_of_ring r) (fq_bb s).
Proof.
  intros s [|p rest] sub cid ext.
  - reflexivity.
  - cbn [process_ring starts_of_ring]. apply process_ring_from_bb.
Qed.

Lemma process_interiors_bb : forall (ints : list ring) (s : fq N) sub cid,
  fq_bb (process_interiors s ints sub cid) =
  fold_left bb_add (flat_map starts_of_ring ints) (fq_bb s).
Proof.
  unfold process_interiors.
  induction ints as [|r ints IH]; intros s sub cid.
  - reflexivity.
  - cbn [fold_left flat_map]. rewrite IH, process_ring_bb, fold_left_app. reflexivity.
Qed.

Lemma fill_subject_bb : forall (ps : list polygon) (s : fq N) cid,
  fq_bb (fst (fill_subject s cid ps)) = fold_left bb_add (starts_of ps) (fq_bb s).
Proof.
  induction ps as [|p ps IH]; intros s cid.
  - reflexivity.
  - cbn [fill_subject]. rewrite IH, process_interiors_bb, process_ring_bb.
    rewrite starts_of_cons. unfold starts_of_polygon.
    rewrite !fold_left_app. reflexivity.
Qed.

Lemma fill_clipping_bb : forall (ps : list polygon) (s : fq N) cid op,
  fq_bb (fst (fill_clipping s cid op ps)) = fold_left bb_add (starts_of ps) (fq_bb s).
Proof.
  induction ps as [|p ps IH]; intros s cid op.
  - reflexivity.
  - cbn [fill_clipping]. rewrite IH, process_interiors_bb, process_ring_bb.
    rewrite starts_of_cons. unfold starts_of_polygon.
    rewrite !fold_left_app. reflexivity.
Qed.

Theorem fill_queue_sbbox : forall (subject clipping : list polygon) op,
  f_sbbox (fill_queue subject clipping op) =
  fold_left bb_add (starts_of subject) (empty_bb N).
Proof.
  intros subject clipping op. unfold fill_queue.
  pose proof (fill_subject_bb subject (mkFQ (empty_store N) [] (empty_bb N)) 0%N) as Hs.
  destruct (fill_subject _ _ subject) as [s1 cid].
  destruct (fill_clipping _ cid op clipping) as [s2 cid2].
  cbn [f_sbbox]. exact Hs.
Qed.

Theorem fill_queue_cbbox : forall (subject clipping : list polygon) op,
  f_cbbox (fill_queue subject clipping op) =
  fold_left bb_add (starts_of clipping) (empty_bb N).
Proof.
  intros subject clipping op. unfold fill_queue.
  destruct (fill_subject _ _ subject) as [s1 cid].
  pose proof (fill_clipping_bb clipping (mkFQ (fq_st s1) (fq_q s1) (empty_bb N)) cid op) as Hc.
  destruct (fill_clipping _ cid op clipping) as [s2 cid2].
  cbn [f_cbbox]. exact Hc.
Qed.

(** ** (D) disjoint boxes: the shortcut returns [trivial_result] *)
Section Disjoint.
Variable cfg : config.
Variable fuel : nat.
Hypothesis Hshort : c_noshort cfg = false.

Theorem disjoint_boxes_trivial : forall (A B : list polygon) op,
  boxes_disjoint (f_sbbox (fill_queue A B op)) (f_cbbox (fill_queue A B op)) = true ->
  boolean_operation cfg fuel A B op = Ok (trivial_result A B op).
Proof.
  intros A B op Hdis. unfold boolean_operation.
  rewrite Hshort, Hdis. reflexivity.
Qed.

Corollary disjoint_boxes_intersection : forall (A B : list polygon),
  boxes_disjoint (f_sbbox (fill_queue A B Intersection))
                 (f_cbbox (fill_queue A B Intersection)) = true ->
  boolean_operation cfg fuel A B Intersection = Ok [].
Proof. intros A B Hdis. apply (disjoint_boxes_trivial _ _ _ Hdis). Qed.

Corollary disjoint_boxes_difference : forall (A B : list polygon),
  boxes_disjoint (f_sbbox (fill_queue A B Difference))
                 (f_cbbox (fill_queue A B Difference)) = true ->
  boolean_operation cfg fuel A B Difference = Ok A.
Proof. intros A B Hdis. apply (disjoint_boxes_trivial _ _ _ Hdis). Qed.

Corollary disjoint_boxes_union : forall (A B : list polygon),
  boxes_disjoint (f_sbbox (fill_queue A B Union))
                 (f_cbbox (fill_queue A B Union)) = true ->
  boolean_operation cfg fuel A B Union = Ok (A ++ B).
Proof. intros A B Hdis. apply (disjoint_boxes_trivial _ _ _ Hdis). Qed.

Corollary disjoint_boxes_xor : forall (A B : list polygon),
  boxes_disjoint (f_sbbox (fill_queue A B Xor))
                 (f_cbbox (fill_queue A B Xor)) = true ->
  boolean_operation cfg fuel A B Xor = Ok (A ++ B).
Proof. intros A B Hdis. apply (disjoint_boxes_trivial _ _ _ Hdis). Qed.
End Disjoint.

(** ** (E) an empty operand takes the shortcut *)

Lemma fill_queue_cbbox_empty : forall (A : list polygon) op,
  f_cbbox (fill_queue A [] op) = empty_bb N.
Proof. intros A op. rewrite fill_queue_cbbox. reflexivity. Qed.

Lemma fill_queue_sbbox_empty : forall (A : list polygon) op,
  f_sbbox (fill_queue [] A op) = empty_bb N.
Proof. intros A op. rewrite fill_queue_sbbox. reflexivity. Qed.

Section Empty.
(** finite abscissae, and the four order facts used *)
Variable finX : X N -> Prop.
Hypothesis Hinf : ltX N (ninfX N) (pinfX N) = true.
Hypothesis Hfin_lt_pinf : forall a, finX a -> ltX N a (pinfX N) = true.
Hypothesis Hmax_fin : forall a b, finX a -> finX b -> finX (maxX N a b).
Hypothesis Hmax_ninf : forall b, finX b -> finX (maxX N (ninfX N) b).

(** the abscissa of every point of every ring is finite *)
Definition xfin_pt (p : pt) : Prop := finX (px p).
Definition xfin_ring (r : ring) : Prop := Forall xfin_pt r.
Definition xfin_polygon (p : polygon) : Prop :=
  xfin_ring (exterior p) /\ Forall xfin_ring (interiors p).
Definition xfin_polys (ps : list polygon) : Prop := Forall xfin_polygon ps.

(** "finite or the initial -infinity" *)
Definition lowX (a : X N) : Prop := a = ninfX N \/ finX a.

Lemma lowX_lt_pinf : forall a, lowX a -> ltX N a (pinfX N) = true.
Proof.
  intros a [Ha|Ha].
  - rewrite Ha. exact Hinf.
  - apply Hfin_lt_pinf, Ha.
Qed.

Lemma lowX_max : forall a b, lowX a -> finX b -> lowX (maxX N a b).
Proof.
  intros a b [Ha|Ha] Hb; right.
  - rewrite Ha. apply Hmax_ninf, Hb.
  - apply Hmax_fin; assumption.
Qed.

Lemma bb_add_lowX : forall bb p, lowX (bb_maxx bb) -> xfin_pt p -> lowX (bb_maxx (bb_add bb p)).
Proof. intros bb p Hbb Hp. cbn [bb_add bb_maxx]. apply lowX_max; assumption. Qed.

Lemma fold_bb_add_lowX : forall (l : list pt) bb,
  Forall xfin_pt l -> lowX (bb_maxx bb) -> lowX (bb_maxx (fold_left bb_add l bb)).
Proof.
  induction l as [|p l IH]; intros bb Hl Hbb.
  - exact Hbb.
  - cbn [fold_left]. inversion Hl as [|p' l' Hp Hl']; subst.
    apply IH; [exact Hl'|]. apply bb_add_lowX; assumption.
Qed.

Lemma empty_bb_lowX : lowX (bb_maxx (empty_bb N)).
Proof. left. reflexivity. Qed.

Lemma starts_from_xfin : forall (rest : ring) (prev : pt),
  xfin_pt prev -> Forall xfin_pt rest -> Forall xfin_pt (starts_from prev rest).
Proof.
  induction rest as [|p rest IH]; intros prev Hprev Hrest.
  - constructor.
  - inversion Hrest as [|p' l' Hp Hrest']; subst. cbn [starts_from].
    destruct (pt_eq prev p).
    + apply IH; assumption.
    + constructor; [exact Hprev|]. apply IH; assumption.
Qed.

Lemma starts_of_ring_xfin : forall r, xfin_ring r -> Forall xfin_pt (starts_of_ring r).
Proof.
  intros [|p rest] Hr.
  - constructor.
  - inversion Hr as [|p' l' Hp Hrest]; subst. cbn [starts_of_ring].
    apply starts_from_xfin; assumption.
Qed.

Lemma flat_map_Forall : forall (T U : Type) (P : T -> Prop) (Q : U -> Prop) (f : T -> list U),
  (forall x, P x -> Forall Q (f x)) ->
  forall l, Forall P l -> Forall Q (flat_map f l).
Proof.
  intros T U P Q f Hf. induction l as [|x l IH]; intros Hl.
  - constructor.
  - inversion Hl as [|x' l' Hx Hl']; subst. cbn [flat_map].
    apply Forall_app. split; [apply Hf, Hx|apply IH, Hl'].
Qed.

Lemma starts_of_polygon_xfin : forall p, xfin_polygon p -> Forall xfin_pt (starts_of_polygon p).
Proof.
  intros p [Hext Hints]. unfold starts_of_polygon. apply Forall_app. split.
  - apply starts_of_ring_xfin, Hext.
  - apply (flat_map_Forall starts_of_ring starts_of_ring_xfin), Hints.
Qed.

Lemma starts_of_xfin : forall ps, xfin_polys ps -> Forall xfin_pt (starts_of ps).
Proof.
  intros ps Hps. unfold starts_of.
  apply (flat_map_Forall starts_of_polygon starts_of_polygon_xfin), Hps.
Qed.

Lemma fill_queue_sbbox_lowX : forall (A B : list polygon) op,
  xfin_polys A -> lowX (bb_maxx (f_sbbox (fill_queue A B op))).
Proof.
  intros A B op HA. rewrite fill_queue_sbbox.
  apply fold_bb_add_lowX; [apply starts_of_xfin, HA|apply empty_bb_lowX].
Qed.

Lemma fill_queue_cbbox_lowX : forall (A B : list polygon) op,
  xfin_polys B -> lowX (bb_maxx (f_cbbox (fill_queue A B op))).
Proof.
  intros A B op HB. rewrite fill_queue_cbbox.
  apply fold_bb_add_lowX; [apply starts_of_xfin, HB|apply empty_bb_lowX].
Qed.

(** a box whose [maxx] is finite or -inf is disjoint from the empty box, on either side *)
Lemma boxes_disjoint_empty_r : forall s : bounding_box,
  lowX (bb_maxx s) -> boxes_disjoint s (empty_bb N) = true.
Proof.
  intros s Hs. unfold boxes_disjoint, gtX. cbn [empty_bb bb_minx bb_maxx].
  rewrite (lowX_lt_pinf Hs). rewrite orb_true_r. reflexivity.
Qed.

Lemma boxes_disjoint_empty_l : forall c : bounding_box,
  lowX (bb_maxx c) -> boxes_disjoint (empty_bb N) c = true.
Proof.
  intros c Hc. unfold boxes_disjoint, gtX. cbn [empty_bb bb_minx bb_maxx].
  rewrite (lowX_lt_pinf Hc). reflexivity.
Qed.

Lemma fill_queue_disjoint_empty_r : forall (A : list polygon) op,
  xfin_polys A ->
  boxes_disjoint (f_sbbox (fill_queue A [] op)) (f_cbbox (fill_queue A [] op)) = true.
Proof.
  intros A op HA. rewrite fill_queue_cbbox_empty.
  apply boxes_disjoint_empty_r, fill_queue_sbbox_lowX, HA.
Qed.

Lemma fill_queue_disjoint_empty_l : forall (A : list polygon) op,
  xfin_polys A ->
  boxes_disjoint (f_sbbox (fill_queue [] A op)) (f_cbbox (fill_queue [] A op)) = true.
Proof.
  intros A op HA. rewrite fill_queue_sbbox_empty.
  apply boxes_disjoint_empty_l, fill_queue_cbbox_lowX, HA.
Qed.

Section Laws.
Variable cfg : config.
Variable fuel : nat.
Hypothesis Hshort : c_noshort cfg = false.

Theorem empty_r_trivial : forall (A : list polygon) op,
  xfin_polys A -> boolean_operation cfg fuel A [] op = Ok (trivial_result A [] op).
Proof.
  intros A op HA. apply disjoint_boxes_trivial; [exact Hshort|].
  apply fill_queue_disjoint_empty_r, HA.
Qed.

Theorem empty_l_trivial : forall (A : list polygon) op,
  xfin_polys A -> boolean_operation cfg fuel [] A op = Ok (trivial_result [] A op).
Proof.
  intros A op HA. apply disjoint_boxes_trivial; [exact Hshort|].
  apply fill_queue_disjoint_empty_l, HA.
Qed.

Theorem union_empty_r : forall A : list polygon,
  xfin_polys A -> boolean_operation cfg fuel A [] Union = Ok A.
Proof.
  intros A HA. rewrite (empty_r_trivial Union HA). cbn [trivial_result].
  rewrite app_nil_r. reflexivity.
Qed.

Theorem xor_empty_r : forall A : list polygon,
  xfin_polys A -> boolean_operation cfg fuel A [] Xor = Ok A.
Proof.
  intros A HA. rewrite (empty_r_trivial Xor HA). cbn [trivial_result].
  rewrite app_nil_r. reflexivity.
Qed.

Theorem difference_empty_r : forall A : list polygon,
  xfin_polys A -> boolean_operation cfg fuel A [] Difference = Ok A.
Proof. intros A HA. rewrite (empty_r_trivial Difference HA). reflexivity. Qed.

Theorem intersection_empty_r : forall A : list polygon,
  xfin_polys A -> boolean_operation cfg fuel A [] Intersection = Ok [].
Proof. intros A HA. rewrite (empty_r_trivial Intersection HA). reflexivity. Qed.

Theorem union_empty_l : forall A : list polygon,
  xfin_polys A -> boolean_operation cfg fuel [] A Union = Ok A.
Proof. intros A HA. rewrite (empty_l_trivial Union HA). reflexivity. Qed.

Theorem xor_empty_l : forall A : list polygon,
  xfin_polys A -> boolean_operation cfg fuel [] A Xor = Ok A.
Proof. intros A HA. rewrite (empty_l_trivial Xor HA). reflexivity. Qed.

Theorem difference_empty_l : forall A : list polygon,
  xfin_polys A -> boolean_operation cfg fuel [] A Difference = Ok [].
Proof. intros A HA. rewrite (empty_l_trivial Difference HA). reflexivity. Qed.

Theorem intersection_empty_l : forall A : list polygon,
  xfin_polys A -> boolean_operation cfg fuel [] A Intersection = Ok [].
Proof. intros A HA. rewrite (empty_l_trivial Intersection HA). reflexivity. Qed.
End Laws.
End Empty.
End Trivial.

(* ------------------------------------------------------------------------- *)
(** * The four hypotheses follow from [NumLaws] (any instance that has them)
    with [finX a := okX a /\ a < +inf] (which also admits -inf: harmless here). *)
Section FromLaws.
Variable N : Num.
Variable L : NumLaws N.

Definition finL (a : X N) : Prop := okX L a /\ ltX N a (pinfX N) = true.

Lemma L_Hinf : ltX N (ninfX N) (pinfX N) = true.
Proof. exact (nl_infX_strict L). Qed.

Lemma L_Hfin_lt_pinf : forall a, finL a -> ltX N a (pinfX N) = true.
Proof. intros a [_ Ha]. exact Ha. Qed.

Lemma L_le_refl : forall a, okX L a -> leX N a a = true.
Proof.
  intros a Ha. rewrite (ol_le_total (nl_X L) a a Ha Ha), (ol_lt_irrefl (nl_X L)). reflexivity.
Qed.

Lemma L_below_pinf : forall a m, okX L a -> okX L m ->
  ltX N a (pinfX N) = true -> leX N m a = true -> ltX N m (pinfX N) = true.
Proof.
  intros a m Ha Hm Halt Hma.
  pose proof (ol_le_total (nl_X L) (pinfX N) m (nl_pinfX_ok L) Hm) as Htot.
  destruct (ltX N m (pinfX N)); [reflexivity|]. cbn [negb] in Htot.
  pose proof (ol_le_trans (nl_X L) (pinfX N) m a (nl_pinfX_ok L) Hm Ha Htot Hma) as Hpa.
  rewrite (ol_le_total (nl_X L) (pinfX N) a (nl_pinfX_ok L) Ha), Halt in Hpa.
  discriminate Hpa.
Qed.

Lemma L_Hmax_fin : forall a b, finL a -> finL b -> finL (maxX N a b).
Proof.
  intros a b [Ha Halt] [Hb Hblt].
  pose proof (ol_max_ok (nl_X L) a b Ha Hb) as Hm.
  split; [exact Hm|].
  pose proof (ol_le_total (nl_X L) a b Ha Hb) as Htot.
  destruct (ltX N b a) eqn:Hba.
  - apply (L_below_pinf a (maxX N a b) Ha Hm Halt).
    apply (ol_max_lub (nl_X L) a b a Ha Hb Ha (L_le_refl a Ha)).
    apply (ol_lt_le (nl_X L)), Hba.
  - cbn [negb] in Htot. apply (L_below_pinf b (maxX N a b) Hb Hm Hblt).
    apply (ol_max_lub (nl_X L) a b b Ha Hb Hb Htot (L_le_refl b Hb)).
Qed.

Lemma L_Hmax_ninf : forall b, finL b -> finL (maxX N (ninfX N) b).
Proof.
  intros b Hb. apply L_Hmax_fin; [|exact Hb].
  split; [exact (nl_ninfX_ok L)|exact (nl_infX_strict L)].
Qed.

Variable cfg : config.
Variable fuel : nat.
Hypothesis Hshort : c_noshort cfg = false.

Theorem empty_r_trivial_L : forall (A : list (polygon N)) op,
  xfin_polys finL A -> boolean_operation cfg fuel A [] op = Ok (trivial_result A [] op).
Proof.
  intros A op HA.
  exact (@empty_r_trivial N finL L_Hinf L_Hfin_lt_pinf L_Hmax_fin L_Hmax_ninf cfg fuel Hshort A op HA).
Qed.

Theorem empty_l_trivial_L : forall (A : list (polygon N)) op,
  xfin_polys finL A -> boolean_operation cfg fuel [] A op = Ok (trivial_result [] A op).
Proof.
  intros A op HA.
  exact (@empty_l_trivial N finL L_Hinf L_Hfin_lt_pinf L_Hmax_fin L_Hmax_ninf cfg fuel Hshort A op HA).
Qed.
End FromLaws.

(* ------------------------------------------------------------------------- *)
(** * The exact instance *)
Section AtNQ.

Definition finQ (a : X NQ) : Prop := exists q, a = QF q.

Lemma NQ_Hinf : ltX NQ (ninfX NQ) (pinfX NQ) = true.
Proof. reflexivity. Qed.

Lemma NQ_Hfin_lt_pinf : forall a : X NQ, finQ a -> ltX NQ a (pinfX NQ) = true.
Proof. intros a [q Hq]. rewrite Hq. reflexivity. Qed.

Lemma NQ_Hmax_fin : forall a b : X NQ, finQ a -> finQ b -> finQ (maxX NQ a b).
Proof.
  intros a b [qa Ha] [qb Hb]. rewrite Ha, Hb.
  cbn [maxX NQ]. unfold qx_max. cbn [qx_compare].
  destruct (Qcompare qa qb); eexists; reflexivity.
Qed.

Lemma NQ_Hmax_ninf : forall b : X NQ, finQ b -> finQ (maxX NQ (ninfX NQ) b).
Proof. intros b [qb Hb]. rewrite Hb. exists qb. reflexivity. Qed.

(** every coordinate of every point of every ring is a rational *)
Definition coords_Q_pt (p : pt NQ) : Prop := finQ (px p) /\ finQ (py p).
Definition coords_Q_ring (r : ring NQ) : Prop := Forall coords_Q_pt r.
Definition coords_Q_polygon (p : polygon NQ) : Prop :=
  coords_Q_ring (exterior p) /\ Forall coords_Q_ring (interiors p).
Definition coords_Q (ps : list (polygon NQ)) : Prop := Forall coords_Q_polygon ps.

Lemma coords_Q_ring_xfin : forall r, coords_Q_ring r -> @xfin_ring NQ finQ r.
Proof.
  intros r Hr. unfold xfin_ring. eapply Forall_impl; [|exact Hr].
  intros p [Hx _]. exact Hx.
Qed.

Lemma coords_Q_xfin : forall ps, coords_Q ps -> @xfin_polys NQ finQ ps.
Proof.
  intros ps Hps. unfold xfin_polys. eapply Forall_impl; [|exact Hps].
  intros p [Hext Hints]. split.
  - apply coords_Q_ring_xfin, Hext.
  - eapply Forall_impl; [|exact Hints]. exact coords_Q_ring_xfin.
Qed.

Variable cfg : config.
Variable fuel : nat.
Hypothesis Hshort : c_noshort cfg = false.

Theorem union_empty_r_Q : forall A : list (polygon NQ),
  coords_Q A -> boolean_operation cfg fuel A [] Union = Ok A.
Proof.
  intros A HA.
  exact (@union_empty_r NQ finQ NQ_Hinf NQ_Hfin_lt_pinf NQ_Hmax_fin NQ_Hmax_ninf cfg fuel Hshort A (coords_Q_xfin HA)).
Qed.

Theorem xor_empty_r_Q : forall A : list (polygon NQ),
  coords_Q A -> boolean_operation cfg fuel A [] Xor = Ok A.
Proof.
  intros A HA.
  exact (@xor_empty_r NQ finQ NQ_Hinf NQ_Hfin_lt_pinf NQ_Hmax_fin NQ_Hmax_ninf cfg fuel Hshort A (coords_Q_xfin HA)).
Qed.

Theorem difference_empty_r_Q : forall A : list (polygon NQ),
  coords_Q A -> boolean_operation cfg fuel A [] Difference = Ok A.
Proof.
  intros A HA.
  exact (@difference_empty_r NQ finQ NQ_Hinf NQ_Hfin_lt_pinf NQ_Hmax_fin NQ_Hmax_ninf cfg fuel Hshort A (coords_Q_xfin HA)).
Qed.

Theorem intersection_empty_r_Q : forall A : list (polygon NQ),
  coords_Q A -> boolean_operation cfg fuel A [] Intersection = Ok [].
Proof.
  intros A HA.
  exact (@intersection_empty_r NQ finQ NQ_Hinf NQ_Hfin_lt_pinf NQ_Hmax_fin NQ_Hmax_ninf cfg fuel Hshort A (coords_Q_xfin HA)).
Qed.

Theorem union_empty_l_Q : forall A : list (polygon NQ),
  coords_Q A -> boolean_operation cfg fuel [] A Union = Ok A.
Proof.
  intros A HA.
  exact (@union_empty_l NQ finQ NQ_Hinf NQ_Hfin_lt_pinf NQ_Hmax_fin NQ_Hmax_ninf cfg fuel Hshort A (coords_Q_xfin HA)).
Qed.

Theorem xor_empty_l_Q : forall A : list (polygon NQ),
  coords_Q A -> boolean_operation cfg fuel [] A Xor = Ok A.
Proof.
  intros A HA.
  exact (@xor_empty_l NQ finQ NQ_Hinf NQ_Hfin_lt_pinf NQ_Hmax_fin NQ_Hmax_ninf cfg fuel Hshort A (coords_Q_xfin HA)).
Qed.

Theorem difference_empty_l_Q : forall A : list (polygon NQ),
  coords_Q A -> boolean_operation cfg fuel [] A Difference = Ok [].
Proof.
  intros A HA.
  exact (@difference_empty_l NQ finQ NQ_Hinf NQ_Hfin_lt_pinf NQ_Hmax_fin NQ_Hmax_ninf cfg fuel Hshort A (coords_Q_xfin HA)).
Qed.

Theorem intersection_empty_l_Q : forall A : list (polygon NQ),
  coords_Q A -> boolean_operation cfg fuel [] A Intersection = Ok [].
Proof.
  intros A HA.
  exact (@intersection_empty_l NQ finQ NQ_Hinf NQ_Hfin_lt_pinf NQ_Hmax_fin NQ_Hmax_ninf cfg fuel Hshort A (coords_Q_xfin HA)).
Qed.
End AtNQ.

(* ------------------------------------------------------------------------- *)
(** * (N) non-vacuity *)
Section Examples.
Local Open Scope Q_scope.

Definition qpt (x y : Q) : pt NQ := mkPt NQ (QF x) (QF y).
(** the unit square, given open; [polygon_new] closes it *)
Definition sqA : polygon NQ := polygon_new [qpt 0 0; qpt 1 0; qpt 1 1; qpt 0 1] [].
(** the same square translated by 3 (boxes disjoint from [sqA]) and by 1/2 (overlapping) *)
Definition sqB : polygon NQ := polygon_new [qpt 3 0; qpt 4 0; qpt 4 1; qpt 3 1] [].
Definition sqC : polygon NQ :=
  polygon_new [qpt (1#2) (1#2); qpt (3#2) (1#2); qpt (3#2) (3#2); qpt (1#2) (3#2)] [].

Example ex_sqA_closed :
  exterior sqA = [qpt 0 0; qpt 1 0; qpt 1 1; qpt 0 1; qpt 0 0].
Proof. vm_compute. reflexivity. Qed.

Example ex_sqA_coords : coords_Q [sqA].
Proof.
  repeat constructor; cbn; eexists; reflexivity.
Qed.

Example ex_starts_sqA : starts_of [sqA] = [qpt 0 0; qpt 1 0; qpt 1 1; qpt 0 1].
Proof. vm_compute. reflexivity. Qed.

Example ex_sbbox :
  f_sbbox (fill_queue [sqA] [sqB] Union) = mkBB NQ (QF 0) (QF 0) (QF 1) (QF 1)
  /\ f_cbbox (fill_queue [sqA] [sqB] Union) = mkBB NQ (QF 3) (QF 0) (QF 4) (QF 1).
Proof. split; vm_compute; reflexivity. Qed.

Example ex_union_empty_r : boolean_operation release 100 [sqA] [] Union = Ok [sqA].
Proof. vm_compute. reflexivity. Qed.

Example ex_union_empty_l : boolean_operation release 100 [] [sqA] Union = Ok [sqA].
Proof. vm_compute. reflexivity. Qed.

Example ex_intersection_empty_r : boolean_operation release 100 [sqA] [] Intersection = Ok [].
Proof. vm_compute. reflexivity. Qed.

(** the general law applied to the concrete square (not by computation) *)
Example ex_union_empty_r_by_law : forall fuel, boolean_operation release fuel [sqA] [] Union = Ok [sqA].
Proof. intros fuel. apply union_empty_r_Q; [reflexivity|exact ex_sqA_coords]. Qed.

Example ex_boxes_disjoint :
  boxes_disjoint (f_sbbox (fill_queue [sqA] [sqB] Union))
                 (f_cbbox (fill_queue [sqA] [sqB] Union)) = true.
Proof. vm_compute. reflexivity. Qed.

Example ex_disjoint_union : boolean_operation release 100 [sqA] [sqB] Union = Ok [sqA; sqB].
Proof. vm_compute. reflexivity. Qed.

Example ex_disjoint_intersection : boolean_operation release 100 [sqA] [sqB] Intersection = Ok [].
Proof. vm_compute. reflexivity. Qed.

Example ex_disjoint_difference : boolean_operation release 100 [sqA] [sqB] Difference = Ok [sqA].
Proof. vm_compute. reflexivity. Qed.

(** overlapping boxes do not take the shortcut: the hypothesis of (D) is not always true *)
Example ex_overlap_not_shortcut :
  boxes_disjoint (f_sbbox (fill_queue [sqA] [sqC] Intersection))
                 (f_cbbox (fill_queue [sqA] [sqC] Intersection)) = false.
Proof. vm_compute. reflexivity. Qed.
End Examples.

(* ------------------------------------------------------------------------- *)
Check boolean_PP. Check boolean_PM. Check boolean_MP. Check boolean_MM.
Check process_edge_bb. Check fill_queue_sbbox. Check fill_queue_cbbox.
Check disjoint_boxes_trivial. Check disjoint_boxes_intersection.
Check disjoint_boxes_difference. Check disjoint_boxes_union. Check disjoint_boxes_xor.
Check boxes_disjoint_empty_r. Check boxes_disjoint_empty_l.
Check fill_queue_disjoint_empty_r. Check fill_queue_disjoint_empty_l.
Check union_empty_r. Check xor_empty_r. Check difference_empty_r. Check intersection_empty_r.
Check union_empty_l. Check xor_empty_l. Check difference_empty_l. Check intersection_empty_l.
Check union_empty_r_Q. Check xor_empty_r_Q. Check difference_empty_r_Q. Check intersection_empty_r_Q.
Check union_empty_l_Q. Check xor_empty_l_Q. Check difference_empty_l_Q. Check intersection_empty_l_Q.

Print Assumptions boolean_PP.
Print Assumptions boolean_PM.
Print Assumptions boolean_MP.
Print Assumptions boolean_MM.
Print Assumptions fill_queue_sbbox.
Print Assumptions fill_queue_cbbox.
Print Assumptions disjoint_boxes_trivial.
Print Assumptions disjoint_boxes_intersection.
Print Assumptions disjoint_boxes_difference.
Print Assumptions disjoint_boxes_union.
Print Assumptions disjoint_boxes_xor.
Print Assumptions fill_queue_disjoint_empty_r.
Print Assumptions fill_queue_disjoint_empty_l.
Print Assumptions union_empty_r.
Print Assumptions xor_empty_r.
Print Assumptions difference_empty_r.
Print Assumptions intersection_empty_r.
Print Assumptions union_empty_l.
Print Assumptions xor_empty_l.
Print Assumptions difference_empty_l.
Print Assumptions intersection_empty_l.
Print Assumptions union_empty_r_Q.
Print Assumptions xor_empty_r_Q.
Print Assumptions difference_empty_r_Q.
Print Assumptions intersection_empty_r_Q.
Print Assumptions union_empty_l_Q.
Print Assumptions xor_empty_l_Q.
Print Assumptions difference_empty_l_Q.
Print Assumptions intersection_empty_l_Q.
Print Assumptions ex_union_empty_r.
Print Assumptions ex_union_empty_r_by_law.
Print Assumptions ex_disjoint_union.
Print Assumptions ex_overlap_not_shortcut.
Check empty_r_trivial_L. Check empty_l_trivial_L.
Print Assumptions empty_r_trivial_L.
Print Assumptions empty_l_trivial_L.
