(** * Sub-segments of one operand meet in at most one point (C13, planarity clause restricted to
    pairs of one operand): exact instance, operands none of whose edges overlap another edge of
    the same operand.

    [disj]: two distinct linked pairs of one operand share at most one point.  Queue filling
    establishes it from the hypothesis on the edge list ([simple_edges]: any two occurrences of
    edges of one operand share at most one point); a division strictly inside keeps it: the two
    halves meet only in the division point ([SplitCover.split_meet]) and each half is contained
    in the divided segment. *)
From Coq Require Import Bool List PArith NArith QArith Lqa Lia.
From GB Require Import Prim Num NumQ NumLaws NumLawsQ Event Intersect Cmp Heap Outcome Divide Fields FillQueue
  Subdivide IntersectProofs FieldsProofs SplayKeys LinkProofs PiProofs SplitCover OnEdge OnEdgeFull Coverage.
From GB Require Splay.
Import ListNotations.
Local Open Scope Q_scope.

Definition share_le1 (ax ay bx by_ cx cy dx dy : Q) : Prop :=
  forall x y x' y', on_seg ax ay bx by_ x y -> on_seg cx cy dx dy x y ->
                    on_seg ax ay bx by_ x' y' -> on_seg cx cy dx dy x' y' -> qeqp x y x' y'.

Lemma on_seg_sym ax ay bx by_ x y : on_seg ax ay bx by_ x y -> on_seg bx by_ ax ay x y.
Proof. intros (t & Ht & Hx & Hy). exists (1 - t). split; [lra|]. rewrite Hx, Hy. split; ring. Qed.

Lemma share_sub ax ay bx by_ ax' ay' bx' by' cx cy dx dy :
  (forall x y, on_seg ax' ay' bx' by' x y -> on_seg ax ay bx by_ x y) ->
  share_le1 ax ay bx by_ cx cy dx dy -> share_le1 ax' ay' bx' by' cx cy dx dy.
Proof. intros Sub H x y x' y' A1 A2 A3 A4. apply (H x y x' y'); auto. Qed.
Lemma share_comm ax ay bx by_ cx cy dx dy : share_le1 ax ay bx by_ cx cy dx dy -> share_le1 cx cy dx dy ax ay bx by_.
Proof. intros H x y x' y' A1 A2 A3 A4. apply (H x y x' y'); auto. Qed.
Lemma share_rev1 ax ay bx by_ cx cy dx dy : share_le1 ax ay bx by_ cx cy dx dy -> share_le1 bx by_ ax ay cx cy dx dy.
Proof. intros H x y x' y' A1 A2 A3 A4. apply (H x y x' y'); auto using on_seg_sym. Qed.
Lemma share_rev2 ax ay bx by_ cx cy dx dy : share_le1 ax ay bx by_ cx cy dx dy -> share_le1 ax ay bx by_ dx dy cx cy.
Proof. intros H x y x' y' A1 A2 A3 A4. apply (H x y x' y'); auto using on_seg_sym. Qed.

Section SameOp.
Variable edges : list edge.
Notation store := (store NQ).
Notation slkeys := (@keys eid unit).

Definition disj (st : store) : Prop :=
  forall i o i' o' ax ay bx by_ cx cy dx dy,
    mapped NQ st i -> mapped NQ st i' ->
    e_other (getE st i) = Some o -> e_other (getE st i') = Some o' ->
    i' <> i -> i' <> o ->
    e_is_subject (getE st i) = e_is_subject (getE st i') ->
    e_point (getE st i) = fpt ax ay -> e_point (getE st o) = fpt bx by_ ->
    e_point (getE st i') = fpt cx cy -> e_point (getE st o') = fpt dx dy ->
    share_le1 ax ay bx by_ cx cy dx dy.

Lemma disj_upd (st : store) j f : keeps_e f -> mapped NQ st j -> disj st -> disj (upd st j f).
Proof.
  intros K Mj D i o i' o' ax ay bx by_ cx cy dx dy Mi Mi' Oi Oi' N1 N2 Sj Pi Po Pi' Po'.
  apply (mapped_upd_in NQ st j f i Mj) in Mi. apply (mapped_upd_in NQ st j f i' Mj) in Mi'.
  destruct (getE_upd_keeps_e st j f i K) as (A1 & A2 & A3).
  destruct (getE_upd_keeps_e st j f i' K) as (B1 & B2 & B3).
  destruct (getE_upd_keeps_e st j f o K) as (C1 & _).
  destruct (getE_upd_keeps_e st j f o' K) as (D1 & _).
  rewrite A2 in Oi. rewrite B2 in Oi'. rewrite A3, B3 in Sj. rewrite A1 in Pi. rewrite B1 in Pi'. rewrite C1 in Po. rewrite D1 in Po'.
  exact (D i o i' o' _ _ _ _ _ _ _ _ Mi Mi' Oi Oi' N1 N2 Sj Pi Po Pi' Po').
Qed.

(** every pair of the store after a division lies in a pair of the store before it *)
Inductive origin := Half1 | Half2 | Untouched.

Lemma divd cfg (s s' : sq NQ) (se_l se_r : eid) (lx ly rx ry ix iy : Q) :
  sqinv NQ s -> einv2 edges (sq_st s) -> disj (sq_st s) -> mapped NQ (sq_st s) se_l ->
  e_other (getE (sq_st s) se_l) = Some se_r ->
  e_left (getE (sq_st s) se_l) = true ->
  e_point (getE (sq_st s) se_l) = fpt lx ly -> e_point (getE (sq_st s) se_r) = fpt rx ry ->
  strictly_inside lx ly rx ry ix iy ->
  divide_segment cfg s se_l (fpt ix iy) = Ok s' ->
  einv2 edges (sq_st s') /\
  (forall k, mapped NQ (sq_st s) k -> e_left (getE (sq_st s') k) = e_left (getE (sq_st s) k)) /\
  (forall l, e_other (getE (sq_st s') se_r) = Some l ->
     e_left (getE (sq_st s') l) = true /\ e_point (getE (sq_st s') l) = fpt ix iy /\
     e_other (getE (sq_st s') l) = Some se_r /\ ~ mapped NQ (sq_st s) l) /\
  disj (sq_st s').
Proof.
  intros Sq E Dj Ml Or Ll Pl Pr Hin Hd.
  destruct (divide_segment_einv2 edges cfg s s' se_l se_r lx ly rx ry ix iy Sq E Ml Or Ll Pl Pr Hin Hd) as (E' & F' & Hl).
  split; [exact E'|]. split; [exact F'|]. split; [exact Hl|].
  pose proof Sq as [[W L] Q].
  destruct (L se_l Ml) as (o & Ho & Hne & Mr & Back & Hsub & _). assert (o = se_r) by congruence. subst o.
  destruct (divide_segment_shape NQ cfg s s' se_l se_r (fpt ix iy) W Ml Mr Hne Or Hd)
    as (r & l & i' & Nr & Nl & Hrl & A1 & A2 & A3 & A4 & B1 & B2 & Ei & Keep & KeepO).
  rewrite bump_dead_exact in Ei. rewrite Ei in B1, B2. clear Ei i'.
  pose proof (divide_segment_keeps_subject cfg s s' se_l (fpt ix iy) W Hd) as KS.
  pose proof (divide_segment_inv NQ cfg s se_l (fpt ix iy) Sq Ml) as DI. rewrite Hd in DI. destruct DI as [[[W' L'] Q'] G'].
  assert (Hmo : forall o0, e_other (getE (sq_st s) se_l) = Some o0 -> mapped NQ (sq_st s) o0).
  { intros o0 K. assert (o0 = se_r) by congruence. subst. exact Mr. }
  pose proof (divide_segment_new_ids cfg s s' se_l (fpt ix iy) Hmo Hd) as NI.
  assert (Mr_ : mapped NQ (sq_st s') r).
  { destruct (mapped_dec NQ (sq_st s') r) as [K|K]; [exact K|]. rewrite (getE_unmapped_other _ _ K) in A2. discriminate. }
  assert (Ml_ : mapped NQ (sq_st s') l).
  { destruct (mapped_dec NQ (sq_st s') l) as [K|K]; [exact K|]. rewrite (getE_unmapped_other _ _ K) in A3. discriminate. }
  destruct Hin as (Hon & Hnl & Hnr).
  assert (Dlr : ~ (rx == lx /\ ry == ly)).
  { intros [K1 K2]. destruct Hon as (t & Ht & Hx & Hy). apply Hnl. split; [rewrite Hx, K1 | rewrite Hy, K2]; ring. }
  assert (Sub1 : forall x y, on_seg lx ly ix iy x y -> on_seg lx ly rx ry x y)
    by (intros x y K; apply (proj2 (split_cover lx ly rx ry ix iy Hon x y)); now left).
  assert (Sub2 : forall x y, on_seg ix iy rx ry x y -> on_seg lx ly rx ry x y)
    by (intros x y K; apply (proj2 (split_cover lx ly rx ry ix iy Hon x y)); now right).
  assert (Meet : share_le1 lx ly ix iy ix iy rx ry).
  { intros x y x' y' K1 K2 K3 K4.
    destruct (split_meet lx ly rx ry ix iy x y Dlr Hon K1 K2) as [E1 E2].
    destruct (split_meet lx ly rx ry ix iy x' y' Dlr Hon K3 K4) as [E3 E4]. split; lra. }
  (* subjects of the four events of the divided pair *)
  assert (Tl : e_is_subject (getE (sq_st s') se_l) = e_is_subject (getE (sq_st s) se_l)) by (apply KS; exact Ml).
  assert (Tr : e_is_subject (getE (sq_st s') se_r) = e_is_subject (getE (sq_st s) se_l)) by (rewrite (KS se_r Mr); exact Hsub).
  assert (Tr' : e_is_subject (getE (sq_st s') r) = e_is_subject (getE (sq_st s) se_l)).
  { destruct (L' r Mr_) as (o2 & O2 & _ & _ & _ & S2 & _). assert (o2 = se_l) by congruence. subst o2. rewrite <- S2. exact Tl. }
  assert (Tl' : e_is_subject (getE (sq_st s') l) = e_is_subject (getE (sq_st s) se_l)).
  { destruct (L' l Ml_) as (o2 & O2 & _ & _ & _ & S2 & _). assert (o2 = se_r) by congruence. subst o2. rewrite <- S2. exact Tr. }
  (* classification of a pair of the new store *)
  assert (Cl : forall k ok ax ay bx by_, mapped NQ (sq_st s') k -> e_other (getE (sq_st s') k) = Some ok ->
            e_point (getE (sq_st s') k) = fpt ax ay -> e_point (getE (sq_st s') ok) = fpt bx by_ ->
            (* first half, second half (either orientation), or an untouched old pair *)
            ((k = se_l \/ k = r) /\ (forall x y, on_seg ax ay bx by_ x y -> on_seg lx ly ix iy x y)
                               /\ e_is_subject (getE (sq_st s') k) = e_is_subject (getE (sq_st s) se_l))
            \/ ((k = l \/ k = se_r) /\ (forall x y, on_seg ax ay bx by_ x y -> on_seg ix iy rx ry x y)
                               /\ e_is_subject (getE (sq_st s') k) = e_is_subject (getE (sq_st s) se_l))
            \/ (mapped NQ (sq_st s) k /\ k <> se_l /\ k <> se_r /\ mapped NQ (sq_st s) ok /\
                e_other (getE (sq_st s) k) = Some ok /\ e_point (getE (sq_st s) k) = fpt ax ay /\
                e_point (getE (sq_st s) ok) = fpt bx by_ /\ e_is_subject (getE (sq_st s') k) = e_is_subject (getE (sq_st s) k))).
  { intros k ok ax ay bx by_ Mk Ok Pk Pok.
    destruct (Pos.eq_dec k se_l) as [->|K1].
    { left. split; [now left|]. rewrite A1 in Ok. inversion Ok; subst ok.
      rewrite (Keep se_l Ml), Pl in Pk. rewrite B1 in Pok. apply fpt_inj in Pk, Pok. destruct Pk as [<- <-], Pok as [<- <-]. auto. }
    destruct (Pos.eq_dec k r) as [->|K2].
    { left. split; [now right|]. rewrite A2 in Ok. inversion Ok; subst ok.
      rewrite B1 in Pk. rewrite (Keep se_l Ml), Pl in Pok. apply fpt_inj in Pk, Pok. destruct Pk as [<- <-], Pok as [<- <-].
      split; [intros x y K; now apply on_seg_sym | exact Tr']. }
    destruct (Pos.eq_dec k l) as [->|K3].
    { right. left. split; [now left|]. rewrite A3 in Ok. inversion Ok; subst ok.
      rewrite B2 in Pk. rewrite (Keep se_r Mr), Pr in Pok. apply fpt_inj in Pk, Pok. destruct Pk as [<- <-], Pok as [<- <-]. auto. }
    destruct (Pos.eq_dec k se_r) as [->|K4].
    { right. left. split; [now right|]. rewrite A4 in Ok. inversion Ok; subst ok.
      rewrite (Keep se_r Mr), Pr in Pk. rewrite B2 in Pok. apply fpt_inj in Pk, Pok. destruct Pk as [<- <-], Pok as [<- <-].
      split; [intros x y K; now apply on_seg_sym | exact Tr]. }
    right. right.
    assert (Mk0 : mapped NQ (sq_st s) k).
    { destruct (NI k Mk) as [K|K]; [exact K|]. exfalso.
      destruct (NI r Mr_) as [Kr|Kr]; [contradiction|]. destruct (NI l Ml_) as [Kl|Kl]; [contradiction|].
      destruct K as [K|K], Kr as [Kr|Kr], Kl as [Kl|Kl]; congruence. }
    rewrite (KeepO k Mk0 K1 K4) in Ok.
    destruct (L k Mk0) as (o2 & O2 & _ & Mo2 & _). assert (o2 = ok) by congruence. subst o2.
    rewrite (Keep k Mk0) in Pk. rewrite (Keep ok Mo2) in Pok. rewrite (KS k Mk0). auto 10. }
  intros i o i' o' ax ay bx by_ cx cy dx dy Mi Mi' Oi Oi' N1 N2 Sj Pi Po Pi' Po'.
  destruct (Cl i o ax ay bx by_ Mi Oi Pi Po) as [(Ki & Si & Ti)|[(Ki & Si & Ti)|(Mi0 & Ki1 & Ki2 & Mo0 & Oi0 & Pi0 & Po0 & Ti)]];
  destruct (Cl i' o' cx cy dx dy Mi' Oi' Pi' Po') as [(Ki' & Si' & Ti')|[(Ki' & Si' & Ti')|(Mi0' & Ki1' & Ki2' & Mo0' & Oi0' & Pi0' & Po0' & Ti')]].
  - (* both in the first half: the same pair *)
    exfalso. destruct Ki as [->| ->], Ki' as [->| ->]; try (now elim N1).
    + apply N2. rewrite A1 in Oi. now inversion Oi.
    + apply N2. rewrite A2 in Oi. now inversion Oi.
  - (* first half against second half *)
    intros x y x' y' K1 K2 K3 K4. apply (Meet x y x' y'); auto.
  - (* first half against an untouched pair of the same operand *)
    assert (Sh : share_le1 lx ly rx ry cx cy dx dy).
    { apply (Dj se_l se_r i' o' _ _ _ _ _ _ _ _ Ml Mi0' Or Oi0' Ki1' Ki2'); auto. rewrite <- Ti', <- Sj, Ti. reflexivity. }
    intros x y x' y' K1 K2 K3 K4. apply (Sh x y x' y'); auto.
  - intros x y x' y' K1 K2 K3 K4. apply qeqp_sym. apply (Meet x' y' x y); auto.
  - exfalso. destruct Ki as [->| ->], Ki' as [->| ->]; try (now elim N1).
    + apply N2. rewrite A3 in Oi. now inversion Oi.
    + apply N2. rewrite A4 in Oi. now inversion Oi.
  - assert (Sh : share_le1 lx ly rx ry cx cy dx dy).
    { apply (Dj se_l se_r i' o' _ _ _ _ _ _ _ _ Ml Mi0' Or Oi0' Ki1' Ki2'); auto. rewrite <- Ti', <- Sj, Ti. reflexivity. }
    intros x y x' y' K1 K2 K3 K4. apply (Sh x y x' y'); auto.
  - (* untouched against first half *)
    assert (Sh : share_le1 lx ly rx ry ax ay bx by_).
    { apply (Dj se_l se_r i o _ _ _ _ _ _ _ _ Ml Mi0 Or Oi0 Ki1 Ki2); auto. rewrite <- Ti, Sj, Ti'. reflexivity. }
    intros x y x' y' K1 K2 K3 K4. apply (Sh x y x' y'); auto.
  - assert (Sh : share_le1 lx ly rx ry ax ay bx by_).
    { apply (Dj se_l se_r i o _ _ _ _ _ _ _ _ Ml Mi0 Or Oi0 Ki1 Ki2); auto. rewrite <- Ti, Sj, Ti'. reflexivity. }
    intros x y x' y' K1 K2 K3 K4. apply (Sh x y x' y'); auto.
  - (* two untouched pairs *)
    apply (Dj i o i' o' _ _ _ _ _ _ _ _ Mi0 Mi0' Oi0 Oi0' N1 N2); auto. rewrite <- Ti, <- Ti'. exact Sj.
Qed.


Definition ped (st0 : store) (r : outcome (sq NQ * nat)) : Prop :=
  match r with
  | Ok (s', _) => einv2 edges (sq_st s') /\ FP st0 (sq_st s') /\ disj (sq_st s')
  | _ => True
  end.

Lemma ped_step cfg (st0 : store) (s s' : sq NQ) (T Tr : eid) (lx ly rx ry ix iy : Q) :
  sqinv NQ s -> einv2 edges (sq_st s) ->
  (forall k, mapped NQ st0 k -> mapped NQ (sq_st s) k /\ e_left (getE (sq_st s) k) = e_left (getE st0 k)) ->
  disj (sq_st s) ->
  mapped NQ (sq_st s) T -> e_other (getE (sq_st s) T) = Some Tr -> e_left (getE (sq_st s) T) = true ->
  e_point (getE (sq_st s) T) = fpt lx ly -> e_point (getE (sq_st s) Tr) = fpt rx ry ->
  strictly_inside lx ly rx ry ix iy ->
  divide_segment cfg s T (fpt ix iy) = Ok s' ->
  einv2 edges (sq_st s') /\ FP st0 (sq_st s') /\ disj (sq_st s').
Proof.
  intros Sq E H0 Dj MT OT LT PT PTr Hin Hd.
  destruct (divd cfg s s' T Tr lx ly rx ry ix iy Sq E Dj MT OT LT PT PTr Hin Hd) as (E' & F' & _ & Dj').
  split; [exact E'|]. split; [|exact Dj'].
  intros k Mk. destruct (H0 k Mk) as [Mk' Fk]. rewrite (F' k Mk'). exact Fk.
Qed.

Theorem possible_intersection_ped cfg (s : sq NQ) (se1 se2 : eid) :
  sqinv NQ s -> einv2 edges (sq_st s) -> disj (sq_st s) -> mapped NQ (sq_st s) se1 -> mapped NQ (sq_st s) se2 ->
  e_left (getE (sq_st s) se1) = true -> e_left (getE (sq_st s) se2) = true ->
  ped (sq_st s) (possible_intersection cfg s se1 se2).
Proof.
  intros S E Dj M1 M2 Lf1 Lf2. pose proof S as [[W L] Q].
  assert (Same : forall k, mapped NQ (sq_st s) k -> mapped NQ (sq_st s) k /\ e_left (getE (sq_st s) k) = e_left (getE (sq_st s) k))
    by (intros k Mk; split; [exact Mk | reflexivity]).
  assert (Good0 : ped (sq_st s) (Ok (s, 0%nat))) by (cbn; split; [exact E | split; [apply FP_refl | exact Dj]]).
  unfold possible_intersection.
  destruct (L se1 M1) as (other1 & O1 & Hne1 & Mo1 & Back1 & _).
  destruct (L se2 M2) as (other2 & O2 & Hne2 & Mo2 & Back2 & _).
  rewrite O1, O2.
  destruct (E se1 other1 M1 O1) as (p1x & p1y & o1x & o1y & a1x & a1y & b1x & b1y & P1 & Q1 & D1 & I1 & S1a & S1b & F1 & Lx1).
  destruct (E se2 other2 M2 O2) as (p2x & p2y & o2x & o2y & a2x & a2y & b2x & b2y & P2 & Q2 & D2 & I2 & S2a & S2b & F2 & Lx2).
  rewrite Lf1 in F1. rewrite Lf2 in F2. cbn [negb] in F1, F2. specialize (Lx1 Lf1). specialize (Lx2 Lf2).
  assert (N2o : se2 <> other1) by (intros K; rewrite K in Lf2; congruence).
  assert (N1o : se1 <> other2) by (intros K; rewrite K in Lf1; congruence).
  unfold point_of. rewrite P1, Q1, P2, Q2.
  assert (Hne : ~ (o1x == p1x /\ o1y == p1y)) by (intros [K1 K2]; apply D1; split; symmetry; assumption).
  pose proof (@intersection_exact_all p1x p1y o1x o1y p2x p2y o2x o2y Hne) as EX.
  destruct (intersection (fpt p1x p1y) (fpt o1x o1y) (fpt p2x p2y) (fpt o2x o2y)) as [|inter|ia ib] eqn:EI.
  - exact Good0.
  - (* one common point *)
    cbn [exact_result] in EX. destruct EX as (x & y & -> & Hon).
    destruct (on_both_seg1 _ _ _ _ _ _ _ _ _ _ Hon) as [On1 On2].
    destruct (pt_eq (fpt p1x p1y) (fpt p2x p2y) || pt_eq (fpt o1x o1y) (fpt o2x o2y)) eqn:Eends; [exact Good0|].
    apply orb_false_iff in Eends. destruct Eends as [Ep Eo].
    assert (N21 : se2 <> se1).
    { intros K. rewrite K in P2. rewrite P1 in P2. apply fpt_inj in P2. destruct P2 as [<- <-].
      apply pt_eq_fpt_false in Ep. apply Ep. split; reflexivity. }
    set (c1 := negb (pt_eq (fpt p1x p1y) (fpt x y)) && negb (pt_eq (fpt o1x o1y) (fpt x y))).
    set (c2 := negb (pt_eq (fpt p2x p2y) (fpt x y)) && negb (pt_eq (fpt o2x o2y) (fpt x y))).
    assert (In1 : c1 = true -> strictly_inside p1x p1y o1x o1y x y).
    { unfold c1. intros K. apply andb_prop in K. destruct K as [K1 K2].
      apply negb_true_iff in K1, K2. apply pt_eq_fpt_false in K1, K2.
      split; [exact On1|]. split; intros K; [apply K1 | apply K2]; now apply qeqp_sym. }
    assert (In2 : c2 = true -> strictly_inside p2x p2y o2x o2y x y).
    { unfold c2. intros K. apply andb_prop in K. destruct K as [K1 K2].
      apply negb_true_iff in K1, K2. apply pt_eq_fpt_false in K1, K2.
      split; [exact On2|]. split; intros K; [apply K1 | apply K2]; now apply qeqp_sym. }
    destruct c1 eqn:C1.
    + pose proof (divide_segment_inv NQ cfg s se1 (fpt x y) S M1) as DI.
      destruct (divide_segment cfg s se1 (fpt x y)) as [s1|site|] eqn:Dv1; cbn [obind]; [|exact I|exact I].
      destruct DI as [S1 G1].
      destruct (divd cfg s s1 se1 other1 p1x p1y o1x o1y x y S E Dj M1 O1 Lf1 P1 Q1 (In1 eq_refl) Dv1) as (E1 & Fl1 & _ & Dj1).
      destruct c2 eqn:C2.
      * destruct (divide_segment_shape NQ cfg s s1 se1 other1 (fpt x y) W M1 Mo1 Hne1 O1 Dv1)
          as (r & l & i' & _ & _ & _ & _ & _ & _ & _ & _ & _ & _ & Keep & KeepO).
        assert (O2' : e_other (getE (sq_st s1) se2) = Some other2) by (rewrite (KeepO se2 M2 N21 N2o); exact O2).
        assert (P2' : e_point (getE (sq_st s1) se2) = fpt p2x p2y) by (rewrite (Keep se2 M2); exact P2).
        assert (Q2' : e_point (getE (sq_st s1) other2) = fpt o2x o2y) by (rewrite (Keep other2 Mo2); exact Q2).
        destruct (divide_segment cfg s1 se2 (fpt x y)) as [s2|site|] eqn:Dv2; cbn [obind]; [|exact I|exact I].
        cbn [ped].
        assert (H01 : forall k, mapped NQ (sq_st s) k -> mapped NQ (sq_st s1) k /\ e_left (getE (sq_st s1) k) = e_left (getE (sq_st s) k))
          by (intros k Mk; split; [apply G1, Mk | apply Fl1, Mk]).
        assert (L2' : e_left (getE (sq_st s1) se2) = true) by (rewrite (Fl1 se2 M2); exact Lf2).
        exact (ped_step cfg (sq_st s) s1 s2 se2 other2 p2x p2y o2x o2y x y S1 E1 H01 Dj1 (G1 _ M2) O2' L2' P2' Q2' (In2 eq_refl) Dv2).
      * cbn [obind ped]. split; [exact E1 | split; [exact Fl1 | exact Dj1]].
    + cbn [obind]. destruct c2 eqn:C2.
      * destruct (divide_segment cfg s se2 (fpt x y)) as [s2|site|] eqn:Dv2; cbn [obind]; [|exact I|exact I].
        cbn [ped]. exact (ped_step cfg (sq_st s) s s2 se2 other2 p2x p2y o2x o2y x y S E Same Dj M2 O2 Lf2 P2 Q2 (In2 eq_refl) Dv2).
      * cbn [obind]. exact Good0.
  - (* an overlap *)
    destruct (eqb (e_is_subject (getE (sq_st s) se1)) (e_is_subject (getE (sq_st s) se2))); [exact Good0|].
    destruct (overlap_params _ _ _ _ _ _ _ _ _ _ Lx1 Lx2 EI) as (al & be & Hab & Ha1 & Hb0 & X2 & Y2 & X3 & Y3).
    (* the four points by their parameters on the first segment *)
    assert (Pp1 : has_param p1x p1y o1x o1y 0 p1x p1y) by (split; ring).
    assert (Po1 : has_param p1x p1y o1x o1y 1 o1x o1y) by (split; ring).
    assert (Pp2 : has_param p1x p1y o1x o1y al p2x p2y) by (split; assumption).
    assert (Po2 : has_param p1x p1y o1x o1y be o2x o2y) by (split; assumption).
    assert (N21 : pt_eq (fpt p1x p1y) (fpt p2x p2y) = false -> se2 <> se1).
    { intros Ep K. rewrite K in P2. rewrite P1 in P2. apply fpt_inj in P2. destruct P2 as [<- <-].
      apply pt_eq_fpt_false in Ep. apply Ep. split; reflexivity. }
    destruct (pt_eq (fpt p1x p1y) (fpt p2x p2y)) eqn:LC; destruct (pt_eq (fpt o1x o1y) (fpt o2x o2y)) eqn:RC.
    + (* both ends coincide: only edge types change *)
      cbn [negb app obind].
      set (ty := if eqb (e_in_out (getE (sq_st s) se1)) (e_in_out (getE (sq_st s) se2)) then SameTransition else DifferentTransition).
      set (st1 := upd (sq_st s) se2 (fun e => set_edge_type e NonContributing)).
      set (st2 := upd st1 se1 (fun e => set_edge_type e ty)).
      cbn [ped sq_st].
      assert (M1' : mapped NQ st1 se1) by (apply mapped_upd; now right).
      split; [|split].
      * apply (einv2_upd edges); [apply k2_set_edge_type | exact M1' |].
        apply (einv2_upd edges); [apply k2_set_edge_type | exact M2 | exact E].
      * intros k Mk.
        destruct (getE_upd_keeps_e2 st1 se1 (fun e => set_edge_type e ty) k (k2_set_edge_type ty)) as (_ & _ & _ & A).
        destruct (getE_upd_keeps_e2 (sq_st s) se2 (fun e => set_edge_type e NonContributing) k (k2_set_edge_type NonContributing)) as (_ & _ & _ & B).
        fold st1 in B. fold st2 in A. congruence.
      * apply disj_upd; [apply ke_set_edge_type | exact M1' |]. apply disj_upd; [apply ke_set_edge_type | exact M2 | exact Dj].
    + (* left ends coincide: the longer segment is divided at the right end of the shorter one *)
      apply pt_eq_fpt in LC. apply pt_eq_fpt_false in RC.
      assert (Al0 : al == 0) by (symmetry; apply (qeqp_params p1x p1y o1x o1y Lx1 0 al p1x p1y p2x p2y Pp1 Pp2); exact LC).
      assert (Be1 : ~ be == 1) by (intros K; apply RC; apply (qeqp_params p1x p1y o1x o1y Lx1 1 be o1x o1y o2x o2y Po1 Po2); symmetry; exact K).
      cbn [negb app].
      set (ty := if eqb (e_in_out (getE (sq_st s) se1)) (e_in_out (getE (sq_st s) se2)) then SameTransition else DifferentTransition).
      set (st1 := upd (sq_st s) se2 (fun e => set_edge_type e NonContributing)).
      set (st2 := upd st1 se1 (fun e => set_edge_type e ty)).
      assert (K2 : forall k, e_point (getE st2 k) = e_point (getE (sq_st s) k) /\ e_other (getE st2 k) = e_other (getE (sq_st s) k)
                             /\ e_left (getE st2 k) = e_left (getE (sq_st s) k)).
      { intros k.
        destruct (getE_upd_keeps_e2 st1 se1 (fun e => set_edge_type e ty) k (k2_set_edge_type ty)) as (A1 & A2 & _ & A4).
        destruct (getE_upd_keeps_e2 (sq_st s) se2 (fun e => set_edge_type e NonContributing) k (k2_set_edge_type NonContributing)) as (B1 & B2 & _ & B4).
        fold st1 in B1, B2, B4. fold st2 in A1, A2, A4. repeat split; congruence. }
      assert (M1' : mapped NQ st1 se1) by (apply mapped_upd; now right).
      assert (E2' : einv2 edges st2).
      { apply (einv2_upd edges); [apply k2_set_edge_type | exact M1' |].
        apply (einv2_upd edges); [apply k2_set_edge_type | exact M2 | exact E]. }
      assert (Dj2 : disj (sq_st (mkSQ st2 (sq_q s)))).
      { cbn [sq_st]. apply disj_upd; [apply ke_set_edge_type | exact M1' |]. apply disj_upd; [apply ke_set_edge_type | exact M2 | exact Dj]. }
      destruct (sqinv_set_edge_type NQ s se2 NonContributing S M2) as [Sa Ga].
      destruct (sqinv_set_edge_type NQ (mkSQ st1 (sq_q s)) se1 ty Sa M1') as [Sb Gb]. cbn [sq_st sq_q] in Sb, Gb. fold st2 in Sb, Gb.
      assert (H0 : forall k, mapped NQ (sq_st s) k -> mapped NQ (sq_st (mkSQ st2 (sq_q s))) k /\ e_left (getE (sq_st (mkSQ st2 (sq_q s))) k) = e_left (getE (sq_st s) k)).
      { intros k Mk. cbn [sq_st]. split; [apply Gb, Ga, Mk | apply K2]. }
      destruct (ev_lt (sq_st s) other1 other2) eqn:C2; cbn [nth_ev nth fst snd].
      * (* o2 before o1: be < 1; se1 is divided at o2 *)
        apply (ev_lt_lex (sq_st s) other1 other2 o1x o1y o2x o2y Q1 Q2 RC) in C2.
        apply (lexlt_params p1x p1y o1x o1y Lx1 be 1 o2x o2y o1x o1y Po2 Po1) in C2.
        unfold point_of. rewrite (proj1 (K2 other2)), Q2.
        destruct (divide_segment cfg (mkSQ st2 (sq_q s)) se1 (fpt o2x o2y)) as [s3|site|] eqn:Dv; cbn [obind]; [|exact I|exact I].
        cbn [ped].
        assert (Hin : strictly_inside p1x p1y o1x o1y o2x o2y) by (apply (inside_by_params p1x p1y o1x o1y Lx1 0 1 be); auto; lra).
        assert (MT : mapped NQ (sq_st (mkSQ st2 (sq_q s))) se1) by (cbn [sq_st]; apply Gb, Ga, M1).
        assert (OT : e_other (getE (sq_st (mkSQ st2 (sq_q s))) se1) = Some other1) by (cbn [sq_st]; rewrite (proj1 (proj2 (K2 se1))); exact O1).
        assert (LT : e_left (getE (sq_st (mkSQ st2 (sq_q s))) se1) = true) by (cbn [sq_st]; rewrite (proj2 (proj2 (K2 se1))); exact Lf1).
        assert (PT : e_point (getE (sq_st (mkSQ st2 (sq_q s))) se1) = fpt p1x p1y) by (cbn [sq_st]; rewrite (proj1 (K2 se1)); exact P1).
        assert (PTr : e_point (getE (sq_st (mkSQ st2 (sq_q s))) other1) = fpt o1x o1y) by (cbn [sq_st]; rewrite (proj1 (K2 other1)); exact Q1).
        exact (ped_step cfg (sq_st s) (mkSQ st2 (sq_q s)) s3 se1 other1 p1x p1y o1x o1y o2x o2y Sb E2' H0 Dj2 MT OT LT PT PTr Hin Dv).
      * (* o1 before o2: 1 < be; se2 is divided at o1 *)
        apply (ev_lt_lex_false (sq_st s) other1 other2 o1x o1y o2x o2y Q1 Q2 RC) in C2.
        apply (lexlt_params p1x p1y o1x o1y Lx1 1 be o1x o1y o2x o2y Po1 Po2) in C2.
        unfold point_of. rewrite (proj1 (K2 other1)), Q1.
        destruct (divide_segment cfg (mkSQ st2 (sq_q s)) se2 (fpt o1x o1y)) as [s3|site|] eqn:Dv; cbn [obind]; [|exact I|exact I].
        cbn [ped].
        assert (Hin : strictly_inside p2x p2y o2x o2y o1x o1y) by (apply (inside_by_params p1x p1y o1x o1y Lx1 al be 1); auto; lra).
        assert (MT : mapped NQ (sq_st (mkSQ st2 (sq_q s))) se2) by (cbn [sq_st]; apply Gb, Ga, M2).
        assert (OT : e_other (getE (sq_st (mkSQ st2 (sq_q s))) se2) = Some other2) by (cbn [sq_st]; rewrite (proj1 (proj2 (K2 se2))); exact O2).
        assert (LT : e_left (getE (sq_st (mkSQ st2 (sq_q s))) se2) = true) by (cbn [sq_st]; rewrite (proj2 (proj2 (K2 se2))); exact Lf2).
        assert (PT : e_point (getE (sq_st (mkSQ st2 (sq_q s))) se2) = fpt p2x p2y) by (cbn [sq_st]; rewrite (proj1 (K2 se2)); exact P2).
        assert (PTr : e_point (getE (sq_st (mkSQ st2 (sq_q s))) other2) = fpt o2x o2y) by (cbn [sq_st]; rewrite (proj1 (K2 other2)); exact Q2).
        exact (ped_step cfg (sq_st s) (mkSQ st2 (sq_q s)) s3 se2 other2 p2x p2y o2x o2y o1x o1y Sb E2' H0 Dj2 MT OT LT PT PTr Hin Dv).
    + (* right ends coincide: the earlier segment is divided at the left end of the later one *)
      apply pt_eq_fpt_false in LC. apply pt_eq_fpt in RC.
      assert (Be1 : be == 1) by (symmetry; apply (qeqp_params p1x p1y o1x o1y Lx1 1 be o1x o1y o2x o2y Po1 Po2); exact RC).
      assert (Al0 : ~ al == 0) by (intros K; apply LC; apply (qeqp_params p1x p1y o1x o1y Lx1 0 al p1x p1y p2x p2y Pp1 Pp2); symmetry; exact K).
      cbn [negb app]. rewrite app_nil_r.
      destruct (ev_lt (sq_st s) se1 se2) eqn:C1; cbn [nth_ev nth fst snd].
      * (* p2 before p1: al < 0; se2 is divided at p1 *)
        apply (ev_lt_lex (sq_st s) se1 se2 p1x p1y p2x p2y P1 P2 LC) in C1.
        apply (lexlt_params p1x p1y o1x o1y Lx1 al 0 p2x p2y p1x p1y Pp2 Pp1) in C1.
        unfold point_of. rewrite P1.
        destruct (divide_segment cfg s se2 (fpt p1x p1y)) as [s1|site|] eqn:Dv; cbn [obind]; [|exact I|exact I].
        cbn [ped].
        assert (Hin : strictly_inside p2x p2y o2x o2y p1x p1y) by (apply (inside_by_params p1x p1y o1x o1y Lx1 al be 0); auto; lra).
        exact (ped_step cfg (sq_st s) s s1 se2 other2 p2x p2y o2x o2y p1x p1y S E Same Dj M2 O2 Lf2 P2 Q2 Hin Dv).
      * apply (ev_lt_lex_false (sq_st s) se1 se2 p1x p1y p2x p2y P1 P2 LC) in C1.
        apply (lexlt_params p1x p1y o1x o1y Lx1 0 al p1x p1y p2x p2y Pp1 Pp2) in C1.
        unfold point_of. rewrite P2.
        destruct (divide_segment cfg s se1 (fpt p2x p2y)) as [s1|site|] eqn:Dv; cbn [obind]; [|exact I|exact I].
        cbn [ped].
        assert (Hin : strictly_inside p1x p1y o1x o1y p2x p2y) by (apply (inside_by_params p1x p1y o1x o1y Lx1 0 1 al); auto; lra).
        exact (ped_step cfg (sq_st s) s s1 se1 other1 p1x p1y o1x o1y p2x p2y S E Same Dj M1 O1 Lf1 P1 Q1 Hin Dv).
    + (* four distinct ends *)
      apply pt_eq_fpt_false in LC. apply pt_eq_fpt_false in RC.
      assert (Be1 : ~ be == 1) by (intros K; apply RC; apply (qeqp_params p1x p1y o1x o1y Lx1 1 be o1x o1y o2x o2y Po1 Po2); symmetry; exact K).
      assert (Al0 : ~ al == 0) by (intros K; apply LC; apply (qeqp_params p1x p1y o1x o1y Lx1 0 al p1x p1y p2x p2y Pp1 Pp2); symmetry; exact K).
      assert (N21' : se2 <> se1).
      { intros K. rewrite K in P2. rewrite P1 in P2. apply fpt_inj in P2. destruct P2 as [<- <-]. apply LC. split; reflexivity. }
      cbn [negb].
      destruct (ev_lt (sq_st s) se1 se2) eqn:C1; destruct (ev_lt (sq_st s) other1 other2) eqn:C2;
        cbn [app nth_ev nth fst snd].
      * (* al < 0, be < 1: partial overlap, se2 first *)
        apply (ev_lt_lex (sq_st s) se1 se2 p1x p1y p2x p2y P1 P2 LC) in C1.
        apply (lexlt_params p1x p1y o1x o1y Lx1 al 0 p2x p2y p1x p1y Pp2 Pp1) in C1.
        apply (ev_lt_lex (sq_st s) other1 other2 o1x o1y o2x o2y Q1 Q2 RC) in C2.
        apply (lexlt_params p1x p1y o1x o1y Lx1 be 1 o2x o2y o1x o1y Po2 Po1) in C2.
        rewrite (proj2 (Pos.eqb_neq se2 se1) N21'). cbn [negb].
        rewrite P1.
        pose proof (divide_segment_inv NQ cfg s se2 (fpt p1x p1y) S M2) as DI.
        destruct (divide_segment cfg s se2 (fpt p1x p1y)) as [s1|site|] eqn:Dv1; cbn [obind]; [|exact I|exact I].
        destruct DI as [S1 G1].
        assert (In1 : strictly_inside p2x p2y o2x o2y p1x p1y) by (apply (inside_by_params p1x p1y o1x o1y Lx1 al be 0); auto; lra).
        destruct (divd cfg s s1 se2 other2 p2x p2y o2x o2y p1x p1y S E Dj M2 O2 Lf2 P2 Q2 In1 Dv1) as (E1 & Fl1 & _ & Dj1).
        destruct (divide_segment_shape NQ cfg s s1 se2 other2 (fpt p1x p1y) W M2 Mo2 Hne2 O2 Dv1)
          as (r & l & i' & _ & _ & _ & _ & _ & _ & _ & _ & _ & _ & Keep & KeepO).
        unfold point_of. rewrite (Keep other2 Mo2), Q2.
        destruct (divide_segment cfg s1 se1 (fpt o2x o2y)) as [s2|site|] eqn:Dv2; cbn [obind]; [|exact I|exact I].
        cbn [ped].
        assert (H01 : forall k, mapped NQ (sq_st s) k -> mapped NQ (sq_st s1) k /\ e_left (getE (sq_st s1) k) = e_left (getE (sq_st s) k))
          by (intros k Mk; split; [apply G1, Mk | apply Fl1, Mk]).
        assert (OT : e_other (getE (sq_st s1) se1) = Some other1) by (rewrite (KeepO se1 M1 (not_eq_sym N21') N1o); exact O1).
        assert (LT : e_left (getE (sq_st s1) se1) = true) by (rewrite (Fl1 se1 M1); exact Lf1).
        assert (PT : e_point (getE (sq_st s1) se1) = fpt p1x p1y) by (rewrite (Keep se1 M1); exact P1).
        assert (PTr : e_point (getE (sq_st s1) other1) = fpt o1x o1y) by (rewrite (Keep other1 Mo1); exact Q1).
        assert (Hin : strictly_inside p1x p1y o1x o1y o2x o2y) by (apply (inside_by_params p1x p1y o1x o1y Lx1 0 1 be); auto; lra).
        exact (ped_step cfg (sq_st s) s1 s2 se1 other1 p1x p1y o1x o1y o2x o2y S1 E1 H01 Dj1 (G1 _ M1) OT LT PT PTr Hin Dv2).
      * (* al < 0, 1 < be: the second segment contains the first *)
        apply (ev_lt_lex (sq_st s) se1 se2 p1x p1y p2x p2y P1 P2 LC) in C1.
        apply (lexlt_params p1x p1y o1x o1y Lx1 al 0 p2x p2y p1x p1y Pp2 Pp1) in C1.
        apply (ev_lt_lex_false (sq_st s) other1 other2 o1x o1y o2x o2y Q1 Q2 RC) in C2.
        apply (lexlt_params p1x p1y o1x o1y Lx1 1 be o1x o1y o2x o2y Po1 Po2) in C2.
        rewrite Pos.eqb_refl. cbn [negb].
        rewrite P1.
        pose proof (divide_segment_inv NQ cfg s se2 (fpt p1x p1y) S M2) as DI.
        destruct (divide_segment cfg s se2 (fpt p1x p1y)) as [s1|site|] eqn:Dv1; cbn [obind]; [|exact I|exact I].
        destruct DI as [S1 G1].
        assert (In1 : strictly_inside p2x p2y o2x o2y p1x p1y) by (apply (inside_by_params p1x p1y o1x o1y Lx1 al be 0); auto; lra).
        destruct (divd cfg s s1 se2 other2 p2x p2y o2x o2y p1x p1y S E Dj M2 O2 Lf2 P2 Q2 In1 Dv1) as (E1 & Fl1 & Hl & Dj1).
        destruct (divide_segment_shape NQ cfg s s1 se2 other2 (fpt p1x p1y) W M2 Mo2 Hne2 O2 Dv1)
          as (r & l & i' & _ & _ & _ & _ & _ & _ & A4 & _ & _ & _ & Keep & KeepO).
        unfold other_of. rewrite A4.
        destruct (Hl l A4) as (Ll & Pl & Ol & _).
        unfold point_of. rewrite (Keep other1 Mo1), Q1.
        assert (Ml1 : mapped NQ (sq_st s1) l).
        { destruct (mapped_dec NQ (sq_st s1) l) as [K|K]; [exact K|]. rewrite (getE_unmapped_other _ _ K) in Ol. discriminate. }
        destruct (divide_segment cfg s1 l (fpt o1x o1y)) as [s2|site|] eqn:Dv2; cbn [obind]; [|exact I|exact I].
        cbn [ped].
        assert (H01 : forall k, mapped NQ (sq_st s) k -> mapped NQ (sq_st s1) k /\ e_left (getE (sq_st s1) k) = e_left (getE (sq_st s) k))
          by (intros k Mk; split; [apply G1, Mk | apply Fl1, Mk]).
        assert (PTr : e_point (getE (sq_st s1) other2) = fpt o2x o2y) by (rewrite (Keep other2 Mo2); exact Q2).
        assert (Hin : strictly_inside p1x p1y o2x o2y o1x o1y) by (apply (inside_by_params p1x p1y o1x o1y Lx1 0 be 1); auto; lra).
        exact (ped_step cfg (sq_st s) s1 s2 l other2 p1x p1y o2x o2y o1x o1y S1 E1 H01 Dj1 Ml1 Ol Ll Pl PTr Hin Dv2).
      * (* 0 < al, be < 1: the first segment contains the second *)
        apply (ev_lt_lex_false (sq_st s) se1 se2 p1x p1y p2x p2y P1 P2 LC) in C1.
        apply (lexlt_params p1x p1y o1x o1y Lx1 0 al p1x p1y p2x p2y Pp1 Pp2) in C1.
        apply (ev_lt_lex (sq_st s) other1 other2 o1x o1y o2x o2y Q1 Q2 RC) in C2.
        apply (lexlt_params p1x p1y o1x o1y Lx1 be 1 o2x o2y o1x o1y Po2 Po1) in C2.
        rewrite Pos.eqb_refl. cbn [negb].
        rewrite P2.
        pose proof (divide_segment_inv NQ cfg s se1 (fpt p2x p2y) S M1) as DI.
        destruct (divide_segment cfg s se1 (fpt p2x p2y)) as [s1|site|] eqn:Dv1; cbn [obind]; [|exact I|exact I].
        destruct DI as [S1 G1].
        assert (In1 : strictly_inside p1x p1y o1x o1y p2x p2y) by (apply (inside_by_params p1x p1y o1x o1y Lx1 0 1 al); auto; lra).
        destruct (divd cfg s s1 se1 other1 p1x p1y o1x o1y p2x p2y S E Dj M1 O1 Lf1 P1 Q1 In1 Dv1) as (E1 & Fl1 & Hl & Dj1).
        destruct (divide_segment_shape NQ cfg s s1 se1 other1 (fpt p2x p2y) W M1 Mo1 Hne1 O1 Dv1)
          as (r & l & i' & _ & _ & _ & _ & _ & _ & A4 & _ & _ & _ & Keep & KeepO).
        unfold other_of. rewrite A4.
        destruct (Hl l A4) as (Ll & Pl & Ol & _).
        unfold point_of. rewrite (Keep other2 Mo2), Q2.
        assert (Ml1 : mapped NQ (sq_st s1) l).
        { destruct (mapped_dec NQ (sq_st s1) l) as [K|K]; [exact K|]. rewrite (getE_unmapped_other _ _ K) in Ol. discriminate. }
        destruct (divide_segment cfg s1 l (fpt o2x o2y)) as [s2|site|] eqn:Dv2; cbn [obind]; [|exact I|exact I].
        cbn [ped].
        assert (H01 : forall k, mapped NQ (sq_st s) k -> mapped NQ (sq_st s1) k /\ e_left (getE (sq_st s1) k) = e_left (getE (sq_st s) k))
          by (intros k Mk; split; [apply G1, Mk | apply Fl1, Mk]).
        assert (PTr : e_point (getE (sq_st s1) other1) = fpt o1x o1y) by (rewrite (Keep other1 Mo1); exact Q1).
        assert (Hin : strictly_inside p2x p2y o1x o1y o2x o2y) by (apply (inside_by_params p1x p1y o1x o1y Lx1 al 1 be); auto; lra).
        exact (ped_step cfg (sq_st s) s1 s2 l other1 p2x p2y o1x o1y o2x o2y S1 E1 H01 Dj1 Ml1 Ol Ll Pl PTr Hin Dv2).
      * (* 0 < al, 1 < be: partial overlap, se1 first *)
        apply (ev_lt_lex_false (sq_st s) se1 se2 p1x p1y p2x p2y P1 P2 LC) in C1.
        apply (lexlt_params p1x p1y o1x o1y Lx1 0 al p1x p1y p2x p2y Pp1 Pp2) in C1.
        apply (ev_lt_lex_false (sq_st s) other1 other2 o1x o1y o2x o2y Q1 Q2 RC) in C2.
        apply (lexlt_params p1x p1y o1x o1y Lx1 1 be o1x o1y o2x o2y Po1 Po2) in C2.
        rewrite (proj2 (Pos.eqb_neq se1 se2) (not_eq_sym N21')). cbn [negb].
        rewrite P2.
        pose proof (divide_segment_inv NQ cfg s se1 (fpt p2x p2y) S M1) as DI.
        destruct (divide_segment cfg s se1 (fpt p2x p2y)) as [s1|site|] eqn:Dv1; cbn [obind]; [|exact I|exact I].
        destruct DI as [S1 G1].
        assert (In1 : strictly_inside p1x p1y o1x o1y p2x p2y) by (apply (inside_by_params p1x p1y o1x o1y Lx1 0 1 al); auto; lra).
        destruct (divd cfg s s1 se1 other1 p1x p1y o1x o1y p2x p2y S E Dj M1 O1 Lf1 P1 Q1 In1 Dv1) as (E1 & Fl1 & _ & Dj1).
        destruct (divide_segment_shape NQ cfg s s1 se1 other1 (fpt p2x p2y) W M1 Mo1 Hne1 O1 Dv1)
          as (r & l & i' & _ & _ & _ & _ & _ & _ & _ & _ & _ & _ & Keep & KeepO).
        unfold point_of. rewrite (Keep other1 Mo1), Q1.
        destruct (divide_segment cfg s1 se2 (fpt o1x o1y)) as [s2|site|] eqn:Dv2; cbn [obind]; [|exact I|exact I].
        cbn [ped].
        assert (H01 : forall k, mapped NQ (sq_st s) k -> mapped NQ (sq_st s1) k /\ e_left (getE (sq_st s1) k) = e_left (getE (sq_st s) k))
          by (intros k Mk; split; [apply G1, Mk | apply Fl1, Mk]).
        assert (OT : e_other (getE (sq_st s1) se2) = Some other2) by (rewrite (KeepO se2 M2 N21' N2o); exact O2).
        assert (LT : e_left (getE (sq_st s1) se2) = true) by (rewrite (Fl1 se2 M2); exact Lf2).
        assert (PT : e_point (getE (sq_st s1) se2) = fpt p2x p2y) by (rewrite (Keep se2 M2); exact P2).
        assert (PTr : e_point (getE (sq_st s1) other2) = fpt o2x o2y) by (rewrite (Keep other2 Mo2); exact Q2).
        assert (Hin : strictly_inside p2x p2y o2x o2y o1x o1y) by (apply (inside_by_params p1x p1y o1x o1y Lx1 al be 1); auto; lra).
        exact (ped_step cfg (sq_st s) s1 s2 se2 other2 p2x p2y o2x o2y o1x o1y S1 E1 H01 Dj1 (G1 _ M2) OT LT PT PTr Hin Dv2).
Qed.



(** ** the sweep *)
Definition sqd (st0 : store) (x : sq NQ) : Prop := sq2 edges st0 x /\ disj (sq_st x).

Lemma compute_fields_disj cfg (st : store) ev mp op : mapped NQ st ev -> disj st -> disj (compute_fields cfg st ev mp op).
Proof.
  intros M P. unfold compute_fields.
  apply disj_upd; [apply ke_set_rt | |].
  - destruct mp as [prev|];
      repeat match goal with
             | |- context [if ?c then _ else _] => destruct c
             | |- context [match ?c with Some _ => _ | None => _ end] => destruct c
             end; rewrite ?mapped_upd; auto.
  - destruct mp as [prev|].
    + repeat match goal with
             | |- context [if ?c then _ else _] => destruct c
             | |- context [match ?c with Some _ => _ | None => _ end] => destruct c
             end;
        (apply disj_upd; [apply ke_set_prev | rewrite ?mapped_upd; auto |]);
        (apply disj_upd; [apply ke_set_in_out | exact M | exact P]).
    + apply disj_upd; [apply ke_set_prev | rewrite ?mapped_upd; auto |].
      apply disj_upd; [apply ke_set_in_out | exact M | exact P].
Qed.

Lemma compute_fields_sqd cfg st0 (x : sq NQ) ev mp op :
  sqd st0 x -> mapped NQ (sq_st x) ev -> sqd st0 (mkSQ (compute_fields cfg (sq_st x) ev mp op) (sq_q x)).
Proof.
  intros (S2 & Dj) M. split; [now apply (compute_fields_sq2 edges)|]. cbn [sq_st]. now apply compute_fields_disj.
Qed.

Lemma pi_sqd cfg st0 (x : sq NQ) (a b : eid) :
  sqd st0 x -> mapped NQ (sq_st x) a -> mapped NQ (sq_st x) b ->
  e_left (getE (sq_st x) a) = true -> e_left (getE (sq_st x) b) = true ->
  match possible_intersection cfg x a b with
  | Ok (x', _) => sqd st0 x'
  | _ => True
  end.
Proof.
  intros ((S & E & G & F) & Dj) Ma Mb La Lb.
  pose proof (possible_intersection_inv NQ cfg x a b S Ma Mb) as PG.
  pose proof (possible_intersection_ped cfg x a b S E Dj Ma Mb La Lb) as PE.
  destruct (possible_intersection cfg x a b) as [[x' code]|site|]; [|exact I|exact I].
  destruct PG as [S' G']. destruct PE as (E' & F' & Dj').
  split; [|exact Dj'].
  split; [exact S'|]. split; [exact E'|]. split; [eapply grows_trans; eauto|].
  eapply FP_trans; eauto.
Qed.

Definition oked (st0 : store) (keys0 : list eid) (r : outcome (sweep NQ)) : Prop :=
  match r with
  | Ok s' => einv2 edges (sw_st s') /\ FP st0 (sw_st s') /\ (forall k, In k (slkeys (sw_sl s')) -> In k keys0)
             /\ disj (sw_st s')
  | _ => True
  end.

Definition keys_left (st : store) (ks : list eid) : Prop := forall k, In k ks -> e_left (getE st k) = true.

Theorem handle_left_ed cfg (s : sweep NQ) (ev : eid) (op : operation) :
  swinv NQ s -> einv2 edges (sw_st s) -> disj (sw_st s) -> keys_left (sw_st s) (slkeys (sw_sl s)) ->
  mapped NQ (sw_st s) ev -> e_left (getE (sw_st s) ev) = true ->
  oked (sw_st s) (ev :: slkeys (sw_sl s)) (handle_left cfg s ev op).
Proof.
  intros (S & Q & A & B) P Dj0 KL Mev Lev. unfold handle_left.
  set (st := sw_st s) in *.
  set (sl1 := sl_insert st (sw_sl s) ev).
  assert (K1 : forall k, In k (slkeys sl1) -> In k (ev :: slkeys (sw_sl s))).
  { intros k Hk. apply sl_insert_keys in Hk. destruct Hk as [->|Hk]; [now left | now right]. }
  assert (A1 : all_mapped NQ st (slkeys sl1)).
  { intros k Hk. destruct (K1 k Hk) as [<-|Hk']; auto. }
  assert (KL1 : keys_left st (slkeys sl1)).
  { intros k Hk. destruct (K1 k Hk) as [<-|Hk']; auto. }
  destruct (sl_prev_spec NQ st sl1 ev) as [Kp Ip].
  destruct (sl_prev st sl1 ev) as [sl2 maybe_prev]. cbn [fst snd] in Kp, Ip.
  destruct (sl_next_spec NQ st sl2 ev) as [Kn In_].
  destruct (sl_next st sl2 ev) as [sl3 maybe_next]. cbn [fst snd] in Kn, In_.
  assert (Kprev : forall p, maybe_prev = Some p -> In p (slkeys sl1)) by (intros p Hp; apply Ip, Hp).
  assert (Knext : forall p, maybe_next = Some p -> In p (slkeys sl1)) by (intros p Hp; rewrite <- Kp; apply In_, Hp).
  assert (K3 : forall k, In k (slkeys sl3) -> In k (ev :: slkeys (sw_sl s))) by (intros k Hk; apply K1; rewrite <- Kp, <- Kn; exact Hk).
  assert (X0 : sqd st (mkSQ st (sw_q s))).
  { split; [|exact Dj0]. split; [split; assumption|]. split; [exact P|]. split; [apply grows_refl | apply FP_refl]. }
  pose proof (compute_fields_sqd cfg st (mkSQ st (sw_q s)) ev maybe_prev op X0 Mev) as X1.
  cbn [sq_st sq_q] in X1.
  set (x1 := mkSQ (compute_fields cfg st ev maybe_prev op) (sw_q s)) in *.
  (* facts about events of the original store in any good later state *)
  assert (Use : forall x k, sqd st x -> mapped NQ st k -> e_left (getE st k) = true ->
                 mapped NQ (sq_st x) k /\ e_left (getE (sq_st x) k) = true).
  { intros x k ((_ & _ & G & F) & _) Mk Lk. split; [apply G, Mk | rewrite (F k Mk); exact Lk]. }
  assert (Step1 : match
            (match maybe_next with
             | Some next =>
                 obind (possible_intersection cfg x1 ev next) (fun r =>
                 let '(x, code) := r in
                 if Nat.eqb code 2 then
                   let st_a := compute_fields cfg (sq_st x) ev maybe_prev op in
                   let st_b := compute_fields cfg st_a next (Some ev) op in
                   Ok (mkSQ st_b (sq_q x))
                 else Ok x)
             | None => Ok x1
             end) with
          | Ok x2 => sqd st x2
          | _ => True
          end).
  { destruct maybe_next as [next|]; [|exact X1].
    assert (Mn : mapped NQ st next) by (apply A1, Knext; reflexivity).
    assert (Ln : e_left (getE st next) = true) by (apply KL1, Knext; reflexivity).
    destruct (Use x1 ev X1 Mev Lev) as [Me1 Le1]. destruct (Use x1 next X1 Mn Ln) as [Mn1 Ln1].
    pose proof (pi_sqd cfg st x1 ev next X1 Me1 Mn1 Le1 Ln1) as PP.
    destruct (possible_intersection cfg x1 ev next) as [[x code]| site |]; cbn [obind]; [|exact I|exact I].
    destruct (Nat.eqb code 2); [|exact PP].
    destruct (Use x ev PP Mev Lev) as [Me _].
    pose proof (compute_fields_sqd cfg st x ev maybe_prev op PP Me) as Sa.
    destruct (Use _ next Sa Mn Ln) as [Mna _].
    exact (compute_fields_sqd cfg st _ next (Some ev) op Sa Mna). }
  destruct (match maybe_next with Some next => _ | None => Ok x1 end) as [x2| site |]; cbn [obind]; try exact I.
  destruct maybe_prev as [prev|].
  - assert (Mp : mapped NQ st prev) by (apply A1, Kprev; reflexivity).
    assert (Lp : e_left (getE st prev) = true) by (apply KL1, Kprev; reflexivity).
    destruct (Use x2 ev Step1 Mev Lev) as [Me2 Le2]. destruct (Use x2 prev Step1 Mp Lp) as [Mp2 Lp2].
    pose proof (pi_sqd cfg st x2 prev ev Step1 Mp2 Me2 Lp2 Le2) as PP.
    destruct (possible_intersection cfg x2 prev ev) as [[x code]| site |]; cbn [obind]; try exact I.
    destruct (Nat.eqb code 2).
    + destruct (sl_prev_spec NQ (sq_st x) sl3 prev) as [Kp4 _].
      destruct (sl_prev (sq_st x) sl3 prev) as [sl4 mpp]. cbn [fst] in Kp4.
      destruct (Use x prev PP Mp Lp) as [Mpx _].
      pose proof (compute_fields_sqd cfg st x prev mpp op PP Mpx) as Sa.
      destruct (Use _ ev Sa Mev Lev) as [Mea _].
      pose proof (compute_fields_sqd cfg st _ ev (Some prev) op Sa Mea) as ((_ & Eb & _ & Fb) & Djb).
      cbn [oked with_sq sw_st sw_sl sq_st]. split; [exact Eb|]. split; [exact Fb|]. split; [|exact Djb].
      intros k Hk. apply K3. rewrite <- Kp4. exact Hk.
    + destruct PP as ((_ & Ex & _ & Fx) & Djx). cbn [oked with_sq sw_st sw_sl]. split; [exact Ex|]. split; [exact Fx|]. split; [exact K3 | exact Djx].
  - destruct Step1 as ((_ & Ex & _ & Fx) & Djx). cbn [oked with_sq sw_st sw_sl]. split; [exact Ex|]. split; [exact Fx|]. split; [exact K3 | exact Djx].
Qed.

Theorem handle_right_ed cfg (s : sweep NQ) (other : eid) :
  swinv NQ s -> einv2 edges (sw_st s) -> disj (sw_st s) -> keys_left (sw_st s) (slkeys (sw_sl s)) ->
  oked (sw_st s) (slkeys (sw_sl s)) (handle_right cfg s other).
Proof.
  intros (S & Q & A & B) P Dj0 KL. unfold handle_right.
  set (st := sw_st s) in *.
  pose proof (sl_contains_keys NQ st (sw_sl s) other) as Kc.
  destruct (sl_contains st (sw_sl s) other) as [sl1 present]. cbn [fst] in Kc.
  destruct (c_debug cfg && negb present); [exact I|].
  assert (Good : forall sl', (forall k, In k (slkeys sl') -> In k (slkeys (sw_sl s))) ->
            oked st (slkeys (sw_sl s)) (Ok (mkSweep st (sw_q s) sl' (sw_sorted s)))).
  { intros sl' Hk. cbn. split; [exact P|]. split; [apply FP_refl|]. split; [exact Hk | exact Dj0]. }
  destruct present; [|apply Good; intros k Hk; rewrite <- Kc; exact Hk].
  destruct (sl_prev_spec NQ st sl1 other) as [Kp Ip].
  destruct (sl_prev st sl1 other) as [sl2 maybe_prev]. cbn [fst snd] in Kp, Ip.
  destruct (sl_next_spec NQ st sl2 other) as [Kn In_].
  destruct (sl_next st sl2 other) as [sl3 maybe_next]. cbn [fst snd] in Kn, In_.
  assert (K3 : forall k, In k (slkeys sl3) -> In k (slkeys (sw_sl s))) by (intros k Hk; rewrite <- Kc, <- Kp, <- Kn; exact Hk).
  assert (X0 : sqd st (mkSQ st (sw_q s))).
  { split; [|exact Dj0]. split; [split; assumption|]. split; [exact P|]. split; [apply grows_refl | apply FP_refl]. }
  assert (Fin : forall x, sqd st x -> oked st (slkeys (sw_sl s)) (Ok (with_sq s x (sl_remove (sq_st x) sl3 other)))).
  { intros x ((_ & Ex & _ & Fx) & Djx). cbn [oked with_sq sw_st sw_sl]. split; [exact Ex|]. split; [exact Fx|].
    split; [|exact Djx].
    intros k Hk. apply sl_remove_keys in Hk. now apply K3. }
  destruct maybe_prev as [prev|]; [|cbn [obind]; now apply Fin].
  destruct maybe_next as [next|]; [|cbn [obind]; now apply Fin].
  assert (Hp : In prev (slkeys (sw_sl s))) by (rewrite <- Kc; apply Ip; reflexivity).
  assert (Hn : In next (slkeys (sw_sl s))) by (rewrite <- Kc, <- Kp; apply In_; reflexivity).
  pose proof (pi_sqd cfg st (mkSQ st (sw_q s)) prev next X0 (A _ Hp) (A _ Hn) (KL _ Hp) (KL _ Hn)) as PP.
  destruct (possible_intersection cfg (mkSQ st (sw_q s)) prev next) as [[x code]| site |]; cbn [obind fst]; try exact I.
  now apply Fin.
Qed.

Theorem sweep_loop_ed cfg : forall (fuel : nat) (s : sweep NQ) sbbox cbbox rightbound op,
  swinv NQ s -> einv2 edges (sw_st s) -> disj (sw_st s) -> keys_left (sw_st s) (slkeys (sw_sl s)) ->
  match sweep_loop cfg fuel s sbbox cbbox rightbound op with
  | Ok s' => disj (sw_st s')
  | _ => True
  end.
Proof.
  induction fuel as [|f IH]; intros s sbbox cbbox rightbound op Hs P Dj0 KL; cbn [sweep_loop].
  - destruct (qpop (sw_st s) (sw_q s)); [exact I | exact Dj0].
  - destruct (qpop (sw_st s) (sw_q s)) as [[ev q']|] eqn:Hp; [|exact Dj0].
    pose proof Hs as (S & Q & A & B).
    destruct (qpop_mapped NQ (sw_st s) (sw_st s) (sw_q s) ev q' Q Hp) as [Mev Q'].
    set (s1 := mkSweep (sw_st s) q' (sw_sl s) (ev :: sw_sorted s)).
    assert (S1 : swinv NQ s1).
    { unfold swinv, s1; cbn [sw_st sw_q sw_sl sw_sorted]. repeat split; try tauto.
      - apply S. - apply S. - intros i [<-|Hi]; auto. }
    destruct (negb (c_noshort cfg) && _); [exact Dj0|].
    destruct (e_left (getE (sw_st s) ev)) eqn:Lev.
    + pose proof (handle_left_inv NQ cfg s1 ev op S1 Mev) as G.
      pose proof (handle_left_ed cfg s1 ev op S1 P Dj0 KL Mev Lev) as G2.
      destruct (handle_left cfg s1 ev op) as [s2| site |]; cbn [obind]; try exact I.
      destruct G as [S2 _]. destruct G2 as (E2 & F2 & K2 & Dj2).
      apply (IH s2 sbbox cbbox rightbound op S2 E2 Dj2).
      intros k Hk. cbn [sw_st s1] in F2. destruct (K2 k Hk) as [<-|Hk'].
      * rewrite (F2 ev Mev). exact Lev.
      * rewrite (F2 k (A k Hk')). exact (KL k Hk').
    + destruct (e_other (getE (sw_st s) ev)) as [other|].
      * pose proof (handle_right_inv NQ cfg s1 other S1) as G.
        pose proof (handle_right_ed cfg s1 other S1 P Dj0 KL) as G2.
        destruct (handle_right cfg s1 other) as [s2| site |]; cbn [obind]; try exact I.
        destruct G as [S2 _]. destruct G2 as (E2 & F2 & K2 & Dj2).
        apply (IH s2 sbbox cbbox rightbound op S2 E2 Dj2).
        intros k Hk. specialize (K2 k Hk). cbn [sw_sl s1] in K2. cbn [sw_st s1] in F2.
        rewrite (F2 k (A k K2)). exact (KL k K2).
      * cbn [obind]. apply (IH s1 sbbox cbbox rightbound op S1 P Dj0 KL).
Qed.



End SameOp.

(** ** queue filling: from the edge list to the store *)
Definition share_e (e f : edge) : Prop :=
  let '(ax, ay, (bx, by_), _) := e in let '(cx, cy, (dx, dy), _) := f in share_le1 ax ay bx by_ cx cy dx dy.
Definition same_op (e f : edge) : Prop := snd e = snd f.

(** every edge of [L] shares at most one point with every earlier edge of its operand (those of
    [done] and those before it in [L]) *)
Fixpoint cross_ok (done L : list edge) : Prop :=
  match L with
  | [] => True
  | e :: L' => (forall d, In d done -> same_op d e -> share_e d e) /\ cross_ok (done ++ [e]) L'
  end.
(** no two edges of one operand overlap *)
Definition simple_edges (L : list edge) : Prop := cross_ok [] L.

Lemma cross_ok_app : forall L1 done L2, cross_ok done (L1 ++ L2) -> cross_ok done L1 /\ cross_ok (done ++ L1) L2.
Proof.
  induction L1 as [|e L1 IH]; intros done L2 H; cbn [app cross_ok] in *.
  - rewrite app_nil_r. auto.
  - destruct H as [H1 H2]. destruct (IH _ _ H2) as [A B]. split; [split; assumption|]. rewrite <- app_assoc in B. exact B.
Qed.

(** every pair of the store is an edge of [done], in one of the two orientations *)
Definition from_done (done : list edge) (st : store NQ) : Prop :=
  forall i o ax ay bx by_, mapped NQ st i -> e_other (getE st i) = Some o ->
    e_point (getE st i) = fpt ax ay -> e_point (getE st o) = fpt bx by_ ->
    In (ax, ay, (bx, by_), e_is_subject (getE st i)) done \/ In (bx, by_, (ax, ay), e_is_subject (getE st i)) done.

Definition fqd (done : list edge) (s : fq NQ) : Prop := fqinv NQ s /\ disj (fq_st s) /\ from_done done (fq_st s).

Lemma process_edge_disj (done : list edge) (s : fq NQ) subj cid ext ax ay bx by_ :
  (forall d, In d done -> same_op d (ax, ay, (bx, by_), subj) -> share_e d (ax, ay, (bx, by_), subj)) ->
  fqd done s -> fqd (done ++ [(ax, ay, (bx, by_), subj)]) (process_edge s subj cid ext (fpt ax ay) (fpt bx by_)).
Proof.
  intros Hc (F & Dj & Fd). split; [now apply process_edge_inv|].
  pose proof F as [[W L] Q]. unfold process_edge.
  destruct (pt_eq (fpt ax ay) (fpt bx by_)) eqn:Epe.
  { split; [exact Dj|]. intros i o a1 a2 b1 b2 Mi Oi Pi Po. destruct (Fd i o a1 a2 b1 b2 Mi Oi Pi Po); [left | right]; apply in_or_app; now left. }
  apply pt_eq_fpt_false in Epe.
  destruct (alloc (fq_st s) (new_event cid (fpt ax ay) false None subj ext)) as [st1 e1] eqn:E1.
  destruct (alloc st1 (new_event cid (fpt bx by_) false (Some e1) subj ext)) as [st2 e2] eqn:E2.
  assert (H1 : st1 = fst (alloc (fq_st s) (new_event cid (fpt ax ay) false None subj ext))) by (rewrite E1; reflexivity).
  assert (H2 : st2 = fst (alloc st1 (new_event cid (fpt bx by_) false (Some e1) subj ext))) by (rewrite E2; reflexivity).
  assert (I1 : e1 = st_next (fq_st s)) by (unfold alloc in E1; now inversion E1).
  assert (I2 : e2 = st_next st1) by (unfold alloc in E2; now inversion E2).
  assert (I2' : e2 = Pos.succ e1) by (rewrite I2, H1, next_alloc, I1; reflexivity).
  assert (N12 : e1 <> e2) by (rewrite I2'; lia).
  assert (Fr1 : ~ mapped NQ (fq_st s) e1) by (rewrite I1; now apply fresh_unmapped).
  assert (Fr2 : ~ mapped NQ (fq_st s) e2).
  { intros M. pose proof (W _ M). rewrite I2', I1 in H. lia. }
  assert (G2e1 : getE st2 e1 = new_event cid (fpt ax ay) false None subj ext).
  { rewrite H2, getE_alloc_old by (rewrite <- I2; exact N12). rewrite H1, I1. apply getE_alloc_new. }
  assert (G2e2 : getE st2 e2 = new_event cid (fpt bx by_) false (Some e1) subj ext).
  { rewrite H2, I2. apply getE_alloc_new. }
  assert (G2old : forall k, mapped NQ (fq_st s) k -> getE st2 k = getE (fq_st s) k).
  { intros k Mk. assert (K1 : k <> e1) by (intros ->; contradiction). assert (K2 : k <> e2) by (intros ->; contradiction).
    rewrite H2, getE_alloc_old by (rewrite <- I2; exact K2). rewrite H1, getE_alloc_old by (rewrite <- I1; exact K1). reflexivity. }
  set (st3 := upd st2 e1 (fun e => set_other e (Some e2))).
  assert (G3e1 : getE st3 e1 = set_other (new_event cid (fpt ax ay) false None subj ext) (Some e2)).
  { unfold st3. rewrite getE_upd_same, G2e1. reflexivity. }
  assert (G3e2 : getE st3 e2 = new_event cid (fpt bx by_) false (Some e1) subj ext).
  { unfold st3. rewrite getE_upd_other by exact N12. exact G2e2. }
  assert (G3old : forall k, mapped NQ (fq_st s) k -> getE st3 k = getE (fq_st s) k).
  { intros k Mk. unfold st3. rewrite getE_upd_other by (intros ->; contradiction). now apply G2old. }
  assert (M3 : forall k, mapped NQ st3 k -> k = e1 \/ k = e2 \/ mapped NQ (fq_st s) k).
  { intros k Mk. unfold st3 in Mk. apply mapped_upd in Mk. destruct Mk as [->|Mk]; [now left|].
    rewrite H2 in Mk. apply mapped_alloc in Mk. destruct Mk as [->|Mk]; [right; left; symmetry; exact I2|].
    rewrite H1 in Mk. apply mapped_alloc in Mk. destruct Mk as [->|Mk]; [left; symmetry; exact I1 | now right; right]. }
  assert (M3e1 : mapped NQ st3 e1) by (unfold st3; apply mapped_upd; now left).
  assert (M3e2 : mapped NQ st3 e2).
  { unfold st3. apply mapped_upd. right. rewrite H2, I2. apply mapped_alloc. now left. }
  (* a pair of st3: the new one (either orientation) or an old one *)
  assert (Cl : forall k ok c1 c2 d1 d2, mapped NQ st3 k -> e_other (getE st3 k) = Some ok ->
            e_point (getE st3 k) = fpt c1 c2 -> e_point (getE st3 ok) = fpt d1 d2 ->
            (k = e1 /\ ok = e2 /\ c1 = ax /\ c2 = ay /\ d1 = bx /\ d2 = by_ /\ e_is_subject (getE st3 k) = subj)
            \/ (k = e2 /\ ok = e1 /\ c1 = bx /\ c2 = by_ /\ d1 = ax /\ d2 = ay /\ e_is_subject (getE st3 k) = subj)
            \/ (mapped NQ (fq_st s) k /\ mapped NQ (fq_st s) ok /\ e_other (getE (fq_st s) k) = Some ok /\
                e_point (getE (fq_st s) k) = fpt c1 c2 /\ e_point (getE (fq_st s) ok) = fpt d1 d2 /\
                e_is_subject (getE st3 k) = e_is_subject (getE (fq_st s) k))).
  { intros k ok c1 c2 d1 d2 Mk Ok Pk Pok. destruct (M3 k Mk) as [->|[->|Mk0]].
    - left. rewrite G3e1 in Ok, Pk. cbn in Ok, Pk. inversion Ok; subst ok. rewrite G3e2 in Pok. cbn in Pok.
      apply fpt_inj in Pk, Pok. destruct Pk as [<- <-], Pok as [<- <-]. rewrite G3e1. cbn. auto 10.
    - right. left. rewrite G3e2 in Ok, Pk. cbn in Ok, Pk. inversion Ok; subst ok. rewrite G3e1 in Pok. cbn in Pok.
      apply fpt_inj in Pk, Pok. destruct Pk as [<- <-], Pok as [<- <-]. rewrite G3e2. cbn. auto 10.
    - right. right. rewrite (G3old k Mk0) in Ok, Pk.
      destruct (L k Mk0) as (o2 & O2 & _ & Mo2 & _). assert (o2 = ok) by congruence. subst o2.
      rewrite (G3old ok Mo2) in Pok. rewrite (G3old k Mk0). auto 10. }
  assert (D3 : disj st3).
  { intros i o i' o' a1 a2 b1 b2 c1 c2 d1 d2 Mi Mi' Oi Oi' N1 N2 Sj Pi Po Pi' Po'.
    destruct (Cl i o a1 a2 b1 b2 Mi Oi Pi Po) as [(-> & -> & -> & -> & -> & -> & Ti)|[(-> & -> & -> & -> & -> & -> & Ti)|(Mi0 & Mo0 & Oi0 & Pi0 & Po0 & Ti)]];
    destruct (Cl i' o' c1 c2 d1 d2 Mi' Oi' Pi' Po') as [(-> & -> & -> & -> & -> & -> & Ti')|[(-> & -> & -> & -> & -> & -> & Ti')|(Mi0' & Mo0' & Oi0' & Pi0' & Po0' & Ti')]];
      try (now elim N1); try (now elim N2).
    - (* new against old *)
      destruct (Fd i' o' c1 c2 d1 d2 Mi0' Oi0' Pi0' Po0') as [K|K].
      + pose proof (Hc _ K) as Sh. cbn [same_op snd share_e] in Sh. apply share_comm. apply Sh. rewrite <- Ti', <- Sj, Ti. reflexivity.
      + pose proof (Hc _ K) as Sh. cbn [same_op snd share_e] in Sh. apply share_comm, share_rev1. apply Sh. rewrite <- Ti', <- Sj, Ti. reflexivity.
    - destruct (Fd i' o' c1 c2 d1 d2 Mi0' Oi0' Pi0' Po0') as [K|K].
      + pose proof (Hc _ K) as Sh. cbn [same_op snd share_e] in Sh. apply share_rev1, share_comm. apply Sh. rewrite <- Ti', <- Sj, Ti. reflexivity.
      + pose proof (Hc _ K) as Sh. cbn [same_op snd share_e] in Sh. apply share_rev1, share_comm, share_rev1. apply Sh. rewrite <- Ti', <- Sj, Ti. reflexivity.
    - destruct (Fd i o a1 a2 b1 b2 Mi0 Oi0 Pi0 Po0) as [K|K].
      + pose proof (Hc _ K) as Sh. cbn [same_op snd share_e] in Sh. apply Sh. rewrite <- Ti, Sj, Ti'. reflexivity.
      + pose proof (Hc _ K) as Sh. cbn [same_op snd share_e] in Sh. apply share_rev1. apply Sh. rewrite <- Ti, Sj, Ti'. reflexivity.
    - destruct (Fd i o a1 a2 b1 b2 Mi0 Oi0 Pi0 Po0) as [K|K].
      + pose proof (Hc _ K) as Sh. cbn [same_op snd share_e] in Sh. apply share_rev2. apply Sh. rewrite <- Ti, Sj, Ti'. reflexivity.
      + pose proof (Hc _ K) as Sh. cbn [same_op snd share_e] in Sh. apply share_rev2, share_rev1. apply Sh. rewrite <- Ti, Sj, Ti'. reflexivity.
    - apply (Dj i o i' o' _ _ _ _ _ _ _ _ Mi0 Mi0' Oi0 Oi0' N1 N2); auto. rewrite <- Ti, <- Ti'. exact Sj. }
  assert (F3 : from_done (done ++ [(ax, ay, (bx, by_), subj)]) st3).
  { intros i o a1 a2 b1 b2 Mi Oi Pi Po.
    destruct (Cl i o a1 a2 b1 b2 Mi Oi Pi Po) as [(-> & -> & -> & -> & -> & -> & Ti)|[(-> & -> & -> & -> & -> & -> & Ti)|(Mi0 & Mo0 & Oi0 & Pi0 & Po0 & Ti)]].
    - left. rewrite Ti. apply in_or_app. right. now left.
    - right. rewrite Ti. apply in_or_app. right. now left.
    - rewrite Ti. destruct (Fd i o a1 a2 b1 b2 Mi0 Oi0 Pi0 Po0); [left | right]; apply in_or_app; now left. }
  cbn [fq_st].
  assert (Fin : forall j b0, mapped NQ st3 j ->
            disj (upd st3 j (fun e => set_left e b0)) /\ from_done (done ++ [(ax, ay, (bx, by_), subj)]) (upd st3 j (fun e => set_left e b0))).
  { intros j b0 Mj. split; [apply disj_upd; auto using ke_set_left|].
    intros i o a1 a2 b1 b2 Mi Oi Pi Po. apply (mapped_upd_in NQ st3 j _ i Mj) in Mi.
    destruct (getE_upd_keeps_e st3 j (fun e => set_left e b0) i (ke_set_left b0)) as (X1 & X2 & X3).
    destruct (getE_upd_keeps_e st3 j (fun e => set_left e b0) o (ke_set_left b0)) as (Y1 & _).
    rewrite X2 in Oi. rewrite X1 in Pi. rewrite Y1 in Po. rewrite X3. exact (F3 i o a1 a2 b1 b2 Mi Oi Pi Po). }
  destruct (ev_lt st3 e1 e2); [exact (Fin e2 true M3e2) | exact (Fin e1 true M3e1)].
Qed.

Lemma process_ring_from_disj : forall (rest : ring NQ) (done : list edge) (s : fq NQ) subj cid ext (prev : pt NQ),
  (exists x y, prev = fpt x y) -> finite_ring rest ->
  cross_ok done (ring_edge_list subj prev rest) -> fqd done s ->
  fqd (done ++ ring_edge_list subj prev rest) (process_ring_from s subj cid ext prev rest).
Proof.
  induction rest as [|p rest IH]; intros done s subj cid ext prev Hp Hf Hc H; cbn [process_ring_from ring_edge_list].
  - now rewrite app_nil_r.
  - destruct Hp as (ax & ay & ->). destruct (Hf p (or_introl eq_refl)) as (bx & by_ & ->).
    cbn [ring_edge_list] in Hc. rewrite !coordsq_fpt in *. cbn [app cross_ok] in Hc. destruct Hc as [Hc1 Hc2].
    pose proof (process_edge_disj done s subj cid ext ax ay bx by_ Hc1 H) as H1.
    specialize (IH _ _ subj cid ext (fpt bx by_) (ex_intro _ bx (ex_intro _ by_ eq_refl)) (fun q Hq => Hf q (or_intror Hq)) Hc2 H1).
    cbn [app]. rewrite <- app_assoc in IH. exact IH.
Qed.

Lemma process_ring_disj (done : list edge) (s : fq NQ) (r : ring NQ) subj cid ext :
  finite_ring r -> cross_ok done (ring_edges subj r) -> fqd done s ->
  fqd (done ++ ring_edges subj r) (process_ring s r subj cid ext).
Proof.
  intros Hf Hc H. destruct r as [|p rest]; cbn [process_ring ring_edges] in *.
  - now rewrite app_nil_r.
  - apply process_ring_from_disj; [apply Hf; now left | intros q Hq; apply Hf; now right | exact Hc | exact H].
Qed.

Lemma process_interiors_disj : forall (ints : list (ring NQ)) (done : list edge) (s : fq NQ) subj cid,
  (forall r, In r ints -> finite_ring r) -> cross_ok done (flat_map (ring_edges subj) ints) -> fqd done s ->
  fqd (done ++ flat_map (ring_edges subj) ints) (process_interiors s ints subj cid).
Proof.
  unfold process_interiors. induction ints as [|r ints IH]; intros done s subj cid Hf Hc H; cbn [fold_left flat_map] in *.
  - now rewrite app_nil_r.
  - destruct (cross_ok_app _ _ _ Hc) as [C1 C2].
    pose proof (process_ring_disj done s r subj cid false (Hf r (or_introl eq_refl)) C1 H) as H1.
    specialize (IH _ _ subj cid (fun r' Hr' => Hf r' (or_intror Hr')) C2 H1). rewrite <- app_assoc in IH. exact IH.
Qed.

Lemma fill_subject_disj : forall (ps : list (polygon NQ)) (done : list edge) (s : fq NQ) cid,
  (forall P, In P ps -> finite_poly P) -> cross_ok done (flat_map (poly_edges true) ps) -> fqd done s ->
  fqd (done ++ flat_map (poly_edges true) ps) (fst (fill_subject s cid ps)).
Proof.
  induction ps as [|P ps IH]; intros done s cid Hf Hc H; cbn [fill_subject flat_map fst] in *.
  - now rewrite app_nil_r.
  - destruct (Hf P (or_introl eq_refl)) as [Fe Fi].
    destruct (cross_ok_app _ _ _ Hc) as [C1 C2]. unfold poly_edges in C1. destruct (cross_ok_app _ _ _ C1) as [C1a C1b].
    pose proof (process_ring_disj done s (exterior P) true (N.succ cid) true Fe C1a H) as H1.
    pose proof (process_interiors_disj (interiors P) _ _ true (N.succ cid) Fi C1b H1) as H2.
    rewrite <- app_assoc in H2. fold (poly_edges true P) in H2.
    specialize (IH _ _ (N.succ cid) (fun P' HP' => Hf P' (or_intror HP')) C2 H2). rewrite <- app_assoc in IH. exact IH.
Qed.

Lemma fill_clipping_disj : forall (ps : list (polygon NQ)) (done : list edge) (s : fq NQ) cid op,
  (forall P, In P ps -> finite_poly P) -> cross_ok done (flat_map (poly_edges false) ps) -> fqd done s ->
  fqd (done ++ flat_map (poly_edges false) ps) (fst (fill_clipping s cid op ps)).
Proof.
  induction ps as [|P ps IH]; intros done s cid op Hf Hc H; cbn [fill_clipping flat_map fst] in *.
  - now rewrite app_nil_r.
  - destruct (Hf P (or_introl eq_refl)) as [Fe Fi].
    destruct (cross_ok_app _ _ _ Hc) as [C1 C2]. unfold poly_edges in C1. destruct (cross_ok_app _ _ _ C1) as [C1a C1b].
    set (cid' := if negb (operation_eqb op Difference) then N.succ cid else cid).
    set (ext := negb (operation_eqb op Difference)).
    pose proof (process_ring_disj done s (exterior P) false cid' ext Fe C1a H) as H1.
    pose proof (process_interiors_disj (interiors P) _ _ false cid' Fi C1b H1) as H2.
    rewrite <- app_assoc in H2. fold (poly_edges false P) in H2.
    specialize (IH _ _ cid' op (fun P' HP' => Hf P' (or_intror HP')) C2 H2). rewrite <- app_assoc in IH. exact IH.
Qed.

Theorem fill_queue_disj (A B : list (polygon NQ)) (op : operation) :
  (forall P, In P A -> finite_poly P) -> (forall P, In P B -> finite_poly P) ->
  simple_edges (ops_edges A B) -> disj (f_st (fill_queue A B op)).
Proof.
  intros HA HB Hs. unfold simple_edges, ops_edges in Hs. destruct (cross_ok_app _ _ _ Hs) as [CA CB]. cbn [app] in CB.
  unfold fill_queue.
  assert (F0 : fqd [] (mkFQ (empty_store NQ) [] (empty_bb NQ))).
  { split; [split; [apply empty_store_sinv | intros i []]|]. split.
    - intros i o i' o' a1 a2 b1 b2 c1 c2 d1 d2 Mi. exfalso. apply Mi. reflexivity.
    - intros i o a1 a2 b1 b2 Mi. exfalso. apply Mi. reflexivity. }
  pose proof (fill_subject_disj A [] _ 0%N HA CA F0) as H1. cbn [app] in H1.
  destruct (fill_subject (mkFQ (empty_store NQ) [] (empty_bb NQ)) 0 A) as [s1 cid]. cbn [fst] in H1.
  assert (F1 : fqd (flat_map (poly_edges true) A) (mkFQ (fq_st s1) (fq_q s1) (empty_bb NQ))) by exact H1.
  pose proof (fill_clipping_disj B _ _ cid op HB CB F1) as H2.
  destruct (fill_clipping (mkFQ (fq_st s1) (fq_q s1) (empty_bb NQ)) cid op B) as [s2 c2]. cbn [fst] in H2.
  cbn [f_st]. apply H2.
Qed.

(** C13: after the sweep two distinct sub-segments of one operand meet in at most one point *)
Theorem subdivide_same_operand_disjoint cfg fuel (A B : list (polygon NQ)) op (st : store NQ) (sorted : list eid) (n : nat) :
  (forall P, In P A -> finite_poly P) -> (forall P, In P B -> finite_poly P) ->
  simple_edges (ops_edges A B) ->
  subdivide cfg fuel (fill_queue A B op) op = Ok (st, sorted, n) ->
  disj st.
Proof.
  intros HA HB Hs. unfold subdivide. destruct (fill_queue_inv NQ A B op) as [S0 Q0].
  set (edges := ops_edges A B).
  assert (PA : forall P, In P A -> poly_ok edges true P).
  { intros P HP. apply poly_ok_of_edges; [now apply HA|]. intros e He. unfold edges, ops_edges.
    apply in_or_app. left. apply in_flat_map. exists P. auto. }
  assert (PB : forall P, In P B -> poly_ok edges false P).
  { intros P HP. apply poly_ok_of_edges; [now apply HB|]. intros e He. unfold edges, ops_edges.
    apply in_or_app. right. apply in_flat_map. exists P. auto. }
  pose proof (fill_queue_einv2 edges A B op PA PB) as P0.
  pose proof (fill_queue_disj A B op HA HB Hs) as D0.
  set (s0 := mkSweep _ _ _ _).
  assert (I0 : swinv NQ s0).
  { unfold swinv, s0; cbn [sw_st sw_q sw_sl sw_sorted]. repeat split; try apply S0; try exact Q0; intros i []. }
  assert (KL0 : keys_left (sw_st s0) (keys eid unit (sw_sl s0))) by (intros k []).
  pose proof (sweep_loop_ed edges cfg fuel s0 (f_sbbox (fill_queue A B op)) (f_cbbox (fill_queue A B op))
                (minX NQ (bb_maxx (f_sbbox (fill_queue A B op))) (bb_maxx (f_cbbox (fill_queue A B op)))) op I0 P0 D0 KL0) as PP.
  destruct (sweep_loop _ _ _ _ _ _ _) as [s| site |]; cbn [obind]; try discriminate.
  intros H; inversion H; subst. exact PP.
Qed.
