(** * [impl Ord for SweepEvent], [is_below]/[is_above]/[is_vertical]/[is_before],
      and [compare_segments]. *)
From Coq Require Import Bool ZArith NArith PArith List.
From GB Require Import Num Event Intersect.
Set Implicit Arguments.

Section Cmp.
Variable N : Num.
Notation store := (store N).
Notation pt := (pt N).

Definition less_if (c : bool) : comparison := if c then Lt else Gt.
Definition less_if_inversed (c : bool) : comparison := if c then Gt else Lt.

Definition is_below (st : store) (i : eid) (p : pt) : bool :=
  let e := getE st i in
  match e_other e with
  | Some o =>
      if e_left e then sa_pos (sarea (e_point e) (point_of st o) p)
      else sa_pos (sarea (point_of st o) (e_point e) p)
  | None => false
  end.
Definition is_above (st : store) (i : eid) (p : pt) : bool := negb (is_below st i p).

Definition is_vertical (st : store) (i : eid) : bool :=
  let e := getE st i in
  match e_other e with
  | Some o => eqX N (px (e_point e)) (px (point_of st o))
  | None => false
  end.

(** [Ord::cmp]: [Lt] = [Ordering::Less].  The order is inverted w.r.t. processing order
    because [BinaryHeap] is a max-heap. *)
Definition cmp_events (st : store) (a b : eid) : comparison :=
  let ea := getE st a in
  let eb := getE st b in
  let p1 := e_point ea in
  let p2 := e_point eb in
  if gtX N (px p1) (px p2) then Lt
  else if ltX N (px p1) (px p2) then Gt
  else if gtY N (py p1) (py p2) then Lt
  else if ltY N (py p1) (py p2) then Gt
  else if negb (eqb (e_left ea) (e_left eb)) then less_if (e_left ea)
  else
    let fallback := less_if (negb (e_is_subject ea) && e_is_subject eb) in
    match e_other ea, e_other eb with
    | Some o1, Some o2 =>
        if negb (sa_zero (sarea p1 (point_of st o1) (point_of st o2)))
        then less_if (negb (is_below st a (point_of st o2)))
        else fallback
    | _, _ => fallback
    end.

Definition ev_lt (st : store) (a b : eid) : bool :=
  match cmp_events st a b with Lt => true | _ => false end.
Definition ev_gt (st : store) (a b : eid) : bool :=
  match cmp_events st a b with Gt => true | _ => false end.
(** [PartialOrd::le] as derived from [partial_cmp] *)
Definition ev_le (st : store) (a b : eid) : bool :=
  match cmp_events st a b with Gt => false | _ => true end.
Definition is_before (st : store) (a b : eid) : bool := ev_gt st a b.
Definition is_after (st : store) (a b : eid) : bool := ev_lt st a b.

(** [compare_segments]; the [debug_assert!]s are modelled in [Subdivide] (debug mode) *)
Definition compare_segments (st : store) (a b : eid) : comparison :=
  if Pos.eqb a b then Eq
  else
    let swap := negb (is_before st a b) in
    let old := if swap then b else a in
    let new := if swap then a else b in
    let lessif := if swap then less_if_inversed else less_if in
    let eo := getE st old in
    let en := getE st new in
    match e_other eo, e_other en with
    | Some oldr, Some newr =>
        let ol := e_point eo in
        let or_ := point_of st oldr in
        let nl := e_point en in
        let nr := point_of st newr in
        let sa_l := sarea ol or_ nl in
        let sa_r := sarea ol or_ nr in
        let collinear :=
          if eqb (e_is_subject eo) (e_is_subject en) then
            if pt_eq ol nl then lessif (N.ltb (e_contour_id eo) (e_contour_id en))
            else lessif true
          else lessif (e_is_subject eo) in
        if negb (sa_zero sa_l) || negb (sa_zero sa_r) then
          if pt_eq ol nl then lessif (is_below st old nr)
          else if eqX N (px ol) (px nl) then lessif (ltY N (py ol) (py nl))
          else if eqb (sa_pos sa_l) (sa_pos sa_r) then lessif (sa_pos sa_l)
          else if sa_zero sa_l then lessif (sa_pos sa_r)
          else
            match intersection ol or_ nl nr with
            | LNone => lessif (sa_pos sa_l)
            | LPoint p => if pt_eq p nl then lessif (sa_pos sa_r) else lessif (sa_pos sa_l)
            | LOverlap _ _ => collinear
            end
        else collinear
    | _, _ => lessif true
    end.

End Cmp.
