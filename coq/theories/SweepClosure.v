(** * A closure principle for the sweep, and: no event is queued or returned twice.

    [possible_intersection], [handle_left], [handle_right] change the (store, queue) pair only
    by updates of one mapped event and by [divide_segment] on a mapped event.  For every
    relation [R] on such pairs that is reflexive, transitive and contains these two kinds of
    steps (performed on states satisfying the link invariant), the input/output pairs of the
    three functions are related ([pi_closure], [handle_left_closure], [handle_right_closure]).

    Instance: [qext] — the new queue is a permutation of the old one plus freshly allocated,
    pairwise distinct ids — gives [subdivide_nodup]: the vector of events returned by
    [subdivide] has no duplicates, for every numeric instance and every input (the std
    BinaryHeap model only permutes, [SortProofs.push_perm] / [pop_perm]). *)
From Coq Require Import Bool List PArith NArith Lia Permutation.
From GB Require Import Prim Num Event Intersect Cmp Heap Outcome Divide Fields FillQueue Subdivide
  FieldsProofs SortProofs SplayKeys LinkProofs.
From GB Require Splay.
Import ListNotations.

Section Closure.
Variable N : Num.
Variable cfg : config.
Notation store := (store N).
Notation slkeys := (@keys eid unit).

Variable R : sq N -> sq N -> Prop.
Hypothesis R_refl : forall x, R x x.
Hypothesis R_trans : forall x y z, R x y -> R y z -> R x z.
Hypothesis R_upd : forall (x : sq N) j f, sqinv N x -> mapped N (sq_st x) j ->
  R x (mkSQ (upd (sq_st x) j f) (sq_q x)).
Hypothesis R_div : forall (x x' : sq N) T p, sqinv N x -> mapped N (sq_st x) T ->
  divide_segment cfg x T p = Ok x' -> R x x'.

Definition pr (x0 : sq N) (r : outcome (sq N * nat)) : Prop :=
  match r with Ok (x', _) => R x0 x' | _ => True end.

Lemma obind_divide_R (x0 x : sq N) (i : eid) (p : pt N) (k : sq N -> outcome (sq N * nat)) :
  sqinv N x -> R x0 x -> mapped N (sq_st x) i ->
  (forall x', sqinv N x' -> grows N (sq_st x) (sq_st x') -> R x0 x' -> pr x0 (k x')) ->
  pr x0 (obind (divide_segment cfg x i p) k).
Proof.
  intros S R0 M K. pose proof (divide_segment_inv N cfg x i p S M) as D.
  destruct (divide_segment cfg x i p) as [x'| site |] eqn:E; cbn [obind]; [|exact I|exact I].
  destruct D as [S' G']. apply K; [exact S' | exact G' |]. eapply R_trans; [exact R0|]. eapply R_div; eauto.
Qed.

Theorem pi_closure (s : sq N) (se1 se2 : eid) :
  sqinv N s -> mapped N (sq_st s) se1 -> mapped N (sq_st s) se2 ->
  pr s (possible_intersection cfg s se1 se2).
Proof.
  intros S M1 M2. pose proof S as [[W L] Q].
  assert (Good0 : pr s (Ok (s, 0))) by (cbn; apply R_refl).
  unfold possible_intersection.
  destruct (L se1 M1) as (other1 & O1 & _ & Mo1 & _).
  destruct (L se2 M2) as (other2 & O2 & _ & Mo2 & _).
  rewrite O1, O2.
  destruct (intersection _ _ _ _) as [|inter|ia ib].
  - exact Good0.
  - destruct (pt_eq _ _ || pt_eq _ _); [exact Good0|].
    destruct (negb (pt_eq (e_point (getE (sq_st s) se1)) inter)
              && negb (pt_eq (point_of (sq_st s) other1) inter)).
    + apply obind_divide_R; auto. intros s1 S1 G1 R1.
      destruct (negb (pt_eq (e_point (getE (sq_st s) se2)) inter)
                && negb (pt_eq (point_of (sq_st s) other2) inter)).
      * apply obind_divide_R; auto; intros s2 S2 G2 R2; cbn; exact R2.
      * cbn. exact R1.
    + cbn [obind].
      destruct (negb (pt_eq (e_point (getE (sq_st s) se2)) inter)
                && negb (pt_eq (point_of (sq_st s) other2) inter)).
      * apply obind_divide_R; auto; intros s2 S2 G2 R2; cbn; exact R2.
      * cbn. apply R_refl.
  - destruct (eqb _ _); [exact Good0|].
    assert (T : forall ty,
      sqinv N (mkSQ (upd (upd (sq_st s) se2 (fun e => set_edge_type e NonContributing)) se1
                       (fun e => set_edge_type e ty)) (sq_q s))
      /\ grows N (sq_st s) (upd (upd (sq_st s) se2 (fun e => set_edge_type e NonContributing)) se1
                              (fun e => set_edge_type e ty))
      /\ R s (mkSQ (upd (upd (sq_st s) se2 (fun e => set_edge_type e NonContributing)) se1
                       (fun e => set_edge_type e ty)) (sq_q s))).
    { intros ty. destruct (sqinv_set_edge_type N s se2 NonContributing S M2) as [Sa Ga].
      destruct (sqinv_set_edge_type N (mkSQ (upd (sq_st s) se2 (fun e => set_edge_type e NonContributing)) (sq_q s))
                  se1 ty Sa (Ga _ M1)) as [Sb Gb].
      cbn [sq_st sq_q] in Sb, Gb. split; [exact Sb|]. split; [eapply grows_trans; eauto|].
      eapply R_trans; [apply (R_upd s se2 (fun e => set_edge_type e NonContributing) S M2)|].
      apply (R_upd (mkSQ (upd (sq_st s) se2 (fun e => set_edge_type e NonContributing)) (sq_q s)) se1
                   (fun e => set_edge_type e ty) Sa (Ga _ M1)). }
    destruct (pt_eq (e_point (getE (sq_st s) se1)) (e_point (getE (sq_st s) se2))) eqn:LC;
    destruct (pt_eq (point_of (sq_st s) other1) (point_of (sq_st s) other2)) eqn:RC;
    destruct (ev_lt (sq_st s) se1 se2) eqn:C1; destruct (ev_lt (sq_st s) other1 other2) eqn:C2;
      cbn [app nth_ev nth fst snd negb];
      try match goal with
          | |- context [Pos.eqb ?a ?b] => destruct (Pos.eqb a b)
          end; cbn [negb obind];
      try (match goal with
           | |- pr _ (Ok (mkSQ (upd (upd _ se2 _) se1 (fun e => set_edge_type e ?ty)) _, 2)) =>
               destruct (T ty) as (Sb & Gb & Rb); cbn; exact Rb
           end);
      try (match goal with
           | |- pr _ (obind (divide_segment _ (mkSQ (upd (upd _ se2 _) se1 (fun e => set_edge_type e ?ty)) _) _ _) _) =>
               destruct (T ty) as (Sb & Gb & Rb);
               apply obind_divide_R; [exact Sb | exact Rb | cbn [sq_st]; apply Gb; assumption |];
               intros s3 S3 G3 R3; cbn; exact R3
           end);
      try (apply obind_divide_R; auto; intros s1 S1 G1 R1;
           first
             [ (cbn; exact R1)
             | (apply obind_divide_R; auto; intros s2 S2 G2 R2; cbn; exact R2)
             | (match goal with
                | |- context [other_of (sq_st s1) ?i] =>
                    let Mi := fresh "Mi" in
                    assert (Mi : mapped N (sq_st s1) i) by (apply G1; assumption);
                    pose proof S1 as [[W1 L1] Q1];
                    destruct (L1 i Mi) as (o3 & O3 & _ & Mo3 & _);
                    unfold other_of; rewrite O3;
                    apply obind_divide_R; [exact S1 | exact R1 | assumption |];
                    intros s2 S2 G2 R2; cbn; exact R2
                end) ]).
Qed.

(** [compute_fields] is a sequence of updates of one mapped event *)
Lemma compute_fields_R (x : sq N) ev mp op :
  sqinv N x -> mapped N (sq_st x) ev -> R x (mkSQ (compute_fields cfg (sq_st x) ev mp op) (sq_q x)).
Proof.
  intros S M. unfold compute_fields.
  assert (U : forall (y : sq N) f, sqinv N y -> mapped N (sq_st y) ev -> keeps N f ->
                sqinv N (mkSQ (upd (sq_st y) ev f) (sq_q y)) /\ mapped N (upd (sq_st y) ev f) ev /\
                R y (mkSQ (upd (sq_st y) ev f) (sq_q y))).
  { intros y f [Sy Qy] My K. split; [split|split].
    - cbn. now apply sinv_upd_keeps.
    - cbn. intros j Hj. apply mapped_upd_in; auto.
    - apply mapped_upd. now left.
    - apply R_upd; [split; assumption | exact My]. }
  destruct mp as [prev|].
  - set (f1 := fun x0 : event N => set_in_out x0 _ _).
    match goal with |- R x (mkSQ (upd ?st1 ev ?f3) _) => set (stA := st1) end.
    assert (HA : exists f1 f2, keeps N f1 /\ keeps N f2 /\ stA = upd (upd (sq_st x) ev f1) ev f2).
    { unfold stA.
      repeat match goal with
             | |- context [if ?c then _ else _] => destruct c
             | |- context [match ?c with Some _ => _ | None => _ end] => destruct c
             end; eexists; eexists; (split; [apply keeps_set_in_out | split; [apply keeps_set_prev | reflexivity]]). }
    destruct HA as (g1 & g2 & K1 & K2 & ->).
    destruct (U x g1 S M K1) as (S1 & M1 & R1).
    destruct (U _ g2 S1 M1 K2) as (S2 & M2 & R2). cbn [sq_st sq_q] in *.
    destruct (U _ (fun x0 => set_result_transition x0
                 (if in_result (getE (upd (upd (sq_st x) ev g1) ev g2) ev) op
                  then determine_result_transition cfg (getE (upd (upd (sq_st x) ev g1) ev g2) ev) op else RTNone))
                S2 M2 (keeps_set_rt N _)) as (_ & _ & R3). cbn [sq_st sq_q] in R3.
    eapply R_trans; [exact R1|]. eapply R_trans; [exact R2 | exact R3].
  - destruct (U x (fun x0 => set_in_out x0 false true) S M (keeps_set_in_out N _ _)) as (S1 & M1 & R1).
    destruct (U _ (fun x0 => set_prev_in_result x0 None) S1 M1 (keeps_set_prev N _)) as (S2 & M2 & R2). cbn [sq_st sq_q] in *.
    destruct (U _ (fun x0 => set_result_transition x0
                 (if in_result (getE (upd (upd (sq_st x) ev (fun x1 => set_in_out x1 false true)) ev (fun x1 => set_prev_in_result x1 None)) ev) op
                  then determine_result_transition cfg (getE (upd (upd (sq_st x) ev (fun x1 => set_in_out x1 false true)) ev (fun x1 => set_prev_in_result x1 None)) ev) op else RTNone))
                S2 M2 (keeps_set_rt N _)) as (_ & _ & R3). cbn [sq_st sq_q] in R3.
    eapply R_trans; [exact R1|]. eapply R_trans; [exact R2 | exact R3].
Qed.


Definition hr (x0 : sq N) (r : outcome (sweep N)) : Prop :=
  match r with Ok s' => R x0 (mkSQ (sw_st s') (sw_q s')) | _ => True end.

Theorem handle_left_closure (s : sweep N) (ev : eid) (op : operation) :
  swinv N s -> mapped N (sw_st s) ev -> hr (mkSQ (sw_st s) (sw_q s)) (handle_left cfg s ev op).
Proof.
  intros (S & Q & A & B) Mev. unfold handle_left.
  set (st := sw_st s) in *.
  set (x0 := mkSQ st (sw_q s)).
  set (sl1 := sl_insert st (sw_sl s) ev).
  assert (A1 : all_mapped N st (slkeys sl1)).
  { intros k Hk. apply sl_insert_keys in Hk. destruct Hk as [->|Hk]; auto. }
  destruct (sl_prev_spec N st sl1 ev) as [Kp Ip].
  destruct (sl_prev st sl1 ev) as [sl2 maybe_prev]. cbn [fst snd] in Kp, Ip.
  destruct (sl_next_spec N st sl2 ev) as [Kn In_].
  destruct (sl_next st sl2 ev) as [sl3 maybe_next]. cbn [fst snd] in Kn, In_.
  assert (Mprev : forall p, maybe_prev = Some p -> mapped N st p) by (intros p Hp; apply A1, Ip, Hp).
  assert (Mnext : forall p, maybe_next = Some p -> mapped N st p).
  { intros p Hp. apply A1. rewrite <- Kp. apply In_, Hp. }
  assert (X0 : sqinv N x0) by (split; assumption).
  destruct (compute_fields_sq N cfg x0 ev maybe_prev op X0 Mev) as [X1 G1].
  pose proof (compute_fields_R x0 ev maybe_prev op X0 Mev) as R1.
  cbn [sq_st sq_q x0] in X1, G1, R1.
  set (x1 := mkSQ (compute_fields cfg st ev maybe_prev op) (sw_q s)) in *.
  assert (Step1 : match
            (match maybe_next with
             | Some next =>
                 obind (possible_intersection cfg x1 ev next) (fun r =>
                 let '(x, code) := r in
                 if Nat.eqb code 2 then
                   let st_a := compute_fields cfg (sq_st x) ev maybe_prev op in
                   let st_b := compute_fields cfg st_a next (Some ev) op in
                   Ok (mkSQ st_b (sq_q x))
                 else Ok x)
             | None => Ok x1
             end) with
          | Ok x2 => sqinv N x2 /\ grows N st (sq_st x2) /\ R x0 x2
          | _ => True
          end).
  { destruct maybe_next as [next|]; [|split; [exact X1 | split; [exact G1 | exact R1]]].
    pose proof (possible_intersection_inv N cfg x1 ev next X1 (G1 _ Mev) (G1 _ (Mnext _ eq_refl))) as P.
    pose proof (pi_closure x1 ev next X1 (G1 _ Mev) (G1 _ (Mnext _ eq_refl))) as PR.
    destruct (possible_intersection cfg x1 ev next) as [[x code]| site |]; cbn [obind]; [|exact I|exact I].
    destruct P as [Sx Gx]. cbn [sq_st pr] in Gx, PR.
    assert (Rx : R x0 x) by (eapply R_trans; eauto).
    destruct (Nat.eqb code 2).
    - destruct (compute_fields_sq N cfg x ev maybe_prev op Sx (Gx _ (G1 _ Mev))) as [Sa Ga].
      pose proof (compute_fields_R x ev maybe_prev op Sx (Gx _ (G1 _ Mev))) as Ra.
      cbn [sq_st sq_q] in Sa, Ga.
      destruct (compute_fields_sq N cfg (mkSQ (compute_fields cfg (sq_st x) ev maybe_prev op) (sq_q x))
                  next (Some ev) op Sa (Ga _ (Gx _ (G1 _ (Mnext _ eq_refl))))) as [Sb Gb].
      pose proof (compute_fields_R (mkSQ (compute_fields cfg (sq_st x) ev maybe_prev op) (sq_q x))
                  next (Some ev) op Sa (Ga _ (Gx _ (G1 _ (Mnext _ eq_refl))))) as Rb.
      cbn [sq_st sq_q] in Sb, Gb, Rb. split; [exact Sb|]. split.
      + cbn [sq_st]. intros i Hi. apply Gb, Ga, Gx, G1, Hi.
      + eapply R_trans; [exact Rx|]. eapply R_trans; [exact Ra | exact Rb].
    - split; [exact Sx|]. split; [intros i Hi; apply Gx, G1, Hi | exact Rx]. }
  destruct (match maybe_next with Some next => _ | None => Ok x1 end) as [x2| site |]; cbn [obind]; try exact I.
  destruct Step1 as (S2 & G2 & R2).
  destruct maybe_prev as [prev|].
  - pose proof (possible_intersection_inv N cfg x2 prev ev S2 (G2 _ (Mprev _ eq_refl)) (G2 _ Mev)) as P.
    pose proof (pi_closure x2 prev ev S2 (G2 _ (Mprev _ eq_refl)) (G2 _ Mev)) as PR.
    destruct (possible_intersection cfg x2 prev ev) as [[x code]| site |]; cbn [obind]; try exact I.
    destruct P as [Sx Gx]. cbn [pr] in PR.
    assert (Rx : R x0 x) by (eapply R_trans; eauto).
    destruct (Nat.eqb code 2).
    + destruct (sl_prev (sq_st x) sl3 prev) as [sl4 mpp].
      destruct (compute_fields_sq N cfg x prev mpp op Sx (Gx _ (G2 _ (Mprev _ eq_refl)))) as [Sa Ga].
      pose proof (compute_fields_R x prev mpp op Sx (Gx _ (G2 _ (Mprev _ eq_refl)))) as Ra.
      cbn [sq_st sq_q] in Sa, Ga.
      pose proof (compute_fields_R (mkSQ (compute_fields cfg (sq_st x) prev mpp op) (sq_q x))
                  ev (Some prev) op Sa (Ga _ (Gx _ (G2 _ Mev)))) as Rb.
      cbn [sq_st sq_q] in Rb. cbn [hr with_sq sw_st sw_q sq_st sq_q].
      eapply R_trans; [exact Rx|]. eapply R_trans; [exact Ra | exact Rb].
    + cbn [hr with_sq sw_st sw_q]. destruct x; exact Rx.
  - cbn [hr with_sq sw_st sw_q]. destruct x2; exact R2.
Qed.

Theorem handle_right_closure (s : sweep N) (other : eid) :
  swinv N s -> hr (mkSQ (sw_st s) (sw_q s)) (handle_right cfg s other).
Proof.
  intros (S & Q & A & B). unfold handle_right.
  set (st := sw_st s) in *.
  set (x0 := mkSQ st (sw_q s)).
  pose proof (sl_contains_keys N st (sw_sl s) other) as Kc.
  destruct (sl_contains st (sw_sl s) other) as [sl1 present]. cbn [fst] in Kc.
  destruct (c_debug cfg && negb present); [exact I|].
  assert (A1 : all_mapped N st (slkeys sl1)) by (rewrite Kc; exact A).
  destruct present; [|cbn [hr sw_st sw_q]; apply R_refl].
  destruct (sl_prev_spec N st sl1 other) as [Kp Ip].
  destruct (sl_prev st sl1 other) as [sl2 maybe_prev]. cbn [fst snd] in Kp, Ip.
  destruct (sl_next_spec N st sl2 other) as [Kn In_].
  destruct (sl_next st sl2 other) as [sl3 maybe_next]. cbn [fst snd] in Kn, In_.
  assert (X0 : sqinv N x0) by (split; assumption).
  destruct maybe_prev as [prev|]; [|cbn [obind hr with_sq sw_st sw_q sq_st sq_q]; apply R_refl].
  destruct maybe_next as [next|]; [|cbn [obind hr with_sq sw_st sw_q sq_st sq_q]; apply R_refl].
  assert (Mp : mapped N st prev) by (apply A1, Ip; reflexivity).
  assert (Mn : mapped N st next) by (apply A1; rewrite <- Kp; apply In_; reflexivity).
  pose proof (pi_closure x0 prev next X0 Mp Mn) as PR.
  fold x0.
  destruct (possible_intersection cfg x0 prev next) as [[x code]| site |]; cbn [obind fst]; try exact I.
  cbn [pr] in PR. cbn [hr with_sq sw_st sw_q]. destruct x; exact PR.
Qed.

End Closure.

(** ** instance: the queue only ever gains freshly allocated, pairwise distinct ids *)
Section NoDupInst.
Variable N : Num.
Variable cfg : config.
Notation store := (store N).

Definition qext (x x' : sq N) : Prop :=
  grows N (sq_st x) (sq_st x') /\
  exists news, Permutation (sq_q x') (news ++ sq_q x) /\ NoDup news /\
               (forall i, In i news -> ~ mapped N (sq_st x) i /\ mapped N (sq_st x') i) /\
               (forall i, mapped N (sq_st x') i -> mapped N (sq_st x) i \/ In i news).

Lemma qext_refl x : qext x x.
Proof. split; [apply grows_refl|]. exists []. split; [reflexivity|]. split; [constructor|]. split; [intros i [] | intros i Hi; now left]. Qed.

Lemma nodup_app (T : Type) (l1 l2 : list T) :
  NoDup l1 -> NoDup l2 -> (forall x, In x l1 -> In x l2 -> False) -> NoDup (l1 ++ l2).
Proof.
  induction l1 as [|a l1 IH]; intros H1 H2 Hd; cbn [app]; [exact H2|].
  inversion H1; subst. constructor.
  - intros Hin. apply in_app_or in Hin. destruct Hin as [Hin|Hin]; [contradiction|]. apply (Hd a); [now left | exact Hin].
  - apply IH; auto. intros x Hx1 Hx2. apply (Hd x); [now right | exact Hx2].
Qed.

Lemma nodup_app_r (T : Type) (l1 l2 : list T) : NoDup (l1 ++ l2) -> NoDup l2.
Proof. induction l1 as [|a l1 IH]; cbn [app]; intros H; [exact H|]. inversion H; subst. now apply IH. Qed.

Lemma qext_trans x y z : qext x y -> qext y z -> qext x z.
Proof.
  intros [G1 (n1 & P1 & D1 & F1 & C1)] [G2 (n2 & P2 & D2 & F2 & C2)]. split; [eapply grows_trans; eauto|].
  exists (n2 ++ n1). split; [|split; [|split]].
  - rewrite P2. rewrite <- app_assoc. apply Permutation_app_head. exact P1.
  - apply nodup_app; auto. intros i H2 H1. destruct (F2 i H2) as [U _]. destruct (F1 i H1) as [_ M]. contradiction.
  - intros i Hi. apply in_app_or in Hi. destruct Hi as [Hi|Hi].
    + destruct (F2 i Hi) as [U M]. split; [intros K; apply U, G1, K | exact M].
    + destruct (F1 i Hi) as [U M]. split; [exact U | apply G2, M].
  - intros i Mi. destruct (C2 i Mi) as [K|K]; [|right; apply in_or_app; now left].
    destruct (C1 i K) as [K'|K']; [now left | right; apply in_or_app; now right].
Qed.

Lemma qext_upd (x : sq N) j f : sqinv N x -> mapped N (sq_st x) j -> qext x (mkSQ (upd (sq_st x) j f) (sq_q x)).
Proof.
  intros _ M. split; [intros i Hi; apply mapped_upd_in; auto|].
  exists []. split; [reflexivity|]. split; [constructor|]. split; [intros i []|].
  intros i Hi. left. cbn [sq_st] in Hi. now apply (mapped_upd_in N (sq_st x) j f i M) in Hi.
Qed.

Lemma qpush_perm (st : store) q i : Permutation (qpush st q i) (i :: q).
Proof. unfold qpush. apply push_perm. Qed.

Lemma qext_div (x x' : sq N) T p : sqinv N x -> mapped N (sq_st x) T -> divide_segment cfg x T p = Ok x' -> qext x x'.
Proof.
  intros S M Hd. pose proof (divide_segment_inv N cfg x T p S M) as DI. rewrite Hd in DI. destruct DI as [S' G'].
  split; [exact G'|]. pose proof S as [[W L] Q].
  revert Hd. unfold divide_segment.
  destruct (c_debug cfg && negb (e_left (getE (sq_st x) T))); [discriminate|].
  destruct (L T M) as (se_r & Or & _). rewrite Or.
  set (el := getE (sq_st x) T).
  set (p' := if eqX N (px p) (px (e_point el)) && ltY N (py p) (py (e_point el)) then mkPt N (next_upX N (px p)) (py p) else p).
  destruct (alloc (sq_st x) (new_event (e_contour_id el) p' false (Some T) (e_is_subject el) true)) as [st1 r] eqn:E1.
  destruct (alloc st1 (new_event (e_contour_id el) p' true (Some se_r) (e_is_subject el) true)) as [st2 l] eqn:E2.
  assert (Hst1 : st1 = fst (alloc (sq_st x) (new_event (e_contour_id el) p' false (Some T) (e_is_subject el) true))) by (rewrite E1; reflexivity).
  assert (Hr : r = st_next (sq_st x)) by (unfold alloc in E1; now inversion E1).
  assert (Hl : l = st_next st1) by (unfold alloc in E2; now inversion E2).
  assert (Hl' : l = Pos.succ r) by (rewrite Hl, Hst1, next_alloc, Hr; reflexivity).
  destruct (c_debug cfg && negb (is_before st2 T r)); [discriminate|].
  intros H; inversion H; subst x'; clear H. cbn [sq_q sq_st] in *.
  exists [r; l]. split; [|split; [|split]].
  - eapply Permutation_trans; [apply qpush_perm|]. cbn [app]. apply perm_skip.
    eapply Permutation_trans; [apply qpush_perm|]. reflexivity.
  - constructor; [intros [K|[]]; rewrite Hl' in K; lia|]. constructor; [intros []|constructor].
  - intros i [<-|[<-|[]]].
    + split; [rewrite Hr; now apply fresh_unmapped|].
      destruct S' as [_ Q']. cbn [sq_st sq_q] in Q'. apply Q'. apply (Permutation_in _ (Permutation_sym (qpush_perm _ _ _))). now left.
    + split; [intros K; pose proof (W _ K) as K2; rewrite Hl', Hr in K2; lia|].
      destruct S' as [_ Q']. cbn [sq_st sq_q] in Q'. apply Q'. apply (Permutation_in _ (Permutation_sym (qpush_perm _ _ _))). right.
      apply (Permutation_in _ (Permutation_sym (qpush_perm _ _ _))). now left.
  - intros i Mi.
    assert (Hst2 : st2 = fst (alloc st1 (new_event (e_contour_id el) p' true (Some se_r) (e_is_subject el) true))) by (rewrite E2; reflexivity).
    assert (Mi2 : mapped N st2 i \/ i = T \/ i = se_r \/ i = l).
    { revert Mi. destruct (negb (is_before st2 l se_r)); rewrite !mapped_upd; tauto. }
    assert (Mr0 : mapped N (sq_st x) se_r) by (destruct (L T M) as (o & Ho & _ & Mo & _); congruence).
    destruct Mi2 as [K|[K|[K|K]]]; [|subst i; now left|subst i; now left|subst i; right; right; now left].
    rewrite Hst2 in K. apply mapped_alloc in K. destruct K as [K|K]; [subst i; right; right; left; exact Hl|].
    rewrite Hst1 in K. apply mapped_alloc in K. destruct K as [K|K]; [subst i; right; left; exact Hr | now left].
Qed.


(** [handle_left] / [handle_right] do not touch the vector of processed events *)
Lemma handle_left_sorted (s s' : sweep N) ev op : handle_left cfg s ev op = Ok s' -> sw_sorted s' = sw_sorted s.
Proof.
  unfold handle_left.
  destruct (sl_prev (sw_st s) (sl_insert (sw_st s) (sw_sl s) ev) ev) as [sl2 maybe_prev].
  destruct (sl_next (sw_st s) sl2 ev) as [sl3 maybe_next].
  set (x1 := mkSQ _ _).
  destruct maybe_next as [next|].
  - destruct (possible_intersection cfg x1 ev next) as [[x code]| |]; cbn [obind]; try discriminate.
    destruct (Nat.eqb code 2); cbn [obind];
      (destruct maybe_prev as [prev|]; [|intros H; inversion H; reflexivity]);
      (match goal with |- context [possible_intersection cfg ?y prev ev] =>
         destruct (possible_intersection cfg y prev ev) as [[x' code']| |] end; cbn [obind]; try discriminate);
      (destruct (Nat.eqb code' 2); [destruct (sl_prev (sq_st x') sl3 prev) as [sl4 mpp]|]); intros H; inversion H; reflexivity.
  - cbn [obind]. destruct maybe_prev as [prev|]; [|intros H; inversion H; reflexivity].
    destruct (possible_intersection cfg x1 prev ev) as [[x' code']| |]; cbn [obind]; try discriminate.
    destruct (Nat.eqb code' 2); [destruct (sl_prev (sq_st x') sl3 prev) as [sl4 mpp]|]; intros H; inversion H; reflexivity.
Qed.

Lemma handle_right_sorted (s s' : sweep N) other : handle_right cfg s other = Ok s' -> sw_sorted s' = sw_sorted s.
Proof.
  unfold handle_right.
  destruct (sl_contains (sw_st s) (sw_sl s) other) as [sl1 present].
  destruct (c_debug cfg && negb present); [discriminate|].
  destruct present; [|intros H; inversion H; reflexivity].
  destruct (sl_prev (sw_st s) sl1 other) as [sl2 maybe_prev].
  destruct (sl_next (sw_st s) sl2 other) as [sl3 maybe_next].
  destruct maybe_prev as [prev|]; [|cbn [obind]; intros H; inversion H; reflexivity].
  destruct maybe_next as [next|]; [|cbn [obind]; intros H; inversion H; reflexivity].
  destruct (possible_intersection cfg _ prev next) as [[x code]| |]; cbn [obind]; try discriminate.
  intros H; inversion H; reflexivity.
Qed.

Definition ndq (s : sweep N) : Prop := NoDup (sw_q s ++ sw_sorted s).

Lemma qpop_perm (st : store) q ev q' : qpop st q = Some (ev, q') -> Permutation q (ev :: q').
Proof. unfold qpop. apply pop_perm. Qed.

Lemma ndq_step (s1 s2 : sweep N) :
  swinv N s1 -> ndq s1 -> qext (mkSQ (sw_st s1) (sw_q s1)) (mkSQ (sw_st s2) (sw_q s2)) ->
  sw_sorted s2 = sw_sorted s1 -> ndq s2.
Proof.
  intros (S & Q & A & B) ND [G (news & P & D & F & _)] Es. unfold ndq in *. cbn [sq_q sq_st] in *.
  rewrite Es. eapply Permutation_NoDup; [apply Permutation_app_tail; symmetry; exact P|].
  rewrite <- app_assoc. apply nodup_app; [exact D | exact ND|].
  intros i Hn Ho. destruct (F i Hn) as [U _]. apply U.
  apply in_app_or in Ho. destruct Ho as [Ho|Ho]; [now apply Q | now apply B].
Qed.

Theorem sweep_loop_nodup : forall (fuel : nat) (s : sweep N) sbbox cbbox rightbound op,
  swinv N s -> ndq s ->
  match sweep_loop cfg fuel s sbbox cbbox rightbound op with Ok s' => ndq s' | _ => True end.
Proof.
  induction fuel as [|f IH]; intros s sbbox cbbox rightbound op Hs ND; cbn [sweep_loop].
  - destruct (qpop (sw_st s) (sw_q s)); [exact I | exact ND].
  - destruct (qpop (sw_st s) (sw_q s)) as [[ev q']|] eqn:Hp; [|exact ND].
    pose proof Hs as (S & Q & A & B).
    destruct (qpop_mapped N (sw_st s) (sw_st s) (sw_q s) ev q' Q Hp) as [Mev Q'].
    set (s1 := mkSweep (sw_st s) q' (sw_sl s) (ev :: sw_sorted s)).
    assert (S1 : swinv N s1).
    { unfold swinv, s1; cbn [sw_st sw_q sw_sl sw_sorted]. repeat split; try tauto.
      - apply S. - apply S. - intros i [<-|Hi]; auto. }
    assert (ND1 : ndq s1).
    { unfold ndq, s1 in *. cbn [sw_q sw_sorted].
      eapply Permutation_NoDup; [|exact ND].
      eapply Permutation_trans; [apply Permutation_app_tail; apply (qpop_perm _ _ _ _ Hp)|].
      cbn [app]. apply Permutation_middle. }
    destruct (negb (c_noshort cfg) && _); [exact ND1|].
    destruct (e_left (getE (sw_st s) ev)).
    + pose proof (handle_left_inv N cfg s1 ev op S1 Mev) as G.
      pose proof (handle_left_closure N cfg qext qext_refl qext_trans qext_upd qext_div s1 ev op S1 Mev) as C.
      destruct (handle_left cfg s1 ev op) as [s2| site |] eqn:Eh; cbn [obind]; try exact I.
      destruct G as [S2 _]. cbn [hr] in C.
      apply (IH s2 sbbox cbbox rightbound op S2). exact (ndq_step s1 s2 S1 ND1 C (handle_left_sorted s1 s2 ev op Eh)).
    + destruct (e_other (getE (sw_st s) ev)) as [other|].
      * pose proof (handle_right_inv N cfg s1 other S1) as G.
        pose proof (handle_right_closure N cfg qext qext_refl qext_trans qext_upd qext_div s1 other S1) as C.
        destruct (handle_right cfg s1 other) as [s2| site |] eqn:Eh; cbn [obind]; try exact I.
        destruct G as [S2 _]. cbn [hr] in C.
        apply (IH s2 sbbox cbbox rightbound op S2). exact (ndq_step s1 s2 S1 ND1 C (handle_right_sorted s1 s2 other Eh)).
      * cbn [obind]. apply (IH s1 sbbox cbbox rightbound op S1 ND1).
Qed.

(** [fill_queue] queues every event once *)
Definition fqnd (s : fq N) : Prop := fqinv N s /\ NoDup (fq_q s).

Lemma process_edge_nd (s : fq N) subj cid ext (a b : pt N) : fqnd s -> fqnd (process_edge s subj cid ext a b).
Proof.
  intros [F ND]. split; [now apply process_edge_inv|].
  destruct F as [[W L] Q]. unfold process_edge. destruct (pt_eq a b); [exact ND|].
  destruct (alloc (fq_st s) (new_event cid a false None subj ext)) as [st1 e1] eqn:E1.
  destruct (alloc st1 (new_event cid b false (Some e1) subj ext)) as [st2 e2] eqn:E2.
  assert (H1 : st1 = fst (alloc (fq_st s) (new_event cid a false None subj ext))) by (rewrite E1; reflexivity).
  assert (I1 : e1 = st_next (fq_st s)) by (unfold alloc in E1; now inversion E1).
  assert (I2 : e2 = st_next st1) by (unfold alloc in E2; now inversion E2).
  assert (I2' : e2 = Pos.succ e1) by (rewrite I2, H1, next_alloc, I1; reflexivity).
  assert (Fr1 : ~ mapped N (fq_st s) e1) by (rewrite I1; now apply fresh_unmapped).
  assert (Fr2 : ~ mapped N (fq_st s) e2).
  { intros M. pose proof (W _ M). rewrite I2', I1 in H. lia. }
  cbn [fq_q].
  eapply Permutation_NoDup; [symmetry; eapply Permutation_trans; [apply qpush_perm | apply perm_skip; apply qpush_perm]|].
  constructor.
  - intros [K|K]; [rewrite I2' in K; lia | apply Fr2, Q, K].
  - constructor; [intros K; apply Fr1, Q, K | exact ND].
Qed.

Lemma process_ring_from_nd : forall (rest : ring N) (s : fq N) subj cid ext (prev : pt N),
  fqnd s -> fqnd (process_ring_from s subj cid ext prev rest).
Proof. induction rest as [|p rest IH]; intros s subj cid ext prev H; cbn [process_ring_from]; [exact H|]. apply IH. now apply process_edge_nd. Qed.
Lemma process_ring_nd (s : fq N) (r : ring N) subj cid ext : fqnd s -> fqnd (process_ring s r subj cid ext).
Proof. intros H. destruct r; [exact H|]. now apply process_ring_from_nd. Qed.
Lemma process_interiors_nd : forall (ints : list (ring N)) (s : fq N) subj cid, fqnd s -> fqnd (process_interiors s ints subj cid).
Proof. unfold process_interiors. induction ints as [|r ints IH]; intros s subj cid H; cbn [fold_left]; [exact H|]. apply IH. now apply process_ring_nd. Qed.
Lemma fill_subject_nd : forall (ps : list (polygon N)) (s : fq N) cid, fqnd s -> fqnd (fst (fill_subject s cid ps)).
Proof. induction ps as [|P ps IH]; intros s cid H; cbn [fill_subject]; [exact H|]. apply IH. apply process_interiors_nd. now apply process_ring_nd. Qed.
Lemma fill_clipping_nd : forall (ps : list (polygon N)) (s : fq N) cid op, fqnd s -> fqnd (fst (fill_clipping s cid op ps)).
Proof. induction ps as [|P ps IH]; intros s cid op H; cbn [fill_clipping]; [exact H|]. apply IH. apply process_interiors_nd. now apply process_ring_nd. Qed.

Theorem fill_queue_nodup (subject clipping : list (polygon N)) (op : operation) : NoDup (f_q (fill_queue subject clipping op)).
Proof.
  unfold fill_queue.
  pose proof (fill_subject_nd subject (mkFQ (empty_store N) [] (empty_bb N)) 0%N) as H1.
  destruct (fill_subject (mkFQ (empty_store N) [] (empty_bb N)) 0 subject) as [s1 cid]. cbn [fst] in H1.
  assert (F1 : fqnd s1).
  { apply H1. split; [split; [apply empty_store_sinv | intros i []] | constructor]. }
  pose proof (fill_clipping_nd clipping (mkFQ (fq_st s1) (fq_q s1) (empty_bb N)) cid op) as H2.
  destruct (fill_clipping (mkFQ (fq_st s1) (fq_q s1) (empty_bb N)) cid op clipping) as [s2 c2]. cbn [fst] in H2.
  cbn [f_q]. apply H2. exact F1.
Qed.

(** C13 / C03: no event is returned twice, every instance, every input *)
Theorem subdivide_nodup fuel (A B : list (polygon N)) op (st : store) (sorted : list eid) (n : nat) :
  subdivide cfg fuel (fill_queue A B op) op = Ok (st, sorted, n) -> NoDup sorted.
Proof.
  unfold subdivide. destruct (fill_queue_inv N A B op) as [S0 Q0].
  set (s0 := mkSweep _ _ _ _).
  assert (I0 : swinv N s0).
  { unfold swinv, s0; cbn [sw_st sw_q sw_sl sw_sorted]. repeat split; try apply S0; try exact Q0; intros i []. }
  assert (ND0 : ndq s0).
  { unfold ndq, s0. cbn [sw_q sw_sorted]. rewrite app_nil_r. apply fill_queue_nodup. }
  pose proof (sweep_loop_nodup fuel s0 (f_sbbox (fill_queue A B op)) (f_cbbox (fill_queue A B op))
                (minX N (bb_maxx (f_sbbox (fill_queue A B op))) (bb_maxx (f_cbbox (fill_queue A B op)))) op I0 ND0) as PP.
  destruct (sweep_loop _ _ _ _ _ _ _) as [s| site |]; cbn [obind]; try discriminate.
  intros H; inversion H; subst. apply NoDup_rev. unfold ndq in PP. now apply nodup_app_r in PP.
Qed.


(** ** every event that exists is in the queue or among the processed ones *)
Definition covered (s : sweep N) : Prop := forall i, mapped N (sw_st s) i -> In i (sw_q s ++ sw_sorted s).

Lemma covered_step (s1 s2 : sweep N) :
  covered s1 -> qext (mkSQ (sw_st s1) (sw_q s1)) (mkSQ (sw_st s2) (sw_q s2)) ->
  sw_sorted s2 = sw_sorted s1 -> covered s2.
Proof.
  intros C [G (news & P & D & F & Cv)] Es i Mi. cbn [sq_q sq_st] in *. rewrite Es.
  apply in_or_app. destruct (Cv i Mi) as [K|K].
  - apply C in K. apply in_app_or in K. destruct K as [K|K]; [left|now right].
    apply (Permutation_in _ (Permutation_sym P)). apply in_or_app. now right.
  - left. apply (Permutation_in _ (Permutation_sym P)). apply in_or_app. now left.
Qed.

Theorem sweep_loop_covered : forall (fuel : nat) (s : sweep N) sbbox cbbox rightbound op,
  swinv N s -> covered s ->
  match sweep_loop cfg fuel s sbbox cbbox rightbound op with Ok s' => covered s' | _ => True end.
Proof.
  induction fuel as [|f IH]; intros s sbbox cbbox rightbound op Hs CV; cbn [sweep_loop].
  - destruct (qpop (sw_st s) (sw_q s)); [exact I | exact CV].
  - destruct (qpop (sw_st s) (sw_q s)) as [[ev q']|] eqn:Hp; [|exact CV].
    pose proof Hs as (S & Q & A & B).
    destruct (qpop_mapped N (sw_st s) (sw_st s) (sw_q s) ev q' Q Hp) as [Mev Q'].
    set (s1 := mkSweep (sw_st s) q' (sw_sl s) (ev :: sw_sorted s)).
    assert (S1 : swinv N s1).
    { unfold swinv, s1; cbn [sw_st sw_q sw_sl sw_sorted]. repeat split; try tauto.
      - apply S. - apply S. - intros i [<-|Hi]; auto. }
    assert (CV1 : covered s1).
    { intros i Mi. unfold s1 in *. cbn [sw_st sw_q sw_sorted] in *. specialize (CV i Mi).
      apply in_app_or in CV. apply in_or_app. destruct CV as [K|K]; [|right; now right].
      apply (Permutation_in _ (qpop_perm _ _ _ _ Hp)) in K. destruct K as [<-|K]; [right; now left | now left]. }
    destruct (negb (c_noshort cfg) && _); [exact CV1|].
    destruct (e_left (getE (sw_st s) ev)).
    + pose proof (handle_left_inv N cfg s1 ev op S1 Mev) as G.
      pose proof (handle_left_closure N cfg qext qext_refl qext_trans qext_upd qext_div s1 ev op S1 Mev) as C.
      destruct (handle_left cfg s1 ev op) as [s2| site |] eqn:Eh; cbn [obind]; try exact I.
      destruct G as [S2 _]. cbn [hr] in C.
      apply (IH s2 sbbox cbbox rightbound op S2). exact (covered_step s1 s2 CV1 C (handle_left_sorted s1 s2 ev op Eh)).
    + destruct (e_other (getE (sw_st s) ev)) as [other|].
      * pose proof (handle_right_inv N cfg s1 other S1) as G.
        pose proof (handle_right_closure N cfg qext qext_refl qext_trans qext_upd qext_div s1 other S1) as C.
        destruct (handle_right cfg s1 other) as [s2| site |] eqn:Eh; cbn [obind]; try exact I.
        destruct G as [S2 _]. cbn [hr] in C.
        apply (IH s2 sbbox cbbox rightbound op S2). exact (covered_step s1 s2 CV1 C (handle_right_sorted s1 s2 other Eh)).
      * cbn [obind]. apply (IH s1 sbbox cbbox rightbound op S1 CV1).
Qed.

(** without the early break the loop only ends on an empty queue *)
Definition complete_sweep (op : operation) : Prop := c_noshort cfg = true \/ op = Union \/ op = Xor.

Lemma sweep_loop_ends_empty : forall (fuel : nat) (s : sweep N) sbbox cbbox rightbound op s',
  complete_sweep op -> sweep_loop cfg fuel s sbbox cbbox rightbound op = Ok s' -> sw_q s' = [].
Proof.
  induction fuel as [|f IH]; intros s sbbox cbbox rightbound op s' Hc; cbn [sweep_loop].
  - destruct (qpop (sw_st s) (sw_q s)) eqn:Hp; [discriminate|]. intros H; inversion H; subst.
    unfold qpop in Hp. now apply pop_none in Hp.
  - destruct (qpop (sw_st s) (sw_q s)) as [[ev q']|] eqn:Hp.
    + assert (Hb : negb (c_noshort cfg) &&
                   (operation_eqb op Intersection && gtX N (px (e_point (getE (sw_st s) ev))) rightbound
                    || operation_eqb op Difference && gtX N (px (e_point (getE (sw_st s) ev))) (bb_maxx sbbox)) = false).
      { destruct Hc as [K|[->| ->]]; [rewrite K; reflexivity | destruct (negb (c_noshort cfg)); reflexivity ..]. }
      rewrite Hb.
      destruct (if e_left (getE (sw_st s) ev) then _ else _) as [s2| |]; cbn [obind]; try discriminate.
      now apply IH.
    + intros H; inversion H; subst. unfold qpop in Hp. now apply pop_none in Hp.
Qed.

Definition fqcov (s : fq N) : Prop := fqinv N s /\ forall i, mapped N (fq_st s) i -> In i (fq_q s).

Lemma process_edge_cov (s : fq N) subj cid ext (a b : pt N) : fqcov s -> fqcov (process_edge s subj cid ext a b).
Proof.
  intros [F CV]. split; [now apply process_edge_inv|].
  unfold process_edge. destruct (pt_eq a b); [exact CV|].
  destruct (alloc (fq_st s) (new_event cid a false None subj ext)) as [st1 e1] eqn:E1.
  destruct (alloc st1 (new_event cid b false (Some e1) subj ext)) as [st2 e2] eqn:E2.
  assert (H1 : st1 = fst (alloc (fq_st s) (new_event cid a false None subj ext))) by (rewrite E1; reflexivity).
  assert (H2 : st2 = fst (alloc st1 (new_event cid b false (Some e1) subj ext))) by (rewrite E2; reflexivity).
  assert (I1 : e1 = st_next (fq_st s)) by (unfold alloc in E1; now inversion E1).
  assert (I2 : e2 = st_next st1) by (unfold alloc in E2; now inversion E2).
  cbn [fq_st fq_q]. intros i Mi.
  assert (Mi2 : mapped N st2 i \/ i = e1 \/ i = e2).
  { revert Mi. destruct (ev_lt _ e1 e2); rewrite !mapped_upd; tauto. }
  apply (Permutation_in _ (Permutation_sym (qpush_perm _ _ _))).
  assert (K : i = e2 \/ i = e1 \/ mapped N (fq_st s) i).
  { destruct Mi2 as [K|[K|K]]; [|now right; left|now left].
    rewrite H2 in K. apply mapped_alloc in K. destruct K as [K|K]; [left; congruence|].
    rewrite H1 in K. apply mapped_alloc in K. destruct K as [K|K]; [right; left; congruence | now right; right]. }
  destruct K as [->|[->|K]]; [now left| |].
  - right. apply (Permutation_in _ (Permutation_sym (qpush_perm _ _ _))). now left.
  - right. apply (Permutation_in _ (Permutation_sym (qpush_perm _ _ _))). right. now apply CV.
Qed.

Lemma process_ring_from_cov : forall (rest : ring N) (s : fq N) subj cid ext (prev : pt N),
  fqcov s -> fqcov (process_ring_from s subj cid ext prev rest).
Proof. induction rest as [|p rest IH]; intros s subj cid ext prev H; cbn [process_ring_from]; [exact H|]. apply IH. now apply process_edge_cov. Qed.
Lemma process_ring_cov (s : fq N) (r : ring N) subj cid ext : fqcov s -> fqcov (process_ring s r subj cid ext).
Proof. intros H. destruct r; [exact H|]. now apply process_ring_from_cov. Qed.
Lemma process_interiors_cov : forall (ints : list (ring N)) (s : fq N) subj cid, fqcov s -> fqcov (process_interiors s ints subj cid).
Proof. unfold process_interiors. induction ints as [|r ints IH]; intros s subj cid H; cbn [fold_left]; [exact H|]. apply IH. now apply process_ring_cov. Qed.
Lemma fill_subject_cov : forall (ps : list (polygon N)) (s : fq N) cid, fqcov s -> fqcov (fst (fill_subject s cid ps)).
Proof. induction ps as [|P ps IH]; intros s cid H; cbn [fill_subject]; [exact H|]. apply IH. apply process_interiors_cov. now apply process_ring_cov. Qed.
Lemma fill_clipping_cov : forall (ps : list (polygon N)) (s : fq N) cid op, fqcov s -> fqcov (fst (fill_clipping s cid op ps)).
Proof. induction ps as [|P ps IH]; intros s cid op H; cbn [fill_clipping]; [exact H|]. apply IH. apply process_interiors_cov. now apply process_ring_cov. Qed.

Theorem fill_queue_covered (subject clipping : list (polygon N)) (op : operation) :
  forall i, mapped N (f_st (fill_queue subject clipping op)) i -> In i (f_q (fill_queue subject clipping op)).
Proof.
  unfold fill_queue.
  pose proof (fill_subject_cov subject (mkFQ (empty_store N) [] (empty_bb N)) 0%N) as H1.
  destruct (fill_subject (mkFQ (empty_store N) [] (empty_bb N)) 0 subject) as [s1 cid]. cbn [fst] in H1.
  assert (F1 : fqcov s1).
  { apply H1. split; [split; [apply empty_store_sinv | intros i []]|]. intros i M. exfalso. apply M. reflexivity. }
  pose proof (fill_clipping_cov clipping (mkFQ (fq_st s1) (fq_q s1) (empty_bb N)) cid op) as H2.
  destruct (fill_clipping (mkFQ (fq_st s1) (fq_q s1) (empty_bb N)) cid op clipping) as [s2 c2]. cbn [fst] in H2.
  cbn [f_st f_q]. apply H2. exact F1.
Qed.

(** C13: a sweep that runs to completion returns EVERY event that exists, each exactly once *)
Theorem subdivide_complete fuel (A B : list (polygon N)) op (st : store) (sorted : list eid) (n : nat) :
  complete_sweep op ->
  subdivide cfg fuel (fill_queue A B op) op = Ok (st, sorted, n) ->
  forall i, mapped N st i -> In i sorted.
Proof.
  intros Hc. unfold subdivide. destruct (fill_queue_inv N A B op) as [S0 Q0].
  set (s0 := mkSweep _ _ _ _).
  assert (I0 : swinv N s0).
  { unfold swinv, s0; cbn [sw_st sw_q sw_sl sw_sorted]. repeat split; try apply S0; try exact Q0; intros i []. }
  assert (CV0 : covered s0).
  { intros i Mi. unfold s0 in *. cbn [sw_st sw_q sw_sorted] in *. rewrite app_nil_r. now apply fill_queue_covered. }
  pose proof (sweep_loop_covered fuel s0 (f_sbbox (fill_queue A B op)) (f_cbbox (fill_queue A B op))
                (minX N (bb_maxx (f_sbbox (fill_queue A B op))) (bb_maxx (f_cbbox (fill_queue A B op)))) op I0 CV0) as PP.
  pose proof (sweep_loop_ends_empty fuel s0 (f_sbbox (fill_queue A B op)) (f_cbbox (fill_queue A B op))
                (minX N (bb_maxx (f_sbbox (fill_queue A B op))) (bb_maxx (f_cbbox (fill_queue A B op)))) op) as EE.
  destruct (sweep_loop _ _ _ _ _ _ _) as [s| site |]; cbn [obind]; try discriminate.
  intros H; inversion H; subst. intros i Mi. specialize (PP i Mi). rewrite (EE s Hc eq_refl) in PP. cbn [app] in PP.
  now apply in_rev in PP.
Qed.

End NoDupInst.
