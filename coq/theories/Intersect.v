(** * [segment_intersection.rs]: bounding box, clamp, [intersection], [intersection_impl]
    with the same operation order as the source. *)
From Coq Require Import Bool.
From GB Require Import Num.
Set Implicit Arguments.

Section Inter.
Variable N : Num.
Notation pt := (pt N).

Inductive line_intersection :=
| LNone
| LPoint (p : pt)
| LOverlap (p q : pt).

Record bbox := mkBox { bmin : pt; bmax : pt }.

Definition ordX (a b : X N) : X N * X N := if ltX N a b then (a, b) else (b, a).
Definition ordY (a b : Y N) : Y N * Y N := if ltY N a b then (a, b) else (b, a).

Definition get_intersection_bounding_box (a1 a2 b1 b2 : pt) : option bbox :=
  let ax := ordX (px a1) (px a2) in
  let ay := ordY (py a1) (py a2) in
  let bx := ordX (px b1) (px b2) in
  let by_ := ordY (py b1) (py b2) in
  let isx := maxX N (fst ax) (fst bx) in
  let isy := maxY N (fst ay) (fst by_) in
  let iex := minX N (snd ax) (snd bx) in
  let iey := minY N (snd ay) (snd by_) in
  if leX N isx iex && leY N isy iey
  then Some (mkBox (mkPt N isx isy) (mkPt N iex iey))
  else None.

Definition constrain_to_bounding_box (p : pt) (bb : bbox) : pt :=
  mkPt N
    (if ltX N (px p) (px (bmin bb)) then px (bmin bb)
     else if gtX N (px p) (px (bmax bb)) then px (bmax bb) else px p)
    (if ltY N (py p) (py (bmin bb)) then py (bmin bb)
     else if gtY N (py p) (py (bmax bb)) then py (bmax bb) else py p).

(** vectors are pairs of differences *)
Definition cross (ax ay bx by_ : D N) : A N := subAA N (mulDD N ax by_) (mulDD N ay bx).
Definition dot (ax ay bx by_ : D N) : A N := addAA N (mulDD N ax bx) (mulDD N ay by_).
Definition mid_point (p : pt) (s : Sc N) (dx dy : D N) : pt :=
  mkPt N (addX N (px p) (mulSD N s dx)) (addY N (py p) (mulSD N s dy)).

Definition intersection_impl (a1 a2 b1 b2 : pt) : line_intersection :=
  let vax := subX N (px a2) (px a1) in
  let vay := subY N (py a2) (py a1) in
  let vbx := subX N (px b2) (px b1) in
  let vby := subY N (py b2) (py b1) in
  let ex := subX N (px b1) (px a1) in
  let ey := subY N (py b1) (py a1) in
  let kross := cross vax vay vbx vby in
  let sqr_kross := mulAA N kross kross in
  let sqr_len_a := dot vax vay vax vay in
  if gt0A2 N sqr_kross then
    let s := divAA N (cross ex ey vbx vby) kross in
    if ltS N s (zeroS N) || gtS N s (oneS N) then LNone
    else
      let t := divAA N (cross ex ey vax vay) kross in
      if ltS N t (zeroS N) || gtS N t (oneS N) then LNone
      else if eqS N s (zeroS N) || eqS N s (oneS N) then LPoint (mid_point a1 s vax vay)
      else if eqS N t (zeroS N) || eqS N t (oneS N) then LPoint (mid_point b1 t vbx vby)
      else LPoint (mid_point a1 s vax vay)
  else
    let kross2 := cross ex ey vax vay in
    let sqr_kross2 := mulAA N kross2 kross2 in
    if gt0A2 N sqr_kross2 then LNone
    else
      let sa := divAA N (dot vax vay ex ey) sqr_len_a in
      let sb := addSS N sa (divAA N (dot vax vay vbx vby) sqr_len_a) in
      let smin := minS N sa sb in
      let smax := maxS N sa sb in
      if leS N smin (oneS N) && geS N smax (zeroS N) then
        if eqS N smin (oneS N) then LPoint (mid_point a1 smin vax vay)
        else if eqS N smax (zeroS N) then LPoint (mid_point a1 smax vax vay)
        else LOverlap (mid_point a1 (maxS N smin (zeroS N)) vax vay)
                      (mid_point a1 (minS N smax (oneS N)) vax vay)
      else LNone.

Definition intersection (a1 a2 b1 b2 : pt) : line_intersection :=
  match get_intersection_bounding_box a1 a2 b1 b2 with
  | Some bb =>
      match intersection_impl a1 a2 b1 b2 with
      | LNone => LNone
      | LPoint p => LPoint (constrain_to_bounding_box p bb)
      | LOverlap p q => LOverlap (constrain_to_bounding_box p bb) (constrain_to_bounding_box q bb)
      end
  | None => LNone
  end.

End Inter.
Arguments LNone {N}.
