(** * The contours use every selected sub-segment exactly once (C02 / C04), every instance.

    The contour stage walks over the result events; a round of the walk marks a position and
    the position of its partner and appends the partner's point.  With ghost traces (the
    positions marked, newest first) we prove: every round marks two FRESH positions — the marks
    stay closed under the partner link, the start of a contour and the answers of
    [get_next_pos] are unprocessed —, consecutive contour points are the two ends of the event
    pair marked in that round ([chainP]), and when the stage is over every position has been
    marked.  Hence the concatenated traces of all contours are a permutation of all positions:
    no sub-segment is traversed twice or by two rings, none is left out. *)
From Coq Require Import Bool List PArith NArith ZArith Lia Permutation.
From GB Require Import Prim Num Event Cmp Heap Outcome Connect FieldsProofs ConnectProofs ContourEdges.
Import ListNotations.

Lemma NoDup_app_intro' (A : Type) (l1 l2 : list A) :
  NoDup l1 -> NoDup l2 -> (forall x, In x l1 -> ~ In x l2) -> NoDup (l1 ++ l2).
Proof.
  induction l1 as [|a l1 IH]; intros H1 H2 Hd; cbn [app]; [exact H2|].
  inversion H1; subst. constructor.
  - rewrite in_app_iff. intros [K|K]; [contradiction | exact (Hd a (or_introl eq_refl) K)].
  - apply IH; auto. intros x Hx. apply Hd. now right.
Qed.

Lemma is_processed_in p z : is_processed p z = true <-> In z p.
Proof.
  unfold is_processed. rewrite existsb_exists. split.
  - intros (x & Hx & E). apply Z.eqb_eq in E. now subst.
  - intros H. exists z. split; [exact H | apply Z.eqb_refl].
Qed.
Lemma is_processed_false p z : is_processed p z = false <-> ~ In z p.
Proof.
  rewrite <- is_processed_in. destruct (is_processed p z).
  - split; [discriminate | intros H; exfalso; apply H; reflexivity].
  - split; [intros _ K; discriminate | reflexivity].
Qed.

Section Once.
Variable N : Num.
Variable cfg : config.
Notation store := (store N).
Notation pt := (pt N).

Variable st0 : store.
Variable res : list eid.
Variable map : list nat.
Hypothesis Hlen : length map = length res.
Hypothesis Htab : forall k, k < length res ->
  exists r nr nl, r <= k < r + nr + nl /\ r + nr + nl <= length res /\
    (forall k', r <= k' < r + nr + nl -> nth k' map 0 = succ_blk r nr nl k') /\
    (forall k', r <= k' < r + nr + nl -> ident st0 (nth r res xH) (nth k' res xH) = true).
Hypothesis Hpair : paired N st0 res.
Hypothesis Hpos : forall i o ki ko, at_pos res ki i -> at_pos res ko o -> e_other (getE st0 i) = Some o ->
  opos N st0 i = Z.of_nat ko.
Hypothesis Hnd : NoDup res.

(** one round: the positions [zk], [zko] of an event pair, [p] at the event's point, [q] the partner's point *)
Definition step_at (zk zko : Z) (p q : pt) : Prop :=
  exists k ko i o x, zk = Z.of_nat k /\ zko = Z.of_nat ko /\ at_pos res k i /\ at_pos res ko o /\
    e_other (getE st0 i) = Some o /\ pt_eq x p = true /\ pt_eq x (e_point (getE st0 i)) = true /\
    q = e_point (getE st0 o).

(** points newest first, trace newest first: two marks per edge *)
Fixpoint chainP (pts : list pt) (tr : list Z) : Prop :=
  match pts with
  | [] => False
  | q :: tl =>
      match tl with
      | [] => tr = []
      | p :: _ => match tr with
                  | zko :: zk :: tr' => step_at zk zko p q /\ chainP tl tr'
                  | _ => False
                  end
      end
  end.

(** the marks are closed under the partner link *)
Definition PC (p : processed) : Prop :=
  forall k ko i o, at_pos res k i -> at_pos res ko o -> e_other (getE st0 i) = Some o ->
    is_processed p (Z.of_nat k) = is_processed p (Z.of_nat ko).

Lemma partner_back i o : In i res -> e_other (getE st0 i) = Some o -> In o res /\ e_other (getE st0 o) = Some i /\ o <> i.
Proof. intros Hi Ho. destruct (Hpair i Hi) as (o' & Io & O1 & O2 & Hne & _). assert (o' = o) by congruence. subst. auto. Qed.

Lemma PC_mark2 p k ko i o :
  PC p -> at_pos res k i -> at_pos res ko o -> e_other (getE st0 i) = Some o ->
  PC (Z.of_nat ko :: Z.of_nat k :: p).
Proof.
  intros P Ki Ko Oi k' ko' i' o' Ki' Ko' Oi'.
  destruct (partner_back i o (at_pos_in _ _ _ Ki) Oi) as (Io & Ooi & Hne).
  destruct (partner_back i' o' (at_pos_in _ _ _ Ki') Oi') as (Io' & Ooi' & Hne').
  rewrite !is_processed_cons, (P k' ko' i' o' Ki' Ko' Oi').
  assert (E1 : Z.eqb (Z.of_nat k') (Z.of_nat k) = Z.eqb (Z.of_nat ko') (Z.of_nat ko)).
  { destruct (Z.eqb_spec (Z.of_nat k') (Z.of_nat k)) as [E|E], (Z.eqb_spec (Z.of_nat ko') (Z.of_nat ko)) as [F|F]; try reflexivity; exfalso.
    - apply Nat2Z.inj in E. subst k'. unfold at_pos in *. assert (i' = i) by congruence. subst i'. assert (o' = o) by congruence. subst o'.
      apply F. f_equal. exact (at_pos_inj _ _ _ _ Hnd Ko' Ko).
    - apply Nat2Z.inj in F. subst ko'. unfold at_pos in *. assert (o' = o) by congruence. subst o'. assert (i' = i) by congruence. subst i'.
      apply E. f_equal. exact (at_pos_inj _ _ _ _ Hnd Ki' Ki). }
  assert (E2 : Z.eqb (Z.of_nat k') (Z.of_nat ko) = Z.eqb (Z.of_nat ko') (Z.of_nat k)).
  { destruct (Z.eqb_spec (Z.of_nat k') (Z.of_nat ko)) as [E|E], (Z.eqb_spec (Z.of_nat ko') (Z.of_nat k)) as [F|F]; try reflexivity; exfalso.
    - apply Nat2Z.inj in E. subst k'. unfold at_pos in *. assert (i' = o) by congruence. subst i'. assert (o' = i) by congruence. subst o'.
      apply F. f_equal. exact (at_pos_inj _ _ _ _ Hnd Ko' Ki).
    - apply Nat2Z.inj in F. subst ko'. unfold at_pos in *. assert (o' = i) by congruence. subst o'. assert (i' = o) by congruence. subst i'.
      apply E. f_equal. exact (at_pos_inj _ _ _ _ Hnd Ki' Ko). }
  rewrite E1, E2.
  destruct (Z.eqb (Z.of_nat ko') (Z.of_nat k)), (Z.eqb (Z.of_nat ko') (Z.of_nat ko)), (is_processed p (Z.of_nat ko')); reflexivity.
Qed.

Lemma walk_loop_once (cid : Z) (initial : pt) : forall fuel (w : walk N) k r nr nl p_m tl trw w',
  geo_eq N st0 (w_st w) -> w_points w = p_m :: tl -> chainP (p_m :: tl) trw ->
  r <= k < r + nr + nl -> r + nr + nl <= length res ->
  (forall k', r <= k' < r + nr + nl -> nth k' map 0 = succ_blk r nr nl k') ->
  (forall k', r <= k' < r + nr + nl -> ident st0 (nth r res xH) (nth k' res xH) = true) ->
  pt_eq (e_point (getE st0 (nth r res xH))) p_m = true ->
  PC (w_processed w) -> is_processed (w_processed w) (Z.of_nat k) = false ->
  walk_loop fuel w res map (Z.of_nat k) cid initial = Ok w' ->
  geo_eq N st0 (w_st w') /\
  exists tr, w_processed w' = tr ++ w_processed w /\ chainP (w_points w') (tr ++ trw) /\
    NoDup tr /\
    (forall z, In z tr -> is_processed (w_processed w) z = false /\ exists kz, z = Z.of_nat kz /\ kz < length res) /\
    PC (w_processed w') /\ In (Z.of_nat k) tr.
Proof.
  induction fuel as [|f IH]; intros w k r nr nl p_m tl trw w' G Hpts Hch Hk Hb Hm Hid Hhead Pc Fk H; cbn [walk_loop] in H; [discriminate|].
  set (w1 := mark w res (Z.of_nat k) cid) in *.
  assert (G1 : geo_eq N st0 (w_st w1)) by now apply geo_eq_mark.
  assert (Kl : k < length res) by lia.
  set (i := nth k res xH).
  assert (Ki : at_pos res k i) by (unfold at_pos; now apply nth_error_nth').
  assert (Ii : In i res) by (eapply at_pos_in; eauto).
  destruct (Hpair i Ii) as (o & Io & Oi & Oo & Hne & Fl).
  destruct (In_nth_error res o Io) as [ko Kko].
  assert (Kol : ko < length res) by (apply nth_error_Some; unfold at_pos in Kko; congruence).
  assert (Hnev : nth_ev res (Z.of_nat k) = i) by (unfold nth_ev; now rewrite Nat2Z.id).
  assert (Epos1 : e_other_pos (getE (w_st w1) (nth_ev res (Z.of_nat k))) = Z.of_nat ko).
  { rewrite Hnev. rewrite (proj2 (proj2 (G1 i))). exact (Hpos i o k ko Ki Kko Oi). }
  rewrite Epos1 in H.
  assert (Hr1 : in_range (Z.of_nat ko) (length res) = true) by (apply in_range_iff; lia).
  rewrite Hr1 in H. cbn [negb] in H.
  set (w2 := mark w1 res (Z.of_nat ko) cid) in *.
  assert (G2 : geo_eq N st0 (w_st w2)) by now apply geo_eq_mark.
  cbn [w_st w_processed w_points] in H.
  assert (Eo : nth ko res xH = o) by (apply nth_error_nth; exact Kko).
  assert (Eq : point_of (w_st w2) (nth_ev res (Z.of_nat ko)) = e_point (getE st0 o)).
  { unfold point_of, nth_ev. rewrite Nat2Z.id, Eo. apply G2. }
  rewrite Eq in H.
  assert (Hpts2 : w_points w2 = p_m :: tl) by (unfold w2, w1, mark; cbn [w_points]; exact Hpts).
  rewrite Hpts2 in H.
  assert (Hpr2 : w_processed w2 = Z.of_nat ko :: Z.of_nat k :: w_processed w) by reflexivity.
  (* the new edge and the two fresh marks *)
  assert (Hstep : step_at (Z.of_nat k) (Z.of_nat ko) p_m (e_point (getE st0 o))).
  { exists k, ko, i, o, (e_point (getE st0 (nth r res xH))). repeat split; auto.
    specialize (Hid k Hk). unfold ident, point_of in Hid. exact Hid. }
  assert (Hch' : chainP (e_point (getE st0 o) :: p_m :: tl) (Z.of_nat ko :: Z.of_nat k :: trw)) by (cbn [chainP]; split; [exact Hstep | exact Hch]).
  assert (Fko : is_processed (w_processed w) (Z.of_nat ko) = false) by (rewrite <- (Pc k ko i o Ki Kko Oi); exact Fk).
  assert (Nk : k <> ko).
  { intros E. subst ko. unfold at_pos in *. apply Hne. congruence. }
  assert (Pc2 : PC (w_processed w2)) by (rewrite Hpr2; exact (PC_mark2 _ k ko i o Pc Ki Kko Oi)).
  assert (Base : geo_eq N st0 (w_st w2) /\
    exists tr, Z.of_nat ko :: Z.of_nat k :: w_processed w = tr ++ w_processed w /\
      chainP (e_point (getE st0 o) :: p_m :: tl) (tr ++ trw) /\ NoDup tr /\
      (forall z, In z tr -> is_processed (w_processed w) z = false /\ exists kz, z = Z.of_nat kz /\ kz < length res) /\
      PC (Z.of_nat ko :: Z.of_nat k :: w_processed w) /\ In (Z.of_nat k) tr).
  { split; [exact G2|]. exists [Z.of_nat ko; Z.of_nat k]. split; [reflexivity|]. split; [exact Hch'|]. split.
    - constructor; [intros [E|[]]; apply Nk; now apply Nat2Z.inj in E | constructor; [intros [] | constructor]].
    - split; [|split; [rewrite <- Hpr2; exact Pc2 | right; left; reflexivity]].
      intros z [<-|[<-|[]]]; (split; [assumption|]); [exists ko | exists k]; auto. }
  destruct (Htab ko Kol) as (r' & nr' & nl' & Hk' & Hb' & Hm' & Hid').
  unfold get_next_pos in H.
  destruct (get_next_pos_loop (S (length map)) (Z.of_nat ko) (Z.of_nat ko) (w_processed w2) map) as [[q|]| |] eqn:Eg;
    cbn [obind] in H; try discriminate.
  - destruct (get_next_pos_loop_in_group map (w_processed w2) r' nr' nl' (Z.of_nat ko) ltac:(lia) Hm' _ ko q Hk' Eg) as (kq & -> & Hkq).
    pose proof (get_next_pos_loop_unprocessed map (w_processed w2) (Z.of_nat ko) _ _ _ Eg) as Fq.
    destruct (pt_eq _ initial).
    + inversion H; subst w'. cbn [w_st w_points w_processed]. exact Base.
    + assert (Hhead' : pt_eq (e_point (getE st0 (nth r' res xH))) (e_point (getE st0 o)) = true).
      { specialize (Hid' ko Hk'). unfold ident, point_of in Hid'. rewrite Eo in Hid'. exact Hid'. }
      destruct (IH (mkWalk (w_st w2) (w_processed w2) (e_point (getE st0 o) :: p_m :: tl)) kq r' nr' nl'
                (e_point (getE st0 o)) (p_m :: tl) (Z.of_nat ko :: Z.of_nat k :: trw) w' G2 eq_refl Hch' Hkq Hb' Hm' Hid' Hhead' Pc2 Fq H)
        as (Gw & tr' & Ep & Cp & Nd & Fr & Pcw & Inq).
      cbn [w_processed] in Ep, Fr. rewrite Hpr2 in Ep, Fr.
      split; [exact Gw|]. exists (tr' ++ [Z.of_nat ko; Z.of_nat k]). split; [rewrite Ep, <- app_assoc; reflexivity|].
      split; [rewrite <- app_assoc; exact Cp|]. split; [|split; [|split; [exact Pcw|]]].
      * apply NoDup_app_intro'; [exact Nd | |].
        -- constructor; [intros [E|[]]; apply Nk; now apply Nat2Z.inj in E | constructor; [intros [] | constructor]].
        -- intros z Hz Hz2. destruct (Fr z Hz) as [Fz _]. rewrite !is_processed_cons in Fz.
           destruct Hz2 as [<-|[<-|[]]]; rewrite Z.eqb_refl in Fz; cbn in Fz; try discriminate.
           rewrite orb_true_r in Fz. discriminate.
      * intros z Hz. apply in_app_iff in Hz. destruct Hz as [Hz|Hz].
        -- destruct (Fr z Hz) as [Fz Rz]. split; [|exact Rz]. rewrite !is_processed_cons in Fz.
           apply orb_false_iff in Fz. destruct Fz as [_ Fz]. apply orb_false_iff in Fz. tauto.
        -- destruct Hz as [<-|[<-|[]]]; (split; [assumption|]); [exists ko | exists k]; auto.
      * apply in_app_iff. right. right. left. reflexivity.
  - inversion H; subst w'. cbn [w_st w_points w_processed]. exact Base.
Qed.

(** ** all contours *)
Lemma init_points_map (st : store) ev cs cid cs1 c :
  initialize_from_context cfg st ev cs cid = Ok (cs1, c) ->
  c_points c = [] /\ List.map (@c_points N) cs1 = List.map (@c_points N) cs.
Proof.
  assert (PH : forall parent child, List.map (@c_points N) (push_hole cs parent child) = List.map (@c_points N) cs).
  { intros parent child. unfold push_hole. destruct (nth_error cs (Z.to_nat parent)) as [pc|] eqn:E; [|reflexivity].
    revert E. generalize (Z.to_nat parent). induction cs as [|a l IHl]; intros [|j] E; cbn in E |- *; try discriminate.
    - inversion E; subst. reflexivity.
    - f_equal. now apply IHl. }
  unfold initialize_from_context.
  repeat match goal with
         | |- context [match ?x with Some _ => _ | None => _ end] => destruct x
         | |- context [if ?b then _ else _] => destruct b
         end; intros H; try discriminate; inversion H; subst; (split; [reflexivity|]); try reflexivity; apply PH.
Qed.

Definition inv_tr (p : processed) (ptss : list (list pt)) (trs : list (list Z)) : Prop :=
  Forall2 (fun pts tr => chainP (rev pts) tr) ptss trs /\ p = concat (rev trs) /\ NoDup p /\ PC p /\
  (forall z, In z p -> exists kz, z = Z.of_nat kz /\ kz < length res).

Lemma contours_loop_once : forall idxs (st : store) p contours trs st' cs',
  geo_eq N st0 st -> (forall i, In i idxs -> i < length res) ->
  inv_tr p (List.map (@c_points N) contours) trs ->
  contours_loop cfg idxs st p res map contours = Ok (st', cs') ->
  exists p' trs', inv_tr p' (List.map (@c_points N) cs') trs' /\
    (forall z, In z p -> In z p') /\ (forall i, In i idxs -> In (Z.of_nat i) p').
Proof.
  induction idxs as [|i rest IH]; intros st p contours trs st' cs' G Hi Inv H; cbn [contours_loop] in H.
  - inversion H; subst. exists p, trs. split; [exact Inv|]. split; [auto | intros i []].
  - assert (Hrest : forall j, In j rest -> j < length res) by (intros j Hj; apply Hi; now right).
    destruct (is_processed p (Z.of_nat i)) eqn:Fi.
    + destruct (IH _ _ _ _ _ _ G Hrest Inv H) as (p' & trs' & I' & Sub & Cov).
      exists p', trs'. split; [exact I'|]. split; [exact Sub|].
      intros j [<-|Hj]; [apply Sub; now apply is_processed_in | now apply Cov].
    + destruct (initialize_from_context cfg st (nth_ev res (Z.of_nat i)) contours (Z.of_nat (length contours)))
        as [[cs1 c0]|s|] eqn:E; cbn [obind] in H; try discriminate.
      destruct (init_points_map _ _ _ _ _ _ E) as [Pc0 Pcs1].
      set (initial := point_of st (nth_ev res (Z.of_nat i))) in *.
      destruct (walk_loop (S (length res)) (mkWalk st p [initial]) res map (Z.of_nat i) (Z.of_nat (length contours)) initial)
        as [w|s|] eqn:Ew; cbn [obind] in H; try discriminate.
      assert (Il : i < length res) by (apply Hi; now left).
      destruct (Htab i Il) as (r & nr & nl & Hk & Hb & Hm & Hid).
      assert (Hhead : pt_eq (e_point (getE st0 (nth r res xH))) initial = true).
      { unfold initial, point_of, nth_ev. rewrite Nat2Z.id. rewrite (proj1 (G (nth i res xH))).
        specialize (Hid i Hk). exact Hid. }
      destruct Inv as (F2 & Ep & Ndp & Pcp & Rp).
      destruct (walk_loop_once (Z.of_nat (length contours)) initial (S (length res)) (mkWalk st p [initial]) i r nr nl initial [] [] w
                  G eq_refl eq_refl Hk Hb Hm Hid Hhead Pcp Fi Ew) as (Gw & tr & Epw & Cw & Ndt & Fr & Pcw & Ini).
      cbn [w_processed] in Epw, Fr. rewrite app_nil_r in Cw.
      assert (Inv' : inv_tr (w_processed w)
                (List.map (@c_points N) (cs1 ++ [mkContour (rev (w_points w)) (c_hole_ids c0) (c_hole_of c0) (c_depth c0)])) (trs ++ [tr])).
      { split; [|split; [|split; [|split]]].
        - rewrite map_app, Pcs1. apply Forall2_app; [exact F2|]. cbn [List.map c_points]. constructor; [|constructor].
          rewrite rev_involutive. exact Cw.
        - rewrite Epw, rev_app_distr. cbn [rev app concat]. rewrite Ep. reflexivity.
        - rewrite Epw. apply NoDup_app_intro'; [exact Ndt | exact Ndp |].
          intros z Hz Hp. destruct (Fr z Hz) as [Fz _]. apply is_processed_false in Fz. contradiction.
        - exact Pcw.
        - intros z Hz. rewrite Epw in Hz. apply in_app_iff in Hz. destruct Hz as [Hz|Hz]; [exact (proj2 (Fr z Hz)) | exact (Rp z Hz)]. }
      destruct (IH _ _ _ _ _ _ Gw Hrest Inv' H) as (p' & trs' & I' & Sub & Cov).
      exists p', trs'. split; [exact I'|]. split.
      * intros z Hz. apply Sub. rewrite Epw. apply in_app_iff. now right.
      * intros j [<-|Hj]; [apply Sub; rewrite Epw; apply in_app_iff; now left | now apply Cov].
Qed.

End Once.

(** ** the theorem *)
Section OnceTheorem.
Variable N : Num.
Variable cfg : config.
Notation store := (store N).

Theorem contours_use_every_subsegment_once fuel (st : store) evs st' res cs :
  NoDup evs -> paired N st (filter (in_result_filter st) evs) ->
  connect_edges cfg fuel st evs = Ok (st', res, cs) ->
  exists (st1 : store) (trs : list (list Z)),
    (forall k, e_point (getE st1 k) = e_point (getE st k)) /\
    Forall2 (fun c tr => chainP N st1 res (rev (c_points c)) tr) cs trs /\
    Permutation (concat (rev trs)) (List.map Z.of_nat (seq 0 (length res))).
Proof.
  intros ND P. unfold connect_edges.
  destruct (order_events fuel st evs) as [[st1 r]|s|] eqn:Eo; cbn [obind]; try discriminate.
  destruct (order_events_exact N fuel st evs st1 r ND P Eo) as (NDr & Pr & SF & Pts & Pos).
  destruct (precompute_iteration_order cfg st1 r) as [map|s|] eqn:Em; cbn [obind]; try discriminate.
  destruct (precompute_range N cfg _ _ _ Em) as [Hlen _].
  destruct (contours_loop cfg (seq 0 (length r)) st1 [] r map []) as [[st2 cs2]|s|] eqn:Ec; cbn [obind]; try discriminate.
  intros H. inversion H; subst st' res cs. clear H.
  assert (Htab : forall k, k < length r ->
            exists r0 nr nl, r0 <= k < r0 + nr + nl /\ r0 + nr + nl <= length r /\
              (forall k', r0 <= k' < r0 + nr + nl -> nth k' map 0 = succ_blk r0 nr nl k') /\
              (forall k', r0 <= k' < r0 + nr + nl -> ident st1 (nth r0 r xH) (nth k' r xH) = true)).
  { intros k Hk. exact (table_stays_at_vertex N cfg st1 r map Em k Hk). }
  assert (G0 : geo_eq N st1 st1) by (intros k; auto).
  assert (Inv0 : inv_tr N st1 r [] (List.map (@c_points N) []) []).
  { split; [constructor|]. split; [reflexivity|]. split; [constructor|]. split; [intros k ko i o _ _ _; reflexivity | intros z []]. }
  destruct (contours_loop_once N cfg st1 r map Hlen Htab Pr Pos NDr (seq 0 (length r)) st1 [] [] [] st2 cs2 G0
              ltac:(intros i Hi; apply in_seq in Hi; lia) Inv0 Ec) as (p' & trs' & (F2 & Ep & Ndp & _ & Rp) & _ & Cov).
  exists st1, trs'. split; [exact Pts|]. split.
  - clear - F2. remember (List.map (@c_points N) cs2) as l eqn:El. revert cs2 El.
    induction F2 as [|pts tr l trs Hc F IH]; intros cs2 El; destruct cs2 as [|c cs2]; try discriminate; constructor.
    + cbn in El. inversion El; subst. exact Hc.
    + cbn in El. inversion El; subst. apply IH. reflexivity.
  - rewrite <- Ep. apply NoDup_Permutation; [exact Ndp | |].
    + apply FinFun.Injective_map_NoDup; [intros a b; apply Nat2Z.inj | apply seq_NoDup].
    + intros z. split.
      * intros Hz. destruct (Rp z Hz) as (kz & -> & Hk). apply in_map. apply in_seq. lia.
      * intros Hz. apply in_map_iff in Hz. destruct Hz as (k & <- & Hk). apply Cov. exact Hk.
Qed.

End OnceTheorem.

(** ** operand level, exact instance: finite operands, sweeps that run to completion *)
From Coq Require Import QArith.
From GB Require Import NumQ FillQueue Subdivide LinkProofs OnEdge OnEdgeFull SweepClosure Coverage ResultEdges ExactSweep.

Theorem exact_contours_once (A B : list (polygon NQ)) cfg fuel fuel' op st sorted n st' res cs :
  (forall P, In P A -> finite_poly P) -> (forall P, In P B -> finite_poly P) ->
  complete_sweep cfg op ->
  subdivide cfg fuel (fill_queue A B op) op = Ok (st, sorted, n) ->
  connect_edges cfg fuel' st sorted = Ok (st', res, cs) ->
  exists (st1 : store NQ) (trs : list (list Z)),
    (forall k, e_point (getE st1 k) = e_point (getE st k)) /\
    Forall2 (fun c tr => chainP NQ st1 res (rev (c_points c)) tr) cs trs /\
    Permutation (concat (rev trs)) (List.map Z.of_nat (seq 0 (length res))).
Proof.
  intros HA HB Hc Hs Hcon.
  pose proof (subdivide_on_edges_full (ops_edges A B) cfg fuel A B op st sorted n (ops_poly_ok_A A B HA) (ops_poly_ok_B A B HB) Hs) as OE.
  pose proof (subdivide_nodup NQ cfg fuel A B op st sorted n Hs) as ND.
  pose proof (subdivide_complete NQ cfg fuel A B op st sorted n Hc Hs) as CO.
  destruct (subdivide_linked NQ cfg fuel A B op st sorted n Hs) as [L AM].
  assert (P : paired NQ st (filter (in_result_filter st) sorted)).
  { intros i Hi. apply filter_In in Hi. destruct Hi as [Ii Fi].
    destruct (OE i Ii) as (o & Oi & (px & py & qx & qy & ax & ay & bx & by_ & _ & _ & _ & _ & _ & _ & Fl & _)).
    destruct (L i (AM i Ii)) as (o' & Oi' & Hne & Mo & Back & _). assert (o' = o) by congruence. subst o'.
    exists o. split; [|auto].
    apply filter_In. split; [now apply CO|].
    unfold in_result_filter in *. rewrite Fl, Back. rewrite Oi in Fi.
    destruct (e_left (getE st i)); cbn [negb andb orb] in *.
    - rewrite orb_false_r in Fi. exact Fi.
    - rewrite orb_false_r. exact Fi. }
  exact (contours_use_every_subsegment_once NQ cfg fuel' st sorted st' res cs ND P Hcon).
Qed.
