(** * [compute_fields.rs]: flag propagation and the per-operation selection tables *)
From Coq Require Import Bool List PArith.
From GB Require Import Num Event Cmp Outcome.
Set Implicit Arguments.

Section Fields.
Variable N : Num.
Variable cfg : config.
Notation store := (store N).

Definition in_result (e : event N) (op : operation) : bool :=
  match e_edge_type e with
  | Normal =>
      match op with
      | Intersection => negb (e_other_in_out e)
      | Union => e_other_in_out e
      | Difference =>
          (e_is_subject e && e_other_in_out e) || (negb (e_is_subject e) && negb (e_other_in_out e))
      | Xor => true
      end
  | SameTransition => operation_eqb op Intersection || operation_eqb op Union
  | DifferentTransition => operation_eqb op Difference
  | NonContributing => false
  end.

Definition determine_result_transition (e : event N) (op : operation) : result_transition :=
  let this_in := negb (e_in_out e) in
  let that_in :=
    if c_f1 cfg then
      match e_edge_type e with
      | SameTransition => this_in
      | DifferentTransition => negb this_in
      | _ => negb (e_other_in_out e)
      end
    else negb (e_other_in_out e) in
  let is_in :=
    match op with
    | Intersection => this_in && that_in
    | Union => this_in || that_in
    | Xor => xorb this_in that_in
    | Difference => if e_is_subject e then this_in && negb that_in else that_in && negb this_in
    end in
  if is_in then OutIn else InOut.

Definition compute_fields (st : store) (ev : eid) (maybe_prev : option eid) (op : operation) : store :=
  let st1 :=
    match maybe_prev with
    | Some prev =>
        let e := getE st ev in
        let p := getE st prev in
        let vert := is_vertical st prev in
        let st_a :=
          if eqb (e_is_subject e) (e_is_subject p) then
            if c_f2 cfg && vert
            then upd st ev (fun x => set_in_out x (e_in_out p) (e_other_in_out p))
            else upd st ev (fun x => set_in_out x (negb (e_in_out p)) (e_other_in_out p))
          else if vert
          then upd st ev (fun x => set_in_out x (negb (e_other_in_out p)) (negb (e_in_out p)))
          else upd st ev (fun x => set_in_out x (negb (e_other_in_out p)) (e_in_out p)) in
        if is_in_result p && negb vert
        then upd st_a ev (fun x => set_prev_in_result x (Some prev))
        else
          match e_prev_in_result p with
          | Some pp => upd st_a ev (fun x => set_prev_in_result x (Some pp))
          | None => upd st_a ev (fun x => set_prev_in_result x None)
          end
    | None =>
        upd (upd st ev (fun x => set_in_out x false true)) ev (fun x => set_prev_in_result x None)
    end in
  let e1 := getE st1 ev in
  let rt := if in_result e1 op then determine_result_transition e1 op else RTNone in
  upd st1 ev (fun x => set_result_transition x rt).

End Fields.
