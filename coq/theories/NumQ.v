(** * The exact instance of [Num]: rationals extended with the IEEE special values
    (+inf, -inf and an unordered NaN), so that the initial bounding boxes and divisions by
    zero behave under comparison as they do in the code.  Every finite result is exact (and
    kept reduced); [next_upX] is the identity (it is proved unreachable on this instance). *)
From Coq Require Import Bool ZArith QArith.
From GB Require Import Num.
Set Implicit Arguments.
Local Open Scope Q_scope.

Inductive qx := QF (q : Q) | QPInf | QNInf | QNaN.

Definition qsgn (q : Q) : comparison := Z.compare (Qnum q) 0.

Definition qx_opp (a : qx) : qx :=
  match a with QF q => QF (Qopp q) | QPInf => QNInf | QNInf => QPInf | QNaN => QNaN end.

Definition qx_add (a b : qx) : qx :=
  match a, b with
  | QNaN, _ | _, QNaN => QNaN
  | QF x, QF y => QF (Qred (x + y))
  | QPInf, QNInf | QNInf, QPInf => QNaN
  | QPInf, _ | _, QPInf => QPInf
  | QNInf, _ | _, QNInf => QNInf
  end.
Definition qx_sub (a b : qx) : qx := qx_add a (qx_opp b).

Definition inf_of_sign (c : comparison) : qx :=
  match c with Gt => QPInf | Lt => QNInf | Eq => QNaN end.
Definition sgn_of (a : qx) : comparison :=
  match a with QF q => qsgn q | QPInf => Gt | QNInf => Lt | QNaN => Eq end.
Definition sgn_mul (a b : comparison) : comparison :=
  match a, b with
  | Eq, _ | _, Eq => Eq
  | Gt, Gt | Lt, Lt => Gt
  | _, _ => Lt
  end.

Definition qx_mul (a b : qx) : qx :=
  match a, b with
  | QNaN, _ | _, QNaN => QNaN
  | QF x, QF y => QF (Qred (x * y))
  | _, _ => inf_of_sign (sgn_mul (sgn_of a) (sgn_of b))    (* 0 * inf = NaN *)
  end.

Definition qx_div (a b : qx) : qx :=
  match a, b with
  | QNaN, _ | _, QNaN => QNaN
  | QF x, QF y =>
      match qsgn y with
      | Eq => inf_of_sign (qsgn x)                          (* x/0 = +-inf, 0/0 = NaN *)
      | _ => QF (Qred (x / y))
      end
  | QF _, _ => QF 0
  | _, QF y => inf_of_sign (sgn_mul (sgn_of a) (match qsgn y with Eq => Gt | c => c end))
  | _, _ => QNaN
  end.

Definition qx_compare (a b : qx) : option comparison :=
  match a, b with
  | QNaN, _ | _, QNaN => None
  | QF x, QF y => Some (Qcompare x y)
  | QPInf, QPInf | QNInf, QNInf => Some Eq
  | QPInf, _ | _, QNInf => Some Gt
  | QNInf, _ | _, QPInf => Some Lt
  end.
Definition qx_lt a b := match qx_compare a b with Some Lt => true | _ => false end.
Definition qx_le a b := match qx_compare a b with Some Lt | Some Eq => true | _ => false end.
Definition qx_eq a b := match qx_compare a b with Some Eq => true | _ => false end.
Definition qx_is_nan a := match a with QNaN => true | _ => false end.
Definition qx_min a b :=
  match qx_compare a b with
  | Some Gt => b
  | Some _ => a
  | None => if qx_is_nan a then b else a
  end.
Definition qx_max a b :=
  match qx_compare a b with
  | Some Lt => b
  | Some _ => a
  | None => if qx_is_nan a then b else a
  end.

(** sign of (ax-cx)(by-cy) - (ay-cy)(bx-cx); [Eq] for non-finite arguments (as in [NumB]) *)
Definition qx_orient (ax ay bx by_ cx cy : qx) : comparison :=
  match ax, ay, bx, by_, cx, cy with
  | QF ax, QF ay, QF bx, QF by_, QF cx, QF cy =>
      Qcompare ((ax - cx) * (by_ - cy)) ((ay - cy) * (bx - cx))
  | _, _, _, _, _, _ => Eq
  end.

Definition NQ : Num :=
  @mkNum qx qx qx qx qx qx
    qx_lt qx_le qx_eq
    qx_lt qx_le qx_eq
    qx_min qx_max qx_min qx_max
    QPInf QNInf QPInf QNInf
    qx_sub qx_sub
    qx_add qx_add
    qx_mul
    qx_sub qx_add
    qx_mul
    (fun x => qx_lt (QF 0) x)
    qx_div
    qx_mul
    qx_add
    qx_min qx_max
    qx_lt qx_le qx_eq
    (QF 0) (QF 1)
    (fun x => x)
    qx_orient.
