(** * Teardown of the splay tree and a cost semantics for stack depth (C18).

    The machine stack cannot be exhibited by the model; what is modelled is the nesting
    depth of non-tail calls each operation stands for.  Rust's drop glue for
    [Option<Box<Node>>] recurses into the children: dropping a tree costs its height.  The
    repaired [clear]/[Drop]/[Drop for IntoIter] use [drop_iteratively]: a loop that rotates
    the left spine away and drops one childless-on-the-left node per step. *)
From Coq Require Import List Arith Lia.
From GB Require Import Splay.
Import ListNotations.
Set Implicit Arguments.

Section Teardown.
Variables K V : Type.
Notation tree := (tree K V).

(** recursion depth of the default drop glue on a tree *)
Definition glue_depth (t : tree) : nat := height t.

(** one iteration of [drop_iteratively]'s loop: [None] = the loop ends *)
Definition step (t : tree) : option (tree * nat) :=   (* new tree, number of nodes dropped *)
  match t with
  | Leaf => None
  | Node l x r =>
      match l with
      | Leaf => Some (r, 1)                         (* no left child: drop the node alone *)
      | Node ll y lr => Some (Node ll y (Node lr x r), 0)   (* rotate right *)
      end
  end.

Fixpoint run (fuel : nat) (t : tree) (dropped : nat) : option nat :=
  match step t with
  | None => Some dropped
  | Some (t', d) =>
      match fuel with
      | O => None
      | S f => run f t' (dropped + d)
      end
  end.

(** the potential that bounds the number of iterations *)
Fixpoint rspine (t : tree) : nat := match t with Leaf => 0 | Node _ _ r => S (rspine r) end.
Definition phi (t : tree) : nat := 2 * tsize t - rspine t.

Lemma rspine_le_size (t : tree) : rspine t <= tsize t.
Proof. induction t as [|l IHl x r IHr]; cbn; lia. Qed.

Lemma step_phi (t t' : tree) (d : nat) :
  step t = Some (t', d) -> S (phi t') = phi t /\ tsize t' + d = tsize t.
Proof.
  destruct t as [|l x r]; cbn [step]; [discriminate|].
  destruct l as [|ll y lr]; intros H; injection H as <- <-; unfold phi; cbn [tsize rspine];
    pose proof (rspine_le_size r); split; lia.
Qed.

(** the iterative teardown terminates within [phi t <= 2 * size] iterations and drops every
    node exactly once; each iteration is loop-free and call-free: constant stack *)
Theorem run_drops_all (t : tree) (fuel acc : nat) :
  phi t <= fuel -> run fuel t acc = Some (acc + tsize t).
Proof.
  revert t acc. induction fuel as [|f IH]; intros t acc Hf.
  - destruct t as [|l x r]; [cbn; f_equal; lia|].
    exfalso. unfold phi in Hf. cbn [tsize rspine] in Hf. pose proof (rspine_le_size r). lia.
  - destruct (step t) as [[t' d]|] eqn:Hs.
    + cbn [run]. rewrite Hs. destruct (step_phi _ Hs) as [Hp Hsz].
      rewrite IH by lia. f_equal. lia.
    + cbn [run]. rewrite Hs. destruct t as [|l x r]; [cbn; f_equal; lia|].
      cbn in Hs. destruct l; discriminate.
Qed.

Corollary teardown_terminates (t : tree) : run (2 * tsize t) t 0 = Some (tsize t).
Proof. rewrite run_drops_all; [reflexivity|]. unfold phi. lia. Qed.

End Teardown.

(** cost of each operation in nesting depth of non-tail calls (loops cost O(1)) *)
Inductive teardown_kind := GlueRecursive | Iterative.
Definition teardown_depth {K V} (k : teardown_kind) (t : tree K V) : nat :=
  match k with GlueRecursive => glue_depth t | Iterative => 1 end.
